import LunaVerif.Lemmas.C25RxCdcStreams
/-!
# C25: the write streams of a correctly encoded packet, and the combination of the two delayed streams

`packet_streams`: after the start flag the payload writes are the packet's bytes, at least seven bit times apart
(`pays_unstuff`, `sh_spaced`), the flags stream holds only the end flag, at least five bit times after the start;
pairing them with equal delay or with the payload one bit time late gives the bytes followed by the end flag.
`combine`: the three possible pairs of FIFO delays (4/4, 3/4, 3/3 bit times).
-/
set_option linter.unusedSimpArgs false
namespace LunaVerif.FsRxCdc
open LunaVerif.FsRx LunaVerif.FsCodec

/-! ### the write streams of a correctly encoded packet -/

theorem sync_streams (c : Nat) (hc : c ≤ 6) (e : Bool) :
    bitPays ⟨0, c, srInit, e⟩ (fbits syncBits) = List.replicate 8 none ∧
    bitFlgs ⟨0, c, srInit, e⟩ (fbits syncBits) = List.replicate 7 none ++ [some 2] := by
  have : c = 0 ∨ c = 1 ∨ c = 2 ∨ c = 3 ∨ c = 4 ∨ c = 5 ∨ c = 6 := by omega
  rcases this with h | h | h | h | h | h | h <;> subst h <;> cases e <;> decide

theorem active_flgs (bits : List Bool) : ∀ (n : Nat) (sr : List Bool) (e : Bool),
    bitFlgs ⟨6, n, sr, e⟩ (fbits bits) = List.replicate bits.length none := by
  induction bits with
  | nil => intro n sr e; rfl
  | cons b bs ih =>
    intro n sr e
    have hs : bitStep ⟨6, n, sr, e⟩ (b, false) =
        ⟨6, bsStep n b, (bitStep ⟨6, n, sr, e⟩ (b, false)).sr, (bitStep ⟨6, n, sr, e⟩ (b, false)).err⟩ := by
      simp [bitStep, detStep]
    simp only [fbits, List.map, bitFlgs, List.length_cons, List.replicate_succ]
    rw [hs]
    have := ih (bsStep n b) (bitStep ⟨6, n, sr, e⟩ (b, false)).sr (bitStep ⟨6, n, sr, e⟩ (b, false)).err
    simp only [fbits] at this
    rw [this]
    simp [bitFlg]

theorem eop_streams (n : Nat) (sr : List Bool) (x e : Bool) :
    bitPays ⟨6, n, sr, e⟩ [(x, true), (true, true), (false, false)] = [none, none, none] ∧
    bitFlgs ⟨6, n, sr, e⟩ [(x, true), (true, true), (false, false)] = [some 1, none, none] := by
  have hs : bitStep ⟨6, n, sr, e⟩ (x, true) = ⟨0, bsStep n x, srInit, e⟩ := by simp [bitStep, detStep]
  constructor
  · simp only [bitPays, hs]
    simp [bitPay, bitStep, detStep]
  · simp only [bitFlgs, hs]
    simp [bitFlg, bitStep, detStep]

theorem idle_streams (k : Nat) : ∀ (det c : Nat) (sr : List Bool) (e : Bool), det ≤ 1 →
    bitPays ⟨det, c, sr, e⟩ (List.replicate k (true, false)) = List.replicate k none ∧
    bitFlgs ⟨det, c, sr, e⟩ (List.replicate k (true, false)) = List.replicate k none := by
  induction k with
  | zero => intro det c sr e _; exact ⟨rfl, rfl⟩
  | succ k ih =>
    intro det c sr e hd
    obtain ⟨h1, _, _⟩ := inactive_step det c sr e (true, false) (by omega)
    have hdet : detStep det true false = 0 := by
      have : det = 0 ∨ det = 1 := by omega
      rcases this with h | h <;> subst h <;> rfl
    obtain ⟨i1, i2⟩ := ih 0 (bsStep c true) sr e (by omega)
    have h6 : (det == 6) = false := by simp; omega
    have h5 : (det == 5) = false := by simp; omega
    rw [List.replicate_succ, List.replicate_succ]
    simp only [bitPays, bitFlgs, h1, hdet, i1, i2]
    simp [bitPay, bitFlg, h6, h5]

/-- the shifter's payload writes -/
def shPays : List Bool → List Bool → List (Option Nat)
  | _, [] => []
  | sr, d :: ds =>
    (if sr.getD 7 false && !sr.getD 8 false then some (bitsVal ((shiftIn sr d).take 8).reverse) else none) ::
      shPays (shiftIn sr d) ds

theorem pays_unstuff (bits : List Bool) : ∀ (n : Nat) (sr : List Bool) (g : Nat), n ≤ 5 →
    SpacedG g (shPays sr bits) = true → SpacedG g (bitPays ⟨6, n, sr, false⟩ (fbits (stuff n bits))) = true := by
  induction bits with
  | nil => intro n sr g _ h; exact h
  | cons b bs ih =>
    intro n sr g hn h
    have h6 : (n == 6) = false := by simp; omega
    have hpay : ∀ d, bitPay ⟨6, n, sr, false⟩ (d, false) =
        (if sr.getD 7 false && !sr.getD 8 false then some (bitsVal ((shiftIn sr d).take 8).reverse) else none) := by
      intro d; simp [bitPay, h6]
    cases b with
    | false =>
      have hs : bitStep ⟨6, n, sr, false⟩ (false, false) = ⟨6, 0, shiftIn sr false, false⟩ := by
        simp [bitStep, detStep, bsStep, h6]
      simp only [stuff, fbits, List.map, bitPays, hs, hpay]
      simp only [shPays] at h
      cases hc : (sr.getD 7 false && !sr.getD 8 false)
      · simp only [hc, Bool.false_eq_true, if_false, SpacedG] at h ⊢
        exact ih 0 _ _ (by omega) h
      · simp only [hc, if_true, SpacedG, Bool.and_eq_true] at h ⊢
        exact ⟨h.1, ih 0 _ _ (by omega) h.2⟩
    | true =>
      by_cases hh : n + 1 = 6
      · have hs : bitStep ⟨6, n, sr, false⟩ (true, false) = ⟨6, 6, shiftIn sr true, false⟩ := by
          simp [bitStep, detStep, bsStep, h6]; omega
        have hs2 : bitStep ⟨6, 6, shiftIn sr true, false⟩ (false, false) = ⟨6, 0, shiftIn sr true, false⟩ := by
          simp [bitStep, detStep, bsStep]
        have hp2 : bitPay ⟨6, 6, shiftIn sr true, false⟩ (false, false) = none := by simp [bitPay]
        simp only [stuff, hh, if_true, fbits, List.map, bitPays, hs, hs2, hpay, hp2]
        simp only [shPays] at h
        cases hc : (sr.getD 7 false && !sr.getD 8 false)
        · simp only [hc, Bool.false_eq_true, if_false, SpacedG] at h ⊢
          exact ih 0 _ _ (by omega) (spacedG_mono _ _ _ (by omega) h)
        · simp only [hc, if_true, SpacedG, Bool.and_eq_true] at h ⊢
          exact ⟨h.1, ih 0 _ _ (by omega) (spacedG_mono _ _ _ (by omega) h.2)⟩
      · have hs : bitStep ⟨6, n, sr, false⟩ (true, false) = ⟨6, n + 1, shiftIn sr true, false⟩ := by
          simp [bitStep, detStep, bsStep, h6]
        simp only [stuff, hh, if_false, fbits, List.map, bitPays, hs, hpay]
        simp only [shPays] at h
        cases hc : (sr.getD 7 false && !sr.getD 8 false)
        · simp only [hc, Bool.false_eq_true, if_false, SpacedG] at h ⊢
          exact ih (n + 1) _ _ (by omega) h
        · simp only [hc, if_true, SpacedG, Bool.and_eq_true] at h ⊢
          exact ⟨h.1, ih (n + 1) _ _ (by omega) h.2⟩

theorem sh_spaced (bytes : List Nat) : ∀ (sr : List Bool), Aligned sr → ∀ g, SpacedG g (shPays sr (bitsOf bytes)) = true := by
  induction bytes with
  | nil => intro sr _ g; rfl
  | cons b bs ih =>
    intro sr h g
    obtain ⟨h1, h2⟩ := shiftIn_aligned sr h (b.testBit 0)
    have hal : Aligned [b.testBit 7, b.testBit 6, b.testBit 5, b.testBit 4, b.testBit 3, b.testBit 2, b.testBit 1,
        b.testBit 0, true] := Or.inl rfl
    have := ih _ hal 0
    simp only [bitsOf, byteBits_eq, List.cons_append, List.nil_append, shPays, h1, h2]
    simp only [shiftIn, List.getD_cons_succ, List.getD_cons_zero, List.getD_nil, List.take, Bool.false_eq_true,
      if_false, Bool.and_self, Bool.not_false, Bool.and_false, Bool.false_and, SpacedG, if_true, Bool.not_true,
      Bool.true_and]
    simp only [List.getD, List.getElem?_cons_succ, List.getElem?_cons_zero, Option.getD_some] at *
    simp only [SpacedG, this, Bool.and_true, decide_eq_true_eq]
    omega

/-! ### combining the two delayed streams -/

theorem usbEvN_start (P F : List (Option Nat)) :
    usbEvN false (none :: P) (some 2 :: F) = EvU.start :: usbEvN true P F := by
  have a1 : oStart (some 2) = true := by decide
  have a2 : oEnd (some 2) = false := by decide
  simp [usbEvN, ipNextO, a1, a2]

/-- payload stream `P2` and flags stream `F2` after the start flag, delayed by 3/4 bit times behind a prefix without
writes: the `usb` side sees the start and then the same events as the write side, whichever way the delays differ -/
theorem combine (P2 F2 : List (Option Nat)) (hl : P2.length = F2.length) (evs : List EvU)
    (h1 : usbEvN true P2 F2 = evs) (h2 : usbEvN true (none :: P2) (F2 ++ [none]) = evs)
    (Df Dp : Nat) (hD : (Df = 4 ∧ Dp = 4) ∨ (Df = 3 ∧ Dp = 4) ∨ (Df = 3 ∧ Dp = 3))
    (j : Nat) (E0 E1 E2 : List Bool) (hE0 : E0.length = j) (hE1 : E1.length = 8) (hE2 : ∀ x ∈ E2, x = false)
    (hE2l : E2.length = P2.length + 5) :
    usbEvO false
      (List.replicate j none ++ (List.replicate Dp none ++ (List.replicate 8 none ++ P2 ++ List.replicate 5 none)).take (8 + P2.length + 5))
      (List.replicate j none ++ (List.replicate Df none ++ (List.replicate 7 none ++ [some 2] ++ F2 ++ List.replicate 5 none)).take (8 + F2.length + 5))
      (E0 ++ (E1 ++ E2)) = EvU.start :: evs := by
  rcases hD with ⟨hf, hp⟩ | ⟨hf, hp⟩ | ⟨hf, hp⟩ <;> subst hf <;> subst hp
  · -- both delayed by 4
    have t1 : (List.replicate 4 none ++ (List.replicate 8 none ++ P2 ++ List.replicate 5 (none : Option Nat))).take (8 + P2.length + 5) =
        List.replicate 8 none ++ (List.replicate 3 none ++ (none :: P2 ++ [none])) := by
      have : List.replicate 4 none ++ (List.replicate 8 none ++ P2 ++ List.replicate 5 (none : Option Nat)) =
          (List.replicate 8 none ++ (List.replicate 3 none ++ (none :: P2 ++ [none]))) ++ List.replicate 4 none := by
        simp [List.replicate]
      rw [this, List.take_left']; simp; omega
    have t2 : (List.replicate 4 none ++ (List.replicate 7 none ++ [some 2] ++ F2 ++ List.replicate 5 (none : Option Nat))).take (8 + F2.length + 5) =
        List.replicate 8 none ++ (List.replicate 3 none ++ (some 2 :: F2 ++ [none])) := by
      have : List.replicate 4 none ++ (List.replicate 7 none ++ [some 2] ++ F2 ++ List.replicate 5 (none : Option Nat)) =
          (List.replicate 8 none ++ (List.replicate 3 none ++ (some 2 :: F2 ++ [none]))) ++ List.replicate 4 none := by
        simp [List.replicate]
      rw [this, List.take_left']; simp; omega
    rw [t1, t2, usbEvO_strip j E0 _ _ _ hE0, usbEvO_strip 8 E1 _ _ _ hE1,
      usbEvO_noerr _ _ _ _ hE2 (by simp [hE2l]), usbEvN_strip 3]
    simp only [List.cons_append]
    rw [usbEvN_start, usbEvN_trailing _ _ _ hl, h1]
  · -- flags 3, payload 4
    have t1 : (List.replicate 4 none ++ (List.replicate 8 none ++ P2 ++ List.replicate 5 (none : Option Nat))).take (8 + P2.length + 5) =
        List.replicate 8 none ++ (List.replicate 2 none ++ (none :: (none :: P2) ++ [none])) := by
      have : List.replicate 4 none ++ (List.replicate 8 none ++ P2 ++ List.replicate 5 (none : Option Nat)) =
          (List.replicate 8 none ++ (List.replicate 2 none ++ (none :: (none :: P2) ++ [none]))) ++ List.replicate 4 none := by
        simp [List.replicate]
      rw [this, List.take_left']; simp; omega
    have t2 : (List.replicate 3 none ++ (List.replicate 7 none ++ [some 2] ++ F2 ++ List.replicate 5 (none : Option Nat))).take (8 + F2.length + 5) =
        List.replicate 8 none ++ (List.replicate 2 none ++ (some 2 :: (F2 ++ [none]) ++ [none])) := by
      have : List.replicate 3 none ++ (List.replicate 7 none ++ [some 2] ++ F2 ++ List.replicate 5 (none : Option Nat)) =
          (List.replicate 8 none ++ (List.replicate 2 none ++ (some 2 :: (F2 ++ [none]) ++ [none]))) ++ List.replicate 3 none := by
        simp [List.replicate]
      rw [this, List.take_left']; simp; omega
    rw [t1, t2, usbEvO_strip j E0 _ _ _ hE0, usbEvO_strip 8 E1 _ _ _ hE1,
      usbEvO_noerr _ _ _ _ hE2 (by simp [hE2l]), usbEvN_strip 2]
    simp only [List.cons_append]
    rw [usbEvN_start]
    have := usbEvN_trailing (none :: P2) true (F2 ++ [none]) (by simp [hl])
    simp only [List.cons_append] at this
    rw [this, h2]
  · -- both delayed by 3
    have t1 : (List.replicate 3 none ++ (List.replicate 8 none ++ P2 ++ List.replicate 5 (none : Option Nat))).take (8 + P2.length + 5) =
        List.replicate 8 none ++ (List.replicate 2 none ++ (none :: (P2 ++ [none]) ++ [none])) := by
      have : List.replicate 3 none ++ (List.replicate 8 none ++ P2 ++ List.replicate 5 (none : Option Nat)) =
          (List.replicate 8 none ++ (List.replicate 2 none ++ (none :: (P2 ++ [none]) ++ [none]))) ++ List.replicate 3 none := by
        simp [List.replicate]
      rw [this, List.take_left']; simp; omega
    have t2 : (List.replicate 3 none ++ (List.replicate 7 none ++ [some 2] ++ F2 ++ List.replicate 5 (none : Option Nat))).take (8 + F2.length + 5) =
        List.replicate 8 none ++ (List.replicate 2 none ++ (some 2 :: (F2 ++ [none]) ++ [none])) := by
      have : List.replicate 3 none ++ (List.replicate 7 none ++ [some 2] ++ F2 ++ List.replicate 5 (none : Option Nat)) =
          (List.replicate 8 none ++ (List.replicate 2 none ++ (some 2 :: (F2 ++ [none]) ++ [none]))) ++ List.replicate 3 none := by
        simp [List.replicate]
      rw [this, List.take_left']; simp; omega
    rw [t1, t2, usbEvO_strip j E0 _ _ _ hE0, usbEvO_strip 8 E1 _ _ _ hE1,
      usbEvO_noerr _ _ _ _ hE2 (by simp [hE2l]), usbEvN_strip 2]
    simp only [List.cons_append]
    rw [usbEvN_start, usbEvN_trailing _ _ _ (by simp [hl]), usbEvN_trailing _ _ _ hl, h1]

/-! ### the streams of a correctly encoded packet, from the start flag on -/

theorem idle_gen (k : Nat) : ∀ (det c : Nat) (e : Bool), det ≤ 1 → c ≤ 6 →
    (∃ det' c', det' ≤ 1 ∧ c' ≤ 6 ∧
      bitRun ⟨det, c, srInit, e⟩ (List.replicate k (true, false)) = ⟨det', c', srInit, e⟩) ∧
    bitEvs ⟨det, c, srInit, e⟩ (List.replicate k (true, false)) = [] ∧
    (∀ p ∈ bitSEs ⟨det, c, srInit, e⟩ (List.replicate k (true, false)), p = (false, e)) := by
  cases k with
  | zero => intro det c e hd hc; exact ⟨⟨det, c, hd, hc, rfl⟩, rfl, by simp [bitSEs]⟩
  | succ k =>
    intro det c e hd hc
    obtain ⟨⟨c', hc', h1⟩, h2, h3⟩ := idle_bits k det c e hd hc
    exact ⟨⟨0, c', by omega, hc', h1⟩, h2, h3⟩

theorem spacedG_append_nones (X : List (Option Nat)) (n : Nat) : ∀ g, SpacedG g X = true →
    SpacedG g (X ++ List.replicate n none) = true := by
  induction X with
  | nil =>
    intro g _
    have := spacedG_nones n g []
    simp only [List.append_nil] at this
    simp only [List.nil_append, this, SpacedG]
  | cons x xs ih =>
    intro g h
    cases x with
    | none => exact ih _ h
    | some v =>
      simp only [List.cons_append, SpacedG, Bool.and_eq_true] at h ⊢
      exact ⟨h.1, ih _ h.2⟩

theorem stuff_length (bits : List Bool) : ∀ n, bits.length ≤ (stuff n bits).length := by
  induction bits with
  | nil => intro n; simp [stuff]
  | cons b bs ih =>
    intro n
    cases b with
    | false => simp only [stuff, List.length_cons]; have := ih 0; omega
    | true =>
      simp only [stuff]
      split
      · simp only [List.length_cons]; have := ih 0; omega
      · simp only [List.length_cons]; have := ih (n + 1); omega

theorem bitsOf_length (bytes : List Nat) : (bitsOf bytes).length = 8 * bytes.length := by
  induction bytes with
  | nil => rfl
  | cons b bs ih => simp only [bitsOf, byteBits_eq, List.length_append, List.length_cons, List.length_nil, ih]; omega

/-- the part of a good packet after SYNC: stuffed data, EOP, `m` idle bit times -/
def restBits (bytes : List Nat) (x : Bool) (m : Nat) : List (Bool × Bool) :=
  fbits (stuff 1 (bitsOf bytes)) ++ ([(x, true), (true, true), (false, false)] ++ List.replicate m (true, false))

theorem packet_streams (bytes : List Nat) (hne : bytes ≠ []) (hb : ∀ b ∈ bytes, b < 256) (x : Bool) (m : Nat) :
    let a1 : BB := ⟨6, 1, srInit, false⟩
    let P2 := bitPays a1 (restBits bytes x m)
    let F2 := bitFlgs a1 (restBits bytes x m)
    bitPays a1 (restBits bytes x m ++ List.replicate 5 (true, false)) = P2 ++ List.replicate 5 none ∧
    bitFlgs a1 (restBits bytes x m ++ List.replicate 5 (true, false)) = F2 ++ List.replicate 5 none ∧
    P2.length = F2.length ∧
    usbEvN true P2 F2 = bytes.map EvU.byte ++ [.fin] ∧
    usbEvN true (none :: P2) (F2 ++ [none]) = bytes.map EvU.byte ++ [.fin] ∧
    (∀ p ∈ bitSEs a1 (restBits bytes x m ++ List.replicate 5 (true, false)), p = (false, false)) ∧
    SpacedG 5 P2 = true ∧ SpacedG 0 F2 = true := by
  intro a1 P2 F2
  obtain ⟨⟨n', hn', d1⟩, d2, d3⟩ := unstuff_run (bitsOf bytes) 1 srInit (by omega)
  obtain ⟨_, a2⟩ := shifter_bytes bytes hb srInit (Or.inr rfl)
  obtain ⟨⟨c1, hc1, e1⟩, e2, e3⟩ := eop_run n' (shRun srInit (bitsOf bytes)) x false (by omega)
  obtain ⟨⟨det2, c2, hd2, hc2, i1⟩, i2, i3⟩ := idle_gen m 1 c1 false (by omega) hc1
  obtain ⟨⟨det3, c3, hd3, hc3, j1⟩, j2, j3⟩ := idle_gen 5 det2 c2 false hd2 hc2
  have hrun : bitRun a1 (restBits bytes x m) = ⟨det2, c2, srInit, false⟩ := by
    simp only [restBits, bitRun_append, a1, d1, e1, i1]
  have hevs : bitEvs a1 (restBits bytes x m) = bytes.map Ev.byte ++ [.fin] := by
    simp only [restBits, bitEvs_append, a1, d1, d2, a2, e1, e2, i2, List.append_nil]
  obtain ⟨s1, s2⟩ := idle_streams 5 det2 c2 srInit false hd2
  have hU : (bytes.map Ev.byte ++ [Ev.fin]).map toU = bytes.map EvU.byte ++ [.fin] := by
    simp [toU, List.map_append]
  refine ⟨?_, ?_, ?_, ?_, ?_, ?_, ?_, ?_⟩
  · rw [bitPays_append, hrun, s1]
  · rw [bitFlgs_append, hrun, s2]
  · simp only [P2, F2, bitPays_length, bitFlgs_length]
  · have := evN_bits (restBits bytes x m) a1
    rw [hevs, hU] at this
    exact this
  · have := evS_bits (restBits bytes x m) a1 none (by simp)
    rw [hevs, hU] at this
    exact this
  · rw [bitSEs_append, hrun]
    intro p hp
    rcases List.mem_append.mp hp with hp | hp
    · simp only [restBits, bitSEs_append, a1, d1, e1] at hp
      rcases List.mem_append.mp hp with hp | hp
      · exact d3 p hp
      rcases List.mem_append.mp hp with hp | hp
      · exact e3 p hp
      · exact i3 p hp
    · exact j3 p hp
  · -- payload writes are at least 7 bit times apart
    have hd := pays_unstuff (bitsOf bytes) 1 srInit 5 (by omega) (sh_spaced bytes srInit (Or.inr rfl) 5)
    obtain ⟨q1, _⟩ := eop_streams n' (shRun srInit (bitsOf bytes)) x false
    obtain ⟨r1, _⟩ := idle_streams m 1 c1 srInit false (by omega)
    have : P2 = (bitPays a1 (fbits (stuff 1 (bitsOf bytes))) ++ List.replicate 3 none) ++ List.replicate m none := by
      simp only [P2, restBits, bitPays_append, a1, d1, q1, e1, r1]
      simp [List.replicate]
    rw [this]
    exact spacedG_append_nones _ _ _ (spacedG_append_nones _ _ _ hd)
  · -- flags: nothing during the data, then the end flag
    obtain ⟨_, q2⟩ := eop_streams n' (shRun srInit (bitsOf bytes)) x false
    obtain ⟨_, r2⟩ := idle_streams m 1 c1 srInit false (by omega)
    have hf := active_flgs (stuff 1 (bitsOf bytes)) 1 srInit false
    have hlen : 5 ≤ (stuff 1 (bitsOf bytes)).length := by
      have h1 := stuff_length (bitsOf bytes) 1
      have h2 := bitsOf_length bytes
      have h3 : 1 ≤ bytes.length := by
        cases bytes with
        | nil => exact absurd rfl hne
        | cons _ _ => simp
      omega
    have : F2 = List.replicate (stuff 1 (bitsOf bytes)).length none ++
        (some 1 :: (List.replicate 2 none ++ (List.replicate m none ++ []))) := by
      simp only [F2, restBits, bitFlgs_append, a1, hf, d1, q2, e1, r2]
      simp [List.replicate]
    rw [this, spacedG_nones]
    simp only [SpacedG, Nat.zero_add, Bool.and_eq_true, decide_eq_true_eq]
    refine ⟨hlen, ?_⟩
    rw [spacedG_nones, spacedG_nones]; rfl

end LunaVerif.FsRxCdc
