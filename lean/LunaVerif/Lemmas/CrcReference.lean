/-
Sanity of the reference CRC definitions of `Core/Crc.lean` (the oracles of C30 and of the packet
models): known check values from outside this project —

* the token and data examples of usb.org's "CRC in USB" white paper (crcdes.pdf);
* the header packet recorded in the repository's tests (words 0x00000280 0x00010004 0x00000000,
  CRC-16 0x1845, link control word CRC-5 2);
* the flash-drive data payload recorded in tests/test_usb3_crc.py (CRC-32 0x540AA487);
* the CRC-32 check value of "123456789" (0xCBF43926);
* the residuals the specifications state: running the register on over the transmitted check field
  leaves 01100b (USB2 CRC5), 800Dh (USB2 CRC16), F6AAh (USB3 CRC-16), C704DD7Bh (USB3 CRC-32).
-/
import LunaVerif.Core.Crc

namespace LunaVerif.Crc

example : usb2Crc5 0x53A = 7 := by decide +kernel                          -- OUT addr 3a endp a
example : usb2Crc16 [0x00, 0x01, 0x02, 0x03] = 0x7AEF := by decide +kernel   -- wire bytes EF 7A
example : usb2Crc16 [0x23, 0x45, 0x67, 0x89] = 0x1C0E := by decide +kernel   -- wire bytes 0E 1C
example : usb3Crc16 [0x80, 0x02, 0, 0, 0x04, 0, 0x01, 0, 0, 0, 0, 0] = 0x1845 := by decide +kernel
example : usb3Crc5 0 = 2 := by decide +kernel
example : usb3Crc32 [0x31, 0x32, 0x33, 0x34, 0x35, 0x36, 0x37, 0x38, 0x39] = 0xCBF43926 := by decide +kernel

/-- register left after running on over the check field (`field`'s bit 0 is sent first) -/
def residual (poly : List Bool) (w : Nat) (bits : List Bool) : Nat :=
  let reg := serial poly (ones w) bits
  ofLsbBits (serial poly reg (lsbBits (field reg) w))

example : residual (lsbBits 0x05 5) 5 (lsbBits 0x53A 11) = 0b01100 := by decide +kernel
example : residual (lsbBits 0x8005 16) 16 (bytesBits [0x23, 0x45, 0x67]) = 0x800D := by decide +kernel
example : residual (lsbBits 0x100B 16) 16 (bytesBits [0x80, 0x02, 0, 0x04]) = 0xF6AA := by decide +kernel
example : residual (lsbBits 0x04C11DB7 32) 32 (bytesBits [0x31, 0x32, 0x33]) = 0xC704DD7B := by decide +kernel

end LunaVerif.Crc
