import LunaVerif.Lemmas.C25RxFront
/-!
# C25 receive chain, front end (synchronizers, line-state FSM, clock recovery, NRZI decoder) under CLOCK DRIFT and SKEW

The line is a sequence of *bit cells* `(symbol, number of 48 MHz samples, first sample)`: a transmitter whose bit clock is off
against the receiver's 48 MHz sampler produces cells of 4 samples with, now and then, a cell of 3 (fast transmitter)
or 5 (slow transmitter) samples (`dwave`).  `RxClockDataRecovery` re-synchronises `line_state_phase` on every line
transition (the FSM passes through `DT`, which clears the phase counter) and free-runs, one strobe per four samples,
between transitions.

The invariant is the position of the recovered bit clock against the cell boundaries: `Gk od c d k` is the front end
in the cycle in which `RxNRZIDecoder.o_valid` presents the bit `od` of the cell with symbol `c`, when `k` samples of
the next cell (symbol `d`) have been taken.  At nominal rate `k = 3` (`Gk od c d 3 = G od c d` of `C25RxFront`); a
slipped sample since the last transition makes it 2 or 4.  `blockD` (a finite check over all symbols, `k` and cell
lengths) moves `Gk od c d k` over the rest of cell `d` and the first `k'` samples of the next cell to `Gk _ d e k'`,
where `k' = 7 - n` if cell `d` started with a transition (the phase counter was cleared: the slip is forgotten) and
`k' = k + 4 - n` otherwise (`nextK`).  A cell stream is *trackable* (`track`) when `2 ≤ k ≤ 4` and `k ≤ n` all
along: then exactly one strobe falls into every cell, on a sample of that cell (`front_blocksD`: the bits presented
to the back end are those of the nominal-rate reception, `dbits_bits`; only the number of cycles between two strobes
varies, 3, 4 or 5).

Skew: at a J↔K transition both lines switch; the synchronizers may see them switch one sample apart, so that the first
sample of the new cell shows SE0 (falling line first) or SE1 (rising line first).  A cell carries what its first sample
shows (`Cell`, `firstIn`, `skewOk1`); the line FSM leaves the old state on that sample as it would on the new symbol,
enters `DT`, and reads the settled pair one cycle later, so the only trace is in the second synchronizer stage of
`Gk … 2 g`; `blockD` covers all combinations.

`track_of_drift`: a stream is trackable when every cell has 3, 4 or 5 samples, two cells of length ≠ 4 are at least
`M` cells apart (`driftOk M`), and no symbol is repeated more than `L < M` times (`runsOk L`; bit stuffing -- a
transition at least every seven bit times -- gives `L = 7`, so `M = 8` will do; ±0.25 % gives `M ≥ 99`).
-/
set_option linter.unusedSimpArgs false
namespace LunaVerif.FsRx
open LunaVerif.FsCodec

/-- `n` samples of symbol `x` -/
def rep (n : Nat) (x : Sym) : List In := List.replicate n (symIn x)

theorem rep_add (a b : Nat) (x : Sym) : rep a x ++ rep b x = rep (a + b) x := by
  simp only [rep, List.replicate_append_replicate]

/-- A bit cell: symbol, number of samples, and what its FIRST sample shows: `none` = the symbol (both lines switched in
the same sample), `some false` = SE0 (at a J↔K transition the falling line was seen one sample before the rising
one), `some true` = SE1 (the rising line first). -/
abbrev Cell := Sym × Nat × Option Bool

def firstIn (x : Sym) : Option Bool → In
  | none => symIn x
  | some false => ⟨false, false⟩
  | some true => ⟨true, true⟩

/-- the first `n ≥ 1` samples of a cell with symbol `x` -/
def cellIn (x : Sym) (n : Nat) (g : Option Bool) : List In := firstIn x g :: rep (n - 1) x

theorem cellIn_add (x : Sym) (a b : Nat) (g : Option Bool) (ha : 1 ≤ a) : cellIn x a g ++ rep b x = cellIn x (a + b) g := by
  simp only [cellIn, List.cons_append, rep_add]
  congr 2; omega

/-- a skewed first sample only where both lines switch: between J and K (`p` = the symbol before) -/
def skewOk1 (p x : Sym) (g : Option Bool) : Bool := g.isNone || ((p == .J && x == .K) || (p == .K && x == .J))

/-- sampling of a stream of bit cells -/
def dwave : List Cell → List In
  | [] => []
  | (x, n, g) :: w => cellIn x n g ++ dwave w

theorem dwave_append (a b : List Cell) : dwave (a ++ b) = dwave a ++ dwave b := by
  induction a with
  | nil => rfl
  | cons x xs ih => obtain ⟨s, n, g⟩ := x; simp only [List.cons_append, dwave, ih, List.append_assoc]

/-- nominal rate is the special case of four clean samples in every cell -/
theorem dwave_nominal (w : List Sym) : dwave (w.map (·, 4, none)) = wave w := by
  induction w with
  | nil => rfl
  | cons x xs ih => simp only [List.map, dwave, wave, ih]; rfl

/-- The front end in the cycle that presents the bit `od` of the cell with symbol `c` on `o_valid`/`o_data`/`o_se0`,
`k` samples of the next cell (symbol `d`, first sample `g`) being in.  Without a transition (`d = c`) the cell boundary
leaves no trace.  With one: after 2 samples the line FSM has not seen it yet (the first sample, skewed or not, is in the
second synchronizer stage); after 3 it is in `DT`; after 4 it has been through `DT` (flopped line state all-zero), and
`line_state_phase` has been cleared. -/
def Gk (od : Bool) (c d : Sym) (k : Nat) (g : Option Bool) : Front :=
  if d = c then G od c d
  else if k = 2 then { G od c d with line := lineOf c, p1 := (firstIn d g).usbp, n1 := (firstIn d g).usbn }
  else if k = 4 then { G od c d with line := lineOf d, lsSe0 := false, lsDj := false, lsDk := false, phase := 0 }
  else G od c d

theorem Gk_three (od : Bool) (c d : Sym) (g : Option Bool) : Gk od c d 3 g = G od c d := by
  simp [Gk]

/-- samples of the cell after `d` that are in when the bit of cell `d` (length `n`) is presented -/
def nextK (k : Nat) (c d : Sym) (n : Nat) : Nat := if d = c then k + 4 - n else 7 - n

/-- the recovered bit clock stays inside the cells over cell `d` of `n` samples -/
def okCell (k : Nat) (c d : Sym) (n : Nat) : Bool :=
  decide (2 ≤ k) && decide (k ≤ 4) && decide (3 ≤ n) && decide (n ≤ 5) && decide (k ≤ n) &&
    decide (2 ≤ nextK k c d n) && decide (nextK k c d n ≤ 4)

theorem okCell_iff (k : Nat) (c d : Sym) (n : Nat) : okCell k c d n = true ↔
    (2 ≤ k ∧ k ≤ 4 ∧ 3 ≤ n ∧ n ≤ 5 ∧ k ≤ n ∧ 2 ≤ nextK k c d n ∧ nextK k c d n ≤ 4) := by
  simp only [okCell, Bool.and_eq_true, decide_eq_true_eq, and_assoc]

/-- one strobe and `n - 1` hold cycles: what the back end sees between two strobes -/
def vblock (n : Nat) (b : Bool × Bool) : List Vdz := (true, b.1, b.2) :: List.replicate (n - 1) (false, b.1, b.2)

theorem vblock_four (b : Bool × Bool) : vblock 4 b = bitBlock b := rfl

/-- **one bit cell under drift and skew**: from the cycle presenting cell `c` (`k` samples of cell `d` in), over the
other `n - k` samples of `d` and the first `nextK` samples of the cell after it (`ge` = what its first sample shows). -/
theorem blockD (od : Bool) (c d e : Sym) (k n : Nat) (gd ge : Option Bool) (h : okCell k c d n = true)
    (hd : skewOk1 c d gd = true) (he : skewOk1 d e ge = true) :
    runF (Gk od c d k gd) (rep (n - k) d ++ cellIn e (nextK k c d n) ge) = Gk (bitOf c d) d e (nextK k c d n) ge ∧
    traceF (Gk od c d k gd) (rep (n - k) d ++ cellIn e (nextK k c d n) ge) =
      vblock (n - k + nextK k c d n) (od, se0Of c) := by
  have key : ∀ (gd ge : Option Bool) (od : Bool) (c d e : Sym) (k n : Fin 6), okCell k.val c d n.val = true →
      skewOk1 c d gd = true → skewOk1 d e ge = true →
      runF (Gk od c d k.val gd) (rep (n.val - k.val) d ++ cellIn e (nextK k.val c d n.val) ge) =
        Gk (bitOf c d) d e (nextK k.val c d n.val) ge ∧
      traceF (Gk od c d k.val gd) (rep (n.val - k.val) d ++ cellIn e (nextK k.val c d n.val) ge) =
        vblock (n.val - k.val + nextK k.val c d n.val) (od, se0Of c) := by
    intro gd ge od c d e
    rcases gd with _ | _ | _ <;> rcases ge with _ | _ | _ <;>
      cases od <;> cases c <;> cases d <;> cases e <;> decide +kernel
  obtain ⟨_, h2, _, h4, _, _, _⟩ := (okCell_iff k c d n).mp h
  exact key gd ge od c d e ⟨k, by omega⟩ ⟨n, by omega⟩ h hd he

/-! ### a whole stream -/

/-- the recovered bit clock stays inside the cells over cell `(d, n, g)` and all of `w`, and ends in the nominal
position; skewed first samples only at J↔K transitions -/
def track : Nat → Sym → Sym → Nat → Option Bool → List Cell → Bool
  | k, c, d, n, g, [] => okCell k c d n && skewOk1 c d g && decide (nextK k c d n = 3)
  | k, c, d, n, g, (e, ne, ge) :: w => okCell k c d n && skewOk1 c d g && track (nextK k c d n) d e ne ge w

/-- the inputs from the presenting cycle of cell `c` on (`k` samples of `(d, n, _)` are in): the cells of `w` follow,
then three samples of J (idle) -/
def dblocks : Nat → Sym → Sym → Nat → List Cell → List In
  | k, c, d, n, [] => rep (n - k) d ++ cellIn .J (nextK k c d n) none
  | k, c, d, n, (e, ne, ge) :: w =>
    (rep (n - k) d ++ cellIn e (nextK k c d n) ge) ++ dblocks (nextK k c d n) d e ne w

/-- (cycles until the next strobe, (`o_data`, `o_se0`)) for every strobe from the one presenting cell `c` on -/
def dbits : Bool → Nat → Sym → Sym → Nat → List Cell → List (Nat × (Bool × Bool))
  | od, k, c, d, n, [] => [(n - k + nextK k c d n, (od, se0Of c))]
  | od, k, c, d, n, (e, ne, _) :: w =>
    (n - k + nextK k c d n, (od, se0Of c)) :: dbits (bitOf c d) (nextK k c d n) d e ne w

def vblocks : List (Nat × (Bool × Bool)) → List Vdz
  | [] => []
  | (n, b) :: l => vblock n b ++ vblocks l

/-- regrouping the sample stream at the strobes -/
theorem dwave_dblocks (w : List Cell) : ∀ (k : Nat) (c d : Sym) (n : Nat) (g : Option Bool),
    track k c d n g w = true →
    cellIn d k g ++ dblocks k c d n w = dwave ((d, n, g) :: w) ++ rep 3 .J := by
  induction w with
  | nil =>
    intro k c d n g h
    simp only [track, Bool.and_eq_true, decide_eq_true_eq] at h
    obtain ⟨⟨h1, _⟩, h2⟩ := h
    obtain ⟨h3, _, _, _, h5, _, _⟩ := (okCell_iff k c d n).mp h1
    have hJ : cellIn .J 3 none = rep 3 .J := rfl
    simp only [dblocks, dwave, h2, hJ, List.append_nil, ← List.append_assoc, cellIn_add d k (n - k) g (by omega)]
    congr 3; omega
  | cons x w ih =>
    intro k c d n g h
    obtain ⟨e, ne, ge⟩ := x
    simp only [track, Bool.and_eq_true] at h
    obtain ⟨⟨h1, _⟩, h2⟩ := h
    obtain ⟨h3, _, _, _, h5, _, _⟩ := (okCell_iff k c d n).mp h1
    have := ih (nextK k c d n) d e ne ge h2
    simp only [dblocks, List.append_assoc]
    rw [this]
    simp only [dwave, ← List.append_assoc, cellIn_add d k (n - k) g (by omega)]
    congr 5; omega

/-- **the front end under drift**: from `Gk od c d k g`, over a trackable cell stream, the back end is shown one strobe
per cell -- the bits of `c`, `d` and all of `w` but its last cell -- and the front end ends in the nominal-rate
state `G`. -/
theorem front_blocksD (w : List Cell) : ∀ (od : Bool) (k : Nat) (c d : Sym) (n : Nat) (g : Option Bool),
    track k c d n g w = true →
    runF (Gk od c d k g) (dblocks k c d n w) =
      G (bitOf (prevSym c d (w.map (·.1))) (lastSym d (w.map (·.1)))) (lastSym d (w.map (·.1))) .J ∧
    traceF (Gk od c d k g) (dblocks k c d n w) = vblocks (dbits od k c d n w) := by
  induction w with
  | nil =>
    intro od k c d n g h
    simp only [track, Bool.and_eq_true, decide_eq_true_eq] at h
    obtain ⟨⟨h1, hg⟩, h2⟩ := h
    obtain ⟨b1, b2⟩ := blockD od c d .J k n g none h1 hg (by simp [skewOk1])
    simp only [dblocks, dbits, vblocks, List.map, lastSym, prevSym, List.append_nil]
    rw [b1, b2, h2, Gk_three]
    exact ⟨rfl, rfl⟩
  | cons x w ih =>
    intro od k c d n g h
    obtain ⟨e, ne, ge⟩ := x
    simp only [track, Bool.and_eq_true] at h
    obtain ⟨⟨h1, hg⟩, h2⟩ := h
    have hge : skewOk1 d e ge = true := by
      cases w with
      | nil => simp only [track, Bool.and_eq_true] at h2; exact h2.1.2
      | cons y w' => obtain ⟨y1, y2, y3⟩ := y; simp only [track, Bool.and_eq_true] at h2; exact h2.1.2
    obtain ⟨b1, b2⟩ := blockD od c d e k n g ge h1 hg hge
    obtain ⟨i1, i2⟩ := ih (bitOf c d) (nextK k c d n) d e ne ge h2
    simp only [dblocks, dbits, vblocks, List.map, lastSym, prevSym]
    rw [runF_append, traceF_append, b1, b2, i1, i2]
    exact ⟨rfl, rfl⟩

/-- the bits presented are those of the nominal-rate reception (`front_blocks`) -/
theorem dbits_bits (w : List Cell) : ∀ (od : Bool) (k : Nat) (c d : Sym) (n : Nat),
    (dbits od k c d n w).map (·.2) = (od, se0Of c) :: (symBits c (d :: w.map (·.1))).dropLast := by
  induction w with
  | nil => intro od k c d n; rfl
  | cons x w ih =>
    intro od k c d n
    obtain ⟨e, ne, ge⟩ := x
    have := ih (bitOf c d) (nextK k c d n) d e ne
    simp only [dbits, List.map, this, symBits, List.dropLast]

/-- … and two strobes are 3, 4 or 5 cycles apart -/
theorem dbits_lens (w : List Cell) : ∀ (od : Bool) (k : Nat) (c d : Sym) (n : Nat) (g : Option Bool),
    track k c d n g w = true → ∀ p ∈ dbits od k c d n w, 3 ≤ p.1 ∧ p.1 ≤ 5 := by
  have one : ∀ (k : Nat) (c d : Sym) (n : Nat), okCell k c d n = true →
      3 ≤ n - k + nextK k c d n ∧ n - k + nextK k c d n ≤ 5 := by
    intro k c d n h
    obtain ⟨h1, h2, h3, h4, h5, h6, h7⟩ := (okCell_iff k c d n).mp h
    revert h6 h7
    unfold nextK
    split <;> intros <;> omega
  induction w with
  | nil =>
    intro od k c d n g h p hp
    simp only [track, Bool.and_eq_true, decide_eq_true_eq] at h
    simp only [dbits, List.mem_singleton] at hp
    subst hp
    exact one k c d n h.1.1
  | cons x w ih =>
    intro od k c d n g h p hp
    obtain ⟨e, ne, ge⟩ := x
    simp only [track, Bool.and_eq_true] at h
    simp only [dbits, List.mem_cons] at hp
    rcases hp with hp | hp
    · subst hp; exact one k c d n h.1.1
    · exact ih _ _ _ _ _ ge h.2 p hp

/-! ### the drift envelope -/

/-- **drift envelope** on the cell lengths: every cell has 3, 4 or 5 samples, and two cells of length ≠ 4 are at
least `M` cells apart (`g` = number of cells since the last one of length ≠ 4). -/
def driftOk (M : Nat) : Nat → List Nat → Bool
  | _, [] => true
  | g, n :: ns => if n = 4 then driftOk M (g + 1) ns
                  else (decide (n = 3 ∨ n = 5) && decide (M ≤ g + 1) && driftOk M 0 ns)

/-- no symbol more than `L` times in a row (`j` = how often `c` has been seen so far) -/
def runsOk (L : Nat) : Sym → Nat → List Sym → Bool
  | _, _, [] => true
  | c, j, d :: w => if d = c then decide (j + 1 ≤ L) && runsOk L c (j + 1) w else runsOk L d 1 w

/-- last symbol of a stream that follows `c` -/
def endSym : Sym → List Sym → Sym
  | c, [] => c
  | _, d :: w => endSym d w

theorem endSym_concat (c : Sym) (w : List Sym) (x : Sym) : endSym c (w ++ [x]) = x := by
  induction w generalizing c with
  | nil => rfl
  | cons d w ih => exact ih d

/-- skewed first samples only at J↔K transitions (`p` = the symbol before the stream) -/
def skewOk : Sym → List Cell → Bool
  | _, [] => true
  | p, (x, _, g) :: w => skewOk1 p x g && skewOk x w

/-- **the envelope is trackable**: a slipped sample is forgotten at the next transition, which comes within `L` cells
(bit stuffing: `L = 7`); the next slip is at least `M ≥ L + 1` cells away.  Invariant: `k ≠ 3` only if the cell of
length ≠ 4 lies in the current run of `j ≤ L` equal symbols (`g < j`).  The cells after `cells` are handled by the
caller (`tail`). -/
theorem track_of_drift (L M : Nat) (hL : 1 ≤ L) (hLM : L + 1 ≤ M) (cells : List Cell) :
    ∀ (k : Nat) (c : Sym) (j g : Nat) (d : Sym) (n : Nat) (gd : Option Bool) (tail : List Cell),
    2 ≤ k → k ≤ 4 → j ≤ L → (k ≠ 3 → g < j) →
    driftOk M g (n :: cells.map (·.2.1)) = true → runsOk L c j (d :: cells.map (·.1)) = true →
    skewOk c ((d, n, gd) :: cells) = true →
    (∀ k', 2 ≤ k' → k' ≤ 4 → match tail with
      | [] => k' = 3
      | (e, ne, ge) :: t => track k' (endSym d (cells.map (·.1))) e ne ge t = true) →
    track k c d n gd (cells ++ tail) = true := by
  induction cells with
  | nil =>
    intro k c j g d n gd tail hk2 hk4 hj hinv hd hr hsk ht
    simp only [skewOk, Bool.and_true] at hsk
    -- this cell
    have hcell : okCell k c d n = true ∧ 2 ≤ nextK k c d n ∧ nextK k c d n ≤ 4 := by
      rw [okCell_iff]
      simp only [driftOk, runsOk, List.map] at hd hr
      unfold nextK
      by_cases h4 : n = 4
      · subst h4; split <;> omega
      · simp only [h4, if_false, Bool.and_eq_true, decide_eq_true_eq] at hd
        have hk3 : k = 3 := by
          by_cases hk : k = 3
          · exact hk
          · have := hinv hk; omega
        split <;> omega
    obtain ⟨h1, h2, h3⟩ := hcell
    have := ht (nextK k c d n) h2 h3
    match tail, this with
    | [], this => simp only [List.append_nil, track, h1, hsk, this, decide_true, Bool.and_self]
    | (e, ne, ge) :: t, this =>
      simp only [List.nil_append, track, h1, hsk, Bool.true_and]
      exact this
  | cons x cells ih =>
    intro k c j g d n gd tail hk2 hk4 hj hinv hd hr hsk ht
    obtain ⟨e, ne, ge⟩ := x
    simp only [List.map, driftOk, runsOk] at hd hr
    simp only [skewOk, Bool.and_eq_true] at hsk
    obtain ⟨hsk1, hsk2⟩ := hsk
    have hsk' : skewOk d ((e, ne, ge) :: cells) = true := by
      simp only [skewOk, Bool.and_eq_true]; exact hsk2
    simp only [List.cons_append, track, Bool.and_eq_true, hsk1, and_true]
    by_cases h4 : n = 4
    · subst h4
      simp only [if_true] at hd
      by_cases hdc : d = c
      · subst hdc
        simp only [if_true, Bool.and_eq_true, decide_eq_true_eq] at hr
        have hn : nextK k d d 4 = k := by simp [nextK]
        refine ⟨?_, ?_⟩
        · rw [okCell_iff, hn]; omega
        · rw [hn]
          exact ih k d (j + 1) (g + 1) e ne ge tail hk2 hk4 hr.1 (fun h => by have := hinv h; omega)
            (by simpa [driftOk] using hd) (by simpa [runsOk] using hr.2) hsk' ht
      · simp only [hdc, if_false] at hr
        have hn : nextK k c d 4 = 3 := by simp [nextK, hdc]
        refine ⟨?_, ?_⟩
        · rw [okCell_iff, hn]; omega
        · rw [hn]
          exact ih 3 d 1 (g + 1) e ne ge tail (by omega) (by omega) (by omega) (fun h => absurd rfl h)
            (by simpa [driftOk] using hd) (by simpa [runsOk] using hr) hsk' ht
    · simp only [h4, if_false, Bool.and_eq_true, decide_eq_true_eq] at hd
      obtain ⟨⟨hn35, hg⟩, hd'⟩ := hd
      have hk3 : k = 3 := by
        by_cases hk : k = 3
        · exact hk
        · have := hinv hk; omega
      subst hk3
      by_cases hdc : d = c
      · subst hdc
        simp only [if_true, Bool.and_eq_true, decide_eq_true_eq] at hr
        have hn : nextK 3 d d n = 7 - n := by simp [nextK]
        refine ⟨?_, ?_⟩
        · rw [okCell_iff, hn]; omega
        · rw [hn]
          exact ih (7 - n) d (j + 1) 0 e ne ge tail (by omega) (by omega) hr.1 (fun _ => by omega)
            (by simpa [driftOk] using hd') (by simpa [runsOk] using hr.2) hsk' ht
      · simp only [hdc, if_false] at hr
        have hn : nextK 3 c d n = 7 - n := by simp [nextK, hdc]
        refine ⟨?_, ?_⟩
        · rw [okCell_iff, hn]; omega
        · rw [hn]
          exact ih (7 - n) d 1 0 e ne ge tail (by omega) (by omega) (by omega) (fun _ => by omega)
            (by simpa [driftOk] using hd') (by simpa [runsOk] using hr) hsk' ht

end LunaVerif.FsRx
