import LunaVerif.Lemmas.C25RxFifoSpaced
/-!
# C25: `AsyncFIFOBuffered` when the writes are not aligned to 4-cycle bit times (clock drift)

Same FIFO model (`FsRxCdc.Fifo`, the abstraction of the nominal-rate theorems: Amaranth's `AsyncFIFOBuffered(depth=4)`
register by register, read every `usb` cycle) and the same method (finite check with tagged data, lifted by
`runFifo_mapData`), but positional per `usb_io` cycle instead of per 4-cycle bit time:

* `fifo_write17`: a write into an empty, settled FIFO followed by 16 cycles without a write is shown to the `usb` side
  at the 4th `usb`-edge cycle strictly after the write cycle (sample 3, or 4 if the write cycle is itself an edge
  cycle), exactly once, and the FIFO is empty and settled again after these 17 cycles -- so it never holds more than
  one entry when the writes are at least 17 cycles apart;
* `fifo_window`: the same with `t` idle cycles before and `K ≥ 16` after the write: the position of the one ready
  sample is `edges φ c (t + 1) + 3`, monotone in `t` (`edges_mono`);
* `fifo_vstream`: a stream of blocks of ≥ 3 cycles (`flatV`: one optional write per block, in cycle 0 or 2) in which
  every write block is followed by six blocks without a write (`SpacedV`): every write is delivered exactly once, in
  order, and the FIFO is settled at the end.
-/
set_option linter.unusedSimpArgs false
namespace LunaVerif.FsRxCdc

theorem edges_add (φ : Nat) (a b : Nat) : ∀ c, c < 4 → edges φ c (a + b) = edges φ c a + edges φ ((c + a) % 4) b := by
  induction a with
  | zero => intro c hc; simp [edges, Nat.mod_eq_of_lt hc]
  | succ a ih =>
    intro c hc
    have h1 : a + 1 + b = (a + b) + 1 := by omega
    have hcc : ((c + 1) % 4 + a) % 4 = (c + (a + 1)) % 4 := by omega
    rw [h1]
    simp only [edges, ih _ (Nat.mod_lt _ (by omega : 4 > 0)), hcc]
    omega

theorem edges_mono (φ : Nat) (a b : Nat) (h : a ≤ b) (c : Nat) (hc : c < 4) : edges φ c a ≤ edges φ c b := by
  obtain ⟨d, rfl⟩ : ∃ d, b = a + d := ⟨b - a, by omega⟩
  rw [edges_add φ a d c hc]; omega

theorem edges_17 (φ c : Nat) (hφ : φ < 4) (hc : c < 4) : edges φ c 17 = 4 + (if c == φ then 1 else 0) := by
  have hcs : c = 0 ∨ c = 1 ∨ c = 2 ∨ c = 3 := by omega
  have hps : φ = 0 ∨ φ = 1 ∨ φ = 2 ∨ φ = 3 := by omega
  rcases hcs with h | h | h | h <;> subst h <;> rcases hps with h' | h' | h' | h' <;> subst h' <;> decide

theorem tagged_write17 : ∀ (p : Fin 8) (c φ : Fin 4),
    (runFifo φ.val c.val (settled p.val [1, 2, 3, 4]) (some 5 :: List.replicate 16 none)).1 =
      settled ((p.val + 1) % 8) ([1, 2, 3, 4].set (p.val % 4) 5) ∧
    (runFifo φ.val c.val (settled p.val [1, 2, 3, 4]) (some 5 :: List.replicate 16 none)).2.map rdyData =
      List.replicate (3 + (if c.val == φ.val then 1 else 0)) none ++ [some 5] := by
  decide +kernel

/-- **one write, 16 cycles without**: shown once, at the 4th `usb`-edge cycle strictly after the write cycle, and the
FIFO is empty and settled again -/
theorem fifo_write17 (p c φ : Nat) (hp : p < 8) (hc : c < 4) (hφ : φ < 4) (mem : List Nat) (hm : mem.length = 4)
    (d : Nat) :
    (runFifo φ c (settled p mem) (some d :: List.replicate 16 none)).1 = settled ((p + 1) % 8) (mem.set (p % 4) d) ∧
    (runFifo φ c (settled p mem) (some d :: List.replicate 16 none)).2.map rdyData =
      List.replicate (3 + (if c == φ then 1 else 0)) none ++ [some d] := by
  obtain ⟨m0, m1, m2, m3, rfl⟩ := len4 mem hm
  let f : Nat → Nat := fun i => [0, m0, m1, m2, m3, d].getD i 0
  have h0 : f 0 = 0 := rfl
  obtain ⟨t1, t2⟩ := tagged_write17 ⟨p, hp⟩ ⟨c, hc⟩ ⟨φ, hφ⟩
  simp only [Fin.val_mk] at t1 t2
  have hmap := runFifo_mapData f h0 φ (some 5 :: List.replicate 16 none) c (settled p [1, 2, 3, 4])
  have hs : mapData f (settled p [1, 2, 3, 4]) = settled p [m0, m1, m2, m3] := mapData_settled4 f p hp 1 2 3 4
  have hw : (some 5 :: List.replicate 16 none).map (Option.map f) = some d :: List.replicate 16 none := by
    simp [f]
  rw [hw, hs] at hmap
  rw [hmap, t1]
  constructor
  · have : p = 0 ∨ p = 1 ∨ p = 2 ∨ p = 3 ∨ p = 4 ∨ p = 5 ∨ p = 6 ∨ p = 7 := by omega
    rcases this with h | h | h | h | h | h | h | h <;> subst h <;> rfl
  · simp only []
    rw [rdyData_map, t2]
    simp [f]

/-- `t` cycles without a write, a write, `K ≥ 16` cycles without a write -/
def window (t : Nat) (d : Nat) (K : Nat) : List (Option Nat) :=
  List.replicate t none ++ some d :: List.replicate K none

theorem window_length (t d K : Nat) : (window t d K).length = t + 1 + K := by
  simp [window]; omega

/-- **a write anywhere in a quiet stretch**: the one ready sample is at position `edges φ c (t + 1) + 3` -/
theorem fifo_window (p c φ : Nat) (hp : p < 8) (hc : c < 4) (hφ : φ < 4) (mem : List Nat) (hm : mem.length = 4)
    (t d K : Nat) (hK : 16 ≤ K) :
    (runFifo φ c (settled p mem) (window t d K)).1 = settled ((p + 1) % 8) (mem.set (p % 4) d) ∧
    (runFifo φ c (settled p mem) (window t d K)).2.map rdyData =
      List.replicate (edges φ c (t + 1) + 3) none ++ some d ::
        List.replicate (edges φ c (t + 1 + K) - (edges φ c (t + 1) + 4)) none := by
  obtain ⟨K', rfl⟩ : ∃ K', K = 16 + K' := ⟨K - 16, by omega⟩
  have hw : window t d (16 + K') =
      List.replicate t none ++ ((some d :: List.replicate 16 none) ++ List.replicate K' none) := by
    simp only [window, List.cons_append, ← List.replicate_append_replicate]
  have hc1 : (c + t) % 4 < 4 := Nat.mod_lt _ (by omega)
  have hc2 : ((c + t) % 4 + 17) % 4 < 4 := Nat.mod_lt _ (by omega)
  obtain ⟨a1, a2⟩ := fifo_idle_run φ hφ p hp mem hm t c hc
  obtain ⟨b1, b2⟩ := fifo_write17 p ((c + t) % 4) φ hp hc1 hφ mem hm d
  obtain ⟨e1, e2⟩ := fifo_idle_run φ hφ ((p + 1) % 8) (Nat.mod_lt _ (by omega)) (mem.set (p % 4) d) (by simp [hm]) K'
    (((c + t) % 4 + 17) % 4) hc2
  have hl1 : (List.replicate t (none : Option Nat)).length = t := by simp
  have hl2 : (some d :: List.replicate 16 (none : Option Nat)).length = 17 := by simp
  rw [hw, runFifo_append φ _ _ c _ hc, hl1, a1, runFifo_append φ _ _ _ _ hc1, hl2, b1, e1]
  refine ⟨rfl, ?_⟩
  simp only [List.map_append, a2, b2, e2]
  have hE1 : edges φ c (t + 1) = edges φ c t + (if (c + t) % 4 == φ then 1 else 0) := by
    rw [edges_add φ t 1 c hc]; simp [edges]
  have hE2 : edges φ c (t + 1 + (16 + K')) = edges φ c t + edges φ ((c + t) % 4) 17 +
      edges φ (((c + t) % 4 + 17) % 4) K' := by
    have : t + 1 + (16 + K') = t + (17 + K') := by omega
    rw [this, edges_add φ t (17 + K') c hc, edges_add φ 17 K' _ hc1]; omega
  rw [hE2, edges_17 φ _ hφ hc1, hE1]
  generalize edges φ c t = A
  generalize (if ((c + t) % 4 == φ) = true then 1 else 0) = X
  generalize edges φ (((c + t) % 4 + 17) % 4) K' = B
  have hsub : A + (4 + X) + B - (A + X + 4) = B := by omega
  have hadd : A + X + 3 = A + (3 + X) := by omega
  rw [hsub, hadd, ← List.replicate_append_replicate]
  simp only [List.append_assoc, List.cons_append, List.nil_append]
  have h3 : ∀ T : List (Option Nat), List.replicate 3 none ++ (List.replicate X none ++ T) =
      List.replicate (3 + X) none ++ T := by
    intro T; rw [← List.append_assoc, List.replicate_append_replicate]
  rw [h3, ← List.append_assoc, List.replicate_append_replicate]

/-! ### streams of blocks of 3, 4 or 5 cycles -/

/-- the cycles of a block of `n` cycles with an optional write in cycle `off` (0: flags, 2: payload) -/
def vblk (off n : Nat) (w : Option Nat) : List (Option Nat) :=
  if off == 0 then w :: List.replicate (n - 1) none else [none, none, w] ++ List.replicate (n - 3) none

def flatV (off : Nat) : List (Nat × Option Nat) → List (Option Nat)
  | [] => []
  | (n, w) :: r => vblk off n w ++ flatV off r

theorem flatV_append (off : Nat) (x y : List (Nat × Option Nat)) : flatV off (x ++ y) = flatV off x ++ flatV off y := by
  induction x with
  | nil => rfl
  | cons a x ih => obtain ⟨n, w⟩ := a; simp only [List.cons_append, flatV, ih, List.append_assoc]

theorem vblk_none (off n : Nat) (hn : 3 ≤ n) : vblk off n none = List.replicate n none := by
  obtain ⟨m, rfl⟩ : ∃ m, n = m + 3 := ⟨n - 3, by omega⟩
  unfold vblk
  split
  · simp [List.replicate_succ]
  · simp [List.replicate_succ]

theorem vblk_some (off n d : Nat) (hn : 3 ≤ n) (ho : off = 0 ∨ off = 2) :
    vblk off n (some d) = window off d (n - off - 1) := by
  rcases ho with h | h <;> subst h
  · simp [vblk, window]
  · have : n - 3 = n - 2 - 1 := by omega
    simp [vblk, window, List.replicate_succ, this]

theorem window_nones (t d K K' : Nat) : window t d K ++ List.replicate K' none = window t d (K + K') := by
  simp only [window, List.append_assoc, List.cons_append, List.replicate_append_replicate]

def lenSum : List (Nat × Option Nat) → Nat
  | [] => 0
  | (n, _) :: r => n + lenSum r

theorem flatV_length (off : Nat) (l : List (Nat × Option Nat)) (hl : ∀ x ∈ l, 3 ≤ x.1) :
    (flatV off l).length = lenSum l := by
  induction l with
  | nil => rfl
  | cons a r ih =>
    obtain ⟨n, w⟩ := a
    have hn : 3 ≤ n := hl (n, w) (by simp)
    have := ih (fun x hx => hl x (by simp [hx]))
    simp only [flatV, List.length_append, this, lenSum]
    congr 1
    unfold vblk
    split <;> simp <;> omega

theorem flatV_quiet (off : Nat) (l : List (Nat × Option Nat)) (hl : ∀ x ∈ l, 3 ≤ x.1) (hq : l.all (·.2.isNone) = true) :
    flatV off l = List.replicate (lenSum l) none := by
  induction l with
  | nil => rfl
  | cons a r ih =>
    obtain ⟨n, w⟩ := a
    simp only [List.all_cons, Bool.and_eq_true] at hq
    have hw : w = none := by cases w <;> simp_all
    subst hw
    rw [flatV, lenSum, vblk_none off n (hl (n, none) (by simp)), ih (fun x hx => hl x (by simp [hx])) hq.2,
      List.replicate_append_replicate]

theorem lenSum_ge (l : List (Nat × Option Nat)) (hl : ∀ x ∈ l, 3 ≤ x.1) : 3 * l.length ≤ lenSum l := by
  induction l with
  | nil => simp [lenSum]
  | cons a r ih =>
    obtain ⟨n, w⟩ := a
    have hn : 3 ≤ n := hl (n, w) (by simp)
    have := ih (fun x hx => hl x (by simp [hx]))
    simp only [lenSum, List.length_cons]; omega

/-- every block with a write is followed by six blocks without one -/
def SpacedV : List (Nat × Option Nat) → Bool
  | [] => true
  | (_, none) :: r => SpacedV r
  | (_, some _) :: r => decide (6 ≤ r.length) && (r.take 6).all (·.2.isNone) && SpacedV (r.drop 6)
termination_by l => l.length
decreasing_by all_goals (simp only [List.length_cons, List.length_drop]; omega)

def writesOf (l : List (Option Nat)) : List Nat := l.filterMap id

theorem writesOf_append (a b : List (Option Nat)) : writesOf (a ++ b) = writesOf a ++ writesOf b := by
  simp [writesOf, List.filterMap_append]

theorem writesOf_nones (n : Nat) : writesOf (List.replicate n none) = [] := by
  induction n with
  | zero => rfl
  | succ n ih => rw [List.replicate_succ]; simp [writesOf] at ih ⊢

/-- **the FIFO over a drifting block stream**: with every write block followed by six blocks (≥ 18 cycles) without a
write, every write is shown to the `usb` side exactly once, in order, and the FIFO is empty and settled at the end. -/
theorem fifo_vstream (φ off : Nat) (hφ : φ < 4) (ho : off = 0 ∨ off = 2) (W : List (Nat × Option Nat)) :
    (∀ x ∈ W, 3 ≤ x.1) → SpacedV W = true → ∀ (p : Nat) (mem : List Nat) (c : Nat), p < 8 → mem.length = 4 → c < 4 →
    (∃ p' mem', p' < 8 ∧ mem'.length = 4 ∧ (runFifo φ c (settled p mem) (flatV off W)).1 = settled p' mem') ∧
    writesOf ((runFifo φ c (settled p mem) (flatV off W)).2.map rdyData) = writesOf (W.map (·.2)) := by
  fun_induction SpacedV W with
  | case1 => intro _ _ p mem c hp hm _; exact ⟨⟨p, mem, hp, hm, rfl⟩, rfl⟩
  | case2 n r ih =>
    intro hl hs p mem c hp hm hc
    have hn : 3 ≤ n := hl (n, none) (by simp)
    obtain ⟨b1, b2⟩ := fifo_idle_run φ hφ p hp mem hm n c hc
    obtain ⟨i1, i2⟩ := ih (fun x hx => hl x (by simp [hx])) hs p mem ((c + n) % 4) hp hm (Nat.mod_lt _ (by omega))
    have hl1 : (List.replicate n (none : Option Nat)).length = n := by simp
    simp only [flatV, vblk_none off n hn]
    rw [runFifo_append φ _ _ c _ hc, hl1, b1]
    refine ⟨i1, ?_⟩
    simp only [List.map_append, writesOf_append, b2, writesOf_nones, i2, List.map, List.nil_append]
    simp [writesOf]
  | case3 n d r ih =>
    intro hl hs p mem c hp hm hc
    simp only [Bool.and_eq_true, decide_eq_true_eq] at hs
    obtain ⟨⟨h6, hq⟩, hs'⟩ := hs
    have hn : 3 ≤ n := hl (n, some d) (by simp)
    have hlt : ∀ x ∈ r.take 6, 3 ≤ x.1 := fun x hx => hl x (by simp [List.mem_of_mem_take hx])
    have hld : ∀ x ∈ r.drop 6, 3 ≤ x.1 := fun x hx => hl x (by simp [List.mem_of_mem_drop hx])
    have hsplit : flatV off ((n, some d) :: r) =
        window off d (n - off - 1 + lenSum (r.take 6)) ++ flatV off (r.drop 6) := by
      conv => lhs; rw [← List.take_append_drop 6 r]
      simp only [flatV, flatV_append, vblk_some off n d hn ho, flatV_quiet off _ hlt hq, ← List.append_assoc,
        window_nones]
    have hK : 16 ≤ n - off - 1 + lenSum (r.take 6) := by
      have := lenSum_ge (r.take 6) hlt
      have h6' : (r.take 6).length = 6 := by simp; omega
      omega
    obtain ⟨w1, w2⟩ := fifo_window p c φ hp hc hφ mem hm off d _ hK
    obtain ⟨i1, i2⟩ := ih hld hs' ((p + 1) % 8) (mem.set (p % 4) d)
      ((c + (window off d (n - off - 1 + lenSum (r.take 6))).length) % 4) (Nat.mod_lt _ (by omega)) (by simp [hm])
      (Nat.mod_lt _ (by omega))
    rw [hsplit, runFifo_append φ _ _ c _ hc, w1]
    refine ⟨i1, ?_⟩
    simp only [List.map_append, writesOf_append, w2, i2]
    have : (List.map (·.2) ((n, some d) :: r)) = some d :: ((r.take 6).map (·.2) ++ (r.drop 6).map (·.2)) := by
      rw [← List.map_append, List.take_append_drop]; rfl
    rw [this]
    have hqn : writesOf ((r.take 6).map (·.2)) = [] := by
      have : (r.take 6).map (·.2) = List.replicate (r.take 6).length none := by
        apply List.eq_replicate_iff.mpr
        refine ⟨by simp, ?_⟩
        intro b hb
        obtain ⟨x, hx, rfl⟩ := List.mem_map.mp hb
        have := List.all_eq_true.mp hq x hx
        cases h : x.2 <;> simp_all
      rw [this, writesOf_nones]
    have hcons : ∀ (x : Nat) (X : List (Option Nat)), writesOf (some x :: X) = x :: writesOf X := fun _ _ => rfl
    rw [hcons, hcons, writesOf_nones, writesOf_nones, writesOf_append, hqn]
    rfl

end LunaVerif.FsRxCdc
