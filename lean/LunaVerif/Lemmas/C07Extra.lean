import LunaVerif.Lemmas.C07Mps
import LunaVerif.Model.Usb2.ControlCycX
/-!
# Additional request handlers behind the request multiplexer

The refinement theorems of Lemmas/C07Stream*.lean / C07Mps.lean are about the control endpoint with the
`StandardRequestHandler` as its only request handler (`c.extra = []`; `CtrlCyc.step`: one handler + the
`StallOnlyRequestHandler` fallback).  `CtrlCyc.stepX` (Model/Usb2/ControlCycX.lean, co-simulated against the real
`USBControlEndpoint` with 0-2 additional handlers) is the same cycle with ANY number of additional, ABSTRACT request
handlers: their interface outputs are inputs of the cycle.

* `muxN_spec` -- the multiplexer's rule: the shared outputs are the outputs of the ONLY claiming handler; if nobody
  claims, or more than one handler claims, they are the fallback's (`fallbackOut`: STALL while `data_requested` /
  `status_requested`, nothing else).  `nobody_claims_stalls`, `only_claimant_drives`, `conflict_stalls`.
* `stepX_state` -- the registers of the control endpoint and of the standard handler never depend on the additional
  handlers; `stepX_unclaimed` -- in a cycle in which no additional handler claims, the whole cycle is `step`.
* an abstract additional handler `k` claims a set of requests: `claim = P k (setup packet)` (`ClaimsBy`).  Along every
  event history whose latched SETUP packets are claimed by none of them (`UnclaimedFrom`), whatever else these handlers
  drive, the cycle-level run with them IS the run without them (`extra_handlers_invisible`), so
  `cycle_refines_event_streams_run_mps` holds of it (`cycle_refines_event_streams_run_extra`).
-/
namespace LunaVerif.CtrlCyc
open LunaVerif.Device

/-! ### The multiplexer -/

theorem all_not_claim_iff (hs : List HOut) : hs.all (fun x => !x.claim) = true ↔ hs.filter (·.claim) = [] := by
  induction hs with
  | nil => simp
  | cons h hs ih =>
    cases hc : h.claim <;> simp [List.filter, hc, ih]

/-- **The multiplexer's rule**: the outputs of the only claiming handler; the fallback's if nobody or more than one
handler claims. -/
theorem muxN_spec (hs : List HOut) (i : HIn) :
    muxN hs i = match hs.filter (·.claim) with
      | [h] => h
      | _ => fallbackOut i := by
  induction hs with
  | nil => rfl
  | cons h hs ih =>
    cases hc : h.claim
    · simp only [muxN, hc, Bool.false_eq_true, if_false, List.filter, ih]
    · simp only [muxN, hc, if_true, List.filter]
      cases hf : hs.filter (·.claim) with
      | nil => rw [(all_not_claim_iff hs).mpr hf]; rfl
      | cons y ys =>
        have : hs.all (fun x => !x.claim) = false := by
          cases ha : hs.all (fun x => !x.claim)
          · rfl
          · rw [(all_not_claim_iff hs).mp ha] at hf; cases hf
        rw [this]; rfl

theorem muxN_single (o : HOut) (i : HIn) : muxN [o] i = muxOut o i := by
  simp [muxN, muxOut]

theorem muxN_unclaimed_tail (o : HOut) (xs : List HOut) (i : HIn) (h : ∀ x ∈ xs, x.claim = false) :
    muxN (o :: xs) i = muxOut o i := by
  have hall : xs.all (fun x => !x.claim) = true := by
    simp only [List.all_eq_true, Bool.not_eq_true']; exact h
  have hnone : ∀ ys : List HOut, (∀ x ∈ ys, x.claim = false) → muxN ys i = fallbackOut i := by
    intro ys
    induction ys with
    | nil => intro _; rfl
    | cons y ys ih =>
      intro hy
      simp only [muxN, hy y (List.mem_cons_self ..), Bool.false_eq_true, if_false]
      exact ih (fun x hx => hy x (List.mem_cons_of_mem _ hx))
  cases hc : o.claim
  · simp only [muxN, muxOut, hc, Bool.false_eq_true, if_false]; exact hnone xs h
  · simp only [muxN, muxOut, hc, if_true, hall]

/-- Nobody claims: the fallback stalls exactly while the control endpoint polls, and drives nothing else. -/
theorem nobody_claims_stalls (hs : List HOut) (i : HIn) (h : ∀ x ∈ hs, x.claim = false) :
    muxN hs i = fallbackOut i ∧ (muxN hs i).stall = (i.dataRequested || i.statusRequested) ∧
    (muxN hs i).txValid = false ∧ (muxN hs i).ack = false ∧ (muxN hs i).addressChanged = false ∧
    (muxN hs i).configChanged = false := by
  have hf : hs.filter (·.claim) = [] := by
    rw [List.filter_eq_nil_iff]; intro x hx; simp [h x hx]
  have : muxN hs i = fallbackOut i := by rw [muxN_spec, hf]
  rw [this]
  exact ⟨rfl, rfl, rfl, rfl, rfl, rfl⟩

/-- Exactly one handler claims: the multiplexer is transparent for it. -/
theorem only_claimant_drives (a b : List HOut) (h : HOut) (i : HIn) (hc : h.claim = true)
    (ha : ∀ x ∈ a, x.claim = false) (hb : ∀ x ∈ b, x.claim = false) : muxN (a ++ h :: b) i = h := by
  have hf : (a ++ h :: b).filter (·.claim) = [h] := by
    rw [List.filter_append, List.filter_cons, if_pos hc]
    have h1 : a.filter (·.claim) = [] := by rw [List.filter_eq_nil_iff]; intro x hx; simp [ha x hx]
    have h2 : b.filter (·.claim) = [] := by rw [List.filter_eq_nil_iff]; intro x hx; simp [hb x hx]
    rw [h1, h2]; rfl
  rw [muxN_spec, hf]

/-- Two handlers claim the same request: the fallback answers (STALL while polled), none of them is heard. -/
theorem conflict_stalls (a b d : List HOut) (h1 h2 : HOut) (i : HIn) (c1 : h1.claim = true) (c2 : h2.claim = true) :
    muxN (a ++ h1 :: (b ++ h2 :: d)) i = fallbackOut i := by
  rw [muxN_spec]
  have : ∃ y z ws, (a ++ h1 :: (b ++ h2 :: d)).filter (·.claim) = y :: z :: ws := by
    rw [List.filter_append, List.filter_cons, if_pos c1, List.filter_append, List.filter_cons, if_pos c2]
    cases ha : a.filter (·.claim) with
    | nil =>
      cases hb : b.filter (·.claim) with
      | nil => exact ⟨_, _, _, rfl⟩
      | cons y ys => exact ⟨_, _, _, rfl⟩
    | cons y ys =>
      cases ys with
      | nil => exact ⟨_, _, _, rfl⟩
      | cons z zs => exact ⟨_, _, _, rfl⟩
  obtain ⟨y, z, ws, hf⟩ := this
  rw [hf]

/-! ### One cycle -/

/-- The registers never depend on the additional handlers. -/
theorem stepX_state (c : Cfg) (s : CycState) (i : CycIn) (xs : List HOut) : (stepX c s i xs).1 = (step c s i).1 := rfl

/-- What the control endpoint asks the handlers, and the standard handler's own outputs, do not depend on them either. -/
theorem stepX_ctl (c : Cfg) (s : CycState) (i : CycIn) (xs : List HOut) :
    (stepX c s i xs).2.ctl = (step c s i).2.ctl ∧ (stepX c s i xs).2.h = (step c s i).2.h := ⟨rfl, rfl⟩

theorem stepX_nil (c : Cfg) (s : CycState) (i : CycIn) : stepX c s i [] = step c s i := by
  simp only [stepX, step, muxN_single]

/-- A cycle in which no additional handler claims is the cycle of the control endpoint without them. -/
theorem stepX_unclaimed (c : Cfg) (s : CycState) (i : CycIn) (xs : List HOut) (h : ∀ x ∈ xs, x.claim = false) :
    stepX c s i xs = step c s i := by
  simp only [stepX, step, muxN_unclaimed_tail _ xs _ h]

/-- A non-standard request that exactly one additional handler claims: the interface outputs are that handler's
(with the setup decoder's / PING acknowledgements of the control endpoint on `ack`). -/
theorem stepX_extra_owner (c : Cfg) (s : CycState) (i : CycIn) (a b : List HOut) (x : HOut)
    (hty : i.su.type ≠ TYPE_STANDARD) (hc : x.claim = true)
    (ha : ∀ y ∈ a, y.claim = false) (hb : ∀ y ∈ b, y.claim = false) :
    let o := (stepX c s i (a ++ x :: b)).2
    o.stall = x.stall ∧ o.txValid = x.txValid ∧ o.txFirst = x.txFirst ∧ o.txLast = x.txLast ∧
    o.txPayload = x.txPayload ∧ o.txPidToggle = (if x.txDataPid then 1 else 0) ∧
    o.ack = (i.sdAck || x.ack || (ctrlComb c s.stage i).pingAck) ∧
    o.addressChanged = x.addressChanged ∧ o.newAddress = x.newAddress ∧
    o.configChanged = x.configChanged ∧ o.newConfig = x.newConfig := by
  have hstd : (stdStep c s.h (handlerIn i (ctrlComb c s.stage i))).2.claim = false := by
    have : (handlerIn i (ctrlComb c s.stage i)).su = i.su := rfl
    simp [stdStep, this, hty]
  have hm : muxN ((stdStep c s.h (handlerIn i (ctrlComb c s.stage i))).2 :: (a ++ x :: b))
      (handlerIn i (ctrlComb c s.stage i)) = x := by
    have := only_claimant_drives ((stdStep c s.h (handlerIn i (ctrlComb c s.stage i))).2 :: a) b x
      (handlerIn i (ctrlComb c s.stage i)) hc
      (fun y hy => by
        rcases List.mem_cons.mp hy with rfl | hy
        · exact hstd
        · exact ha y hy) hb
    simpa using this
  simp [stepX, hm]

/-- A standard request that an additional handler claims too: the fallback stalls it when polled; nothing is
transmitted, no register strobe (the standard handler's registers still run: `stepX_state`). -/
theorem stepX_conflict (c : Cfg) (s : CycState) (i : CycIn) (a b : List HOut) (x : HOut)
    (hty : i.su.type = TYPE_STANDARD) (hc : x.claim = true) :
    let o := (stepX c s i (a ++ x :: b)).2
    o.stall = ((ctrlComb c s.stage i).dataRequested || (ctrlComb c s.stage i).statusRequested) ∧
    o.txValid = false ∧ o.addressChanged = false ∧ o.configChanged = false ∧ o.cehEnable = false := by
  have hstd : (stdStep c s.h (handlerIn i (ctrlComb c s.stage i))).2.claim = true := by
    have : (handlerIn i (ctrlComb c s.stage i)).su = i.su := rfl
    simp only [stdStep, this, hty, if_true, stdComb]
    cases s.h.hstate <;> simp [simpleDataOut, regWriteZlp]
  have hm := conflict_stalls [] a b (stdStep c s.h (handlerIn i (ctrlComb c s.stage i))).2 x
    (handlerIn i (ctrlComb c s.stage i)) hstd hc
  simp only [List.nil_append] at hm
  simp only [stepX, hm]
  exact ⟨rfl, rfl, rfl, rfl, rfl⟩

/-! ### Runs -/

def runX (c : Cfg) : CycState → List (CycIn × List HOut) → List (CycState × CycOut)
  | _, [] => []
  | s, (i, xs) :: rest => stepX c s i xs :: runX c (stepX c s i xs).1 rest

/-- Cycle by cycle the run with additional handlers that never claim is the run without them. -/
theorem runX_unclaimed (c : Cfg) (s : CycState) (ixs : List (CycIn × List HOut))
    (h : ∀ ix ∈ ixs, ∀ x ∈ ix.2, x.claim = false) : runX c s ixs = run c s (ixs.map (·.1)) := by
  induction ixs generalizing s with
  | nil => rfl
  | cons ix rest ih =>
    obtain ⟨i, xs⟩ := ix
    have h1 := stepX_unclaimed c s i xs (h (i, xs) (List.mem_cons_self ..))
    simp only [runX, List.map_cons, run, h1]
    rw [ih _ (fun ix hix => h ix (List.mem_cons_of_mem _ hix))]

/-- The additional handlers obey their claim contract in a cycle: handler `k` claims iff `P k` holds of the setup
packet the setup decoder shows in that cycle (a combinational function of the packet, as `claim` is in every LUNA
request handler). -/
def ClaimsBy (P : List (Setup → Bool)) (i : CycIn) (xs : List HOut) : Prop :=
  xs.map (·.claim) = P.map (fun p => p i.su)

/-- None of the additional handlers claims the packet. -/
def NoClaim (P : List (Setup → Bool)) (su : Setup) : Prop := ∀ p ∈ P, p su = false

theorem claims_false {P : List (Setup → Bool)} {i : CycIn} {xs : List HOut} (hc : ClaimsBy P i xs)
    (hn : NoClaim P i.su) : ∀ x ∈ xs, x.claim = false := by
  intro x hx
  have h1 : x.claim ∈ xs.map (·.claim) := List.mem_map_of_mem hx
  rw [hc] at h1
  obtain ⟨p, hp, he⟩ := List.mem_map.mp h1
  rw [← he]; exact hn p hp

/-! ### The cycles of an event show only the latched SETUP packets -/

theorem idleS_su (d : DevState) (ns : List CycIn) : ∀ i ∈ idleS d ns, i.su = d.setup := by
  intro i hi
  simp only [idleS, List.mem_map] at hi
  obtain ⟨n, _, rfl⟩ := hi
  rfl

theorem streamSeg_su (d : DevState) (fd : Bool) (bs : List Desc.Beat) (ns : List CycIn) :
    ∀ i ∈ streamSeg d fd bs ns, i.su = d.setup := by
  induction bs generalizing ns with
  | nil => intro i hi; cases ns <;> simp [streamSeg] at hi
  | cons b bs ih =>
    cases ns with
    | nil => intro i hi; simp [streamSeg] at hi
    | cons n ns =>
      intro i hi
      simp only [streamSeg, List.mem_cons] at hi
      rcases hi with rfl | hi
      · rfl
      · exact ih ns i hi

theorem readySeg_su (c : DevConfig) (d1 : DevState) (g : GapsS) : ∀ i ∈ readySeg c d1 g, i.su = d1.setup := by
  intro i hi
  unfold readySeg at hi
  split at hi
  · simp only [List.mem_singleton] at hi; subst hi; rfl
  · simp only [List.mem_append, List.mem_singleton] at hi
    rcases hi with rfl | hi
    · rfl
    · unfold streamWindow at hi
      split at hi
      · exact streamSeg_su _ _ _ _ i hi
      · simp at hi

/-- Every cycle of the expansion of an event shows the SETUP packet latched before the event or the one latched
after it. -/
theorem expandS_su (c : DevConfig) (d : DevState) (e : HostEvent) (g : GapsS) :
    ∀ i ∈ expandS c d e g, i.su = d.setup ∨ i.su = (core c d e).1.setup := by
  intro i hi
  have hidle : ∀ (dd : DevState) (ns : List CycIn), i ∈ idleS dd ns → i.su = dd.setup := fun dd ns h => idleS_su dd ns i h
  cases e with
  | token pid addr ep =>
    simp only [expandS] at hi
    split at hi
    · simp only [List.mem_append, List.mem_singleton] at hi
      rcases hi with h | rfl | h | h | h
      · exact Or.inl (hidle _ _ h)
      · exact Or.inl rfl
      · exact Or.inl (by have := hidle _ _ h; exact this)
      · exact Or.inl (by have := readySeg_su c _ g i h; exact this)
      · exact Or.inr (hidle _ _ h)
    · simp only [List.mem_append] at hi
      rcases hi with h | h
      · exact Or.inl (hidle _ _ h)
      · exact Or.inr (hidle _ _ h)
  | data dp p ok =>
    simp only [expandS] at hi
    split at hi
    · split at hi
      · rename_i hacc
        have hd' : (core c d (.data dp p true)).1.setup = parseSetup p := by
          have : core c d (.data dp p true) = onSetupData d p := by
            simp [core, onData, hacc.1, hacc.2.1, hacc.2.2]
          rw [this]; unfold onSetupData; simp only []; split <;> rfl
        rename_i hok
        subst hok
        simp only [List.mem_append, List.mem_singleton] at hi
        rcases hi with h | rfl | h | rfl | h | rfl | h
        · exact Or.inl (hidle _ _ h)
        · exact Or.inr hd'.symm
        · exact Or.inr (hidle _ _ h)
        · exact Or.inr rfl
        · exact Or.inr (hidle _ _ h)
        · exact Or.inr rfl
        · exact Or.inr (hidle _ _ h)
      · simp only [List.mem_append, List.mem_singleton] at hi
        rcases hi with h | rfl | h
        · exact Or.inl (hidle _ _ h)
        · exact Or.inl rfl
        · exact Or.inr (hidle _ _ h)
    · simp only [List.mem_append] at hi
      rcases hi with h | h
      · exact Or.inl (hidle _ _ h)
      · exact Or.inr (hidle _ _ h)
  | handshake pid =>
    simp only [expandS] at hi
    split at hi
    · simp only [List.mem_append, List.mem_singleton] at hi
      rcases hi with h | rfl | h
      · exact Or.inl (hidle _ _ h)
      · exact Or.inl rfl
      · exact Or.inr (hidle _ _ h)
    · simp only [List.mem_append] at hi
      rcases hi with h | h
      · exact Or.inl (hidle _ _ h)
      · exact Or.inr (hidle _ _ h)
  | _ =>
    simp only [expandS, List.mem_append] at hi
    rcases hi with h | h
    · exact Or.inl (hidle _ _ h)
    · exact Or.inr (hidle _ _ h)

theorem coreM_setup (c : DevConfig) (d : DevState) (e : HostEvent) : (coreM c d e).1.setup = (core c d e).1.setup := by
  cases e with
  | handshake pid => exact (onHandshakeM_ctl c.maxPacket d pid).2.2.2.2.2.1
  | _ => rfl

theorem expandRM_su (c : DevConfig) (d : DevState) (x : Stim) (g : GapsS) :
    ∀ ri ∈ expandRM c d x.ev g, ri.2.su = d.setup ∨ ri.2.su = (stepM c d x).1.setup := by
  intro ri hri
  have hs : (stepM c d x).1.setup = (core c d x.ev).1.setup := coreM_setup c d x.ev
  rw [hs]
  by_cases hrst : x.ev = .busReset
  · rw [hrst] at hri ⊢
    simp only [expandRM, noRst, List.mem_append, List.mem_cons, List.mem_map] at hri
    rcases hri with ⟨i, h, rfl⟩ | rfl | ⟨i, h, rfl⟩ | ⟨i, h, rfl⟩
    · exact Or.inl (idleS_su _ _ i h)
    · exact Or.inl rfl
    · exact Or.inl (by have := idleS_su _ _ i h; exact this)
    · exact Or.inl (by have := idleS_su _ _ i h; exact this)
  · have hE : expandRM c d x.ev g = noRst (expandS c d x.ev g) := by
      rw [expandRM_eq]
      cases hev : x.ev <;> first | exact absurd hev hrst | rfl
    rw [hE] at hri
    simp only [noRst, List.mem_map] at hri
    obtain ⟨i, h, rfl⟩ := hri
    exact expandS_su c d x.ev g i h

/-! ### Histories -/

/-- No SETUP packet latched along the history (start state included) is claimed by an additional handler. -/
def UnclaimedFrom (P : List (Setup → Bool)) (c : DevConfig) : DevState → List Stim → Prop
  | d, [] => NoClaim P d.setup
  | d, x :: xs => NoClaim P d.setup ∧ UnclaimedFrom P c (stepM c d x).1 xs

theorem UnclaimedFrom.head {P : List (Setup → Bool)} {c : DevConfig} {d : DevState} {h : List Stim}
    (hu : UnclaimedFrom P c d h) : NoClaim P d.setup := by
  cases h with
  | nil => exact hu
  | cons x xs => exact hu.1

theorem expandAllRM_su (P : List (Setup → Bool)) (c : DevConfig) (h : List (Stim × GapsS)) :
    ∀ d, UnclaimedFrom P c d (h.map (·.1)) → ∀ ri ∈ expandAllRM c d h, NoClaim P ri.2.su := by
  induction h with
  | nil => intro d _ ri hri; simp [expandAllRM] at hri
  | cons xg rest ih =>
    intro d hu ri hri
    obtain ⟨x, g⟩ := xg
    simp only [List.map_cons, UnclaimedFrom] at hu
    simp only [expandAllRM, List.mem_append] at hri
    rcases hri with hri | hri
    · rcases expandRM_su c d x g ri hri with e | e
      · rw [e]; exact hu.1
      · rw [e]; exact hu.2.head
    · exact ih _ hu.2 ri hri

/-- **Additional request handlers are invisible on the requests they do not claim.**  `P k` = the set of SETUP
packets the `k`-th additional handler claims (its `claim` output is `P k` of the packet the setup decoder shows);
everything else these handlers drive is arbitrary.  Along EVERY event history none of whose latched SETUP packets is
claimed by them, and for every expansion into clock cycles, the cycle-level run of the control endpoint WITH the
additional handlers behind its multiplexer is, state by state and output by output, the run without them. -/
theorem extra_handlers_invisible (P : List (Setup → Bool)) (c : DevConfig) (h : List (Stim × GapsS)) (d : DevState)
    (hu : UnclaimedFrom P c d (h.map (·.1))) (ext : List (List HOut))
    (hlen : ext.length = (expandAllRM c d h).length)
    (hcl : ∀ ix ∈ ((expandAllRM c d h).map (·.2)).zip ext, ClaimsBy P ix.1 ix.2) (cs : CycState) :
    runX (cfgOf c) cs (((expandAllRM c d h).map (·.2)).zip ext) = run (cfgOf c) cs ((expandAllRM c d h).map (·.2)) := by
  have hmap : (((expandAllRM c d h).map (·.2)).zip ext).map (·.1) = (expandAllRM c d h).map (·.2) := by
    apply List.map_fst_zip
    rw [List.length_map, hlen]; exact Nat.le_refl _
  rw [runX_unclaimed, hmap]
  intro ix hix
  have h1 : ix.1 ∈ (expandAllRM c d h).map (·.2) := by
    have := List.mem_map_of_mem (f := (·.1)) hix
    rw [hmap] at this; exact this
  obtain ⟨ri, hri, he⟩ := List.mem_map.mp h1
  have hn : NoClaim P ix.1.su := by rw [← he]; exact expandAllRM_su P c h d hu ri hri
  exact claims_false (hcl ix hix) hn

/-- **`cycle_refines_event_streams_run_mps` with additional request handlers.**  The device has any number of
additional, abstract request handlers behind its request multiplexer (`stepX`); handler `k` claims the SETUP packets
in `P k` and drives whatever it likes.  For every `max_packet_size` and along every event history of requests that none
of them claims (`UnclaimedFrom`; the standard handler claims the standard ones, the fallback stalls the others), the
run with the additional handlers is the run without them, and that run refines the event-level model `stepM` of the
device whose only request handler is the standard one (`c.extra = []`): final states related, the bus responses the
event-level ones, device.py's registers the event-level values. -/
theorem cycle_refines_event_streams_run_extra (P : List (Setup → Bool)) (c : DevConfig) (hx : c.extra = [])
    (h : List (Stim × GapsS)) (d : DevState) (hinv : Inv d) (hcfg : d.config < 256) (hfit : FitsFromM c d h = true)
    (hu : UnclaimedFrom P c d (h.map (·.1))) (ext : List (List HOut))
    (hlen : ext.length = (expandAllRM c d h).length)
    (hcl : ∀ ix ∈ ((expandAllRM c d h).map (·.2)).zip ext, ClaimsBy P ix.1 ix.2)
    (cs : CycState) (hr : Rel d cs) :
    runX (cfgOf c) cs (((expandAllRM c d h).map (·.2)).zip ext) = run (cfgOf c) cs ((expandAllRM c d h).map (·.2)) ∧
    Rel (finalM c d (h.map (·.1))) (final (cfgOf c) cs ((expandAllRM c d h).map (·.2))) ∧
    busRespsM c d cs h = coreRespsM c d (h.map (·.1)) ∧
    regsAfterR (d.address, d.config) (outsR (cfgOf c) cs (expandAllRM c d h)) =
      ((finalM c d (h.map (·.1))).address, (finalM c d (h.map (·.1))).config) :=
  ⟨extra_handlers_invisible P c h d hu ext hlen hcl cs, cycle_refines_event_streams_run_mps c hx h d hinv hcfg hfit cs hr⟩

/-! ### Non-vacuity -/

instance (P : List (Setup → Bool)) (su : Setup) : Decidable (NoClaim P su) := by unfold NoClaim; infer_instance

def UnclaimedFrom.dec (P : List (Setup → Bool)) (c : DevConfig) :
    (d : DevState) → (h : List Stim) → Decidable (UnclaimedFrom P c d h)
  | d, [] => inferInstanceAs (Decidable (NoClaim P d.setup))
  | d, x :: xs =>
    have := UnclaimedFrom.dec P c (stepM c d x).1 xs
    inferInstanceAs (Decidable (NoClaim P d.setup ∧ UnclaimedFrom P c (stepM c d x).1 xs))

instance (P : List (Setup → Bool)) (c : DevConfig) (d : DevState) (h : List Stim) : Decidable (UnclaimedFrom P c d h) :=
  UnclaimedFrom.dec P c d h

/-- a vendor-request handler (type 2, request 0x20) and a class-request handler (type 1, request 0x22) -/
def exP : List (Setup → Bool) :=
  [fun su => su.type == 2 && su.request == 0x20, fun su => su.type == 1 && su.request == 0x22]

/-- GET_STATUS, then a standard request with an unsupported code, from reset. -/
def exHistoryX : List Stim :=
  [⟨.token PID_SETUP 0 0, .none⟩, ⟨.data PID_DATA0 [0x80, 0, 0, 0, 0, 0, 2, 0] true, .none⟩, ⟨.token PID_IN 0 0, .none⟩,
   ⟨.handshake PID_ACK, .none⟩, ⟨.token PID_SETUP 0 0, .none⟩, ⟨.data PID_DATA0 [0x00, 0x20, 0, 0, 0, 0, 0, 0] true, .none⟩,
   ⟨.token PID_IN 0 0, .none⟩]

example : UnclaimedFrom exP {} Device.init exHistoryX := by decide
-- the vendor request itself IS claimed (by the first handler only)
example : ¬ NoClaim exP (parseSetup [0x40, 0x20, 0, 0, 0, 0, 0, 0]) := by decide

/-- additional handlers that obey the claim contract `P` and otherwise drive as much as they can (STALL, a data byte,
both register strobes) in every cycle. -/
def noisyExt (P : List (Setup → Bool)) (is : List CycIn) : List (List HOut) :=
  is.map (fun i => P.map (fun p => { claim := p i.su, stall := true, txValid := true, txFirst := true, txPayload := 0xEE,
                                     addressChanged := true, newAddress := 0x55, configChanged := true, newConfig := 0x77 }))

theorem noisyExt_claims (P : List (Setup → Bool)) (is : List CycIn) : ∀ ix ∈ is.zip (noisyExt P is), ClaimsBy P ix.1 ix.2 := by
  induction is with
  | nil => intro ix hix; simp [noisyExt] at hix
  | cons i is ih =>
    intro ix hix
    simp only [noisyExt, List.map_cons, List.zip_cons_cons, List.mem_cons] at hix
    rcases hix with rfl | hix
    · simp [ClaimsBy, Function.comp_def]
    · exact ih ix hix

def exGapsX : GapsS := { pre := [{}], mid := [{}], post := [{}], stream := [{}, { txReady := true }, { txReady := true }, {}] }
def exHistoryXG : List (Stim × GapsS) := exHistoryX.map (fun x => (x, exGapsX))

-- the hypotheses of `cycle_refines_event_streams_run_extra` for these handlers, and its first conclusion evaluated
example : UnclaimedFrom exP {} Device.init (exHistoryXG.map (·.1)) := by decide +kernel
example : FitsFromM {} Device.init exHistoryXG = true := by decide +kernel
example : (noisyExt exP ((expandAllRM {} Device.init exHistoryXG).map (·.2))).length =
    (expandAllRM {} Device.init exHistoryXG).length := by simp [noisyExt]
example : runX (cfgOf {}) CtrlCyc.init (((expandAllRM {} Device.init exHistoryXG).map (·.2)).zip
      (noisyExt exP ((expandAllRM {} Device.init exHistoryXG).map (·.2)))) =
    run (cfgOf {}) CtrlCyc.init ((expandAllRM {} Device.init exHistoryXG).map (·.2)) := by decide +kernel
-- (GET_STATUS is answered [0, 0]; the unsupported standard request is STALLed by the standard handler itself)
example : busRespsM {} Device.init CtrlCyc.init exHistoryXG =
    [.none, .hs PID_ACK, .data PID_DATA1 [0, 0], .none, .none, .hs PID_ACK, .hs PID_STALL] := by decide +kernel

-- the multiplexer on concrete outputs: one claimant drives, two claimants / nobody -> the fallback's STALL while polled
def exZlp : HOut := { claim := true, txValid := true, txLast := true }
example : muxN [{}, exZlp, {}] { statusRequested := true } = exZlp := by decide
example : (muxN [{}, exZlp, exZlp] { statusRequested := true }).stall = true ∧
    (muxN [{}, exZlp, exZlp] { statusRequested := true }).txValid = false := by decide
example : (muxN [{}, {}, {}] { dataRequested := true }).stall = true := by decide
-- the status stage of the vendor request on the control endpoint: the additional handler's ZLP reaches the interface
example : ((stepX {} { stage := .statusIn } { isIn := true, readyForResponse := true, su := { type := 2, request := 0x20 } }
    [exZlp, {}]).2.txValid, (stepX {} { stage := .statusIn }
      { isIn := true, readyForResponse := true, su := { type := 2, request := 0x20 } } [exZlp, {}]).2.txLast,
    (stepX {} { stage := .statusIn } { isIn := true, readyForResponse := true, su := { type := 2, request := 0x20 } }
      [exZlp, {}]).2.stall) = (true, true, false) := by decide
-- a standard request (GET_STATUS, handler in GET_STATUS) that an additional handler claims too: STALL
example : (stepX {} { stage := .dataIn, h := { hstate := .getStatus } }
    { isIn := true, readyForResponse := true, su := { type := 0, request := 0 } } [exZlp]).2.stall = true := by decide

end LunaVerif.CtrlCyc
