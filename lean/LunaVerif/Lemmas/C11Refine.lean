import LunaVerif.Lemmas.C11Host
/-!
# C11 — the exactly-once refinement (ghost-state induction)
-/
namespace LunaVerif.InXfer

/-! ## Buffer lemmas -/

theorem bufBytes_wNext (c : Config) (s : State) (i : In) (hd : i.discard = false)
    (hl : s.w.mem.length = c.mps) (hf : s.w.fill ≤ c.mps) :
    bufBytes (wNext c s i) = bufBytes s.w ++ (if wen c s i then [i.sPayload % 256] else []) := by
  unfold bufBytes wNext
  simp only [hd]
  by_cases hw : wen c s i = true
  · have hlt : s.w.fill < s.w.mem.length := by
      simp [wen, inReady] at hw
      omega
    simp only [hw, if_true, Bool.false_eq_true, if_false]
    rw [List.take_add_one, List.take_set_of_le (Nat.le_refl _)]
    simp [hlt]
  · simp [hw]

theorem bufBytes_rNext (c : Config) (s : State) (i : In) (hd : i.discard = false) :
    bufBytes (rNext c s i) = bufBytes s.r := by
  simp [bufBytes, rNext, hd]


theorem bufBytes_fill0 (b : Buf) (h : b.fill = 0) : bufBytes b = [] := by simp [bufBytes, h]

theorem data_glue {K kn pend pend' : List Nat} {P N : List (Nat × Bool)}
    (h : K ++ pend = P.map (·.1)) (hp : kn ++ pend' = pend ++ N.map (·.1)) :
    (K ++ kn) ++ pend' = (P ++ N).map (·.1) := by
  rw [List.append_assoc, hp, ← List.append_assoc, h, List.map_append]

/-- flattening after keeping one more packet -/
theorem flatten_snoc (L : List (List Nat)) (p : List Nat) : (L ++ [p]).flatten = L.flatten ++ p := by
  simp

/-! ## The refinement invariant -/

structure J (c : Config) (s : State) (g : Obs) : Prop where
  inv   : Inv c s
  first : s.first = (decide (s.fsm = .sendPacket) && decide (s.sendPos = 0))
  cur   : g.cur = if s.fsm = .sendPacket then s.r.mem.take s.sendPos else []
  cpid  : s.fsm = .sendPacket → 0 < s.sendPos → g.curPid = s.pid
  idle  : s.fsm = .waitData → g.hostPid = s.pid
  wack  : s.fsm = .waitAck → g.hostPid = s.pid
  data  : g.pkts.flatten ++ pending s g.hostPid = g.prod.map (·.1)

theorem J_init (c : Config) : J c (init c) obsInit := by
  refine ⟨inv_init c, ?_, ?_, ?_, ?_, ?_, ?_⟩ <;> simp [init, obsInit, pending, bufBytes, emptyBuf]

/-- The producer side of the ghost step, in terms of `wen`. -/
theorem obsProd_eq (c : Config) (s : State) (i : In) (g : Obs) :
    obsProd g i (step c s i).2 =
      { g with prod := g.prod ++ (if wen c s i then [(i.sPayload % 256, i.sLast)] else []) } := by
  have : (step c s i).2.sReady = inReady c s := by
    cases hfs : s.fsm <;> simp only [step, hfs] <;> (repeat' split) <;> rfl
  unfold obsProd
  rw [this]
  unfold wen
  split <;> simp

theorem J_step_waitData (c : Config) (s : State) (g : Obs) (i : In) (hl : LegalIn i)
    (hJ : J c s g) (hfs : s.fsm = .waitData) :
    J c (step c s i).1 (obsStep g (i, (step c s i).2)) := by
  obtain ⟨hd, hr⟩ := hl
  have hinv' := inv_step c s i hd hJ.inv
  have hv : (step c s i).2.valid = false := by
    simp only [step, hfs]; split <;> rfl
  have hw : obsWire g i (step c s i).2 = g := by simp [obsWire, hv]
  have hcur : g.cur = [] := by simpa [hfs] using hJ.cur
  have hhp := hJ.idle hfs
  have hr0 : s.r.fill = 0 := hJ.inv.idle hfs
  have hwb := bufBytes_wNext c s i hd hJ.inv.wlen hJ.inv.wfill
  have hdata := hJ.data
  simp only [obsStep, hw, obsProd_eq]
  by_cases hp : packetReady c s i = true
  · have hs : (step c s i).1 =
        { s with
          fsm := .waitSend, toggle := !s.toggle, pid := !s.pid,
          w := { rNext c s i with ended := false }, r := wNext c s i } := by
      simp [step, hfs, hp, hr]
    rw [hs] at hinv' ⊢
    refine ⟨hinv', ?_, ?_, ?_, ?_, ?_, ?_⟩
    · simpa [hfs] using hJ.first
    · simp [hcur]
    · simp
    · simp
    · simp
    · have e1 : bufBytes { rNext c s i with ended := false } = [] := by
        simp [bufBytes, rNext, hd, hr0]
      have := data_glue (kn := []) (N := if wen c s i then [(i.sPayload % 256, i.sLast)] else [])
        (pend' := bufBytes (wNext c s i)) hdata (by
          simp only [pending, hhp, hwb]; cases wen c s i <;> simp [bufBytes_fill0 _ hr0])
      simpa [pending, hhp, e1] using this
  · have hs : (step c s i).1 = { s with w := wNext c s i, r := rNext c s i } := by
      simp [step, hfs, hp, hr]
    rw [hs] at hinv' ⊢
    refine ⟨hinv', ?_, ?_, ?_, ?_, ?_, ?_⟩
    · simpa [hfs] using hJ.first
    · simp [hcur, hfs]
    · simp [hfs]
    · simp [hhp]
    · simp [hfs]
    · have := data_glue (kn := []) (N := if wen c s i then [(i.sPayload % 256, i.sLast)] else [])
        (pend' := bufBytes (rNext c s i) ++ bufBytes (wNext c s i)) hdata (by
          simp only [pending, hhp, hwb, bufBytes_rNext c s i hd]
          cases wen c s i <;> simp [bufBytes_fill0 _ hr0])
      simpa [pending, hhp, bufBytes_rNext c s i hd, bufBytes_fill0 _ hr0] using this


theorem J_step_waitSend (c : Config) (s : State) (g : Obs) (i : In) (hl : LegalIn i)
    (hJ : J c s g) (hfs : s.fsm = .waitSend) :
    J c (step c s i).1 (obsStep g (i, (step c s i).2)) := by
  obtain ⟨hd, hr⟩ := hl
  have hinv' := inv_step c s i hd hJ.inv
  have hcur : g.cur = [] := by simpa [hfs] using hJ.cur
  have hfirst : s.first = false := by simpa [hfs] using hJ.first
  have hwb := bufBytes_wNext c s i hd hJ.inv.wlen hJ.inv.wfill
  have hrb := bufBytes_rNext c s i hd
  have hdata := hJ.data
  simp only [obsStep, obsProd_eq]
  by_cases ht : inTok i = true
  · by_cases hf : s.r.fill = 0
    · -- zero-length packet
      have hs : (step c s i).1 =
          { s with
            fsm := .waitAck, w := wNext c s i, r := { rNext c s i with ended := false }, sendPos := 0 } := by
        simp [step, hfs, hd, hr, ht, hf]
      have ho : obsWire g i (step c s i).2 = g.complete [] s.pid := by
        simp [step, hfs, hd, hr, ht, hf, obsWire, hcur, hfirst]
      have e1 : bufBytes { rNext c s i with ended := false } = [] := by
        simp [bufBytes, rNext, hd, hf]
      rw [hs] at hinv' ⊢
      rw [ho]
      unfold Obs.complete
      by_cases hpid : s.pid = g.hostPid
      · rw [if_pos hpid]
        have hpid' : g.hostPid = s.pid := hpid.symm
        refine ⟨hinv', ?_, ?_, ?_, ?_, ?_, ?_⟩
        · simp [hfirst]
        · simp
        · simp
        · simp
        · simp [hpid']
        · have := data_glue (kn := []) (N := if wen c s i then [(i.sPayload % 256, i.sLast)] else [])
            (pend' := bufBytes (wNext c s i)) hdata (by
              simp only [pending, hpid', hwb]; cases wen c s i <;> simp)
          simpa [pending, hpid', e1] using this
      · rw [if_neg hpid]
        refine ⟨hinv', ?_, ?_, ?_, ?_, ?_, ?_⟩
        · simp [hfirst]
        · simp
        · simp
        · simp
        · simp
        · have hne : ¬ g.hostPid = s.pid := fun h => hpid h.symm
          have := data_glue (kn := []) (N := if wen c s i then [(i.sPayload % 256, i.sLast)] else [])
            (pend' := bufBytes (wNext c s i)) hdata (by
              simp only [pending, hne, hwb, if_false, bufBytes_fill0 _ hf]; cases wen c s i <;> simp)
          simpa [pending, e1] using this
    · -- start sending
      have hs : (step c s i).1 =
          { s with
            fsm := .sendPacket, w := wNext c s i, r := rNext c s i, sendPos := 0, first := true } := by
        simp [step, hfs, hd, hr, ht, hf]
      have ho : obsWire g i (step c s i).2 = g := by
        simp [step, hfs, hd, hr, ht, hf, obsWire]
      rw [hs] at hinv' ⊢
      rw [ho]
      refine ⟨hinv', ?_, ?_, ?_, ?_, ?_, ?_⟩
      · simp
      · simp [hcur]
      · simp
      · simp
      · simp
      · have := data_glue (kn := []) (N := if wen c s i then [(i.sPayload % 256, i.sLast)] else [])
          (pend' := pending s g.hostPid ++ (if wen c s i then [i.sPayload % 256] else [])) hdata (by
            cases wen c s i <;> simp)
        simpa [pending, hrb, hwb] using this
  · have hs : (step c s i).1 = { s with w := wNext c s i, r := rNext c s i, sendPos := 0 } := by
      simp [step, hfs, hd, hr, ht]
    have ho : obsWire g i (step c s i).2 = g := by
      simp [step, hfs, hd, hr, ht, obsWire]
    rw [hs] at hinv' ⊢
    rw [ho]
    refine ⟨hinv', ?_, ?_, ?_, ?_, ?_, ?_⟩
    · simp [hfs, hfirst]
    · simp [hcur, hfs]
    · simp [hfs]
    · simp [hfs]
    · simp [hfs]
    · have := data_glue (kn := []) (N := if wen c s i then [(i.sPayload % 256, i.sLast)] else [])
        (pend' := pending s g.hostPid ++ (if wen c s i then [i.sPayload % 256] else [])) hdata (by
          cases wen c s i <;> simp)
      simpa [pending, hrb, hwb] using this


theorem J_step_sendPacket (c : Config) (s : State) (g : Obs) (i : In) (hl : LegalIn i)
    (hJ : J c s g) (hfs : s.fsm = .sendPacket) :
    J c (step c s i).1 (obsStep g (i, (step c s i).2)) := by
  obtain ⟨hd, hr⟩ := hl
  have hinv' := inv_step c s i hd hJ.inv
  obtain ⟨hlt, hrd⟩ := hJ.inv.send hfs
  have hrl := hJ.inv.rlen
  have hrf := hJ.inv.rfill
  have hcur : g.cur = s.r.mem.take s.sendPos := by simpa [hfs] using hJ.cur
  have hfirst : s.first = decide (s.sendPos = 0) := by simpa [hfs] using hJ.first
  have hemp : g.cur.isEmpty = decide (s.sendPos = 0) := by
    rw [hcur]
    by_cases h0 : s.sendPos = 0
    · simp [h0]
    · have : s.r.mem ≠ [] := by
        intro h; rw [h] at hrl; simp at hrl; omega
      simp [h0, this]
  have hnz : (g.cur.isEmpty && !s.first) = false := by
    rw [hemp, hfirst]; cases decide (s.sendPos = 0) <;> rfl
  have hpidsel : (if g.cur.isEmpty then s.pid else g.curPid) = s.pid := by
    rw [hemp]
    by_cases h0 : s.sendPos = 0
    · simp [h0]
    · simp only [h0, decide_false, Bool.false_eq_true, if_false]
      exact hJ.cpid hfs (by omega)
  have hsnoc : g.cur ++ [s.r.rdata] = s.r.mem.take (s.sendPos + 1) := by
    rw [hcur, List.take_add_one, hrd]; rfl
  have hb : s.sendPos + 1 < 2 ^ bitsFor c.mps := by
    have := @Nat.lt_log2_self c.mps
    unfold bitsFor; omega
  have hwb := bufBytes_wNext c s i hd hJ.inv.wlen hJ.inv.wfill
  have hrb := bufBytes_rNext c s i hd
  have hdata := hJ.data
  simp only [obsStep, obsProd_eq]
  by_cases hrdy : i.txReady = true
  · by_cases hlast : s.sendPos + 1 = s.r.fill
    · -- the last byte: the packet is complete
      have hs : (step c s i).1 =
          { s with
            fsm := .waitAck, w := wNext c s i, r := rNext c s i, sendPos := s.sendPos + 1,
            first := false } := by
        simp [step, hfs, hrdy, hlast, hr]
        rw [← hlast, Nat.mod_eq_of_lt hb]
      have ho : obsWire g i (step c s i).2 = g.complete (bufBytes s.r) s.pid := by
        simp only [step, hfs, obsWire, hrdy, hlast, if_true, hnz, Bool.false_eq_true, if_false,
          beq_self_eq_true, hpidsel, hsnoc, bufBytes]
      rw [hs] at hinv' ⊢
      rw [ho]
      unfold Obs.complete
      by_cases hpid : s.pid = g.hostPid
      · rw [if_pos hpid]
        have hpid' : g.hostPid = s.pid := hpid.symm
        refine ⟨hinv', ?_, ?_, ?_, ?_, ?_, ?_⟩
        · simp
        · simp
        · simp
        · simp
        · simp [hpid']
        · have := data_glue (kn := []) (N := if wen c s i then [(i.sPayload % 256, i.sLast)] else [])
            (pend' := bufBytes (wNext c s i)) hdata (by
              simp only [pending, hpid', hwb]; cases wen c s i <;> simp)
          simpa [pending, hpid', hrb] using this
      · rw [if_neg hpid]
        have hne : ¬ g.hostPid = s.pid := fun h => hpid h.symm
        refine ⟨hinv', ?_, ?_, ?_, ?_, ?_, ?_⟩
        · simp
        · simp
        · simp
        · simp
        · simp
        · have := data_glue (kn := bufBytes s.r)
            (N := if wen c s i then [(i.sPayload % 256, i.sLast)] else [])
            (pend' := bufBytes (wNext c s i)) hdata (by
              simp only [pending, hne, hwb, if_false]; cases wen c s i <;> simp)
          simpa [pending, hrb] using this
    · -- a byte in the middle
      have hs : (step c s i).1 =
          { s with
            w := wNext c s i, r := rNext c s i, sendPos := s.sendPos + 1, first := false } := by
        simp [step, hfs, hrdy, hlast, hr, Nat.mod_eq_of_lt hb]
      have ho : obsWire g i (step c s i).2 =
          { g with cur := s.r.mem.take (s.sendPos + 1), curPid := s.pid } := by
        simp only [step, hfs, obsWire, hrdy, if_true, hnz, Bool.false_eq_true, if_false,
          hpidsel, hsnoc, beq_iff_eq, hlast]
      rw [hs] at hinv' ⊢
      rw [ho]
      refine ⟨hinv', ?_, ?_, ?_, ?_, ?_, ?_⟩
      · simp [hfs]
      · simp [hfs, rNext]
      · simp
      · simp [hfs]
      · simp [hfs]
      · have := data_glue (kn := []) (N := if wen c s i then [(i.sPayload % 256, i.sLast)] else [])
          (pend' := pending s g.hostPid ++ (if wen c s i then [i.sPayload % 256] else [])) hdata (by
            cases wen c s i <;> simp)
        simpa [pending, hrb, hwb] using this
  · -- stalled
    have hs : (step c s i).1 = { s with w := wNext c s i, r := rNext c s i } := by
      simp [step, hfs, hrdy, hr]
    have ho : obsWire g i (step c s i).2 = g := by
      simp only [step, hfs, obsWire, hrdy, if_true, hnz, Bool.false_eq_true, if_false]
    rw [hs] at hinv' ⊢
    rw [ho]
    refine ⟨hinv', ?_, ?_, ?_, ?_, ?_, ?_⟩
    · simp [hfs, hfirst]
    · simp [hfs, hcur, rNext]
    · simpa [hfs] using hJ.cpid hfs
    · simp [hfs]
    · simp [hfs]
    · have := data_glue (kn := []) (N := if wen c s i then [(i.sPayload % 256, i.sLast)] else [])
        (pend' := pending s g.hostPid ++ (if wen c s i then [i.sPayload % 256] else [])) hdata (by
          cases wen c s i <;> simp)
      simpa [pending, hrb, hwb] using this


/-- A step without any packet-stream event that ends outside SEND_PACKET. -/
theorem J_quiet (c : Config) (s s' : State) (g : Obs) (i : In) (hJ : J c s g) (hinv' : Inv c s')
    (hf : s'.first = false) (hns : s'.fsm ≠ .sendPacket) (hc : g.cur = [])
    (hi : s'.fsm = .waitData → g.hostPid = s'.pid) (ha : s'.fsm = .waitAck → g.hostPid = s'.pid)
    (hp : pending s' g.hostPid = pending s g.hostPid ++ (if wen c s i then [i.sPayload % 256] else [])) :
    J c s' { g with prod := g.prod ++ (if wen c s i then [(i.sPayload % 256, i.sLast)] else []) } := by
  refine ⟨hinv', ?_, ?_, ?_, hi, ha, ?_⟩
  · simp [hf, hns]
  · simp [hc, hns]
  · intro h; exact absurd h hns
  · have := data_glue (kn := []) (N := if wen c s i then [(i.sPayload % 256, i.sLast)] else [])
      (pend' := pending s' g.hostPid) hJ.data (by
        rw [hp]; cases wen c s i <;> simp)
    simpa using this

theorem J_step_waitAck (c : Config) (s : State) (g : Obs) (i : In) (hl : LegalIn i)
    (hJ : J c s g) (hfs : s.fsm = .waitAck) :
    J c (step c s i).1 (obsStep g (i, (step c s i).2)) := by
  obtain ⟨hd, hr⟩ := hl
  have hinv' := inv_step c s i hd hJ.inv
  have hcur : g.cur = [] := by simpa [hfs] using hJ.cur
  have hfirst : s.first = false := by simpa [hfs] using hJ.first
  have hhp := hJ.wack hfs
  have hwb := bufBytes_wNext c s i hd hJ.inv.wlen hJ.inv.wfill
  have hrb := bufBytes_rNext c s i hd
  have ho : obsWire g i (step c s i).2 = g := by
    simp [step, hfs, obsWire]
  simp only [obsStep, obsProd_eq, ho]
  apply J_quiet c s _ g i hJ hinv'
  · simp only [step, hfs, hd, hr, Bool.false_eq_true, ↓reduceIte, Bool.not_false, Bool.and_true]; (repeat' split) <;> simp_all
  · simp only [step, hfs, hd, hr, Bool.false_eq_true, ↓reduceIte, Bool.not_false, Bool.and_true]; (repeat' split) <;> simp_all
  · exact hcur
  · simp only [step, hfs, hd, hr, Bool.false_eq_true, ↓reduceIte, Bool.not_false, Bool.and_true]; (repeat' split) <;> simp_all
  · simp only [step, hfs, hd, hr, Bool.false_eq_true, ↓reduceIte, Bool.not_false, Bool.and_true]; (repeat' split) <;> simp_all
  · have e0 : ∀ b : Buf, bufBytes { b with fill := 0 } = [] := fun b => by simp [bufBytes]
    have e1 : ∀ b : Buf, bufBytes { b with fill := 0, ended := false } = [] := fun b => by simp [bufBytes]
    generalize (if wen c s i then [i.sPayload % 256] else []) = N at hwb ⊢
    simp only [step, hfs, hd, hr, Bool.false_eq_true, ↓reduceIte, Bool.not_false, Bool.and_true]
    (repeat' split) <;> simp [pending, hhp, hwb, hrb, e0, e1]


/-- One cycle preserves the refinement invariant (any inputs with `discard = reset_sequence = 0`). -/
theorem J_step (c : Config) (s : State) (g : Obs) (i : In) (hl : LegalIn i) (hJ : J c s g) :
    J c (step c s i).1 (obsStep g (i, (step c s i).2)) := by
  cases hfs : s.fsm with
  | waitData => exact J_step_waitData c s g i hl hJ hfs
  | waitSend => exact J_step_waitSend c s g i hl hJ hfs
  | sendPacket => exact J_step_sendPacket c s g i hl hJ hfs
  | waitAck => exact J_step_waitAck c s g i hl hJ hfs

theorem J_run (c : Config) (ins : List In) (henv : LegalInEnv ins) (s : State) (g : Obs)
    (hJ : J c s g) : J c (runState c s ins) (observeFrom g (trace c s ins)) := by
  induction ins generalizing s g with
  | nil => exact hJ
  | cons i is ih =>
    simp only [runState, trace, observeFrom, List.foldl_cons]
    exact ih (fun j hj => henv j (by simp [hj])) _ _ (J_step c s g i (henv i (by simp)) hJ)

/-- The refinement invariant holds at every reachable cycle of every legal history. -/
theorem J_reachable (c : Config) (ins : List In) (henv : LegalInEnv ins) :
    J c (runState c (init c) ins) (observe (trace c (init c) ins)) :=
  J_run c ins henv _ _ (J_init c)

/-- **Exactly once, in order** (the main refinement theorem of C11).  For every max packet size, every
input history with `discard = reset_sequence = 0` — any producer timing, transfer boundaries and
`flush` requests, any timing of tokens (to this or other endpoints), any pattern of ACKs including lost,
late, duplicated and foreign ones, any `packet_stream.ready` schedule — and at every cycle: the data
the host has accepted so far (each DATA0/DATA1-toggled packet taken once), followed by the data still
inside the device (the read buffer unless the host's toggle shows it already kept that packet, then the
write buffer), is exactly the data the producer has handed over so far.  Hence no byte is lost,
duplicated, reordered or invented. -/
theorem in_exactly_once (c : Config) (ins : List In) (henv : LegalInEnv ins) :
    hostAccepted (trace c (init c) ins)
        ++ pending (runState c (init c) ins) (observe (trace c (init c) ins)).hostPid
      = producerAccepted (trace c (init c) ins) :=
  (J_reachable c ins henv).data

/-- Corollary: what the host holds is always a prefix of what the producer handed over. -/
theorem host_data_is_prefix (c : Config) (ins : List In) (henv : LegalInEnv ins) :
    hostAccepted (trace c (init c) ins) <+: producerAccepted (trace c (init c) ins) :=
  ⟨_, in_exactly_once c ins henv⟩

/-- Corollary: the device never holds more than its two buffers: at most `2 * mps` bytes have been
accepted from the producer and not yet been kept by the host. -/
theorem at_most_two_packets_buffered (c : Config) (ins : List In) (henv : LegalInEnv ins) :
    (producerAccepted (trace c (init c) ins)).length
      ≤ (hostAccepted (trace c (init c) ins)).length + 2 * c.mps := by
  have hJ := J_reachable c ins henv
  rw [← in_exactly_once c ins henv, List.length_append]
  have h1 : (pending (runState c (init c) ins) (observe (trace c (init c) ins)).hostPid).length
      ≤ c.mps + c.mps := by
    have hr := hJ.inv.rfill
    have hw := hJ.inv.wfill
    unfold pending bufBytes
    split <;> simp <;> omega
  omega

/-! ## Non-vacuity: the history of `Props/C11.lean` (fill, IN, lost ACK, retry, ACK, NAK) is legal, the
host sees the packet twice and keeps it once. -/

example : LegalInEnv exHist := by decide
example : (observe (trace ⟨2⟩ (init ⟨2⟩) (exHist.take 6))).pkts = [[5, 6]] := by decide
example : hostAccepted (trace ⟨2⟩ (init ⟨2⟩) exHist) = [5, 6]
    ∧ producerAccepted (trace ⟨2⟩ (init ⟨2⟩) exHist) = [5, 6]
    ∧ pending (runState ⟨2⟩ (init ⟨2⟩) exHist) (observe (trace ⟨2⟩ (init ⟨2⟩) exHist)).hostPid = [] := by
  decide

end LunaVerif.InXfer
