import LunaVerif.Model.Usb2.DescriptorRom
/-!
Helper lemmas for C09 `rom_lookup_correct`, part 1: list facts about the generated ROM
(`Rom.layout`): sorting, counting, table lengths, element access.  Core Lean only.
-/
namespace LunaVerif.Desc.Rom

/-! ### `sortDescrs` is a sorted permutation -/

theorem insertSorted_perm (d : Descr) (l : List Descr) : (insertSorted d l).Perm (d :: l) := by
  induction l with
  | nil => exact List.Perm.refl _
  | cons e es ih =>
    unfold insertSorted
    split
    · exact List.Perm.refl _
    · exact (List.Perm.cons e ih).trans (List.Perm.swap d e es)

theorem sortDescrs_perm (c : Collection) : (sortDescrs c).Perm c := by
  induction c with
  | nil => exact List.Perm.refl _
  | cons d ds ih =>
    show (insertSorted d (sortDescrs ds)).Perm (d :: ds)
    exact (insertSorted_perm d _).trans (List.Perm.cons d ih)

theorem insertSorted_sorted (d : Descr) (l : List Descr) (h : l.Pairwise (fun a b => key a ≤ key b)) :
    (insertSorted d l).Pairwise (fun a b => key a ≤ key b) := by
  induction l with
  | nil => simp [insertSorted]
  | cons e es ih =>
    unfold insertSorted
    rw [List.pairwise_cons] at h
    split
    · rename_i hle
      rw [List.pairwise_cons]
      refine ⟨?_, List.pairwise_cons.mpr h⟩
      intro a ha
      rcases List.mem_cons.mp ha with rfl | ha
      · exact hle
      · exact Nat.le_trans hle (h.1 a ha)
    · rename_i hgt
      rw [List.pairwise_cons]
      refine ⟨?_, ih h.2⟩
      intro a ha
      have := (insertSorted_perm d es).mem_iff.mp ha
      rcases List.mem_cons.mp this with rfl | ha
      · omega
      · exact h.1 a ha

theorem sortDescrs_sorted (c : Collection) : (sortDescrs c).Pairwise (fun a b => key a ≤ key b) := by
  induction c with
  | nil => exact List.Pairwise.nil
  | cons d ds ih => exact insertSorted_sorted d _ ih

/-- with distinct keys the order is strict. -/
theorem sortDescrs_strict (c : Collection) (hn : (c.map key).Nodup) :
    (sortDescrs c).Pairwise (fun a b => key a < key b) := by
  have hs := sortDescrs_sorted c
  have hn' : ((sortDescrs c).map key).Nodup := ((sortDescrs_perm c).map key).nodup_iff.mpr hn
  rw [List.Nodup, List.pairwise_map] at hn'
  have := hs.and hn'
  exact this.imp (fun ⟨h1, h2⟩ => by omega)

theorem filter_length_perm {l l' : List Descr} (h : l.Perm l') (p : Descr → Bool) :
    (l.filter p).length = (l'.filter p).length := (h.filter p).length_eq


/-! ### position of a descriptor in the sorted list -/

theorem split_sorted (s : List Descr) (hs : s.Pairwise (fun a b => key a < key b)) (d : Descr) (hd : d ∈ s) :
    ∃ pre post, s = pre ++ d :: post ∧ (∀ e ∈ pre, key e < key d) ∧ (∀ e ∈ post, key d < key e) := by
  obtain ⟨pre, post, rfl⟩ := List.append_of_mem hd
  rw [List.pairwise_append, List.pairwise_cons] at hs
  exact ⟨pre, post, rfl, fun e he => hs.2.2 e he d (List.mem_cons_self ..), hs.2.1.1⟩

theorem filter_length_compl (l : List Descr) (p q : Descr → Bool) (h : ∀ e ∈ l, p e = !q e) :
    (l.filter p).length + (l.filter q).length = l.length := by
  induction l with
  | nil => rfl
  | cons a l ih =>
    have ha := h a (List.mem_cons_self ..)
    have := ih (fun e he => h e (List.mem_cons_of_mem _ he))
    simp only [List.filter_cons, ha]
    cases q a <;> simp <;> omega

theorem filter_length_none (l : List Descr) (p : Descr → Bool) (h : ∀ e ∈ l, p e = false) :
    (l.filter p).length = 0 := by
  rw [List.length_eq_zero_iff, List.filter_eq_nil_iff]
  intro e he; simp [h e he]

theorem filter_length_all (l : List Descr) (p : Descr → Bool) (h : ∀ e ∈ l, p e = true) :
    (l.filter p).length = l.length := by
  rw [List.filter_eq_self.mpr h]

/-- Where `d` sits in the strictly sorted list `pre ++ d :: post`, and how many of its type there are. -/
theorem position (pre post : List Descr) (d : Descr)
    (hidx : ∀ e ∈ pre ++ d :: post, e.idx < 256)
    (hpre : ∀ e ∈ pre, key e < key d) (hpost : ∀ e ∈ post, key d < key e) :
    pre.length = countBelow (pre ++ d :: post) d.ty + (pre.filter (fun e => e.ty == d.ty)).length
    ∧ (pre.filter (fun e => e.ty == d.ty)).length
        = ((pre ++ d :: post).filter (fun e => e.ty == d.ty && decide (e.idx < d.idx))).length
    ∧ (pre.filter (fun e => e.ty == d.ty)).length < countType (pre ++ d :: post) d.ty := by
  have hd : d.idx < 256 := hidx d (by simp)
  have hpre' : ∀ e ∈ pre, e.ty < d.ty ∨ (e.ty = d.ty ∧ e.idx < d.idx) := by
    intro e he
    have h1 := hpre e he
    have h2 := hidx e (by simp [he])
    unfold key at h1; omega
  have hpost' : ∀ e ∈ post, d.ty < e.ty ∨ (e.ty = d.ty ∧ d.idx < e.idx) := by
    intro e he
    have h1 := hpost e he
    have h2 := hidx e (by simp [he])
    unfold key at h1; omega
  refine ⟨?_, ?_, ?_⟩
  · unfold countBelow
    rw [List.filter_append, List.length_append, List.filter_cons]
    have h0 : (post.filter (fun e => decide (e.ty < d.ty))).length = 0 :=
      filter_length_none _ _ (fun e he => by rcases hpost' e he with h | h <;> simp <;> omega)
    have h1 := filter_length_compl pre (fun e => decide (e.ty < d.ty)) (fun e => e.ty == d.ty)
      (fun e he => by
        rcases hpre' e he with h | h
        · have : ¬ e.ty = d.ty := by omega
          simp [h, this]
        · simp [h.1])
    simp only [Nat.lt_irrefl, decide_false, Bool.false_eq_true, if_false, h0]
    omega
  · rw [List.filter_append, List.length_append, List.filter_cons]
    have h0 : (post.filter (fun e => e.ty == d.ty && decide (e.idx < d.idx))).length = 0 :=
      filter_length_none _ _ (fun e he => by
        rcases hpost' e he with h | h
        · have : ¬ e.ty = d.ty := by omega
          simp [this]
        · have : ¬ e.idx < d.idx := by omega
          simp [this])
    have h1 : pre.filter (fun e => e.ty == d.ty && decide (e.idx < d.idx)) = pre.filter (fun e => e.ty == d.ty) :=
      List.filter_congr (fun e he => by
        rcases hpre' e he with h | h
        · have : ¬ e.ty = d.ty := by omega
          simp [this]
        · simp [h.1, h.2])
    simp only [Nat.lt_irrefl, decide_false, Bool.and_false, Bool.false_eq_true, if_false, h0, h1]
    omega
  · unfold countType
    rw [List.filter_append, List.length_append, List.filter_cons]
    simp only [beq_self_eq_true, if_true, List.length_cons]
    omega

/-! ### pigeonhole: distinct keys in an interval -/

theorem nodup_interval_le (n : Nat) : ∀ (l : List Nat) (a : Nat), l.Nodup → (∀ x ∈ l, a ≤ x ∧ x < a + n) →
    l.length ≤ n := by
  induction n with
  | zero =>
    intro l a _ h
    cases l with
    | nil => simp
    | cons x _ => have := h x (List.mem_cons_self ..); omega
  | succ n ih =>
    intro l a hn h
    have h1 : (l.erase (a + n)).length ≤ n := by
      apply ih _ a (hn.erase _)
      intro x hx
      have hx' := (hn.mem_erase_iff).mp hx
      have := h x hx'.2
      omega
    rw [List.length_erase] at h1
    split at h1 <;> omega

theorem keys_interval_le (l : List Descr) (a n : Nat) (hn : (l.map key).Nodup)
    (h : ∀ e ∈ l, a ≤ key e ∧ key e < a + n) : l.length ≤ n := by
  have := nodup_interval_le n (l.map key) a hn (by
    intro x hx
    obtain ⟨e, he, rfl⟩ := List.mem_map.mp hx
    exact h e he)
  simpa using this

theorem nodup_filter_keys (l : List Descr) (p : Descr → Bool) (hn : (l.map key).Nodup) :
    ((l.filter p).map key).Nodup :=
  hn.sublist ((List.filter_sublist (l := l)).map key)

/-- `n` descriptors with distinct keys in `[a, a+n)`: exactly `i` of them are below `a + i`. -/
theorem keys_below (l : List Descr) (a i : Nat) (hn : (l.map key).Nodup)
    (h : ∀ e ∈ l, a ≤ key e ∧ key e < a + l.length) (hi : i ≤ l.length) :
    (l.filter (fun e => decide (key e < a + i))).length = i := by
  have h1 := keys_interval_le (l.filter (fun e => decide (key e < a + i))) a i (nodup_filter_keys _ _ hn) (by
    intro e he
    rw [List.mem_filter] at he
    have := h e he.1
    simp only [decide_eq_true_eq] at he
    omega)
  have h2 := keys_interval_le (l.filter (fun e => !decide (key e < a + i))) (a + i) (l.length - i)
    (nodup_filter_keys _ _ hn) (by
    intro e he
    rw [List.mem_filter] at he
    have := h e he.1
    simp only [Bool.not_eq_true', decide_eq_false_iff_not] at he
    omega)
  have h3 := filter_length_compl l (fun e => decide (key e < a + i)) (fun e => !decide (key e < a + i))
    (fun e _ => by simp)
  omega

/-- distinct keys in `[a, a+n)` that avoid `a + i`: fewer than `n`. -/
theorem keys_avoiding (l : List Descr) (a n i : Nat) (hn : (l.map key).Nodup)
    (h : ∀ e ∈ l, a ≤ key e ∧ key e < a + n ∧ key e ≠ a + i) (hi : i < n) :
    l.length < n := by
  have h1 := keys_interval_le (l.filter (fun e => decide (key e < a + i))) a i (nodup_filter_keys _ _ hn) (by
    intro e he
    rw [List.mem_filter] at he
    have := h e he.1
    simp only [decide_eq_true_eq] at he
    omega)
  have h2 := keys_interval_le (l.filter (fun e => !decide (key e < a + i))) (a + i + 1) (n - i - 1)
    (nodup_filter_keys _ _ hn) (by
    intro e he
    rw [List.mem_filter] at he
    have := h e he.1
    simp only [Bool.not_eq_true', decide_eq_false_iff_not] at he
    omega)
  have h3 := filter_length_compl l (fun e => decide (key e < a + i)) (fun e => !decide (key e < a + i))
    (fun e _ => by simp)
  omega

/-! ### what `indirect = false` means, and the size of a type's index set -/

theorem le_foldl_max (f : Descr → Nat) (l : List Descr) : ∀ m : Nat,
    m ≤ l.foldl (fun m e => max m (f e)) m ∧ ∀ e ∈ l, f e ≤ l.foldl (fun m e => max m (f e)) m := by
  induction l with
  | nil => intro m; simp
  | cons a l ih =>
    intro m
    simp only [List.foldl_cons]
    obtain ⟨h1, h2⟩ := ih (max m (f a))
    refine ⟨by omega, ?_⟩
    intro e he
    rcases List.mem_cons.mp he with rfl | he
    · omega
    · exact h2 e he

theorem ty_le_maxType (c : Collection) (d : Descr) (h : d ∈ c) : d.ty ≤ maxType c :=
  (le_foldl_max (·.ty) c 0).2 d h

theorem len_le_maxLen (c : Collection) (d : Descr) (h : d ∈ c) : d.bytes.length ≤ maxLen c :=
  (le_foldl_max (·.bytes.length) c 0).2 d h

/-- direct indexing is chosen only when the indexes of every type stay below their number. -/
theorem direct_bound (c : Collection) (h : indirect c = false) (d : Descr) (hd : d ∈ c) :
    ∀ e ∈ c, e.ty = d.ty → e.idx < countType c d.ty := by
  intro e he hty
  unfold indirect at h
  rw [List.any_eq_false] at h
  have h1 := h d hd
  simp only [bne_iff_ne, ne_eq, Decidable.not_not] at h1
  have hmem : e ∈ c.filter (fun e => e.ty == d.ty) := by
    rw [List.mem_filter]; exact ⟨he, by simp [hty]⟩
  have h2 := (le_foldl_max (·.idx) (c.filter (fun e => e.ty == d.ty)) 0).2 e hmem
  have h3 : 0 < (c.filter (fun e => e.ty == d.ty)).length := List.length_pos_of_mem hmem
  unfold countType
  omega

theorem type_keys (c : Collection) (t : Nat) (hn : (c.map key).Nodup) :
    ((c.filter (fun e => e.ty == t)).map key).Nodup := nodup_filter_keys c _ hn

/-- direct indexing: the number of type-`t` descriptors with an index below `i` is `i`. -/
theorem direct_rank (c : Collection) (t i : Nat) (hn : (c.map key).Nodup)
    (hb : ∀ e ∈ c, e.ty = t → e.idx < countType c t) (hi : i ≤ countType c t) :
    (c.filter (fun e => e.ty == t && decide (e.idx < i))).length = i := by
  have h := keys_below (c.filter (fun e => e.ty == t)) (t * 256) i (type_keys c t hn) (by
    intro e he
    rw [List.mem_filter] at he
    have h1 := hb e he.1 (by simpa using he.2)
    have h2 : e.ty = t := by simpa using he.2
    unfold countType at h1
    unfold key; omega) hi
  rw [List.filter_filter] at h
  refine Eq.trans ?_ h
  congr 1
  apply List.filter_congr
  intro e _
  by_cases h2 : e.ty = t
  · have : key e < t * 256 + i ↔ e.idx < i := by unfold key; omega
    simp [h2, this]
  · have h3 : (e.ty == t) = false := beq_false_of_ne h2
    rw [h3]; simp

/-- direct indexing: an index that no type-`t` descriptor has is not below the count. -/
theorem direct_absent (c : Collection) (t i : Nat) (hn : (c.map key).Nodup)
    (hb : ∀ e ∈ c, e.ty = t → e.idx < countType c t)
    (habs : ∀ e ∈ c, ¬ (e.ty = t ∧ e.idx = i)) : countType c t ≤ i := by
  apply Nat.le_of_not_lt
  intro hi
  have h := keys_avoiding (c.filter (fun e => e.ty == t)) (t * 256) (countType c t) i (type_keys c t hn) (by
    intro e he
    rw [List.mem_filter] at he
    have h1 := hb e he.1 (by simpa using he.2)
    have h2 : e.ty = t := by simpa using he.2
    have h3 := habs e he.1
    unfold key; omega) hi
  unfold countType at h
  omega

/-- a type that lacks some 8-bit index has at most 255 descriptors. -/
theorem count_lt_256 (c : Collection) (t i : Nat) (hn : (c.map key).Nodup)
    (hidx : ∀ e ∈ c, e.idx < 256) (hi : i < 256)
    (habs : ∀ e ∈ c, ¬ (e.ty = t ∧ e.idx = i)) : countType c t < 256 := by
  have h := keys_avoiding (c.filter (fun e => e.ty == t)) (t * 256) 256 i (type_keys c t hn) (by
    intro e he
    rw [List.mem_filter] at he
    have h1 := hidx e he.1
    have h2 : e.ty = t := by simpa using he.2
    have h3 := habs e he.1
    unfold key; omega) hi
  exact h

/-! ### the tables -/

def sumAlign : List Descr → Nat
  | [] => 0
  | d :: ds => alignWords d.bytes.length + sumAlign ds

theorem sumAlign_append (a b : List Descr) : sumAlign (a ++ b) = sumAlign a + sumAlign b := by
  induction a with
  | nil => simp [sumAlign]
  | cons d ds ih => simp only [List.cons_append, sumAlign, ih]; omega

theorem typeTable_length (c : Collection) : (typeTable c).length = maxType c + 1 := by
  simp [typeTable]

theorem typeTable_get (c : Collection) (t : Nat) (h : t ≤ maxType c) :
    (typeTable c)[t]? = some (typeWord c t) := by
  unfold typeTable
  rw [List.getElem?_map, List.getElem?_range (by omega)]
  rfl

theorem entryTable_length (s : List Descr) : ∀ a, (entryTable s a).length = s.length := by
  induction s with
  | nil => intro a; rfl
  | cons d ds ih => intro a; simp only [entryTable, List.length_cons, ih]

theorem entryTable_append (pre post : List Descr) : ∀ a,
    entryTable (pre ++ post) a = entryTable pre a ++ entryTable post (a + 4 * sumAlign pre) := by
  induction pre with
  | nil => intro a; simp [entryTable, sumAlign]
  | cons d ds ih =>
    intro a
    simp only [List.cons_append, entryTable, ih, sumAlign]
    congr 3
    omega

theorem packWords_length (b : List Nat) : (packWords b).length = alignWords b.length := by
  fun_induction packWords b with
  | case1 => rfl
  | case2 => simp [alignWords]
  | case3 => simp [alignWords]
  | case4 => simp [alignWords]
  | case5 a b c d rest ih =>
    simp only [List.length_cons, ih]
    unfold alignWords
    omega

theorem dataWords_length (s : List Descr) : (dataWords s).length = sumAlign s := by
  induction s with
  | nil => rfl
  | cons d ds ih =>
    unfold dataWords at ih ⊢
    simp only [List.flatMap_cons, List.length_append, ih, packWords_length, sumAlign]

theorem dataWords_split (pre post : List Descr) (d : Descr) :
    dataWords (pre ++ d :: post) = dataWords pre ++ (packWords d.bytes ++ dataWords post) := by
  unfold dataWords
  rw [List.flatMap_append, List.flatMap_cons]

/-- byte `k` of a byte string is byte `k % 4` (big endian) of word `k / 4` of its packing. -/
theorem packWords_byte (b : List Nat) (hb : ∀ x ∈ b, x < 256) : ∀ k, k < b.length →
    ((packWords b)[k / 4]?.getD 0 / 256 ^ (3 - k % 4)) % 256 = b[k]?.getD 0 := by
  fun_induction packWords b with
  | case1 => intro k hk; simp at hk
  | case2 a =>
    intro k hk
    have ha := hb a (by simp)
    have : k = 0 := by simpa using hk
    subst this
    simp; omega
  | case3 a b =>
    intro k hk
    have ha := hb a (by simp)
    have hb' := hb b (by simp)
    have : k = 0 ∨ k = 1 := by simp at hk; omega
    rcases this with rfl | rfl <;> simp <;> omega
  | case4 a b c =>
    intro k hk
    have ha := hb a (by simp)
    have hb' := hb b (by simp)
    have hc := hb c (by simp)
    have : k = 0 ∨ k = 1 ∨ k = 2 := by simp at hk; omega
    rcases this with rfl | rfl | rfl <;> simp <;> omega
  | case5 a b c d rest ih =>
    intro k hk
    have ha := hb a (by simp)
    have hb' := hb b (by simp)
    have hc := hb c (by simp)
    have hd := hb d (by simp)
    by_cases h4 : k < 4
    · have : k = 0 ∨ k = 1 ∨ k = 2 ∨ k = 3 := by omega
      rcases this with rfl | rfl | rfl | rfl <;> simp <;> omega
    · obtain ⟨j, rfl⟩ : ∃ j, k = j + 4 := ⟨k - 4, by omega⟩
      have h1 : (j + 4) / 4 = j / 4 + 1 := by omega
      have h2 : (j + 4) % 4 = j % 4 := by omega
      rw [h1, h2]
      have := ih (fun x hx => hb x (by simp [hx])) j (by simp at hk; omega)
      simpa using this

end LunaVerif.Desc.Rom
