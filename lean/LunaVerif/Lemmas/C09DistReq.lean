import LunaVerif.Lemmas.C09Dist
import LunaVerif.Lemmas.C09BlockReq
/-!
Helper lemmas for C09: one complete request on the distributed handler model.
-/
namespace LunaVerif.Desc.Dist

/-- what matters of the handler state for the selected entry `j`: its generator state `g`, its
registered `start` and the `send_zlp` strobe. -/
structure View (s : State) (j : Nat) (g : Gen.State) (sr z : Bool) : Prop where
  hg : s.gens[j]? = some (g, sr)
  hz : s.sendZlp = z

/-- the generator inputs of the selected entry -/
def genIn (c : Config) (e : Entry) (l p : Nat) (sr r : Bool) : Gen.In :=
  ⟨sr, curLength c.mps l p, p % 2 ^ e.gen.w, r⟩

def beatOf (o : Gen.Out) (z : Bool) : Beat := ⟨o.valid || z, o.first, o.last || z, o.payload, false⟩

theorem step_view (c : Config) (s : State) (v l p : Nat) (start r : Bool) (j : Nat) (e : Entry)
    (g : Gen.State) (sr z : Bool) (hs : Selects c v j e) (hv : View s j g sr z) :
    (step c s ⟨v, l, p, start, r⟩).2 = beatOf (Gen.step e.gen g (genIn c e l p sr r)).2 z
    ∧ View (step c s ⟨v, l, p, start, r⟩).1 j (Gen.step e.gen g (genIn c e l p sr r)).1
        (start && !pastEnd e p) (start && pastEnd e p) := by
  obtain ⟨h1, h2, h3⟩ := step_sel c s ⟨v, l, p, start, r⟩ j e (g, sr) hs hv.hg
  have hk : (e.key == v) = true := by simp [hs.hkey]
  refine ⟨?_, ⟨?_, ?_⟩⟩
  · rw [h1, hv.hz]
    simp only [mkOut, stepEntry, hk, Bool.true_and, beatOf, genIn]
  · rw [h2]
    simp only [stepEntry, hk, Bool.true_and, if_true, genIn]
  · exact h3

theorem run_peel (c : Config) (s : State) (v l p n : Nat) (f : List Bool → List Beat)
    (hstep : ∀ r, (step c s ⟨v, l, p, false, r⟩).2 = Beat.quiet)
    (hrest : ∀ r rs, run c (step c s ⟨v, l, p, false, r⟩).1 (holdInputs v l p rs) = delayed n f rs) :
    ∀ rs, run c s (holdInputs v l p rs) = delayed (n + 1) f rs := by
  intro rs
  cases rs with
  | nil => rfl
  | cons r rs =>
    rw [holdInputs_cons]
    simp only [run, delayed]
    rw [hstep r, hrest r rs]

theorem run_first (c : Config) (s : State) (v l p n : Nat) (f : List Bool → List Beat)
    (hstep : ∀ r, (step c s ⟨v, l, p, true, r⟩).2 = Beat.quiet)
    (hrest : ∀ r rs, run c (step c s ⟨v, l, p, true, r⟩).1 (holdInputs v l p rs) = delayed n f rs) :
    ∀ rs, run c s (reqInputs v l p rs) = delayed (n + 1) f rs := by
  intro rs
  cases rs with
  | nil => rfl
  | cons r rs =>
    rw [reqInputs_cons]
    simp only [run, delayed]
    rw [hstep r, hrest r rs]

theorem beatOf_quiet : beatOf Gen.quietOut false = Beat.quiet := rfl

/-- selected generator idle, nothing pending: the handler stays quiet. -/
theorem run_idle (c : Config) (v l p j : Nat) (e : Entry) (hs : Selects c v j e) (rs : List Bool) :
    ∀ (s : State) (g : Gen.State), g.fsm = .idle → View s j g false false →
      run c s (holdInputs v l p rs) = idleTrace rs := by
  induction rs with
  | nil => intro s g _ _; rfl
  | cons r rs ih =>
    intro s g hg hv
    obtain ⟨ho, hv'⟩ := step_view c s v l p false r j e g false false hs hv
    rw [holdInputs_cons, idleTrace_cons]
    simp only [run]
    rw [ho, Gen.step_idle _ _ _ hg, beatOf_quiet]
    congr 1
    rw [Gen.step_idle _ _ _ hg] at hv'
    simp only [Bool.false_and] at hv'
    exact ih _ _ (by simp [genIn]) hv'

/-- selected generator in DONE: one more quiet cycle, then idle. -/
theorem run_done (c : Config) (v l p j : Nat) (e : Entry) (hs : Selects c v j e) (rs : List Bool)
    (s : State) (g : Gen.State) (hg : g.fsm = .done) (hv : View s j g false false) :
    run c s (holdInputs v l p rs) = idleTrace rs := by
  cases rs with
  | nil => rfl
  | cons r rs =>
    obtain ⟨ho, hv'⟩ := step_view c s v l p false r j e g false false hs hv
    rw [holdInputs_cons, idleTrace_cons]
    simp only [run]
    rw [ho, Gen.step_done _ _ _ hg, beatOf_quiet]
    congr 1
    rw [Gen.step_done _ _ _ hg] at hv'
    simp only [Bool.false_and] at hv'
    exact run_idle c v l p j e hs rs _ _ rfl hv'


/-- generator state while byte `k` of the packet that starts at offset `p` is shown. -/
structure GenInv (e : Entry) (M p k : Nat) (g : Gen.State) : Prop where
  hfsm  : g.fsm = .streaming
  hpos  : g.pos = p + k
  hsent : g.sent = k
  hmax  : g.maxLen = M
  hrom  : g.romData = e.gen.data.getD (p + k) 0

theorem curLength_inorder (mps l p : Nat) (hp : p ≤ l) (hl : l < 65536) (hm : mps < 65536) :
    curLength mps l p = min (l - p) mps := by
  unfold curLength
  split <;> omega

theorem send_loop (c : Config) (v l p j : Nat) (e : Entry) (hs : Selects c v j e) (chunk : List Nat)
    (hp : p < e.gen.len) (hM : curLength c.mps l p < 65536)
    (hn : chunk.length = min (curLength c.mps l p) (e.gen.len - p))
    (hb : ∀ i, i < chunk.length → chunk.getD i 0 = e.gen.data.getD (p + i) 0)
    (rs : List Bool) :
    ∀ (k : Nat) (s : State) (g : Gen.State), k < chunk.length → GenInv e (curLength c.mps l p) p k g →
      View s j g false false → run c s (holdInputs v l p rs) = sendTrace chunk k rs := by
  have hw : e.gen.len - 1 < 2 ^ e.gen.w := lt_two_pow_bitsFor _
  have hpp : p % 2 ^ e.gen.w = p := Nat.mod_eq_of_lt (by omega)
  induction rs with
  | nil => intro k s g _ _ _; rfl
  | cons r rs ih =>
    intro k s g hk inv hv
    obtain ⟨ho, hv'⟩ := step_view c s v l p false r j e g false false hs hv
    simp only [Bool.false_and] at hv'
    rw [holdInputs_cons]
    simp only [run, sendTrace, hk, if_true]
    rw [ho]
    have hlast : Gen.onLast e.gen g = (k + 1 == chunk.length) := by
      unfold Gen.onLast
      rw [inv.hpos, inv.hsent, inv.hmax, Bool.eq_iff_iff]
      simp only [Bool.or_eq_true, beq_iff_eq, decide_eq_true_eq]
      omega
    have hbeat : ∀ r, beatOf (Gen.streamOut e.gen g (genIn c e l p false r)) false
        = ⟨true, k == 0, k + 1 == chunk.length, chunk.getD k 0, false⟩ := by
      intro r
      unfold beatOf Gen.streamOut genIn
      simp only [hlast, hb k hk, inv.hpos, inv.hrom, hpp, Bool.or_false]
      have : (p + k == p) = (k == 0) := by
        rw [Bool.eq_iff_iff]; simp
      rw [this]
    cases r with
    | false =>
      rw [Gen.step_stream_hold _ _ _ inv.hfsm rfl, hbeat]
      simp only [Bool.false_eq_true, if_false]
      congr 1
      rw [Gen.step_stream_hold _ _ _ inv.hfsm rfl] at hv'
      refine ih k _ _ hk ?_ hv'
      exact ⟨inv.hfsm, inv.hpos, inv.hsent, inv.hmax, by
        show e.gen.data.getD g.pos 0 = _
        rw [inv.hpos]⟩
    | true =>
      simp only [if_true]
      by_cases hfin : k + 1 = chunk.length
      · have hl : Gen.onLast e.gen g = true := by rw [hlast]; simp [hfin]
        rw [Gen.step_stream_last _ _ _ inv.hfsm rfl hl, hbeat]
        congr 1
        rw [Gen.step_stream_last _ _ _ inv.hfsm rfl hl] at hv'
        rw [run_done c v l p j e hs rs _ _ rfl hv', sendTrace_done _ _ (by omega)]
      · have hl : Gen.onLast e.gen g = false := by rw [hlast]; simp [hfin]
        rw [Gen.step_stream_next _ _ _ inv.hfsm rfl hl, hbeat]
        congr 1
        rw [Gen.step_stream_next _ _ _ inv.hfsm rfl hl] at hv'
        have hk' : k + 1 < chunk.length := by omega
        have hpos : (p + k + 1) % 2 ^ e.gen.w = p + k + 1 := Nat.mod_eq_of_lt (by omega)
        refine ih (k + 1) _ _ hk' ?_ hv'
        refine ⟨inv.hfsm, ?_, ?_, inv.hmax, ?_⟩
        · show (g.pos + 1) % 2 ^ e.gen.w = p + (k + 1)
          rw [inv.hpos, hpos]; omega
        · show (g.sent + 1) % 65536 = k + 1
          rw [inv.hsent, Nat.mod_eq_of_lt (by omega)]
        · show e.gen.data.getD ((g.pos + 1) % 2 ^ e.gen.w) 0 = _
          rw [inv.hpos, hpos]; rfl


theorem beatOf_zlp : beatOf Gen.quietOut true = zlpBeat := rfl

/-- a request inside the descriptor: two quiet cycles (the registered `start`, the generator's
IDLE→STREAMING edge), then the packet. -/
theorem dist_data (c : Config) (s0 : State) (g0 : Gen.State) (v l p j : Nat) (e : Entry)
    (hs : Selects c v j e) (hv : View s0 j g0 false false) (hg0 : g0.fsm = .idle)
    (hfix : ∀ n, e.fixedLen = some n → p < n)
    (hmps : 0 < c.mps) (hmps' : c.mps < 65536) (hl : l < 65536)
    (hp : p < min l e.gen.len) (rs : List Bool) :
    run c s0 (reqInputs v l p rs)
      = delayed 2 (sendTrace (((e.gen.data.take l).drop p).take c.mps) 0) rs := by
  have hM := curLength_inorder c.mps l p (by omega) hl hmps'
  have hw : e.gen.len - 1 < 2 ^ e.gen.w := lt_two_pow_bitsFor _
  have hpp : p % 2 ^ e.gen.w = p := Nat.mod_eq_of_lt (by omega)
  have hpe : pastEnd e p = false := by
    unfold pastEnd
    cases hf : e.fixedLen with
    | none => rfl
    | some n => have := hfix n hf; simp; omega
  have hclamp : ∀ sr r, Gen.clamp e.gen (genIn c e l p sr r) % 2 ^ e.gen.w = p := by
    intro sr r
    unfold Gen.clamp genIn
    simp only [hpp]
    rw [if_neg (by omega), hpp]
  apply run_first
  · intro r
    rw [(step_view c s0 v l p true r j e g0 false false hs hv).1, Gen.step_idle _ _ _ hg0, beatOf_quiet]
  intro r0 rs
  have hv1 := (step_view c s0 v l p true r0 j e g0 false false hs hv).2
  rw [Gen.step_idle _ _ _ hg0, hpe] at hv1
  simp only [Bool.not_false, Bool.and_true, Bool.and_false] at hv1
  apply run_peel
  · intro r
    rw [(step_view c _ v l p false r j e _ true false hs hv1).1, Gen.step_idle _ _ _ (by simp [genIn]),
      beatOf_quiet]
  intro r1 rs
  have hv2 := (step_view c _ v l p false r1 j e _ true false hs hv1).2
  rw [Gen.step_idle _ _ _ (by simp [genIn])] at hv2
  simp only [Bool.false_and] at hv2
  show run c _ (holdInputs v l p rs) = sendTrace _ 0 rs
  have hMpos : curLength c.mps l p > 0 := by omega
  refine send_loop c v l p j e hs _ (by omega) (by omega) ?_ ?_ rs 0 _ _ ?_ ?_ hv2
  · rw [Block.chunk_length, hM]; rfl
  · intro i hi
    exact Block.chunk_getD _ _ _ _ _ hi
  · rw [Block.chunk_length]; show 0 < min (min (l - p) c.mps) (e.gen.len - p); omega
  · refine ⟨?_, ?_, rfl, rfl, ?_⟩
    · show (if (true && decide (curLength c.mps l p > 0)) = true then Gen.Fsm.streaming else Gen.Fsm.idle) = _
      simp [hMpos]
    · show Gen.clamp e.gen (genIn c e l p true r1) % 2 ^ e.gen.w = p + 0
      rw [hclamp]; rfl
    · show e.gen.data.getD (Gen.clamp e.gen (genIn c e l p true r1) % 2 ^ e.gen.w) 0 = _
      rw [hclamp]; rfl

/-- (repaired code) a fixed descriptor asked for at or past its end: one quiet cycle, then a
single ZLP pulse; the generator is not started. -/
theorem dist_zlp (c : Config) (s0 : State) (g0 : Gen.State) (v l p j n : Nat) (e : Entry)
    (hs : Selects c v j e) (hv : View s0 j g0 false false) (hg0 : g0.fsm = .idle)
    (hfix : e.fixedLen = some n) (hp : n ≤ p) (rs : List Bool) :
    run c s0 (reqInputs v l p rs) = delayed 1 (pulseTrace zlpBeat) rs := by
  have hpe : pastEnd e p = true := by
    unfold pastEnd; rw [hfix]; simp; omega
  apply run_first
  · intro r
    rw [(step_view c s0 v l p true r j e g0 false false hs hv).1, Gen.step_idle _ _ _ hg0, beatOf_quiet]
  intro r0 rs
  have hv1 := (step_view c s0 v l p true r0 j e g0 false false hs hv).2
  rw [Gen.step_idle _ _ _ hg0, hpe] at hv1
  simp only [Bool.not_true, Bool.and_true, Bool.and_false] at hv1
  show run c _ (holdInputs v l p rs) = pulseTrace zlpBeat rs
  cases rs with
  | nil => rfl
  | cons r1 rs =>
    rw [holdInputs_cons]
    simp only [run, pulseTrace]
    have hidle : (Gen.step e.gen g0 (genIn c e l p false r0)).1.fsm = .idle := by
      rw [Gen.step_idle _ _ _ hg0]; simp [genIn]
    rw [Gen.step_idle _ _ _ hg0] at hidle
    rw [(step_view c _ v l p false r1 j e _ false true hs hv1).1, Gen.step_idle _ _ _ hidle, beatOf_zlp]
    congr 1
    have hv2 := (step_view c _ v l p false r1 j e _ false true hs hv1).2
    rw [Gen.step_idle _ _ _ hidle] at hv2
    simp only [Bool.false_and] at hv2
    exact run_idle c v l p j e hs rs _ _ (by simp [genIn]) hv2

theorem step_none (c : Config) (s : State) (i : In) (h : ∀ e ∈ c.entries, e.key ≠ i.value) :
    (step c s i).2 = ⟨s.sendZlp, false, s.sendZlp, 0, i.start⟩ ∧ (step c s i).1.sendZlp = false := by
  have hn := stepAll_none c i c.entries s.gens h
  constructor <;> simp only [step, hn, mkOut]

theorem run_none_idle (c : Config) (v l p : Nat) (h : ∀ e ∈ c.entries, e.key ≠ v) (rs : List Bool) :
    ∀ s : State, s.sendZlp = false → run c s (holdInputs v l p rs) = idleTrace rs := by
  induction rs with
  | nil => intro s _; rfl
  | cons r rs ih =>
    intro s hz
    obtain ⟨ho, hz'⟩ := step_none c s ⟨v, l, p, false, r⟩ h
    rw [holdInputs_cons, idleTrace_cons]
    simp only [run]
    rw [ho, hz, ih _ hz']
    rfl

/-- no generator for this wValue: `stall` in the start cycle itself, never `valid`. -/
theorem dist_stall (c : Config) (s0 : State) (v l p : Nat) (h : ∀ e ∈ c.entries, e.key ≠ v)
    (hz : s0.sendZlp = false) (rs : List Bool) :
    run c s0 (reqInputs v l p rs) = delayed 0 (pulseTrace stallBeat) rs := by
  cases rs with
  | nil => rfl
  | cons r rs =>
    obtain ⟨ho, hz'⟩ := step_none c s0 ⟨v, l, p, true, r⟩ h
    rw [reqInputs_cons]
    simp only [run, delayed, pulseTrace]
    rw [ho, hz, run_none_idle c v l p h rs _ hz']
    rfl

end LunaVerif.Desc.Dist
