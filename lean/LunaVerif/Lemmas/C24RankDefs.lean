import LunaVerif.Lemmas.C24World
/-!
# C24 — the ranking function of the convergence proof

`rank K T v04 v0A x` bounds the number of DIR-low cycles the closed system needs, in the worst case
allowed by the bounded-fairness hypotheses (`liveCycle K T`), until both shadow registers — hence,
by coherence, both PHY registers — equal the requested values `(v04, v0A)` with nothing pending.
-/
namespace LunaVerif.Ulpi

/-- Cost of one still-missing register write: request accepted (1), START_WRITE (1), at most `K`
waits and the acceptance of the command (K+1), the same for the data byte (K+1), STOPPING (1), the
`done` cycle (1). -/
def wcost (K a b : Nat) : Nat := if a = b then 0 else 2 * K + 6

/-- Writes still needed, judged by the shadow registers. -/
def pendNow (K v04 v0A : Nat) (s : Utmi) : Nat :=
  wcost K s.ctl.cur04 v04 + wcost K s.ctl.cur0A v0A

/-- Writes still needed once the write in flight (latched pair `curAddr := curWrite`) is credited. -/
def pendAfter (K v04 v0A : Nat) (s : Utmi) : Nat :=
  (if s.win.curAddr = 4 then wcost K s.win.curWrite v04 else wcost K s.ctl.cur04 v04) +
  (if s.win.curAddr = 10 then wcost K s.win.curWrite v0A else wcost K s.ctl.cur0A v0A)

/-- DIR-low cycles until the transmit translator has let go of the bus. -/
def txRank (K T : Nat) (x : World) : Nat :=
  match x.u.tx.st, x.u.tx.outReq with
  | .idle, false => 0
  | .idle, true => (if x.e.prevDir then 1 else 0) + (K - x.e.waited) + 1 + T
  | .transmit, _ => T - x.e.tlen

def rank (K T v04 v0A : Nat) (x : World) : Nat :=
  match x.u.win.st with
  | .idle =>
    if x.u.win.done then 1 + pendAfter K v04 v0A x.u
    else if pendNow K v04 v0A x.u = 0 then 0
    else pendNow K v04 v0A x.u + txRank K T x
  | .startWrite => 2 * K + 5 + pendAfter K v04 v0A x.u
  | .sendWriteAddress => 2 * K + 4 - x.e.waited + pendAfter K v04 v0A x.u
  | .holdWrite => K + 3 - x.e.waited + pendAfter K v04 v0A x.u
  | .stopping => 2 + pendAfter K v04 v0A x.u
  | _ => 0

/-- Facts about the monitor used together with `Coh` in the liveness proof. -/
def Live (K : Nat) (x : World) : Prop :=
  x.e.waited ≤ K ∧ (x.e.prevDir = true → x.e.waited = 0) ∧
  (x.u.tx = ⟨.idle, true⟩ → x.e.mustHold = true)

/-- What one cycle does to the rank: a DIR-low cycle lowers it (if it is not already 0), a DIR-high
cycle raises it by at most `2K+4` (a register write in flight restarts), and 0 is absorbing. -/
def RankStep (K : Nat) (dir : Bool) (r r' : Nat) : Prop :=
  (r = 0 → r' = 0) ∧ (if dir then r' ≤ r + (2 * K + 4) else r' ≤ r - 1)

end LunaVerif.Ulpi
