import LunaVerif.Props.C12
import LunaVerif.Lemmas.DeviceSteps
/-!
# C12 / C14 — `cycle_refines_event` for the status endpoint (`USBSignalInEndpoint`)

The event-level model (`EpDev.epStep` on `.sig`, Model/Device/Endpoints.lean) consumes one host event; the
cycle-level model `SignalIn.step` (Model/Usb2/SignalInEndpoint.lean, C17) one clock cycle.  `expand` turns an
event, received with the token registers `tk` and resulting in the shared front-end record `sh` (token registers
after the event, `new_token`, halt-clear strobe), into the clock cycles the endpoint sees — idle cycles of
arbitrary number with arbitrary values on every input the expansion does not determine (`tx.ready`, `signal`)
around the strobes of the abstracted neighbours:

  * token detector: an accepted token shows its endpoint number / PID class in the cycle it strobes `new_token`
    and strobes `ready_for_response` later; any other token only changes the registers;
  * the `signal` input holds the event-level value in the `ready_for_response` cycle (the only cycle the
    gateware samples it in), and is arbitrary elsewhere;
  * packet generator: takes the bytes of a transmission one at a time, with any number of stall cycles
    (`tx.ready` low) before each byte, and nothing else happens while the endpoint transmits (one transaction
    at a time);
  * handshake detector / standard request handler: one cycle with `handshakes_in.ack` for a host ACK, which is
    also the cycle of the halt-clear strobe (`haltStrobe` is derived from that ACK).

`sig_cycle_refines_event`: running `SignalIn.step` over the expansion, from ANY cycle-level state related to the
event-level one, ends in a state related to the event-level successor and puts exactly the event-level response
on the transmit stream (PID from `tx_pid_toggle`, the bytes taken with `valid ∧ ready`, framed by `first`/`last`).
`sig_cycle_refines_run` lifts it to histories of the slice machine control endpoint × status endpoint.
Little-endian configuration (the event-level model's byte order).
-/
set_option linter.unusedSimpArgs false
set_option linter.unusedVariables false

namespace LunaVerif.C12Sig
open LunaVerif LunaVerif.Device LunaVerif.EpDev

/-! ### Event level: the `.sig` branch of `epStep` as a function on `SigState` -/

def sigPre (ec : EpCfg) (sh : Shared) (e : SigState) : SigState :=
  let s := if sh.newTok then sigNewToken e else e
  if haltHits ec true sh then { s with toggle := false } else s

def sigEv (ec : EpCfg) (sh : Shared) (e : SigState) (ev : HostEvent) : SigState × Resp :=
  let s := sigPre ec sh e
  match ev with
  | .token _ _ _ =>
    if sh.newTok ∧ sh.tokEp = ec.num ∧ sh.tokPid = PID_IN then sigToken ec.size s else (s, .none)
  | .handshake pid =>
    if pid = PID_ACK ∧ sh.tokEp = ec.num ∧ sh.tokPid = PID_IN then (sigAck s, .none) else (s, .none)
  | .setSignal ep v => if ep = ec.num then ({ s with signal := v }, .none) else (s, .none)
  | _ => (s, .none)

theorem epStep_sig (ec : EpCfg) (sh : Shared) (e : SigState) (ev : HostEvent) :
    epStep ec sh (.sig e) ev = (.sig (sigEv ec sh e ev).1, { resp := (sigEv ec sh e ev).2 }) := by
  cases ev <;> simp only [epStep, sigEv, sigPre] <;> (try split) <;> rfl

/-! ### Relation between the two state spaces -/

def fsmOf : SigFsm → SignalIn.Fsm
  | .idle => .idle
  | .waitAck => .waitAck
  | .retransmit => .retransmit

structure Rel (e : SigState) (s : SignalIn.State) : Prop where
  fsm     : s.fsm = fsmOf e.fsm
  latched : s.latched = e.latched
  toggle  : s.toggle = e.toggle

theorem rel_init : Rel {} SignalIn.init := ⟨rfl, rfl, rfl⟩

/-- The status endpoint of the event-level configuration `ec` (little-endian). -/
def cfgOf (ec : EpCfg) : SignalIn.Config := { width := ec.size, bigEndian := false, epNum := ec.num }

/-- The token registers as the endpoint sees them. -/
structure Tk where
  pid : Nat
  ep  : Nat
deriving DecidableEq, Repr

def tkOf (sh : Shared) : Tk := ⟨sh.tokPid, sh.tokEp⟩

/-- A cycle without any strobe while the token registers show `tk`; `tx.ready` and `signal` are taken from the
arbitrary record `n`. -/
def envIn (tk : Tk) (n : SignalIn.In) : SignalIn.In :=
  { n with endpoint := tk.ep, isIn := tk.pid == PID_IN, rfr := false, newToken := false, ack := false,
           clearHalt := false }

/-! ### Observing a cycle sequence -/

abbrev Tr := List (SignalIn.In × SignalIn.Out)

/-- The beats taken by the packet generator: (payload, first, last) of every cycle with `valid ∧ ready`. -/
def taken : Tr → List (Nat × Bool × Bool)
  | [] => []
  | (i, o) :: rest => (if o.valid && i.txReady then [(o.payload, o.first, o.last)] else []) ++ taken rest

/-- `tx_pid_toggle` in the first cycle with `tx.valid`. -/
def firstValid : Tr → Option Bool
  | [] => none
  | (_, o) :: rest => if o.valid then some o.toggle else firstValid rest

/-- The beats of a packet with payload `bytes`: `first` on the first, `last` on the last. -/
def frame : List Nat → List (Nat × Bool × Bool)
  | bs => (List.range bs.length).zipWith (fun k b => (b, k == 0, k + 1 == bs.length)) bs

/-- What a cycle sequence puts on the bus, as far as the endpoint determines it. -/
structure BusObs where
  pid   : Option Bool                 -- `tx_pid_toggle[0]` when the transmission starts
  beats : List (Nat × Bool × Bool)
deriving DecidableEq, Repr

def busObs (tr : Tr) : BusObs := ⟨firstValid tr, taken tr⟩

/-- The bus observation an event-level response stands for (the status endpoint never requests a handshake). -/
def obsOf : Resp → BusObs
  | .data pid bytes => ⟨some (pid == PID_DATA1), frame bytes⟩
  | _ => ⟨none, []⟩

theorem taken_append (a b : Tr) : taken (a ++ b) = taken a ++ taken b := by
  induction a with
  | nil => rfl
  | cons x xs ih => obtain ⟨i, o⟩ := x; simp [taken, ih]

theorem firstValid_append (a b : Tr) :
    firstValid (a ++ b) = (firstValid a).orElse (fun _ => firstValid b) := by
  induction a with
  | nil => rfl
  | cons x xs ih =>
    obtain ⟨i, o⟩ := x
    simp only [List.cons_append, firstValid]
    split <;> simp [ih]

theorem trace_append (c : SignalIn.Config) (s : SignalIn.State) (a b : List SignalIn.In) :
    SignalIn.trace c s (a ++ b) = SignalIn.trace c s a ++ SignalIn.trace c (SignalIn.runState c s a) b := by
  induction a generalizing s with
  | nil => rfl
  | cons i is ih => simp [SignalIn.trace, SignalIn.runState, ih]

theorem runState_append (c : SignalIn.Config) (s : SignalIn.State) (a b : List SignalIn.In) :
    SignalIn.runState c s (a ++ b) = SignalIn.runState c (SignalIn.runState c s a) b := by
  induction a generalizing s with
  | nil => rfl
  | cons i is ih => simp [SignalIn.runState, ih]

/-! ### Cycle sequences -/

/-- Running the cycles `is` from any cycle-level state related to `e` ends in a state related to `e'` and the
transmit stream carries `ob`. -/
def Sim (c : SignalIn.Config) (e e' : SigState) (is : List SignalIn.In) (ob : BusObs) : Prop :=
  ∀ s, Rel e s → Rel e' (SignalIn.runState c s is) ∧ busObs (SignalIn.trace c s is) = ob

def silent : BusObs := ⟨none, []⟩

theorem Sim.nil {c : SignalIn.Config} {e : SigState} : Sim c e e [] silent :=
  fun s h => ⟨h, rfl⟩

theorem Sim.none_append {c : SignalIn.Config} {e e1 e2 : SigState} {a b : List SignalIn.In} {ob : BusObs}
    (h1 : Sim c e e1 a silent) (h2 : Sim c e1 e2 b ob) : Sim c e e2 (a ++ b) ob := by
  intro s hr
  obtain ⟨a1, a2⟩ := h1 s hr
  obtain ⟨b1, b2⟩ := h2 _ a1
  refine ⟨by rw [runState_append]; exact b1, ?_⟩
  simp only [busObs, BusObs.mk.injEq, silent] at a2 b2 ⊢
  rw [trace_append, taken_append, firstValid_append, a2.1, a2.2]
  simpa using b2

theorem Sim.append_none {c : SignalIn.Config} {e e1 e2 : SigState} {a b : List SignalIn.In} {ob : BusObs}
    (h1 : Sim c e e1 a ob) (h2 : Sim c e1 e2 b silent) : Sim c e e2 (a ++ b) ob := by
  intro s hr
  obtain ⟨a1, a2⟩ := h1 s hr
  obtain ⟨b1, b2⟩ := h2 _ a1
  refine ⟨by rw [runState_append]; exact b1, ?_⟩
  simp only [busObs, BusObs.mk.injEq, silent] at b2
  subst a2
  simp only [busObs]
  rw [trace_append, taken_append, firstValid_append, b2.1, b2.2]
  cases firstValid (SignalIn.trace c s a) <;> simp

/-- (K0) a cycle without strobes. -/
theorem sim_quiet (c : SignalIn.Config) (e : SigState) (tk : Tk) (n : SignalIn.In) :
    Sim c e e [envIn tk n] silent := by
  intro s hr
  obtain ⟨h1, h2, h3⟩ := hr
  obtain ⟨fsm, latched, sent, toggle⟩ := s
  simp only at h1 h2 h3
  subst h1 h2 h3
  cases hf : e.fsm <;>
    simp [SignalIn.runState, SignalIn.trace, SignalIn.step, SignalIn.stepCore, envIn, fsmOf, busObs, taken,
      firstValid, silent, SignalIn.packetRequested, SignalIn.ackTaken, SignalIn.targeting] <;>
    exact ⟨by simp [hf, fsmOf], rfl, rfl⟩

def idle (tk : Tk) (ns : List SignalIn.In) : List SignalIn.In := ns.map (envIn tk)

theorem sim_idle (c : SignalIn.Config) (e : SigState) (tk : Tk) (ns : List SignalIn.In) :
    Sim c e e (idle tk ns) silent := by
  induction ns with
  | nil => exact Sim.nil
  | cons n ns ih => exact (sim_quiet c e tk n).none_append ih

/-- (K1) the cycle in which the token detector strobes `new_token` (registers already show the new token). -/
theorem sim_newToken (c : SignalIn.Config) (e : SigState) (tk : Tk) (n : SignalIn.In) :
    Sim c e (sigNewToken e) [{ envIn tk n with newToken := true }] silent := by
  intro s hr
  obtain ⟨h1, h2, h3⟩ := hr
  obtain ⟨fsm, latched, sent, toggle⟩ := s
  simp only at h1 h2 h3
  subst h1 h2 h3
  cases hf : e.fsm <;>
    simp [SignalIn.runState, SignalIn.trace, SignalIn.step, SignalIn.stepCore, envIn, fsmOf, busObs, taken,
      firstValid, silent, SignalIn.packetRequested, SignalIn.ackTaken, SignalIn.targeting, sigNewToken, hf] <;>
    exact ⟨by simp [hf, fsmOf], rfl, rfl⟩

/-- (K3) the cycle of a host handshake: `handshakes_in.ack` for an ACK, together with the halt-clear strobe
derived from it; the strobe never names the endpoint the ACK is for (it follows a control transfer). -/
theorem sim_ack (ec : EpCfg) (e : SigState) (tk : Tk) (n : SignalIn.In) (isAck halt : Bool)
    (hx : halt = true → ¬(tk.ep = ec.num ∧ tk.pid = PID_IN)) :
    Sim (cfgOf ec) e
      (let s := if halt then { e with toggle := false } else e
       if isAck = true ∧ tk.ep = ec.num ∧ tk.pid = PID_IN then sigAck s else s)
      [{ envIn tk n with ack := isAck, clearHalt := halt }] silent := by
  intro s hr
  obtain ⟨h1, h2, h3⟩ := hr
  obtain ⟨fsm, latched, sent, toggle⟩ := s
  simp only at h1 h2 h3
  subst h1 h2 h3
  by_cases hown : tk.ep = ec.num ∧ tk.pid = PID_IN
  · have hh : halt = false := by cases halt <;> simp_all
    subst hh
    cases isAck <;> cases hf : e.fsm <;>
      simp [SignalIn.runState, SignalIn.trace, SignalIn.step, SignalIn.stepCore, envIn, fsmOf, busObs, taken,
        firstValid, silent, SignalIn.packetRequested, SignalIn.ackTaken, SignalIn.targeting, sigAck, hf, hown,
        cfgOf] <;>
      exact ⟨by simp [hf, fsmOf], rfl, rfl⟩
  · have ht : SignalIn.targeting (cfgOf ec) { envIn tk n with ack := isAck, clearHalt := halt } = false := by
      simp only [SignalIn.targeting, envIn, cfgOf]
      by_cases h1 : tk.ep = ec.num <;> by_cases h2 : tk.pid = PID_IN <;> simp_all
    have hne : ¬(isAck = true ∧ tk.ep = ec.num ∧ tk.pid = PID_IN) := fun h => hown h.2
    simp only [hne, if_false]
    cases halt <;> cases hf : e.fsm <;>
      simp [SignalIn.runState, SignalIn.trace, SignalIn.step, SignalIn.stepCore, fsmOf, busObs, taken,
        firstValid, silent, SignalIn.packetRequested, SignalIn.ackTaken, ht, hf] <;>
      simp [envIn, hf, fsmOf] <;>
      exact ⟨by simp [hf, fsmOf], rfl, rfl⟩

/-! ### The transmission -/

def own (ec : EpCfg) (tk : Tk) : Prop := tk.ep = ec.num ∧ tk.pid = PID_IN

instance (ec : EpCfg) (tk : Tk) : Decidable (own ec tk) := by unfold own; infer_instance

/-- The cycles in which the packet generator takes bytes `k … k+m-1`: before byte `j` the stall cycles `st j`
(`tx.ready` low), then one cycle with `tx.ready` high (free inputs `tn j`). -/
def sendCyc (tk : Tk) (st : Nat → List SignalIn.In) (tn : Nat → SignalIn.In) : Nat → Nat → List SignalIn.In
  | _, 0 => []
  | k, m + 1 =>
    (st k).map (fun n => { envIn tk n with txReady := false }) ++
      ({ envIn tk (tn k) with txReady := true } :: sendCyc tk st tn (k + 1) m)

theorem stall_run (c : SignalIn.Config) (tk : Tk) (ns : List SignalIn.In) (s : SignalIn.State)
    (hf : s.fsm = .transmit) :
    SignalIn.runState c s (ns.map (fun n => { envIn tk n with txReady := false })) = s ∧
    taken (SignalIn.trace c s (ns.map (fun n => { envIn tk n with txReady := false }))) = [] := by
  induction ns with
  | nil => exact ⟨rfl, rfl⟩
  | cons n ns ih =>
    have h1 : (SignalIn.step c s { envIn tk n with txReady := false }).1 = s := by
      simp [SignalIn.step, SignalIn.stepCore, hf, envIn]
    simp only [List.map_cons, SignalIn.runState, SignalIn.trace, taken, h1]
    exact ⟨ih.1, by simp [ih.2]⟩

theorem send_run (c : SignalIn.Config) (hle : c.bigEndian = false) (tk : Tk) (st : Nat → List SignalIn.In)
    (tn : Nat → SignalIn.In) (m : Nat) :
    ∀ (k : Nat) (s : SignalIn.State), s.fsm = .transmit → s.sent = k → k + m = SignalIn.nbytes c → 0 < m →
      (SignalIn.runState c s (sendCyc tk st tn k m)).fsm = .waitAck ∧
      (SignalIn.runState c s (sendCyc tk st tn k m)).latched = s.latched ∧
      (SignalIn.runState c s (sendCyc tk st tn k m)).toggle = s.toggle ∧
      taken (SignalIn.trace c s (sendCyc tk st tn k m)) =
        (List.range' k m).map (fun j => (SignalIn.byteAt s.latched j, j == 0, j + 1 == SignalIn.nbytes c)) := by
  induction m with
  | zero => intro k s _ _ _ h; omega
  | succ m ih =>
    intro k s hf hs hk _
    obtain ⟨h1, h2⟩ := stall_run c tk (st k) s hf
    simp only [sendCyc, runState_append, trace_append, taken_append, h1, h2, List.nil_append,
      SignalIn.runState, SignalIn.trace, taken]
    obtain ⟨fsm, latched, sent, toggle⟩ := s
    simp only at hf hs
    subst hf hs
    by_cases hm : m = 0
    · subst hm
      have hl : (sent + 1 == SignalIn.nbytes c) = true := by simp; omega
      simp [SignalIn.step, SignalIn.stepCore, envIn, hl, sendCyc, SignalIn.runState, SignalIn.trace, taken,
        SignalIn.txIndex, hle, List.range']
    · have hl : (sent + 1 == SignalIn.nbytes c) = false := by simp; omega
      have hstep : (SignalIn.step c ⟨.transmit, latched, sent, toggle⟩ { envIn tk (tn sent) with txReady := true }).1
          = ⟨.transmit, latched, sent + 1, toggle⟩ := by
        simp [SignalIn.step, SignalIn.stepCore, envIn, hl]
      have hout : (SignalIn.step c ⟨.transmit, latched, sent, toggle⟩ { envIn tk (tn sent) with txReady := true }).2
          = ⟨true, sent == 0, false, SignalIn.byteAt latched sent, toggle, false⟩ := by
        simp [SignalIn.step, SignalIn.stepCore, envIn, hl, SignalIn.txIndex, hle]
      obtain ⟨a, b, d, e⟩ := ih (sent + 1) ⟨.transmit, latched, sent + 1, toggle⟩ rfl rfl (by omega) (by omega)
      rw [hstep, hout]
      refine ⟨a, b, d, ?_⟩
      simp only [Bool.and_self, if_true, e, List.range', List.map_cons, List.singleton_append, hl]

theorem firstValid_transmit (c : SignalIn.Config) (s : SignalIn.State) (i : SignalIn.In) (is : List SignalIn.In)
    (hf : s.fsm = .transmit) : firstValid (SignalIn.trace c s (i :: is)) = some s.toggle := by
  simp [SignalIn.trace, firstValid, SignalIn.step, SignalIn.stepCore, hf]
  split <;> rfl

theorem sendCyc_ne_nil (tk : Tk) (st : Nat → List SignalIn.In) (tn : Nat → SignalIn.In) (k m : Nat) (h : 0 < m) :
    ∃ i is, sendCyc tk st tn k m = i :: is := by
  cases m with
  | zero => omega
  | succ m =>
    simp only [sendCyc]
    cases hst : st k with
    | nil => exact ⟨_, _, rfl⟩
    | cons n ns => exact ⟨_, _, rfl⟩

theorem frame_sigBytes (w v : Nat) :
    (List.range' 0 ((w + 7) / 8)).map (fun j => (SignalIn.byteAt v j, j == 0, j + 1 == (w + 7) / 8))
      = frame (sigBytes w v) := by
  simp only [frame, sigBytes, List.length_map, List.length_range, List.zipWith_map_right, List.zipWith_self,
    SignalIn.byteAt, List.range_eq_range', List.length_range']

/-- (K2) the `ready_for_response` cycle of an IN token for this endpoint and the transmission it starts: the
latched (IDLE: freshly sampled) value goes out least significant byte first, with the endpoint's data toggle. -/
theorem sim_rfr_send (ec : EpCfg) (hw : 0 < ec.size) (e : SigState) (tk : Tk) (n : SignalIn.In)
    (st : Nat → List SignalIn.In) (tn : Nat → SignalIn.In) (ho : own ec tk) (hf : e.fsm ≠ .waitAck) :
    Sim (cfgOf ec) e (sigToken ec.size e).1
      ({ envIn tk n with rfr := true, signal := e.signal } :: sendCyc tk st tn 0 ((ec.size + 7) / 8))
      (obsOf (sigToken ec.size e).2) := by
  intro s hr
  obtain ⟨h1, h2, h3⟩ := hr
  obtain ⟨fsm, latched, sent, toggle⟩ := s
  simp only at h1 h2 h3
  subst h1 h2 h3
  have hreq : SignalIn.packetRequested (cfgOf ec) { envIn tk n with rfr := true, signal := e.signal } = true := by
    simp [SignalIn.packetRequested, envIn, cfgOf, ho.1, ho.2]
  have hnb : SignalIn.nbytes (cfgOf ec) = (ec.size + 7) / 8 := rfl
  have hpos : 0 < (ec.size + 7) / 8 := by omega
  have hpid : ∀ t : Bool, ((if t then PID_DATA1 else PID_DATA0) == PID_DATA1) = t := by
    intro t; cases t <;> decide
  obtain ⟨i0, is0, hne⟩ := sendCyc_ne_nil tk st tn 0 _ hpos
  cases hfe : e.fsm with
  | waitAck => exact absurd hfe hf
  | idle =>
    have hstep : (SignalIn.step (cfgOf ec) ⟨fsmOf .idle, e.latched, sent, e.toggle⟩
        { envIn tk n with rfr := true, signal := e.signal }) =
        (⟨.transmit, e.signal % 2 ^ ec.size, 0, e.toggle⟩,
         ⟨false, false, false, SignalIn.byteAt e.latched (SignalIn.txIndex (cfgOf ec) sent), e.toggle, false⟩) := by
      simp [SignalIn.step, SignalIn.stepCore, hfe, fsmOf, hreq]
      simp [envIn, cfgOf]
    obtain ⟨a, b, d, f⟩ := send_run (cfgOf ec) rfl tk st tn _ 0 ⟨.transmit, e.signal % 2 ^ ec.size, 0, e.toggle⟩
      rfl rfl (by rw [hnb]; omega) hpos
    simp only [SignalIn.runState, SignalIn.trace, hstep, busObs, taken, firstValid, sigToken, hfe, obsOf,
      Bool.false_and, Bool.false_eq_true, if_false, List.nil_append, hpid]
    refine ⟨⟨by rw [a]; rfl, by rw [b], by rw [d]⟩, ?_⟩
    rw [f, hnb, frame_sigBytes, hne, firstValid_transmit _ _ _ _ rfl]
  | retransmit =>
    have hstep : (SignalIn.step (cfgOf ec) ⟨fsmOf .retransmit, e.latched, sent, e.toggle⟩
        { envIn tk n with rfr := true, signal := e.signal }) =
        (⟨.transmit, e.latched, 0, e.toggle⟩,
         ⟨false, false, false, SignalIn.byteAt e.latched (SignalIn.txIndex (cfgOf ec) sent), e.toggle, false⟩) := by
      simp [SignalIn.step, SignalIn.stepCore, hfe, fsmOf, hreq]
      simp [envIn]
    obtain ⟨a, b, d, f⟩ := send_run (cfgOf ec) rfl tk st tn _ 0 ⟨.transmit, e.latched, 0, e.toggle⟩
      rfl rfl (by rw [hnb]; omega) hpos
    simp only [SignalIn.runState, SignalIn.trace, hstep, busObs, taken, firstValid, sigToken, hfe, obsOf,
      Bool.false_and, Bool.false_eq_true, if_false, List.nil_append, hpid]
    refine ⟨⟨by rw [a]; rfl, by rw [b], by rw [d]⟩, ?_⟩
    rw [f, hnb, frame_sigBytes, hne, firstValid_transmit _ _ _ _ rfl]

/-- (K2') `ready_for_response` for a token that is not an IN token for this endpoint: ignored. -/
theorem sim_rfr_foreign (ec : EpCfg) (e : SigState) (tk : Tk) (n : SignalIn.In) (v : Nat) (ho : ¬ own ec tk) :
    Sim (cfgOf ec) e e [{ envIn tk n with rfr := true, signal := v }] silent := by
  intro s hr
  obtain ⟨h1, h2, h3⟩ := hr
  obtain ⟨fsm, latched, sent, toggle⟩ := s
  simp only at h1 h2 h3
  subst h1 h2 h3
  have hreq : SignalIn.packetRequested (cfgOf ec) { envIn tk n with rfr := true, signal := v } = false := by
    simp only [SignalIn.packetRequested, envIn, cfgOf, own] at ho ⊢
    by_cases h1 : tk.ep = ec.num <;> by_cases h2 : tk.pid = PID_IN <;> simp_all
  cases hf : e.fsm <;>
    simp [SignalIn.runState, SignalIn.trace, SignalIn.step, SignalIn.stepCore, fsmOf, busObs, taken,
      firstValid, silent, hreq, hf, SignalIn.ackTaken] <;>
    simp [envIn] <;>
    exact ⟨by simp [hf, fsmOf], rfl, rfl⟩

/-! ### The expansion of an event -/

/-- The free parameters of an expansion: the free inputs of the idle cycles before / between / after the strobes
(any number of cycles each), of the strobe cycles themselves, and of the stall / take cycles of every byte. -/
structure Gaps where
  pre    : List SignalIn.In
  mid    : List SignalIn.In
  post   : List SignalIn.In
  n1     : SignalIn.In
  n2     : SignalIn.In
  stalls : Nat → List SignalIn.In
  takes  : Nat → SignalIn.In

/-- The clock cycles the status endpoint sees for the event `ev`, received with the token registers `tk` while the
event-level state is `e`; `sh` = the shared front end's view of the event (see the file header). -/
def expand (ec : EpCfg) (tk : Tk) (sh : Shared) (e : SigState) (ev : HostEvent) (g : Gaps) : List SignalIn.In :=
  let tk' := tkOf sh
  match ev with
  | .token _ _ _ =>
    if sh.newTok then
      idle tk g.pre ++ ([{ envIn tk' g.n1 with newToken := true }] ++ (idle tk' g.mid ++
        (({ envIn tk' g.n2 with rfr := true, signal := e.signal } ::
          (if own ec tk' then sendCyc tk' g.stalls g.takes 0 ((ec.size + 7) / 8) else [])) ++ idle tk' g.post)))
    else idle tk g.pre ++ idle tk' g.post
  | .handshake pid =>
    idle tk g.pre ++ ([{ envIn tk' g.n1 with ack := pid == PID_ACK, clearHalt := haltHits ec true sh }] ++
      idle tk' g.post)
  | _ => idle tk g.pre ++ idle tk' g.post

/-- What the event-level model assumes of the shared front end (true of `sharedOf`, see `shOk_sharedOf`): the
halt-clear strobe accompanies a host handshake that belongs to a control transfer (so not to this endpoint),
`new_token` a token. -/
def ShOk (ec : EpCfg) (sh : Shared) (ev : HostEvent) : Prop :=
  match ev with
  | .token _ _ _ => sh.halt = none
  | .handshake _ => sh.newTok = false ∧ (haltHits ec true sh = true → ¬(sh.tokEp = ec.num ∧ sh.tokPid = PID_IN))
  | _ => sh.newTok = false ∧ sh.halt = none

theorem haltHits_none (ec : EpCfg) (d : Bool) (sh : Shared) (h : sh.halt = none) : haltHits ec d sh = false := by
  simp [haltHits, h]

theorem sim_idle_only (c : SignalIn.Config) (e : SigState) (tk tk' : Tk) (a b : List SignalIn.In) :
    Sim c e e (idle tk a ++ idle tk' b) silent :=
  (sim_idle c e tk a).none_append (sim_idle c e tk' b)

/-- **`cycle_refines_event` for the status endpoint.**  For every host event, every event-level state `e` of the
endpoint, every view `tk` / `sh` of the shared front end satisfying `ShOk`, and every choice of idle-cycle
counts, stall patterns and free input values `g`: running `SignalIn.step` over the expansion from ANY cycle-level
state related to `e` ends in a state related to the event-level successor, and the transmit stream carries
exactly the event-level response — a DATA packet with the endpoint's toggle whose beats are the
`ceil(width/8)` bytes of the latched signal value, `first` on the first and `last` on the last; or nothing. -/
theorem sig_cycle_refines_event (ec : EpCfg) (hw : 0 < ec.size) (tk : Tk) (sh : Shared) (e : SigState)
    (ev : HostEvent) (g : Gaps) (hsh : ShOk ec sh ev) :
    Sim (cfgOf ec) e (sigEv ec sh e ev).1 (expand ec tk sh e ev g) (obsOf (sigEv ec sh e ev).2) := by
  cases ev with
  | token pid addr ep =>
    have hh : haltHits ec true sh = false := haltHits_none ec true sh hsh
    by_cases hnt : sh.newTok = true
    · have hpre : sigPre ec sh e = sigNewToken e := by simp [sigPre, hnt, hh]
      have hnw : (sigNewToken e).fsm ≠ .waitAck := by
        unfold sigNewToken; split <;> simp_all
      have hsig : (sigNewToken e).signal = e.signal := by unfold sigNewToken; split <;> rfl
      simp only [expand, hnt, if_true, sigEv, hpre, true_and]
      by_cases ho : own ec (tkOf sh)
      · have ho' : sh.tokEp = ec.num ∧ sh.tokPid = PID_IN := ho
        simp only [ho, ho', if_true, and_self]
        have hsend := sim_rfr_send ec hw (sigNewToken e) (tkOf sh) g.n2 g.stalls g.takes ho hnw
        rw [hsig] at hsend
        exact (sim_idle _ e tk g.pre).none_append
          ((sim_newToken _ e (tkOf sh) g.n1).none_append
            ((sim_idle _ _ _ g.mid).none_append (hsend.append_none (sim_idle _ _ _ g.post))))
      · have ho' : ¬(sh.tokEp = ec.num ∧ sh.tokPid = PID_IN) := ho
        simp only [ho, ho', if_false, List.cons_append, List.nil_append]
        exact (sim_idle _ e tk g.pre).none_append
          ((sim_newToken _ e (tkOf sh) g.n1).none_append
            ((sim_idle _ _ _ g.mid).none_append
              (Sim.none_append (a := [_]) (sim_rfr_foreign ec _ (tkOf sh) g.n2 e.signal ho) (sim_idle _ _ _ g.post))))
    · have hpre : sigPre ec sh e = e := by simp [sigPre, hnt, hh]
      simp only [expand, hnt, if_false, sigEv, hpre, false_and, Bool.false_eq_true]
      exact sim_idle_only _ e _ _ _ _
  | handshake pid =>
    obtain ⟨hnt, hx⟩ := hsh
    have hpre : sigPre ec sh e = if haltHits ec true sh then { e with toggle := false } else e := by
      simp [sigPre, hnt]
    have hack := sim_ack ec e (tkOf sh) g.n1 (pid == PID_ACK) (haltHits ec true sh) hx
    have hev : (sigEv ec sh e (.handshake pid)) =
        ((let s := if haltHits ec true sh then { e with toggle := false } else e
          if (pid == PID_ACK) = true ∧ (tkOf sh).ep = ec.num ∧ (tkOf sh).pid = PID_IN then sigAck s else s), .none) := by
      simp only [sigEv, hpre, tkOf, beq_iff_eq]
      split <;> rfl
    rw [hev]
    simp only [expand]
    exact (sim_idle _ e tk g.pre).none_append (hack.append_none (sim_idle _ _ _ g.post))
  | setSignal ep v =>
    obtain ⟨hnt, hh⟩ := hsh
    have hpre : sigPre ec sh e = e := by simp [sigPre, hnt, haltHits_none ec true sh hh]
    simp only [expand, sigEv, hpre]
    intro s hr
    have := sim_idle_only (cfgOf ec) e tk (tkOf sh) g.pre g.post s hr
    refine ⟨?_, by split <;> exact this.2⟩
    split
    · exact ⟨this.1.fsm, this.1.latched, this.1.toggle⟩
    · exact this.1
  | sof f =>
    have hpre : sigPre ec sh e = e := by simp [sigPre, hsh.1, haltHits_none ec true sh hsh.2]
    simp only [expand, sigEv, hpre]; exact sim_idle_only _ e _ _ _ _
  | data p b ok =>
    have hpre : sigPre ec sh e = e := by simp [sigPre, hsh.1, haltHits_none ec true sh hsh.2]
    simp only [expand, sigEv, hpre]; exact sim_idle_only _ e _ _ _ _
  | malformed b =>
    have hpre : sigPre ec sh e = e := by simp [sigPre, hsh.1, haltHits_none ec true sh hsh.2]
    simp only [expand, sigEv, hpre]; exact sim_idle_only _ e _ _ _ _
  | quiet =>
    have hpre : sigPre ec sh e = e := by simp [sigPre, hsh.1, haltHits_none ec true sh hsh.2]
    simp only [expand, sigEv, hpre]; exact sim_idle_only _ e _ _ _ _
  | busReset =>
    have hpre : sigPre ec sh e = e := by simp [sigPre, hsh.1, haltHits_none ec true sh hsh.2]
    simp only [expand, sigEv, hpre]; exact sim_idle_only _ e _ _ _ _
  | produce e' b l =>
    have hpre : sigPre ec sh e = e := by simp [sigPre, hsh.1, haltHits_none ec true sh hsh.2]
    simp only [expand, sigEv, hpre]; exact sim_idle_only _ e _ _ _ _
  | consume e' k =>
    have hpre : sigPre ec sh e = e := by simp [sigPre, hsh.1, haltHits_none ec true sh hsh.2]
    simp only [expand, sigEv, hpre]; exact sim_idle_only _ e _ _ _ _

/-! ### Histories of the slice machine control endpoint × status endpoint -/

theorem haltStrobe_tokEp (c : DevConfig) (d : DevState) (ev : HostEvent) (x : Bool × Nat)
    (h : haltStrobe c d ev = some x) : d.tokEp = 0 ∧ ∃ pid, ev = .handshake pid := by
  cases ev with
  | handshake pid =>
    simp only [haltStrobe] at h
    split at h
    · rename_i hc; exact ⟨hc.2.1, pid, rfl⟩
    · simp at h
  | _ => simp [haltStrobe] at h

/-- The device's shared front end (`sharedOf`: token registers of `Device.core`, `new_token` for accepted tokens,
the standard request handler's halt-clear strobe) satisfies `ShOk` for every endpoint with a number ≠ 0. -/
theorem shOk_sharedOf (c : DevConfig) (ec : EpCfg) (hn : 0 < ec.num) (d : DevState) (ev : HostEvent) :
    ShOk ec (sharedOf c d ev) ev := by
  cases ev with
  | token pid addr ep => simp [ShOk, sharedOf, haltStrobe]
  | handshake pid =>
    refine ⟨by simp [sharedOf, acceptedToken], fun hh hown => ?_⟩
    have hsome : ∃ x, haltStrobe c d (.handshake pid) = some x := by
      simp only [haltHits, sharedOf] at hh
      cases hs : haltStrobe c d (.handshake pid) with
      | none => simp [hs] at hh
      | some x => exact ⟨x, rfl⟩
    obtain ⟨x, hx⟩ := hsome
    have h0 := (haltStrobe_tokEp c d _ x hx).1
    have : (sharedOf c d (.handshake pid)).tokEp = d.tokEp := by
      simp only [sharedOf, core]; exact (onHandshake_tok d pid).2
    omega
  | _ => simp [ShOk, sharedOf, acceptedToken, haltStrobe]

/-- The cycles of a whole history (every event with its own idle-cycle counts and free inputs). -/
def expandAll (c : DevConfig) (ec : EpCfg) : DevState → SigState → List (HostEvent × Gaps) → List SignalIn.In
  | _, _, [] => []
  | d, e, (ev, g) :: rest =>
    expand ec ⟨d.tokPid, d.tokEp⟩ (sharedOf c d ev) e ev g ++
      expandAll c ec (core c d ev).1 (sigEv ec (sharedOf c d ev) e ev).1 rest

/-- The cycle-level bus observations, event by event. -/
def cycObs (c : DevConfig) (ec : EpCfg) :
    DevState → SigState → SignalIn.State → List (HostEvent × Gaps) → List BusObs
  | _, _, _, [] => []
  | d, e, s, (ev, g) :: rest =>
    let is := expand ec ⟨d.tokPid, d.tokEp⟩ (sharedOf c d ev) e ev g
    busObs (SignalIn.trace (cfgOf ec) s is) ::
      cycObs c ec (core c d ev).1 (sigEv ec (sharedOf c d ev) e ev).1 (SignalIn.runState (cfgOf ec) s is) rest

/-- **`cycle_refines_event`, histories.**  Along EVERY event history of the device (tokens for any endpoint and
address, control transfers including CLEAR_FEATURE(ENDPOINT_HALT), handshakes, signal changes, with arbitrary
idle-cycle counts, stall patterns and free inputs per event): the cycle-level status endpoint, run over the
concatenated expansions from any state related to the event-level start state, ends related to the event-level
final state of the slice machine (`C12.sliceFinal`, which `C12.slice_of_final` identifies with the endpoint's
state inside the whole device), and transmits for every event exactly the event-level response. -/
theorem sig_cycle_refines_run (c : DevConfig) (ec : EpCfg) (hw : 0 < ec.size) (hn : 0 < ec.num)
    (h : List (HostEvent × Gaps)) :
    ∀ (d : DevState) (e : SigState) (s : SignalIn.State), Rel e s →
      ∃ e', (C12.sliceFinal c ec (d, .sig e) (h.map (·.1))).2 = .sig e' ∧
        Rel e' (SignalIn.runState (cfgOf ec) s (expandAll c ec d e h)) ∧
        cycObs c ec d e s h = (C12.sliceRun c ec (d, .sig e) (h.map (·.1))).map (fun o => obsOf o.resp) := by
  induction h with
  | nil => intro d e s hr; exact ⟨e, rfl, hr, rfl⟩
  | cons x rest ih =>
    obtain ⟨ev, g⟩ := x
    intro d e s hr
    obtain ⟨a1, a2⟩ := sig_cycle_refines_event ec hw ⟨d.tokPid, d.tokEp⟩ (sharedOf c d ev) e ev g
      (shOk_sharedOf c ec hn d ev) s hr
    obtain ⟨e', b1, b2, b3⟩ := ih (core c d ev).1 (sigEv ec (sharedOf c d ev) e ev).1 _ a1
    have hstep : C12.sliceStep c ec (d, .sig e) ev =
        (((core c d ev).1, .sig (sigEv ec (sharedOf c d ev) e ev).1), { resp := (sigEv ec (sharedOf c d ev) e ev).2 }) := by
      simp only [C12.sliceStep, epStep_sig]
    refine ⟨e', ?_, ?_, ?_⟩
    · simp only [List.map_cons, C12.sliceFinal, hstep]; exact b1
    · simp only [expandAll, runState_append]; exact b2
    · simp only [List.map_cons, cycObs, C12.sliceRun, hstep, a2, b3]

/-! ### Non-vacuity: a 12-bit status endpoint number 3: signal := 0xABC, IN (DATA0 `[0xBC, 0x0A]`), lost ACK, IN again
(the latched value is retransmitted although the signal has changed), ACK, IN (DATA1 with the new value), then
CLEAR_FEATURE(ENDPOINT_HALT) for IN 3 and a last IN (DATA0 again) -/

def exEc : EpCfg := ⟨.signalIn, 3, 12, 0⟩

def exIn : SignalIn.In := ⟨0, false, false, false, false, false, 0x5555, false⟩

def exGaps : Gaps :=
  { pre := [exIn, { exIn with txReady := true }], mid := [exIn], post := [{ exIn with signal := 7 }],
    n1 := exIn, n2 := exIn, stalls := fun k => List.replicate k exIn, takes := fun _ => exIn }

def exHistory : List (HostEvent × Gaps) :=
  [(.setSignal 3 0xABC, exGaps), (.token PID_IN 0 3, exGaps), (.quiet, exGaps), (.setSignal 3 0x123, exGaps),
   (.token PID_OUT 0 1, exGaps), (.data PID_DATA0 [1, 2] true, exGaps),
   (.token PID_IN 0 3, exGaps), (.handshake PID_ACK, exGaps),
   (.token PID_SETUP 0 0, exGaps), (.data PID_DATA0 [0x02, 1, 0, 0, 0x83, 0, 0, 0] true, exGaps),
   (.token PID_IN 0 0, exGaps), (.handshake PID_ACK, exGaps),
   (.token PID_IN 0 3, exGaps), (.handshake PID_ACK, exGaps), (.token PID_IN 0 3, exGaps)]

example : (expandAll {} exEc Device.init {} exHistory).length = 81 := by decide +kernel
example : (C12.sliceRun {} exEc (Device.init, .sig {}) (exHistory.map (·.1))).map (·.resp) =
    [.none, .data PID_DATA0 [0xBC, 0x0A], .none, .none, .none, .none, .data PID_DATA0 [0xBC, 0x0A], .none,
     .none, .none, .none, .none, .data PID_DATA0 [0x23, 0x01], .none, .data PID_DATA1 [0x23, 0x01]] := by decide +kernel
example : cycObs {} exEc Device.init {} SignalIn.init exHistory =
    (C12.sliceRun {} exEc (Device.init, .sig {}) (exHistory.map (·.1))).map (fun o => obsOf o.resp) := by
  decide +kernel

end LunaVerif.C12Sig
