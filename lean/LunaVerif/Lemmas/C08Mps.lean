import LunaVerif.Lemmas.DeviceStepsM
import LunaVerif.Props.C08
/-!
# C08 — the property theorems for EVERY control `max_packet_size`
(Props/C08.lean over `coreM` / `stepM` / `finalM` / `LegalHostM` of Model/Device/ControlM.lean)

Props/C08.lean is about `Device.step`, whose GET_DESCRIPTOR advance is the literal 64.  `drv_dev` steps with `stepM`
(`start_position += c.maxPacket`) and the event-level co-simulation builds the real `USBDevice` with control max packet
sizes 8 / 16 / 32 / 64, so here every C08 theorem is stated of that model, with NO hypothesis on `c.maxPacket`.  The two
history theorems (`address_changes_only_on_status_ack_mps`, `configuration_changes_only_on_status_ack_mps`) are re-proved
over `finalM` / `LegalHostM` (the reachable states and the legal hosts of the two models differ); the one-step theorems
follow from `stepM_ctl` (from the same state the two models agree on every control register and on the response).
-/
namespace LunaVerif.Device

/-- `StatusZlpJustSent` over `finalM` / `stepM`. -/
def StatusZlpJustSentM (c : DevConfig) (h : List Stim) (req : Nat) : Prop :=
  ∃ h₀ t, h = h₀ ++ [t] ∧
    t.ev = .token PID_IN (finalM c init h₀).address 0 ∧
    (finalM c init h).stage = .statusIn ∧
    (∃ pid, (stepM c (finalM c init h₀) t).2 = .data pid []) ∧
    (finalM c init h).setup = (finalM c init h₀).setup ∧
    (finalM c init h).setup.type = TYPE_STANDARD ∧ (finalM c init h).setup.request = req

/-- For 64 it is `StatusZlpJustSent`. -/
theorem statusZlpJustSentM_64 (c : DevConfig) (hmp : c.maxPacket = 64) (h : List Stim) (req : Nat) :
    StatusZlpJustSentM c h req ↔ StatusZlpJustSent c h req := by
  unfold StatusZlpJustSentM StatusZlpJustSent
  simp only [finalM_eq_final c hmp, stepM_eq_step c hmp]

/-- `ack_in_regwrite_state_answers_status_zlp`, every max packet size. -/
theorem ack_in_regwrite_state_answers_status_zlp_mps (c : DevConfig) (h : List Stim) (x : Stim) (pid : Nat)
    (hx : x.ev = .handshake pid)
    (legal : LegalHostM c (h ++ [x]) = true)
    (reach : AckReachesHandler (finalM c init h) pid)
    (hh : IsRegWrite (finalM c init h).hstate) :
    StatusZlpJustSentM c h
      (if (finalM c init h).hstate = .setAddress then REQ_SET_ADDRESS else REQ_SET_CONFIGURATION) := by
  obtain ⟨_, lx⟩ := legalM_snoc legal
  obtain ⟨_, hep, hpid, hty⟩ := reach
  -- a legal host handshake follows a DATA packet of the device (the token detector still shows our IN token)
  have hd : (finalM c init h).gRespData = true := by
    unfold legalEventM at lx
    rw [hx] at lx
    simp only [Bool.and_eq_true, Bool.or_eq_true, beq_iff_eq] at lx
    rcases lx.2.2 with g | g
    · exact g
    · rw [hpid] at g; exact absurd g (by decide)
  rcases list_nil_or_snoc h with rfl | ⟨h₀, t, rfl⟩
  · simp [finalM, init] at hd
  · rw [finalM_snoc] at hd hep hpid hty hh ⊢
    have i₀ := inv_reachableM c h₀
    obtain ⟨ht, hr, hc⟩ := data_answer_is_to_in_token_M c _ t i₀ hd hep hpid
    have hctl := onToken_ctl c (finalM c init h₀) PID_IN 0
    have hsu : (stepM c (finalM c init h₀) t).1.setup = (finalM c init h₀).setup := by
      rw [stepM_setup, hc, hctl.setup]; rfl
    rw [hsu] at hty
    rw [stepM_hstate, hc] at hh
    have hdata : (onToken c (finalM c init h₀) PID_IN 0).2.isData = true := by
      rw [← hr, ← stepM_gRespData]; exact hd
    obtain ⟨hst, hz, hhs⟩ := onToken_regwrite c _ hty hh hdata
    have inv := inv_stepM c _ t i₀
    have hreq := inv.handler (by rw [hsu]; exact hty)
    rw [stepM_hstate, hc] at hreq ⊢
    refine ⟨h₀, t, rfl, ht, ?_, ⟨_, by rw [hr]; exact hz⟩, ?_, ?_, ?_⟩ <;> rw [finalM_snoc]
    · rw [stepM_stage, hc]; exact hst
    · exact hsu
    · rw [hsu]; exact hty
    · rcases hh with hh | hh
      · rw [hh] at hreq ⊢
        rcases hreq with hreq | hreq
        · cases hreq
        · simpa using dispatch_setAddress _ hreq.symm
      · rw [hh] at hreq ⊢
        rcases hreq with hreq | hreq
        · cases hreq
        · simpa using dispatch_setConfiguration _ hreq.symm

/-- `old_address_until_commit`, every max packet size (from ANY state). -/
theorem old_address_until_commit_mps (c : DevConfig) (s : DevState) (x : Stim)
    (h₁ : x.ev ≠ .busReset) (h₂ : ∀ pid, x.ev ≠ .handshake pid) :
    (stepM c s x).1.address = s.address ∧ (stepM c s x).1.config = s.config := by
  rw [(stepM_ctl c s x).1, (stepM_ctl c s x).2.1]
  exact old_address_until_commit c s x h₁ h₂

/-- **C08 (address), every max packet size.**  In any `LegalHostM` history the device address differs between two
consecutive events only at a bus reset (new address 0), or at the host's ACK of the status-stage ZLP of a standard
SET_ADDRESS request, whose `wValue[6:0]` is the new address. -/
theorem address_changes_only_on_status_ack_mps (c : DevConfig) (h : List Stim) (x : Stim)
    (legal : LegalHostM c (h ++ [x]) = true)
    (changed : (finalM c init (h ++ [x])).address ≠ (finalM c init h).address) :
    (x.ev = .busReset ∧ (finalM c init (h ++ [x])).address = 0) ∨
    (x.ev = .handshake PID_ACK ∧ StatusZlpJustSentM c h REQ_SET_ADDRESS ∧
      (finalM c init (h ++ [x])).address = (finalM c init h).setup.value % 128) := by
  rw [finalM_snoc] at changed ⊢
  by_cases hb : x.ev = .busReset
  · left
    refine ⟨hb, ?_⟩
    rw [stepM_address, hb]; rfl
  · by_cases hk : ∃ pid, x.ev = .handshake pid
    · obtain ⟨pid, hx⟩ := hk
      right
      rw [stepM_address, hx] at changed ⊢
      obtain ⟨reach, hs, hv⟩ := onHandshakeM_address _ _ pid changed
      have hp : pid = PID_ACK := reach.1
      subst hp
      have := ack_in_regwrite_state_answers_status_zlp_mps c h x _ hx legal reach (Or.inl hs)
      rw [if_pos hs] at this
      exact ⟨rfl, this, hv⟩
    · exact absurd (old_address_until_commit_mps c _ x hb (fun pid g => hk ⟨pid, g⟩)).1 changed

/-- **C08 (configuration), every max packet size.** -/
theorem configuration_changes_only_on_status_ack_mps (c : DevConfig) (h : List Stim) (x : Stim)
    (legal : LegalHostM c (h ++ [x]) = true)
    (changed : (finalM c init (h ++ [x])).config ≠ (finalM c init h).config) :
    (x.ev = .busReset ∧ (finalM c init (h ++ [x])).config = 0) ∨
    (x.ev = .handshake PID_ACK ∧ StatusZlpJustSentM c h REQ_SET_CONFIGURATION ∧
      (finalM c init (h ++ [x])).config = (finalM c init h).setup.value % 256) := by
  rw [finalM_snoc] at changed ⊢
  by_cases hb : x.ev = .busReset
  · left
    refine ⟨hb, ?_⟩
    rw [stepM_config, hb]; rfl
  · by_cases hk : ∃ pid, x.ev = .handshake pid
    · obtain ⟨pid, hx⟩ := hk
      right
      rw [stepM_config, hx] at changed ⊢
      obtain ⟨reach, hs, hv⟩ := onHandshakeM_config _ _ pid changed
      have hp : pid = PID_ACK := reach.1
      subst hp
      have := ack_in_regwrite_state_answers_status_zlp_mps c h x _ hx legal reach (Or.inr hs)
      rw [if_neg (by rw [hs]; simp)] at this
      exact ⟨rfl, this, hv⟩
    · exact absurd (old_address_until_commit_mps c _ x hb (fun pid g => hk ⟨pid, g⟩)).2 changed

/-- "of that same request", every max packet size: the latched SETUP packet only changes when a well-formed 8-byte
data packet directly follows a SETUP token for this device, and it then is that packet (which the device ACKs). -/
theorem setup_latched_only_by_setup_transaction_mps (c : DevConfig) (s : DevState) (x : Stim)
    (changed : (stepM c s x).1.setup ≠ s.setup) :
    ∃ pid p, x.ev = .data pid p true ∧ s.sdWait = true ∧ s.tokPid = PID_SETUP ∧ p.length = 8 ∧
      (stepM c s x).1.setup = parseSetup p ∧ (coreM c s x.ev).2 = .hs PID_ACK := by
  have hs := (stepM_ctl c s x).2.2.2.2.2.1
  rw [hs] at changed ⊢
  rw [(coreM_ctl c s x.ev).2.2.2.2.2.2.2.2.2.2]
  exact setup_latched_only_by_setup_transaction c s x changed

theorem token_for_other_address_is_ignored_mps (c : DevConfig) (s : DevState) (pid addr ep : Nat)
    (h : addr ≠ s.address) :
    coreM c s (.token pid addr ep) = ({ s with tokPid := 0 }, .none) :=
  token_for_other_address_is_ignored c s pid addr ep h

theorem token_for_own_address_is_processed_mps (c : DevConfig) (s : DevState) (pid ep : Nat) :
    coreM c s (.token pid s.address ep) = onToken c s pid ep :=
  token_for_own_address_is_processed c s pid ep

/-- "handshakes belonging to other endpoints' transactions never trigger these changes", every max packet size: the
whole state is unchanged -- no register written, no handler movement, no `start_position` advance. -/
theorem foreign_ack_does_not_commit_mps (c : DevConfig) (s : DevState) (pid : Nat)
    (h : s.tokEp ≠ 0 ∨ s.tokPid ≠ PID_IN) :
    (coreM c s (.handshake pid)).1 = s := by
  show onHandshakeM c.maxPacket s pid = s
  apply onHandshakeM_noreach
  unfold AckReachesHandler
  rcases h with h | h
  · exact fun g => h g.2.1
  · exact fun g => h g.2.2.1

/-- "exactly once", every max packet size: the commit returns the handler to IDLE … -/
theorem commit_returns_to_idle_mps (mps : Nat) (s : DevState) (pid : Nat)
    (changed : (onHandshakeM mps s pid).address ≠ s.address ∨ (onHandshakeM mps s pid).config ≠ s.config) :
    (onHandshakeM mps s pid).hstate = .idle := by
  obtain ⟨h1, h2, _, _, _, _, _, h8, _, _⟩ := onHandshakeM_ctl mps s pid
  rw [h1, h2] at changed
  rw [h8]
  exact commit_returns_to_idle s pid changed

/-- … and in IDLE no handshake writes a register. -/
theorem idle_handler_ignores_handshakes_mps (mps : Nat) (s : DevState) (pid : Nat) (h : s.hstate = .idle) :
    (onHandshakeM mps s pid).address = s.address ∧ (onHandshakeM mps s pid).config = s.config := by
  obtain ⟨h1, h2, _⟩ := onHandshakeM_ctl mps s pid
  rw [h1, h2]
  exact idle_handler_ignores_handshakes s pid h

/-- "A bus reset returns the device to address 0 and configuration 0" (from any state), every max packet size. -/
theorem bus_reset_clears_mps (c : DevConfig) (s : DevState) (f : Resp) :
    (stepM c s ⟨.busReset, f⟩).1.address = 0 ∧ (stepM c s ⟨.busReset, f⟩).1.config = 0 := ⟨rfl, rfl⟩

/-- The commit does happen, every max packet size. -/
theorem status_ack_commits_mps (mps : Nat) (s : DevState) (g : AckReachesHandler s PID_ACK) :
    (s.hstate = .setAddress → (onHandshakeM mps s PID_ACK).address = s.setup.value % 128) ∧
    (s.hstate = .setConfiguration → (onHandshakeM mps s PID_ACK).config = s.setup.value % 256) := by
  obtain ⟨h1, h2, _⟩ := onHandshakeM_ctl mps s PID_ACK
  rw [h1, h2]
  exact status_ack_commits s g

/-! ### Non-vacuity: `max_packet_size = 8` -/

/-- The 18-byte device descriptor, control max packet size 8. -/
def cfg8 : DevConfig :=
  { descriptors := [(1, 0, [18, 1, 0, 2, 0, 0, 0, 8, 9, 18, 1, 0, 0, 1, 1, 2, 3, 1])], maxPacket := 8, posBits := 5 }

/-- GET_DESCRIPTOR(device, wLength 18) read in 8 + 8 + 2 bytes with the host's ACKs, status OUT; then SET_ADDRESS 5
with a bulk IN + ACK on endpoint 1 before its status stage; then SET_CONFIGURATION 1 at the new address. -/
def enumeration8 : List Stim :=
  setupTransaction 0 [0x80, 6, 0, 1, 0, 0, 18, 0] ++
  [⟨.token PID_IN 0 0, .none⟩, ⟨.handshake PID_ACK, .none⟩, ⟨.token PID_IN 0 0, .none⟩, ⟨.handshake PID_ACK, .none⟩,
   ⟨.token PID_IN 0 0, .none⟩, ⟨.handshake PID_ACK, .none⟩,
   ⟨.token PID_OUT 0 0, .none⟩, ⟨.data PID_DATA1 [] true, .none⟩] ++
  setupTransaction 0 [0x00, 5, 5, 0, 0, 0, 0, 0] ++
  [⟨.token PID_IN 0 1, .data PID_DATA0 [1, 2, 3]⟩, ⟨.handshake PID_ACK, .none⟩,
   ⟨.token PID_IN 0 0, .none⟩, ⟨.handshake PID_ACK, .none⟩] ++
  setupTransaction 5 [0x00, 9, 1, 0, 0, 0, 0, 0] ++
  [⟨.token PID_IN 5 0, .none⟩, ⟨.handshake PID_ACK, .none⟩]

example : LegalHostM cfg8 enumeration8 = true := by decide +kernel
example : (finalM cfg8 init enumeration8).address = 5 ∧ (finalM cfg8 init enumeration8).config = 1 := by decide +kernel
example : respsM cfg8 init enumeration8 =
    [.none, .hs PID_ACK,
     .data PID_DATA1 [18, 1, 0, 2, 0, 0, 0, 8], .none, .data PID_DATA0 [9, 18, 1, 0, 0, 1, 1, 2], .none,
     .data PID_DATA1 [3, 1], .none, .none, .hs PID_ACK,
     .none, .hs PID_ACK, .data PID_DATA0 [1, 2, 3], .none, .data PID_DATA1 [], .none,
     .none, .hs PID_ACK, .data PID_DATA1 [], .none] := by decide +kernel
/-- The 64 model answers the second data-stage IN differently (its `start_position` is 64): the history theorems of
Props/C08.lean do not speak about this device. -/
example : (run cfg8 init enumeration8).map (·.2) ≠ respsM cfg8 init enumeration8 := by decide +kernel
/-- The address is still 0 after the ACK of the bulk IN packet and 5 after the status-stage ACK. -/
example : (finalM cfg8 init (enumeration8.take 14)).address = 0 ∧ (finalM cfg8 init (enumeration8.take 16)).address = 5 := by
  decide +kernel

end LunaVerif.Device
