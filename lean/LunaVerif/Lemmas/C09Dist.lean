import LunaVerif.Lemmas.C09Block
import LunaVerif.Model.Usb2.DescriptorDistributed
/-!
Helper lemmas for C09: symbolic execution of the distributed handler model for one request.
-/
namespace LunaVerif.Desc

/-! ### the stream generator, one step per FSM state and branch -/
namespace Gen

def quietOut : Out := ⟨false, false, false, 0⟩

/-- the clamped start position -/
def clamp (c : Config) (i : In) : Nat := if i.startPos ≥ c.len then c.len - 1 else i.startPos

theorem step_idle (c : Config) (s : State) (i : In) (h : s.fsm = .idle) :
    step c s i = ({ s with pos := clamp c i % 2 ^ c.w, sent := 0, maxLen := i.maxLength,
                           fsm := if i.start && i.maxLength > 0 then .streaming else .idle,
                           romData := c.data.getD (clamp c i % 2 ^ c.w) 0 }, quietOut) := by
  simp only [step, h, clamp, quietOut]

theorem step_done (c : Config) (s : State) (i : In) (h : s.fsm = .done) :
    step c s i = ({ s with fsm := .idle, romData := c.data.getD 0 0 }, quietOut) := by
  simp only [step, h, quietOut]

def streamOut (c : Config) (s : State) (i : In) : Out := ⟨true, s.pos == i.startPos, onLast c s, s.romData⟩

theorem step_stream_hold (c : Config) (s : State) (i : In) (h : s.fsm = .streaming) (hr : i.ready = false) :
    step c s i = ({ s with romData := c.data.getD s.pos 0 }, streamOut c s i) := by
  simp [step, h, hr, streamOut]

theorem step_stream_next (c : Config) (s : State) (i : In) (h : s.fsm = .streaming) (hr : i.ready = true)
    (hl : onLast c s = false) :
    step c s i = ({ s with pos := (s.pos + 1) % 2 ^ c.w, sent := (s.sent + 1) % 65536,
                           romData := c.data.getD ((s.pos + 1) % 2 ^ c.w) 0 }, streamOut c s i) := by
  simp [step, h, hr, hl, streamOut]

theorem step_stream_last (c : Config) (s : State) (i : In) (h : s.fsm = .streaming) (hr : i.ready = true)
    (hl : onLast c s = true) :
    step c s i = ({ s with fsm := .done, romData := c.data.getD s.pos 0 }, streamOut c s i) := by
  simp [step, h, hr, hl, streamOut]

end Gen

namespace Dist

def reqInputs (v l p : Nat) : List Bool → List In
  | [] => []
  | r :: rs => ⟨v, l, p, true, r⟩ :: rs.map (fun r => ⟨v, l, p, false, r⟩)

def holdInputs (v l p : Nat) (rs : List Bool) : List In := rs.map (fun r => ⟨v, l, p, false, r⟩)

theorem holdInputs_cons (v l p : Nat) (r : Bool) (rs : List Bool) :
    holdInputs v l p (r :: rs) = ⟨v, l, p, false, r⟩ :: holdInputs v l p rs := rfl

theorem reqInputs_cons (v l p : Nat) (r : Bool) (rs : List Bool) :
    reqInputs v l p (r :: rs) = ⟨v, l, p, true, r⟩ :: holdInputs v l p rs := rfl

/-! ### the `Switch(value)`: which entry is stepped and shown -/

theorem stepAll_sel (c : Config) (i : In) :
    ∀ (es : List Entry) (gs : List (Gen.State × Bool)) (j : Nat) (e : Entry) (g : Gen.State × Bool),
      es[j]? = some e → e.key = i.value →
      (∀ k e', k < j → es[k]? = some e' → e'.key ≠ i.value) → gs[j]? = some g →
      (stepAll c i es gs).2 = some (e, (stepEntry c i e g).2)
      ∧ (stepAll c i es gs).1[j]? = some (stepEntry c i e g).1 := by
  intro es
  induction es with
  | nil => intro gs j e g h; simp at h
  | cons e0 es ih =>
    intro gs j e g he hk hfirst hg
    cases gs with
    | nil => simp at hg
    | cons g0 gs =>
      cases j with
      | zero =>
        simp only [List.getElem?_cons_zero, Option.some.injEq] at he hg
        subst he; subst hg
        simp [stepAll, hk]
      | succ j =>
        simp only [List.getElem?_cons_succ] at he hg
        have h0 : e0.key ≠ i.value := hfirst 0 e0 (by omega) (by simp)
        have := ih gs j e g he hk (fun k e' hkj hget => hfirst (k + 1) e' (by omega) (by simpa using hget)) hg
        simp only [stepAll, List.getElem?_cons_succ]
        have hb : (e0.key == i.value) = false := by simpa using h0
        simp only [hb, Bool.false_eq_true, if_false]
        exact this

theorem stepAll_none (c : Config) (i : In) :
    ∀ (es : List Entry) (gs : List (Gen.State × Bool)), (∀ e ∈ es, e.key ≠ i.value) →
      (stepAll c i es gs).2 = none := by
  intro es
  induction es with
  | nil => intro gs _; rfl
  | cons e0 es ih =>
    intro gs h
    cases gs with
    | nil => rfl
    | cons g0 gs =>
      have hb : (e0.key == i.value) = false := by simpa using h e0 (by simp)
      simp only [stepAll, hb, Bool.false_eq_true, if_false]
      exact ih gs (fun e he => h e (by simp [he]))

/-- entry `j` is the one the request's `value` selects. -/
structure Selects (c : Config) (v j : Nat) (e : Entry) : Prop where
  hget   : c.entries[j]? = some e
  hkey   : e.key = v
  hfirst : ∀ k e', k < j → c.entries[k]? = some e' → e'.key ≠ v

theorem step_sel (c : Config) (s : State) (i : In) (j : Nat) (e : Entry) (g : Gen.State × Bool)
    (hs : Selects c i.value j e) (hg : s.gens[j]? = some g) :
    (step c s i).2 = mkOut (some (e, (stepEntry c i e g).2)) s.sendZlp i.start
    ∧ (step c s i).1.gens[j]? = some (stepEntry c i e g).1
    ∧ (step c s i).1.sendZlp = (i.start && pastEnd e i.startPos) := by
  obtain ⟨h1, h2⟩ := stepAll_sel c i c.entries s.gens j e g hs.hget hs.hkey hs.hfirst hg
  refine ⟨?_, ?_, ?_⟩
  · simp only [step, h1]
  · simp only [step]; exact h2
  · simp only [step, h1]

end Dist
end LunaVerif.Desc
