import LunaVerif.Lemmas.C20CtrlBlk
/-!
# C20 — the control endpoint keeps the slot contract (`ctrl_keeps_contract`)

The closed loop `sys2Step` of Model/Usb2/ControlCycSys.lean (C07: `USBControlEndpoint` + `USBRequestHandlerMultiplexer`
+ `StandardRequestHandler` + the `StreamSerializer` transmitter + `GetDescriptorHandlerBlock`) against the slot contract
of Model/Device/SlotContract.lean, in assume/guarantee form.  The setup decoder is still an input of every cycle
(`received`, `sdAck`, the `SetupPacket` registers); what the environment (packet layer + host + decoder) must keep is
the decidable per-cycle predicate `ctlEnv` (Lemmas/C20CtrlDefs.lean):

* a `ready_for_response` pulse for the endpoint (`ctlPulse`) is a pulse of the slot (`pul`);
* `setup_decoder.ack` only at a pulse of the slot while the tokenizer shows SETUP; `packet.received` only while the
  tokenizer shows SETUP; the tokenizer's PID decode shows at most one of IN / OUT / SETUP / PING;
* while the slot is armed or sending: no pulse, no `received`, no host ACK forwarded to the handlers, and
  `setup.type` keeps its value (the control endpoint does NOT keep the contract otherwise: a new SETUP in mid-stream
  switches the handler and cuts `tx.valid`);
* when the descriptor handler leaves IDLE, the handler's `start_position` fits `position_in_stream` (a host that keeps
  asking for data after the short packet makes `GetDescriptorHandlerBlock` present data without `first`).
-/
namespace LunaVerif.CtrlCyc
open LunaVerif.Device LunaVerif.StreamGen LunaVerif.C20Ctr
open LunaVerif.Desc

def cg0 : CG := ⟨.idle, 0⟩

theorem R_init : R sys2Init cg0 := Or.inl ⟨by simp [cg0], rfl, Or.inl rfl⟩

/-- **One cycle.**  If the closed loop's state is related to the slot's phase and the environment keeps its side in
this cycle, the control endpoint's drive is allowed by the contract and the relation holds again afterwards. -/
theorem ctl_step (c : Cfg) (bc : Block.Config) (L : Nat) (hL : 3 ≤ L) {S : Sys2State} {g : CG} {i : CycIn} {pul : Bool}
    (hR : R S g) (he : ctlEnv c bc S g i pul = true) :
    cok g.ph pul (ctlSig (sys2Step c bc S i).2) = true ∧
    R (sys2Step c bc S i).1 (cgNext L g i pul (sys2Step c bc S i).2) := by
  have hf := envF_of c bc S g i pul he
  rcases hR with ⟨h1, h2⟩ | ⟨h1, h2⟩ | ⟨h1, h2⟩
  · exact step_quiet c bc L h2 h1 hf
  · exact step_ser c bc L h1 h2 hf
  · exact step_blk c bc L hL h1 h2 hf

/-- The contract's verdict on the control endpoint's drive of a cycle (`timer.start` is the setup decoder's, not part
of `CycOut`: `tstart = false`), for any `a1`, `a2`. -/
theorem cstep_ctl (L : Nat) (g : CG) (i : CycIn) (pul a1 a2 : Bool) (o : CycOut) :
    cstep L g.ph pul i.txReady a1 a2 (ctlSig o) = (cok g.ph pul (ctlSig o), (cgNext L g i pul o).ph) := by
  simp [cstep, tOk, ctlSig, cgNext]

/-- The environment keeps its side along the run (`pul` = the slot is addressed by a `ready_for_response` pulse). -/
def ctlEnvHolds (c : Cfg) (bc : Block.Config) (L : Nat) : Sys2State → CG → List (CycIn × Bool) → Bool
  | _, _, [] => true
  | S, g, (i, pul) :: xs =>
    ctlEnv c bc S g i pul &&
      ctlEnvHolds c bc L (sys2Step c bc S i).1 (cgNext L g i pul (sys2Step c bc S i).2) xs

/-- The control endpoint keeps the slot contract along the run. -/
def ctlKeeps (c : Cfg) (bc : Block.Config) (L : Nat) : Sys2State → CG → List (CycIn × Bool) → Bool
  | _, _, [] => true
  | S, g, (i, pul) :: xs =>
    (cstep L g.ph pul i.txReady false false (ctlSig (sys2Step c bc S i).2)).1 &&
      ctlKeeps c bc L (sys2Step c bc S i).1 (cgNext L g i pul (sys2Step c bc S i).2) xs

/-- Assume/guarantee form: the contract holds in every cycle up to and including the first one in which the
environment breaks its side. -/
def ctlAG (c : Cfg) (bc : Block.Config) (L : Nat) : Sys2State → CG → List (CycIn × Bool) → Bool
  | _, _, [] => true
  | S, g, (i, pul) :: xs =>
    !ctlEnv c bc S g i pul ||
      ((cstep L g.ph pul i.txReady false false (ctlSig (sys2Step c bc S i).2)).1 &&
        ctlAG c bc L (sys2Step c bc S i).1 (cgNext L g i pul (sys2Step c bc S i).2) xs)

theorem ctlAG_of_R (c : Cfg) (bc : Block.Config) (L : Nat) (hL : 3 ≤ L) (xs : List (CycIn × Bool)) :
    ∀ (S : Sys2State) (g : CG), R S g → ctlAG c bc L S g xs = true := by
  induction xs with
  | nil => intros; rfl
  | cons x xs ih =>
    intro S g hR
    obtain ⟨i, pul⟩ := x
    simp only [ctlAG, Bool.or_eq_true, Bool.not_eq_eq_eq_not, Bool.not_true, Bool.and_eq_true]
    cases he : ctlEnv c bc S g i pul with
    | false => exact Or.inl rfl
    | true =>
      obtain ⟨h1, h2⟩ := ctl_step c bc L hL hR he
      refine Or.inr ⟨?_, ih _ _ h2⟩
      rw [cstep_ctl]; exact h1

/-- **The control endpoint keeps the slot contract** (assume/guarantee).  For the closed loop of `USBControlEndpoint` +
request-handler multiplexer + `StandardRequestHandler` + its `StreamSerializer` + `GetDescriptorHandlerBlock`
(`sys2Step`), from reset, for EVERY input history: in every cycle up to and including the first one in which the
environment breaks `ctlEnv`, what the endpoint drives on `handshakes_out` / `tx` is allowed by the slot contract of
`Model/Device/SlotContract.lean` with respect to the pulses `pul` (`3 ≤ L`: the descriptor handler answers at most 4
cycles after `data_requested`). -/
theorem ctrl_keeps_contract (c : Cfg) (bc : Block.Config) (L : Nat) (hL : 3 ≤ L) (xs : List (CycIn × Bool)) :
    ctlAG c bc L sys2Init cg0 xs = true :=
  ctlAG_of_R c bc L hL xs _ _ R_init

theorem ctlKeeps_of_R (c : Cfg) (bc : Block.Config) (L : Nat) (hL : 3 ≤ L) (xs : List (CycIn × Bool)) :
    ∀ (S : Sys2State) (g : CG), R S g → ctlEnvHolds c bc L S g xs = true → ctlKeeps c bc L S g xs = true := by
  induction xs with
  | nil => intros; rfl
  | cons x xs ih =>
    intro S g hR he
    obtain ⟨i, pul⟩ := x
    simp only [ctlEnvHolds, Bool.and_eq_true] at he
    obtain ⟨h1, h2⟩ := ctl_step c bc L hL hR he.1
    simp only [ctlKeeps, Bool.and_eq_true]
    refine ⟨?_, ih _ _ h2 he.2⟩
    rw [cstep_ctl]; exact h1

/-- The same as an implication between the two folds. -/
theorem ctrl_keeps_contract_run (c : Cfg) (bc : Block.Config) (L : Nat) (hL : 3 ≤ L) (xs : List (CycIn × Bool))
    (he : ctlEnvHolds c bc L sys2Init cg0 xs = true) : ctlKeeps c bc L sys2Init cg0 xs = true :=
  ctlKeeps_of_R c bc L hL xs _ _ R_init he
end LunaVerif.CtrlCyc
