import LunaVerif.Lemmas.C07Closed2
/-!
# Descriptor reads of a legal host are in order

`closed2_refines_event_run` assumes, for every GET_DESCRIPTOR data-stage IN, a well-sized in-order request
(`DescReqOk`: `wValue`, `wLength` < 2^16, `start_position ≤ min(wLength, |descriptor|)`).  This file derives it from
`LegalHost` (Model/Device/Control.lean: in particular "no further data-stage IN after the host has ACKed a short
packet", USB 2.0 §8.5.3) for the event-level model: `ReadInv` is an invariant of legal histories
(`readInv_legal`), and at every legal data-stage IN token of a GET_DESCRIPTOR transfer it gives `DescReqOk`
(`legal_read_in_order`).
-/
namespace LunaVerif.CtrlCyc
open LunaVerif.Device

/-- Every descriptor fits the position register (`posBits ≤ 11`: `start_position` has 11 bits). -/
def DescsFit (c : DevConfig) : Prop :=
  c.posBits ≤ 11 ∧ ∀ ty idx dd, lookupDescriptor c.descriptors ty idx = some dd → dd.length < 2 ^ c.posBits

/-- A full packet at an in-order offset leaves the next offset in order. -/
theorem pkt_full (c : DevConfig) (hmp : c.maxPacket = 64) (v l p : Nat) (bytes dd : List Nat) (hl : l < 65536)
    (hlk : lookupDescriptor c.descriptors (v / 256 % 256) (v % 256) = some dd)
    (hp : p ≤ min l dd.length) (hfit : dd.length < 2 ^ c.posBits)
    (hpk : descriptorPacket c v l p = some bytes) (hfull : 64 ≤ bytes.length) :
    p + 64 ≤ min l dd.length := by
  unfold descriptorPacket at hpk
  rw [hlk] at hpk
  have hrem : (l + 131072 - p) % 131072 = l - p := by omega
  have hpp : p % 2 ^ c.posBits = p := Nat.mod_eq_of_lt (by omega)
  simp only [hrem, hpp, hmp] at hpk
  by_cases h1 : l - p ≤ 64
  · simp only [h1, if_true] at hpk
    by_cases h2 : l - p = 0
    · simp only [h2, if_true, Option.some.injEq] at hpk; subst hpk; simp at hfull
    · by_cases h3 : p ≥ dd.length
      · simp only [h2, if_false, h3, if_true, Option.some.injEq] at hpk; subst hpk; simp at hfull
      · simp only [h2, if_false, h3, Option.some.injEq] at hpk
        subst hpk
        simp only [List.length_take, List.length_drop] at hfull
        omega
  · simp only [h1, if_false] at hpk
    by_cases h3 : p ≥ dd.length
    · simp only [h3, if_true] at hpk
      split at hpk
      · injection hpk with hpk; subst hpk; simp at hfull
      · injection hpk with hpk; subst hpk; simp at hfull
    · simp only [h3, if_false] at hpk
      split at hpk
      · omega
      · injection hpk with hpk
        subst hpk
        simp only [List.length_take, List.length_drop] at hfull
        omega

/-- What the read bookkeeping of the event-level model guarantees. -/
structure ReadInv (c : DevConfig) (d : DevState) : Prop where
  sizes : d.setup.value < 65536 ∧ d.setup.length < 65536
  /-- the ACK the host may send now answers the descriptor packet at `start_position` -/
  k : d.gRespData = true → d.tokEp = 0 → d.tokPid = PID_IN → d.hstate = .getDescriptor →
        d.setup.type = TYPE_STANDARD →
        ∃ bytes, descriptorPacket c d.setup.value d.setup.length d.startPos = some bytes ∧ d.gRespLen = bytes.length
  /-- while the data stage is not over, `start_position` is in order -/
  j : d.hstate = .getDescriptor → d.setup.type = TYPE_STANDARD → d.gDataDone = false →
        ∀ dd, lookupDescriptor c.descriptors (d.setup.value / 256 % 256) (d.setup.value % 256) = some dd →
          d.startPos ≤ min d.setup.length dd.length

theorem readInv_init (c : DevConfig) : ReadInv c Device.init :=
  { sizes := by decide
    k := fun h => by cases h
    j := fun h => by cases h }

theorem parseSetup_sizes (p : List Nat) : (parseSetup p).value < 65536 ∧ (parseSetup p).length < 65536 := by
  simp only [parseSetup, byteAt]
  omega

/-! ### The parts of `ReadInv` that only concern the handler registers -/

/-- `sizes` and `j` of `ReadInv`. -/
structure RJ (c : DevConfig) (d : DevState) : Prop where
  sizes : d.setup.value < 65536 ∧ d.setup.length < 65536
  j : d.hstate = .getDescriptor → d.setup.type = TYPE_STANDARD → d.gDataDone = false →
        ∀ dd, lookupDescriptor c.descriptors (d.setup.value / 256 % 256) (d.setup.value % 256) = some dd →
          d.startPos ≤ min d.setup.length dd.length

theorem RJ.mono {c : DevConfig} {d d' : DevState} (h : RJ c d) (h1 : d'.setup = d.setup)
    (h2 : d'.gDataDone = d.gDataDone)
    (h3 : d'.hstate = .getDescriptor → d.hstate = .getDescriptor ∧ d'.startPos = d.startPos) : RJ c d' := by
  refine ⟨by rw [h1]; exact h.sizes, ?_⟩
  intro a b e dd hdd
  rw [h1] at b hdd ⊢
  rw [h2] at e
  obtain ⟨a1, a2⟩ := h3 a
  rw [a2]
  exact h.j a1 b e dd hdd

theorem request_read (c : DevConfig) (d : DevState) (r : Req) :
    (request c d r).1.setup = d.setup ∧ (request c d r).1.gDataDone = d.gDataDone ∧
    ((request c d r).1.hstate = .getDescriptor → d.hstate = .getDescriptor ∧ (request c d r).1.startPos = d.startPos) := by
  have hs : (request c d r).1 = (if d.setup.type = TYPE_STANDARD then stdRequest c d r else (d, Resp.none)).1 := by
    unfold request; simp only []; split <;> (cases owner c d.setup <;> rfl)
  rw [hs]
  split
  · unfold stdRequest
    cases hd : d.hstate <;> cases r <;> simp [toIdle, hd] <;> (try (split <;> simp_all [toIdle]))
  · exact ⟨rfl, rfl, fun h => ⟨h, rfl⟩⟩

theorem rj_request (c : DevConfig) (d : DevState) (r : Req) (h : RJ c d) : RJ c (request c d r).1 :=
  h.mono (request_read c d r).1 (request_read c d r).2.1 (request_read c d r).2.2

theorem rj_afterToken (c : DevConfig) (d : DevState) (pid ep : Nat) (h : RJ c d) : RJ c (afterToken d pid ep) :=
  h.mono rfl rfl (fun a => ⟨a, rfl⟩)

theorem rj_onToken (c : DevConfig) (d : DevState) (pid ep : Nat) (h : RJ c d) : RJ c (onToken c d pid ep).1 := by
  have h1 := rj_afterToken c d pid ep h
  unfold onToken
  simp only []
  split
  · split <;> (try split) <;> first | exact h1 | exact rj_request c _ _ h1
  · exact h1

theorem rj_onSetupData (c : DevConfig) (d : DevState) (p : List Nat) : RJ c (onSetupData d p).1 := by
  unfold onSetupData
  simp only []
  split
  · exact ⟨parseSetup_sizes p, fun _ _ _ dd _ => Nat.zero_le _⟩
  · rename_i hty
    exact ⟨parseSetup_sizes p, fun _ b => absurd b hty⟩

theorem rj_onData (c : DevConfig) (d : DevState) (p : List Nat) (ok : Bool) (h : RJ c d) : RJ c (onData c d p ok).1 := by
  unfold onData
  split
  · exact h
  · split
    · split
      · split
        · exact rj_onSetupData c d p
        · exact h.mono rfl rfl (fun a => ⟨a, rfl⟩)
      · exact h
    · split
      · exact rj_request c d .status h
      · exact h

theorem pow_le_2048 {n : Nat} (h : n ≤ 11) : 2 ^ n ≤ 2048 := by
  have : 2 ^ n ≤ 2 ^ 11 := Nat.pow_le_pow_right (by decide) h
  simpa using this

/-- A host ACK: the position advances only past a full packet, which keeps it in order; after a short packet the
data stage is over (`gDataDone`). -/
theorem rj_onHandshake (c : DevConfig) (hmp : c.maxPacket = 64) (hfit : DescsFit c) (d : DevState) (pid : Nat)
    (h : ReadInv c d) (hleg : d.gRespData = true ∨ d.tokPid = 0) : RJ c (onHandshake d pid) := by
  have hrj : RJ c d := ⟨h.sizes, h.j⟩
  unfold onHandshake
  split
  · rename_i hfw
    obtain ⟨_, hep, hpid, hty⟩ := hfw
    have hgr : d.gRespData = true := by
      rcases hleg with g | g
      · exact g
      · rw [hpid] at g; exact absurd g (by decide)
    by_cases hg : d.hstate = .getDescriptor
    · by_cases he : d.expectingAck = true
      · by_cases hlen : d.gRespLen < 64
        · -- short packet ACKed: the data stage is over
          simp only [hg, he, hlen, and_self, if_true]
          exact ⟨by simp only [stdAck, hg, he, if_true]; exact h.sizes, fun _ _ e => by simp at e⟩
        · simp only [hg, he, hlen, and_false, if_false]
          simp only [stdAck, hg, he, if_true]
          refine ⟨h.sizes, ?_⟩
          intro _ _ e dd hdd
          simp only at e hdd ⊢
          obtain ⟨bytes, hb1, hb2⟩ := h.k hgr hep hpid hg hty
          have hp := h.j hg hty e dd hdd
          have hf := hfit.2 _ _ dd hdd
          have := pkt_full c hmp d.setup.value d.setup.length d.startPos bytes dd h.sizes.2 hdd hp hf hb1
            (by omega)
          have h2 := pow_le_2048 hfit.1
          omega
      · have : stdAck d = d := by simp [stdAck, hg, he]
        simp only [hg, he, Bool.false_eq_true, false_and, and_false, if_false, this]
        exact hrj
    · have hne : (stdAck d).hstate ≠ .getDescriptor ∧ (stdAck d).setup = d.setup := by
        unfold stdAck
        cases hd : d.hstate <;> simp_all [toIdle]
      simp only [hg, false_and, if_false]
      exact ⟨by rw [hne.2]; exact h.sizes, fun a => absurd a hne.1⟩
  · exact hrj

/-! ### The invariant along legal histories -/

/-- The DATA answer to an IN token for endpoint 0 in GET_DESCRIPTOR is the descriptor packet at `start_position`. -/
theorem onToken_in_data (c : DevConfig) (hx : c.extra = []) (d : DevState)
    (h1 : (onToken c d PID_IN 0).2.isData = true) (h2 : (onToken c d PID_IN 0).1.hstate = .getDescriptor)
    (h3 : (onToken c d PID_IN 0).1.setup.type = TYPE_STANDARD) :
    ∃ bytes, descriptorPacket c (onToken c d PID_IN 0).1.setup.value (onToken c d PID_IN 0).1.setup.length
        (onToken c d PID_IN 0).1.startPos = some bytes ∧ (onToken c d PID_IN 0).2.dataLen = bytes.length := by
  rw [onToken_eq] at h1 h2 h3 ⊢
  generalize afterToken d PID_IN 0 = s at *
  unfold readyResult at h1 h2 h3 ⊢
  split at h1
  · rename_i h0
    simp only [h0, if_true] at h2 h3 ⊢
    cases hs : s.stage <;> simp only [hs] at h1 h2 h3 ⊢ <;>
      (try (split at h1 <;> simp_all [Resp.isData]; done)) <;> (try (simp [Resp.isData] at h1; done))
    · -- DATA_IN
      split at h1
      · rename_i hp
        simp only [hp, if_true] at h2 h3 ⊢
        rw [request_noextra c hx] at h1 h2 h3 ⊢
        split at h1
        · rename_i hty
          simp only [hty, if_true] at h2 h3 ⊢
          unfold stdRequest at h1 h2 h3 ⊢
          cases hh : s.hstate <;> simp only [hh] at h1 h2 h3 ⊢ <;> (try (simp_all [Resp.isData, toIdle]; done))
          cases hpk : descriptorPacket c s.setup.value s.setup.length s.startPos <;>
            simp_all [Resp.isData, toIdle, Resp.dataLen]
        · simp [Resp.isData] at h1
      · simp [Resp.isData] at h1
    · -- STATUS_IN
      split at h1
      · rename_i hp
        simp only [hp, if_true] at h2 h3 ⊢
        rw [request_noextra c hx] at h1 h2 h3 ⊢
        split at h1
        · rename_i hty
          simp only [hty, if_true] at h2 h3 ⊢
          unfold stdRequest at h1 h2 h3 ⊢
          cases hh : s.hstate <;> simp only [hh] at h1 h2 h3 ⊢ <;> simp_all [Resp.isData, toIdle]
        · simp [Resp.isData] at h1
      · simp [Resp.isData] at h1
  · simp [Resp.isData] at h1

theorem rj_core (c : DevConfig) (hmp : c.maxPacket = 64) (hfit : DescsFit c) (d : DevState) (x : Stim)
    (h : ReadInv c d) (hleg : legalEvent c d x = true) : RJ c (core c d x.ev).1 := by
  have hrj : RJ c d := ⟨h.sizes, h.j⟩
  cases hev : x.ev with
  | token pid addr ep =>
    simp only [core]
    split
    · exact rj_onToken c d pid ep hrj
    · exact hrj.mono rfl rfl (fun a => ⟨a, rfl⟩)
  | data dp p ok => exact rj_onData c d p ok hrj
  | handshake pid =>
    refine rj_onHandshake c hmp hfit d pid h ?_
    unfold legalEvent at hleg
    rw [hev] at hleg
    simp only [Bool.and_eq_true, Bool.or_eq_true, beq_iff_eq] at hleg
    exact hleg.2.2
  | busReset => exact hrj.mono rfl rfl (fun a => ⟨a, rfl⟩)
  | sof f => exact hrj
  | malformed b => exact hrj
  | quiet => exact hrj
  | produce e b l => exact hrj
  | consume e n => exact hrj
  | setSignal e v => exact hrj

/-- `ReadInv` is preserved by every legal event. -/
theorem readInv_step (c : DevConfig) (hx : c.extra = []) (hmp : c.maxPacket = 64) (hfit : DescsFit c) (d : DevState)
    (x : Stim) (hinv : Inv d) (h : ReadInv c d) (hleg : legalEvent c d x = true) :
    ReadInv c (Device.step c d x).1 := by
  have hrj := rj_core c hmp hfit d x h hleg
  refine ⟨hrj.sizes, ?_, hrj.j⟩
  intro hd hep hpid hhs hty
  obtain ⟨hev, hresp, hcore⟩ := data_answer_is_to_in_token c d x hinv hd hep hpid
  rw [Device.step_hstate, hcore] at hhs
  rw [Device.step_setup, hcore] at hty
  have h1 : (onToken c d PID_IN 0).2.isData = true := by
    rw [← hresp, ← Device.step_gRespData]; exact hd
  obtain ⟨bytes, hb1, hb2⟩ := onToken_in_data c hx d h1 hhs hty
  refine ⟨bytes, ?_, ?_⟩
  · rw [Device.step_setup, Device.step_startPos, hcore]; exact hb1
  · have : (Device.step c d x).1.gRespLen = (Device.step c d x).2.dataLen := rfl
    rw [this, hresp]; exact hb2

theorem readInv_legalFrom (c : DevConfig) (hx : c.extra = []) (hmp : c.maxPacket = 64) (hfit : DescsFit c)
    (h : List Stim) : ∀ d, Device.Inv d → ReadInv c d → legalFrom c d h = true → ReadInv c (Device.final c d h) := by
  induction h with
  | nil => intro d _ hr _; exact hr
  | cons x xs ih =>
    intro d hinv hr hl
    simp only [legalFrom, Bool.and_eq_true] at hl
    exact ih _ (inv_step c d x hinv) (readInv_step c hx hmp hfit d x hinv hr hl.1) hl.2

/-- **`ReadInv` holds after every legal history.** -/
theorem readInv_legal (c : DevConfig) (hx : c.extra = []) (hmp : c.maxPacket = 64) (hfit : DescsFit c)
    (h : List Stim) (hl : LegalHost c h = true) : ReadInv c (Device.final c Device.init h) :=
  readInv_legalFrom c hx hmp hfit h Device.init inv_init (readInv_init c) hl

/-- **Descriptor reads of a legal host are in order**: at a legal data-stage IN token that starts the descriptor
handler, the request is well-sized and `start_position ≤ min(wLength, |descriptor|)`. -/
theorem legal_read_in_order (c : DevConfig) (hfit : DescsFit c) (d : DevState) (x : Stim) (pid ep : Nat)
    (hev : x.ev = .token pid d.address ep) (h : ReadInv c d) (hleg : legalEvent c d x = true) (R : Desc.Response)
    (hso : streamOf c (afterToken d pid ep) = some (true, R)) : DescReqOk c (afterToken d pid ep) = true := by
  unfold streamOf at hso
  split at hso
  · rename_i hc
    obtain ⟨hdr, hty⟩ := hc
    have hhs : (afterToken d pid ep).hstate = .getDescriptor := by
      cases hd : (afterToken d pid ep).hstate <;> simp only [hd] at hso <;> first | rfl | (exact absurd hso (by simp))
    simp only [readyDr, Bool.and_eq_true, decide_eq_true_eq] at hdr
    obtain ⟨⟨hep0, hstg⟩, hpin⟩ := hdr
    have hpid : pid = PID_IN := hpin
    have hep : ep = 0 := hep0
    subst hpid hep
    -- the stage before the token was DATA_IN too
    have hstg0 : d.stage = .dataIn := by
      have : tokenStage d PID_IN 0 = .dataIn := hstg
      unfold tokenStage at this
      simp only [PID_IN, PID_SETUP, PID_OUT, PID_PING] at this
      cases hs : d.stage <;> simp_all
    have hdone : d.gDataDone = false := by
      unfold legalEvent at hleg
      rw [hev] at hleg
      simp only [Bool.and_eq_true, Bool.not_eq_eq_eq_not, Bool.not_true] at hleg
      have := hleg.2.2
      simpa [hstg0] using this
    unfold DescReqOk
    have hsz := h.sizes
    simp only [Bool.and_eq_true, decide_eq_true_eq]
    refine ⟨⟨hsz.1, hsz.2⟩, ?_⟩
    cases hlk : lookupDescriptor c.descriptors ((afterToken d PID_IN 0).setup.value / 256 % 256)
        ((afterToken d PID_IN 0).setup.value % 256) with
    | none => rfl
    | some dd =>
      simp only [Bool.and_eq_true, decide_eq_true_eq]
      exact ⟨h.j hhs hty hdone dd hlk, hfit.2 _ _ dd hlk⟩
  · exact absurd hso (by simp)

/-! ### The closed loop under `LegalHost` -/

/-- `ReadyFits` without the request condition `DescReqOk` (which `LegalHost` provides). -/
def ReadyWin (c : DevConfig) (d1 : DevState) (g : GapsS) : Bool :=
  match streamOf c d1 with
  | some (true, R) => Fits 3 R (g.stream.map (·.txReady))
  | some (false, R) => decide (g.lat = 0) && Fits 0 R (g.stream.map (·.txReady))
  | none => true

/-- The window hypotheses of an event for the closed loop (`StreamFits2` without `DescReqOk`). -/
def StreamWin (c : DevConfig) (d : DevState) (e : HostEvent) (g : GapsS) : Bool :=
  match e with
  | .token pid addr ep => if addr = d.address then !g.stallNow && ReadyWin c (afterToken d pid ep) g else true
  | _ => true

def WinFrom (c : DevConfig) : DevState → List (Stim × GapsS) → Bool
  | _, [] => true
  | d, (x, g) :: rest => StreamWin c d x.ev g && WinFrom c (Device.step c d x).1 rest

theorem fits2_of_legal (c : DevConfig) (hx : c.extra = []) (hmp : c.maxPacket = 64) (hfit : DescsFit c)
    (h : List (Stim × GapsS)) : ∀ d, Device.Inv d → ReadInv c d → legalFrom c d (h.map (·.1)) = true →
      WinFrom c d h = true → Fits2From c d h = true := by
  induction h with
  | nil => intro d _ _ _ _; rfl
  | cons xg rest ih =>
    intro d hinv hr hl hw
    obtain ⟨x, g⟩ := xg
    simp only [List.map_cons, legalFrom, Bool.and_eq_true] at hl
    simp only [WinFrom, Bool.and_eq_true] at hw
    simp only [Fits2From, Bool.and_eq_true]
    refine ⟨?_, ih _ (inv_step c d x hinv) (readInv_step c hx hmp hfit d x hinv hr hl.1) hl.2 hw.2⟩
    have hw1 := hw.1
    unfold StreamWin at hw1
    unfold StreamFits2
    cases hev : x.ev with
    | token pid addr ep =>
      rw [hev] at hw1
      simp only at hw1 ⊢
      by_cases ha : addr = d.address
      · subst ha
        simp only [if_true, Bool.and_eq_true] at hw1 ⊢
        refine ⟨hw1.1, ?_⟩
        have hw2 := hw1.2
        unfold ReadyWin at hw2
        unfold ReadyFits
        cases hso : streamOf c (afterToken d pid ep) with
        | none => rfl
        | some fr =>
          obtain ⟨fd, R⟩ := fr
          rw [hso] at hw2
          cases fd with
          | false => exact hw2
          | true =>
            simp only at hw2 ⊢
            rw [hw2, legal_read_in_order c hfit d x pid ep hev hr hl.1 R hso]
            rfl
      · simp [ha]
    | _ => rfl

/-- **`cycle_refines_event`, closed loop with both streamers, for every history of a legal host.**  For every
`LegalHost` event history (Model/Device/Control.lean) with silent streamer noise and windows that are long enough
(`WinFrom`: no other hypothesis on the descriptor requests -- that they are well-sized and in order is a theorem,
`legal_read_in_order`): the closed loop of the cycle-level control-endpoint model, the serializer model and the block
descriptor handler model simulates the event-level model (statement as in `closed2_refines_event_run`). -/
theorem closed2_refines_legal_run (c : DevConfig) (hx : c.extra = []) (hmp : c.maxPacket = 64)
    (hwf : Desc.wellFormed (collOf c.descriptors) = true)
    (hpw : 2 ≤ (Desc.Rom.layout (collOf c.descriptors)).maxLen) (hfit : DescsFit c)
    (h : List (Stim × GapsS)) (hl : LegalHost c (h.map (·.1)) = true) (hw : WinFrom c Device.init h = true)
    (ht : ∀ xg ∈ h, TDSil xg.2) :
    ∃ h', SameButLat h h' ∧
      Rel (Device.final c Device.init (h.map (·.1)))
        (sys2Final (cfgOf c) (Desc.blockOf (collOf c.descriptors) c.maxPacket) sys2Init
          ((expandAllR c Device.init h').map (·.2))).cs ∧
      sys2BusResps c (Desc.blockOf (collOf c.descriptors) c.maxPacket) Device.init sys2Init h' =
        coreResps c Device.init (h.map (·.1)) ∧
      regsAfterR (0, 0) (sys2OutsR (cfgOf c) (Desc.blockOf (collOf c.descriptors) c.maxPacket) sys2Init
          (expandAllR c Device.init h')) =
        ((Device.final c Device.init (h.map (·.1))).address, (Device.final c Device.init (h.map (·.1))).config) ∧
      SerQ (sys2Final (cfgOf c) (Desc.blockOf (collOf c.descriptors) c.maxPacket) sys2Init
          ((expandAllR c Device.init h').map (·.2))).ser ∧
      (sys2Final (cfgOf c) (Desc.blockOf (collOf c.descriptors) c.maxPacket) sys2Init
          ((expandAllR c Device.init h').map (·.2))).blk.fsm = .idle :=
  closed2_refines_event_run c hx hmp hwf hpw h
    (fits2_of_legal c hx hmp hfit h Device.init inv_init (readInv_init c) hl hw) ht

/-! ### Non-vacuity: the example history of Lemmas/C07Closed2.lean is a legal host's -/

example : LegalHost exCfgC ((exHistoryD 0).map (·.1)) = true := by decide +kernel
example : WinFrom exCfgC Device.init (exHistoryD 0) = true := by decide +kernel
example : DescsFit exCfgC := by
  refine ⟨by decide, ?_⟩
  intro ty idx dd h
  simp only [exCfgC, lookupDescriptor] at h
  repeat' split at h
  all_goals first | (injection h with h; subst h; decide) | (exact absurd h (by simp))

end LunaVerif.CtrlCyc
