import LunaVerif.Lemmas.C37LiveBase
/-!
# C37 — liveness: a requested keepalive (LUP/LDN) is sent

keepalive (LUP/LDN) has the lowest priority in DISPATCH_COMMAND: everything else that is pending goes first, and under continuing
traffic new higher-priority work keeps arriving, so the bound necessarily counts it.  `rankK T` bounds the
number of ready cycles until `T` such commands have completed, for `T ≤ sent + [pending]`: four per LGOOD owed
(`acks_to_send`), per credit to issue, for a pending LBAD, LRTY and LXU, plus the command in progress.  *Bad*
cycles (cost ≤ 20) are the cycles in which a header is accepted, a buffer is freed, a corrupted header is noticed,
`retry_required` or `reject_power_state` is pulsed.
-/
set_option linter.unusedSimpArgs false
set_option linter.unusedVariables false
namespace LunaVerif.HeaderRx

def rankK (T : Nat) (x : World) : Nat :=
  if T - x.n.kas = 0 then 0 else
  match x.s.fsm with
  | .sendKeepalive => ph x.s.gen
  | .dispatch => 4 + 4 * x.s.acks + 4 * x.s.cti + lbc x.s + lr x.s + lxc x.s
  | .sendLrty => ph x.s.gen + 4 + 4 * x.s.acks + 4 * x.s.cti + lbc x.s + lxc x.s
  | .sendLxu => ph x.s.gen + 4 + 4 * x.s.acks + 4 * x.s.cti + lbc x.s + lr x.s
  | _ => ph x.s.gen + 4 * x.s.acks + 4 * x.s.cti + lbc x.s + lr x.s + lxc x.s

def InvK (c : Config) (T : Nat) (x : World) : Prop := Inv c x.s x.g ∧ T ≤ x.n.kas + b2 x.s.keepalive

/-- cycles that bring new higher-priority work -/
def badK (x : World) (i : In) : Bool := i.retryRequired || accept x.s || pop x.s i || badEv x.s || i.rejectPower

theorem cnt_kas (s : State) (i : In) (n : Cnt) :
    (cntStep s i n).kas = n.kas + b2 (s.fsm == .sendKeepalive && done s i) := by
  simp only [cntStep]; cases (s.fsm == Fsm.sendKeepalive && done s i) <;> simp

set_option hygiene false in
local macro "rank_go" hf:ident h0:ident h1:ident h2:ident h3:ident : tactic =>
  `(tactic| (
    have hlr : lr s = if s.lrty then 4 else 0 := rfl
    cases hg : s.gen <;> cases hr : i.srcReady <;> cases hl : s.lrty <;>
      simp [$hf:ident, $h0:ident, $h1:ident, $h2:ident, $h3:ident, hfl, hg, hr, hl, fsm_beq, gen_beq, fsmNext, genNext, done,
        lgoodDone, lcrdDone, dispatchNext, generate, ph, nf, nr, na, en, step_fsm, step_gen]
        at fa fc fb flr lgA lcC fA fC g0 lrD lbD lbS lxD hlr hlbc hlxc hT hz ⊢ <;>
      (repeat' split) <;> (try simp only [ph] at *) <;> omega))

set_option hygiene false in
local macro "rank_pre" : tactic =>
  `(tactic| (
    obtain ⟨fa, fc, fb, flg, flc, fac, a4, a3, bc, bc3, cr, hk, hc, pb, lgA, lcC, fA, fC, g0, en, nf, nr, accA,
      bcA, popB, aL, pL, lrN, lrD, lbI⟩ := facts_of (c := c) hI e
    have na := no_abort (c := c) hI e
    obtain ⟨lb, lbK, lbN, lbD, lbS, lrK, lrN4, lxK, lxN, lxD, kaK⟩ := facts2_of (c := c) hI e
    have flr := cnt_kas s i n
    have bB := b2_le (badEv s)
    have bR := b2_le i.retryRequired
    have bX := b2_le i.rejectPower
    simp only [World.next, rankK] at hz ⊢
    simp only [flr]
    have hfl : s.keepalive = true := by
      cases hx : s.keepalive
      · exfalso; rw [hx] at hT; simp only [b2_false] at hT; split at hz <;> omega
      · rfl))

section
variable {c : Config} {T : Nat} {s : State} {g : Ghost} {n : Cnt} {i : In}

theorem rankK_step_dispatch00 (hI : Inv c s g) (hT : T ≤ n.kas + b2 s.keepalive) (e : EnvStep s g i)
    (hf : s.fsm = .dispatch) (h0 : s.acks = 0) (h1 : s.cti = 0) (hz : rankK T ⟨s, g, n⟩ ≠ 0) :
    rankK T (World.next c ⟨s, g, n⟩ i) + (if i.srcReady then 1 else 0) ≤
      rankK T ⟨s, g, n⟩ + (4 * b2 i.retryRequired + 4 * b2 (accept s) + 4 * b2 (pop s i) + 4 * b2 (badEv s) + 4 * b2 i.rejectPower) := by
  rank_pre
  have hgi := g0 hf
  have hlbc : lbc s = if s.lbad then 4 else 0 := rfl
  have hlxc : lxc s = if s.lxu then 4 else 0 := rfl
  cases hlbad : s.lbad <;> cases hlxu : s.lxu <;> rank_go hf h0 h1 hlbad hlxu

theorem rankK_step_dispatch0N (hI : Inv c s g) (hT : T ≤ n.kas + b2 s.keepalive) (e : EnvStep s g i)
    (hf : s.fsm = .dispatch) (h0 : s.acks = 0) (h1 : ¬ s.cti = 0) (hz : rankK T ⟨s, g, n⟩ ≠ 0) :
    rankK T (World.next c ⟨s, g, n⟩ i) + (if i.srcReady then 1 else 0) ≤
      rankK T ⟨s, g, n⟩ + (4 * b2 i.retryRequired + 4 * b2 (accept s) + 4 * b2 (pop s i) + 4 * b2 (badEv s) + 4 * b2 i.rejectPower) := by
  rank_pre
  have hgi := g0 hf
  have hlbc : lbc s = if s.lbad then 4 else 0 := rfl
  have hlxc : lxc s = if s.lxu then 4 else 0 := rfl
  cases hlbad : s.lbad <;> cases hlxu : s.lxu <;> rank_go hf h0 h1 hlbad hlxu

theorem rankK_step_dispatchN0 (hI : Inv c s g) (hT : T ≤ n.kas + b2 s.keepalive) (e : EnvStep s g i)
    (hf : s.fsm = .dispatch) (h0 : ¬ s.acks = 0) (h1 : s.cti = 0) (hz : rankK T ⟨s, g, n⟩ ≠ 0) :
    rankK T (World.next c ⟨s, g, n⟩ i) + (if i.srcReady then 1 else 0) ≤
      rankK T ⟨s, g, n⟩ + (4 * b2 i.retryRequired + 4 * b2 (accept s) + 4 * b2 (pop s i) + 4 * b2 (badEv s) + 4 * b2 i.rejectPower) := by
  rank_pre
  have hgi := g0 hf
  have hlbc : lbc s = if s.lbad then 4 else 0 := rfl
  have hlxc : lxc s = if s.lxu then 4 else 0 := rfl
  cases hlbad : s.lbad <;> cases hlxu : s.lxu <;> rank_go hf h0 h1 hlbad hlxu

theorem rankK_step_dispatchNN (hI : Inv c s g) (hT : T ≤ n.kas + b2 s.keepalive) (e : EnvStep s g i)
    (hf : s.fsm = .dispatch) (h0 : ¬ s.acks = 0) (h1 : ¬ s.cti = 0) (hz : rankK T ⟨s, g, n⟩ ≠ 0) :
    rankK T (World.next c ⟨s, g, n⟩ i) + (if i.srcReady then 1 else 0) ≤
      rankK T ⟨s, g, n⟩ + (4 * b2 i.retryRequired + 4 * b2 (accept s) + 4 * b2 (pop s i) + 4 * b2 (badEv s) + 4 * b2 i.rejectPower) := by
  rank_pre
  have hgi := g0 hf
  have hlbc : lbc s = if s.lbad then 4 else 0 := rfl
  have hlxc : lxc s = if s.lxu then 4 else 0 := rfl
  cases hlbad : s.lbad <;> cases hlxu : s.lxu <;> rank_go hf h0 h1 hlbad hlxu

theorem rankK_step_sendAcks1 (hI : Inv c s g) (hT : T ≤ n.kas + b2 s.keepalive) (e : EnvStep s g i)
    (hf : s.fsm = .sendAcks) (h0 : s.acks = 1) (hz : rankK T ⟨s, g, n⟩ ≠ 0) :
    rankK T (World.next c ⟨s, g, n⟩ i) + (if i.srcReady then 1 else 0) ≤
      rankK T ⟨s, g, n⟩ + (4 * b2 i.retryRequired + 4 * b2 (accept s) + 4 * b2 (pop s i) + 4 * b2 (badEv s) + 4 * b2 i.rejectPower) := by
  rank_pre
  have hlbc : True := trivial
  have hlxc : True := trivial
  rank_go hf h0 h0 h0 h0

theorem rankK_step_sendAcksN (hI : Inv c s g) (hT : T ≤ n.kas + b2 s.keepalive) (e : EnvStep s g i)
    (hf : s.fsm = .sendAcks) (h0 : ¬ s.acks = 1) (hz : rankK T ⟨s, g, n⟩ ≠ 0) :
    rankK T (World.next c ⟨s, g, n⟩ i) + (if i.srcReady then 1 else 0) ≤
      rankK T ⟨s, g, n⟩ + (4 * b2 i.retryRequired + 4 * b2 (accept s) + 4 * b2 (pop s i) + 4 * b2 (badEv s) + 4 * b2 i.rejectPower) := by
  rank_pre
  have hlbc : True := trivial
  have hlxc : True := trivial
  rank_go hf h0 h0 h0 h0

theorem rankK_step_issueCredits1 (hI : Inv c s g) (hT : T ≤ n.kas + b2 s.keepalive) (e : EnvStep s g i)
    (hf : s.fsm = .issueCredits) (h0 : s.cti = 1) (hz : rankK T ⟨s, g, n⟩ ≠ 0) :
    rankK T (World.next c ⟨s, g, n⟩ i) + (if i.srcReady then 1 else 0) ≤
      rankK T ⟨s, g, n⟩ + (4 * b2 i.retryRequired + 4 * b2 (accept s) + 4 * b2 (pop s i) + 4 * b2 (badEv s) + 4 * b2 i.rejectPower) := by
  rank_pre
  have hlbc : True := trivial
  have hlxc : True := trivial
  rank_go hf h0 h0 h0 h0

theorem rankK_step_issueCreditsN (hI : Inv c s g) (hT : T ≤ n.kas + b2 s.keepalive) (e : EnvStep s g i)
    (hf : s.fsm = .issueCredits) (h0 : ¬ s.cti = 1) (hz : rankK T ⟨s, g, n⟩ ≠ 0) :
    rankK T (World.next c ⟨s, g, n⟩ i) + (if i.srcReady then 1 else 0) ≤
      rankK T ⟨s, g, n⟩ + (4 * b2 i.retryRequired + 4 * b2 (accept s) + 4 * b2 (pop s i) + 4 * b2 (badEv s) + 4 * b2 i.rejectPower) := by
  rank_pre
  have hlbc : True := trivial
  have hlxc : True := trivial
  rank_go hf h0 h0 h0 h0

theorem rankK_step_sendLbad (hI : Inv c s g) (hT : T ≤ n.kas + b2 s.keepalive) (e : EnvStep s g i)
    (hf : s.fsm = .sendLbad) (hz : rankK T ⟨s, g, n⟩ ≠ 0) :
    rankK T (World.next c ⟨s, g, n⟩ i) + (if i.srcReady then 1 else 0) ≤
      rankK T ⟨s, g, n⟩ + (4 * b2 i.retryRequired + 4 * b2 (accept s) + 4 * b2 (pop s i) + 4 * b2 (badEv s) + 4 * b2 i.rejectPower) := by
  rank_pre
  have hlbc : True := trivial
  have hlxc : True := trivial
  rank_go hf hf hf hf hf

theorem rankK_step_sendLrty (hI : Inv c s g) (hT : T ≤ n.kas + b2 s.keepalive) (e : EnvStep s g i)
    (hf : s.fsm = .sendLrty) (hz : rankK T ⟨s, g, n⟩ ≠ 0) :
    rankK T (World.next c ⟨s, g, n⟩ i) + (if i.srcReady then 1 else 0) ≤
      rankK T ⟨s, g, n⟩ + (4 * b2 i.retryRequired + 4 * b2 (accept s) + 4 * b2 (pop s i) + 4 * b2 (badEv s) + 4 * b2 i.rejectPower) := by
  rank_pre
  have hlbc : True := trivial
  have hlxc : True := trivial
  rank_go hf hf hf hf hf

theorem rankK_step_sendKeepalive (hI : Inv c s g) (hT : T ≤ n.kas + b2 s.keepalive) (e : EnvStep s g i)
    (hf : s.fsm = .sendKeepalive) (hz : rankK T ⟨s, g, n⟩ ≠ 0) :
    rankK T (World.next c ⟨s, g, n⟩ i) + (if i.srcReady then 1 else 0) ≤
      rankK T ⟨s, g, n⟩ + (4 * b2 i.retryRequired + 4 * b2 (accept s) + 4 * b2 (pop s i) + 4 * b2 (badEv s) + 4 * b2 i.rejectPower) := by
  rank_pre
  have hlbc : True := trivial
  have hlxc : True := trivial
  rank_go hf hf hf hf hf

theorem rankK_step_sendLxu (hI : Inv c s g) (hT : T ≤ n.kas + b2 s.keepalive) (e : EnvStep s g i)
    (hf : s.fsm = .sendLxu) (hz : rankK T ⟨s, g, n⟩ ≠ 0) :
    rankK T (World.next c ⟨s, g, n⟩ i) + (if i.srcReady then 1 else 0) ≤
      rankK T ⟨s, g, n⟩ + (4 * b2 i.retryRequired + 4 * b2 (accept s) + 4 * b2 (pop s i) + 4 * b2 (badEv s) + 4 * b2 i.rejectPower) := by
  rank_pre
  have hlbc : True := trivial
  have hlxc : True := trivial
  rank_go hf hf hf hf hf

theorem rankK_zero {T : Nat} {x : World} (hz : rankK T x = 0) : T ≤ x.n.kas := by
  simp only [rankK] at hz
  split at hz
  · omega
  · exfalso; revert hz; cases x.s.fsm <;> cases x.s.gen <;> simp [ph]

theorem badK_cost (r a p b x : Bool) : 4 * b2 r + 4 * b2 a + 4 * b2 p + 4 * b2 b + 4 * b2 x ≤
    if (r || a || p || b || x) = true then 20 else 0 := by
  cases a <;> cases p <;> cases b <;> cases r <;> cases x <;> simp [b2]

/-- **One cycle, keepalive (LUP/LDN) rank.** -/
theorem rankK_step (c : Config) (T : Nat) :
    StepOk (World.next c) WOk (InvK c T) (rankK T) rdyW badK 20 := by
  intro x i hI e
  obtain ⟨s, g, n⟩ := x
  obtain ⟨hI, hT⟩ := hI
  simp only [WOk] at hI hT e
  have F2 := facts2_of (c := c) hI e
  refine ⟨⟨inv_step hI e, ?_⟩, ?_, ?_⟩
  · have h1 := cnt_kas s i n; have h2 := F2.kaK
    simp only [World.next, h1]
    cases hd : (s.fsm == Fsm.sendKeepalive && done s i)
    · cases hl : s.keepalive
      · rw [hl] at hT; simp only [b2_false] at hT ⊢; omega
      · rw [h2 hl hd]; rw [hl] at hT; simpa using hT
    · have := b2_le s.keepalive; simp only [b2_true]; omega
  · intro hz
    have h2 := cnt_kas s i n
    have := rankK_zero hz
    simp only [rankK, World.next, h2]
    rw [if_pos (by simp only at this; omega)]
  · intro hz
    simp only [rdyW, badK]
    refine Nat.le_trans ?_ (Nat.add_le_add_left (badK_cost i.retryRequired (accept s) (pop s i) (badEv s) i.rejectPower) _)
    cases hf : s.fsm
    · by_cases h0 : s.acks = 0 <;> by_cases h1 : s.cti = 0
      · exact rankK_step_dispatch00 hI hT e hf h0 h1 hz
      · exact rankK_step_dispatch0N hI hT e hf h0 h1 hz
      · exact rankK_step_dispatchN0 hI hT e hf h0 h1 hz
      · exact rankK_step_dispatchNN hI hT e hf h0 h1 hz
    · by_cases h0 : s.acks = 1
      · exact rankK_step_sendAcks1 hI hT e hf h0 hz
      · exact rankK_step_sendAcksN hI hT e hf h0 hz
    · by_cases h0 : s.cti = 1
      · exact rankK_step_issueCredits1 hI hT e hf h0 hz
      · exact rankK_step_issueCreditsN hI hT e hf h0 hz
    · exact rankK_step_sendLbad hI hT e hf hz
    · exact rankK_step_sendLrty hI hT e hf hz
    · exact rankK_step_sendKeepalive hI hT e hf hz
    · exact rankK_step_sendLxu hI hT e hf hz

theorem rankK_le (c : Config) (T : Nat) (x : World) (h : InvK c T x) : rankK T x ≤ 52 := by
  obtain ⟨s, g, n⟩ := x
  obtain ⟨hI, hT⟩ := h
  simp only at hI hT
  have h1 := hI.hbf; have h2 := hI.hcti; have h3 := hI.hcred; have h4 := hI.hacks4
  have hlr : lr s ≤ 4 := by simp only [lr]; split <;> omega
  have hlb : lbc s ≤ 4 := by simp only [lbc]; split <;> omega
  have hlx : lxc s ≤ 4 := by simp only [lxc]; split <;> omega
  simp only [rankK]
  split
  · omega
  · cases s.fsm <;> cases s.gen <;> simp only [ph] <;> omega

end

/-- the number of completed keepalive (LUP/LDN) commands along a history -/
def kasRun (c : Config) : State → Nat → List In → Nat
  | _, k, [] => k
  | s, k, i :: is => kasRun c (step c s i).1 (k + b2 (s.fsm == .sendKeepalive && done s i)) is

theorem runW_kas (c : Config) (is : List In) : ∀ x : World,
    (runW c x is).n.kas = kasRun c x.s x.n.kas is := by
  induction is with
  | nil => intro x; rfl
  | cons i is ih =>
    intro x
    simp only [runW, runS, kasRun]
    rw [← cnt_kas x.s i x.n]
    exact ih (World.next c x i)

/-- number of bad cycles of a history from a state -/
def badKCount (c : Config) (s : State) (g : Ghost) (is : List In) : Nat :=
  cntS (World.next c) badK ⟨s, g, Cnt.init⟩ is

/-- **keepalive (LUP/LDN) liveness, from any reachable state.**  If the request is pending, the command completes on
the wire once the history contains `52 + 20·(bad cycles)` ready cycles. -/
theorem keepalive_live (c : Config) (s : State) (g : Ghost) (h : Inv c s g) (hp : s.keepalive = true) (is : List In)
    (ho : EnvOk c s g is) (hn : 52 + 20 * badKCount c s g is ≤ readyCount is) :
    1 ≤ kasRun c s 0 is := by
  have hx : InvK c 1 ⟨s, g, Cnt.init⟩ := ⟨h, by simp [Cnt.init, hp]⟩
  have hle := rankK_le c 1 _ hx
  have hz := converge (World.next c) WOk (InvK c 1) (rankK 1) rdyW badK 20 (rankK_step c 1) is
    ⟨s, g, Cnt.init⟩ hx ((okW_iff c is _).2 ho) (by rw [cnt_rdyW]; simp only [badKCount] at hn; omega)
  have := rankK_zero hz
  rw [runW_kas] at this
  exact this

end LunaVerif.HeaderRx
