import LunaVerif.Lemmas.C09Rom
import LunaVerif.Lemmas.C09Block
/-!
Helper lemmas for C09 `rom_lookup_correct`, part 2: the index map, reading the ROM image of
`Rom.layout`, address widths.
-/
namespace LunaVerif.Desc.Rom

/-! ### the index map -/

theorem indexMapOf_lookup (pre post : List Descr) (d : Descr) : ∀ seen : List Descr,
    (∀ e ∈ pre, key e ≠ key d) →
    (indexMapOf seen (pre ++ d :: post)).lookup (key d)
      = some ((seen.filter (fun e => e.ty == d.ty)).length + (pre.filter (fun e => e.ty == d.ty)).length) := by
  induction pre with
  | nil => intro seen _; simp [indexMapOf]
  | cons a pre ih =>
    intro seen h
    have ha : (key d == key a) = false := beq_false_of_ne (Ne.symm (h a (List.mem_cons_self ..)))
    simp only [List.cons_append, indexMapOf, List.lookup_cons, ha]
    rw [ih (a :: seen) (fun e he => h e (List.mem_cons_of_mem _ he))]
    simp only [List.filter_cons]
    cases a.ty == d.ty <;> simp <;> omega

theorem indexMapOf_lookup_none (l : List Descr) (k : Nat) : ∀ seen : List Descr,
    (∀ e ∈ l, key e ≠ k) → (indexMapOf seen l).lookup k = none := by
  induction l with
  | nil => intro seen _; rfl
  | cons a l ih =>
    intro seen h
    have ha : (k == key a) = false := beq_false_of_ne (Ne.symm (h a (List.mem_cons_self ..)))
    simp only [indexMapOf, List.lookup_cons, ha]
    exact ih _ (fun e he => h e (List.mem_cons_of_mem _ he))

theorem indexMapOf_isEmpty (l seen : List Descr) (h : l ≠ []) : (indexMapOf seen l).isEmpty = false := by
  cases l with
  | nil => exact absurd rfl h
  | cons a l => rfl

/-! ### address arithmetic -/

theorem bitsFor_le_14 (n : Nat) (h : n < 16384) : bitsFor n ≤ 14 := by
  unfold bitsFor
  split
  · omega
  · rename_i h0
    have : Nat.log2 n < 14 := (Nat.log2_lt h0).mpr (by omega)
    omega

theorem mod_hi (aw n x : Nat) (h : aw ≤ 14) : (n * 16384 + x) % 2 ^ aw = x % 2 ^ aw := by
  obtain ⟨k, hk⟩ : ∃ k, 14 = aw + k := ⟨14 - aw, by omega⟩
  have : (16384 : Nat) = 2 ^ aw * 2 ^ k := by rw [← Nat.pow_add, ← hk]
  rw [this, show n * (2 ^ aw * 2 ^ k) + x = x + 2 ^ aw * (n * 2 ^ k) by
    rw [Nat.add_comm, Nat.mul_comm n, Nat.mul_assoc, Nat.mul_comm n]]
  exact Nat.add_mul_mod_self_left ..

/-! ### reading the image -/

theorem read_layout (c : Collection) (a : Nat) :
    (layout c).read a
      = (typeTable c ++ entryTable (sortDescrs c) (4 * (maxType c + 1) + 4 * c.length)
          ++ dataWords (sortDescrs c))[a]?.getD 0 := by
  unfold Image.read layout
  simp only [Array.getD, List.size_toArray]
  split
  · rename_i h
    rw [List.getElem?_eq_getElem h]; rfl
  · rename_i h
    rw [List.getElem?_eq_none (by omega)]; rfl

theorem size_layout (c : Collection) :
    (layout c).words.size = maxType c + 1 + c.length + sumAlign (sortDescrs c) := by
  unfold layout
  simp only [List.size_toArray, List.length_append, typeTable_length, entryTable_length, dataWords_length,
    (sortDescrs_perm c).length_eq]

theorem read_type (c : Collection) (t : Nat) (h : t ≤ maxType c) : (layout c).read t = typeWord c t := by
  rw [read_layout, List.append_assoc, List.getElem?_append_left (by rw [typeTable_length]; omega),
    typeTable_get c t h]
  rfl

theorem read_entry (c : Collection) (pre post : List Descr) (d : Descr) (hs : sortDescrs c = pre ++ d :: post) :
    (layout c).read (maxType c + 1 + pre.length)
      = d.bytes.length * 65536 + (4 * (maxType c + 1) + 4 * c.length + 4 * sumAlign pre) := by
  rw [read_layout, hs, List.append_assoc, List.getElem?_append_right (by rw [typeTable_length]; omega),
    typeTable_length, Nat.add_sub_cancel_left, entryTable_append,
    List.append_assoc, List.getElem?_append_right (by rw [entryTable_length]; omega),
    entryTable_length, Nat.sub_self]
  rfl

theorem read_data (c : Collection) (pre post : List Descr) (d : Descr) (hs : sortDescrs c = pre ++ d :: post)
    (q : Nat) (hq : q < alignWords d.bytes.length) :
    (layout c).read (maxType c + 1 + c.length + sumAlign pre + q) = (packWords d.bytes)[q]?.getD 0 := by
  have hlen : c.length = (pre ++ d :: post).length := by rw [← hs, (sortDescrs_perm c).length_eq]
  rw [read_layout, hs, List.getElem?_append_right (by
      rw [List.length_append, typeTable_length, entryTable_length, ← hlen]; omega),
    List.length_append, typeTable_length, entryTable_length, ← hlen,
    show maxType c + 1 + c.length + sumAlign pre + q - (maxType c + 1 + c.length) = sumAlign pre + q by omega,
    dataWords_split, List.getElem?_append_right (by rw [dataWords_length]; omega),
    dataWords_length, Nat.add_sub_cancel_left,
    List.getElem?_append_left (by rw [packWords_length]; exact hq)]

end LunaVerif.Desc.Rom
