import LunaVerif.Props.C57Streams
import LunaVerif.Lemmas.C12InRefine
import LunaVerif.Lemmas.C12OutRefine
/-!
# C57 — the event-level endpoints of the whole-device model (`Device.Full`) are those of C12's slice machines

C57's theorems (`rx_in_order`, `tx_in_order`) are proved on the whole-device model `Full.step`
(Model/Device/Full.lean: both packet buffers of `USBInTransferManager`, FIFO entries as triples, overflow -> NAK);
C12's `cycle_refines_event` lemmas (Lemmas/C12InRefine.lean, C12OutRefine.lean) are proved for the endpoint model of
Model/Device/Endpoints.lean (`EpDev.epStep`; write / read buffer, FIFO entries as 10-bit words, no overflow path).
This file relates the two, event by event, for the endpoint kinds `USBSerialDevice` uses:

* `in_bridge`  — stream IN endpoint: `Full.epStep` on `.sIn a` under the context `ctxOf d ev` does what
  `C12In.inEv` does under `EpDev.sharedOf c d ev` on any related state (`RIn`: same FSM state, data PID, write
  buffer + `stream_ended`, read buffer; `stream_ended` of the read buffer only where the gateware reads it — for a
  full packet —; the read buffer is empty while the FSM waits for data), same answer, same number of producer bytes
  accepted;
* `out_bridge` — stream OUT endpoint: the same for `C12Out.outEv` (`ROut`: toggle, `transfer_active`, FIFO entries
  decoded) for every event except a CRC-valid data packet for the endpoint with the expected toggle that does not fit
  into the FIFO (`OutFits`; the whole-device model NAKs it, the C12 model excludes it by `legalEvent`) and under
  "payload bytes are bytes".

Both hold for every control state `d`; the only fact about the configuration is that a STANDARD request is owned by
the standard handler (`StdOwned`: no extra handler claims STANDARD requests; `ACMRequestHandlers` claims CLASS / 0x20),
which makes the two models' halt-clear strobes the same.
-/
set_option linter.unusedSimpArgs false
set_option linter.unusedVariables false

namespace LunaVerif.C57Cyc
open LunaVerif LunaVerif.Device

/-! ### The shared front end -/

/-- No additional request handler claims STANDARD requests (so the multiplexer hands them to the standard handler). -/
def StdOwned (c : DevConfig) : Prop := ∀ h ∈ c.extra, h.rtype ≠ TYPE_STANDARD

theorem owner_std (c : DevConfig) (hc : StdOwned c) (su : Setup) (h : su.type = TYPE_STANDARD) : owner c su = .std := by
  have h0 : extraClaims c su = 0 := by
    simp only [extraClaims, List.length_eq_zero_iff, List.filter_eq_nil_iff, Bool.and_eq_true, beq_iff_eq, not_and]
    intro x hx hty
    exact absurd (hty.symm.trans h) (hc x hx)
  simp [owner, h, h0]

/-- the halt-clear strobe of the two models -/
theorem halt_eq (c : DevConfig) (hc : StdOwned c) (d : DevState) (ev : HostEvent) :
    (Full.ctxOf d ev).clearHalt = EpDev.haltStrobe c d ev := by
  cases ev with
  | handshake pid =>
    by_cases h : pid = PID_ACK ∧ d.tokEp = 0 ∧ d.tokPid = PID_IN ∧ d.setup.type = TYPE_STANDARD ∧ d.hstate = .clearFeature
    · obtain ⟨h1, h2, h3, h4, h5⟩ := h
      have ht : (Full.ackReachesStd d pid && d.hstate == .clearFeature) = true := by
        simp [Full.ackReachesStd, h1, h2, h3, h4, h5]
      have h' : pid = PID_ACK ∧ d.tokEp = 0 ∧ d.tokPid = PID_IN ∧ d.setup.type = TYPE_STANDARD ∧
          d.hstate = .clearFeature ∧ owner c d.setup = .std := ⟨h1, h2, h3, h4, h5, owner_std c hc d.setup h4⟩
      simp only [Full.ctxOf, EpDev.haltStrobe, ht, if_true, if_pos h']
      cases hx : (d.setup.index / 128 % 2 == 1) <;> simp_all
    · have h' : ¬(pid = PID_ACK ∧ d.tokEp = 0 ∧ d.tokPid = PID_IN ∧ d.setup.type = TYPE_STANDARD ∧
          d.hstate = .clearFeature ∧ owner c d.setup = .std) := fun x => h ⟨x.1, x.2.1, x.2.2.1, x.2.2.2.1, x.2.2.2.2.1⟩
      have hf : (Full.ackReachesStd d pid && d.hstate == .clearFeature) = false := by
        cases hb : (Full.ackReachesStd d pid && d.hstate == .clearFeature)
        · rfl
        · simp only [Full.ackReachesStd, Bool.and_eq_true, beq_iff_eq] at hb
          exact absurd ⟨hb.1.1.1.1, hb.1.1.1.2, hb.1.1.2, hb.1.2, hb.2⟩ h
      simp only [Full.ctxOf, EpDev.haltStrobe, hf, if_neg h', Bool.false_eq_true, if_false]
  | _ => rfl

theorem haltFor_eq (c : DevConfig) (hc : StdOwned c) (d : DevState) (ev : HostEvent) (ec : EpDev.EpCfg) (dir : Bool) :
    Full.haltFor (Full.ctxOf d ev) dir ec.num = EpDev.haltHits ec dir (EpDev.sharedOf c d ev) := by
  simp only [Full.haltFor, EpDev.haltHits, EpDev.sharedOf, halt_eq c hc d ev]
  cases EpDev.haltStrobe c d ev with
  | none => rfl
  | some x => cases x; rfl

theorem shared_token_mine (c : DevConfig) (d : DevState) (pid ep : Nat) :
    EpDev.sharedOf c d (.token pid d.address ep) = { tokPid := pid, tokEp := ep, newTok := true, halt := none } := by
  have h := onToken_ctl c d pid ep
  simp only [EpDev.sharedOf, core, if_true, EpDev.acceptedToken, beq_self_eq_true, EpDev.haltStrobe, h.tokPid, h.tokEp,
    afterToken]

theorem shared_token_other (c : DevConfig) (d : DevState) (pid addr ep : Nat) (h : addr ≠ d.address) :
    (EpDev.sharedOf c d (.token pid addr ep)).newTok = false ∧ (EpDev.sharedOf c d (.token pid addr ep)).halt = none := by
  simp [EpDev.sharedOf, EpDev.acceptedToken, EpDev.haltStrobe, h]

theorem shared_hs (c : DevConfig) (d : DevState) (pid : Nat) :
    (EpDev.sharedOf c d (.handshake pid)).tokPid = d.tokPid ∧ (EpDev.sharedOf c d (.handshake pid)).tokEp = d.tokEp ∧
    (EpDev.sharedOf c d (.handshake pid)).newTok = false := by
  have h := onHandshake_tok d pid
  simp [EpDev.sharedOf, core, h.1, h.2, EpDev.acceptedToken]

theorem shared_data (c : DevConfig) (d : DevState) (pid : Nat) (p : List Nat) (ok : Bool) :
    EpDev.sharedOf c d (.data pid p ok) = { tokPid := d.tokPid, tokEp := d.tokEp, newTok := false, halt := none } := by
  have h := onData_tok c d p ok
  simp [EpDev.sharedOf, core, h.1, h.2, EpDev.acceptedToken, EpDev.haltStrobe]

/-- a halt-clear strobe needs the token registers to show endpoint 0 -/
theorem halt_tokEp (c : DevConfig) (d : DevState) (ev : HostEvent) (ec : EpDev.EpCfg) (dir : Bool)
    (h : EpDev.haltHits ec dir (EpDev.sharedOf c d ev) = true) : d.tokEp = 0 ∧ ∃ pid, ev = .handshake pid := by
  simp only [EpDev.haltHits, EpDev.sharedOf] at h
  cases hs : EpDev.haltStrobe c d ev with
  | none => simp [hs] at h
  | some x => exact C12Sig.haltStrobe_tokEp c d ev x hs

theorem halt_is_ack (c : DevConfig) (d : DevState) (pid : Nat) (ec : EpDev.EpCfg) (dir : Bool)
    (h : EpDev.haltHits ec dir (EpDev.sharedOf c d (.handshake pid)) = true) : pid = PID_ACK := by
  simp only [EpDev.haltHits, EpDev.sharedOf, EpDev.haltStrobe] at h
  split at h
  · rename_i heq
    split at heq
    · rename_i hc; exact hc.1
    · cases heq
  · cases h

/-! ### Stream IN endpoint -/

def fsmIn : Full.InFsm → EpDev.InFsm
  | .waitData => .waitData
  | .waitSend => .waitSend
  | .waitAck => .waitAck

/-- The whole-device model's `USBInTransferManager` state `a` (two buffers + `buffer_toggle`) and the C12 model's `e`
(write / read buffer). -/
structure RIn (mps : Nat) (a : Full.InEp) (e : EpDev.InState) : Prop where
  fsm   : e.fsm = fsmIn a.fsm
  pid   : e.pid = a.pid
  wbuf  : e.wbuf = a.wbuf
  wend  : e.wended = a.wended
  rbuf  : e.rbuf = a.rbuf
  rend  : a.rbuf.length = mps → e.rended = a.rended
  empty : a.fsm = .waitData → a.rbuf = []

theorem rin_init (mps : Nat) : RIn mps {} {} := ⟨rfl, rfl, rfl, rfl, rfl, fun _ => rfl, fun _ => rfl⟩

/-- the C12 model's configuration record of a whole-device stream IN endpoint -/
def inCfg (fc : Full.EpCfg) : EpDev.EpCfg := ⟨.streamIn, fc.num, fc.mps, 0⟩
/-- … of a stream OUT endpoint -/
def outCfg (fc : Full.EpCfg) : EpDev.EpCfg := ⟨.streamOut, fc.num, fc.mps, fc.depth⟩

theorem fsmIn_eq (x : Full.InFsm) (y : EpDev.InFsm) :
    (fsmIn x = .waitData ↔ x = .waitData) ∧ (fsmIn x = .waitSend ↔ x = .waitSend) ∧ (fsmIn x = .waitAck ↔ x = .waitAck) := by
  cases x <;> simp [fsmIn]

theorem setW_acc (a : Full.InEp) (b : List Nat) (en : Bool) :
    (a.setW b en).wbuf = b ∧ (a.setW b en).wended = en ∧ (a.setW b en).rbuf = a.rbuf ∧
    (a.setW b en).rended = a.rended ∧ (a.setW b en).fsm = a.fsm ∧ (a.setW b en).pid = a.pid ∧
    (a.setW b en).toggle = a.toggle := by
  cases h : a.toggle <;> simp [Full.InEp.setW, Full.InEp.wbuf, Full.InEp.wended, Full.InEp.rbuf, Full.InEp.rended, h]

theorem setR_acc (a : Full.InEp) (b : List Nat) (en : Bool) :
    (a.setR b en).rbuf = b ∧ (a.setR b en).rended = en ∧ (a.setR b en).wbuf = a.wbuf ∧
    (a.setR b en).wended = a.wended ∧ (a.setR b en).fsm = a.fsm ∧ (a.setR b en).pid = a.pid ∧
    (a.setR b en).toggle = a.toggle := by
  cases h : a.toggle <;> simp [Full.InEp.setR, Full.InEp.wbuf, Full.InEp.wended, Full.InEp.rbuf, Full.InEp.rended, h]

/-- swapping the buffers -/
theorem swap_acc (a : Full.InEp) (f : Full.InFsm) (p : Bool) :
    ({ a with fsm := f, toggle := !a.toggle, pid := p } : Full.InEp).wbuf = a.rbuf ∧
    ({ a with fsm := f, toggle := !a.toggle, pid := p } : Full.InEp).wended = a.rended ∧
    ({ a with fsm := f, toggle := !a.toggle, pid := p } : Full.InEp).rbuf = a.wbuf ∧
    ({ a with fsm := f, toggle := !a.toggle, pid := p } : Full.InEp).rended = a.wended := by
  cases h : a.toggle <;> simp [Full.InEp.wbuf, Full.InEp.wended, Full.InEp.rbuf, Full.InEp.rended, h]

/-- one producer byte -/
theorem rin_byte (mps : Nat) (a : Full.InEp) (e : EpDev.InState) (b : Nat) (last : Bool) (hr : RIn mps a e) :
    (Full.inByte mps a b last).isSome = (EpDev.inFeed mps e b last).2 ∧
    ∀ a', Full.inByte mps a b last = some a' → RIn mps a' (EpDev.inFeed mps e b last).1 := by
  obtain ⟨h1, h2, h3, h4, h5, h6, h7⟩ := hr
  by_cases hready : a.wbuf.length = mps ∨ a.wended = true
  · have hr' : a.ready mps = false := by
      simp only [Full.InEp.ready]; rcases hready with h | h <;> simp [h]
    have he : e.wbuf.length = mps ∨ e.wended = true := by rw [h3, h4]; exact hready
    simp [Full.inByte, hr', EpDev.inFeed, he]
  · have hr' : a.ready mps = true := by
      simp only [not_or, Bool.not_eq_true] at hready
      simp [Full.InEp.ready, hready.1, hready.2]
    have he : ¬(e.wbuf.length = mps ∨ e.wended = true) := by rw [h3, h4]; exact hready
    simp only [Full.inByte, hr', if_true, EpDev.inFeed, if_neg he]
    have hfs : (e.fsm = .waitData ∧ (last = true ∨ e.wbuf.length + 1 = mps)) ↔
        (a.fsm = .waitData ∧ (last = true ∨ a.wbuf.length + 1 = mps)) := by
      rw [h1, h3, (fsmIn_eq a.fsm .waitData).1]
    have w := setW_acc a (a.wbuf ++ [b]) last
    by_cases hsw : a.fsm = .waitData ∧ (last = true ∨ a.wbuf.length + 1 = mps)
    · rw [if_pos hsw, if_pos (hfs.mpr hsw)]
      refine ⟨rfl, fun a' ha' => ?_⟩
      injection ha' with ha'
      subst ha'
      have r := setR_acc (a.setW (a.wbuf ++ [b]) last) (a.setW (a.wbuf ++ [b]) last).rbuf false
      have hto : a.toggle = ((a.setW (a.wbuf ++ [b]) last).setR (a.setW (a.wbuf ++ [b]) last).rbuf false).toggle := by
        rw [r.2.2.2.2.2.2, w.2.2.2.2.2.2]
      rw [hto]
      have sw := swap_acc ((a.setW (a.wbuf ++ [b]) last).setR (a.setW (a.wbuf ++ [b]) last).rbuf false) .waitSend (!a.pid)
      refine ⟨rfl, by rw [h2], ?_, ?_, ?_, fun _ => ?_, fun hh => by cases hh⟩
      · rw [sw.1, r.1, w.2.2.1, h7 hsw.1]
      · rw [sw.2.1, r.2.1]
      · rw [sw.2.2.1, r.2.2.1, w.1, h3]
      · rw [sw.2.2.2, r.2.2.2.1, w.2.1]
    · rw [if_neg hsw, if_neg (fun x => hsw (hfs.mp x))]
      refine ⟨rfl, fun a' ha' => ?_⟩
      injection ha' with ha'
      subst ha'
      refine ⟨by rw [w.2.2.2.2.1]; exact h1, by rw [w.2.2.2.2.2.1]; exact h2, by rw [w.1, ← h3], by rw [w.2.1],
        by rw [w.2.2.1]; exact h5, by rw [w.2.2.1, w.2.2.2.1]; exact h6, by rw [w.2.2.1, w.2.2.2.2.1]; exact h7⟩

theorem rin_produce (mps : Nat) (bs : List Nat) (last : Bool) : ∀ (a : Full.InEp) (e : EpDev.InState), RIn mps a e →
    (Full.inProduce mps a bs last).2 = (EpDev.inProduce mps e bs last).2 ∧
    RIn mps (Full.inProduce mps a bs last).1 (EpDev.inProduce mps e bs last).1 := by
  induction bs with
  | nil => intro a e hr; exact ⟨rfl, hr⟩
  | cons b bs ih =>
    intro a e hr
    obtain ⟨h1, h2⟩ := rin_byte mps a e b (last && bs.isEmpty) hr
    simp only [Full.inProduce, EpDev.inProduce]
    cases hb : Full.inByte mps a b (last && bs.isEmpty) with
    | none =>
      rw [hb] at h1
      simp only [Option.isSome_none] at h1
      simp [← h1, hr]
    | some a' =>
      rw [hb] at h1
      simp only [Option.isSome_some] at h1
      obtain ⟨i1, i2⟩ := ih a' _ (h2 a' hb)
      simp only [← h1, if_true]
      exact ⟨by rw [i1], i2⟩

theorem rin_newToken (mps : Nat) (a : Full.InEp) (e : EpDev.InState) (hr : RIn mps a e) :
    RIn mps (if a.fsm = .waitAck then { a with fsm := .waitSend } else a) (EpDev.inNewToken e) := by
  obtain ⟨h1, h2, h3, h4, h5, h6, h7⟩ := hr
  simp only [EpDev.inNewToken, h1, (fsmIn_eq a.fsm .waitData).2.2]
  by_cases hf : a.fsm = .waitAck
  · simp only [hf, if_true]
    exact ⟨rfl, h2, h3, h4, h5, h6, fun hh => by cases hh⟩
  · simp only [hf, if_false]
    exact ⟨h1, h2, h3, h4, h5, h6, h7⟩

/-- an IN token accepted by the device -/
theorem rin_token (mps num : Nat) (hm : 0 < mps) (a : Full.InEp) (e : EpDev.InState) (hr : RIn mps a e) (pid ep : Nat) :
    (Full.inToken num a pid ep).2
        = (if ep = num ∧ pid = PID_IN then EpDev.inToken (EpDev.inNewToken e) else (EpDev.inNewToken e, .none)).2 ∧
    RIn mps (Full.inToken num a pid ep).1
        (if ep = num ∧ pid = PID_IN then EpDev.inToken (EpDev.inNewToken e) else (EpDev.inNewToken e, .none)).1 := by
  have hn := rin_newToken mps a e hr
  simp only [Full.inToken]
  generalize (if a.fsm = .waitAck then { a with fsm := .waitSend } else a) = a1 at hn ⊢
  generalize EpDev.inNewToken e = e1 at hn ⊢
  obtain ⟨h1, h2, h3, h4, h5, h6, h7⟩ := hn
  by_cases ho : pid = PID_IN ∧ ep = num
  · have ho' : ep = num ∧ pid = PID_IN := ⟨ho.2, ho.1⟩
    rw [if_pos ho, if_pos ho']
    cases hf : a1.fsm with
    | waitData =>
      have : e1.fsm = .waitData := by rw [h1, hf]; rfl
      simp only [EpDev.inToken, this]
      exact ⟨trivial, h1, h2, h3, h4, h5, h6, h7⟩
    | waitAck =>
      have : e1.fsm = .waitAck := by rw [h1, hf]; rfl
      simp only [EpDev.inToken, this]
      exact ⟨trivial, h1, h2, h3, h4, h5, h6, h7⟩
    | waitSend =>
      have : e1.fsm = .waitSend := by rw [h1, hf]; rfl
      simp only [EpDev.inToken, this]
      refine ⟨by rw [h2, h5]; rfl, ?_⟩
      by_cases hb : a1.rbuf.isEmpty = true
      · have r := setR_acc a1 a1.rbuf false
        simp only [hb, if_true]
        have hsw : ∀ x : Full.InEp, ({ x with fsm := .waitAck } : Full.InEp).wbuf = x.wbuf ∧
            ({ x with fsm := .waitAck } : Full.InEp).wended = x.wended ∧
            ({ x with fsm := .waitAck } : Full.InEp).rbuf = x.rbuf ∧
            ({ x with fsm := .waitAck } : Full.InEp).rended = x.rended := fun x => ⟨rfl, rfl, rfl, rfl⟩
        have q := hsw (a1.setR a1.rbuf false)
        refine ⟨rfl, by rw [← r.2.2.2.2.2.1] at h2; exact h2, by rw [q.1, r.2.2.1]; exact h3,
          by rw [q.2.1, r.2.2.2.1]; exact h4, by rw [q.2.2.1, r.1]; exact h5, fun hl => ?_, fun hh => by cases hh⟩
        rw [q.2.2.1, r.1] at hl
        have : a1.rbuf.length = 0 := by simpa using hb
        omega
      · simp only [hb, if_false]
        exact ⟨rfl, h2, h3, h4, h5, h6, fun hh => by cases hh⟩
  · have ho' : ¬(ep = num ∧ pid = PID_IN) := fun x => ho ⟨x.2, x.1⟩
    rw [if_neg ho, if_neg ho']
    exact ⟨rfl, h1, h2, h3, h4, h5, h6, h7⟩

theorem rin_setpid (mps : Nat) (a : Full.InEp) (e : EpDev.InState) (hr : RIn mps a e) (p : Bool) :
    RIn mps { a with pid := p } { e with pid := p } := by
  obtain ⟨h1, h2, h3, h4, h5, h6, h7⟩ := hr
  exact ⟨h1, rfl, h3, h4, h5, h6, h7⟩

/-- a host ACK: `mine` = the token registers show an IN token for the endpoint, `reset` = the halt-clear strobe names
it (never both: the strobe needs the registers to show endpoint 0) -/
theorem rin_ack (mps : Nat) (hm : 0 < mps) (a : Full.InEp) (e : EpDev.InState) (hr : RIn mps a e) (mine reset : Bool)
    (hx : ¬(mine = true ∧ reset = true)) :
    RIn mps (Full.inAck mps a mine reset)
      (if mine then EpDev.inAck mps (if reset then EpDev.inClearHalt e else e)
       else (if reset then EpDev.inClearHalt e else e)) := by
  cases mine with
  | false =>
    cases reset with
    | false =>
      have : Full.inAck mps a false false = a := by
        simp only [Full.inAck]; cases a.fsm <;> simp
      rw [this]; exact hr
    | true =>
      simp only [Bool.false_eq_true, if_false, if_true]
      have hf := hr.fsm
      cases hfs : a.fsm with
      | waitData =>
        have he : e.fsm = .waitData := by rw [hf, hfs]; rfl
        simp only [Full.inAck, hfs, EpDev.inClearHalt, he, if_true]
        have t := rin_setpid mps a e hr true
        rw [hfs, he] at t
        exact t
      | waitSend =>
        have he : e.fsm = .waitSend := by rw [hf, hfs]; rfl
        simp only [Full.inAck, hfs, EpDev.inClearHalt, he, if_true]
        have t := rin_setpid mps a e hr false
        rw [hfs, he] at t
        exact t
      | waitAck =>
        have he : e.fsm = .waitAck := by rw [hf, hfs]; rfl
        simp only [Full.inAck, hfs, EpDev.inClearHalt, he, if_true, Bool.false_eq_true, if_false]
        have t := rin_setpid mps a e hr true
        rw [hfs, he] at t
        exact t
  | true =>
    have hres : reset = false := by cases reset <;> simp_all
    subst hres
    simp only [if_true, Bool.false_eq_true, if_false]
    obtain ⟨h1, h2, h3, h4, h5, h6, h7⟩ := hr
    cases hfs : a.fsm with
    | waitData =>
      have he : e.fsm ≠ .waitAck := by rw [h1, hfs]; simp [fsmIn]
      simp only [Full.inAck, hfs, EpDev.inAck, he, if_false, Bool.false_eq_true]
      exact ⟨h1, h2, h3, h4, h5, h6, h7⟩
    | waitSend =>
      have he : e.fsm ≠ .waitAck := by rw [h1, hfs]; simp [fsmIn]
      simp only [Full.inAck, hfs, EpDev.inAck, he, if_false, Bool.false_eq_true]
      exact ⟨h1, h2, h3, h4, h5, h6, h7⟩
    | waitAck =>
      have he : e.fsm = .waitAck := by rw [h1, hfs]; rfl
      simp only [Full.inAck, hfs, EpDev.inAck, he, if_true, Bool.false_eq_true, if_false]
      have r := setR_acc a [] a.rended
      have hsw : ∀ (x : Full.InEp) (f : Full.InFsm) (p : Bool), ({ x with pid := p, fsm := f } : Full.InEp).wbuf = x.wbuf ∧
          ({ x with pid := p, fsm := f } : Full.InEp).wended = x.wended ∧
          ({ x with pid := p, fsm := f } : Full.InEp).rbuf = x.rbuf ∧
          ({ x with pid := p, fsm := f } : Full.InEp).rended = x.rended := fun x f p => ⟨rfl, rfl, rfl, rfl⟩
      by_cases hz : a.rbuf.length = mps ∧ a.rended = true
      · have hz' : e.rbuf.length = mps ∧ e.rended = true := by rw [h5, h6 hz.1]; exact hz
        rw [if_pos hz, if_pos hz']
        have q := hsw (a.setR [] a.rended) .waitSend (!a.pid)
        refine ⟨rfl, by rw [h2], by rw [q.1, r.2.2.1]; exact h3, by rw [q.2.1, r.2.2.2.1]; exact h4,
          by rw [q.2.2.1, r.1], fun hl => ?_, fun hh => by cases hh⟩
        rw [q.2.2.1, r.1] at hl
        simp only [List.length_nil] at hl
        omega
      · have hz' : ¬(e.rbuf.length = mps ∧ e.rended = true) := by
          intro x
          rw [h5] at x
          exact hz ⟨x.1, by rw [← h6 x.1]; exact x.2⟩
        rw [if_neg hz, if_neg hz']
        by_cases hnr : a.ready mps = true
        · have hw : ¬(e.wbuf.length = mps ∨ e.wended = true) := by
            rw [h3, h4]
            simp only [Full.InEp.ready, Bool.and_eq_true, bne_iff_ne, ne_eq, Bool.not_eq_true'] at hnr
            intro x; rcases x with x | x
            · exact hnr.1 x
            · rw [hnr.2] at x; cases x
          simp only [hnr, Bool.not_true, Bool.false_eq_true, if_false, if_neg hw]
          have q := hsw (a.setR [] a.rended) .waitData a.pid
          refine ⟨rfl, by rw [h2], by rw [q.1, r.2.2.1]; exact h3, by rw [q.2.1, r.2.2.2.1]; exact h4,
            by rw [q.2.2.1, r.1], fun hl => ?_, fun _ => by rw [q.2.2.1, r.1]⟩
          rw [q.2.2.1, r.1] at hl
          simp only [List.length_nil] at hl
          omega
        · have hw : e.wbuf.length = mps ∨ e.wended = true := by
            rw [h3, h4]
            simp only [Full.InEp.ready, Bool.and_eq_true, bne_iff_ne, ne_eq, Bool.not_eq_true', not_and,
              Bool.not_eq_false] at hnr
            by_cases hl : a.wbuf.length = mps
            · exact Or.inl hl
            · exact Or.inr (hnr hl)
          have hnr' : a.ready mps = false := by simpa using hnr
          simp only [hnr', Bool.not_false, if_true, if_pos hw]
          have r2 := setR_acc (a.setR [] a.rended) [] false
          have hto : a.toggle = ((a.setR [] a.rended).setR [] false).toggle := by rw [r2.2.2.2.2.2.2, r.2.2.2.2.2.2]
          rw [hto]
          have sw := swap_acc ((a.setR [] a.rended).setR [] false) .waitSend (!a.pid)
          refine ⟨rfl, by rw [h2], ?_, ?_, ?_, fun _ => ?_, fun hh => by cases hh⟩
          · rw [sw.1, r2.1]
          · rw [sw.2.1, r2.2.1]
          · rw [sw.2.2.1, r2.2.2.1, r.2.2.1]; exact h3
          · rw [sw.2.2.2, r2.2.2.2.1, r.2.2.2.1]; exact h4

/-- number of producer bytes an event-level output of the C12 model reports -/
def appCount : List Nat → Nat
  | [k] => k
  | _ => 0

theorem inPre_quiet (ec : EpDev.EpCfg) (sh : EpDev.Shared) (e : EpDev.InState) (h1 : sh.newTok = false)
    (h2 : sh.halt = none) : C12In.inPre ec sh e = e := by
  simp [C12In.inPre, h1, EpDev.haltHits, h2]

/-- **Stream IN endpoint, one event.**  `Full.epStep` (whole-device model, C57) and `C12In.inEv` (= `EpDev.epStep`,
the model C12's `in_cycle_refines_event` is about) do the same from related states: related successors, the same
answer, the same number of producer bytes accepted. -/
theorem in_bridge (c : DevConfig) (hc : StdOwned c) (fc : Full.EpCfg) (hn : 0 < fc.num) (hm : 0 < fc.mps)
    (d : DevState) (a : Full.InEp) (e : EpDev.InState) (ev : HostEvent) (hr : RIn fc.mps a e) :
    ∃ a', (Full.epStep fc (.sIn a) (Full.ctxOf d ev) ev).1 = .sIn a' ∧
      RIn fc.mps a' (C12In.inEv (inCfg fc) (EpDev.sharedOf c d ev) e ev).1 ∧
      (Full.epStep fc (.sIn a) (Full.ctxOf d ev) ev).2.1 = (C12In.inEv (inCfg fc) (EpDev.sharedOf c d ev) e ev).2.resp ∧
      (Full.epStep fc (.sIn a) (Full.ctxOf d ev) ev).2.2.count
        = appCount (C12In.inEv (inCfg fc) (EpDev.sharedOf c d ev) e ev).2.app ∧
      (Full.epStep fc (.sIn a) (Full.ctxOf d ev) ev).2.2.items = [] := by
  have hquiet : ∀ ev', (EpDev.sharedOf c d ev').newTok = false → (EpDev.sharedOf c d ev').halt = none →
      C12In.inPre (inCfg fc) (EpDev.sharedOf c d ev') e = e := fun ev' h1 h2 => inPre_quiet _ _ _ h1 h2
  cases ev with
  | token pid addr ep =>
    by_cases haddr : addr = d.address
    · subst haddr
      have hmine : (Full.ctxOf d (.token pid d.address ep)).mine = true := by simp [Full.ctxOf]
      obtain ⟨t1, t2⟩ := rin_token fc.mps fc.num hm a e hr pid ep
      simp only [Full.epStep, hmine, if_true, C12In.inEv, shared_token_mine, C12In.inPre, EpDev.haltHits, true_and,
        Bool.false_eq_true, if_false, inCfg]
      by_cases ho : ep = fc.num ∧ pid = PID_IN
      · rw [if_pos ho] at t1 t2 ⊢
        exact ⟨_, rfl, t2, t1, by simp [appCount]⟩
      · rw [if_neg ho] at t1 t2 ⊢
        exact ⟨_, rfl, t2, t1, by simp [appCount]⟩
    · have hmine : (Full.ctxOf d (.token pid addr ep)).mine = false := by simp [Full.ctxOf, haddr]
      obtain ⟨s1, s2⟩ := shared_token_other c d pid addr ep haddr
      simp only [Full.epStep, hmine, Bool.false_eq_true, if_false, C12In.inEv, hquiet _ s1 s2, s1, false_and]
      exact ⟨a, rfl, hr, by simp [appCount]⟩
  | handshake pid =>
    obtain ⟨s1, s2, s3⟩ := shared_hs c d pid
    have hh := haltFor_eq c hc d (.handshake pid) (inCfg fc) true
    have hnum : (inCfg fc).num = fc.num := rfl
    rw [hnum] at hh
    by_cases hp : pid = PID_ACK
    · subst hp
      have hmine : ((Full.ctxOf d (.handshake PID_ACK)).tokPid == PID_IN && (Full.ctxOf d (.handshake PID_ACK)).tokEp == fc.num)
          = decide (d.tokEp = fc.num ∧ d.tokPid = PID_IN) := by
        simp only [Full.ctxOf]
        by_cases h1 : d.tokPid = PID_IN <;> by_cases h2 : d.tokEp = fc.num <;> simp [h1, h2]
      have hx : ¬(decide (d.tokEp = fc.num ∧ d.tokPid = PID_IN) = true ∧
          EpDev.haltHits (inCfg fc) true (EpDev.sharedOf c d (.handshake PID_ACK)) = true) := by
        intro x
        have h0 := (halt_tokEp c d _ _ _ x.2).1
        have h1 := (of_decide_eq_true x.1).1
        omega
      have t := rin_ack fc.mps hm a e hr _ _ hx
      simp only [Full.epStep, if_true, hmine, hh, C12In.inEv, C12In.inPre, s1, s2, s3, Bool.false_eq_true, if_false,
        true_and, inCfg] at t ⊢
      by_cases ho : d.tokEp = fc.num ∧ d.tokPid = PID_IN
      · simp only [ho, and_self, decide_true, if_true] at t ⊢
        exact ⟨_, rfl, t, by simp [appCount]⟩
      · simp only [ho, decide_false, Bool.false_eq_true, if_false] at t ⊢
        exact ⟨_, rfl, t, by simp [appCount]⟩
    · have hhalt : EpDev.haltHits (inCfg fc) true (EpDev.sharedOf c d (.handshake pid)) = false := by
        cases hx : EpDev.haltHits (inCfg fc) true (EpDev.sharedOf c d (.handshake pid))
        · rfl
        · exact absurd (halt_is_ack c d pid _ _ hx) hp
      simp only [Full.epStep, hp, if_false, C12In.inEv, C12In.inPre, s3, hhalt, Bool.false_eq_true, false_and]
      exact ⟨a, rfl, hr, by simp [appCount]⟩
  | produce ep bytes last =>
    have hq := hquiet (.produce ep bytes last) (by simp [EpDev.sharedOf, EpDev.acceptedToken])
      (by simp [EpDev.sharedOf, EpDev.haltStrobe])
    simp only [Full.epStep, C12In.inEv, hq]
    have hnum : (inCfg fc).num = fc.num := rfl
    have hsz : (inCfg fc).size = fc.mps := rfl
    rw [hnum, hsz]
    by_cases hep : ep = fc.num
    · obtain ⟨p1, p2⟩ := rin_produce fc.mps bytes last a e hr
      simp only [hep, if_true]
      exact ⟨_, rfl, p2, by simp [appCount, p1]⟩
    · simp only [hep, if_false]
      exact ⟨a, rfl, hr, by simp [appCount]⟩
  | sof f =>
    have hq := hquiet (.sof f) (by simp [EpDev.sharedOf, EpDev.acceptedToken]) (by simp [EpDev.sharedOf, EpDev.haltStrobe])
    simp only [Full.epStep, C12In.inEv, hq]; exact ⟨a, rfl, hr, by simp [appCount]⟩
  | data p b ok =>
    have hq := hquiet (.data p b ok) (by simp [shared_data]) (by simp [shared_data])
    simp only [Full.epStep, C12In.inEv, hq]; exact ⟨a, rfl, hr, by simp [appCount]⟩
  | malformed b =>
    have hq := hquiet (.malformed b) (by simp [EpDev.sharedOf, EpDev.acceptedToken]) (by simp [EpDev.sharedOf, EpDev.haltStrobe])
    simp only [Full.epStep, C12In.inEv, hq]; exact ⟨a, rfl, hr, by simp [appCount]⟩
  | quiet =>
    have hq := hquiet .quiet (by simp [EpDev.sharedOf, EpDev.acceptedToken]) (by simp [EpDev.sharedOf, EpDev.haltStrobe])
    simp only [Full.epStep, C12In.inEv, hq]; exact ⟨a, rfl, hr, by simp [appCount]⟩
  | busReset =>
    have hq := hquiet .busReset (by simp [EpDev.sharedOf, EpDev.acceptedToken]) (by simp [EpDev.sharedOf, EpDev.haltStrobe])
    simp only [Full.epStep, C12In.inEv, hq]; exact ⟨a, rfl, hr, by simp [appCount]⟩
  | consume e' k =>
    have hq := hquiet (.consume e' k) (by simp [EpDev.sharedOf, EpDev.acceptedToken]) (by simp [EpDev.sharedOf, EpDev.haltStrobe])
    simp only [Full.epStep, C12In.inEv, hq]; exact ⟨a, rfl, hr, by simp [appCount]⟩
  | setSignal e' v =>
    have hq := hquiet (.setSignal e' v) (by simp [EpDev.sharedOf, EpDev.acceptedToken]) (by simp [EpDev.sharedOf, EpDev.haltStrobe])
    simp only [Full.epStep, C12In.inEv, hq]; exact ⟨a, rfl, hr, by simp [appCount]⟩

/-! ### Stream OUT endpoint -/

/-- a FIFO entry as the consumer sees it (C13: payload, first, last) as the whole-device model stores it (payload, last,
first) -/
def flipE (x : StreamOutEndpoint.Entry) : Full.Entry := (x.1, x.2.2, x.2.1)

def decF (x : Nat) : Full.Entry := flipE (StreamOutEndpoint.dec x)

structure ROut (b : Full.OutEp) (e : EpDev.OutState) : Prop where
  toggle : e.toggle = b.expToggle
  active : e.active = b.transferActive
  fifo   : e.fifo.map decF = b.fifo

theorem rout_init : ROut {} {} := ⟨rfl, rfl, rfl⟩

theorem ROut.len {b : Full.OutEp} {e : EpDev.OutState} (h : ROut b e) : e.fifo.length = b.fifo.length := by
  rw [← h.fifo, List.length_map]

theorem entries_zip (mps len : Nat) (active : Bool) (p : List Nat) (hb : ∀ x ∈ p, x < 256) : ∀ k,
    (List.zipWith (fun i b => EpDev.outEntry mps len active i b) (List.range' k p.length) p).map decF
      = Full.entriesFrom mps active len p k := by
  induction p with
  | nil => intro k; rfl
  | cons b bs ih =>
    intro k
    have hlt : b % 256 = b := Nat.mod_eq_of_lt (hb b (by simp))
    have hd : decide (k + 1 = len ∧ k + 1 ≠ mps) = decide (k + 1 = len ∧ len ≠ mps) := by
      rw [Bool.eq_iff_iff]; simp only [decide_eq_true_eq]; omega
    simp only [List.length_cons, List.range', List.zipWith_cons_cons, List.map_cons, Full.entriesFrom, decF,
      C12Out.dec_outEntry, flipE, hlt, hd]
    rw [← ih (fun x hx => hb x (by simp [hx])) (k + 1)]

theorem entries_eq (mps : Nat) (active : Bool) (p : List Nat) (hb : ∀ x ∈ p, x < 256) :
    (EpDev.outEntries mps active p).map decF = Full.entries mps active p := by
  simp only [EpDev.outEntries, Full.entries, List.range_eq_range']
  exact entries_zip mps p.length active p hb 0

/-- The environment condition of a data event for the OUT endpoint (the C12 model's `legalEvent`; the whole-device
model has the overflow path — NAK, nothing stored — instead): payload bytes are bytes and, while the token registers
name the endpoint, the packet fits into the FIFO. -/
def OutFits (fc : Full.EpCfg) (d : DevState) (b : Full.OutEp) (ev : HostEvent) : Prop :=
  match ev with
  | .data _ p _ => (∀ x ∈ p, x < 256) ∧ ((d.tokEp = fc.num ∧ d.tokPid = PID_OUT) → b.fifo.length + p.length ≤ fc.depth)
  | _ => True

instance (fc : Full.EpCfg) (d : DevState) (b : Full.OutEp) (ev : HostEvent) : Decidable (OutFits fc d b ev) := by
  cases ev <;> unfold OutFits <;> infer_instance

theorem outPre_quiet (ec : EpDev.EpCfg) (sh : EpDev.Shared) (e : EpDev.OutState) (h2 : sh.halt = none) :
    C12Out.outPre ec sh e = e := by
  simp [C12Out.outPre, EpDev.haltHits, h2]

/-- **Stream OUT endpoint, one event.**  `Full.epStep` and `C12Out.outEv` (= `EpDev.epStep`) do the same from related
states whenever the event satisfies `OutFits`: related successors, the same handshake, the same entries handed to the
consumer. -/
theorem out_bridge (c : DevConfig) (hc : StdOwned c) (fc : Full.EpCfg) (hn : 0 < fc.num) (hm : 0 < fc.mps)
    (d : DevState) (b : Full.OutEp) (e : EpDev.OutState) (ev : HostEvent) (hr : ROut b e) (hf : OutFits fc d b ev) :
    ∃ b', (Full.epStep fc (.sOut b) (Full.ctxOf d ev) ev).1 = .sOut b' ∧
      ROut b' (C12Out.outEv (outCfg fc) (EpDev.sharedOf c d ev) e ev).1 ∧
      (Full.epStep fc (.sOut b) (Full.ctxOf d ev) ev).2.1 = (C12Out.outEv (outCfg fc) (EpDev.sharedOf c d ev) e ev).2.resp ∧
      (Full.epStep fc (.sOut b) (Full.ctxOf d ev) ev).2.2.items
        = (C12Out.outEv (outCfg fc) (EpDev.sharedOf c d ev) e ev).2.app.map decF := by
  have hquiet : ∀ ev', (EpDev.sharedOf c d ev').halt = none →
      C12Out.outPre (outCfg fc) (EpDev.sharedOf c d ev') e = e := fun ev' h2 => outPre_quiet _ _ _ h2
  have hnum : (outCfg fc).num = fc.num := rfl
  have hsz : (outCfg fc).size = fc.mps := rfl
  have hdp : (outCfg fc).depth = fc.depth := rfl
  cases ev with
  | token pid addr ep =>
    by_cases haddr : addr = d.address
    · subst haddr
      have hmine : (Full.ctxOf d (.token pid d.address ep)).mine = true := by simp [Full.ctxOf]
      have hq := hquiet (.token pid d.address ep) (by rw [shared_token_mine])
      simp only [Full.epStep, hmine, if_true, C12Out.outEv, hq, Full.outToken]
      simp only [shared_token_mine, true_and, hnum]
      by_cases ho : pid = PID_PING ∧ ep = fc.num
      · have ho' : ep = fc.num ∧ pid = PID_PING := ⟨ho.2, ho.1⟩
        rw [if_pos ho, if_pos ho']
        refine ⟨b, rfl, hr, ?_, rfl⟩
        simp only [EpDev.outPing, hsz, hdp, hr.len]
      · have ho' : ¬(ep = fc.num ∧ pid = PID_PING) := fun x => ho ⟨x.2, x.1⟩
        rw [if_neg ho, if_neg ho']
        exact ⟨b, rfl, hr, by simp⟩
    · have hmine : (Full.ctxOf d (.token pid addr ep)).mine = false := by simp [Full.ctxOf, haddr]
      obtain ⟨s1, s2⟩ := shared_token_other c d pid addr ep haddr
      simp only [Full.epStep, hmine, Bool.false_eq_true, if_false, C12Out.outEv, hquiet _ s2, s1, false_and]
      exact ⟨b, rfl, hr, by simp⟩
  | data pid p ok =>
    obtain ⟨hbytes, hfit⟩ := hf
    have hq := hquiet (.data pid p ok) (by rw [shared_data])
    have hctx : (Full.ctxOf d (.data pid p ok)).tokPid = d.tokPid ∧ (Full.ctxOf d (.data pid p ok)).tokEp = d.tokEp :=
      ⟨rfl, rfl⟩
    simp only [Full.epStep, C12Out.outEv, hq, hctx.1, hctx.2, Full.outData]
    simp only [shared_data, hnum, hsz]
    by_cases ho : d.tokPid = PID_OUT ∧ d.tokEp = fc.num
    · have ho' : d.tokEp = fc.num ∧ d.tokPid = PID_OUT := ⟨ho.2, ho.1⟩
      rw [if_pos ho, if_pos ho']
      have hfit' := hfit ho'
      obtain ⟨r1, r2, r3⟩ := hr
      have hlen : e.fifo.length = b.fifo.length := by rw [← r3, List.length_map]
      have hpt : Full.pidToggle pid = EpDev.pidToggleBit pid := rfl
      simp only [EpDev.outData, hpt, r1]
      by_cases htg : EpDev.pidToggleBit pid = b.expToggle
      · simp only [htg, bne_self_eq_false, Bool.false_eq_true, if_false, beq_self_eq_true, if_true]
        cases ok with
        | false => simp only [Bool.not_false, if_true, Bool.false_eq_true, if_false]; exact ⟨b, rfl, ⟨r1, r2, r3⟩, by simp⟩
        | true =>
          simp only [Bool.not_true, Bool.false_eq_true, if_false, if_true]
          by_cases hemp : p = []
          · subst hemp
            simp only [List.isEmpty_nil, if_true]
            refine ⟨_, rfl, ⟨by simp [r1], ?_, ?_⟩, by simp⟩
            · simp only [List.length_nil, decide_eq_false_iff_not]; omega
            · simp [EpDev.outEntries, r3]
          · have hne : p.isEmpty = false := by cases p <;> simp_all
            have hle : p.length ≤ fc.depth - b.fifo.length := by omega
            simp only [hne, Bool.false_eq_true, if_false, if_pos hle]
            refine ⟨_, rfl, ⟨by simp [r1], rfl, ?_⟩, by simp⟩
            simp only [List.map_append, r3, r2, entries_eq fc.mps b.transferActive p hbytes]
      · have htg' : (EpDev.pidToggleBit pid != b.expToggle) = true := by simpa using htg
        have htg'' : (EpDev.pidToggleBit pid == b.expToggle) = false := by simpa using htg
        simp only [htg', if_true, htg'', Bool.false_eq_true, if_false]
        cases ok <;> exact ⟨b, rfl, ⟨r1, r2, r3⟩, by simp, rfl⟩
    · have ho' : ¬(d.tokEp = fc.num ∧ d.tokPid = PID_OUT) := fun x => ho ⟨x.2, x.1⟩
      rw [if_neg ho, if_neg ho']
      exact ⟨b, rfl, hr, by simp⟩
  | handshake pid =>
    have hh := haltFor_eq c hc d (.handshake pid) (outCfg fc) false
    rw [hnum] at hh
    by_cases hx : EpDev.haltHits (outCfg fc) false (EpDev.sharedOf c d (.handshake pid)) = true
    · have hp := halt_is_ack c d pid _ _ hx
      have hc1 : pid = PID_ACK ∧ Full.haltFor (Full.ctxOf d (.handshake pid)) false fc.num = true := ⟨hp, by rw [hh, hx]⟩
      simp only [Full.epStep, if_pos hc1, C12Out.outEv, C12Out.outPre, hx, if_true]
      exact ⟨_, rfl, ⟨rfl, hr.active, hr.fifo⟩, by simp⟩
    · have hc1 : ¬(pid = PID_ACK ∧ Full.haltFor (Full.ctxOf d (.handshake pid)) false fc.num = true) := by
        rw [hh]; exact fun x => hx x.2
      simp only [Full.epStep, if_neg hc1, C12Out.outEv, C12Out.outPre, hx, if_false, Bool.false_eq_true]
      exact ⟨b, rfl, hr, by simp⟩
  | consume ep n =>
    have hq := hquiet (.consume ep n) (by simp [EpDev.sharedOf, EpDev.haltStrobe])
    simp only [Full.epStep, C12Out.outEv, hq, hnum]
    by_cases hep : ep = fc.num
    · simp only [hep, if_true]
      refine ⟨_, rfl, ⟨hr.toggle, hr.active, ?_⟩, trivial, ?_⟩
      · simp only [← hr.fifo, List.map_drop]
      · simp only [← hr.fifo, List.map_take]
    · simp only [hep, if_false]
      exact ⟨b, rfl, hr, by simp⟩
  | sof f =>
    have hq := hquiet (.sof f) (by simp [EpDev.sharedOf, EpDev.haltStrobe])
    simp only [Full.epStep, C12Out.outEv, hq]; exact ⟨b, rfl, hr, by simp⟩
  | malformed x =>
    have hq := hquiet (.malformed x) (by simp [EpDev.sharedOf, EpDev.haltStrobe])
    simp only [Full.epStep, C12Out.outEv, hq]; exact ⟨b, rfl, hr, by simp⟩
  | quiet =>
    have hq := hquiet .quiet (by simp [EpDev.sharedOf, EpDev.haltStrobe])
    simp only [Full.epStep, C12Out.outEv, hq]; exact ⟨b, rfl, hr, by simp⟩
  | busReset =>
    have hq := hquiet .busReset (by simp [EpDev.sharedOf, EpDev.haltStrobe])
    simp only [Full.epStep, C12Out.outEv, hq]; exact ⟨b, rfl, hr, by simp⟩
  | produce e' x l =>
    have hq := hquiet (.produce e' x l) (by simp [EpDev.sharedOf, EpDev.haltStrobe])
    simp only [Full.epStep, C12Out.outEv, hq]; exact ⟨b, rfl, hr, by simp⟩
  | setSignal e' v =>
    have hq := hquiet (.setSignal e' v) (by simp [EpDev.sharedOf, EpDev.haltStrobe])
    simp only [Full.epStep, C12Out.outEv, hq]; exact ⟨b, rfl, hr, by simp⟩

end LunaVerif.C57Cyc
