import LunaVerif.Lemmas.C20DeviceDecInv
import LunaVerif.Model.Usb2.Handshake
/-!
# C20 — the closed device with control endpoint, setup decoder AND handshake detector

`USBDevice.elaborate` connects `handshake_detector.detected` (the registered strobes of `USBHandshakeDetector`, C04 model
`Handshake.Det.step`, listening to the same UTMI receive bytes) to `handshakes_in` of every endpoint.  `DevDet` adds the
detector to `DevDec`: `handshakes_in.ack` is no longer an input.  The detector strobes `ack` in the cycle after `rx_active`
fell; in that cycle the packet layer's invariant shows nothing owed (the response window was closed while the handshake
packet was being received, mode M0) and no pulse, so the control slot is idle when the strobe is visible: the clause
"no forwarded host ACK while the control slot is armed or sending" of `decOk2` is a THEOREM under `hostOk` (a legal
half-duplex host never sends a handshake while the device's response window is open — which is what `hostOk` says of
every packet).

What remains assumed per cycle is `decOk3`: the legal-host clause on `start_position` (the host does not ask for more
descriptor data after the short packet), the reset sequencer does not transmit, the receive bytes are 8 bits wide.
-/
namespace LunaVerif.DevDet
open LunaVerif LunaVerif.DevCyc LunaVerif.DevCyc.Abs LunaVerif.C20Ctr LunaVerif.DevEp LunaVerif.CtrlCyc LunaVerif.DevCtl
open LunaVerif.DevDec (DI DJ decOk2 decHolds2 suOf xOf dOf ysOf extsD)

structure State where
  d   : DevDec.State
  det : Handshake.Det.State

def init (c : DevDec.Config) : State := ⟨DevDec.init c, Handshake.Det.init⟩

/-- The inputs of `DevDec` in this cycle: `handshakes_in.ack` is the detector's registered strobe. -/
def xIn (S : State) (x : Ext) : Ext := { x with hsAck := S.det.ack }

def step (c : DevDec.Config) (S : State) (x : Ext) (ac : Nat) : State :=
  ⟨DevDec.step c S.d (xIn S x) ac, (Handshake.Det.step S.det x.rx).1⟩

/-- The `DevDec` input history along the run of the device with its handshake detector. -/
def zsOf (c : DevDec.Config) : State → List (Ext × Nat) → List (Ext × Nat)
  | _, [] => []
  | S, (x, ac) :: zs => (xIn S x, ac) :: zsOf c (step c S x ac) zs

/-- The detector parses only while `rx_active`; `ack` is strobed by a parsing detector that sees `rx_active` low. -/
theorem det_facts (s : Handshake.Det.State) (i : Utmi.RxCycle) :
    ((Handshake.Det.step s i).1.fsm ≠ .idle → i.active = true) ∧
    ((Handshake.Det.step s i).1.ack = true → s.fsm ≠ .idle ∧ i.active = false) := by
  cases hf : s.fsm <;> simp only [Handshake.Det.step, hf] <;> cases i.active <;> cases i.valid <;> simp <;>
    (repeat' split) <;> simp

/-- The detector's invariant next to the packet layer's ghost and the control slot's phase. -/
structure K (S : State) (g : Ghost) (q : Phs) : Prop where
  k1 : S.det.fsm ≠ .idle → g.a1 = true
  k2 : S.det.ack = true → q.r = .idle

theorem k_init (c : DevDec.Config) : K (init c) ghostInit phs0 := by
  refine ⟨?_, ?_⟩ <;> simp [init, Handshake.Det.init]

/-- What is still assumed in one cycle: legal-host clause on `start_position`, reset sequencer silent, 8-bit receive
bytes. -/
def decOk3 (c : DevDec.Config) (S : State) (x : Ext) : Bool :=
  (S.d.w.ctl.blk.fsm != .start || decide (S.d.w.ctl.cs.h.startPos < 2 ^ c.dc.blk.img.posW)) && !x.rsValid &&
  decide (x.rx.data < 256)

theorem decOk2_of (c : DevDec.Config) {S : State} {g : Ghost} {q : Phs} {x : Ext} {ac : Nat} (hk : K S g q)
    (h : decOk3 c S x = true) : decOk2 c S.d q (xIn S x) ac = true := by
  simp only [decOk3, Bool.and_eq_true, Bool.or_eq_true, Bool.not_eq_eq_eq_not, Bool.not_true] at h
  obtain ⟨⟨h1, h2⟩, h3⟩ := h
  simp only [decOk2, Bool.and_eq_true, Bool.or_eq_true, beq_iff_eq, Bool.not_eq_eq_eq_not, Bool.not_true]
  refine ⟨⟨⟨?_, h1⟩, h2⟩, h3⟩
  cases ha : S.det.ack with
  | true => exact Or.inl (hk.k2 ha)
  | false =>
    right
    simp [ctrlComb, ctlIn, xIn, ha]

/-! ### Along a history -/

def decHolds3 (c : DevDec.Config) (p : Params) : State → Ghost → Phs → List (Ext × Nat) → Bool
  | _, _, _, [] => true
  | S, g, q, (x, ac) :: zs =>
    let x' := extOf c.dc S.d.w (xOf S.d (xIn S x)) (dOf c S.d (xIn S x) ac)
    decOk3 c S x &&
      decHolds3 c p (step c S x ac)
        (ghostNext p g S.d.w.ep.dev (fullIn c.dc.ep S.d.w.ep x') (DevEp.step c.dc.ep S.d.w.ep x').2)
        (nextPhs p.L c.dc.ep S.d.w.ep x' q) zs

theorem decHolds2_of_k (c : DevDec.Config) (p : Params) (hs : strobes c.dc.ep.dev.tok.timer c.dc.ep.dev.speed = true)
    (hT : delayOf c.dc.ep.dev.tok.timer c.dc.ep.dev.speed + p.L + 2 < p.T) (hne : c.dc.ep.epIn ≠ c.dc.ep.sig.epNum)
    (he : epsOk c.dc) (hL : 3 ≤ p.L) (hfs : c.hs = false) (zs : List (Ext × Nat)) :
    ∀ (S : State) (g : Ghost) (q : Phs) (pty : Nat), Joint c.dc p S.d.w g q pty → DI S.d g pty → DJ c S.d q → K S g q →
      hostHolds c.dc.ep.dev p S.d.w.ep.dev g
        (devIns c.dc.ep S.d.w.ep (extsOf c.dc S.d.w (ysOf c S.d (zsOf c S zs)))) = true →
      decHolds3 c p S g q zs = true → decHolds2 c p S.d g q (zsOf c S zs) = true := by
  induction zs with
  | nil => intros; rfl
  | cons z zs ih =>
    intro S g q pty hJ hi hj hk hh h3
    obtain ⟨x, ac⟩ := z
    simp only [zsOf, ysOf, extsOf, devIns, hostHolds, decHolds3, Bool.and_eq_true] at hh h3
    obtain ⟨hh1, hh2⟩ := hh
    obtain ⟨h31, h32⟩ := h3
    have h2 := decOk2_of c (ac := ac) hk h31
    obtain ⟨_, hJ', hI', hj', hcl⟩ := DevDec.dj_step c p hs hT hne he hL hfs hJ hi hj hh1 h2
    obtain ⟨f1, f2⟩ := det_facts S.det x.rx
    have hk' : K (step c S x ac)
        (ghostNext p g S.d.w.ep.dev
          (fullIn c.dc.ep S.d.w.ep (extOf c.dc S.d.w (xOf S.d (xIn S x)) (dOf c S.d (xIn S x) ac)))
          (DevEp.step c.dc.ep S.d.w.ep (extOf c.dc S.d.w (xOf S.d (xIn S x)) (dOf c S.d (xIn S x) ac))).2)
        (nextPhs p.L c.dc.ep S.d.w.ep (extOf c.dc S.d.w (xOf S.d (xIn S x)) (dOf c S.d (xIn S x) ac)) q) := by
      refine ⟨?_, ?_⟩
      · intro h; exact f1 h
      · intro h
        exact hcl (hJ.good.inv.act (hk.k1 (f2 h).1))
    simp only [zsOf, decHolds2, Bool.and_eq_true]
    exact ⟨h2, ih _ _ _ _ hJ' hI' hj' hk' hh2 h32⟩

/-- The `DevEp` input history of the device with control endpoint, setup decoder and handshake detector. -/
def extsT (c : DevDec.Config) (zs : List (Ext × Nat)) : List Ext := extsD c (zsOf c (init c) zs)

/-- **`decHolds2` reduced to the legal-host / reset-sequencer / byte-width clauses.** -/
theorem decHolds2_of_det (c : DevDec.Config) (p : Params)
    (hs : strobes c.dc.ep.dev.tok.timer c.dc.ep.dev.speed = true)
    (hT : delayOf c.dc.ep.dev.tok.timer c.dc.ep.dev.speed + p.L + 2 < p.T) (hne : c.dc.ep.epIn ≠ c.dc.ep.sig.epNum)
    (he : epsOk c.dc) (hL : 3 ≤ p.L) (hfs : c.hs = false) (zs : List (Ext × Nat))
    (hh : hostHolds c.dc.ep.dev p DevCyc.init ghostInit (devIns c.dc.ep (DevEp.init c.dc.ep) (extsT c zs)) = true)
    (h3 : decHolds3 c p (init c) ghostInit phs0 zs = true) :
    decHolds2 c p (DevDec.init c) ghostInit phs0 (zsOf c (init c) zs) = true :=
  decHolds2_of_k c p hs hT hne he hL hfs zs (init c) ghostInit phs0 0 (joint_init c.dc p) (DevDec.di_init c)
    (DevDec.dj_init c) (k_init c) hh h3

/-- The device with control endpoint, setup decoder and handshake detector never transmits while a received packet is
in progress; of the decoder / detector side only `decHolds3` is assumed. -/
theorem det_closed_tx_never_during_rx (c : DevDec.Config) (p : Params)
    (hs : strobes c.dc.ep.dev.tok.timer c.dc.ep.dev.speed = true)
    (hT : delayOf c.dc.ep.dev.tok.timer c.dc.ep.dev.speed + p.L + 2 < p.T) (hne : c.dc.ep.epIn ≠ c.dc.ep.sig.epNum)
    (he : epsOk c.dc) (hL : 3 ≤ p.L) (hfs : c.hs = false) (zs : List (Ext × Nat))
    (hh : hostHolds c.dc.ep.dev p DevCyc.init ghostInit (devIns c.dc.ep (DevEp.init c.dc.ep) (extsT c zs)) = true)
    (h3 : decHolds3 c p (init c) ghostInit phs0 zs = true) :
    ∀ o ∈ DevEp.run c.dc.ep (DevEp.init c.dc.ep) (extsT c zs), o.txValid = true → o.rxActive = false :=
  DevDec.dec2_closed_tx_never_during_rx c p hs hT hne he hL hfs _ hh (decHolds2_of_det c p hs hT hne he hL hfs zs hh h3)

theorem det_closed_transmitters_exclusive (c : DevDec.Config) (p : Params)
    (hs : strobes c.dc.ep.dev.tok.timer c.dc.ep.dev.speed = true)
    (hT : delayOf c.dc.ep.dev.tok.timer c.dc.ep.dev.speed + p.L + 2 < p.T) (hne : c.dc.ep.epIn ≠ c.dc.ep.sig.epNum)
    (he : epsOk c.dc) (hL : 3 ≤ p.L) (hfs : c.hs = false) (zs : List (Ext × Nat))
    (hh : hostHolds c.dc.ep.dev p DevCyc.init ghostInit (devIns c.dc.ep (DevEp.init c.dc.ep) (extsT c zs)) = true)
    (h3 : decHolds3 c p (init c) ghostInit phs0 zs = true) :
    ∀ o ∈ DevEp.run c.dc.ep (DevEp.init c.dc.ep) (extsT c zs), ¬ (o.hsValid = true ∧ o.genValid = true) :=
  DevDec.dec2_closed_transmitters_exclusive c p hs hT hne he hL hfs _ hh
    (decHolds2_of_det c p hs hT hne he hL hfs zs hh h3)

theorem det_closed_tx_only_in_response_window (c : DevDec.Config) (p : Params)
    (hs : strobes c.dc.ep.dev.tok.timer c.dc.ep.dev.speed = true)
    (hT : delayOf c.dc.ep.dev.tok.timer c.dc.ep.dev.speed + p.L + 2 < p.T) (hne : c.dc.ep.epIn ≠ c.dc.ep.sig.epNum)
    (he : epsOk c.dc) (hL : 3 ≤ p.L) (hfs : c.hs = false) (zs : List (Ext × Nat))
    (hh : hostHolds c.dc.ep.dev p DevCyc.init ghostInit (devIns c.dc.ep (DevEp.init c.dc.ep) (extsT c zs)) = true)
    (h3 : decHolds3 c p (init c) ghostInit phs0 zs = true) :
    ∀ go ∈ traceG c.dc.ep.dev p DevCyc.init ghostInit (devIns c.dc.ep (DevEp.init c.dc.ep) (extsT c zs)),
      go.2.txValid = true → go.1.win ≠ .closed :=
  DevDec.dec2_closed_tx_only_in_response_window c p hs hT hne he hL hfs _ hh
    (decHolds2_of_det c p hs hT hne he hL hfs zs hh h3)

end LunaVerif.DevDet
