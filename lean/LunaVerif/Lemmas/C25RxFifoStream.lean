import LunaVerif.Lemmas.C25RxFifo
/-!
# C25: `AsyncFIFOBuffered` over a stream of bit times

`fifo_block_write` / `fifo_block_idle` (finite checks with tagged data, lifted by `runFifo_mapData`): one write in cycle 0
(flags) or 2 (payload) of a bit time and five bit times without a write; `fifo_stream`: over a write stream in which
every write is followed by five bit times without one (`SpacedB`), what the `usb` side samples, one sample per bit time,
is the write stream delayed by `delay` = 3 or 4 bit times (depending on where in the bit time the `usb` edge falls), and
the FIFO ends empty and settled.
-/
set_option linter.unusedSimpArgs false
namespace LunaVerif.FsRxCdc

/-- what the `usb` side gets out of a sample: the data if `r_rdy` -/
def rdyData (x : Bool × Nat) : Option Nat := if x.1 then some x.2 else none

/-- the four cycles of a bit time with a write `w` in cycle `off` (0: flags, 2: payload) -/
def blockAt (off : Nat) (w : Option Nat) : List (Option Nat) :=
  if off == 0 then [w, none, none, none] else [none, none, w, none]

/-- number of bit times after which a write in cycle `off` of a bit time shows at a `usb` edge: the `usb` edge ends
cycle `(φ - c) mod 4` of every bit time (`c` = cycle number at the start of the bit time) -/
def delay (off c φ : Nat) : Nat := if (φ + 4 - c) % 4 ≥ off + 1 then 3 else 4

theorem tagged_block_write : ∀ (p : Fin 8) (c φ : Fin 4) (o : Fin 2),
    (runFifo φ.val c.val (settled p.val [1, 2, 3, 4]) (blockAt (2 * o.val) (some 5) ++ List.replicate 20 none)).1 =
      settled ((p.val + 1) % 8) ([1, 2, 3, 4].set (p.val % 4) 5) ∧
    (runFifo φ.val c.val (settled p.val [1, 2, 3, 4]) (blockAt (2 * o.val) (some 5) ++ List.replicate 20 none)).2.map rdyData =
      List.replicate (delay (2 * o.val) c.val φ.val) none ++ [some 5] ++
        List.replicate (5 - delay (2 * o.val) c.val φ.val) none := by
  decide +kernel

theorem tagged_block_idle : ∀ (p : Fin 8) (c φ : Fin 4),
    (runFifo φ.val c.val (settled p.val [1, 2, 3, 4]) (List.replicate 4 none)).1 = settled p.val [1, 2, 3, 4] ∧
    (runFifo φ.val c.val (settled p.val [1, 2, 3, 4]) (List.replicate 4 none)).2.map rdyData = [none] := by
  decide +kernel

theorem rdyData_map (f : Nat → Nat) (l : List (Bool × Nat)) :
    (l.map (fun x => (x.1, f x.2))).map rdyData = (l.map rdyData).map (Option.map f) := by
  induction l with
  | nil => rfl
  | cons x xs ih =>
    simp only [List.map] at ih ⊢
    rw [ih]
    obtain ⟨b, v⟩ := x
    cases b <;> rfl

theorem mapData_settled4 (f : Nat → Nat) (p : Nat) (hp : p < 8) (a b c d : Nat) :
    mapData f (settled p [a, b, c, d]) = settled p [f a, f b, f c, f d] := by
  have : p = 0 ∨ p = 1 ∨ p = 2 ∨ p = 3 ∨ p = 4 ∨ p = 5 ∨ p = 6 ∨ p = 7 := by omega
  rcases this with h | h | h | h | h | h | h | h <;> subst h <;> rfl

theorem len4 (mem : List Nat) (h : mem.length = 4) : ∃ a b c d, mem = [a, b, c, d] := by
  match mem, h with
  | [a, b, c, d], _ => exact ⟨a, b, c, d, rfl⟩

/-- **one write per FIFO and bit time**: a write in cycle `off` (0 or 2) of a bit time into an empty, settled FIFO,
followed by five bit times without a write: the `usb` side sees nothing for `delay` bit times, then the data once, and
the FIFO is settled again. -/
theorem fifo_block_write (p c φ o : Nat) (hp : p < 8) (hc : c < 4) (hφ : φ < 4) (ho : o < 2) (mem : List Nat)
    (hm : mem.length = 4) (d : Nat) :
    (runFifo φ c (settled p mem) (blockAt (2 * o) (some d) ++ List.replicate 20 none)).1 =
      settled ((p + 1) % 8) (mem.set (p % 4) d) ∧
    (runFifo φ c (settled p mem) (blockAt (2 * o) (some d) ++ List.replicate 20 none)).2.map rdyData =
      List.replicate (delay (2 * o) c φ) none ++ [some d] ++ List.replicate (5 - delay (2 * o) c φ) none := by
  obtain ⟨m0, m1, m2, m3, rfl⟩ := len4 mem hm
  let f : Nat → Nat := fun i => [0, m0, m1, m2, m3, d].getD i 0
  have h0 : f 0 = 0 := rfl
  obtain ⟨t1, t2⟩ := tagged_block_write ⟨p, hp⟩ ⟨c, hc⟩ ⟨φ, hφ⟩ ⟨o, ho⟩
  simp only [Fin.val_mk] at t1 t2
  have hmap := runFifo_mapData f h0 φ (blockAt (2 * o) (some 5) ++ List.replicate 20 none) c (settled p [1, 2, 3, 4])
  have hs : mapData f (settled p [1, 2, 3, 4]) = settled p [m0, m1, m2, m3] := mapData_settled4 f p hp 1 2 3 4
  have hw : (blockAt (2 * o) (some 5) ++ List.replicate 20 none).map (Option.map f) =
      blockAt (2 * o) (some d) ++ List.replicate 20 none := by
    have : o = 0 ∨ o = 1 := by omega
    rcases this with h | h <;> subst h <;> simp [blockAt, f]
  rw [hw, hs] at hmap
  rw [hmap, t1]
  constructor
  · have : p = 0 ∨ p = 1 ∨ p = 2 ∨ p = 3 ∨ p = 4 ∨ p = 5 ∨ p = 6 ∨ p = 7 := by omega
    rcases this with h | h | h | h | h | h | h | h <;> subst h <;> rfl
  · simp only []
    rw [rdyData_map, t2]
    simp [f]

theorem fifo_block_idle (p c φ : Nat) (hp : p < 8) (hc : c < 4) (hφ : φ < 4) (mem : List Nat) (hm : mem.length = 4) :
    (runFifo φ c (settled p mem) (List.replicate 4 none)).1 = settled p mem ∧
    (runFifo φ c (settled p mem) (List.replicate 4 none)).2.map rdyData = [none] := by
  obtain ⟨m0, m1, m2, m3, rfl⟩ := len4 mem hm
  let f : Nat → Nat := fun i => [0, m0, m1, m2, m3].getD i 0
  have h0 : f 0 = 0 := rfl
  obtain ⟨t1, t2⟩ := tagged_block_idle ⟨p, hp⟩ ⟨c, hc⟩ ⟨φ, hφ⟩
  simp only [Fin.val_mk] at t1 t2
  have hmap := runFifo_mapData f h0 φ (List.replicate 4 none) c (settled p [1, 2, 3, 4])
  have hs : mapData f (settled p [1, 2, 3, 4]) = settled p [m0, m1, m2, m3] := mapData_settled4 f p hp 1 2 3 4
  have hw : (List.replicate 4 (none : Option Nat)).map (Option.map f) = List.replicate 4 none := by simp
  rw [hw, hs] at hmap
  rw [hmap, t1, hs]
  refine ⟨rfl, ?_⟩
  simp only []
  rw [rdyData_map, t2]
  rfl

/-! ### a stream of bit times -/

/-- the write stream of one FIFO, cycle by cycle, from its per-bit-time writes -/
def flat (off : Nat) : List (Option Nat) → List (Option Nat)
  | [] => []
  | w :: ws => blockAt off w ++ flat off ws

/-- every write is followed by at least five bit times without one -/
def SpacedB : List (Option Nat) → Bool
  | [] => true
  | none :: r => SpacedB r
  | some _ :: none :: none :: none :: none :: none :: r => SpacedB r
  | _ => false

theorem runFifo_append (φ : Nat) (a b : List (Option Nat)) : ∀ (c : Nat) (s : Fifo), c < 4 →
    runFifo φ c s (a ++ b) =
      ((runFifo φ ((c + a.length) % 4) (runFifo φ c s a).1 b).1,
       (runFifo φ c s a).2 ++ (runFifo φ ((c + a.length) % 4) (runFifo φ c s a).1 b).2) := by
  induction a with
  | nil => intro c s hc; simp [runFifo, Nat.mod_eq_of_lt hc]
  | cons w ws ih =>
    intro c s hc
    have := ih ((c + 1) % 4) (s.next w.isSome (w.getD 0) (c == φ)) (Nat.mod_lt _ (by omega))
    have hcc : ((c + 1) % 4 + ws.length) % 4 = (c + (ws.length + 1)) % 4 := by omega
    simp only [List.cons_append, runFifo, this, List.length_cons, hcc, List.append_assoc]

theorem delay_cases (off c φ : Nat) : delay off c φ = 3 ∨ delay off c φ = 4 := by
  unfold delay; split <;> simp

/-- **the FIFO delays a spaced write stream by `delay` bit times** (and is empty and settled at the end) -/
theorem fifo_stream (φ c o : Nat) (hc : c < 4) (hφ : φ < 4) (ho : o < 2) (W : List (Option Nat)) :
    SpacedB W = true → ∀ (p : Nat) (mem : List Nat), p < 8 → mem.length = 4 →
    (∃ p' mem', p' < 8 ∧ mem'.length = 4 ∧ (runFifo φ c (settled p mem) (flat (2 * o) W)).1 = settled p' mem') ∧
    (runFifo φ c (settled p mem) (flat (2 * o) W)).2.map rdyData =
      (List.replicate (delay (2 * o) c φ) none ++ W).take W.length := by
  fun_induction SpacedB W with
  | case1 => intro _ p mem hp hm; exact ⟨⟨p, mem, hp, hm, rfl⟩, by simp [flat, runFifo]⟩
  | case2 r ih =>
    intro hs p mem hp hm
    obtain ⟨b1, b2⟩ := fifo_block_idle p c φ hp hc hφ mem hm
    obtain ⟨i1, i2⟩ := ih hs p mem hp hm
    have hb : blockAt (2 * o) none = List.replicate 4 none := by
      have : o = 0 ∨ o = 1 := by omega
      rcases this with h | h <;> subst h <;> rfl
    have hcc : (c + (List.replicate 4 (none : Option Nat)).length) % 4 = c := by simp; omega
    simp only [flat, hb]
    rw [runFifo_append φ _ _ c _ hc, hcc, b1]
    refine ⟨i1, ?_⟩
    simp only [List.map_append, b2, i2, List.length_cons]
    rcases delay_cases (2 * o) c φ with h | h <;> rw [h] <;> simp [List.replicate, List.take_succ_cons]
  | case3 d r ih =>
    intro hs p mem hp hm
    obtain ⟨b1, b2⟩ := fifo_block_write p c φ o hp hc hφ ho mem hm d
    obtain ⟨i1, i2⟩ := ih hs ((p + 1) % 8) (mem.set (p % 4) d) (Nat.mod_lt _ (by omega)) (by simp [hm])
    have hb : blockAt (2 * o) none = List.replicate 4 none := by
      have : o = 0 ∨ o = 1 := by omega
      rcases this with h | h <;> subst h <;> rfl
    have hfl : flat (2 * o) (some d :: none :: none :: none :: none :: none :: r) =
        (blockAt (2 * o) (some d) ++ List.replicate 20 none) ++ flat (2 * o) r := by
      simp only [flat, hb, List.replicate, List.append_assoc, List.cons_append, List.nil_append]
    have hcc : (c + (blockAt (2 * o) (some d) ++ List.replicate 20 none).length) % 4 = c := by
      have : (blockAt (2 * o) (some d)).length = 4 := by unfold blockAt; split <;> rfl
      simp [this]; omega
    rw [hfl, runFifo_append φ _ _ c _ hc, hcc, b1]
    refine ⟨i1, ?_⟩
    simp only [List.map_append, b2, i2, List.length_cons]
    rcases delay_cases (2 * o) c φ with h | h <;> rw [h] <;> simp [List.replicate, List.take_succ_cons]
  | case4 W h1 h2 h3 => intro hs; simp at hs

end LunaVerif.FsRxCdc
