import LunaVerif.Model.Usb2.IsoStreamOut
/-!
# C16 — raw receive histories of the isochronous OUT endpoint: `LegalRx`, and the detector by phase

`IPhase` / `IPhase.step` / `LegalRx`: decidable acceptor of cycle-level input histories.  Data packets have the
shape `USBDataPacketReceiver` produces (bytes on `valid ∧ next`, at most `max_packet_size`, exactly one of
`rx_complete` / `rx_invalid` in the cycle `valid` falls), the tokenizer fields are stable from a packet's
first byte until two cycles after `valid` fell (when the detector's strobes have passed), and no byte
arrives in those two cycles.  Everything else is free: consumer `ready`, token fields (other endpoints,
non-OUT tokens), CRC outcome, wait cycles, zero-length packets.
-/
namespace LunaVerif.IsoStreamOut
open LunaVerif

def isByte (i : In) : Bool := i.rx.valid && i.rx.next
def strobeAny (i : In) : Bool := i.rx.completeIn || i.rx.invalidIn
def strobeOne (i : In) : Bool := i.rx.completeIn != i.rx.invalidIn
def targets (c : Config) (ep : Nat) (io : Bool) : Bool := ep == c.epNum && io

/-- `sent` = bytes of the running packet the detector has passed on, `now` = the byte it presents in this
cycle, `buf` = the byte it holds back -/
inductive IPhase where
  | idle
  | rx (ep : Nat) (io : Bool) (sent : List Nat) (now : Option Nat) (buf : Nat)
  | finByte (ep : Nat) (io : Bool) (sent : List Nat) (x : Nat) (ok : Bool)     -- `valid` fell in the previous cycle
  | finStrobe (ep : Nat) (io : Bool) (bytes : List Nat) (ok : Bool)           -- the detector shows the strobe
deriving DecidableEq, Repr

def stable (ep : Nat) (io : Bool) (i : In) : Bool := i.tokEp == ep && i.tokIsOut == io

def IPhase.step (c : Config) : IPhase → In → Option IPhase
  | .idle, i =>
    if isByte i then
      (if !strobeAny i && decide (1 ≤ c.mps) then some (.rx i.tokEp i.tokIsOut [] none i.rx.payload) else none)
    else some .idle
  | .rx ep io sent now buf, i =>
    if !stable ep io i then none
    else if isByte i then
      (if !strobeAny i && decide (sent.length + now.toList.length + 2 ≤ c.mps)
        then some (.rx ep io (sent ++ now.toList) (some buf) i.rx.payload) else none)
    else if i.rx.valid then
      (if !strobeAny i then some (.rx ep io (sent ++ now.toList) none buf) else none)
    else (if strobeOne i then some (.finByte ep io (sent ++ now.toList) buf i.rx.completeIn) else none)
  | .finByte ep io sent x ok, i =>
    if !stable ep io i || isByte i then none else some (.finStrobe ep io (sent ++ [x]) ok)
  | .finStrobe ep io _ _, i =>
    if !stable ep io i || isByte i then none else some .idle

def IPhase.run (c : Config) : IPhase → List In → Option IPhase
  | p, [] => some p
  | p, i :: is => match p.step c i with
    | some p' => IPhase.run c p' is
    | none => none

/-- **LegalRx**: the history is accepted and ends between packets. -/
def LegalRx (c : Config) (ins : List In) : Bool :=
  match IPhase.run c .idle ins with
  | some .idle => true
  | _ => false

/-! ### Inversion -/

theorem stable_inv {ep : Nat} {io : Bool} {i : In} (h : stable ep io i = true) : i.tokEp = ep ∧ i.tokIsOut = io := by
  simp only [stable] at h
  simpa using h

theorem step_idle_inv {c : Config} {i : In} {p' : IPhase} (h : IPhase.step c .idle i = some p') :
    (isByte i = true ∧ strobeAny i = false ∧ 1 ≤ c.mps ∧ p' = .rx i.tokEp i.tokIsOut [] none i.rx.payload) ∨
    (isByte i = false ∧ p' = .idle) := by
  simp only [IPhase.step] at h
  repeat' split at h
  all_goals simp_all

theorem step_rx_inv {c : Config} {ep : Nat} {io : Bool} {sent : List Nat} {now : Option Nat} {buf : Nat} {i : In}
    {p' : IPhase} (h : IPhase.step c (.rx ep io sent now buf) i = some p') :
    stable ep io i = true ∧
    ((isByte i = true ∧ strobeAny i = false ∧ sent.length + now.toList.length + 2 ≤ c.mps ∧
        p' = .rx ep io (sent ++ now.toList) (some buf) i.rx.payload)
     ∨ (isByte i = false ∧ i.rx.valid = true ∧ strobeAny i = false ∧ p' = .rx ep io (sent ++ now.toList) none buf)
     ∨ (isByte i = false ∧ i.rx.valid = false ∧ strobeOne i = true ∧
        p' = .finByte ep io (sent ++ now.toList) buf i.rx.completeIn)) := by
  simp only [IPhase.step] at h
  repeat' split at h
  all_goals simp_all

theorem step_finByte_inv {c : Config} {ep : Nat} {io : Bool} {sent : List Nat} {x : Nat} {ok : Bool} {i : In}
    {p' : IPhase} (h : IPhase.step c (.finByte ep io sent x ok) i = some p') :
    stable ep io i = true ∧ isByte i = false ∧ p' = .finStrobe ep io (sent ++ [x]) ok := by
  simp only [IPhase.step] at h
  repeat' split at h
  all_goals simp_all

theorem step_finStrobe_inv {c : Config} {ep : Nat} {io : Bool} {bytes : List Nat} {ok : Bool} {i : In}
    {p' : IPhase} (h : IPhase.step c (.finStrobe ep io bytes ok) i = some p') :
    stable ep io i = true ∧ isByte i = false ∧ p' = .idle := by
  simp only [IPhase.step] at h
  repeat' split at h
  all_goals simp_all

/-! ### The boundary detector by phase -/

def View (p : IPhase) (o : BoundaryDetector.Out) : Prop :=
  match p with
  | .idle => o.next = false ∧ o.completeOut = false ∧ o.invalidOut = false
  | .rx _ _ sent now _ =>
    o.completeOut = false ∧ o.invalidOut = false ∧
    (match now with
     | none => o.next = false
     | some x => o.next = true ∧ o.valid = true ∧ o.payload = x ∧ o.first = sent.isEmpty ∧ o.last = false)
  | .finByte _ _ sent x _ =>
    o.completeOut = false ∧ o.invalidOut = false ∧
    o.next = true ∧ o.valid = true ∧ o.payload = x ∧ o.first = sent.isEmpty ∧ o.last = true
  | .finStrobe _ _ _ ok => o.next = false ∧ o.completeOut = ok ∧ o.invalidOut = !ok

def DetRel (p : IPhase) (d : BoundaryDetector.State) : Prop :=
  View p d.out ∧
  (match p with
   | .idle | .finStrobe .. => d.fsm = .waitFirst
   | .rx _ _ sent now buf =>
     d.fsm = .receive ∧ d.bufferedByte = buf ∧ d.isFirstByte = (sent.isEmpty && now.isNone) ∧
     d.bufferedComplete = false ∧ d.bufferedInvalid = false ∧ d.out.last = false
   | .finByte _ _ _ _ ok => d.fsm = .strobes ∧ d.bufferedComplete = ok ∧ d.bufferedInvalid = !ok)

theorem detRel_init : DetRel .idle BoundaryDetector.init := by
  simp [DetRel, View, BoundaryDetector.init]

theorem detRel_step {c : Config} {p p' : IPhase} {d : BoundaryDetector.State} {i : In}
    (h : DetRel p d) (hs : p.step c i = some p') : DetRel p' (BoundaryDetector.step d i.rx) := by
  obtain ⟨fsm, out, bb, fb, bc, bi⟩ := d
  cases p with
  | idle =>
    obtain ⟨_, hf⟩ := h
    simp only at hf; subst hf
    rcases step_idle_inv hs with ⟨hb, _, _, rfl⟩ | ⟨hb, rfl⟩ <;>
      (simp only [isByte] at hb; simp [DetRel, View, BoundaryDetector.step, hb])
  | rx ep io sent now buf =>
    obtain ⟨hv, hf, hbb, hfb, hbc, hbi, hl⟩ := h
    simp only at hf hbb hfb hbc hbi hl; subst hf hbb hfb hbc hbi
    obtain ⟨_, h3⟩ := step_rx_inv hs
    simp only [isByte, strobeAny, strobeOne] at h3
    simp only [View] at hv
    rcases h3 with ⟨hb, hst, _, rfl⟩ | ⟨hb, hvl, hst, rfl⟩ | ⟨hb, hvl, hst, rfl⟩
    · have : i.rx.valid = true := by simp_all
      cases now <;> simp_all [DetRel, View, BoundaryDetector.step]
    · cases now <;> simp_all [DetRel, View, BoundaryDetector.step]
    · cases now <;> simp_all [DetRel, View, BoundaryDetector.step] <;> grind
  | finByte ep io sent x ok =>
    obtain ⟨_, _, rfl⟩ := step_finByte_inv hs
    obtain ⟨hv, hf, hbc, hbi⟩ := h
    simp only at hf hbc hbi; subst hf hbc hbi
    simp [DetRel, View, BoundaryDetector.step]
  | finStrobe ep io bytes ok =>
    obtain ⟨_, hf⟩ := h
    simp only at hf; subst hf
    obtain ⟨_, hb, rfl⟩ := step_finStrobe_inv hs
    simp only [isByte] at hb
    simp [DetRel, View, BoundaryDetector.step, hb]

end LunaVerif.IsoStreamOut
