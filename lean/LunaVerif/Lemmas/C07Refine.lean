import LunaVerif.Lemmas.C07CycSteps
import LunaVerif.Lemmas.DeviceSteps
/-!
# `cycle_refines_event` — the cycle-level composition simulates the event-level model

The event-level model `Device.core` (Model/Device/Control.lean) consumes one host event; the cycle-level model
`CtrlCyc.step` (Model/Usb2/ControlCyc.lean) consumes one clock cycle.  `expand d e g` turns the event `e`, received
in the event-level state `d`, into the clock cycles the control endpoint sees: idle cycles (`Gaps`, of arbitrary
lengths, with arbitrary values on every input the expansion does not determine) around the strobes of the
abstracted neighbours, which are produced according to their contracts:

  * token detector (C04/C05): a token for the device's address updates `pid` / `endpoint` (and the four flags
    decoded from the pid) in the cycle it strobes `new_token`, and strobes `ready_for_response` later; a token for
    another address clears the pid and strobes nothing;
  * setup decoder (C06): `packet.received` is strobed, with the new packet fields, exactly for a data packet the
    event-level model accepts as SETUP data (good CRC, decoder waiting, 8 bytes, pid still SETUP); `ack` follows;
  * device core: `rx_ready_for_response` after every good data packet, `handshakes_in.ack` for a host ACK.

Theorem `cycle_refines_event`: running the cycle-level composition over the expansion yields the event-level state
(`Rel`), the event-level response (`cycResp`) and the event-level address / configuration (device.py's two registers
driven by the strobes, `regsAfter`) — for EVERY event, from EVERY related pair of states in which the standard
handler is not in one of its three streaming states (`NoStream`: GET_STATUS, GET_CONFIGURATION, GET_DESCRIPTOR, whose
answers come from the abstracted transmitter / descriptor handler).  `cycle_refines_event_run` lifts it to event
histories.  This covers complete SET_ADDRESS, SET_CONFIGURATION, CLEAR_FEATURE, unsupported and non-standard
transfers with arbitrary foreign traffic in between, abandoned stages and restarts.
-/
namespace LunaVerif.CtrlCyc
open LunaVerif.Device

/-! ### Relation between the two state spaces -/

/-- The handler registers agree; `start_position` / `tx_data_pid` may lag behind in IDLE (the gateware resets
them in the first IDLE cycle, the event-level model when it enters IDLE). -/
structure HRel (d : DevState) (h : StdState) : Prop where
  hstate : h.hstate = d.hstate
  eack   : h.expectingAck = d.expectingAck
  regs   : d.hstate ≠ .idle → h.startPos = d.startPos ∧ h.txPid = d.txPid

structure Rel (d : DevState) (cs : CycState) : Prop where
  stage : cs.stage = d.stage
  h     : HRel d cs.h

/-- The standard handler is not in a state whose answer is streamed by an abstracted submodule. -/
def NoStream (d : DevState) : Prop :=
  d.hstate ≠ .getStatus ∧ d.hstate ≠ .getConfiguration ∧ d.hstate ≠ .getDescriptor

instance (d : DevState) : Decidable (NoStream d) := by unfold NoStream; infer_instance

/-! ### What a handler's outputs mean on the bus -/

def hResp (o : HOut) : Resp :=
  if o.ack then .hs PID_ACK
  else if o.stall then .hs PID_STALL
  else if o.txValid && o.txLast && !o.txFirst then .data (if o.txDataPid then PID_DATA1 else PID_DATA0) []
  else .none

/-- No strobe towards the device core. -/
def HQuiet (o : HOut) : Prop := o.addressChanged = false ∧ o.configChanged = false

/-! ### Handler level -/

/-- The inputs of the handler in a cycle without `received`: arbitrary stream inputs `n`. -/
def hin (d : DevState) (n : HIn) (dr sr ack : Bool) : HIn :=
  { n with su := d.setup, received := false, dataRequested := dr, statusRequested := sr, hsAck := ack,
           activeConfig := d.config }

theorem request_noextra (c : DevConfig) (hx : c.extra = []) (s : DevState) (r : Req) :
    request c s r = if s.setup.type = TYPE_STANDARD then stdRequest c s r else (s, .hs PID_STALL) := by
  unfold request owner extraClaims
  by_cases hty : s.setup.type = TYPE_STANDARD <;> simp [hx, hty]

/-- Idle cycle of the handler. -/
theorem h_quiet (cyc : Cfg) (d : DevState) (h : StdState) (n : HIn) (hr : HRel d h) (hns : NoStream d) :
    HRel d (stdStep cyc h (hin d n false false false)).1 ∧
    hResp (muxOut (stdStep cyc h (hin d n false false false)).2 (hin d n false false false)) = .none ∧
    HQuiet (muxOut (stdStep cyc h (hin d n false false false)).2 (hin d n false false false)) := by
  obtain ⟨h1, h2, h3⟩ := hr
  obtain ⟨n1, n2, n3⟩ := hns
  obtain ⟨hst, sp, tp, ea⟩ := h
  simp only at h1 h2 h3
  subst h1 h2
  by_cases hty : d.setup.type = TYPE_STANDARD
  · cases hd : d.hstate <;>
      simp_all [stdStep, hin, stdComb, regWriteZlp, handleNewSetup, stdStateBody, muxOut, hResp, HQuiet] <;>
      constructor <;> simp_all
  · simp_all [stdStep, hin, muxOut, fallbackOut, hResp, HQuiet]
    constructor <;> simp_all

/-- The cycle in which the control endpoint asks for the data stage (`r = .data`) or the status stage. -/
theorem h_req (c : DevConfig) (hx : c.extra = []) (cyc : Cfg) (d : DevState) (h : StdState) (n : HIn) (r : Req)
    (hr : HRel d h) (hns : NoStream d) :
    HRel (request c d r).1 (stdStep cyc h (hin d n (r == .data) (r == .status) false)).1 ∧
    hResp (muxOut (stdStep cyc h (hin d n (r == .data) (r == .status) false)).2
      (hin d n (r == .data) (r == .status) false)) = (request c d r).2 ∧
    HQuiet (muxOut (stdStep cyc h (hin d n (r == .data) (r == .status) false)).2
      (hin d n (r == .data) (r == .status) false)) := by
  obtain ⟨h1, h2, h3⟩ := hr
  obtain ⟨n1, n2, n3⟩ := hns
  obtain ⟨hst, sp, tp, ea⟩ := h
  simp only at h1 h2 h3
  subst h1 h2
  rw [request_noextra c hx]
  by_cases hty : d.setup.type = TYPE_STANDARD
  · cases hd : d.hstate <;> cases r <;>
      simp_all [stdStep, hin, stdComb, regWriteZlp, handleNewSetup, stdStateBody, muxOut, hResp, HQuiet,
        stdRequest, toIdle, dataPid] <;>
      (try constructor) <;> simp_all
  · cases r <;>
      simp_all [stdStep, hin, muxOut, fallbackOut, hResp, HQuiet] <;>
      constructor <;> simp_all

/-- The event-level reaction to a host ACK that is forwarded to the handlers. -/
def ackState (d : DevState) : DevState := if d.setup.type = TYPE_STANDARD then stdAck d else d

/-- The cycle in which a host ACK is forwarded to the handler: it strobes exactly the register the event-level
model writes, with the value it writes. -/
theorem h_ack (cyc : Cfg) (d : DevState) (h : StdState) (n : HIn) (hr : HRel d h) (hns : NoStream d) :
    HRel (ackState d) (stdStep cyc h (hin d n false false true)).1 ∧
    hResp (muxOut (stdStep cyc h (hin d n false false true)).2 (hin d n false false true)) = .none ∧
    (let o := muxOut (stdStep cyc h (hin d n false false true)).2 (hin d n false false true)
     (if o.addressChanged then o.newAddress else d.address) = (ackState d).address ∧
     (if o.configChanged then o.newConfig else d.config) = (ackState d).config) := by
  obtain ⟨h1, h2, h3⟩ := hr
  obtain ⟨n1, n2, n3⟩ := hns
  obtain ⟨hst, sp, tp, ea⟩ := h
  simp only at h1 h2 h3
  subst h1 h2
  unfold ackState
  by_cases hty : d.setup.type = TYPE_STANDARD
  · cases hd : d.hstate <;>
      simp_all [stdStep, hin, stdComb, regWriteZlp, handleNewSetup, stdStateBody, muxOut, hResp, stdAck, toIdle] <;>
      (try constructor) <;> simp_all
  · simp_all [stdStep, hin, muxOut, fallbackOut, hResp]
    constructor <;> simp_all

/-- The event-level handler registers after a SETUP packet has been latched. -/
def recvState (d : DevState) (su : Setup) : DevState :=
  if su.type = TYPE_STANDARD then
    { d with setup := su, hstate := dispatch su.request, startPos := 0, txPid := true }
  else { d with setup := su }

/-- The cycle in which the setup decoder reports a new SETUP packet `su`. -/
theorem h_recv (cyc : Cfg) (d : DevState) (h : StdState) (n : HIn) (su : Setup) (hr : HRel d h) (hns : NoStream d) :
    let hi : HIn := { n with su := su, received := true, dataRequested := false, statusRequested := false, hsAck := false }
    HRel (recvState d su) (stdStep cyc h hi).1 ∧ hResp (muxOut (stdStep cyc h hi).2 hi) = .none ∧
    HQuiet (muxOut (stdStep cyc h hi).2 hi) := by
  obtain ⟨h1, h2, h3⟩ := hr
  obtain ⟨n1, n2, n3⟩ := hns
  obtain ⟨hst, sp, tp, ea⟩ := h
  simp only at h1 h2 h3
  subst h1 h2
  unfold recvState
  by_cases hty : su.type = TYPE_STANDARD
  · cases hd : d.hstate <;>
      simp_all [stdStep, stdComb, regWriteZlp, handleNewSetup, stdStateBody, muxOut, hResp, HQuiet] <;>
      (try constructor) <;> simp_all
  · simp_all [stdStep, muxOut, fallbackOut, hResp, HQuiet]
    constructor <;> simp_all

/-! ### Cycle level: the inputs of a cycle, seen from the event-level state -/

/-- The event-level model is about endpoint 0. -/
def cfgOf (c : DevConfig) : Cfg := { epNum := 0, maxPacket := c.maxPacket }

/-- A cycle without any strobe while the event-level state is `d`: the token detector shows the last token
(the four flags decode its pid), the setup decoder shows the latched packet, the device core its configuration.
Everything else (`tx.ready`, the outputs of the descriptor handler and of the transmitter) is taken from the
arbitrary record `n`. -/
def envIn (d : DevState) (n : CycIn) : CycIn :=
  { n with
    tokEp := d.tokEp, isIn := d.tokPid == PID_IN, isOut := d.tokPid == PID_OUT,
    isSetup := d.tokPid == PID_SETUP, isPing := d.tokPid == PID_PING,
    newToken := false, readyForResponse := false, rxReady := false, hsAck := false,
    activeConfig := d.config, received := false, sdAck := false, su := d.setup }

def noiseH (n : CycIn) : HIn :=
  { txReady := n.txReady, dValid := n.dValid, dFirst := n.dFirst, dLast := n.dLast, dPayload := n.dPayload,
    dStall := n.dStall, tValid := n.tValid, tFirst := n.tFirst, tLast := n.tLast, tPayload := n.tPayload }

/-- What one cycle's outputs mean on the bus (the handshake generator / transmitter of the device core). -/
def outResp (o : CycOut) : Resp :=
  if o.ack then .hs PID_ACK
  else if o.stall then .hs PID_STALL
  else if o.txValid && o.txLast && !o.txFirst then .data (if o.txPidToggle = 1 then PID_DATA1 else PID_DATA0) []
  else .none

theorem outResp_mk (a p : Bool) (sel : HOut) (cc : CtrlComb) (ho : HOut) :
    outResp { ack := a || sel.ack || p, nak := false, stall := sel.stall,
              txValid := sel.txValid, txFirst := sel.txFirst, txLast := sel.txLast, txPayload := sel.txPayload,
              txPidToggle := if sel.txDataPid then 1 else 0,
              addressChanged := sel.addressChanged, newAddress := sel.newAddress,
              configChanged := sel.configChanged, newConfig := sel.newConfig,
              cehEnable := sel.cehEnable, cehDirection := sel.cehDirection, cehNumber := sel.cehNumber,
              ctl := cc, h := ho } =
      if (a || p) = true then .hs PID_ACK else hResp sel := by
  simp only [outResp, hResp]
  cases a <;> cases p <;> cases sel.ack <;> cases sel.txDataPid <;> simp

theorem step_outResp (c : Cfg) (s : CycState) (i : CycIn) :
    outResp (step c s i).2 =
      if (i.sdAck || (ctrlComb c s.stage i).pingAck) = true then .hs PID_ACK
      else hResp (muxOut (stdStep c s.h (handlerIn i (ctrlComb c s.stage i))).2 (handlerIn i (ctrlComb c s.stage i))) :=
  outResp_mk _ _ _ _ _

section
variable (c : Cfg) (s : CycState) (i : CycIn)
theorem step_addressChanged : (step c s i).2.addressChanged =
    (muxOut (stdStep c s.h (handlerIn i (ctrlComb c s.stage i))).2 (handlerIn i (ctrlComb c s.stage i))).addressChanged := rfl
theorem step_newAddress : (step c s i).2.newAddress =
    (muxOut (stdStep c s.h (handlerIn i (ctrlComb c s.stage i))).2 (handlerIn i (ctrlComb c s.stage i))).newAddress := rfl
theorem step_configChanged : (step c s i).2.configChanged =
    (muxOut (stdStep c s.h (handlerIn i (ctrlComb c s.stage i))).2 (handlerIn i (ctrlComb c s.stage i))).configChanged := rfl
theorem step_newConfig : (step c s i).2.newConfig =
    (muxOut (stdStep c s.h (handlerIn i (ctrlComb c s.stage i))).2 (handlerIn i (ctrlComb c s.stage i))).newConfig := rfl
end

/-- One cycle `i`, started in a cycle-level state related to `d`, ends in a state related to `d'`, puts `r` on the
bus and drives the two register strobes so that device.py's registers go from `d`'s to `d'`'s values. -/
def Sim1 (cyc : Cfg) (d d' : DevState) (i : CycIn) (r : Resp) : Prop :=
  ∀ cs, Rel d cs →
    Rel d' (step cyc cs i).1 ∧ outResp (step cyc cs i).2 = r ∧
    (if (step cyc cs i).2.addressChanged then (step cyc cs i).2.newAddress else d.address) = d'.address ∧
    (if (step cyc cs i).2.configChanged then (step cyc cs i).2.newConfig else d.config) = d'.config

/-- (K0) a cycle without strobes. -/
theorem sim_quiet (c : DevConfig) (d : DevState) (n : CycIn) (hns : NoStream d) :
    Sim1 (cfgOf c) d d (envIn d n) .none := by
  intro cs hr
  have hc : ctrlComb (cfgOf c) cs.stage (envIn d n) = ⟨false, false, false, false⟩ := by
    simp [ctrlComb, envIn]
  have hn : ctrlNext (cfgOf c) cs.stage (envIn d n) = cs.stage := by
    cases hs : cs.stage <;> simp [ctrlNext, envIn]
  have hi : handlerIn (envIn d n) ⟨false, false, false, false⟩ = hin d (noiseH n) false false false := rfl
  have hq := h_quiet (cfgOf c) d cs.h (noiseH n) hr.h hns
  rw [step_outResp, step_addressChanged, step_configChanged, hc, hi]
  refine ⟨⟨by rw [step_stage, hn]; exact hr.stage, by rw [step_h, hc, hi]; exact hq.1⟩, ?_, ?_, ?_⟩
  · simp [envIn, hq.2.1]
  · simp [hq.2.2.1]
  · simp [hq.2.2.2]

/-- The event-level stage transition of a token is the cycle-level one of its `new_token` cycle. -/
theorem ctrlNext_newToken (c : DevConfig) (d : DevState) (pid ep : Nat) (n : CycIn) :
    ctrlNext (cfgOf c) d.stage { envIn (afterToken d pid ep) n with newToken := true } = tokenStage d pid ep := by
  simp only [ctrlNext, envIn, afterToken, tokenStage, targeted, cfgOf]
  by_cases h1 : pid = PID_SETUP
  · subst h1; cases d.stage <;> simp [PID_SETUP, PID_OUT, PID_PING, PID_IN]
  · by_cases h2 : ep = 0
    · subst h2
      cases d.stage <;> simp [h1] <;>
        by_cases h3 : pid = PID_OUT <;> by_cases h4 : pid = PID_PING <;> by_cases h5 : pid = PID_IN <;>
        simp_all [PID_SETUP, PID_OUT, PID_PING, PID_IN]
    · cases d.stage <;> simp [h1, h2]

/-- (K1) the cycle in which the token detector strobes `new_token` for a token `(pid, ep)` of this device. -/
theorem sim_newToken (c : DevConfig) (d : DevState) (pid ep : Nat) (n : CycIn) (hns : NoStream d) :
    Sim1 (cfgOf c) d (afterToken d pid ep) { envIn (afterToken d pid ep) n with newToken := true } .none := by
  intro cs hr
  have hc : ctrlComb (cfgOf c) cs.stage { envIn (afterToken d pid ep) n with newToken := true } =
      ⟨false, false, false, false⟩ := by
    simp [ctrlComb, envIn]
  have hn := ctrlNext_newToken c d pid ep n
  have hi : handlerIn { envIn (afterToken d pid ep) n with newToken := true } ⟨false, false, false, false⟩ =
      hin (afterToken d pid ep) (noiseH n) false false false := rfl
  have hr1 : HRel (afterToken d pid ep) cs.h := ⟨hr.h.1, hr.h.2, hr.h.3⟩
  have hq := h_quiet (cfgOf c) (afterToken d pid ep) cs.h (noiseH n) hr1 hns
  rw [step_outResp, step_addressChanged, step_configChanged, hc, hi]
  refine ⟨⟨by rw [step_stage, hr.stage, hn]; rfl, by rw [step_h, hc, hi]; exact hq.1⟩, ?_, ?_, ?_⟩
  · simp [envIn, hq.2.1]
  · simp [hq.2.2.1]; rfl
  · simp [hq.2.2.2]; rfl

/-- What the event-level model does with a token once the registers show it (`onToken` after `afterToken`). -/
def readyResult (c : DevConfig) (d : DevState) : DevState × Resp :=
  if d.tokEp = 0 then
    match d.stage with
    | .dataIn => if d.tokPid = PID_IN then request c d .data else (d, .none)
    | .dataOut => if d.tokPid = PID_PING then (d, .hs PID_ACK) else (d, .none)
    | .statusIn => if d.tokPid = PID_IN then request c d .status else (d, .none)
    | .statusOut => if d.tokPid = PID_PING then (d, .hs PID_ACK) else (d, .none)
    | .setup => (d, .none)
  else (d, .none)

theorem onToken_eq (c : DevConfig) (d : DevState) (pid ep : Nat) :
    onToken c d pid ep = readyResult c (afterToken d pid ep) := rfl

theorem h_req_data (c : DevConfig) (hx : c.extra = []) (cyc : Cfg) (d : DevState) (h : StdState) (n : HIn)
    (hr : HRel d h) (hns : NoStream d) :
    HRel (request c d .data).1 (stdStep cyc h (hin d n true false false)).1 ∧
    hResp (muxOut (stdStep cyc h (hin d n true false false)).2 (hin d n true false false)) = (request c d .data).2 ∧
    HQuiet (muxOut (stdStep cyc h (hin d n true false false)).2 (hin d n true false false)) :=
  h_req c hx cyc d h n .data hr hns

theorem h_req_status (c : DevConfig) (hx : c.extra = []) (cyc : Cfg) (d : DevState) (h : StdState) (n : HIn)
    (hr : HRel d h) (hns : NoStream d) :
    HRel (request c d .status).1 (stdStep cyc h (hin d n false true false)).1 ∧
    hResp (muxOut (stdStep cyc h (hin d n false true false)).2 (hin d n false true false)) = (request c d .status).2 ∧
    HQuiet (muxOut (stdStep cyc h (hin d n false true false)).2 (hin d n false true false)) :=
  h_req c hx cyc d h n .status hr hns

/-- A cycle whose only effect is a request (or nothing) to the handlers, assembled from the handler-level fact. -/
theorem sim1_of_handler (cyc : Cfg) (d d' : DevState) (i : CycIn) (r : Resp) (n : HIn) (dr sr : Bool) (ping : Bool)
    (hsd : i.sdAck = false)
    (hc : ∀ cs, Rel d cs → ctrlComb cyc cs.stage i = ⟨dr, sr, false, ping⟩)
    (hn : ∀ cs, Rel d cs → ctrlNext cyc cs.stage i = d'.stage)
    (hi : handlerIn i ⟨dr, sr, false, ping⟩ = hin d n dr sr false)
    (hH : ∀ h, HRel d h → HRel d' (stdStep cyc h (hin d n dr sr false)).1 ∧
        (if ping = true then Resp.hs PID_ACK else hResp (muxOut (stdStep cyc h (hin d n dr sr false)).2 (hin d n dr sr false))) = r ∧
        HQuiet (muxOut (stdStep cyc h (hin d n dr sr false)).2 (hin d n dr sr false)))
    (ha : d'.address = d.address) (hcf : d'.config = d.config) :
    Sim1 cyc d d' i r := by
  intro cs hr
  have hq := hH cs.h hr.h
  rw [step_outResp, step_addressChanged, step_configChanged, hc cs hr, hi]
  refine ⟨⟨by rw [step_stage, hn cs hr], by rw [step_h, hc cs hr, hi]; exact hq.1⟩, ?_, ?_, ?_⟩
  · simpa [hsd] using hq.2.1
  · simp [hq.2.2.1, ha]
  · simp [hq.2.2.2, hcf]

end LunaVerif.CtrlCyc
