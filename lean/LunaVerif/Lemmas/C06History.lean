import LunaVerif.Lemmas.C06Exact
/-!
# C06 — all legal histories: `setup_reported_iff`, `ack_once_after_gap`

`history_exact` lifts `packet_exact` to lists of packets by induction; the two property theorems
read it off for "any legal history from reset, then one more packet".
-/
namespace LunaVerif.SetupDecoder
open LunaVerif.Utmi LunaVerif.DataCrc LunaVerif.Crc

/-! ## Histories -/

/-- the environment assumptions on a history of packets (see the header of `Props/C06.lean`) -/
def Legal (c : Config) (ps : List RxPacket) : Prop :=
  ∀ p ∈ ps, p.wf ∧ gapOk c p ∧ ∀ b ∈ p.bytes, b < 256

def specFinal (addr : Nat) : Abs → List (List Nat) → Abs
  | a, [] => a
  | a, b :: bs => specFinal addr (specStep addr a b).1 bs

def specReports (addr : Nat) : Abs → List (List Nat) → List Event
  | _, [] => []
  | a, b :: bs => (specStep addr a b).2.toList ++ specReports addr (specStep addr a b).1 bs

/-- The environment assumptions in their precise form, along the packet-level run from the abstract
state `a`: every packet is well formed with 8-bit bytes; a packet that starts with a data PID is
followed by at least 2 idle cycles; a data packet that IS REPORTED (and will be ACKed) is followed by
the handshake gap of at least `delay + 3` idle cycles. -/
def LegalFrom (c : Config) : Abs → List RxPacket → Prop
  | _, [] => True
  | a, p :: ps =>
    p.wf ∧ (∀ b ∈ p.bytes, b < 256) ∧
    ((∃ pid rest, p.bytes = pid :: rest ∧ isDataPid pid = true) → 2 ≤ p.gap.length) ∧
    ((specStep c.addr a p.bytes).2 ≠ none → c.delay + 3 ≤ p.gap.length) ∧
    LegalFrom c (specStep c.addr a p.bytes).1 ps

theorem legalFrom_append (c : Config) (a : Abs) (h1 h2 : List RxPacket) :
    LegalFrom c a (h1 ++ h2) ↔
      LegalFrom c a h1 ∧ LegalFrom c (specFinal c.addr a (h1.map (·.bytes))) h2 := by
  induction h1 generalizing a with
  | nil => simp [LegalFrom, specFinal]
  | cons p ps ih => simp [LegalFrom, specFinal, ih, and_assoc]

/-- the simple sufficient condition: the handshake gap after EVERY packet that starts with a data PID -/
theorem legal_legalFrom (c : Config) (ps : List RxPacket) (a : Abs) (h : Legal c ps) : LegalFrom c a ps := by
  induction ps generalizing a with
  | nil => trivial
  | cons p ps ih =>
    obtain ⟨hw, hg, hb⟩ := h p (by simp)
    refine ⟨hw, hb, fun hd => by have := hg hd; omega, ?_, ih _ (fun q hq => h q (by simp [hq]))⟩
    intro hr
    apply hg
    match hbytes : p.bytes with
    | [] => rw [hbytes] at hr; simp [specStep] at hr
    | b0 :: bs =>
      by_cases hp : isDataPid b0 = true
      · exact ⟨b0, bs, rfl, hp⟩
      · rw [hbytes] at hr; simp [specStep, hp] at hr

theorem specFinal_append (addr : Nat) (a : Abs) (h1 h2 : List (List Nat)) :
    specFinal addr a (h1 ++ h2) = specFinal addr (specFinal addr a h1) h2 := by
  induction h1 generalizing a with
  | nil => rfl
  | cons b bs ih => simp [specFinal, ih]

theorem receivedOnly_append (a b : List Event) : receivedOnly (a ++ b) = receivedOnly a ++ receivedOnly b := by
  induction a with
  | nil => rfl
  | cons e es ih => cases e <;> simp [receivedOnly, ih]

theorem ackCount_append (a b : List Event) : ackCount (a ++ b) = ackCount a + ackCount b := by
  induction a with
  | nil => simp [ackCount]
  | cons e es ih => cases e <;> simp [ackCount, ih] <;> omega

theorem spec_out_cases (addr : Nat) (a : Abs) (b : List Nat) :
    (specStep addr a b).2 = none ∨ ∃ q, (specStep addr a b).2 = some (report q) := by
  unfold specStep
  split
  · left; rfl
  · split
    · split
      · split
        · right; exact ⟨_, rfl⟩
        · left; rfl
      · left; rfl
    · left; rfl

/-- the events one packet causes, without the cycle numbers -/
theorem packet_trace (c : Config) (hc : c.delay ≤ c.counterMax + 1) (p : RxPacket) (s : State) (hs : Boundary s)
    (hw : p.wf) (hb : ∀ b ∈ p.bytes, b < 256)
    (hg2 : (∃ pid rest, p.bytes = pid :: rest ∧ isDataPid pid = true) → 2 ≤ p.gap.length)
    (hg3 : (specStep c.addr (absOf s) p.bytes).2 ≠ none → c.delay + 3 ≤ p.gap.length) :
    ((specStep c.addr (absOf s) p.bytes).2 = none → trace c s (render p) = []) ∧
    (∀ e, (specStep c.addr (absOf s) p.bytes).2 = some e →
      (trace c s (render p) = [e, .ack] ∨ trace c s (render p) = [.ack, e]) ∧
      (c.hs = true → trace c s (render p) = [.ack, e])) := by
  obtain ⟨_, _, h3, _⟩ := packet_exact c hc p s hs hw hb hg2 hg3 0
  have h4 := ttrace_snd c s (render p) 0
  rw [h3] at h4
  constructor
  · intro hn; rw [hn] at h4; simpa [expectT] using h4.symm
  · intro e he
    rw [he] at h4
    cases hi : ((strobeState c s p).counter == c.delay || c.hs) with
    | true =>
      rw [hi] at h4
      have : trace c s (render p) = [.ack, e] := by simpa [expectT] using h4.symm
      exact ⟨Or.inr this, fun _ => this⟩
    | false =>
      rw [hi] at h4
      have : trace c s (render p) = [e, .ack] := by simpa [expectT] using h4.symm
      have hhs : c.hs = false := by
        cases hh : c.hs with
        | false => rfl
        | true => simp [hh] at hi
      exact ⟨Or.inl this, fun h => by rw [hhs] at h; exact absurd h (by simp)⟩

/-- **Every legal history, exactly** (from any packet boundary; `LegalFrom`: 2 idle cycles after a
data-PID packet, the handshake gap after a reported one): the composition ends at a packet
boundary in the abstract state the packet-level automaton computes, the reports it made are
exactly that automaton's, in order, and there are exactly as many ACKs as reports. -/
theorem history_exact (c : Config) (hc : c.delay ≤ c.counterMax + 1) (ps : List RxPacket) (s : State)
    (hs : Boundary s) (hl : LegalFrom c (absOf s) ps) :
    Boundary (final c s (renderAll ps)) ∧
    absOf (final c s (renderAll ps)) = specFinal c.addr (absOf s) (ps.map (·.bytes)) ∧
    receivedOnly (trace c s (renderAll ps)) = specReports c.addr (absOf s) (ps.map (·.bytes)) ∧
    ackCount (trace c s (renderAll ps)) = (specReports c.addr (absOf s) (ps.map (·.bytes))).length := by
  induction ps generalizing s with
  | nil => exact ⟨hs, rfl, rfl, rfl⟩
  | cons p ps ih =>
    obtain ⟨hw, hb, hg2, hg3, hrest⟩ := hl
    obtain ⟨b1, b2, _, _⟩ := packet_exact c hc p s hs hw hb hg2 hg3 0
    obtain ⟨t1, t2⟩ := packet_trace c hc p s hs hw hb hg2 hg3
    obtain ⟨i1, i2, i3, i4⟩ := ih _ b1 (by rw [b2]; exact hrest)
    have er : renderAll (p :: ps) = render p ++ renderAll ps := by simp [renderAll]
    rw [er, final_append, trace_append, receivedOnly_append, ackCount_append, i3, i4, b2]
    refine ⟨i1, by rw [i2, b2]; rfl, ?_, ?_⟩
    · simp only [List.map_cons, specReports]
      congr 1
      rcases spec_out_cases c.addr (absOf s) p.bytes with hn | ⟨q, hq⟩
      · rw [t1 hn, hn]; rfl
      · rcases (t2 _ hq).1 with h | h <;> rw [h, hq] <;> simp [receivedOnly, report]
    · simp only [List.map_cons, specReports, List.length_append]
      congr 1
      rcases spec_out_cases c.addr (absOf s) p.bytes with hn | ⟨q, hq⟩
      · rw [t1 hn, hn]; rfl
      · rcases (t2 _ hq).1 with h | h <;> rw [h, hq] <;> simp [ackCount, report]

/-! ## The property -/

/-- a data packet (any data PID) with exactly 8 payload bytes and their CRC16 -/
def isSetupData (bytes : List Nat) : Bool :=
  match bytes with
  | [] => false
  | dpid :: bs => isDataPid dpid && (bs.length == 10 && (usb2Crc16 (bs.take 8) == pk bs 8 + 256 * pk bs 9))

/-- with 10 bytes after the PID nothing stale is involved: the deserializer strobes iff the CRC16
of the first 8 is the last two -/
theorem strobes_len10 (st : Stale) (bs : List Nat) (h10 : bs.length = 10) (hb : ∀ b ∈ bs, b < 256) :
    dsStrobes st bs = (usb2Crc16 (bs.take 8) == pk bs 8 + 256 * pk bs 9) := by
  match bs, h10 with
  | [x0, x1, x2, x3, x4, x5, x6, x7, x8, x9], _ =>
    have := captureRegs_fresh st [x0, x1, x2, x3, x4, x5, x6, x7] x8 x9 (hb x8 (by simp))
    simp only [List.cons_append, List.nil_append] at this
    simp [dsStrobes, this, pk]

/-- the packet-level automaton reports iff it is armed and the packet is a valid SETUP data packet -/
theorem spec_report_iff (addr : Nat) (a : Abs) (bytes : List Nat) (hb : ∀ b ∈ bytes, b < 256) :
    (specStep addr a bytes).2 = if a.armed && isSetupData bytes then some (report bytes.tail) else none := by
  match bytes with
  | [] => simp [specStep, isSetupData]
  | b0 :: bs =>
    by_cases hp : isDataPid b0 = true
    · by_cases h10 : bs.length = 10
      · have hs := strobes_len10 a.st bs h10 (fun b hbb => hb b (by simp [hbb]))
        simp only [specStep, hp, if_true, hs, isSetupData, h10, beq_self_eq_true, Bool.true_and, List.tail_cons,
          report_take, Bool.and_true]
        cases (usb2Crc16 (bs.take 8) == pk bs 8 + 256 * pk bs 9) <;> cases a.armed <;> simp
      · have : (bs.length == 10) = false := by simpa using h10
        simp only [specStep, hp, if_true, isSetupData, this, Bool.and_false, Bool.false_and]
        split <;> simp
    · have hp' : isDataPid b0 = false := by simpa using hp
      simp [specStep, isSetupData, hp']

def absInit : Abs := ⟨false, ⟨0, 0, 0⟩⟩

theorem absOf_init : absOf init = absInit := by decide

/-- **armed**, at the packet level, after a history of packets from reset: a SETUP token for this
device is the last (non-SOF) token seen, and no data packet since made the deserializer strobe. -/
def armedAfter (addr : Nat) (hist : List (List Nat)) : Bool := (specFinal addr absInit hist).armed

/-- **C06 — setup_reported_iff, over ALL legal histories.**  After any legal history `pre` from
reset, the next packet `p` (any packet) makes the decoder report a SETUP request **iff** the decoder
is armed — packet-level `armedAfter` — and `p` is a data packet with exactly 8 payload bytes and a
correct CRC16.  In that case exactly one report with the little-endian decoded fields and exactly
one ACK happen (ACK first iff it goes out in the strobe cycle; always so at high speed); otherwise
nothing at all happens during `p`. -/
theorem setup_reported_iff (c : Config) (hc : c.delay ≤ c.counterMax + 1) (pre : List RxPacket) (p : RxPacket)
    (hl : LegalFrom c absInit (pre ++ [p])) :
    (armedAfter c.addr (pre.map (·.bytes)) = true ∧ isSetupData p.bytes = true →
      (trace c (final c init (renderAll pre)) (render p) = [report p.bytes.tail, .ack] ∨
       trace c (final c init (renderAll pre)) (render p) = [.ack, report p.bytes.tail]) ∧
      (c.hs = true → trace c (final c init (renderAll pre)) (render p) = [.ack, report p.bytes.tail])) ∧
    (¬ (armedAfter c.addr (pre.map (·.bytes)) = true ∧ isSetupData p.bytes = true) →
      trace c (final c init (renderAll pre)) (render p) = []) := by
  obtain ⟨hl1, hl2⟩ := (legalFrom_append c absInit pre [p]).1 hl
  obtain ⟨b1, b2, _, _⟩ := history_exact c hc pre init boundary_init (by rw [absOf_init]; exact hl1)
  obtain ⟨hw, hb, hg2, hg3, _⟩ := hl2
  rw [← absOf_init, ← b2] at hg3
  obtain ⟨t1, t2⟩ := packet_trace c hc p _ b1 hw hb hg2 hg3
  have hsp := spec_report_iff c.addr (absOf (final c init (renderAll pre))) p.bytes hb
  rw [b2, absOf_init] at hsp t1 t2
  change (specStep c.addr (specFinal c.addr absInit (pre.map (·.bytes))) p.bytes).2
    = if armedAfter c.addr (pre.map (·.bytes)) && isSetupData p.bytes then _ else _ at hsp
  constructor
  · intro ⟨ha, hd⟩
    rw [ha, hd] at hsp
    exact t2 _ hsp
  · intro hn
    have : (armedAfter c.addr (pre.map (·.bytes)) && isSetupData p.bytes) = false := by
      cases h1 : armedAfter c.addr (pre.map (·.bytes)) <;> cases h2 : isSetupData p.bytes <;> simp_all
    rw [this] at hsp
    exact t1 hsp

theorem renderSlots_length_ge (sl : List (Nat × List Nat)) : sl.length ≤ (renderSlots sl).length := by
  induction sl with
  | nil => simp [renderSlots]
  | cons x rest ih => obtain ⟨b, w⟩ := x; simp [renderSlots]; omega

/-- **C06 — ack_once_after_gap.**  After any legal history from reset, with cycle numbers: a
packet `p` that is reported (see `setup_reported_iff`) causes the report in cycle `n` — the cycle
in which the deserializer's strobe is seen, the second idle cycle after the packet — and exactly
one ACK request: in cycle `n` itself at high speed (or if the timer's `tx_allowed` happens to be
up in cycle `n`), otherwise exactly `delay + 1` cycles later, when the timer restarted by the
strobe reaches the inter-packet delay.  Any other packet causes no ACK.  And the timer cannot be
at `delay` in cycle `n` if `delay < 13` (a SETUP data packet keeps the line busy for 13 cycles). -/
theorem ack_once_after_gap (c : Config) (hc : c.delay ≤ c.counterMax + 1) (pre : List RxPacket) (p : RxPacket)
    (hl : LegalFrom c absInit (pre ++ [p])) (t : Nat) :
    ttrace c (final c init (renderAll pre)) (render p) t =
      (if armedAfter c.addr (pre.map (·.bytes)) && isSetupData p.bytes then
        (if (strobeState c (final c init (renderAll pre)) p).counter == c.delay || c.hs then
          [(t + strobeIndex p, .ack), (t + strobeIndex p, report p.bytes.tail)]
         else [(t + strobeIndex p, report p.bytes.tail), (t + strobeIndex p + c.delay + 1, .ack)])
       else []) ∧
    (isSetupData p.bytes = true → c.delay < 13 → c.delay ≤ c.counterMax →
      ((strobeState c (final c init (renderAll pre)) p).counter == c.delay) = false) := by
  obtain ⟨hl1, hl2⟩ := (legalFrom_append c absInit pre [p]).1 hl
  obtain ⟨b1, b2, _, _⟩ := history_exact c hc pre init boundary_init (by rw [absOf_init]; exact hl1)
  obtain ⟨hw, hb, hg2, hg3, _⟩ := hl2
  rw [← absOf_init, ← b2] at hg3
  obtain ⟨_, _, h3, h4⟩ := packet_exact c hc p _ b1 hw hb hg2 hg3 t
  have hsp := spec_report_iff c.addr (absOf (final c init (renderAll pre))) p.bytes hb
  rw [b2, absOf_init] at hsp h3
  change (specStep c.addr (specFinal c.addr absInit (pre.map (·.bytes))) p.bytes).2
    = if armedAfter c.addr (pre.map (·.bytes)) && isSetupData p.bytes then _ else _ at hsp
  constructor
  · rw [h3, hsp]
    split <;> simp [expectT]
  · intro hd h13 hmax
    have hlen : 13 ≤ strobeIndex p := by
      obtain ⟨lead, slots, gap⟩ := p
      have hl1 : 1 ≤ lead.length := by
        have := hw.1
        cases lead with
        | nil => exact absurd rfl this
        | cons _ _ => simp
      have hsl : slots.length = 11 := by
        simp only [RxPacket.bytes] at hd
        match slots, hd with
        | x :: rest, hd =>
          simp only [List.map_cons, isSetupData, Bool.and_eq_true, beq_iff_eq, List.length_map] at hd
          simp [hd.2.1]
      have := renderSlots_length_ge slots
      simp only [strobeIndex]; omega
    simp only [beq_eq_false_iff_ne, ne_eq]
    omega

/-! ## What `armedAfter` means: two readings -/

theorem armedAfter_snoc (addr : Nat) (hist : List (List Nat)) (b : List Nat) :
    armedAfter addr (hist ++ [b]) = (specStep addr (specFinal addr absInit hist) b).1.armed := by
  simp [armedAfter, specFinal_append, specFinal]

/-- directly after a SETUP token for this device the decoder is armed, whatever came before
(this is `earlier_garbage_is_harmless` again, at the packet level) -/
theorem armed_after_setup_token (addr : Nat) (hist : List (List Nat)) (tp b1 b2 : Nat)
    (h : IsSetupTokenFor addr tp b1 b2) : armedAfter addr (hist ++ [[tp, b1, b2]]) = true := by
  obtain ⟨t1, t2, t3, t4⟩ := h
  rw [armedAfter_snoc]
  have hnd := token_pid_not_data tp t1
  simp [specStep, hnd, tokArmed, tokenOf, t1, t2, t3, t4, SETUP_PID, SOF_PID]

/-- a history without any SETUP token for this device never arms the decoder -/
theorem not_armed_without_setup_token (addr : Nat) (hist : List (List Nat))
    (h : ∀ b ∈ hist, ∀ d11, tokenOf b = some (SETUP_PID, d11) → d11 % 128 ≠ addr) :
    armedAfter addr hist = false := by
  suffices hgen : ∀ a : Abs, a.armed = false → (specFinal addr a hist).armed = false from hgen absInit rfl
  induction hist with
  | nil => intro a ha; exact ha
  | cons b bs ih =>
    intro a ha
    simp only [specFinal]
    apply ih (fun x hx => h x (by simp [hx]))
    have hb := h b (by simp)
    unfold specStep
    split
    · exact ha
    · split
      · split <;> simp [ha]
      · simp only [tokArmed]
        split
        · rename_i p4 d11 heq
          split
          · exact ha
          · split
            · rename_i hadr
              by_cases hp : p4 = SETUP_PID
              · subst hp; exact absurd hadr (hb d11 heq)
              · simpa using hp
            · rfl
        · exact ha

/-! ## Non-vacuity: the hypotheses are satisfiable, the definitions evaluate as intended -/

/-- a PID-only DATA0 packet -/
def demoRunt : RxPacket := dataPacket [0] 0xC3 [] [] (List.replicate 13 0)

theorem gapOk_intro (c : Config) (p : RxPacket)
    (h : (match p.bytes with | pid :: _ => isDataPid pid | [] => false) = true → c.delay + 3 ≤ p.gap.length) :
    gapOk c p := by
  intro ⟨pid, rest, h1, h2⟩
  apply h; rw [h1]; exact h2

example : Legal demoCfg [demoBadData, demoToken, demoData, demoForeignOut, demoToken, demoRunt, demoData] := by
  intro p hp
  simp only [List.mem_cons, List.not_mem_nil, or_false] at hp
  rcases hp with rfl | rfl | rfl | rfl | rfl | rfl | rfl <;>
    exact ⟨by decide, gapOk_intro _ _ (by decide), by decide +kernel⟩

/-- an unrelated data packet followed by only 2 idle cycles (no handshake gap) is a legal history too -/
def demoIsoData : RxPacket := dataPacket [0] 0xC3 [] ((demoBody ++ [usb2Crc16 demoBody % 256, usb2Crc16 demoBody / 256]).map (fun b => (b, []))) [0, 0]
theorem gap2_intro (p : RxPacket) (n : Nat)
    (h : (match p.bytes with | pid :: _ => isDataPid pid | [] => false) = true → n ≤ p.gap.length) :
    (∃ pid rest, p.bytes = pid :: rest ∧ isDataPid pid = true) → n ≤ p.gap.length := by
  intro ⟨pid, rest, h1, h2⟩
  apply h; rw [h1]; exact h2
example : LegalFrom demoCfg absInit [demoIsoData, demoToken, demoData] := by
  refine ⟨by decide, by decide +kernel, gap2_intro _ _ (by decide), fun h => absurd ?_ h,
    by decide, by decide, gap2_intro _ _ (by decide), fun h => absurd ?_ h,
    by decide, by decide +kernel, gap2_intro _ _ (by decide), fun _ => by decide, trivial⟩ <;>
    decide +kernel

example : isSetupData demoData.bytes = true ∧ isSetupData demoBadData.bytes = false ∧
    isSetupData demoRunt.bytes = false := by decide +kernel
example : armedAfter 0 [demoBadData.bytes, demoToken.bytes] = true := by decide +kernel
example : armedAfter 0 [demoToken.bytes, demoBadData.bytes] = true := by decide +kernel        -- a corrupted packet keeps it
example : armedAfter 0 [demoToken.bytes, demoForeignOut.bytes] = false := by decide +kernel    -- a foreign token clears it
example : armedAfter 0 [demoToken.bytes, demoData.bytes] = false := by decide +kernel          -- the report consumes it
/-- the stale-register case is real: after a CRC-valid data packet the comparison registers agree,
so a following PID-only data packet makes the deserializer strobe (with length 14) and disarms the
decoder; the same runt after a corrupted packet does not.  (From reset the registers are all 0 and
agree as well.) -/
example : armedAfter 0 [demoToken.bytes, demoData.bytes, demoToken.bytes, demoRunt.bytes] = false ∧
    armedAfter 0 [demoBadData.bytes, demoToken.bytes, demoRunt.bytes] = true ∧
    armedAfter 0 [demoToken.bytes, demoRunt.bytes] = false := by decide +kernel
/-- ... and the model agrees: the DATA0 after the runt is not reported, only the first transaction is -/
example : trace demoCfg init (renderAll [demoToken, demoData, demoToken, demoRunt, demoData])
    = [.received 0x80 6 0x100 0 0x40, .ack] := by decide +kernel
/-- cycle numbers: token 6 cycles, data packet lead 2 + 11 bytes, strobe seen in cycle 6 + 14 = 20,
ACK 11 cycles later -/
example : ttrace demoCfg init (renderAll [demoToken, demoData]) 0
    = [(20, .received 0x80 6 0x100 0 0x40), (31, .ack)] := by decide +kernel

end LunaVerif.SetupDecoder
