import LunaVerif.Lemmas.C13Host
/-!
# C13 — the write side of the endpoint along a `LegalHost` history

The endpoint's glue logic is factored out of `StreamOutEndpoint.step` (`combG`, `regsNext`, `wctl`, `hsG`:
the same equations, reading the detector outputs, `fifo.full` and `fifo.space_available` as parameters;
`comb_eq` … `step_regs` are `rfl`).  On this write-side machine (registers, uncommitted entries `W`, all
entries ever committed `com`) the invariant `WInv` ties the registers to the host's phase and the
committed entries to the observer's expectation, whatever `full` / `space_available` say in each cycle
(they depend on the consumer; the read side is added in `Props/C13Stream.lean` with C18's refinement).
-/
namespace LunaVerif.StreamOutEndpoint
open LunaVerif

/-! ## The glue logic, factored -/

structure Regs where
  expectedToggle : Bool
  overflow       : Bool
  rxCnt          : Nat
  transferActive : Bool
  packetIsFull   : Bool
  packetHasData  : Bool

def State.regs (s : State) : Regs :=
  ⟨s.expectedToggle, s.overflow, s.rxCnt, s.transferActive, s.packetIsFull, s.packetHasData⟩

def combG (c : Config) (o : BoundaryDetector.Out) (full : Bool) (space : Nat) (r : Regs) (i : In) : Comb :=
  let epMatch := i.tokEp == c.epNum
  let targeting := epMatch && i.tokIsOut
  let pidMatch := i.pidToggle == (if r.expectedToggle then 1 else 0)
  let sufficient := decide (c.mps ≤ space)
  let pingRequested := epMatch && i.tokIsPing && i.tokReady
  let dataRequested := targeting && i.tokIsOut && i.rxReady
  let okay := targeting && pidMatch
  let lost := okay && o.next && o.valid && full
  let accepted := okay && !lost && !r.overflow
  let skip := targeting && !pidMatch
  let fullPacket := r.rxCnt == c.mps - 1
  { targeting := targeting, pidMatch := pidMatch, sufficient := sufficient, pingRequested := pingRequested,
    dataRequested := dataRequested, okayToReceive := okay, dataIsLost := lost, dataAccepted := accepted,
    shouldSkip := skip, fullPacket := fullPacket,
    writeEn := okay && o.next && o.valid && !full,
    writeCommit := targeting && o.completeOut && !r.overflow,
    writeDiscard := targeting && (o.invalidOut || (o.completeOut && r.overflow)) }

theorem comb_eq (c : Config) (s : State) (i : In) :
    comb c s i = combG c s.det.out (TxnFifo.full c.depth s.fifo) (TxnFifo.space c.depth s.fifo) s.regs i := rfl

def regsNext (c : Config) (o : BoundaryDetector.Out) (full : Bool) (space : Nat) (r : Regs) (i : In) : Regs :=
  let k := combG c o full space r i
  let byteNow := o.next && o.valid
  let rxCnt1 := if k.writeEn then (r.rxCnt + 1) % 2 ^ bitsFor c.mps else r.rxCnt
  let pif' := if k.writeEn && o.last then k.fullPacket else r.packetIsFull
  let ta1 := if k.writeCommit && r.packetHasData then r.packetIsFull else r.transferActive
  let ta' := if k.dataRequested && k.dataAccepted && !r.packetHasData && !byteNow then false else ta1
  let phd1 := if i.tokNew then false else r.packetHasData
  let phd' := if k.okayToReceive && byteNow then true else phd1
  let overflow' := if k.dataIsLost then true else if i.tokNew then false else r.overflow
  let rxCnt' := if k.writeCommit || k.writeDiscard then 0 else rxCnt1
  let tg1 := if k.dataRequested && k.dataAccepted then !r.expectedToggle else r.expectedToggle
  let tg' := if i.clearHalt then false else tg1
  ⟨tg', overflow', rxCnt', ta', pif', phd'⟩

theorem step_regs (c : Config) (s : State) (i : In) :
    (step c s i).1.regs
      = regsNext c s.det.out (TxnFifo.full c.depth s.fifo) (TxnFifo.space c.depth s.fifo) s.regs i := rfl

/-- the FIFO's write-side controls: (write_data, write_en, write_commit, write_discard) -/
def wctl (c : Config) (o : BoundaryDetector.Out) (full : Bool) (space : Nat) (r : Regs) (i : In) :
    Nat × Bool × Bool × Bool :=
  let k := combG c o full space r i
  (entry o.payload (o.last && !k.fullPacket) (o.first && !r.transferActive), k.writeEn, k.writeCommit, k.writeDiscard)

theorem fifoIn_eq (c : Config) (s : State) (i : In) :
    let w := wctl c s.det.out (TxnFifo.full c.depth s.fifo) (TxnFifo.space c.depth s.fifo) s.regs i
    fifoIn c s i = { wdata := w.1, wen := w.2.1, wcommit := w.2.2.1, wdiscard := w.2.2.2,
                     ren := i.ready, rcommit := true, rdiscard := false } := rfl

/-- the handshake lines (ack, nak) -/
def hsG (c : Config) (o : BoundaryDetector.Out) (full : Bool) (space : Nat) (r : Regs) (i : In) : Bool × Bool :=
  let k := combG c o full space r i
  ((k.dataRequested && k.dataAccepted) || (k.pingRequested && k.sufficient) || (k.dataRequested && k.shouldSkip),
   (k.dataRequested && !k.dataAccepted && !k.shouldSkip) || (k.pingRequested && !k.sufficient))

theorem hs_eq (c : Config) (s : State) (i : In) :
    ((outOf c s i).ack, (outOf c s i).nak)
      = hsG c s.det.out (TxnFifo.full c.depth s.fifo) (TxnFifo.space c.depth s.fifo) s.regs i := rfl

/-- the write side of the commit/rollback queue: uncommitted entries and everything committed so far -/
def wNext (W com : List Nat) (w : Nat × Bool × Bool × Bool) : List Nat × List Nat :=
  let app := if w.2.1 then [w.1] else []
  if w.2.2.2 then ([], com) else if w.2.2.1 then (app, com ++ W) else (W ++ app, com)

/-! ## FIFO entries and transfer marks -/

/-- decode a 10-bit FIFO entry as the consumer sees it -/
def dec (e : Nat) : Entry := (e % 256, e / 512 % 2 == 1, e / 256 % 2 == 1)

theorem dec_entry (b : Nat) (l f : Bool) : dec (entry b l f) = (b % 256, f, l) := by
  have h := Nat.mod_lt b (by decide : 256 > 0)
  simp only [dec, entry]
  generalize b % 256 = m at *
  cases l <;> cases f <;> simp <;> omega

/-- entries of the bytes of a packet that are not its final byte: `first` (if any) on byte 0, no `last` -/
def body (f : Bool) : List Nat → List Nat
  | [] => []
  | b :: bs => entry b false f :: body false bs

theorem body_snoc (f : Bool) (l : List Nat) (x : Nat) :
    body f (l ++ [x]) = body f l ++ [entry x false (f && l.isEmpty)] := by
  induction l generalizing f with
  | nil => simp [body]
  | cons b bs ih => simp [body, ih]

theorem body_length (f : Bool) (l : List Nat) : (body f l).length = l.length := by
  induction l generalizing f with
  | nil => rfl
  | cons b bs ih => simp [body, ih]

theorem marks_body (f short : Bool) (l : List Nat) (x : Nat) :
    (body f l ++ [entry x short (f && l.isEmpty)]).map dec = marks f short (l ++ [x]) := by
  induction l generalizing f with
  | nil => simp [body, marks, dec_entry]
  | cons b bs ih =>
    have := ih false
    cases bs with
    | nil => simp_all [body, marks, dec_entry]
    | cons b' bs => simp_all [body, marks, dec_entry]

/-- `Signal(range(n))` holds every value below `n`: no wrap of `rx_cnt` before the packet's last byte -/
theorem le_two_pow_bitsAux (fuel n w : Nat) (h : n ≤ w + fuel) : n ≤ 2 ^ bitsAux fuel n w := by
  induction fuel generalizing w with
  | zero =>
    have : w < 2 ^ w := Nat.lt_two_pow_self
    simp only [bitsAux]; omega
  | succ k ih =>
    simp only [bitsAux]
    split
    · assumption
    · exact ih (w + 1) (by omega)

theorem le_two_pow_bitsFor (n : Nat) (_h : 2 ≤ n) : n ≤ 2 ^ bitsFor n := by
  simp only [bitsFor]
  split
  · omega
  · exact le_two_pow_bitsAux n n 0 (by omega)

theorem rxCnt_no_wrap (mps k : Nat) (h : k + 1 < mps) : (k + 1) % 2 ^ bitsFor mps = k + 1 := by
  have := le_two_pow_bitsFor mps (by omega)
  exact Nat.mod_eq_of_lt (Nat.lt_of_lt_of_le h this)

/-! ## The invariant -/

/-- `okay_to_receive` for the running packet, from the registers -/
def okayP (c : Config) (t : Tok) (pid : Nat) (tg : Bool) : Bool := t.targets c && pid == tn tg

/-- while the bytes of a packet are passing (`sent` = those already handled by the glue logic, `n` = bytes
known so far) -/
def RunInv (c : Config) (a : Acct) (r : Regs) (W com : List Nat) (acc : List Entry)
    (t : Tok) (pid : Nat) (sent : List Nat) (n : Nat) : Prop :=
  t.wf = true ∧ (t.targets c = true → n ≤ c.mps) ∧ r.transferActive = a.open_ ∧ com.map dec = acc ∧
  r.packetHasData = (okayP c t pid r.expectedToggle && !sent.isEmpty) ∧
  (r.overflow = true → okayP c t pid r.expectedToggle = true ∧ sent ≠ []) ∧
  (okayP c t pid r.expectedToggle = false → W = [] ∧ r.rxCnt = 0) ∧
  (okayP c t pid r.expectedToggle = true → r.overflow = false → W = body (!a.open_) sent ∧ r.rxCnt = sent.length)

def WInv (c : Config) (p : Phase) (a : Acct) (r : Regs) (W com : List Nat) (acc : List Entry) : Prop :=
  r.expectedToggle = a.toggle ∧
  match p with
  | .idle => W = [] ∧ r.rxCnt = 0 ∧ r.transferActive = a.open_ ∧ com.map dec = acc
  | .tok t => W = [] ∧ r.rxCnt = 0 ∧ r.transferActive = a.open_ ∧ com.map dec = acc ∧
      r.overflow = false ∧ r.packetHasData = false ∧ t.wf = true
  | .rx t pid sent now _ => RunInv c a r W com acc t pid sent (sent.length + now.toList.length + 1)
  | .finByte t pid sent now _ => RunInv c a r W com acc t pid sent (sent.length + now.toList.length) ∧
      (now = none → sent = [])
  | .finStrobe t pid bytes ok responded =>
    t.wf = true ∧ (t.targets c = true → bytes.length ≤ c.mps) ∧ (responded = true → ok = true) ∧
    (if t.targets c then
      (bytes = [] → r.rxCnt = 0 ∧ r.overflow = false ∧ r.packetHasData = false) ∧
      (if responded then
        (r.overflow = true → com.map dec = acc ∧ r.transferActive = a.open_) ∧
        (r.overflow = false → (com ++ W).map dec = acc ∧ (r.packetHasData = true → r.packetIsFull = a.open_) ∧
          (r.packetHasData = false → W = [] ∧ r.transferActive = a.open_))
       else
        r.transferActive = a.open_ ∧ com.map dec = acc ∧
        (if pid == tn r.expectedToggle then
          (r.overflow = false → W.map dec = pktEntries c a.open_ bytes ∧ r.packetHasData = !bytes.isEmpty ∧
            (bytes ≠ [] → r.packetIsFull = (bytes.length == c.mps)))
         else W = [] ∧ r.rxCnt = 0 ∧ r.overflow = false ∧ r.packetHasData = false))
     else W = [] ∧ r.rxCnt = 0 ∧ r.transferActive = a.open_ ∧ com.map dec = acc)
  | .finWait t pid bytes =>
    t.wf = true ∧ W = [] ∧ r.rxCnt = 0 ∧
    (if (okayP c t pid r.expectedToggle && !r.overflow) = true then
      com.map dec = acc ++ pktEntries c a.open_ bytes ∧ r.packetHasData = !bytes.isEmpty ∧
      r.transferActive = (if bytes.isEmpty then a.open_ else bytes.length == c.mps)
     else com.map dec = acc ∧ r.transferActive = a.open_)

def Regs.init : Regs := ⟨false, false, 0, false, false, false⟩

theorem winv_init (c : Config) : WInv c .idle ⟨false, false⟩ Regs.init [] [] [] := by
  simp [WInv, Regs.init]

/-- the state of the write-side machine after one cycle -/
structure WState where
  a   : Acct
  r   : Regs
  W   : List Nat
  com : List Nat
  acc : List Entry

def WState.next (c : Config) (p : Phase) (s : WState) (o : BoundaryDetector.Out) (full : Bool) (space : Nat)
    (i : In) : WState :=
  let ack := (hsG c o full space s.r i).1
  let w := wNext s.W s.com (wctl c o full space s.r i)
  ⟨(s.a.step c p i ack).1, regsNext c o full space s.r i, w.1, w.2, s.acc ++ (s.a.step c p i ack).2⟩

def WState.Inv (c : Config) (p : Phase) (s : WState) : Prop := WInv c p s.a s.r s.W s.com s.acc

theorem tokOf_fields {i : In} {t : Tok} (h : Tok.of i = t) :
    i.tokEp = t.ep ∧ i.tokIsOut = t.isOut ∧ i.tokIsPing = t.isPing := by
  subst h; simp [Tok.of]

theorem winv_step_idle {c : Config} {s : WState} {o : BoundaryDetector.Out} {full : Bool} {space : Nat}
    {i : In} {p' : Phase} (h : s.Inv c .idle) (hv : View .idle o) (hs : Phase.step c .idle i = some p') :
    (s.next c .idle o full space i).Inv c p' := by
  obtain ⟨a, r, W, com, acc⟩ := s
  obtain ⟨htg, hW, hcnt, hta, hcom⟩ := h
  obtain ⟨hn, hco, hio⟩ := hv
  obtain ⟨_, hrr, h3⟩ := step_idle_inv hs
  simp only at htg hW hcnt hta hcom
  rcases h3 with ⟨hnew, hwf, rfl⟩ | ⟨hnew, rfl⟩ <;>
    simp [WState.Inv, WState.next, WInv, regsNext, combG, wNext, wctl, Acct.step, Phase.answered,
      hn, hco, hio, hrr, hnew, hW, hcnt, hta, hcom, htg] <;>
    cases i.clearHalt <;> simp_all

theorem winv_step_tok {c : Config} {t : Tok} {s : WState} {o : BoundaryDetector.Out} {full : Bool} {space : Nat}
    {i : In} {p' : Phase} (h : s.Inv c (.tok t)) (hv : View (.tok t) o) (hs : Phase.step c (.tok t) i = some p') :
    (s.next c (.tok t) o full space i).Inv c p' := by
  obtain ⟨a, r, W, com, acc⟩ := s
  obtain ⟨htg, hW, hcnt, hta, hcom, hovf, hphd, hwf⟩ := h
  obtain ⟨hn, hco, hio⟩ := hv
  obtain ⟨hrr, h3⟩ := step_tok_inv hs
  simp only at htg hW hcnt hta hcom hovf hphd
  rcases h3 with ⟨hnew, hwf', _, rfl⟩ | ⟨hnew, _, _, _, hm, rfl⟩ | ⟨hnew, _, _, _, rfl⟩ | ⟨hnew, _, _, _, rfl⟩ <;>
    (try replace hm := lenOk_inv hm) <;>
    simp [WState.Inv, WState.next, WInv, RunInv, okayP, regsNext, combG, wNext, wctl, Acct.step, Phase.answered, body,
      hn, hco, hio, hrr, hnew, hW, hcnt, hta, hcom, htg, hovf, hphd, hwf] <;>
    cases i.clearHalt <;> simp_all

/-- the combinational conditionals during a transaction with token `t` and data PID `pid` -/
theorem combG_tok {c : Config} {o : BoundaryDetector.Out} {full : Bool} {space : Nat} {r : Regs} {i : In}
    {t : Tok} {pid : Nat} (htok : Tok.of i = t) (hpid : i.pidToggle = pid) :
    combG c o full space r i =
      { targeting := t.targets c, pidMatch := pid == tn r.expectedToggle, sufficient := decide (c.mps ≤ space),
        pingRequested := t.ep == c.epNum && t.isPing && i.tokReady,
        dataRequested := t.targets c && i.rxReady,
        okayToReceive := okayP c t pid r.expectedToggle,
        dataIsLost := okayP c t pid r.expectedToggle && o.next && o.valid && full,
        dataAccepted := okayP c t pid r.expectedToggle && !(okayP c t pid r.expectedToggle && o.next && o.valid && full)
                          && !r.overflow,
        shouldSkip := t.targets c && !(pid == tn r.expectedToggle),
        fullPacket := r.rxCnt == c.mps - 1,
        writeEn := okayP c t pid r.expectedToggle && o.next && o.valid && !full,
        writeCommit := t.targets c && o.completeOut && !r.overflow,
        writeDiscard := t.targets c && (o.invalidOut || (o.completeOut && r.overflow)) } := by
  subst htok hpid
  simp only [combG, okayP, Tok.targets, Tok.of, tn, Bool.and_assoc, Bool.and_self_left]

theorem okayP_clr {c : Config} {t : Tok} {pid : Nat} {tg clr : Bool} (h : (clr && t.targets c) = false) :
    okayP c t pid (!clr && tg) = okayP c t pid tg := by
  cases clr <;> simp_all [okayP]

theorem winv_step_rx {c : Config} {t : Tok} {pid : Nat} {sent : List Nat} {now : Option Nat} {buf : Nat}
    {s : WState} {o : BoundaryDetector.Out} {full : Bool} {space : Nat}
    {i : In} {p' : Phase} (h : s.Inv c (.rx t pid sent now buf)) (hv : View (.rx t pid sent now buf) o)
    (hs : Phase.step c (.rx t pid sent now buf) i = some p') :
    (s.next c (.rx t pid sent now buf) o full space i).Inv c p' := by
  obtain ⟨a, r, W, com, acc⟩ := s
  obtain ⟨htg, hwf, hlen, hta, hcom, hphd, hovf, hno, hok⟩ := h
  obtain ⟨hco, hio, hvn⟩ := hv
  obtain ⟨hst, hrr, h3⟩ := step_rx_inv hs
  obtain ⟨htok, hpid, hnew, hclr⟩ := stable_inv hst
  simp only at htg hta hcom hphd hovf hno hok hlen
  rw [htg] at hphd hovf hno hok
  cases hT : t.targets c
  · -- a transaction for somebody else: any length, nothing moves
    have hK : okayP c t pid a.toggle = false := by simp [okayP, hT]
    cases now with
    | none =>
      simp only at hvn
      rcases h3 with ⟨_, _, hm, rfl⟩ | ⟨_, _, _, rfl⟩ | ⟨_, _, _, rfl⟩ <;>
        simp [WState.Inv, WState.next, WInv, RunInv, regsNext, combG_tok htok hpid, wNext, wctl, Acct.step, Phase.answered,
          hvn, hco, hio, hrr, hnew, hta, hcom, htg, hwf, okayP_clr hclr, hT] <;>
        simp_all
    | some x =>
      obtain ⟨hn, hvl, hpl, hfi, hla⟩ := hvn
      rcases h3 with ⟨_, _, hm, rfl⟩ | ⟨_, _, _, rfl⟩ | ⟨_, _, _, rfl⟩ <;>
        simp [WState.Inv, WState.next, WInv, RunInv, regsNext, combG_tok htok hpid, wNext, wctl, Acct.step, Phase.answered,
          hn, hvl, hpl, hfi, hla, hco, hio, hrr, hnew, hta, hcom, htg, hwf, okayP_clr hclr, hT] <;>
        simp_all
  · replace hlen := hlen hT
    cases now with
    | none =>
      simp only at hvn
      rcases h3 with ⟨_, _, hm, rfl⟩ | ⟨_, _, _, rfl⟩ | ⟨_, _, _, rfl⟩ <;>
        (try replace hm := lenOk_inv hm hT) <;>
        simp [WState.Inv, WState.next, WInv, RunInv, regsNext, combG_tok htok hpid, wNext, wctl, Acct.step, Phase.answered,
          hvn, hco, hio, hrr, hnew, hta, hcom, htg, hwf, okayP_clr hclr, hT] <;>
        cases hK : okayP c t pid a.toggle <;> simp_all <;> omega
    | some x =>
      obtain ⟨hn, hvl, hpl, hfi, hla⟩ := hvn
      rcases h3 with ⟨_, _, hm, rfl⟩ | ⟨_, _, _, rfl⟩ | ⟨_, _, _, rfl⟩ <;>
        (try replace hm := lenOk_inv hm hT) <;>
        simp [WState.Inv, WState.next, WInv, RunInv, regsNext, combG_tok htok hpid, wNext, wctl, Acct.step, Phase.answered,
          hn, hvl, hpl, hfi, hla, hco, hio, hrr, hnew, hta, hcom, htg, hwf, okayP_clr hclr, hT] <;>
        cases hK : okayP c t pid a.toggle <;> cases full <;> cases hO : r.overflow <;> simp_all <;>
        exact ⟨by rw [body_snoc, Bool.and_comm], rxCnt_no_wrap _ _ (by omega)⟩

/-- the write of a packet's final byte completes its entries; `last` is set iff the packet is short -/
theorem last_entry (f : Bool) (sent : List Nat) (x mps : Nat) (h : sent.length + 1 ≤ mps) :
    List.map dec (body f sent) ++ [dec (entry x (!sent.length == mps - 1) (sent.isEmpty && f))]
        = marks f (decide (sent.length + 1 < mps)) (sent ++ [x]) ∧
      (sent.length == mps - 1) = (sent.length + 1 == mps) := by
  have e1 : (sent.length == mps - 1) = (sent.length + 1 == mps) := by
    rw [Bool.eq_iff_iff]; simp only [beq_iff_eq]; omega
  have e2 : (!sent.length == mps - 1) = decide (sent.length + 1 < mps) := by
    rw [e1, Bool.eq_iff_iff]; simp only [Bool.not_eq_true', beq_eq_false_iff_ne, decide_eq_true_eq]; omega
  refine ⟨?_, e1⟩
  rw [e2, ← marks_body, List.map_append, Bool.and_comm]
  rfl

theorem targets_not_ping {c : Config} {t : Tok} (hwf : t.wf = true) (hT : t.targets c = true) :
    t.isPing = false ∧ (t.ep == c.epNum) = true := by
  simp only [Tok.wf, Tok.targets] at hwf hT
  cases h1 : t.isOut <;> cases h2 : t.isPing <;> simp_all

theorem winv_step_finByte {c : Config} {t : Tok} {pid : Nat} {sent : List Nat} {now : Option Nat} {ok : Bool}
    {s : WState} {o : BoundaryDetector.Out} {full : Bool} {space : Nat}
    {i : In} {p' : Phase} (hmps : 1 ≤ c.mps) (h : s.Inv c (.finByte t pid sent now ok))
    (hv : View (.finByte t pid sent now ok) o)
    (hs : Phase.step c (.finByte t pid sent now ok) i = some p') :
    (s.next c (.finByte t pid sent now ok) o full space i).Inv c p' := by
  obtain ⟨a, r, W, com, acc⟩ := s
  obtain ⟨htg, ⟨hwf, hlen, hta, hcom, hphd, hovf, hno, hok⟩, hz⟩ := h
  obtain ⟨hco, hio, hvn⟩ := hv
  obtain ⟨hst, _, hrok, rfl⟩ := step_finByte_inv hs
  obtain ⟨htok, hpid, hnew, hclr⟩ := stable_inv hst
  simp only at htg hta hcom hphd hovf hno hok hlen
  rw [htg] at hphd hovf hno hok
  cases hT : t.targets c
  · -- a transaction for somebody else
    cases now <;>
    simp_all [WState.Inv, WState.next, WInv, RunInv, regsNext, combG_tok htok hpid, wNext, wctl, Acct.step, Phase.answered,
        okayP, View]
  · obtain ⟨hping, hep⟩ := targets_not_ping hwf hT
    have hc : i.clearHalt = false := by simpa [hT] using hclr
    cases now with
    | none =>
      simp only at hvn
      have hz := hz rfl
      subst hz
      by_cases hM : pid = tn a.toggle <;> cases hR : i.rxReady <;> cases hO : r.overflow <;>
      simp_all [WState.Inv, WState.next, WInv, RunInv, regsNext, combG_tok htok hpid, wNext, wctl, Acct.step, Phase.answered,
        okayP, hsG, pktEntries, marks, body] <;> omega
    | some x =>
      obtain ⟨hn, hvl, hpl, hfi, hla⟩ := hvn
      by_cases hM : pid = tn a.toggle <;> cases hR : i.rxReady <;> cases full <;> cases hO : r.overflow <;>
      simp_all [WState.Inv, WState.next, WInv, RunInv, regsNext, combG_tok htok hpid, wNext, wctl, Acct.step, Phase.answered,
        okayP, hsG, pktEntries] <;>
      exact last_entry _ _ _ _ hlen

end LunaVerif.StreamOutEndpoint
