import LunaVerif.Lemmas.C20CycRefine
/-!
# C20 — "never while a received packet is still in progress", proved on the cycle-level composition

`DevCyc` (Model/Device/DevCyc.lean) composes the models of the token detector (C01), data receiver (C02), data packet
generator (C03), handshake generator (C04), the two inter-packet timers (C05), the shared CRC16 unit and the UTMI
transmit multiplexer (C20) exactly as `USBDevice.elaborate` wires them, with the endpoint logic as an arbitrary
environment.  Under

* the HOST assumption `hostOk` — the receive line is idle while the response window `Win` is open (after a packet that
  solicits a response the host waits for the answer to end, or `T+1` cycles if none starts), and `rx_valid ⇒ rx_active`;
* the ENVIRONMENT discipline `envOk` — endpoints request a transmission only in the cycle of a `ready_for_response`
  pulse (token detector's while the token is IN/PING, or receiver's) or at most `L+1` cycles later, one per pulse, keep
  a started stream valid, restart the shared timer only in the cycle after a reception ended; no reset chirp;
* `delay + L + 2 < T` (12 MHz full speed: 2 + 8 + 2 < 16);

every reachable cycle satisfies `tx_valid ⇒ ¬rx_active`, `tx_valid ⇒ the window is open` (solicited, at the cycle
level), the two transmitters are never valid together, and every pulse comes `delay+1` or `delay+2` cycles after the end
of the soliciting packet with the receive line idle since.  The proof is an inductive invariant over the control
skeleton (`Lemmas/C20CycAbs.lean`, `C20CycInv.lean`) and a refinement lemma (`C20CycRefine.lean`).
-/
namespace LunaVerif.DevCyc
open LunaVerif LunaVerif.DevCyc.Abs

/-- The run with the ghost state of every cycle next to its outputs. -/
def traceG (c : Config) (p : Params) : State → Ghost → List In → List (Ghost × Out)
  | _, _, [] => []
  | s, g, i :: is => (g, (step c s i).2) :: traceG c p (step c s i).1 (ghostNext p g s i (step c s i).2) is

theorem run_eq_traceG (c : Config) (p : Params) (s : State) (g : Ghost) (ins : List In) :
    run c s ins = (traceG c p s g ins).map (·.2) := by
  induction ins generalizing s g with
  | nil => rfl
  | cons i is ih => simp only [run, traceG, List.map_cons, ih (step c s i).1 (ghostNext p g s i (step c s i).2)]

/-- What holds in every cycle. -/
def Safe (d : Nat) (go : Ghost × Out) : Prop :=
  (go.2.txValid = true → go.1.win ≠ .closed ∧ go.2.rxActive = false) ∧
  ¬ (go.2.hsValid = true ∧ go.2.genValid = true) ∧
  (pulse go.2 = true → ∃ k, go.1.win = .wait k ∧ d ≤ k ∧ k ≤ d + 1 ∧ go.2.rxActive = false)

theorem pulse_window {d : Nat} {p : Params} {a : A} {g : Ghost} (h : Inv d p a g) (hp : aPulse d a = true) :
    ∃ k, g.win = .wait k ∧ d ≤ k ∧ k ≤ d + 1 := by
  rcases h.mode with m | m | m | m | m
  · rw [noPulse_of m.2.1 m.2.2.1] at hp; cases hp
  · obtain ⟨_, ⟨_, hct⟩, hrd, _, hwin⟩ := m
    simp only [aPulse, hrd, Bool.or_eq_true, Bool.and_eq_true, beq_iff_eq] at hp
    rcases hp with ⟨h1, _⟩ | ⟨h1, _⟩
    · exact ⟨a.ct, hwin, by omega, by omega⟩
    · exact h1.elim
  · obtain ⟨_, hnarm, hrf, _, hcs, k, hwin, hk, _⟩ := m
    have htokp : (a.ct == d && a.armed) = false := by
      simp only [tokArmed] at hnarm
      cases harm : a.armed with
      | false => simp
      | true =>
        have : a.ct ≠ d := by intro hc; apply hnarm; exact ⟨harm, by omega⟩
        simp [this]
    simp only [aPulse, htokp, hrf, Bool.false_or, beq_self_eq_true, Bool.true_and, beq_iff_eq] at hp
    exact ⟨k, hwin, by omega, by omega⟩
  · rw [noPulse_of m.2.1 m.2.2.1] at hp; cases hp
  · rw [noPulse_of m.2.1 m.2.2.1] at hp; cases hp

theorem safe_all (c : Config) (p : Params) (hs : strobes c.tok.timer c.speed = true)
    (hT : delayOf c.tok.timer c.speed + p.L + 2 < p.T) (ins : List In) (s : State) (g : Ghost)
    (hinv : Inv (delayOf c.tok.timer c.speed) p (skel s) g) (h : assumptionsHold c p s g ins = true) :
    ∀ go ∈ traceG c p s g ins, Safe (delayOf c.tok.timer c.speed) go := by
  induction ins generalizing s g with
  | nil => intro go hgo; cases hgo
  | cons i is ih =>
    simp only [assumptionsHold, Bool.and_eq_true] at h
    obtain ⟨⟨hh, he⟩, hrest⟩ := h
    rw [hostOk_eq c g s i] at hh
    rw [envOk_eq c hs] at he
    intro go hgo
    simp only [traceG, List.mem_cons] at hgo
    rcases hgo with rfl | hgo
    · refine ⟨?_, ?_, ?_⟩
      · intro htx
        simp only [out_txValid] at htx
        have := inv_safe hinv hh he htx
        exact ⟨this.1, by simpa [out_rxActive, skelIn] using this.2.1⟩
      · intro ⟨h1, h2⟩
        simp only [out_hsValid, out_genValid] at h1 h2
        have htx : aTxValid (skel s) (skelIn c s i) = true := by simp [aTxValid, skel, h1]
        exact (inv_safe hinv hh he htx).2.2 ⟨h1, h2⟩
      · intro hp
        simp only [pulse_eq c hs] at hp
        obtain ⟨k, hk, h1, h2⟩ := pulse_window hinv hp
        refine ⟨k, hk, h1, h2, ?_⟩
        have hw : g.win ≠ .closed := by simp [hk]
        simpa [out_rxActive, skelIn] using (open_facts hinv hh hw).1
    · apply ih _ _ _ hrest _ hgo
      rw [skel_step c hs, ghost_eq c hs]
      exact inv_step hinv (skelIn_ok c s i) hh he (delay_le_max _ _ hs) hT

/-- **The device never transmits while a received packet is in progress** (cycle level, whole composition). -/
theorem tx_never_during_rx (c : Config) (p : Params) (hs : strobes c.tok.timer c.speed = true)
    (hT : delayOf c.tok.timer c.speed + p.L + 2 < p.T) (ins : List In)
    (h : assumptionsHold c p init ghostInit ins = true) :
    ∀ o ∈ run c init ins, o.txValid = true → o.rxActive = false := by
  rw [run_eq_traceG c p init ghostInit ins]
  intro o ho
  obtain ⟨go, hgo, rfl⟩ := List.mem_map.mp ho
  intro htx
  exact ((safe_all c p hs hT ins init ghostInit (by rw [skel_init]; exact inv_init _ _) h go hgo).1 htx).2

/-- Every cycle with `tx_valid` lies inside a response window: the transmission was solicited by an IN/PING token
accepted by the token detector or by a data packet with a good CRC16, and started before the host's time-out. -/
theorem tx_only_in_response_window (c : Config) (p : Params) (hs : strobes c.tok.timer c.speed = true)
    (hT : delayOf c.tok.timer c.speed + p.L + 2 < p.T) (ins : List In)
    (h : assumptionsHold c p init ghostInit ins = true) :
    ∀ go ∈ traceG c p init ghostInit ins, go.2.txValid = true → go.1.win ≠ .closed := by
  intro go hgo htx
  exact ((safe_all c p hs hT ins init ghostInit (by rw [skel_init]; exact inv_init _ _) h go hgo).1 htx).1

/-- The handshake generator and the data packet generator are never valid in the same cycle: every byte on the bus
comes from a single transmitter (with `mux_single_source`). -/
theorem transmitters_exclusive (c : Config) (p : Params) (hs : strobes c.tok.timer c.speed = true)
    (hT : delayOf c.tok.timer c.speed + p.L + 2 < p.T) (ins : List In)
    (h : assumptionsHold c p init ghostInit ins = true) :
    ∀ o ∈ run c init ins, ¬ (o.hsValid = true ∧ o.genValid = true) := by
  rw [run_eq_traceG c p init ghostInit ins]
  intro o ho
  obtain ⟨go, hgo, rfl⟩ := List.mem_map.mp ho
  exact (safe_all c p hs hT ins init ghostInit (by rw [skel_init]; exact inv_init _ _) h go hgo).2.1

/-- The timing link: a `ready_for_response` pulse that an endpoint may answer occurs only `delay+1` (or, when an
endpoint restarted the shared timer, `delay+2`) cycles after the soliciting packet ended, with the receive line idle in
that cycle (and, by `hostOk`, in every cycle since the packet ended). -/
theorem pulse_only_after_delay (c : Config) (p : Params) (hs : strobes c.tok.timer c.speed = true)
    (hT : delayOf c.tok.timer c.speed + p.L + 2 < p.T) (ins : List In)
    (h : assumptionsHold c p init ghostInit ins = true) :
    ∀ go ∈ traceG c p init ghostInit ins, pulse go.2 = true →
      ∃ k, go.1.win = .wait k ∧ delayOf c.tok.timer c.speed ≤ k ∧ k ≤ delayOf c.tok.timer c.speed + 1 ∧
        go.2.rxActive = false := by
  intro go hgo hp
  exact (safe_all c p hs hT ins init ghostInit (by rw [skel_init]; exact inv_init _ _) h go hgo).2.2 hp

/-! ### Non-vacuity: the hypotheses are satisfiable by histories in which the device really transmits -/

/-- `USBDevice` on a plain UTMI bus: 12 MHz, full-speed only, speed FULL; host time-out 16, endpoint latency 8. -/
def exCfg : Config := ⟨⟨true, ⟨true, true⟩⟩, 1⟩
def exPar : Params := ⟨16, 8⟩

def quietIn : In :=
  { rx := ⟨false, false, 0⟩, txReady := true, address := 0, ack := false, nak := false, stall := false,
    sValid := false, sFirst := false, sLast := false, sPayload := 0, pidToggle := 0, timerStart := false,
    crcStart := false, rsValid := false, rsData := 0 }

def rxIn (c : Utmi.RxCycle) : In := { quietIn with rx := c }

/-- IN token (address 0, endpoint 0: 69 00 10), three idle cycles, NAK requested at the `ready_for_response` pulse,
the handshake generator transmits in the next cycle. -/
def exNak : List In :=
  [rxIn (Utmi.waitC 0), rxIn (Utmi.byteC 0x69), rxIn (Utmi.byteC 0x00), rxIn (Utmi.byteC 0x10),
   quietIn, quietIn, quietIn, quietIn, { quietIn with nak := true }, quietIn, quietIn, quietIn]

example : strobes exCfg.tok.timer exCfg.speed = true ∧ delayOf exCfg.tok.timer exCfg.speed + exPar.L + 2 < exPar.T := by
  decide

example : assumptionsHold exCfg exPar init ghostInit exNak = true := by decide

example : (run exCfg init exNak).map (fun o => (o.txValid, o.txData)) =
    [(false, 0), (false, 0), (false, 0), (false, 0), (false, 0), (false, 0), (false, 0), (false, 0), (false, 0),
     (true, 0x5A), (false, 0), (false, 0)] := by decide

/-- IN token, then the endpoint starts a one-byte data packet two cycles after the pulse (stream `first & last`). -/
def exData : List In :=
  [rxIn (Utmi.waitC 0), rxIn (Utmi.byteC 0x69), rxIn (Utmi.byteC 0x00), rxIn (Utmi.byteC 0x10),
   quietIn, quietIn, quietIn, quietIn, quietIn, quietIn,
   { quietIn with sValid := true, sFirst := true, sLast := true, sPayload := 0xAB },
   { quietIn with sValid := true, sFirst := true, sLast := true, sPayload := 0xAB },
   { quietIn with sValid := true, sFirst := true, sLast := true, sPayload := 0xAB },
   quietIn, quietIn, quietIn, quietIn]

example : assumptionsHold exCfg exPar init ghostInit exData = true := by decide

example : (run exCfg init exData).map (·.txValid) =
    [false, false, false, false, false, false, false, false, false, false, false, true, true, true, true, false,
     false] := by decide

/-- The host assumption is not redundant: if the host starts a packet inside the response window, the same device
transmits while `rx_active` is high. -/
def exCollide : List In :=
  [rxIn (Utmi.waitC 0), rxIn (Utmi.byteC 0x69), rxIn (Utmi.byteC 0x00), rxIn (Utmi.byteC 0x10),
   quietIn, quietIn, quietIn, quietIn, { quietIn with nak := true }, rxIn (Utmi.waitC 0)]

example : assumptionsHold exCfg exPar init ghostInit exCollide = false ∧
    (run exCfg init exCollide).any (fun o => o.txValid && o.rxActive) = true := by decide

end LunaVerif.DevCyc
