import LunaVerif.Props.C57
/-!
# C57 — whole-device histories: ghost history variables and the instrumented run

The rx / tx order theorems of `Props/C57.lean` are stated on endpoint OPERATIONS.  Here they are lifted to event
histories of the whole `USBSerialDevice` model (`Full.step` with the endpoint list of `acmCfg`): every event
kind of `HostEvent` (tokens for any address / endpoint, data packets good or corrupted, handshakes, control
transfers — CLEAR_FEATURE(ENDPOINT_HALT) included —, bus reset, produce / consume, …).

What the host and the application can OBSERVE is recorded in ghost history variables (`Ghost`), computed by
`ghostStep` from the event, the device's answer (`Obs`) and the token detector's outputs only — never from the
endpoints' buffers or toggles:

* `acked`     payloads of the data packets for OUT endpoint 4 that the device ACKed with a fresh toggle (USB 2.0
              §8.6: the receiver's sequence bit `rxBit` starts at DATA0 and flips on every packet accepted),
* `delivered` bytes read from the rx stream (`consume` events),
* `produced`  bytes the tx stream accepted (`produce` events: the first `count` bytes of each chunk),
* `kept`      bytes the host accepted from IN endpoint 4 by the toggle rule (host sequence bit `hostBit`).

The device-side event history cannot say whether the host received an answer of the device: an event is annotated
with `got` ("the host receives the device's answer to this event intact"; only used for IN tokens).

CLEAR_FEATURE(ENDPOINT_HALT), as coded (the standard handler strobes the halt-clear when the host's ACK of the
status stage arrives; `ctxOf … .clearHalt`):
* OUT 4: the expected toggle becomes DATA0; buffered data stay.  Ghost: `rxBit := false`.
* IN 4 : the next packet is sent as DATA0 — also a packet that is already waiting for its (re)transmission; the
  buffers stay.  The host restarts with DATA0 as well (`hostBit := false`).  If the host had accepted a packet
  whose ACK the device has not seen (`unconfirmed`), the device sends that packet again as DATA0 and the host,
  which now expects DATA0, accepts it a SECOND time: `redo` marks this, the re-delivered packet is logged in
  `redone` (with the packet accepted before) instead of `kept`, `ambiguousClears` counts these halt-clears.
A bus reset changes neither toggles nor buffers (device.py resets address and configuration only), so the ghost
host keeps its sequence bits as well.
-/
namespace LunaVerif.C57
open LunaVerif LunaVerif.Device LunaVerif.Device.Full

/-- A host event plus `got`: the host receives the device's answer to this event intact. -/
structure AEvent where
  ev  : HostEvent
  got : Bool := true
deriving Repr, DecidableEq

structure Ghost where
  -- host -> device (OUT endpoint 4)
  rxBit       : Bool := false        -- receiver's sequence bit as the USB 2.0 toggle rule prescribes it
  acked       : List Nat := []       -- payloads ACKed with a fresh toggle
  delivered   : List Nat := []       -- bytes read from the rx stream
  -- device -> host (IN endpoint 4)
  produced    : List Nat := []       -- bytes the tx stream accepted
  hostBit     : Bool := false        -- the host's sequence bit
  kept        : List Nat := []       -- bytes the host accepted (first delivery)
  lastGot     : Bool := false        -- the previous event was an IN token for endpoint 4 whose DATA answer the host got
  lastPkt     : List Nat := []       -- the packet the host accepted last
  unconfirmed : Bool := false        -- … and the device has not seen an ACK since
  redo        : Bool := false        -- a halt-clear arrived while `unconfirmed`: the next packet accepted is a re-delivery
  redone      : List (List Nat × List Nat) := []   -- (packet accepted again, packet accepted before it)
  ambiguousClears : Nat := 0
deriving Repr, DecidableEq

/-- The ghost history after one event of the device in state `s` (before the event) that was answered `o`. -/
def ghostStep (s : FullState) (g : Ghost) (a : AEvent) (o : Obs) : Ghost :=
  let g0 := { g with lastGot := false }
  match a.ev with
  | .data pid payload _ =>
      -- a data packet while the token detector shows an OUT token for endpoint 4, ACKed, toggle as expected
      if s.ctl.tokPid = PID_OUT ∧ s.ctl.tokEp = 4 ∧ o.resp = .hs PID_ACK ∧ pidToggle pid = g.rxBit then
        { g0 with rxBit := !g.rxBit, acked := g.acked ++ payload }
      else g0
  | .consume ep _ => if ep = 4 then { g0 with delivered := g.delivered ++ bytesOf o.delivery.items } else g0
  | .produce ep bytes _ => if ep = 4 then { g0 with produced := g.produced ++ bytes.take o.delivery.count } else g0
  | .token pid addr ep =>
      if pid = PID_IN ∧ addr = s.ctl.address ∧ ep = 4 then
        match o.resp with
        | .data dp payload =>
            if a.got then
              if pidToggle dp = g.hostBit then
                -- a new packet by the toggle rule
                if g.redo then
                  { g with lastGot := true, hostBit := !g.hostBit, redo := false, unconfirmed := true,
                           redone := g.redone ++ [(payload, g.lastPkt)], lastPkt := payload }
                else
                  { g with lastGot := true, hostBit := !g.hostBit, unconfirmed := true,
                           kept := g.kept ++ payload, lastPkt := payload }
              else { g with lastGot := true }      -- a retransmission: discarded (and ACKed)
            else g0
        | _ => g0
      else g0
  | .handshake pid =>
      let x := ctxOf s.ctl a.ev
      -- the ACK of the packet the host has just received reaches the device
      let g1 := if pid = PID_ACK ∧ s.ctl.tokPid = PID_IN ∧ s.ctl.tokEp = 4 ∧ g.lastGot = true then
                  { g0 with unconfirmed := false } else g0
      -- CLEAR_FEATURE(ENDPOINT_HALT) takes effect with this ACK
      let g2 := if haltFor x false 4 then { g1 with rxBit := false } else g1
      if haltFor x true 4 then
        { g2 with hostBit := false, redo := g2.redo || g2.unconfirmed, unconfirmed := false,
                  ambiguousClears := g2.ambiguousClears + (if g2.unconfirmed then 1 else 0) }
      else g2
  | _ => g0

/-- Device and ghost history, event by event. -/
def runG (c : FullConfig) : FullState → Ghost → List AEvent → FullState × Ghost
  | s, g, [] => (s, g)
  | s, g, a :: as => runG c (Full.step c s a.ev).1 (ghostStep s g a (Full.step c s a.ev).2) as

theorem runG_state (c : FullConfig) (s : FullState) (g : Ghost) (h : List AEvent) :
    (runG c s g h).1 = Full.final c s (h.map (·.ev)) := by
  induction h generalizing s g with
  | nil => rfl
  | cons a as ih => simp [runG, Full.final, ih]

/-- **Environment hypothesis of the tx theorem**: the host ACKs a data packet of IN endpoint 4 only if it has
received it — a handshake ACK that arrives while the token detector shows the IN token for endpoint 4 follows
directly on that token's DATA answer, and the host got that answer (`got`). -/
def ackOk (s : FullState) (g : Ghost) (a : AEvent) : Bool :=
  match a.ev with
  | .handshake pid => !(pid == PID_ACK && s.ctl.tokPid == PID_IN && s.ctl.tokEp == 4) || g.lastGot
  | _ => true

def acksFrom (c : FullConfig) : FullState → Ghost → List AEvent → Bool
  | _, _, [] => true
  | s, g, a :: as => ackOk s g a && acksFrom c (Full.step c s a.ev).1 (ghostStep s g a (Full.step c s a.ev).2) as

/-- `HostAcksWhatItGot c h`: along the annotated history `h` from the freshly reset device. -/
def HostAcksWhatItGot (c : FullConfig) (h : List AEvent) : Bool := acksFrom c (Full.init c) {} h

/-! ## The shape of the serial device's endpoint list -/

/-- The device has the endpoints of `USBSerialDevice`: IN 3 (status), OUT 4 (rx), IN 4 (tx). -/
def ep3 : EpCfg := { kind := .streamIn, num := 3, mps := 64 }
def ep4o : EpCfg := { kind := .streamOut, num := 4, mps := 64, depth := 127 }
def ep4i : EpCfg := { kind := .streamIn, num := 4, mps := 64 }

def IsSerial (c : FullConfig) : Prop := c.eps = [ep3, ep4o, ep4i]

theorem acmCfg_isSerial : IsSerial acmCfg := rfl

/-- The endpoint states are those of the status endpoint, the rx endpoint `b` and the tx endpoint `d`. -/
def Shape (s : FullState) (a : InEp) (b : OutEp) (d : InEp) : Prop := s.eps = [.sIn a, .sOut b, .sIn d]

theorem shape_init (c : FullConfig) (hc : IsSerial c) : Shape (Full.init c) {} {} {} := by
  unfold IsSerial at hc
  simp [Shape, Full.init, hc, initEp, ep3, ep4o, ep4i]

theorem step_eps (c : FullConfig) (hc : IsSerial c) (s : FullState) (a : InEp) (b : OutEp) (d : InEp)
    (hs : Shape s a b d) (ev : HostEvent) :
    (Full.step c s ev).1.eps =
      [(epStep ep3 (.sIn a) (ctxOf s.ctl ev) ev).1, (epStep ep4o (.sOut b) (ctxOf s.ctl ev) ev).1,
       (epStep ep4i (.sIn d) (ctxOf s.ctl ev) ev).1] := by
  unfold Shape at hs
  unfold IsSerial at hc
  simp [Full.step, hc, hs, epsStep]

theorem step_ctl (c : FullConfig) (s : FullState) (ev : HostEvent) :
    (Full.step c s ev).1.ctl = (Device.step c.dev s.ctl
      { ev := ev, foreign := firstResp ((epsStep (ctxOf s.ctl ev) ev c.eps s.eps).map (·.2.1)) }).1 := rfl

theorem step_delivery (c : FullConfig) (hc : IsSerial c) (s : FullState) (a : InEp) (b : OutEp) (d : InEp)
    (hs : Shape s a b d) (ev : HostEvent) :
    (Full.step c s ev).2.delivery = firstDelivery
      [(epStep ep3 (.sIn a) (ctxOf s.ctl ev) ev).2.2, (epStep ep4o (.sOut b) (ctxOf s.ctl ev) ev).2.2,
       (epStep ep4i (.sIn d) (ctxOf s.ctl ev) ev).2.2] := by
  unfold Shape at hs
  unfold IsSerial at hc
  simp [Full.step, hc, hs, epsStep]

/-- The new endpoint states always have the same shape. -/
theorem shape_step (c : FullConfig) (hc : IsSerial c) (s : FullState) (a : InEp) (b : OutEp) (d : InEp)
    (hs : Shape s a b d) (ev : HostEvent) : ∃ a' b' d', Shape (Full.step c s ev).1 a' b' d' := by
  unfold Shape
  rw [step_eps c hc s a b d hs ev]
  cases ev <;> simp only [epStep] <;> (repeat' split) <;> exact ⟨_, _, _, rfl⟩

end LunaVerif.C57
