import LunaVerif.Lemmas.C07Closed
import LunaVerif.Props.C09Seq
/-!
# The closed loop with BOTH streamers: `CtrlCyc.step` + serializer model + block descriptor handler model (`sys2Step`)

`Model/Usb2/ControlCycSys.lean` also wires the model of `GetDescriptorHandlerBlock` (C09, Model/Usb2/DescriptorBlock.lean)
to the cycle-level control-endpoint model.  This file proves that over the expansion of ANY event history the closed loop
of the three models behaves exactly like the open-loop model on an expansion of the same history -- the descriptor
handler model produces the beats the stream contract puts into its windows, with the latency it has (`1 ≤ lat ≤ 4`;
the theorem provides the latencies), and is idle again at the end of every event -- so the refinement
`cycle_refines_event_streams_run` holds of the closed loop with NO stream contract at all
(`closed2_refines_event_run`).  Hypotheses left: the constructor preconditions of the block handler (`wellFormed`
collection, position register ≥ 2 bits, `max_packet_size` a power of two), in-order descriptor reads
(`start_position ≤ min(wLength, |descriptor|)`: the host stops after a short packet), and the host-side contract
that a started stream is consumed within the event's window.
-/
namespace LunaVerif.CtrlCyc
open LunaVerif.Device LunaVerif.StreamGen

/-! ### Basics -/

/-- The descriptor-handler inputs of the cycle are silent. -/
def DS (i : CycIn) : Prop :=
  i.dValid = false ∧ i.dFirst = false ∧ i.dLast = false ∧ i.dPayload = 0 ∧ i.dStall = false

instance (i : CycIn) : Decidable (DS i) := by unfold DS; infer_instance

theorem withD_of_DS (i : CycIn) (h : DS i) : withD i Desc.Beat.quiet = i := by
  obtain ⟨a, b, c, d, e⟩ := h
  cases i
  simp_all [withD, Desc.Beat.quiet]

theorem withD_eq (i : CycIn) (b : Desc.Beat) (h1 : b.valid = i.dValid) (h2 : b.first = i.dFirst) (h3 : b.last = i.dLast)
    (h4 : b.payload = i.dPayload) (h5 : b.stall = i.dStall) : withD i b = i := by
  cases i
  simp_all [withD]

theorem step_withD_wires (c : Cfg) (cs : CycState) (i : CycIn) (b : Desc.Beat) :
    serInOf (step c cs (withD i b)).2.h = serInOf (step c cs i).2.h ∧
    blkInOf cs (withD i b) (step c cs (withD i b)).2.h = blkInOf cs i (step c cs i).2.h := by
  simp only [step_hout]
  have hcc : ctrlComb c cs.stage (withD i b) = ctrlComb c cs.stage i := rfl
  rw [hcc]
  simp only [stdStep]
  have hsu : (handlerIn (withD i b) (ctrlComb c cs.stage i)).su = (handlerIn i (ctrlComb c cs.stage i)).su := rfl
  rw [hsu]
  split
  · simp only [stdComb]
    cases cs.h.hstate <;> exact ⟨rfl, rfl⟩
  · exact ⟨rfl, rfl⟩

theorem step_withT_blkwires (c : Cfg) (cs : CycState) (i : CycIn) (so : SerOut) :
    blkInOf cs (withT i so) (step c cs (withT i so)).2.h = blkInOf cs i (step c cs i).2.h := by
  simp only [step_hout]
  have hcc : ctrlComb c cs.stage (withT i so) = ctrlComb c cs.stage i := rfl
  rw [hcc]
  simp only [stdStep]
  have hsu : (handlerIn (withT i so) (ctrlComb c cs.stage i)).su = (handlerIn i (ctrlComb c cs.stage i)).su := rfl
  rw [hsu]
  split
  · simp only [stdComb]
    cases cs.h.hstate <;> rfl
  · rfl

/-- Over the cycles `is` the closed loop of the three models does what the open-loop model does on the same cycles;
the serializer ends in `ser'`, the descriptor handler in `blk'`. -/
def CL2 (c : Cfg) (bc : Desc.Block.Config) (s : Sys2State) (is : List CycIn) (ser' : SerState)
    (blk' : Desc.Block.State) : Prop :=
  sys2Final c bc s is = ⟨final c s.cs is, ser', blk'⟩ ∧ (sys2Run c bc s is).map (·.2) = outs c s.cs is

theorem sys2Final_append (c : Cfg) (bc : Desc.Block.Config) (s : Sys2State) (a b : List CycIn) :
    sys2Final c bc s (a ++ b) = sys2Final c bc (sys2Final c bc s a) b := by
  induction a generalizing s with
  | nil => rfl
  | cons i is ih => exact ih _

theorem sys2Run_append (c : Cfg) (bc : Desc.Block.Config) (s : Sys2State) (a b : List CycIn) :
    sys2Run c bc s (a ++ b) = sys2Run c bc s a ++ sys2Run c bc (sys2Final c bc s a) b := by
  induction a generalizing s with
  | nil => rfl
  | cons i is ih => simp only [List.cons_append, sys2Run, sys2Final, ih]

theorem CL2.nil (c : Cfg) (bc : Desc.Block.Config) (s : Sys2State) : CL2 c bc s [] s.ser s.blk := ⟨rfl, rfl⟩

theorem CL2.append {c : Cfg} {bc : Desc.Block.Config} {s : Sys2State} {a b : List CycIn} {s1 s2 : SerState}
    {b1 b2 : Desc.Block.State}
    (h1 : CL2 c bc s a s1 b1) (h2 : CL2 c bc ⟨final c s.cs a, s1, b1⟩ b s2 b2) : CL2 c bc s (a ++ b) s2 b2 := by
  obtain ⟨a1, a2⟩ := h1
  obtain ⟨e1, e2⟩ := h2
  refine ⟨?_, ?_⟩
  · rw [sys2Final_append, a1, e1, final_append]
  · rw [sys2Run_append, List.map_append, a2, a1, e2, outs_append]

/-- One cycle in which both streamers' outputs are what the cycle's inputs already say. -/
theorem CL2.single {c : Cfg} {bc : Desc.Block.Config} {s : Sys2State} {i : CycIn}
    (ht : withT i (serCycle c ⟨s.cs, s.ser⟩ i).2 = i) (hd : withD i (blkCycle c bc s.cs s.blk i).2 = i) :
    CL2 c bc s [i] (serCycle c ⟨s.cs, s.ser⟩ i).1 (blkCycle c bc s.cs s.blk i).1 := by
  refine ⟨?_, ?_⟩
  · simp only [sys2Final, sys2Step, ht, hd, final]
  · simp only [sys2Run, sys2Step, ht, hd, List.map_cons, List.map_nil, outs, run]

theorem CL2.cons {c : Cfg} {bc : Desc.Block.Config} {s : Sys2State} {i : CycIn} {is : List CycIn} {s2 : SerState}
    {b2 : Desc.Block.State}
    (ht : withT i (serCycle c ⟨s.cs, s.ser⟩ i).2 = i) (hd : withD i (blkCycle c bc s.cs s.blk i).2 = i)
    (h2 : CL2 c bc ⟨(step c s.cs i).1, (serCycle c ⟨s.cs, s.ser⟩ i).1, (blkCycle c bc s.cs s.blk i).1⟩ is s2 b2) :
    CL2 c bc s (i :: is) s2 b2 :=
  CL2.append (a := [i]) (CL2.single ht hd) h2

/-! ### The block descriptor handler while it is not started -/

theorem blk_idle (bc : Desc.Block.Config) (b : Desc.Block.State) (w : Desc.Block.In) (hb : b.fsm = .idle) :
    (Desc.Block.step bc b w).2 = Desc.Beat.quiet ∧ (w.start = false → (Desc.Block.step bc b w).1.fsm = .idle) := by
  simp [Desc.Block.step, hb, Desc.Block.quiet]

/-- A STALL of the block handler is the one-cycle pulse `stallBeat`, and the handler is idle afterwards. -/
theorem blk_stall (bc : Desc.Block.Config) (b : Desc.Block.State) (w : Desc.Block.In)
    (h : (Desc.Block.step bc b w).2.stall = true) :
    (Desc.Block.step bc b w).2 = Desc.stallBeat ∧ (Desc.Block.step bc b w).1.fsm = .idle := by
  unfold Desc.Block.step at h ⊢
  cases hf : b.fsm <;> simp only [hf] at h ⊢ <;> (repeat' split at h) <;> (repeat' split) <;>
    simp_all [Desc.Block.quiet, Desc.Beat.quiet, Desc.stallBeat]

theorem blk_idle_run (bc : Desc.Block.Config) (v l p : Nat) (rs : List Bool) : ∀ (b : Desc.Block.State),
    b.fsm = .idle → ∀ x ∈ Desc.Block.run bc b (Desc.Block.holdInputs v l p rs), x = Desc.Beat.quiet := by
  induction rs with
  | nil => intro b _ x hx; simp [Desc.Block.holdInputs, Desc.Block.run] at hx
  | cons r rs ih =>
    intro b hb x hx
    simp only [Desc.Block.holdInputs_cons, Desc.Block.run, List.mem_cons] at hx
    obtain ⟨q1, q2⟩ := blk_idle bc b ⟨v, l, p, false, r⟩ hb
    rcases hx with rfl | hx
    · exact q1
    · exact ih _ (q2 rfl) x hx

/-- No `ready_for_response`, silent streamer inputs. -/
def NR2 (i : CycIn) : Prop := i.readyForResponse = false ∧ TS i ∧ DS i

theorem cl2_quiet_cycle (c : Cfg) (bc : Desc.Block.Config) (s : Sys2State) (i : CycIn) (h : NR2 i) (hq : SerQ s.ser)
    (hb : s.blk.fsm = .idle) :
    withT i (serCycle c ⟨s.cs, s.ser⟩ i).2 = i ∧ (serCycle c ⟨s.cs, s.ser⟩ i).1.fsm = .idle ∧
    withD i (blkCycle c bc s.cs s.blk i).2 = i ∧ (blkCycle c bc s.cs s.blk i).1.fsm = .idle := by
  obtain ⟨hr, ht, hd⟩ := h
  obtain ⟨a1, a2⟩ := cl_quiet_cycle c ⟨s.cs, s.ser⟩ i hr ht hq
  obtain ⟨q1, q2⟩ := blk_idle bc s.blk (blkInOf s.cs i (step c s.cs i).2.h) hb
  refine ⟨a1, a2, ?_, ?_⟩
  · simp only [blkCycle, q1]; exact withD_of_DS i hd
  · exact q2 (streamers_not_started c s.cs i hr).2

theorem cl2_quiet (c : Cfg) (bc : Desc.Block.Config) (is : List CycIn) : ∀ (s : Sys2State), (∀ i ∈ is, NR2 i) →
    SerQ s.ser → s.blk.fsm = .idle →
    ∃ ser' blk', CL2 c bc s is ser' blk' ∧ SerQ ser' ∧ (is ≠ [] → ser'.fsm = .idle) ∧ blk'.fsm = .idle := by
  induction is with
  | nil => intro s _ hq hb; exact ⟨s.ser, s.blk, CL2.nil c bc s, hq, fun h => absurd rfl h, hb⟩
  | cons i is ih =>
    intro s hall hq hb
    obtain ⟨h1, h2, h3, h4⟩ := cl2_quiet_cycle c bc s i (hall i (List.mem_cons_self ..)) hq hb
    obtain ⟨ser', blk', k1, k2, k3, k4⟩ := ih ⟨(step c s.cs i).1, (serCycle c ⟨s.cs, s.ser⟩ i).1, (blkCycle c bc s.cs s.blk i).1⟩
      (fun j hj => hall j (List.mem_cons_of_mem _ hj)) (Or.inl h2) h4
    refine ⟨ser', blk', CL2.cons h1 h3 k1, k2, fun _ => ?_, k4⟩
    cases is with
    | nil =>
      obtain ⟨e1, _⟩ := k1
      simp only [sys2Final] at e1
      have := congrArg Sys2State.ser e1
      simp only at this
      rw [← this]; exact h2
    | cons j js => exact k3 (by simp)

def AllNR2 (is : List CycIn) : Prop := ∀ i ∈ is, NR2 i

theorem AllNR2.nil : AllNR2 [] := fun _ h => by cases h
theorem AllNR2.cons {i : CycIn} {is : List CycIn} (h1 : NR2 i) (h2 : AllNR2 is) : AllNR2 (i :: is) := by
  intro j hj
  rcases List.mem_cons.mp hj with rfl | hj
  · exact h1
  · exact h2 j hj
theorem AllNR2.append {a b : List CycIn} (h1 : AllNR2 a) (h2 : AllNR2 b) : AllNR2 (a ++ b) := by
  intro j hj
  rcases List.mem_append.mp hj with hj | hj
  · exact h1 j hj
  · exact h2 j hj

theorem ds_calm (d : DevState) (n : CycIn) (h : DS n) : DS (envIn d (calm d n)) := by
  obtain ⟨h1, h2, h3, h4, h5⟩ := h
  unfold calm
  cases d.hstate <;>
    exact ⟨by simp [envIn, h1], by simp [envIn, h2], by simp [envIn, h3], by simp [envIn, h4], by simp [envIn, h5]⟩

/-- Silent streamer inputs on a free input record. -/
def TDS (n : CycIn) : Prop := TS n ∧ DS n

instance (n : CycIn) : Decidable (TDS n) := by unfold TDS; infer_instance

theorem allNR2_idleS (d : DevState) (ns : List CycIn) (h : ∀ n ∈ ns, TDS n) : AllNR2 (idleS d ns) := by
  intro i hi
  simp only [idleS, List.mem_map] at hi
  obtain ⟨n, hn, rfl⟩ := hi
  exact ⟨rfl, ts_calm d n (h n hn).1, ds_calm d n (h n hn).2⟩

/-- The free inputs of the expansion leave all streamer inputs silent (the closed loop does not read them). -/
structure TDSil (g : GapsS) : Prop where
  pre    : ∀ n ∈ g.pre, TDS n
  mid    : ∀ n ∈ g.mid, TDS n
  mid2   : ∀ n ∈ g.mid2, TDS n
  post   : ∀ n ∈ g.post, TDS n
  stream : ∀ n ∈ g.stream, TDS n
  n1     : TDS g.n1
  n2     : TDS g.n2
  n3     : TDS g.n3

theorem nr2_calm (d : DevState) (n : CycIn) (h : TDS n) : NR2 (envIn d (calm d n)) :=
  ⟨rfl, ts_calm d n h.1, ds_calm d n h.2⟩

/-- Every event that is not a token for this device expands to cycles without `ready_for_response`. -/
theorem expandS_allNR2 (c : DevConfig) (d : DevState) (e : HostEvent) (g : GapsS) (ht : TDSil g)
    (hne : ∀ pid ep, e ≠ .token pid d.address ep) : AllNR2 (expandS c d e g) := by
  have hpre := allNR2_idleS d g.pre ht.pre
  have hpost := fun d' => allNR2_idleS d' g.post ht.post
  cases e with
  | token pid addr ep =>
    have ha : addr ≠ d.address := fun h => hne pid ep (by rw [h])
    simp only [expandS, ha, if_false]
    exact hpre.append (hpost _)
  | data dp p ok =>
    simp only [expandS]
    split
    · split
      · exact hpre.append (AllNR2.append (AllNR2.cons (nr2_calm d g.n1 ht.n1) AllNR2.nil)
          ((allNR2_idleS _ g.mid ht.mid).append (AllNR2.append (AllNR2.cons (nr2_calm _ g.n2 ht.n2) AllNR2.nil)
            ((allNR2_idleS _ g.mid2 ht.mid2).append
              (AllNR2.append (AllNR2.cons (nr2_calm _ g.n3 ht.n3) AllNR2.nil) (hpost _))))))
      · exact hpre.append (AllNR2.append (AllNR2.cons (nr2_calm d g.n1 ht.n1) AllNR2.nil) (hpost _))
    · exact hpre.append (hpost _)
  | handshake pid =>
    simp only [expandS]
    split
    · exact hpre.append (AllNR2.append (AllNR2.cons (nr2_calm d g.n1 ht.n1) AllNR2.nil) (hpost _))
    · exact hpre.append (hpost _)
  | busReset => exact hpre.append (hpost _)
  | sof f => exact hpre.append (hpost _)
  | malformed b => exact hpre.append (hpost _)
  | quiet => exact hpre.append (hpost _)
  | produce e' b l => exact hpre.append (hpost _)
  | consume e' k => exact hpre.append (hpost _)
  | setSignal e' v => exact hpre.append (hpost _)

/-! ### The `ready_for_response` cycle -/

/-- Does the `ready_for_response` cycle in the event-level state `d` start the descriptor handler. -/
def dStarts (c : DevConfig) (d : DevState) : Bool :=
  match streamOf c d with
  | some (true, _) => true
  | _ => false

theorem ready_dStart (c : DevConfig) (d : DevState) (n : CycIn) (cs : CycState) (hr : Rel d cs) :
    (step (cfgOf c) cs { envIn d n with readyForResponse := true }).2.h.dStart = dStarts c d := by
  obtain ⟨hst, h1, h2, h3⟩ := hr
  have hcc := ctrlComb_ready' c d n
  simp only [step_hout, hst, hcc]
  unfold dStarts streamOf
  by_cases hty : d.setup.type = TYPE_STANDARD
  · cases hdr : readyDr d <;> cases hd : d.hstate <;>
      simp [stdStep, hty, stdComb, h1, hd, simpleDataOut, regWriteZlp, handlerIn, envIn]
  · simp [stdStep, hty, handlerIn, envIn]

/-- The serializer in a window cycle of the transmitter (`cl_send`, one cycle). -/
theorem send_cycle (c : DevConfig) (d : DevState) (hs : StreamState d false) (L d0 : Nat) (ha : TxAns d L d0)
    (k : Nat) (hk : k < L) (n : CycIn) (cs : CycState) (hr : Rel d cs) :
    serCycle (cfgOf c) ⟨cs, ⟨.streaming, k, k⟩⟩
        (envIn d (beatIn false ⟨true, k == 0, k + 1 == L, ([d0, 0].take L).getD k 0, false⟩ n)) =
      (if n.txReady then (if k + 1 = L then ⟨.done, k, k⟩ else ⟨.streaming, k + 1, k + 1⟩) else ⟨.streaming, k, k⟩,
       ⟨true, ([d0, 0].take L).getD k 0, k == 0, k + 1 == L, false⟩) := by
  have hkk : (L = 1 ∧ k = 0) ∨ (L = 2 ∧ k = 0) ∨ (L = 2 ∧ k = 1) := by
    rcases ha with ⟨_, rfl, _⟩ | ⟨_, rfl, _⟩ <;> omega
  obtain ⟨L', d0', ha', hwire⟩ := window_serIn c d ⟨true, k == 0, k + 1 == L, ([d0, 0].take L).getD k 0, false⟩ n cs hr hs
  have hLL : L' = L ∧ d0' = d0 := by
    rcases ha with ⟨a1, a2, a3⟩ | ⟨a1, a2, a3⟩ <;> rcases ha' with ⟨b1, b2, b3⟩ | ⟨b1, b2, b3⟩ <;>
      first | (exact ⟨by omega, by omega⟩) | (rw [a1] at b1; cases b1)
  obtain ⟨rfl, rfl⟩ := hLL
  simp only [serCycle, hwire]
  exact ser_stream_step L' d0' k n.txReady hkk

/-! ### The transmitter's window (the descriptor handler idle) -/

theorem cl2_send (c : DevConfig) (bc : Desc.Block.Config) (d : DevState) (hs : StreamState d false) (L d0 : Nat)
    (ha : TxAns d L d0) :
    ∀ (ns : List CycIn) (k : Nat) (s : Sys2State), k < L → s.ser = ⟨.streaming, k, k⟩ → s.blk.fsm = .idle →
      Rel d s.cs → (∀ n ∈ ns, DS n) → L - k ≤ (ns.map (·.txReady)).count true →
      ∃ ser' blk', CL2 (cfgOf c) bc s (streamSeg d false (Desc.sendTrace ([d0, 0].take L) k (ns.map (·.txReady))) ns)
        ser' blk' ∧ SerQ ser' ∧ blk'.fsm = .idle := by
  have hlen : ([d0, 0].take L).length = L := by rcases ha with ⟨_, rfl, _⟩ | ⟨_, rfl, _⟩ <;> rfl
  intro ns
  induction ns with
  | nil => intro k s hk _ _ _ _ hcnt; simp at hcnt; omega
  | cons n ns ih =>
    intro k s hk hser hblk hr hds hcnt
    obtain ⟨cs, ser, blk⟩ := s
    simp only at hser hr hblk
    subst hser
    simp only [List.map_cons, Desc.sendTrace, hlen, hk, if_true, streamSeg]
    have hcyc := send_cycle c d hs L d0 ha k hk n cs hr
    have hwt : withT (envIn d (beatIn false ⟨true, k == 0, k + 1 == L, ([d0, 0].take L).getD k 0, false⟩ n))
        (serCycle (cfgOf c) ⟨cs, ⟨.streaming, k, k⟩⟩
          (envIn d (beatIn false ⟨true, k == 0, k + 1 == L, ([d0, 0].take L).getD k 0, false⟩ n))).2 =
        envIn d (beatIn false ⟨true, k == 0, k + 1 == L, ([d0, 0].take L).getD k 0, false⟩ n) := by
      rw [hcyc]; exact withT_eq _ _ rfl rfl rfl rfl
    -- the descriptor handler: not started, silent
    obtain ⟨q1, q2⟩ := blk_idle bc blk (blkInOf cs
      (envIn d (beatIn false ⟨true, k == 0, k + 1 == L, ([d0, 0].take L).getD k 0, false⟩ n))
      (step (cfgOf c) cs (envIn d (beatIn false ⟨true, k == 0, k + 1 == L, ([d0, 0].take L).getD k 0, false⟩ n))).2.h) hblk
    have hwd : withD (envIn d (beatIn false ⟨true, k == 0, k + 1 == L, ([d0, 0].take L).getD k 0, false⟩ n))
        (blkCycle (cfgOf c) bc cs blk
          (envIn d (beatIn false ⟨true, k == 0, k + 1 == L, ([d0, 0].take L).getD k 0, false⟩ n))).2 =
        envIn d (beatIn false ⟨true, k == 0, k + 1 == L, ([d0, 0].take L).getD k 0, false⟩ n) := by
      simp only [blkCycle, q1]
      exact withD_of_DS _ (hds n (List.mem_cons_self ..))
    have hbi : (blkCycle (cfgOf c) bc cs blk
        (envIn d (beatIn false ⟨true, k == 0, k + 1 == L, ([d0, 0].take L).getD k 0, false⟩ n))).1.fsm = .idle :=
      q2 (streamers_not_started (cfgOf c) cs _ rfl).2
    have hrel := (beat_cycle c d false ⟨true, k == 0, k + 1 == L, ([d0, 0].take L).getD k 0, false⟩ n hs rfl cs hr).1
    have hds' : ∀ m ∈ ns, DS m := fun m hm => hds m (List.mem_cons_of_mem _ hm)
    cases hrd : n.txReady with
    | false =>
      obtain ⟨ser', blk', k1, k2, k3⟩ := ih k ⟨_, ⟨.streaming, k, k⟩, _⟩ hk rfl hbi hrel hds' (by simpa [hrd] using hcnt)
      refine ⟨ser', blk', CL2.cons hwt hwd ?_, k2, k3⟩
      rw [hcyc]; simp only [hrd, Bool.false_eq_true, if_false]; exact k1
    | true =>
      by_cases hl : k + 1 = L
      · have hq : ∀ i ∈ streamSeg d false (Desc.sendTrace ([d0, 0].take L) (k + 1) (ns.map (·.txReady))) ns, NR2 i := by
          have hov := sendTrace_over ([d0, 0].take L) (k + 1) (by rw [hlen]; omega) (ns.map (·.txReady))
          generalize Desc.sendTrace ([d0, 0].take L) (k + 1) (ns.map (·.txReady)) = bs at hov
          clear ih hcnt hds
          induction bs generalizing ns with
          | nil => intro i hi; cases ns <;> simp [streamSeg] at hi
          | cons b bs ihb =>
            cases ns with
            | nil => intro i hi; simp [streamSeg] at hi
            | cons m ms =>
              intro i hi
              simp only [streamSeg, List.mem_cons] at hi
              rcases hi with rfl | hi
              · rw [hov b (List.mem_cons_self ..)]
                exact ⟨rfl, ⟨rfl, rfl, rfl, rfl⟩, hds' m (List.mem_cons_self ..)⟩
              · exact ihb ms (fun m' hm' => hds' m' (List.mem_cons_of_mem _ hm'))
                  (fun b' hb' => hov b' (List.mem_cons_of_mem _ hb')) i hi
        obtain ⟨ser', blk', k1, k2, _, k4⟩ := cl2_quiet (cfgOf c) bc _ ⟨_, ⟨.done, k, k⟩, _⟩ hq (Or.inr rfl) hbi
        refine ⟨ser', blk', CL2.cons hwt hwd ?_, k2, k4⟩
        rw [hcyc]; simp only [hrd, if_true, if_pos hl]; exact k1
      · obtain ⟨ser', blk', k1, k2, k3⟩ := ih (k + 1) ⟨_, ⟨.streaming, k + 1, k + 1⟩, _⟩ (by omega) rfl hbi hrel hds' (by
          simp [hrd] at hcnt; omega)
        refine ⟨ser', blk', CL2.cons hwt hwd ?_, k2, k3⟩
        rw [hcyc]; simp only [hrd, if_true, if_neg hl]; exact k1

/-! ### The descriptor handler's window (the transmitter idle) -/

/-- The descriptor handler's wires in a window cycle. -/
theorem window_blkIn (c : DevConfig) (d : DevState) (b : Desc.Beat) (n : CycIn) (cs : CycState) (hr : Rel d cs)
    (hs : StreamState d true) :
    blkInOf cs (envIn d (beatIn true b n)) (step (cfgOf c) cs (envIn d (beatIn true b n))).2.h =
      ⟨d.setup.value, d.setup.length, d.startPos, false, n.txReady⟩ := by
  have hw := window_wires c d true b n cs hr hs
  simp only [if_true] at hw
  have hst := (streamers_not_started (cfgOf c) cs (envIn d (beatIn true b n)) rfl).2
  simp only [blkInOf, hst, hw.1, hw.2]
  rfl

/-- **The block descriptor handler model produces the window's beats.**  If from its current state the handler model,
fed `value` / `length` / `start_position` of the request and the window's `tx.ready` pattern, produces the beats `bs`
(and is idle at the end), then in every cycle of the window `streamSeg m true bs ns` the closed loop's descriptor
handler shows exactly the beat of the cycle -- up to and including a STALL, after which the standard handler leaves
GET_DESCRIPTOR and the descriptor handler is idle and silent. -/
theorem cl2_desc (c : DevConfig) (bc : Desc.Block.Config) (m : DevState) (hs : StreamState m true) :
    ∀ (ns : List CycIn) (s : Sys2State), Rel m s.cs → SerQ s.ser → (∀ n ∈ ns, TS n) →
      (Desc.Block.final bc s.blk
        (Desc.Block.holdInputs m.setup.value m.setup.length m.startPos (ns.map (·.txReady)))).fsm = .idle →
      ∃ ser' blk', CL2 (cfgOf c) bc s
        (streamSeg m true (Desc.Block.run bc s.blk
          (Desc.Block.holdInputs m.setup.value m.setup.length m.startPos (ns.map (·.txReady)))) ns) ser' blk' ∧
        SerQ ser' ∧ blk'.fsm = .idle := by
  intro ns
  induction ns with
  | nil => intro s _ hq _ hf; exact ⟨s.ser, s.blk, CL2.nil _ _ s, hq, hf⟩
  | cons n ns ih =>
    intro s hr hq hts hf
    obtain ⟨cs, ser, blk⟩ := s
    simp only at hr hq hf
    simp only [List.map_cons, Desc.Block.holdInputs_cons, Desc.Block.run, Desc.Block.final, streamSeg] at hf ⊢
    -- the beat of this cycle is what the handler model produces from the held wires
    have hwire := window_blkIn c m (Desc.Block.step bc blk ⟨m.setup.value, m.setup.length, m.startPos, false, n.txReady⟩).2
      n cs hr hs
    have hcyc : blkCycle (cfgOf c) bc cs blk
        (envIn m (beatIn true (Desc.Block.step bc blk ⟨m.setup.value, m.setup.length, m.startPos, false, n.txReady⟩).2 n)) =
        Desc.Block.step bc blk ⟨m.setup.value, m.setup.length, m.startPos, false, n.txReady⟩ := by
      simp only [blkCycle, hwire]
    have hwd : withD (envIn m (beatIn true (Desc.Block.step bc blk ⟨m.setup.value, m.setup.length, m.startPos, false, n.txReady⟩).2 n))
        (blkCycle (cfgOf c) bc cs blk
          (envIn m (beatIn true (Desc.Block.step bc blk ⟨m.setup.value, m.setup.length, m.startPos, false, n.txReady⟩).2 n))).2 =
        envIn m (beatIn true (Desc.Block.step bc blk ⟨m.setup.value, m.setup.length, m.startPos, false, n.txReady⟩).2 n) := by
      rw [hcyc]; exact withD_eq _ _ rfl rfl rfl rfl rfl
    -- the transmitter: not started, silent
    obtain ⟨a1, a2⟩ := cl_quiet_cycle (cfgOf c) ⟨cs, ser⟩
      (envIn m (beatIn true (Desc.Block.step bc blk ⟨m.setup.value, m.setup.length, m.startPos, false, n.txReady⟩).2 n))
      rfl (hts n (List.mem_cons_self ..)) hq
    have hts' : ∀ x ∈ ns, TS x := fun x hx => hts x (List.mem_cons_of_mem _ hx)
    generalize hb0 : (Desc.Block.step bc blk ⟨m.setup.value, m.setup.length, m.startPos, false, n.txReady⟩) = st at *
    cases hst : st.2.stall with
    | false =>
      have hrel := (beat_cycle c m true st.2 n hs hst cs hr).1
      obtain ⟨ser', blk', k1, k2, k3⟩ := ih ⟨_, _, st.1⟩ hrel (Or.inl a2) hts' hf
      refine ⟨ser', blk', CL2.cons a1 hwd ?_, k2, k3⟩
      rw [hcyc]; exact k1
    | true =>
      -- STALL: one pulse, then the descriptor handler is idle and what follows is silent
      have hsb : st.2 = Desc.stallBeat ∧ st.1.fsm = .idle := by
        rw [← hb0] at hst ⊢; exact blk_stall bc blk _ hst
      have hq : ∀ i ∈ streamSeg m true (Desc.Block.run bc st.1
          (Desc.Block.holdInputs m.setup.value m.setup.length m.startPos (ns.map (·.txReady)))) ns, NR2 i := by
        have hov := blk_idle_run bc m.setup.value m.setup.length m.startPos (ns.map (·.txReady)) st.1 hsb.2
        generalize Desc.Block.run bc st.1
          (Desc.Block.holdInputs m.setup.value m.setup.length m.startPos (ns.map (·.txReady))) = bs at hov
        clear ih hf hts
        induction bs generalizing ns with
        | nil => intro i hi; cases ns <;> simp [streamSeg] at hi
        | cons b bs ihb =>
          cases ns with
          | nil => intro i hi; simp [streamSeg] at hi
          | cons y ys =>
            intro i hi
            simp only [streamSeg, List.mem_cons] at hi
            rcases hi with rfl | hi
            · rw [hov b (List.mem_cons_self ..)]
              exact ⟨rfl, hts' y (List.mem_cons_self ..), ⟨rfl, rfl, rfl, rfl, rfl⟩⟩
            · exact ihb ys (fun y' hy' => hts' y' (List.mem_cons_of_mem _ hy'))
                (fun b' hb' => hov b' (List.mem_cons_of_mem _ hb')) i hi
      obtain ⟨ser', blk', k1, k2, _, k4⟩ := cl2_quiet (cfgOf c) bc _
        ⟨(step (cfgOf c) cs (envIn m (beatIn true st.2 n))).1, _, st.1⟩ hq (Or.inl a2) hsb.2
      refine ⟨ser', blk', CL2.cons a1 hwd ?_, k2, k4⟩
      rw [hcyc]; exact k1

/-! ### A token for this device -/

theorem fits_mono (k j : Nat) (R : Desc.Response) (rs : List Bool) (hkj : k ≤ j) (h : Fits j R rs = true) :
    Fits k R rs = true := by
  unfold Fits at h ⊢
  simp only [Bool.and_eq_true, decide_eq_true_eq] at h ⊢
  refine ⟨by omega, ?_⟩
  cases R with
  | data b =>
    have := h.2
    simp only [decide_eq_true_eq] at this ⊢
    exact Nat.le_trans this (Desc.count_drop_le rs k j hkj)
  | zlp => rfl
  | stall => rfl
  | silent => rfl

theorem complete_of_fits (R : Desc.Response) (r0 : Bool) (rs : List Bool) (h : Fits 3 R rs = true) :
    Desc.Complete 4 R (r0 :: rs) := by
  unfold Fits at h
  simp only [Bool.and_eq_true, decide_eq_true_eq] at h
  refine ⟨by simp only [List.length_cons]; omega, ?_⟩
  intro b hb
  subst hb
  have := h.2
  simp only [decide_eq_true_eq] at this
  simpa using this

theorem streamOf_desc (c : DevConfig) (d : DevState) (R : Desc.Response) (h : streamOf c d = some (true, R)) :
    R = descResp (descriptorPacket c d.setup.value d.setup.length d.startPos) ∧
    (reqNowResult c d (readyDr d) (readySr d) (readyPing d)).1 = { d with expectingAck := true } ∧
    StreamState { d with expectingAck := true } true := by
  unfold streamOf at h
  split at h
  · rename_i hc
    obtain ⟨hdr, hty⟩ := hc
    cases hd : d.hstate <;> simp only [hd] at h <;> (first | (cases h; done) | skip)
    simp only [Option.some.injEq, Prod.mk.injEq] at h
    obtain ⟨_, rfl⟩ := h
    exact ⟨rfl, by simp [reqNowResult, hdr, reqNow, hty, hd], ⟨hty, by simp⟩⟩
  · exact absurd h (by simp)

/-- The descriptor request the event-level state `d1` stands for is well-sized and in order. -/
def DescReqOk (c : DevConfig) (d1 : DevState) : Bool :=
  decide (d1.setup.value < 65536) && decide (d1.setup.length < 65536) &&
  (match lookupDescriptor c.descriptors (d1.setup.value / 256 % 256) (d1.setup.value % 256) with
   | some dd => decide (d1.startPos ≤ min d1.setup.length dd.length) && decide (dd.length < 2 ^ c.posBits)
   | none => true)

theorem descReqOk_elim (c : DevConfig) (d1 : DevState) (h : DescReqOk c d1 = true) :
    d1.setup.value < 65536 ∧ d1.setup.length < 65536 ∧
    ∀ dd, lookupDescriptor c.descriptors (d1.setup.value / 256 % 256) (d1.setup.value % 256) = some dd →
      d1.startPos ≤ min d1.setup.length dd.length ∧ dd.length < 2 ^ c.posBits := by
  unfold DescReqOk at h
  simp only [Bool.and_eq_true, decide_eq_true_eq] at h
  refine ⟨h.1.1, h.1.2, ?_⟩
  intro dd hdd
  have := h.2
  rw [hdd] at this
  simpa using this

/-- What the window hypothesis of an event says for each kind of started streamer. -/
def ReadyFits (c : DevConfig) (d1 : DevState) (g : GapsS) : Bool :=
  match streamOf c d1 with
  | some (true, R) => Fits 3 R (g.stream.map (·.txReady)) && DescReqOk c d1
  | some (false, R) => decide (g.lat = 0) && Fits 0 R (g.stream.map (·.txReady))
  | none => true

theorem ds_ready (d : DevState) (n : CycIn) (h : DS n) : DS { envIn d n with readyForResponse := true } := h

/-- The `ready_for_response` cycle, the started streamer's window and the idle cycles after it -- closed loop with both
streamers.  For a descriptor window the latency `k + 1` is the block handler model's (`k ≤ 3`). -/
theorem closed_ready2 (c : DevConfig) (hx : c.extra = [])
    (hwf : Desc.wellFormed (collOf c.descriptors) = true)
    (hm : c.maxPacket = 8 ∨ c.maxPacket = 16 ∨ c.maxPacket = 32 ∨ c.maxPacket = 64)
    (hpw : 2 ≤ (Desc.Rom.layout (collOf c.descriptors)).maxLen)
    (d1 : DevState) (g : GapsS) (dpost : DevState) (hsn : g.stallNow = false) (hfit : ReadyFits c d1 g = true)
    (ht : TDSil g) (s : Sys2State) (hr : Rel d1 s.cs) (hq : s.ser.fsm = .idle) (hb : s.blk.fsm = .idle) :
    ∃ k ser' blk', (k ≤ 3 ∨ k = g.lat) ∧
      (match streamOf c d1 with
       | some (_, R) => Fits k R (g.stream.map (·.txReady)) = true
       | none => True) ∧
      CL2 (cfgOf c) (Desc.blockOf (collOf c.descriptors) c.maxPacket) s
        (readySeg c d1 { g with lat := k } ++ idleS dpost g.post) ser' blk' ∧ SerQ ser' ∧ blk'.fsm = .idle := by
  have hpost := allNR2_idleS dpost g.post ht.post
  obtain ⟨cs, ser, blk⟩ := s
  simp only at hr hq hb
  have hsn' : ∀ k, stallsNow c d1 { g with lat := k } = false := by intro k; simp [stallsNow, hsn]
  have htr : TS { envIn d1 (calm d1 g.n2) with readyForResponse := true } := ts_calm d1 g.n2 ht.n2.1
  have hdr : DS { envIn d1 (calm d1 g.n2) with readyForResponse := true } := ds_calm d1 g.n2 ht.n2.2
  -- the descriptor handler in the ready cycle: idle, so silent in this cycle whatever `start` is
  obtain ⟨qb1, qb2⟩ := blk_idle (Desc.blockOf (collOf c.descriptors) c.maxPacket) blk
    (blkInOf cs { envIn d1 (calm d1 g.n2) with readyForResponse := true }
      (step (cfgOf c) cs { envIn d1 (calm d1 g.n2) with readyForResponse := true }).2.h) hb
  have hwd : withD { envIn d1 (calm d1 g.n2) with readyForResponse := true }
      (blkCycle (cfgOf c) (Desc.blockOf (collOf c.descriptors) c.maxPacket) cs blk
        { envIn d1 (calm d1 g.n2) with readyForResponse := true }).2 =
      { envIn d1 (calm d1 g.n2) with readyForResponse := true } := by
    simp only [blkCycle, qb1]; exact withD_of_DS _ hdr
  have hds : (step (cfgOf c) cs { envIn d1 (calm d1 g.n2) with readyForResponse := true }).2.h.dStart = dStarts c d1 :=
    ready_dStart c d1 (calm d1 g.n2) cs hr
  unfold ReadyFits at hfit
  cases hso : streamOf c d1 with
  | none =>
    have hns : txStarts c d1 = false := by simp [txStarts, hso]
    have hnd : dStarts c d1 = false := by simp [dStarts, hso]
    obtain ⟨w1, w2⟩ := cl_ready_nostart c d1 (calm d1 g.n2) ⟨cs, ser⟩ hr hns htr (Or.inl hq)
    have hbi := qb2 (by simp only [blkInOf]; rw [hds, hnd])
    obtain ⟨ser', blk', k1, k2, _, k4⟩ := cl2_quiet (cfgOf c) _ (idleS dpost g.post) ⟨_, _, _⟩ hpost (Or.inl w2) hbi
    refine ⟨g.lat, ser', blk', Or.inr rfl, trivial, ?_, k2, k4⟩
    simp only [readySeg, hsn', Bool.false_eq_true, if_false, streamWindow, hso, List.append_nil]
    exact CL2.cons w1 hwd k1
  | some fr =>
    obtain ⟨fd, R⟩ := fr
    simp only [hso] at hfit
    cases fd with
    | false =>
      -- the transmitter
      simp only [Bool.and_eq_true, decide_eq_true_eq] at hfit
      obtain ⟨hlat, hfit0⟩ := hfit
      have hnd : dStarts c d1 = false := by simp [dStarts, hso]
      have hbi := qb2 (by simp only [blkInOf]; rw [hds, hnd])
      obtain ⟨L, d0, ha, hR, hss, hm1⟩ := streamOf_tx c d1 R hso
      obtain ⟨w1, w2⟩ := cl_ready_start c d1 (calm d1 g.n2) ⟨cs, ser⟩ hr R hso htr hq
      have hrel : Rel d1 (step (cfgOf c) cs { envIn d1 (calm d1 g.n2) with readyForResponse := true }).1 := by
        have := (sim_ready_s c hx d1 (calm d1 g.n2) (calmH_calm d1 g.n2) cs hr).1
        rw [hm1] at this; exact this
      have hlen : ([d0, 0].take L).length = L := by rcases ha with ⟨_, rfl, _⟩ | ⟨_, rfl, _⟩ <;> rfl
      have hL : 0 < L := by rcases ha with ⟨_, rfl, _⟩ | ⟨_, rfl, _⟩ <;> decide
      have hcnt : L - 0 ≤ (g.stream.map (·.txReady)).count true := by
        have := hfit0
        simp only [hR, Fits, List.drop_zero, Bool.and_eq_true, decide_eq_true_eq, hlen] at this
        omega
      obtain ⟨s2, b2, c2, q2, i2⟩ := cl2_send c (Desc.blockOf (collOf c.descriptors) c.maxPacket) d1 hss L d0 ha g.stream 0
        ⟨(step (cfgOf c) cs { envIn d1 (calm d1 g.n2) with readyForResponse := true }).1, ⟨.streaming, 0, 0⟩, _⟩
        hL rfl hbi hrel (fun n hn => (ht.stream n hn).2) hcnt
      obtain ⟨ser', blk', k1, k2, _, k4⟩ := cl2_quiet (cfgOf c) _ (idleS dpost g.post) ⟨_, s2, b2⟩ hpost q2 i2
      refine ⟨g.lat, ser', blk', Or.inr rfl, by rw [hlat]; exact hfit0, ?_, k2, k4⟩
      simp only [readySeg, hsn', Bool.false_eq_true, if_false, streamWindow, hso, hlat, hR, Desc.delayed, Desc.bodyTrace,
        List.cons_append, List.nil_append]
      refine CL2.cons w1 hwd ?_
      rw [w2]
      exact CL2.append c2 k1
    | true =>
      -- the descriptor handler
      simp only [Bool.and_eq_true] at hfit
      obtain ⟨hfit3, hok⟩ := hfit
      obtain ⟨hv, hl, hp⟩ := descReqOk_elim c d1 hok
      obtain ⟨hR, hm1, hsm⟩ := streamOf_desc c d1 R hso
      have hns : txStarts c d1 = false := by simp [txStarts, hso]
      have hyd : dStarts c d1 = true := by simp [dStarts, hso]
      obtain ⟨w1, w2⟩ := cl_ready_nostart c d1 (calm d1 g.n2) ⟨cs, ser⟩ hr hns htr (Or.inl hq)
      have hrel : Rel { d1 with expectingAck := true }
          (step (cfgOf c) cs { envIn d1 (calm d1 g.n2) with readyForResponse := true }).1 := by
        have := (sim_ready_s c hx d1 (calm d1 g.n2) (calmH_calm d1 g.n2) cs hr).1
        rw [hm1] at this; exact this
      -- the start cycle's wires
      have hwires := ready_cycle_wires c d1 (calm d1 g.n2) cs hr true R hso
      simp only [if_true] at hwires
      have hw0 : blkInOf cs { envIn d1 (calm d1 g.n2) with readyForResponse := true }
          (step (cfgOf c) cs { envIn d1 (calm d1 g.n2) with readyForResponse := true }).2.h =
          ⟨d1.setup.value, d1.setup.length, d1.startPos, true,
            (step (cfgOf c) cs { envIn d1 (calm d1 g.n2) with readyForResponse := true }).2.h.dReady⟩ := by
        simp only [blkInOf, hwires.1, hwires.2.2]; rfl
      generalize (step (cfgOf c) cs { envIn d1 (calm d1 g.n2) with readyForResponse := true }).2.h.dReady = r0 at hw0
      -- C09: the handler model's answer and its return to idle
      obtain ⟨lat, hl1, hl4, hrun⟩ := block_handler_contract c hwf hm hpw blk hb d1.setup.value d1.setup.length d1.startPos
        hv hl hp (r0 :: g.stream.map (·.txReady))
      have hidle := Desc.block_returns_idle (collOf c.descriptors) c.maxPacket blk (d1.setup.value / 256 % 256)
        (d1.setup.value % 256) d1.setup.length d1.startPos (r0 :: g.stream.map (·.txReady)) hwf hm hpw
        (Nat.mod_lt _ (by decide)) (Nat.mod_lt _ (by decide)) hl hb
        (by intro dd hdd; rw [← lookup_collOf] at hdd; exact (hp dd hdd).1)
        (by
          rw [← lookup_collOf, ← descriptorPacket_spec c d1.setup.value d1.setup.length d1.startPos (by omega) hl hp,
            ← hR]
          exact complete_of_fits R r0 _ hfit3)
      have hvv : d1.setup.value / 256 % 256 * 256 + d1.setup.value % 256 = d1.setup.value := by omega
      rw [hvv] at hidle
      obtain ⟨k, rfl⟩ : ∃ k, lat = k + 1 := ⟨lat - 1, by omega⟩
      rw [← hR] at hrun
      simp only [Desc.Block.reqInputs_cons, Desc.Block.run, Desc.Block.final] at hrun hidle
      rw [window_is_respTrace] at hrun
      injection hrun with _ hrun
      -- the window
      have hcycb : blkCycle (cfgOf c) (Desc.blockOf (collOf c.descriptors) c.maxPacket) cs blk
          { envIn d1 (calm d1 g.n2) with readyForResponse := true } =
          Desc.Block.step (Desc.blockOf (collOf c.descriptors) c.maxPacket) blk
            ⟨d1.setup.value, d1.setup.length, d1.startPos, true, r0⟩ := by
        simp only [blkCycle, hw0]
      obtain ⟨s2, b2, c2, q2, i2⟩ := cl2_desc c (Desc.blockOf (collOf c.descriptors) c.maxPacket)
        { d1 with expectingAck := true } hsm g.stream
        ⟨(step (cfgOf c) cs { envIn d1 (calm d1 g.n2) with readyForResponse := true }).1, _,
          (Desc.Block.step (Desc.blockOf (collOf c.descriptors) c.maxPacket) blk
            ⟨d1.setup.value, d1.setup.length, d1.startPos, true, r0⟩).1⟩
        hrel (Or.inl w2) (fun n hn => (ht.stream n hn).1) hidle
      simp only at c2
      rw [hrun, streamSeg_congr (d := d1) (d' := { d1 with expectingAck := true }) rfl rfl rfl rfl] at c2
      obtain ⟨ser', blk', k1, k2, _, k4⟩ := cl2_quiet (cfgOf c) _ (idleS dpost g.post) ⟨_, s2, b2⟩ hpost q2 i2
      refine ⟨k, ser', blk', Or.inl (by omega), fits_mono k 3 R _ (by omega) hfit3, ?_, k2, k4⟩
      simp only [readySeg, hsn', Bool.false_eq_true, if_false, streamWindow, hso, List.cons_append, List.nil_append]
      refine CL2.cons w1 hwd ?_
      rw [hcycb]
      exact CL2.append c2 k1

/-! ### Events and histories -/

/-- The window hypotheses of an event for the closed loop: no STALL in the start cycle (that is the distributed handler),
a transmitter window without additional latency that takes the answer, a descriptor window that takes the answer even
at the block handler's largest latency (= C09's `Complete 4`), a well-sized in-order descriptor request. -/
def StreamFits2 (c : DevConfig) (d : DevState) (e : HostEvent) (g : GapsS) : Bool :=
  match e with
  | .token pid addr ep => if addr = d.address then !g.stallNow && ReadyFits c (afterToken d pid ep) g else true
  | _ => true

/-- **One event, closed loop with both streamers.**  For a descriptor window the theorem provides the latency `k + 1`
of the block handler model (`k ≤ 3`); every other free parameter of the expansion is the caller's. -/
theorem closed_event2 (c : DevConfig) (hx : c.extra = [])
    (hwf : Desc.wellFormed (collOf c.descriptors) = true)
    (hm : c.maxPacket = 8 ∨ c.maxPacket = 16 ∨ c.maxPacket = 32 ∨ c.maxPacket = 64)
    (hpw : 2 ≤ (Desc.Rom.layout (collOf c.descriptors)).maxLen)
    (d : DevState) (e : HostEvent) (g : GapsS) (hfit : StreamFits2 c d e g = true) (ht : TDSil g)
    (s : Sys2State) (hr : Rel d s.cs) (hq : SerQ s.ser) (hb : s.blk.fsm = .idle) :
    ∃ k ser' blk', StreamFits c d e { g with lat := k } = true ∧
      CL2 (cfgOf c) (Desc.blockOf (collOf c.descriptors) c.maxPacket) s (expandS c d e { g with lat := k }) ser' blk' ∧
      SerQ ser' ∧ blk'.fsm = .idle := by
  by_cases htok : ∃ pid ep, e = .token pid d.address ep
  · obtain ⟨pid, ep, rfl⟩ := htok
    simp only [StreamFits2, if_true, Bool.and_eq_true, Bool.not_eq_eq_eq_not, Bool.not_true] at hfit
    obtain ⟨hsn, hrf⟩ := hfit
    obtain ⟨s1, b1, c1, q1, _, i1⟩ := cl2_quiet (cfgOf c) (Desc.blockOf (collOf c.descriptors) c.maxPacket) (idleS d g.pre) s
      (allNR2_idleS d g.pre ht.pre) hq hb
    have r1 := (sim_idleS c d g.pre s.cs hr).1
    have hB : AllNR2 ([{ envIn (afterToken d pid ep) (calm (afterToken d pid ep) g.n1) with newToken := true }] ++
        idleS (afterToken d pid ep) g.mid) :=
      AllNR2.append (AllNR2.cons ⟨rfl, ts_calm _ g.n1 ht.n1.1, ds_calm _ g.n1 ht.n1.2⟩ AllNR2.nil)
        (allNR2_idleS _ g.mid ht.mid)
    obtain ⟨s2, b2, c2, q2, i2, j2⟩ := cl2_quiet (cfgOf c) (Desc.blockOf (collOf c.descriptors) c.maxPacket) _
      ⟨final (cfgOf c) s.cs (idleS d g.pre), s1, b1⟩ hB q1 i1
    have r2 := (((SimS.single (sim_newToken_s c d pid ep (calm (afterToken d pid ep) g.n1)
      (calmH_calm (afterToken d pid ep) g.n1))).none_append (sim_idleS c (afterToken d pid ep) g.mid)) _ r1).1
    obtain ⟨k, s3, b3, _, hf3, c3, q3, i3⟩ := closed_ready2 c hx hwf hm hpw (afterToken d pid ep) g
      (core c d (.token pid d.address ep)).1 hsn hrf ht ⟨_, s2, b2⟩ r2 (i2 (by simp)) j2
    refine ⟨k, s3, b3, ?_, ?_, q3, i3⟩
    · simp only [StreamFits, if_true]
      have : stallsNow c (afterToken d pid ep) { g with lat := k } = false := by simp [stallsNow, hsn]
      simp only [this, Bool.false_eq_true, if_false]
      cases hso : streamOf c (afterToken d pid ep) with
      | none => rfl
      | some fr => obtain ⟨fd, R⟩ := fr; simp only [hso] at hf3; exact hf3
    · simp only [expandS, if_true]
      have := CL2.append c1 (CL2.append c2 c3)
      simpa [List.append_assoc] using this
  · have hg : ({ g with lat := g.lat } : GapsS) = g := by cases g; rfl
    obtain ⟨ser', blk', k1, k2, _, k4⟩ := cl2_quiet (cfgOf c) (Desc.blockOf (collOf c.descriptors) c.maxPacket)
      (expandS c d e g) s (expandS_allNR2 c d e g ht (fun pid ep h => htok ⟨pid, ep, h⟩)) hq hb
    refine ⟨g.lat, ser', blk', ?_, by rw [hg]; exact k1, k2, k4⟩
    rw [hg]
    cases e with
    | token pid addr ep =>
      have ha : addr ≠ d.address := fun h => htok ⟨pid, ep, by rw [h]⟩
      simp [StreamFits, ha]
    | _ => rfl

/-- The same for `expandR` (bus reset included). -/
theorem closed_eventR2 (c : DevConfig) (hx : c.extra = [])
    (hwf : Desc.wellFormed (collOf c.descriptors) = true)
    (hm : c.maxPacket = 8 ∨ c.maxPacket = 16 ∨ c.maxPacket = 32 ∨ c.maxPacket = 64)
    (hpw : 2 ≤ (Desc.Rom.layout (collOf c.descriptors)).maxLen)
    (d : DevState) (e : HostEvent) (g : GapsS) (hfit : StreamFits2 c d e g = true) (ht : TDSil g)
    (s : Sys2State) (hr : Rel d s.cs) (hq : SerQ s.ser) (hb : s.blk.fsm = .idle) :
    ∃ k ser' blk', StreamFits c d e { g with lat := k } = true ∧
      CL2 (cfgOf c) (Desc.blockOf (collOf c.descriptors) c.maxPacket) s
        ((expandR c d e { g with lat := k }).map (·.2)) ser' blk' ∧ SerQ ser' ∧ blk'.fsm = .idle := by
  by_cases hrst : e = .busReset
  · subst hrst
    have hg : ({ g with lat := g.lat } : GapsS) = g := by cases g; rfl
    have hall : AllNR2 ((expandR c d .busReset g).map (·.2)) := by
      simp only [expandR, List.map_append, List.map_cons, noRst_snd, List.map_map]
      have h3 : (List.map ((fun x : Bool × CycIn => x.2) ∘ fun i => (true, i))
          (idleS { d with address := 0, config := 0 } g.mid)) = idleS { d with address := 0, config := 0 } g.mid := by
        simp [Function.comp_def]
      rw [h3]
      exact (allNR2_idleS d g.pre ht.pre).append (AllNR2.cons (nr2_calm d g.n1 ht.n1)
        ((allNR2_idleS _ g.mid ht.mid).append (allNR2_idleS _ g.post ht.post)))
    obtain ⟨ser', blk', k1, k2, _, k4⟩ := cl2_quiet (cfgOf c) _ _ s hall hq hb
    exact ⟨g.lat, ser', blk', rfl, by rw [hg]; exact k1, k2, k4⟩
  · obtain ⟨k, ser', blk', f1, k1, k2, k4⟩ := closed_event2 c hx hwf hm hpw d e g hfit ht s hr hq hb
    have hE : (expandR c d e { g with lat := k }).map (·.2) = expandS c d e { g with lat := k } := by
      cases e <;> first | exact absurd rfl hrst | exact noRst_snd _
    exact ⟨k, ser', blk', f1, by rw [hE]; exact k1, k2, k4⟩

/-- What the closed loop of the three models puts on the bus during a cycle sequence. -/
def sys2BusResp (cyc : Cfg) (bc : Desc.Block.Config) (s : Sys2State) (is : List CycIn) : Resp :=
  (obsList .idle ((is.map (·.txReady)).zip ((sys2Run cyc bc s is).map (·.2)))).resp

theorem CL2.busResp {cyc : Cfg} {bc : Desc.Block.Config} {s : Sys2State} {is : List CycIn} {ser' : SerState}
    {blk' : Desc.Block.State} (h : CL2 cyc bc s is ser' blk') : sys2BusResp cyc bc s is = busResp cyc s.cs is := by
  unfold sys2BusResp CtrlCyc.busResp
  rw [h.2, obsRun_eq_obsList]

def sys2BusResps (c : DevConfig) (bc : Desc.Block.Config) : DevState → Sys2State → List (Stim × GapsS) → List Resp
  | _, _, [] => []
  | d, s, (x, g) :: rest =>
      sys2BusResp (cfgOf c) bc s ((expandR c d x.ev g).map (·.2)) ::
        sys2BusResps c bc (Device.step c d x).1 (sys2Final (cfgOf c) bc s ((expandR c d x.ev g).map (·.2))) rest

def sys2OutsR (cyc : Cfg) (bc : Desc.Block.Config) (s : Sys2State) (ris : List (Bool × CycIn)) : List (Bool × CycOut) :=
  (ris.map (·.1)).zip ((sys2Run cyc bc s (ris.map (·.2))).map (·.2))

/-- `h'` is `h` with other descriptor-window latencies. -/
def SameButLat : List (Stim × GapsS) → List (Stim × GapsS) → Prop
  | [], [] => True
  | (x, g) :: r, (x', g') :: r' => x' = x ∧ (∃ k, g' = { g with lat := k }) ∧ SameButLat r r'
  | _, _ => False

theorem SameButLat.stims : ∀ {h h' : List (Stim × GapsS)}, SameButLat h h' → h'.map (·.1) = h.map (·.1)
  | [], [], _ => rfl
  | (x, g) :: r, (x', g') :: r', hh => by
      obtain ⟨h1, _, h3⟩ := hh
      simp only [List.map_cons, h1, SameButLat.stims h3]
  | [], _ :: _, hh => by cases hh
  | _ :: _, [], hh => by cases hh

/-- The window hypotheses of the closed loop along a history. -/
def Fits2From (c : DevConfig) : DevState → List (Stim × GapsS) → Bool
  | _, [] => true
  | d, (x, g) :: rest => StreamFits2 c d x.ev g && Fits2From c (Device.step c d x).1 rest

theorem closed2_run (c : DevConfig) (hx : c.extra = []) (hmp : c.maxPacket = 64)
    (hwf : Desc.wellFormed (collOf c.descriptors) = true)
    (hpw : 2 ≤ (Desc.Rom.layout (collOf c.descriptors)).maxLen)
    (h : List (Stim × GapsS)) (d : DevState) (hinv : Inv d) (hcfg : d.config < 256)
    (hfit : Fits2From c d h = true) (ht : ∀ xg ∈ h, TDSil xg.2) (s : Sys2State) (hr : Rel d s.cs) (hq : SerQ s.ser)
    (hb : s.blk.fsm = .idle) :
    ∃ h', SameButLat h h' ∧ FitsFrom c d h' = true ∧ ∃ ser' blk',
      CL2 (cfgOf c) (Desc.blockOf (collOf c.descriptors) c.maxPacket) s ((expandAllR c d h').map (·.2)) ser' blk' ∧
      SerQ ser' ∧ blk'.fsm = .idle ∧
      sys2BusResps c (Desc.blockOf (collOf c.descriptors) c.maxPacket) d s h' = busResps c d s.cs h' := by
  induction h generalizing d s with
  | nil => exact ⟨[], trivial, rfl, s.ser, s.blk, CL2.nil _ _ s, hq, hb, rfl⟩
  | cons xg rest ih =>
    obtain ⟨x, g⟩ := xg
    simp only [Fits2From, Bool.and_eq_true] at hfit
    have hm : c.maxPacket = 8 ∨ c.maxPacket = 16 ∨ c.maxPacket = 32 ∨ c.maxPacket = 64 := Or.inr (Or.inr (Or.inr hmp))
    obtain ⟨k, s1, b1, f1, c1, q1, i1⟩ := closed_eventR2 c hx hwf hm hpw d x.ev g hfit.1
      (ht (x, g) (List.mem_cons_self ..)) s hr hq hb
    have r1 := (cycle_refines_step_all c hx hmp d x { g with lat := k } hinv hcfg f1 s.cs hr).1
    obtain ⟨rest', sb, ff, s2, b2, c2, q2, i2, e2⟩ := ih (Device.step c d x).1 (inv_step c d x hinv)
      (config_lt_step c d x hcfg) hfit.2 (fun xg hxg => ht xg (List.mem_cons_of_mem _ hxg))
      ⟨final (cfgOf c) s.cs ((expandR c d x.ev { g with lat := k }).map (·.2)), s1, b1⟩ r1 q1 i1
    refine ⟨(x, { g with lat := k }) :: rest', ⟨rfl, ⟨k, rfl⟩, sb⟩, ?_, s2, b2, ?_, q2, i2, ?_⟩
    · simp only [FitsFrom, f1, ff, Bool.and_self]
    · simp only [expandAllR, List.map_append]
      exact CL2.append c1 c2
    · simp only [sys2BusResps, busResps, c1.busResp, c1.1, e2]

/-- **`cycle_refines_event`, closed loop with both streamers, from reset -- no stream contract left.**  The closed loop
of the cycle-level control-endpoint model, the serializer model of its transmitter and the model of its block
descriptor handler, run from reset over the expansion of ANY event history (every handler state, bus resets; the
free parameters of the expansion are the caller's except the descriptor-window latencies, which are the handler
model's): the control endpoint ends related to the event-level final state, the bus carries for every event exactly
the event-level response, device.py's registers end with the event-level values, and both streamers are at rest. -/
theorem closed2_refines_event_run (c : DevConfig) (hx : c.extra = []) (hmp : c.maxPacket = 64)
    (hwf : Desc.wellFormed (collOf c.descriptors) = true)
    (hpw : 2 ≤ (Desc.Rom.layout (collOf c.descriptors)).maxLen)
    (h : List (Stim × GapsS)) (hfit : Fits2From c Device.init h = true) (ht : ∀ xg ∈ h, TDSil xg.2) :
    ∃ h', SameButLat h h' ∧
      Rel (Device.final c Device.init (h.map (·.1)))
        (sys2Final (cfgOf c) (Desc.blockOf (collOf c.descriptors) c.maxPacket) sys2Init
          ((expandAllR c Device.init h').map (·.2))).cs ∧
      sys2BusResps c (Desc.blockOf (collOf c.descriptors) c.maxPacket) Device.init sys2Init h' =
        coreResps c Device.init (h.map (·.1)) ∧
      regsAfterR (0, 0) (sys2OutsR (cfgOf c) (Desc.blockOf (collOf c.descriptors) c.maxPacket) sys2Init
          (expandAllR c Device.init h')) =
        ((Device.final c Device.init (h.map (·.1))).address, (Device.final c Device.init (h.map (·.1))).config) ∧
      SerQ (sys2Final (cfgOf c) (Desc.blockOf (collOf c.descriptors) c.maxPacket) sys2Init
          ((expandAllR c Device.init h').map (·.2))).ser ∧
      (sys2Final (cfgOf c) (Desc.blockOf (collOf c.descriptors) c.maxPacket) sys2Init
          ((expandAllR c Device.init h').map (·.2))).blk.fsm = .idle := by
  obtain ⟨h', sb, ff, ser', blk', ⟨c1, c2⟩, q, i, b⟩ := closed2_run c hx hmp hwf hpw h Device.init inv_init (by decide)
    hfit ht sys2Init rel_init (Or.inl rfl) rfl
  obtain ⟨o1, o2, o3⟩ := cycle_refines_event_streams_from_reset c hx hmp h' ff
  rw [sb.stims] at o1 o2 o3
  refine ⟨h', sb, ?_, ?_, ?_, ?_, ?_⟩
  · rw [c1]; exact o1
  · rw [b]; exact o2
  · unfold sys2OutsR
    rw [c2, ← outsR_zip]; exact o3
  · rw [c1]; exact q
  · rw [c1]; exact i

/-! ### Non-vacuity: the closed loop of the three models evaluated by the kernel -/

def TDSilB (g : GapsS) : Bool :=
  g.pre.all (fun n => decide (TDS n)) && g.mid.all (fun n => decide (TDS n)) && g.mid2.all (fun n => decide (TDS n)) &&
  g.post.all (fun n => decide (TDS n)) && g.stream.all (fun n => decide (TDS n)) &&
  decide (TDS g.n1) && decide (TDS g.n2) && decide (TDS g.n3)

theorem TDSil_of_B (g : GapsS) (h : TDSilB g = true) : TDSil g := by
  simp only [TDSilB, Bool.and_eq_true, List.all_eq_true, decide_eq_true_eq] at h
  obtain ⟨⟨⟨⟨⟨⟨⟨h1, h2⟩, h3⟩, h4⟩, h5⟩, h6⟩, h7⟩, h8⟩ := h
  exact ⟨h1, h2, h3, h4, h5, h6, h7, h8⟩

/-- gaps with silent streamer inputs; `lat` is the caller's guess for descriptor windows (the theorem replaces it). -/
def exGd (lat n : Nat) : GapsS :=
  { pre := [{}, { txReady := true }], mid := [{ txReady := true }], post := [{}], lat := lat,
    stream := ([{}, { txReady := true }, {}, {}] : List CycIn) ++ List.replicate n ({ txReady := true } : CycIn) ++
      ([{}, { txReady := true }, {}] : List CycIn) }

/-- GET_STATUS, SET_CONFIGURATION(3), GET_CONFIGURATION, GET_DESCRIPTOR(type 2: 70 bytes, wLength 100) in two packets,
GET_DESCRIPTOR of a missing descriptor, bus reset; `latD` = the latency parameter of the descriptor windows. -/
def exHistoryD (latD : Nat) : List (Stim × GapsS) :=
  let setupTok : Stim × GapsS := (⟨.token PID_SETUP 0 0, .none⟩, exGd 0 0)
  let setupData : List Nat → Stim × GapsS := fun p => (⟨.data PID_DATA0 p true, .none⟩, exGd 0 0)
  let inTok : Nat → Nat → Stim × GapsS := fun lat n => (⟨.token PID_IN 0 0, .none⟩, exGd lat n)
  let hostAck : Stim × GapsS := (⟨.handshake PID_ACK, .none⟩, exGd 0 0)
  let statusOut : List (Stim × GapsS) :=
    [(⟨.token PID_OUT 0 0, .none⟩, exGd 0 0), (⟨.data PID_DATA1 [] true, .none⟩, exGd 0 0)]
  [setupTok, setupData [0x80, 0, 0, 0, 0, 0, 2, 0], inTok 0 2, hostAck] ++ statusOut ++
  [setupTok, setupData [0x00, 9, 3, 0, 0, 0, 0, 0], inTok 0 0, hostAck] ++
  [setupTok, setupData [0x80, 8, 0, 0, 0, 0, 1, 0], inTok 0 1, hostAck] ++ statusOut ++
  [setupTok, setupData [0x80, 6, 0, 2, 0, 0, 100, 0], inTok latD 70, hostAck, inTok latD 10, hostAck] ++ statusOut ++
  [setupTok, setupData [0x80, 6, 0, 9, 0, 0, 18, 0], inTok latD 0] ++
  [(⟨.busReset, .none⟩, exGd 0 0)]

-- the hypotheses of `closed2_refines_event_run` (whatever the caller's guess for the latency)
example : exCfgC.extra = [] ∧ exCfgC.maxPacket = 64 := ⟨rfl, rfl⟩
example : Desc.wellFormed (collOf exCfgC.descriptors) = true ∧ 2 ≤ (Desc.Rom.layout (collOf exCfgC.descriptors)).maxLen := by
  decide +kernel
example : Fits2From exCfgC Device.init (exHistoryD 0) = true := by decide +kernel
example : ∀ xg ∈ exHistoryD 0, TDSil xg.2 := by
  have h : (exHistoryD 0).all (fun xg => TDSilB xg.2) = true := by decide +kernel
  intro xg hxg
  exact TDSil_of_B _ (List.all_eq_true.mp h xg hxg)
-- its conclusion evaluated: with the block handler model's own latency (4 cycles: `lat := 3`) the closed loop's bus
-- responses are the event-level model's, and both streamers are at rest at the end
example : sys2BusResps exCfgC (Desc.blockOf (collOf exCfgC.descriptors) 64) Device.init sys2Init (exHistoryD 3) =
    [.none, .hs PID_ACK, .data PID_DATA1 [0, 0], .none, .none, .hs PID_ACK,
     .none, .hs PID_ACK, .data PID_DATA1 [], .none,
     .none, .hs PID_ACK, .data PID_DATA1 [3], .none, .none, .hs PID_ACK,
     .none, .hs PID_ACK, .data PID_DATA1 (List.range 64), .none, .data PID_DATA0 [64, 65, 66, 67, 68, 69], .none,
     .none, .hs PID_ACK, .none, .hs PID_ACK, .hs PID_STALL, .none] := by decide +kernel
example : sys2BusResps exCfgC (Desc.blockOf (collOf exCfgC.descriptors) 64) Device.init sys2Init (exHistoryD 3) =
    coreResps exCfgC Device.init ((exHistoryD 0).map (·.1)) := by decide +kernel
example : (sys2Final (cfgOf exCfgC) (Desc.blockOf (collOf exCfgC.descriptors) 64) sys2Init
    ((expandAllR exCfgC Device.init (exHistoryD 3)).map (·.2))).blk.fsm = .idle := by decide +kernel

end LunaVerif.CtrlCyc
