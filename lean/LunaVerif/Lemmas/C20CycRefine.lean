import LunaVerif.Lemmas.C20CycInv
/-!
# C20 — the control skeleton of `DevCyc.step` is `Abs.astep` of the control skeleton
-/
namespace LunaVerif.DevCyc
open LunaVerif LunaVerif.DevCyc.Abs

/-- The control skeleton of a composed state. -/
def skel (s : State) : A :=
  { tf := s.tok.tok.fsm
    armed := s.tok.tok.regs.pid == inPid || s.tok.tok.regs.pid == pingPid
    ct := s.tok.timer, rf := s.rx.fsm, cs := s.rx.counter, ht := s.hs.transmit, gf := s.gen.fsm }

/-- What the inputs and data registers of one cycle decide. -/
def skelIn (c : Config) (s : State) (i : In) : AI :=
  { active := i.rx.active, valid := i.rx.valid
    isTok := TokenDetector.isTokenPid i.rx.data
    isData := DataReceiver.isDataPid i.rx.data
    crcOk := TokenDetector.crcOk s.tok.tok.tokenData i.rx.data
    sof := s.tok.tok.currentPid == TokenDetector.sofPid
    applicable := if c.tok.filterByAddress then s.tok.tok.tokenData % 128 == i.address else true
    cpidArm := s.tok.tok.currentPid == inPid || s.tok.tok.currentPid == pingPid
    crcMatch := s.rx.lastWordCrc == s.rx.pipeLo + 256 * s.rx.pipeHi
    hsReq := hsReq i
    sRaw := i.sValid && (i.sFirst || i.sLast)
    sValid := i.sValid, sLast := i.sLast, txReady := i.txReady, isZlp := s.gen.isZlp
    envStart := i.timerStart, rsValid := i.rsValid }

/-! ### Token detector -/

theorem tok_fsm (cfg : TokenDetector.Config) (s : TokenDetector.State) (i : TokenDetector.In) :
    (TokenDetector.tokStep cfg s i).1.fsm =
      tokNext s.fsm i.rx.active i.rx.valid (TokenDetector.isTokenPid i.rx.data)
        (TokenDetector.crcOk s.tokenData i.rx.data) := by
  cases h : s.fsm <;> simp only [TokenDetector.tokStep, tokNext, h] <;>
    cases i.rx.active <;> cases i.rx.valid <;> simp <;> (try split) <;> (try split) <;> simp_all

theorem tok_start (cfg : TokenDetector.Config) (s : TokenDetector.State) (i : TokenDetector.In) :
    (TokenDetector.tokStep cfg s i).2 =
      ((s.fsm == .tokenComplete && !i.rx.active) && !(s.currentPid == TokenDetector.sofPid) &&
        (if cfg.filterByAddress then s.tokenData % 128 == i.address else true)) := by
  cases h : s.fsm <;> simp only [TokenDetector.tokStep, h] <;>
    cases i.rx.active <;> cases i.rx.valid <;> simp <;> (try split) <;> (try split) <;> simp_all

theorem tok_pid (cfg : TokenDetector.Config) (s : TokenDetector.State) (i : TokenDetector.In) :
    (TokenDetector.tokStep cfg s i).1.regs.pid =
      (if (s.fsm == .tokenComplete && !i.rx.active) && !(s.currentPid == TokenDetector.sofPid) then
        (if (if cfg.filterByAddress then s.tokenData % 128 == i.address else true) then s.currentPid else 0)
       else s.regs.pid) := by
  cases h : s.fsm <;> simp only [TokenDetector.tokStep, h] <;>
    cases i.rx.active <;> cases i.rx.valid <;> simp <;> (try split) <;> (try split) <;> simp_all

/-! ### Receiver -/

theorem rx_fsm (c : DataReceiver.Config) (s : DataReceiver.State) (i : Utmi.RxCycle) :
    (DataReceiver.fsmStep c s i).1.fsm =
      rxNext s.fsm i.active i.valid (DataReceiver.isDataPid i.data)
        (s.lastWordCrc == s.pipeLo + 256 * s.pipeHi) (s.counter == c.delay) := by
  cases h : s.fsm <;> simp only [DataReceiver.fsmStep, rxNext, h] <;>
    cases i.active <;> cases i.valid <;> simp <;> (try split) <;> (try split) <;> simp_all

theorem rx_ready (c : DataReceiver.Config) (s : DataReceiver.State) (i : Utmi.RxCycle) :
    (DataReceiver.fsmStep c s i).2.2.2.1 = (s.fsm == .delay && s.counter == c.delay) := by
  cases h : s.fsm <;> simp only [DataReceiver.fsmStep, h] <;>
    cases i.active <;> cases i.valid <;> simp <;> (try split) <;> (try split) <;> simp_all

theorem rx_start (c : DataReceiver.Config) (s : DataReceiver.State) (i : Utmi.RxCycle) :
    (DataReceiver.fsmStep c s i).2.2.2.2 =
      (s.fsm == .emit && !i.active && (s.lastWordCrc == s.pipeLo + 256 * s.pipeHi)) := by
  cases h : s.fsm <;> simp only [DataReceiver.fsmStep, h] <;>
    cases i.active <;> cases i.valid <;> simp <;> (try split) <;> (try split) <;> simp_all

/-! ### Transmitters -/

theorem hs_transmit (s : Handshake.Gen.State) (i : Handshake.Gen.In) :
    (Handshake.Gen.step s i).1.transmit = (if !s.transmit then (i.ack || i.nak || i.stall) else !i.ready) := by
  cases h : s.transmit <;> simp only [Handshake.Gen.step, h] <;>
    cases i.ack <;> cases i.nak <;> cases i.stall <;> cases i.ready <;> simp [h]

theorem hs_valid (s : Handshake.Gen.State) (i : Handshake.Gen.In) :
    (Handshake.Gen.step s i).2.valid = s.transmit := rfl

theorem gen_fsm (s : DataGenerator.State) (i : In) (ai : AI)
    (h1 : ai.sRaw = (i.sValid && (i.sFirst || i.sLast))) (h2 : ai.sValid = i.sValid) (h3 : ai.sLast = i.sLast)
    (h4 : ai.txReady = i.txReady) (h5 : ai.isZlp = s.isZlp) :
    (DataGenerator.fsmStep s (genIn i)).1.fsm = genNext s.fsm ai := by
  cases h : s.fsm <;> simp only [DataGenerator.fsmStep, genNext, genIn, h, h1, h2, h3, h4, h5] <;>
    first
    | rfl
    | (cases i.sValid <;> cases i.sFirst <;> cases i.sLast <;> cases i.txReady <;> cases s.isZlp <;> simp)

theorem gen_valid (s : DataGenerator.State) (i : In) (ai : AI) (h2 : ai.sValid = i.sValid) :
    (DataGenerator.fsmStep s (genIn i)).2.1 = genValid s.fsm ai := by
  cases h : s.fsm <;> simp only [DataGenerator.fsmStep, genValid, genIn, h, h2] <;>
    cases i.sValid <;> cases i.sFirst <;> cases i.sLast <;> simp

/-! ### Timers -/

theorem timer_next (tc : InterpacketTimer.Config) (ct : Nat) (b : Bool) :
    InterpacketTimer.next tc ct b = cnt (InterpacketTimer.counterMax tc) ct b := rfl

theorem counter_next (c : Config) (cs : Nat) (b : Bool) :
    DataReceiver.counterNext (rxCfg c) cs b = cnt (InterpacketTimer.counterMax c.tok.timer) cs b := rfl

theorem allowed_eq (tc : InterpacketTimer.Config) (ct speed : Nat) (hs : strobes tc speed = true) :
    (InterpacketTimer.outputs tc ct speed).txAllowed = (ct == delayOf tc speed) := by
  simp only [strobes, Bool.or_eq_true, beq_iff_eq, Bool.not_eq_true'] at hs
  unfold InterpacketTimer.outputs delayOf
  rcases hs with h1 | h1
  · subst h1; simp
  · simp only [h1]
    split
    · simp
    · split <;> simp

theorem rx_delay (c : Config) (hs : strobes c.tok.timer c.speed = true) :
    (rxCfg c).delay = delayOf c.tok.timer c.speed := by
  simp [rxCfg, hs]

/-- The delay fits the counter (so that the pulse is reached) in every configuration the constructor accepts. -/
theorem delay_le_max (tc : InterpacketTimer.Config) (speed : Nat) (hs : strobes tc speed = true) :
    delayOf tc speed ≤ InterpacketTimer.counterMax tc := by
  simp only [strobes, Bool.or_eq_true, beq_iff_eq, Bool.not_eq_true'] at hs
  unfold delayOf InterpacketTimer.counterMax InterpacketTimer.fsRxToTxDelay InterpacketTimer.fsTxToRxTimeout
    InterpacketTimer.hsRxToTxDelay InterpacketTimer.lsRxToTxDelay InterpacketTimer.lsTxToRxTimeout
  rcases hs with h1 | h1
  · subst h1; cases tc.clk12 <;> cases tc.fsOnly <;> simp
  · simp only [h1]; cases tc.clk12 <;> split <;> (try split) <;> simp

/-! ### The composition -/

theorem pid_excl (x : Nat) : (TokenDetector.isTokenPid x && DataReceiver.isDataPid x) = false := by
  simp only [TokenDetector.isTokenPid, DataReceiver.isDataPid, TokenDetector.pingPid, Bool.and_eq_false_iff,
    Bool.or_eq_false_iff, beq_eq_false_iff_ne]
  by_cases h : x % 4 = 3
  · left; left; constructor <;> omega
  · right; left; exact h

theorem skelIn_ok (c : Config) (s : State) (i : In) : aiOk (skelIn c s i) = true := by
  simp [aiOk, skelIn, pid_excl]

theorem skel_step (c : Config) (hs : strobes c.tok.timer c.speed = true) (s : State) (i : In) :
    skel (step c s i).1 =
      astep (delayOf c.tok.timer c.speed) (InterpacketTimer.counterMax c.tok.timer) (skel s) (skelIn c s i) := by
  simp only [skel, astep, step, A.mk.injEq]
  refine ⟨?_, ?_, ?_, ?_, ?_, ?_, ?_⟩
  · simp only [TokenDetector.step, tok_fsm]; rfl
  · simp only [TokenDetector.step, tok_pid, tokDone, skelIn]
    split
    · split <;> simp_all [inPid, pingPid]
      split <;> simp_all
    · simp_all
  · simp only [TokenDetector.step, InterpacketTimer.step, timer_next, tok_start, tokStart, tokDone, skelIn]
  · simp only [rx_fsm, rx_delay c hs]; rfl
  · simp only [counter_next, rx_start, rxStart, skelIn]
  · simp only [hs_transmit, hsIn, skelIn, hsReq]
    split <;> simp_all
  · exact gen_fsm _ _ _ rfl rfl rfl rfl rfl

/-! ### Outputs, ghost and assumptions -/

theorem out_txValid (c : Config) (s : State) (i : In) :
    (step c s i).2.txValid = aTxValid (skel s) (skelIn c s i) := by
  simp only [step, TxMux.mux, List.any, aTxValid, Bool.or_false, hs_valid]
  rw [gen_valid s.gen i (skelIn c s i) rfl]
  simp [skel, skelIn, Bool.or_assoc]

theorem out_rxActive (c : Config) (s : State) (i : In) : (step c s i).2.rxActive = i.rx.active := rfl
theorem out_hsValid (c : Config) (s : State) (i : In) : (step c s i).2.hsValid = s.hs.transmit := rfl
theorem out_genValid (c : Config) (s : State) (i : In) :
    (step c s i).2.genValid = genValid s.gen.fsm (skelIn c s i) := gen_valid s.gen i (skelIn c s i) rfl

theorem sol_eq (c : Config) (s : State) (i : In) :
    solicits s (step c s i).2 = aSol (skel s) (skelIn c s i) := by
  simp only [solicits, step, aSol, tok_start, rx_start, tokStart, tokDone, rxStart, skel, skelIn]

theorem pulse_eq (c : Config) (hs : strobes c.tok.timer c.speed = true) (s : State) (i : In) :
    pulse (step c s i).2 = aPulse (delayOf c.tok.timer c.speed) (skel s) := by
  simp only [pulse, step, aPulse, TokenDetector.step, InterpacketTimer.step, allowed_eq _ _ _ hs, rx_ready,
    rx_delay c hs, skel, inPid, pingPid]

theorem sStart_eq (c : Config) (s : State) (i : In) : sStart s i = aSStart (skel s) (skelIn c s i) := by
  simp only [sStart, aSStart, skel, skelIn, Bool.and_assoc]

theorem hostOk_eq (c : Config) (g : Ghost) (s : State) (i : In) : hostOk g i = aHostOk g (skelIn c s i) := rfl

theorem envOk_eq (c : Config) (hs : strobes c.tok.timer c.speed = true) (g : Ghost) (s : State) (i : In) :
    envOk g s i (step c s i).2 = aEnvOk (delayOf c.tok.timer c.speed) g (skel s) (skelIn c s i) := by
  simp only [envOk, aEnvOk, pulse_eq c hs, sStart_eq c]
  rfl

theorem ghost_eq (c : Config) (hs : strobes c.tok.timer c.speed = true) (p : Params) (g : Ghost) (s : State)
    (i : In) :
    ghostNext p g s i (step c s i).2 = aGhostNext (delayOf c.tok.timer c.speed) p g (skel s) (skelIn c s i) := by
  simp only [ghostNext, aGhostNext, pendNext, sol_eq, out_txValid, pulse_eq c hs, sStart_eq c]
  rfl

theorem skel_init : skel init = aInit := rfl

end LunaVerif.DevCyc
