import LunaVerif.Lemmas.C07Mps
import LunaVerif.Lemmas.C07StreamContracts
import LunaVerif.Props.C09
/-!
# The GET_DESCRIPTOR data stage at every legal control max packet size (event level, `coreM` / `stepM`)

`get_descriptor_data_stage_mps`: in the event-level model with the `start_position` advance by `max_packet_size`
(Lemmas/C07Mps.lean), for `max_packet_size ∈ {8, 16, 32, 64}`, a host that reads the data stage of a GET_DESCRIPTOR
transfer by IN token + ACK pairs receives exactly C09's `Desc.dataStage d wLength mps`: the chunks of the first
`wLength` bytes of the descriptor of size `mps` (up to `⌈min(wLength, |d|) / mps⌉` packets, `start_position` =
0, mps, 2·mps, …), then a zero-length packet iff the total is a multiple of `mps` and smaller than `wLength`; under
DATA1, DATA0, DATA1, … .  Together with `cycle_refines_event_streams_run_mps` this is what the cycle-level model of the
control endpoint puts on the bus (`cyc_get_descriptor_data_stage_mps`).
-/
namespace LunaVerif.CtrlCyc
open LunaVerif.Device

/-- The standard handler serves packet `k` of the data stage of a standard GET_DESCRIPTOR(`v`, wLength `l`) transfer
of the device at address `a`. -/
structure Reading (c : DevConfig) (v l a : Nat) (d : DevState) (k : Nat) : Prop where
  stage  : d.stage = .dataIn
  hstate : d.hstate = .getDescriptor
  ty     : d.setup.type = TYPE_STANDARD
  value  : d.setup.value = v
  length : d.setup.length = l
  addr   : d.address = a
  pos    : d.startPos = (k * c.maxPacket) % 2048
  pid    : d.txPid = decide (k % 2 = 0)

/-- The host's side of a data stage of `n` packets: IN token for endpoint 0, ACK of the data packet. -/
def readScript (a : Nat) : Nat → List Stim
  | 0 => []
  | n + 1 => ⟨.token PID_IN a 0, .none⟩ :: ⟨.handshake PID_ACK, .none⟩ :: readScript a n

/-- What the device transmits during `readScript`: the packets under DATA1 / DATA0 alternating from packet `k` on
(packet 0 goes out under DATA1), nothing after the ACKs. -/
def readResps : Nat → List (List Nat) → List Resp
  | _, [] => []
  | k, p :: ps => .data (if k % 2 = 0 then PID_DATA1 else PID_DATA0) p :: .none :: readResps (k + 1) ps

/-- A data-stage IN token in the reading state: the descriptor handler's packet at `start_position`. -/
theorem read_in (c : DevConfig) (hx : c.extra = []) (v l a : Nat) (d : DevState) (k : Nat) (b : List Nat)
    (hr : Reading c v l a d k) (hp : descriptorPacket c v l d.startPos = some b) :
    stepM c d ⟨.token PID_IN a 0, .none⟩ =
      ({ d with tokPid := PID_IN, tokEp := 0, sdWait := false, expectingAck := true,
                gRespData := true, gRespLen := b.length, gPrevTok := PID_IN },
       .data (if k % 2 = 0 then PID_DATA1 else PID_DATA0) b) := by
  obtain ⟨h1, h2, h3, h4, h5, h6, h7, h8⟩ := hr
  have hreq : request c (afterToken d PID_IN 0) .data =
      ({ afterToken d PID_IN 0 with expectingAck := true }, .data (dataPid d) b) := by
    rw [request_noextra c hx]
    simp [afterToken, h3, stdRequest, h2, h4, h5, hp, dataPid]
  have hst : tokenStage d PID_IN 0 = .dataIn := by
    simp [tokenStage, h1, PID_IN, PID_SETUP, PID_OUT, PID_PING]
  have hcore : coreM c d (.token PID_IN a 0) =
      ({ afterToken d PID_IN 0 with expectingAck := true }, .data (dataPid d) b) := by
    simp only [coreM, core, h6, if_true, onToken]
    have : (afterToken d PID_IN 0).stage = .dataIn := hst
    simp only [this, hreq]
  have hpid : dataPid d = if k % 2 = 0 then PID_DATA1 else PID_DATA0 := by
    unfold dataPid; rw [h8]; by_cases hk : k % 2 = 0 <;> simp [hk]
  have hst9 : tokenStage d 9 0 = d.stage := by rw [h1]; exact hst
  simp only [stepM, hcore, hpid]
  simp [afterToken, hst9, Resp.isNone, Resp.isData, Resp.dataLen, tokenPidOf, PID_IN, PID_SETUP]

/-- The host ACK of that packet: `start_position += max_packet_size`, the data PID toggles. -/
theorem read_ack (c : DevConfig) (d : DevState) (hh : d.hstate = .getDescriptor) (hty : d.setup.type = TYPE_STANDARD)
    (hep : d.tokEp = 0) (hpid : d.tokPid = PID_IN) (hea : d.expectingAck = true) :
    stepM c d ⟨.handshake PID_ACK, .none⟩ =
      ({ d with startPos := (d.startPos + c.maxPacket) % 2048, txPid := !d.txPid, expectingAck := false,
                gDataDone := if d.gRespLen < c.maxPacket then true else d.gDataDone,
                gRespData := false, gRespLen := 0, gPrevTok := 0 }, .none) := by
  simp only [stepM, coreM, onHandshakeM, hep, hpid, hty, and_self, if_true, stdAckM, hh, hea]
  by_cases hl : d.gRespLen < c.maxPacket <;>
    simp [hl, Resp.isNone, Resp.isData, Resp.dataLen, tokenPidOf]

/-- One packet: IN + ACK take the reading state from packet `k` to packet `k + 1`. -/
theorem read_pair (c : DevConfig) (hx : c.extra = []) (v l a : Nat) (d : DevState) (k : Nat) (b : List Nat)
    (hr : Reading c v l a d k) (hp : descriptorPacket c v l ((k * c.maxPacket) % 2048) = some b) :
    (stepM c d ⟨.token PID_IN a 0, .none⟩).2 = .data (if k % 2 = 0 then PID_DATA1 else PID_DATA0) b ∧
    (stepM c (stepM c d ⟨.token PID_IN a 0, .none⟩).1 ⟨.handshake PID_ACK, .none⟩).2 = .none ∧
    Reading c v l a (stepM c (stepM c d ⟨.token PID_IN a 0, .none⟩).1 ⟨.handshake PID_ACK, .none⟩).1 (k + 1) := by
  rw [← hr.pos] at hp
  have h := read_in c hx v l a d k b hr hp
  have ha := read_ack c (stepM c d ⟨.token PID_IN a 0, .none⟩).1 (by rw [h]; exact hr.hstate) (by rw [h]; exact hr.ty)
    (by rw [h]) (by rw [h]) (by rw [h])
  refine ⟨by rw [h], by rw [ha], ?_⟩
  rw [ha, h]
  obtain ⟨h1, h2, h3, h4, h5, h6, h7, h8⟩ := hr
  refine ⟨h1, h2, h3, h4, h5, h6, ?_, ?_⟩
  · show (d.startPos + c.maxPacket) % 2048 = ((k + 1) * c.maxPacket) % 2048
    rw [h7, Nat.succ_mul]; omega
  · show (!d.txPid) = decide ((k + 1) % 2 = 0)
    rw [h8]
    by_cases hk : k % 2 = 0
    · have : ¬ (k + 1) % 2 = 0 := by omega
      simp [hk, this]
    · have : (k + 1) % 2 = 0 := by omega
      simp [hk, this]

theorem descResp_data {x : Option (List Nat)} {b : List Nat} (h : descResp x = .data b) : x = some b := by
  cases x with
  | none => simp [descResp] at h
  | some y => cases y <;> simp_all [descResp]

theorem descResp_zlp {x : Option (List Nat)} (h : descResp x = .zlp) : x = some [] := by
  cases x with
  | none => simp [descResp] at h
  | some y => cases y <;> simp_all [descResp]

/-- The event-level descriptor packet at the in-order offset `k · mps`: the `k`-th chunk, or the zero-length packet
once the offset has reached `min(wLength, |d|)`. -/
theorem descriptorPacket_at (c : DevConfig) (v l k : Nat) (dd : List Nat) (hmp : 0 < c.maxPacket) (hl : l < 65536)
    (hlk : lookupDescriptor c.descriptors (v / 256 % 256) (v % 256) = some dd) (hpb : dd.length < 2 ^ c.posBits)
    (hk : k * c.maxPacket ≤ min l dd.length) :
    descriptorPacket c v l (k * c.maxPacket) =
      some (if k * c.maxPacket < min l dd.length then Desc.packetAt dd l c.maxPacket k else []) := by
  have hs := descriptorPacket_spec c v l (k * c.maxPacket) hmp hl
    (fun d hd => by rw [hlk] at hd; cases hd; exact ⟨hk, hpb⟩)
  rw [hlk] at hs
  by_cases hlt : k * c.maxPacket < min l dd.length
  · rw [Desc.specResponse_lt _ _ _ _ hlt] at hs
    rw [if_pos hlt]; exact descResp_data hs
  · rw [Desc.specResponse_ge _ _ _ _ hlt] at hs
    rw [if_neg hlt]; exact descResp_zlp hs

/-- The trailing zero-length packet of `Desc.dataStage`. -/
def zlpTail (total l mps : Nat) : List (List Nat) := if total ≠ 0 ∧ total % mps = 0 ∧ total < l then [[]] else []

theorem dataStage_split (dd : List Nat) (l mps : Nat) :
    Desc.dataStage dd l mps =
      (List.range' 0 ((min l dd.length + mps - 1) / mps)).map (Desc.packetAt dd l mps) ++ zlpTail (min l dd.length) l mps := by
  simp only [Desc.dataStage, zlpTail, List.range_eq_range']

/-- The data stage from packet `k` on, `m` non-empty packets still to come. -/
theorem read_from (c : DevConfig) (hx : c.extra = []) (mps : Nat) (hmps : c.maxPacket = mps)
    (hm : mps = 8 ∨ mps = 16 ∨ mps = 32 ∨ mps = 64) (v l a : Nat) (dd : List Nat)
    (hl : l < 65536)
    (hlk : lookupDescriptor c.descriptors (v / 256 % 256) (v % 256) = some dd) (hpb : dd.length < 2 ^ c.posBits)
    (h11 : min l dd.length < 2048) :
    ∀ (m k : Nat) (d : DevState), k + m = (min l dd.length + mps - 1) / mps → Reading c v l a d k →
      respsM c d (readScript a (m + (zlpTail (min l dd.length) l mps).length)) =
        readResps k ((List.range' k m).map (Desc.packetAt dd l mps) ++ zlpTail (min l dd.length) l mps) := by
  have hmp : 0 < c.maxPacket := by rw [hmps]; omega
  intro m
  induction m with
  | zero =>
    intro k d hk hr
    simp only [List.range'_zero, List.map_nil, List.nil_append, Nat.zero_add]
    by_cases hz : min l dd.length ≠ 0 ∧ min l dd.length % mps = 0 ∧ min l dd.length < l
    · have hzt : zlpTail (min l dd.length) l mps = [[]] := by simp only [zlpTail, if_pos hz]
      have htot : k * mps = min l dd.length := by
        rcases hm with rfl | rfl | rfl | rfl <;> omega
      have hmod : (k * c.maxPacket) % 2048 = k * c.maxPacket := by rw [hmps]; omega
      have hp : descriptorPacket c v l ((k * c.maxPacket) % 2048) = some [] := by
        rw [hmod, descriptorPacket_at c v l k dd hmp hl hlk hpb (by rw [hmps]; omega), if_neg (by rw [hmps]; omega)]
      obtain ⟨q1, q2, _⟩ := read_pair c hx v l a d k [] hr hp
      simp only [hzt, List.length_cons, List.length_nil, readScript, respsM, readResps, q1, q2]
    · have hzt : zlpTail (min l dd.length) l mps = [] := by simp only [zlpTail, if_neg hz]
      simp only [hzt, List.length_nil, readScript, respsM, readResps]
  | succ m ih =>
    intro k d hk hr
    have hlt : k * mps < min l dd.length := by
      rcases hm with rfl | rfl | rfl | rfl <;> omega
    have hmod : (k * c.maxPacket) % 2048 = k * c.maxPacket := by rw [hmps]; omega
    have hp : descriptorPacket c v l ((k * c.maxPacket) % 2048) = some (Desc.packetAt dd l mps k) := by
      rw [hmod, descriptorPacket_at c v l k dd hmp hl hlk hpb (by rw [hmps]; omega), if_pos (by rw [hmps]; exact hlt), hmps]
    obtain ⟨q1, q2, q3⟩ := read_pair c hx v l a d k _ hr hp
    have hn : m + 1 + (zlpTail (min l dd.length) l mps).length = (m + (zlpTail (min l dd.length) l mps).length) + 1 := by
      omega
    rw [hn]
    simp only [readScript, respsM, List.range'_succ, List.map_cons, List.cons_append, readResps, q1, q2]
    rw [ih (k + 1) _ (by omega) q3]

/-- **The GET_DESCRIPTOR data stage for every legal control max packet size.**  `c.maxPacket ∈ {8, 16, 32, 64}`, no
additional request handlers; the device (event-level model `stepM`) has latched a standard GET_DESCRIPTOR request for an
existing descriptor `dd` and is at the start of its data stage (`Reading … 0`: stage DATA_IN,
`start_position = 0`, DATA1).  The host reads with IN token + ACK pairs.  Then the device answers the IN tokens with
exactly the packets of `Desc.dataStage dd wLength mps` -- chunk `k` = bytes `k·mps … k·mps + mps - 1` of the first
`wLength` bytes of the descriptor (the advance of `start_position` by `mps` per ACK), the last one short, and one
zero-length packet iff `min(wLength, |dd|)` is a multiple of `mps` and smaller than `wLength` -- under DATA1, DATA0,
DATA1, …, and transmits nothing after the ACKs. -/
theorem get_descriptor_data_stage_mps (c : DevConfig) (hx : c.extra = [])
    (hm : c.maxPacket = 8 ∨ c.maxPacket = 16 ∨ c.maxPacket = 32 ∨ c.maxPacket = 64) (v l a : Nat) (dd : List Nat)
    (hl : l < 65536)
    (hlk : lookupDescriptor c.descriptors (v / 256 % 256) (v % 256) = some dd) (hpb : dd.length < 2 ^ c.posBits)
    (h11 : min l dd.length < 2048) (d : DevState) (hr : Reading c v l a d 0) :
    respsM c d (readScript a (Desc.dataStage dd l c.maxPacket).length) = readResps 0 (Desc.dataStage dd l c.maxPacket) := by
  have h := read_from c hx c.maxPacket rfl hm v l a dd hl hlk hpb h11
    ((min l dd.length + c.maxPacket - 1) / c.maxPacket) 0 d (by omega) hr
  rw [dataStage_split]
  simpa using h

/-- The packets concatenate to the first `wLength` bytes of the descriptor, each at most `max_packet_size` long
(C09 `dataStage_concat`, `dataStage_packet_le`), and there are at most `⌈min(wLength, |dd|) / mps⌉ + 1` of them. -/
theorem dataStage_count (dd : List Nat) (l mps : Nat) :
    (Desc.dataStage dd l mps).length ≤ (min l dd.length + mps - 1) / mps + 1 := by
  rw [dataStage_split]
  simp only [List.length_append, List.length_map, List.length_range', zlpTail]
  split <;> simp

/-! ### The same on the bus of the cycle-level model -/

theorem stepM_resp_noforeign (c : DevConfig) (d : DevState) (x : Stim) (hf : x.foreign = .none) :
    (stepM c d x).2 = (coreM c d x.ev).2 := by
  simp only [stepM, hf]
  split
  · rename_i h
    cases hc : (coreM c d x.ev).2 <;> simp_all [Resp.isNone]
  · rfl

theorem respsM_noforeign (c : DevConfig) (d : DevState) (h : List Stim) (hf : ∀ x ∈ h, x.foreign = .none) :
    respsM c d h = coreRespsM c d h := by
  induction h generalizing d with
  | nil => rfl
  | cons x xs ih =>
    simp only [respsM, coreRespsM, stepM_resp_noforeign c d x (hf x (List.mem_cons_self ..))]
    rw [ih _ (fun y hy => hf y (List.mem_cons_of_mem _ hy))]

theorem readScript_noforeign (a n : Nat) : ∀ x ∈ readScript a n, x.foreign = .none := by
  induction n with
  | zero => intro x hx; simp [readScript] at hx
  | succ n ih =>
    intro x hx
    simp only [readScript, List.mem_cons] at hx
    rcases hx with rfl | rfl | hx
    · rfl
    · rfl
    · exact ih x hx

theorem readScript_length (a n : Nat) : (readScript a n).length = 2 * n := by
  induction n with
  | zero => rfl
  | succ n ih => simp only [readScript, List.length_cons, ih]; omega

/-- **The GET_DESCRIPTOR data stage on the bus of the cycle-level model, every legal control max packet size.**  The
cycle-level composition (`CtrlCyc.step`, `max_packet_size = c.maxPacket ∈ {8, 16, 32, 64}`), started in any state
related to an event-level state at the beginning of the data stage of a standard GET_DESCRIPTOR transfer, and run over
the clock cycles of the host's IN + ACK pairs (any idle-cycle counts, free inputs, streamer latencies and `tx.ready`
patterns `gs` that let each packet finish within its window), puts exactly `Desc.dataStage dd wLength mps` on the bus:
the `mps`-sized chunks of the first `wLength` bytes of the descriptor and the zero-length packet iff their total is a
multiple of `mps` and smaller than `wLength`, under DATA1 / DATA0 alternating. -/
theorem cyc_get_descriptor_data_stage_mps (c : DevConfig) (hx : c.extra = [])
    (hm : c.maxPacket = 8 ∨ c.maxPacket = 16 ∨ c.maxPacket = 32 ∨ c.maxPacket = 64) (v l a : Nat) (dd : List Nat)
    (hl : l < 65536)
    (hlk : lookupDescriptor c.descriptors (v / 256 % 256) (v % 256) = some dd) (hpb : dd.length < 2 ^ c.posBits)
    (h11 : min l dd.length < 2048) (d : DevState) (hinv : Inv d) (hcfg : d.config < 256) (hr : Reading c v l a d 0)
    (gs : List GapsS) (hgs : gs.length = 2 * (Desc.dataStage dd l c.maxPacket).length)
    (hfit : FitsFromM c d ((readScript a (Desc.dataStage dd l c.maxPacket).length).zip gs) = true)
    (cs : CycState) (hrel : Rel d cs) :
    busRespsM c d cs ((readScript a (Desc.dataStage dd l c.maxPacket).length).zip gs) =
      readResps 0 (Desc.dataStage dd l c.maxPacket) := by
  have hmap : ((readScript a (Desc.dataStage dd l c.maxPacket).length).zip gs).map (·.1) =
      readScript a (Desc.dataStage dd l c.maxPacket).length := by
    apply List.map_fst_zip
    rw [readScript_length, hgs]; exact Nat.le_refl _
  obtain ⟨_, h2, _⟩ := cycle_refines_event_streams_run_mps c hx _ d hinv hcfg hfit cs hrel
  rw [h2, hmap, ← respsM_noforeign c d _ (readScript_noforeign a _)]
  exact get_descriptor_data_stage_mps c hx hm v l a dd hl hlk hpb h11 d hr

/-! ### Non-vacuity -/

def exCfgR : DevConfig :=
  { descriptors := [(1, 0, [18, 1, 0, 2, 0, 0, 0, 8, 9, 18, 1, 0, 0, 1, 1, 2, 3, 1]), (2, 0, List.range 16)],
    maxPacket := 8, posBits := 5 }

/-- the state after SETUP token + SETUP data of GET_DESCRIPTOR(`v`, wLength `l`) from reset. -/
def exAfterSetup (c : DevConfig) (v l : Nat) : DevState :=
  finalM c Device.init [⟨.token PID_SETUP 0 0, .none⟩, ⟨.data PID_DATA0 [0x80, 6, v % 256, v / 256, 0, 0, l % 256, l / 256] true, .none⟩]

example : Reading exCfgR 0x100 64 0 (exAfterSetup exCfgR 0x100 64) 0 := by
  constructor <;> decide
example : Desc.dataStage [18, 1, 0, 2, 0, 0, 0, 8, 9, 18, 1, 0, 0, 1, 1, 2, 3, 1] 64 8 =
    [[18, 1, 0, 2, 0, 0, 0, 8], [9, 18, 1, 0, 0, 1, 1, 2], [3, 1]] := by decide
example : respsM exCfgR (exAfterSetup exCfgR 0x100 64) (readScript 0 3) =
    [.data PID_DATA1 [18, 1, 0, 2, 0, 0, 0, 8], .none, .data PID_DATA0 [9, 18, 1, 0, 0, 1, 1, 2], .none,
     .data PID_DATA1 [3, 1], .none] := by decide +kernel
-- 16 bytes, wLength 64: two full packets and the zero-length packet; wLength 16: no zero-length packet
example : Reading exCfgR 0x200 64 0 (exAfterSetup exCfgR 0x200 64) 0 := by
  constructor <;> decide
example : Desc.dataStage (List.range 16) 64 8 = [[0, 1, 2, 3, 4, 5, 6, 7], [8, 9, 10, 11, 12, 13, 14, 15], []] := by
  decide
example : Desc.dataStage (List.range 16) 16 8 = [[0, 1, 2, 3, 4, 5, 6, 7], [8, 9, 10, 11, 12, 13, 14, 15]] := by decide

-- the window hypothesis of `cyc_get_descriptor_data_stage_mps`: latency 2, a stalled cycle, then 12 accepting cycles
def exGR : GapsS := { pre := [{}], mid := [{}], post := [{}], lat := 2,
                      stream := ([{}, {}, {}] : List CycIn) ++ List.replicate 12 ({ txReady := true } : CycIn) }
example : FitsFromM exCfgR (exAfterSetup exCfgR 0x100 64) ((readScript 0 3).zip (List.replicate 6 exGR)) = true := by
  decide +kernel
example : Inv (exAfterSetup exCfgR 0x100 64) := inv_finalM _ _ _ inv_init

end LunaVerif.CtrlCyc
