import LunaVerif.Props.C09Spec
/-!
Helper lemmas for C09: the host's in-order read over a response function that meets `specResponse`
reproduces `dataStage` (pure list reasoning; no gateware model involved).
-/
namespace LunaVerif.Desc

theorem packetAt_length (d : List Nat) (wLength mps k : Nat) :
    (packetAt d wLength mps k).length = min mps (min wLength d.length - k * mps) := by
  simp [packetAt, List.length_take, List.length_drop]

/-- the trailing zero-length packet of the specification. -/
def zlpPart (total wLength mps : Nat) : List Response :=
  if total ≠ 0 ∧ total % mps = 0 ∧ total < wLength then [.zlp] else []

theorem ofPacket_packetAt (d : List Nat) (wLength mps k : Nat) (h : k * mps < min wLength d.length) (hm : 0 < mps) :
    Response.ofPacket (packetAt d wLength mps k) = .data (packetAt d wLength mps k) := by
  have hl := packetAt_length d wLength mps k
  unfold Response.ofPacket
  have : (packetAt d wLength mps k) ≠ [] := by
    intro he; rw [he] at hl; simp at hl; omega
  cases hp : packetAt d wLength mps k with
  | nil => exact absurd hp this
  | cons a l => simp

theorem specResponse_lt (d : List Nat) (wLength mps k : Nat) (h : k * mps < min wLength d.length) :
    specResponse (some d) wLength mps (k * mps) = .data (packetAt d wLength mps k) := by
  simp [specResponse, packetAt, h]

theorem specResponse_ge (d : List Nat) (wLength mps s : Nat) (h : ¬ s < min wLength d.length) :
    specResponse (some d) wLength mps s = .zlp := by
  simp [specResponse, h]

/-- The loop from the `k`-th IN on, `m` data packets of the specification still to come. -/
theorem hostRead_from (resp : Nat → Response) (d : List Nat) (wLength mps fuel : Nat)
    (hm : mps = 8 ∨ mps = 16 ∨ mps = 32 ∨ mps = 64)
    (hw : 0 < wLength) (hd : 0 < d.length) (h11 : min wLength d.length < 2048)
    (hresp : ∀ k, k * mps ≤ min wLength d.length → k * mps < wLength →
      resp (k * mps) = specResponse (some d) wLength mps (k * mps)) :
    ∀ m k, k + m = (min wLength d.length + mps - 1) / mps →
      (k = 0 ∨ (k * mps ≤ min wLength d.length ∧ k * mps < wLength)) → m + 1 ≤ fuel →
      hostRead resp mps wLength fuel k (k * mps)
        = ((List.range' k m).map (packetAt d wLength mps)).map Response.ofPacket
          ++ zlpPart (min wLength d.length) wLength mps := by
  intro m
  induction m generalizing fuel with
  | zero =>
    intro k hk hinv hf
    obtain ⟨f, rfl⟩ : ∃ f, fuel = f + 1 := ⟨fuel - 1, by omega⟩
    have hmp : 0 < mps := by omega
    have htot : k * mps = min wLength d.length := by
      rcases hm with rfl | rfl | rfl | rfl <;> omega
    have hmod : (k * mps) % 2048 = k * mps := Nat.mod_eq_of_lt (by omega)
    have hz : zlpPart (min wLength d.length) wLength mps = [.zlp] := by
      unfold zlpPart
      rw [if_pos]
      refine ⟨by omega, ?_, ?_⟩
      · rw [← htot]; exact Nat.mul_mod_left k mps
      · rcases hm with rfl | rfl | rfl | rfl <;> omega
    simp only [hostRead, hmod, List.range'_zero, List.map_nil, List.nil_append, hz]
    rw [hresp k (by omega) (by rcases hinv with rfl | h <;> omega), specResponse_ge _ _ _ _ (by omega)]
  | succ m ih =>
    intro k hk hinv hf
    obtain ⟨f, rfl⟩ : ∃ f, fuel = f + 1 := ⟨fuel - 1, by omega⟩
    have hmp : 0 < mps := by omega
    have hlt : k * mps < min wLength d.length := by
      rcases hm with rfl | rfl | rfl | rfl <;> omega
    have hmod : (k * mps) % 2048 = k * mps := Nat.mod_eq_of_lt (by omega)
    have hlen := packetAt_length d wLength mps k
    simp only [hostRead, hmod, List.range'_succ, List.map_cons]
    rw [hresp k (by omega) (by omega), specResponse_lt _ _ _ _ hlt, ofPacket_packetAt _ _ _ _ hlt hmp]
    simp only
    split
    · -- the host stops here: this was the last data packet and no ZLP is due
      rename_i hstop
      have hm0 : m = 0 := by
        rcases hm with rfl | rfl | rfl | rfl <;> omega
      have hz : zlpPart (min wLength d.length) wLength mps = [] := by
        unfold zlpPart
        rw [if_neg]
        rintro ⟨_, h2, h3⟩
        rcases hm with rfl | rfl | rfl | rfl <;> omega
      subst hm0
      simp [hz]
    · rename_i hgo
      have hfull : (packetAt d wLength mps k).length = mps := by omega
      have hnext : k * mps + (packetAt d wLength mps k).length = (k + 1) * mps := by
        rw [hfull]; rcases hm with rfl | rfl | rfl | rfl <;> omega
      rw [hnext]
      rw [ih f (k + 1) (by omega) (Or.inr ⟨by rcases hm with rfl | rfl | rfl | rfl <;> omega,
                                             by rcases hm with rfl | rfl | rfl | rfl <;> omega⟩) (by omega)]
      simp

theorem dataStage_map (d : List Nat) (wLength mps : Nat) :
    (dataStage d wLength mps).map Response.ofPacket
      = ((List.range' 0 ((min wLength d.length + mps - 1) / mps)).map (packetAt d wLength mps)).map Response.ofPacket
        ++ zlpPart (min wLength d.length) wLength mps := by
  unfold dataStage zlpPart
  simp only [List.map_append, List.range_eq_range']
  congr 1
  split <;> simp [Response.ofPacket]

end LunaVerif.Desc
