import LunaVerif.Lemmas.StreamGenSpec
/-!
# C27 — every `start_position` value: definitions of the as-coded emission and its arithmetic

`self.start_position` is `Signal(range(len(data)))` (sized by the BYTE length, `rangeWidth len` bits), the
internal `start_position` / `position_in_stream` are `Signal(range(words))` (`posMod = 2 ^ rangeWidth words`
values), the clamp compares with the BYTE length:

    with m.If(self.start_position >= self._data_length):  start_position.eq(data_length - 1)   # words - 1
    with m.Else():                                         start_position.eq(self.start_position)  # truncates

`effStart` is the word position the generator really starts from.  From there `position_in_stream` counts
upwards modulo `posMod` until it *equals* `words - 1` (or the max-length end comes first): a start beyond
the last word (`words ≤ e < posMod`, possible for multi-byte words only) first walks through the `lead`
out-of-range ROM addresses (which read 0 in the simulator), wraps to 0 and then plays the whole constant.
-/
namespace LunaVerif.StreamGen

/-- number of values of `position_in_stream` (`Signal(range(words))`) -/
def posMod (c : Config) : Nat := 2 ^ rangeWidth (nWords c)

/-- the internal `start_position`: clamp against the BYTE length, else truncation to the word-position width -/
def effStart (c : Config) (sp : Nat) : Nat :=
  if sp ≥ c.data.length then nWords c - 1 else sp % posMod c

/-- out-of-range word positions walked through before the position wraps to 0 -/
def lead (c : Config) (e : Nat) : Nat := if e < nWords c then 0 else posMod c - e

/-- first word of the constant that is played -/
def base (c : Config) (e : Nat) : Nat := if e < nWords c then e else 0

/-- `position_in_stream` at word `k` of the emission -/
def posA (c : Config) (e k : Nat) : Nat := if k < lead c e then e + k else base c e + (k - lead c e)

/-- bytes the generator can play from effective start `e` before the data-length end: `lead` full
(out-of-range, all-zero) words, then the constant from word `base` -/
def availA (c : Config) (e : Nat) : Nat := lead c e * c.wb + (c.data.length - base c e * c.wb)

def budgetA (c : Config) (sp M : Nat) : Nat := min M (availA c (effStart c sp))

def nXfersA (c : Config) (sp M : Nat) : Nat := (budgetA c sp M + c.wb - 1) / c.wb

/-- word `k` of the emission for ANY value `sp` of the `start_position` port -/
def xferA (c : Config) (sp M k : Nat) : Xfer :=
  let e := effStart c sp
  ⟨if k < lead c e then 0 else wordOf c.big ((c.data.drop ((base c e + (k - lead c e)) * c.wb)).take c.wb),
   if c.vw = 1 then 1 else ones (min c.wb (budgetA c sp M - k * c.wb)),
   k == 0 && sp == e,
   k + 1 == nXfersA c sp M⟩

def xfersA (c : Config) (sp M : Nat) : List Xfer := (List.range (nXfersA c sp M)).map (xferA c sp M)

/-! ## arithmetic -/

/-- start within the words: `L = 0`, `b = e`, `p = e + k` -/
theorem arithA_in (wb len W e M k B N vbl : Nat) (hwb : wb = 1 ∨ wb = 2 ∨ wb = 4) (hlen : 1 ≤ len)
    (hW : W = (len + wb - 1) / wb) (he : e < W)
    (hB : B = min M (len - e * wb)) (hN : N = (B + wb - 1) / wb) (hk : k < N)
    (hv : vbl = if len % wb = 0 then wb else len % wb) :
    e + k < W ∧ ((e + k = W - 1 ∨ k * wb + wb ≥ M) ↔ k + 1 = N) ∧ k * wb < M ∧
    (e + k = W - 1 → min wb (min (M - k * wb) vbl) = min wb (B - k * wb)) ∧
    (e + k ≠ W - 1 → min wb (min (M - k * wb) wb) = min wb (B - k * wb)) ∧
    (k + 1 < N → (k + 1) * wb < M ∧ k * wb + wb = (k + 1) * wb ∧ e + k + 1 < W) := by
  rcases hwb with rfl | rfl | rfl <;> split at hv <;> omega

/-- start beyond the last word, still walking the out-of-range positions: `k < L = PW - e` -/
theorem arithA_lead (wb len W PW e M k B N : Nat) (hwb : wb = 1 ∨ wb = 2 ∨ wb = 4) (hlen : 1 ≤ len)
    (hW : W = (len + wb - 1) / wb) (_hPW : W ≤ PW) (he : e < PW) (heW : ¬ e < W)
    (hB : B = min M ((PW - e) * wb + (len - 0 * wb))) (hN : N = (B + wb - 1) / wb) (hk : k < N)
    (hkL : k < PW - e) :
    W ≤ e + k ∧ e + k ≠ W - 1 ∧ (k * wb + wb ≥ M ↔ k + 1 = N) ∧ k * wb < M ∧
    min wb (min (M - k * wb) wb) = min wb (B - k * wb) ∧
    (k + 1 < N → (k + 1) * wb < M ∧ k * wb + wb = (k + 1) * wb ∧
      ((k + 1 < PW - e ∧ e + k + 1 < PW) ∨ (¬ k + 1 < PW - e ∧ e + k + 1 = PW ∧ k + 1 - (PW - e) = 0))) := by
  rcases hwb with rfl | rfl | rfl <;> omega

/-- start beyond the last word, after the wrap: `k ≥ L = PW - e`, `p = k - L` -/
theorem arithA_wrapped (wb len W PW e M k B N vbl : Nat) (hwb : wb = 1 ∨ wb = 2 ∨ wb = 4) (hlen : 1 ≤ len)
    (hW : W = (len + wb - 1) / wb) (_hPW : W ≤ PW) (_he : e < PW) (_heW : ¬ e < W)
    (hB : B = min M ((PW - e) * wb + (len - 0 * wb))) (hN : N = (B + wb - 1) / wb) (hk : k < N)
    (hkL : ¬ k < PW - e) (hv : vbl = if len % wb = 0 then wb else len % wb) :
    k - (PW - e) < W ∧ ((k - (PW - e) = W - 1 ∨ k * wb + wb ≥ M) ↔ k + 1 = N) ∧ k * wb < M ∧
    (k - (PW - e) = W - 1 → min wb (min (M - k * wb) vbl) = min wb (B - k * wb)) ∧
    (k - (PW - e) ≠ W - 1 → min wb (min (M - k * wb) wb) = min wb (B - k * wb)) ∧
    (k + 1 < N → (k + 1) * wb < M ∧ k * wb + wb = (k + 1) * wb ∧ ¬ k + 1 < PW - e ∧
      k + 1 - (PW - e) = k - (PW - e) + 1 ∧ k - (PW - e) + 1 < W) := by
  rcases hwb with rfl | rfl | rfl <;> split at hv <;> omega

end LunaVerif.StreamGen
