import LunaVerif.Lemmas.C25RxBack
import LunaVerif.Lemmas.C25RxDriftFront
/-!
# C25 receive chain, back end, when the bit strobes are 3, 4 or 5 cycles apart (clock drift)

At nominal rate the NRZI decoder presents one bit every four cycles (`bitBlock`, `back_block`).  The back end has done
everything it does for a bit two cycles after the strobe; from then on it is *quiet* (`conc`) and stays so until the
next strobe (`quiet_run`).  So a strobe followed by `n - 1 ≥ 2` hold cycles (`vblock n`) is the same bit-level step
`bitStep` / `bitEv` (`back_vblock`), and a stream of such blocks is the same bit-level run as at nominal rate
(`back_vblocks`); the per-cycle (`o_pkt_start`, `o_receive_error`) trace only differs in how often the last value of
each block is repeated, which `errAfter` does not see.
-/
set_option linter.unusedSimpArgs false
namespace LunaVerif.FsRx
open LunaVerif.FsCodec

/-- the three cycles after which the back end is quiet again -/
theorem back_block3 (a : BB) (bd : Bool) (b : Bool × Bool) :
    runB (conc a bd) [(true, b.1, b.2), (false, b.1, b.2), (false, b.1, b.2)] = conc (bitStep a b) b.1 ∧
    events (outsB (conc a bd) [(true, b.1, b.2), (false, b.1, b.2), (false, b.1, b.2)]) = bitEv a b ∧
    (outsB (conc a bd) [(true, b.1, b.2), (false, b.1, b.2), (false, b.1, b.2)]).map seOf =
      [(a.det == 5 && !b.2 && b.1, a.err), (false, if a.det == 5 && !b.2 && b.1 then false else a.err),
       (false, (bitStep a b).err)] := by
  obtain ⟨d, z⟩ := b
  obtain ⟨det, bs, sr, err⟩ := a
  refine ⟨?_, ?_, ?_⟩
  · simp only [runB, conc, Back.next, Back.nextDet, Back.nextBs, Back.dropBit, Back.nextSr, Back.shValid,
      Back.srFull, Back.pktEnd, Back.pktActive, Back.pktStart, bitStep, detStep, bsStep, shiftIn]
    cases d <;> cases z <;> simp <;> split <;> simp_all
  · simp only [runB, outsB, conc, Back.next, Back.nextDet, Back.nextBs, Back.dropBit, Back.nextSr, Back.shValid,
      Back.srFull, Back.pktEnd, Back.pktActive, Back.pktStart, Back.out, Back.payData, events, evOf, bitEv, shiftIn]
    cases d <;> cases z <;> simp <;> split <;> simp_all <;> grind
  · simp only [runB, outsB, conc, Back.next, Back.nextDet, Back.nextBs, Back.dropBit, Back.nextSr, Back.shValid,
      Back.srFull, Back.pktEnd, Back.pktActive, Back.pktStart, Back.out, bitStep, List.map, seOf]
    cases d <;> cases z <;> simp

/-- a quiet back end stays quiet while no strobe comes -/
theorem quiet_run (a : BB) (d z : Bool) (m : Nat) :
    runB (conc a d) (List.replicate m (false, d, z)) = conc a d ∧
    events (outsB (conc a d) (List.replicate m (false, d, z))) = [] ∧
    (outsB (conc a d) (List.replicate m (false, d, z))).map seOf = List.replicate m (false, a.err) := by
  have hstep : (conc a d).next false d z = conc a d := by
    simp [conc, Back.next, Back.nextDet, Back.nextBs, Back.dropBit, Back.nextSr, Back.shValid, Back.pktEnd,
      Back.pktActive, Back.pktStart]
  have hout : evOf ((conc a d).out false d z) = [] ∧ seOf ((conc a d).out false d z) = (false, a.err) := by
    simp [conc, Back.out, evOf, seOf, Back.pktStart, Back.pktEnd]
  induction m with
  | zero => exact ⟨rfl, rfl, rfl⟩
  | succ m ih =>
    obtain ⟨i1, i2, i3⟩ := ih
    simp only [List.replicate_succ, runB, outsB, events, List.map, hstep, hout.1, hout.2, i1, i2, i3,
      List.nil_append]
    exact ⟨trivial, trivial, trivial⟩

/-- (`o_pkt_start`, `o_receive_error`) in the `n` cycles from one strobe to the next -/
def bitSEn (n : Nat) (a : BB) (b : Bool × Bool) : List (Bool × Bool) :=
  [(a.det == 5 && !b.2 && b.1, a.err), (false, if a.det == 5 && !b.2 && b.1 then false else a.err)] ++
    List.replicate (n - 2) (false, (bitStep a b).err)

theorem bitSEn_four (a : BB) (b : Bool × Bool) : bitSEn 4 a b = bitSE a b := rfl

/-- **one bit, any spacing ≥ 3**: the same bit-level step as at nominal rate -/
theorem back_vblock (a : BB) (bd : Bool) (b : Bool × Bool) (n : Nat) (hn : 3 ≤ n) :
    runB (conc a bd) (vblock n b) = conc (bitStep a b) b.1 ∧
    events (outsB (conc a bd) (vblock n b)) = bitEv a b ∧
    (outsB (conc a bd) (vblock n b)).map seOf = bitSEn n a b := by
  obtain ⟨h1, h2, h3⟩ := back_block3 a bd b
  obtain ⟨q1, q2, q3⟩ := quiet_run (bitStep a b) b.1 b.2 (n - 3)
  have hv : vblock n b = [(true, b.1, b.2), (false, b.1, b.2), (false, b.1, b.2)] ++
      List.replicate (n - 3) (false, b.1, b.2) := by
    obtain ⟨m, rfl⟩ : ∃ m, n = m + 3 := ⟨n - 3, by omega⟩
    simp only [vblock, Nat.add_sub_cancel, show m + 3 - 1 = m + 2 by omega, List.replicate_succ,
      List.cons_append, List.nil_append]
  have hs : bitSEn n a b = [(a.det == 5 && !b.2 && b.1, a.err),
      (false, if a.det == 5 && !b.2 && b.1 then false else a.err), (false, (bitStep a b).err)] ++
        List.replicate (n - 3) (false, (bitStep a b).err) := by
    obtain ⟨m, rfl⟩ : ∃ m, n = m + 3 := ⟨n - 3, by omega⟩
    simp only [bitSEn, Nat.add_sub_cancel, show m + 3 - 2 = m + 1 by omega, List.replicate_succ,
      List.cons_append, List.nil_append]
  rw [hv, hs, runB_append, outsB_append, events_append, List.map_append, h1, h2, h3, q1, q2, q3, List.append_nil]
  exact ⟨rfl, rfl, rfl⟩

def bitSEsD : BB → List (Nat × (Bool × Bool)) → List (Bool × Bool)
  | _, [] => []
  | a, (n, b) :: l => bitSEn n a b ++ bitSEsD (bitStep a b) l

/-- **the back end under drift is the bit-level machine** -/
theorem back_vblocks (l : List (Nat × (Bool × Bool))) (hl : ∀ p ∈ l, 3 ≤ p.1) : ∀ (a : BB) (bd : Bool),
    runB (conc a bd) (vblocks l) = conc (bitRun a (l.map (·.2))) (lastD bd (l.map (·.2))) ∧
    events (outsB (conc a bd) (vblocks l)) = bitEvs a (l.map (·.2)) ∧
    (outsB (conc a bd) (vblocks l)).map seOf = bitSEsD a l := by
  induction l with
  | nil => intro a bd; exact ⟨rfl, rfl, rfl⟩
  | cons p l ih =>
    intro a bd
    obtain ⟨n, b⟩ := p
    obtain ⟨h1, h2, h3⟩ := back_vblock a bd b n (hl (n, b) (by simp))
    obtain ⟨i1, i2, i3⟩ := ih (fun p hp => hl p (by simp [hp])) (bitStep a b) b.1
    simp only [vblocks, runB_append, outsB_append, events_append, List.map_append, h1, h2, h3, i1, i2, i3,
      List.map, bitRun, bitEvs, bitSEsD, lastD]
    exact ⟨trivial, trivial, trivial⟩

/-! ### `errAfter` does not see the repetition -/

theorem errAfter_hold (m : Nat) (e st : Bool) : errAfter st (List.replicate (m + 1) (false, e)) = (st && e) := by
  induction m with
  | zero => simp [errAfter]
  | succ m ih => rw [List.replicate_succ]; simp only [errAfter, ih, Bool.or_false, Bool.or_self]

theorem bitSEn_errAfter (n : Nat) (hn : 3 ≤ n) (a : BB) (b : Bool × Bool) (st : Bool) :
    errAfter st (bitSEn n a b) = errAfter st (bitSE a b) ∧ (bitSEn n a b).any (·.1) = (bitSE a b).any (·.1) := by
  obtain ⟨m, rfl⟩ : ∃ m, n = m + 3 := ⟨n - 3, by omega⟩
  have h4 : bitSE a b = bitSEn 4 a b := rfl
  rw [h4]
  simp only [bitSEn, show m + 3 - 2 = m + 1 by omega, show 4 - 2 = 1 + 1 by omega]
  refine ⟨?_, ?_⟩
  · simp only [List.cons_append, List.nil_append, errAfter, errAfter_hold]
  · simp only [List.any_append, List.any_cons, List.any_nil, List.any_replicate]
    simp

theorem bitSEsD_errAfter (l : List (Nat × (Bool × Bool))) (hl : ∀ p ∈ l, 3 ≤ p.1) : ∀ (a : BB) (st : Bool),
    errAfter st (bitSEsD a l) = errAfter st (bitSEs a (l.map (·.2))) := by
  induction l with
  | nil => intro a st; rfl
  | cons p l ih =>
    intro a st
    obtain ⟨n, b⟩ := p
    obtain ⟨h1, h2⟩ := bitSEn_errAfter n (hl (n, b) (by simp)) a b st
    simp only [bitSEsD, List.map, bitSEs, errAfter_append, h1, h2, ih (fun p hp => hl p (by simp [hp]))]

end LunaVerif.FsRx
