import LunaVerif.Props.C25RxUsb
/-!
# C25: helper facts for "the 12 MHz side sees the error of a bit-stuffing violation"

`pays_spaced_any` (payload writes are at least eight shifts apart for ANY data bits: `WF`, the sentinel position of the
shift register), `err_member` (an error sample under a high `o_pkt_in_progress` gives an `.err` event),
`errSamples_const`, `err_sticky_se`.
-/
set_option linter.unusedSimpArgs false
namespace LunaVerif.FsRxCdc
open LunaVerif.FsRx LunaVerif.FsCodec

/-- the shift register holds `j` data bits below its sentinel -/
def WF (sr : List Bool) : Nat → Prop
  | 0 => sr = [true, false, false, false, false, false, false, false, false]
  | 1 => ∃ x0, sr = [x0, true, false, false, false, false, false, false, false]
  | 2 => ∃ x0 x1, sr = [x0, x1, true, false, false, false, false, false, false]
  | 3 => ∃ x0 x1 x2, sr = [x0, x1, x2, true, false, false, false, false, false]
  | 4 => ∃ x0 x1 x2 x3, sr = [x0, x1, x2, x3, true, false, false, false, false]
  | 5 => ∃ x0 x1 x2 x3 x4, sr = [x0, x1, x2, x3, x4, true, false, false, false]
  | 6 => ∃ x0 x1 x2 x3 x4 x5, sr = [x0, x1, x2, x3, x4, x5, true, false, false]
  | 7 => ∃ x0 x1 x2 x3 x4 x5 x6, sr = [x0, x1, x2, x3, x4, x5, x6, true, false]
  | 8 => ∃ x0 x1 x2 x3 x4 x5 x6 x7, sr = [x0, x1, x2, x3, x4, x5, x6, x7, true]
  | _ => False

theorem wf_step (sr : List Bool) (j : Nat) (d : Bool) (h : WF sr j) :
    (sr.getD 7 false && !sr.getD 8 false) = decide (j = 7) ∧ WF (shiftIn sr d) (if j = 8 then 1 else j + 1) := by
  match j, h with
  | 0, h =>
    subst h
    exact ⟨by simp, by simp only [shiftIn]; simp; exact ⟨d, rfl⟩⟩
  | 1, ⟨x0, h⟩ =>
    subst h
    exact ⟨by simp, by simp only [shiftIn]; simp; exact ⟨d, x0, rfl⟩⟩
  | 2, ⟨x0, x1, h⟩ =>
    subst h
    exact ⟨by simp, by simp only [shiftIn]; simp; exact ⟨d, x0, x1, rfl⟩⟩
  | 3, ⟨x0, x1, x2, h⟩ =>
    subst h
    exact ⟨by simp, by simp only [shiftIn]; simp; exact ⟨d, x0, x1, x2, rfl⟩⟩
  | 4, ⟨x0, x1, x2, x3, h⟩ =>
    subst h
    exact ⟨by simp, by simp only [shiftIn]; simp; exact ⟨d, x0, x1, x2, x3, rfl⟩⟩
  | 5, ⟨x0, x1, x2, x3, x4, h⟩ =>
    subst h
    exact ⟨by simp, by simp only [shiftIn]; simp; exact ⟨d, x0, x1, x2, x3, x4, rfl⟩⟩
  | 6, ⟨x0, x1, x2, x3, x4, x5, h⟩ =>
    subst h
    exact ⟨by simp, by simp only [shiftIn]; simp; exact ⟨d, x0, x1, x2, x3, x4, x5, rfl⟩⟩
  | 7, ⟨x0, x1, x2, x3, x4, x5, x6, h⟩ =>
    subst h
    exact ⟨by simp, by simp only [shiftIn]; simp; exact ⟨d, x0, x1, x2, x3, x4, x5, x6, rfl⟩⟩
  | 8, ⟨x0, x1, x2, x3, x4, x5, x6, x7, h⟩ =>
    subst h
    exact ⟨by simp, by simp only [shiftIn]; simp; exact ⟨d, rfl⟩⟩
  | j + 9, h => exact absurd h (by simp [WF])

def need (j : Nat) : Nat := if j = 8 then 8 else 8 - j

theorem wf_le (sr : List Bool) (j : Nat) (h : WF sr j) : j ≤ 8 := by
  match j, h with
  | 0, _ | 1, _ | 2, _ | 3, _ | 4, _ | 5, _ | 6, _ | 7, _ | 8, _ => omega
  | j + 9, h => exact absurd h (by simp [WF])

/-- **payload writes are at least eight shifts apart, whatever the bits**: in PKT_ACTIVE, for any data bits (correctly
stuffed or not), the payload write stream is spaced (`g` bit times since the last write, `j` bits in the shifter) -/
theorem pays_spaced_any (bits : List Bool) : ∀ (n : Nat) (sr : List Bool) (e : Bool) (j g : Nat), WF sr j →
    8 ≤ g + need j → SpacedG g (bitPays ⟨6, n, sr, e⟩ (fbits bits)) = true := by
  induction bits with
  | nil => intro n sr e j g _ _; rfl
  | cons b bs ih =>
    intro n sr e j g hw hg
    have hj := wf_le sr j hw
    obtain ⟨w1, w2⟩ := wf_step sr j b hw
    by_cases h6 : n = 6
    · have hs : bitStep ⟨6, n, sr, e⟩ (b, false) =
          ⟨6, bsStep n b, sr, (bitStep ⟨6, n, sr, e⟩ (b, false)).err⟩ := by
        simp [bitStep, detStep, h6]
      have hp : bitPay ⟨6, n, sr, e⟩ (b, false) = none := by simp [bitPay, h6]
      simp only [fbits, List.map, bitPays, hp, SpacedG]
      rw [hs]
      exact ih _ _ _ j (g + 1) hw (by omega)
    · have e6 : (n == 6) = false := by simpa using h6
      have hs : bitStep ⟨6, n, sr, e⟩ (b, false) =
          ⟨6, bsStep n b, shiftIn sr b, (bitStep ⟨6, n, sr, e⟩ (b, false)).err⟩ := by
        simp [bitStep, detStep, e6]
      have hp : bitPay ⟨6, n, sr, e⟩ (b, false) =
          if j = 7 then some (bitsVal ((shiftIn sr b).take 8).reverse) else none := by
        simp only [bitPay, e6, Bool.not_false, Bool.true_and, beq_self_eq_true, Bool.and_assoc]
        rw [w1]; simp
      simp only [fbits, List.map, bitPays, hp]
      rw [hs]
      by_cases h7 : j = 7
      · subst h7
        simp only [if_true, SpacedG, Bool.and_eq_true, decide_eq_true_eq]
        have hn7 : need 7 = 1 := rfl
        rw [hn7] at hg
        refine ⟨by omega, ih _ _ _ 8 0 (by simpa using w2) (by simp [need])⟩
      · simp only [h7, if_false, SpacedG]
        by_cases h8 : j = 8
        · subst h8
          exact ih _ _ _ 1 (g + 1) (by simpa using w2) (by simp [need])
        · refine ih _ _ _ (j + 1) (g + 1) (by simpa [h8] using w2) ?_
          simp only [need, h8, if_false] at hg ⊢
          have : j + 1 ≠ 8 := by omega
          simp only [this, if_false]; omega

/-! ### seeing the error -/

theorem usbEvO_append (ps1 : List (Option Nat)) : ∀ (ip : Bool) (fs1 : List (Option Nat)) (es1 : List Bool)
    (ps2 fs2 : List (Option Nat)) (es2 : List Bool), fs1.length = ps1.length → es1.length = ps1.length →
    usbEvO ip (ps1 ++ ps2) (fs1 ++ fs2) (es1 ++ es2) =
      usbEvO ip ps1 fs1 es1 ++ usbEvO (ipFinalO ip fs1) ps2 fs2 es2 := by
  induction ps1 with
  | nil =>
    intro ip fs1 es1 ps2 fs2 es2 h1 h2
    have a : fs1 = [] := List.eq_nil_of_length_eq_zero (by simpa using h1)
    have b : es1 = [] := List.eq_nil_of_length_eq_zero (by simpa using h2)
    subst a; subst b; simp [usbEvO, ipFinalO]
  | cons p ps ih =>
    intro ip fs1 es1 ps2 fs2 es2 h1 h2
    match fs1, es1, h1, h2 with
    | f :: fs, e :: es, h1, h2 =>
      simp only [List.cons_append, usbEvO, ipFinalO]
      rw [ih _ fs es ps2 fs2 es2 (by simpa using h1) (by simpa using h2)]
      simp only [List.append_assoc]

/-- the error is seen at a `usb` edge while in progress -/
theorem err_member (ps1 fs1 : List (Option Nat)) (es1 : List Bool) (p f : Option Nat) (ps2 fs2 : List (Option Nat))
    (es2 : List Bool) (ip : Bool) (h1 : fs1.length = ps1.length) (h2 : es1.length = ps1.length)
    (hip : ipFinalO ip fs1 = true) :
    EvU.err ∈ usbEvO ip (ps1 ++ p :: ps2) (fs1 ++ f :: fs2) (es1 ++ true :: es2) := by
  rw [usbEvO_append ps1 ip fs1 es1 _ _ _ h1 h2, hip]
  apply List.mem_append_right
  simp [usbEvO]

theorem errSamples_const (φ : Nat) (v : Bool) (os : List FsRx.Out) (h : ∀ o ∈ os, o.rxErr = v) :
    ∀ c, errSamples φ c os = List.replicate (edges φ c os.length) v := by
  induction os with
  | nil => intro c; rfl
  | cons o os ih =>
    intro c
    have ho : o.rxErr = v := h o (by simp)
    simp only [errSamples, ho, ih (fun x hx => h x (by simp [hx])), List.length_cons, edges]
    split <;> simp [List.replicate_succ, Nat.add_comm 1]

/-- in PKT_ACTIVE with the error latched, data bits show the error in every cycle -/
theorem err_sticky_se (bits : List Bool) : ∀ (n : Nat) (sr : List Bool),
    ∀ p ∈ bitSEs ⟨6, n, sr, true⟩ (fbits bits), p = (false, true) := by
  induction bits with
  | nil => intro n sr p hp; simp [fbits, bitSEs] at hp
  | cons b bs ih =>
    intro n sr p hp
    have hs : bitStep ⟨6, n, sr, true⟩ (b, false) =
        ⟨6, bsStep n b, (bitStep ⟨6, n, sr, true⟩ (b, false)).sr, true⟩ := by
      simp [bitStep, detStep]
    simp only [fbits, List.map, bitSEs] at hp
    rcases List.mem_append.mp hp with hp | hp
    · rw [bitSE, hs] at hp
      simp at hp
      first | exact hp | (rcases hp with h' | h' | h' | h' <;> exact h')
    · rw [hs] at hp
      exact ih _ _ p hp

end LunaVerif.FsRxCdc
