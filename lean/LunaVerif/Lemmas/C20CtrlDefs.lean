import LunaVerif.Lemmas.C20CtrlBase
/-!
# C20 — the control endpoint keeps the slot contract: definitions, and the cycles in which both streamers are at rest

`ctlEnv` — what the environment of the closed loop `sys2Step` (C07: control endpoint + handler multiplexer + standard
handler + serializer + block descriptor handler) must keep in a cycle (decidable; see Lemmas/C20CtrlContract.lean for
the reading); `CG` — the ghost (contract phase, previous `setup.type`); `R` — the relation between the loop's state and
the phase: idle <=> both streamers at rest; armed j <=> at rest, or the serializer has just been started (j = 0), or
the descriptor handler is in START / LOOKUP_TYPE / LOOKUP_DESCRIPTOR / first byte / ZLP with j = 0 / 1 / 2 / 3 / 2..3;
sending <=> the serializer or the descriptor handler is streaming.  `step_quiet`: one cycle from a state at rest.
-/
namespace LunaVerif.CtrlCyc
open LunaVerif.Device LunaVerif.StreamGen LunaVerif.C20Ctr
open LunaVerif.Desc

/-- Ghost of the control slot: the contract's phase and `setup.type` as it was in the previous cycle. -/
structure CG where
  ph  : Ph
  pty : Nat
deriving DecidableEq, Repr

def ctlEnv (c : Cfg) (bc : Block.Config) (S : Sys2State) (g : CG) (i : CycIn) (pul : Bool) : Bool :=
  (!ctlPulse c i || pul) &&
  (!i.sdAck || (pul && i.isSetup)) &&
  (!i.received || i.isSetup) &&
  pidExcl i &&
  (g.ph == .idle || (!pul && !i.received && !(ctrlComb c S.cs.stage i).hsAck && i.su.type == g.pty)) &&
  (S.blk.fsm != .start || decide (S.cs.h.startPos < 2 ^ bc.img.posW))

def cgNext (L : Nat) (g : CG) (i : CycIn) (pul : Bool) (o : CycOut) : CG :=
  ⟨cnext L g.ph pul i.txReady (ctlSig o), i.su.type⟩

def SerQ' (σ : SerState) : Prop := σ.fsm = .idle ∨ σ.fsm = .done
def Quiet (S : Sys2State) : Prop := S.blk.fsm = .idle ∧ SerQ' S.ser
def SerBusy (S : Sys2State) (g : CG) : Prop :=
  S.blk.fsm = .idle ∧ S.ser.fsm = .streaming ∧ g.pty = TYPE_STANDARD ∧
    (S.cs.h.hstate = .getStatus ∨ S.cs.h.hstate = .getConfiguration)
def BlkBusy (S : Sys2State) (g : CG) : Prop :=
  SerQ' S.ser ∧ g.pty = TYPE_STANDARD ∧ S.cs.h.hstate = .getDescriptor

def R (S : Sys2State) (g : CG) : Prop :=
  (g.ph ≠ .sending ∧ Quiet S) ∨
  (SerBusy S g ∧ (g.ph = .sending ∨ (g.ph = .armed 0 ∧ S.ser.pos = 0))) ∨
  (BlkBusy S g ∧ ((g.ph = .sending ∧ S.blk.fsm = .sendDescriptor) ∨
       (g.ph = .armed 0 ∧ S.blk.fsm = .start) ∨
       (g.ph = .armed 1 ∧ S.blk.fsm = .lookupType ∧ S.blk.pos = S.cs.h.startPos) ∨
       (g.ph = .armed 2 ∧ S.blk.fsm = .lookupDescriptor ∧ S.blk.pos = S.cs.h.startPos) ∨
       (g.ph = .armed 3 ∧ S.blk.fsm = .sendDescriptor ∧ S.blk.pos = S.cs.h.startPos) ∨
       ((g.ph = .armed 2 ∨ g.ph = .armed 3) ∧ S.blk.fsm = .sendZlp)))

theorem cnext_ne_sending (L : Nat) (ph : Ph) (pul rdy : Bool) (d : Sig) (hph : ph ≠ .sending) (hf : d.first = false) :
    cnext L ph pul rdy d ≠ .sending := by
  simp only [cnext, cnextB, hph, if_false, hf, Bool.and_false]
  cases d.hs <;> cases d.valid <;> cases pul <;> simp
  cases ph <;> simp [expire]
  split <;> simp

/-- With both streamers silent the control endpoint's own drive keeps the contract of a slot that is not sending. -/
theorem sigF_quiet (h : HState) (std : Bool) (cc : CtrlComb) (sd stl : Bool) (ph : Ph) (pul : Bool)
    (hph : ph ≠ .sending) (hi : ph = .idle ∨ pul = false)
    (f1 : pul = false → cc.dataRequested = false ∧ cc.statusRequested = false ∧ cc.pingAck = false ∧ sd = false)
    (f2 : cc.dataRequested = true → cc.statusRequested = false ∧ cc.pingAck = false ∧ sd = false)
    (f3 : cc.statusRequested = true → cc.pingAck = false ∧ sd = false) :
    cok ph pul (sigF h std cc sd stl false false false false false false false) = true ∧
    (sigF h std cc sd stl false false false false false false false).first = false ∧
    (cc.dataRequested = true → std = true →
      (h = .getDescriptor ∨ h = .getStatus ∨ h = .getConfiguration) →
      (sigF h std cc sd stl false false false false false false false).hs = false ∧
      (sigF h std cc sd stl false false false false false false false).valid = false) := by
  obtain ⟨dr, sr, ha, pa⟩ := cc
  simp only at f1 f2 f3 ⊢
  cases pul with
  | false =>
    obtain ⟨rfl, rfl, rfl, rfl⟩ := f1 rfl
    cases std <;> cases h <;> simp [sigF, cok, cokB, hph]
  | true =>
    have hi' : ph = .idle := by simpa using hi
    subst hi'
    cases std <;> cases h <;> simp only [sigF, cok, cokB] <;>
      cases dr <;> cases sr <;> cases pa <;> cases sd <;> cases stl <;> simp_all

/-! ### The closed loop, unfolded -/
def bOut (c : Cfg) (bc : Block.Config) (S : Sys2State) (i : CycIn) : Beat := (blkCycle c bc S.cs S.blk i).2
def sOut (c : Cfg) (S : Sys2State) (i : CycIn) : SerOut := (serCycle c ⟨S.cs, S.ser⟩ i).2
def inOf (c : Cfg) (bc : Block.Config) (S : Sys2State) (i : CycIn) : CycIn :=
  withD (withT i (sOut c S i)) (bOut c bc S i)

theorem sys2_out (c : Cfg) (bc : Block.Config) (S : Sys2State) (i : CycIn) :
    (sys2Step c bc S i).2 = (step c S.cs (inOf c bc S i)).2 := rfl
theorem sys2_cs (c : Cfg) (bc : Block.Config) (S : Sys2State) (i : CycIn) :
    (sys2Step c bc S i).1.cs = (step c S.cs (inOf c bc S i)).1 := rfl
theorem sys2_blk (c : Cfg) (bc : Block.Config) (S : Sys2State) (i : CycIn) :
    (sys2Step c bc S i).1.blk = (Block.step bc S.blk (blkInOf S.cs i (step c S.cs i).2.h)).1 := rfl
theorem sys2_ser (c : Cfg) (bc : Block.Config) (S : Sys2State) (i : CycIn) :
    (sys2Step c bc S i).1.ser = (serStep txCfg S.ser (serInOf (step c S.cs i).2.h)).1 := rfl
theorem bOut_eq (c : Cfg) (bc : Block.Config) (S : Sys2State) (i : CycIn) :
    bOut c bc S i = (Block.step bc S.blk (blkInOf S.cs i (step c S.cs i).2.h)).2 := rfl
theorem sOut_eq (c : Cfg) (S : Sys2State) (i : CycIn) :
    sOut c S i = (serStep txCfg S.ser (serInOf (step c S.cs i).2.h)).2 := rfl

/-- What the closed loop drives, by handler state. -/
theorem sys2_sig (c : Cfg) (bc : Block.Config) (S : Sys2State) (i : CycIn) :
    ctlSig (sys2Step c bc S i).2 = sigF S.cs.h.hstate (decide (i.su.type = TYPE_STANDARD)) (ctrlComb c S.cs.stage i)
      i.sdAck (clearFeatureStalls i.su) (sOut c S i).valid (sOut c S i).first (sOut c S i).last
      (bOut c bc S i).valid (bOut c bc S i).first (bOut c bc S i).last (bOut c bc S i).stall := by
  rw [sys2_out, ctl_sig]; rfl

/-- The handler stays in GET_DESCRIPTOR, with its start position. -/
theorem h_keep_gd (c : Cfg) (cs : CycState) (i : CycIn) (hstd : i.su.type = TYPE_STANDARD)
    (hh : cs.h.hstate = .getDescriptor) (hrc : i.received = false)
    (hsr : (ctrlComb c cs.stage i).statusRequested = false) (hds : i.dStall = false)
    (hak : (ctrlComb c cs.stage i).hsAck = false) :
    (step c cs i).1.h.hstate = .getDescriptor ∧ (step c cs i).1.h.startPos = cs.h.startPos := by
  simp [step, stdStep, hstd, stdStateBody, hh, handleNewSetup, handlerIn, hrc, hsr, hds, hak]

theorem h_keep_gs (c : Cfg) (cs : CycState) (i : CycIn) (hstd : i.su.type = TYPE_STANDARD)
    (hh : cs.h.hstate = .getStatus ∨ cs.h.hstate = .getConfiguration) (hrc : i.received = false)
    (hsr : (ctrlComb c cs.stage i).statusRequested = false) :
    (step c cs i).1.h.hstate = cs.h.hstate := by
  rcases hh with hh | hh <;>
    simp [step, stdStep, hstd, stdStateBody, hh, handleNewSetup, handlerIn, hrc, hsr]

/-- The environment assumption of a cycle, unpacked. -/
structure EnvF (c : Cfg) (bc : Block.Config) (S : Sys2State) (g : CG) (i : CycIn) (pul : Bool) : Prop where
  f1 : pul = false → (ctrlComb c S.cs.stage i).dataRequested = false ∧ (ctrlComb c S.cs.stage i).statusRequested = false ∧
        (ctrlComb c S.cs.stage i).pingAck = false ∧ i.sdAck = false
  f2 : (ctrlComb c S.cs.stage i).dataRequested = true → (ctrlComb c S.cs.stage i).statusRequested = false ∧
        (ctrlComb c S.cs.stage i).pingAck = false ∧ i.sdAck = false ∧ i.received = false
  f3 : (ctrlComb c S.cs.stage i).statusRequested = true → (ctrlComb c S.cs.stage i).pingAck = false ∧ i.sdAck = false
  busy : g.ph = .idle ∨ (pul = false ∧ i.received = false ∧ (ctrlComb c S.cs.stage i).hsAck = false ∧ i.su.type = g.pty)
  pos : S.blk.fsm = .start → S.cs.h.startPos < 2 ^ bc.img.posW

theorem envF_of (c : Cfg) (bc : Block.Config) (S : Sys2State) (g : CG) (i : CycIn) (pul : Bool)
    (he : ctlEnv c bc S g i pul = true) : EnvF c bc S g i pul := by
  simp only [ctlEnv, Bool.and_eq_true, Bool.or_eq_true, Bool.not_eq_eq_eq_not, Bool.not_true, beq_iff_eq,
    decide_eq_true_eq, bne_iff_ne, ne_eq] at he
  obtain ⟨⟨⟨⟨⟨e1, e2⟩, e3⟩, e4⟩, e5⟩, e6⟩ := he
  obtain ⟨s1, s2, s3, _⟩ := strobe_facts c S.cs.stage i pul
    (by intro h; rcases e1 with e | e; simp [h] at e; exact e)
    (by intro h; rcases e2 with e | e; simp [h] at e; exact e)
    (by intro h; rcases e3 with e | e; simp [h] at e; exact e) e4
  refine ⟨s1, s2, s3, ?_, ?_⟩
  · rcases e5 with e | e
    · exact Or.inl e
    · exact Or.inr ⟨e.1.1.1, e.1.1.2, e.1.2, e.2⟩
  · intro h; rcases e6 with e | e
    · exact absurd h e
    · exact e

theorem h_keep_gd_h (c : Cfg) (cs : CycState) (i : CycIn) (hstd : i.su.type = TYPE_STANDARD)
    (hh : cs.h.hstate = .getDescriptor) (hrc : i.received = false)
    (hsr : (ctrlComb c cs.stage i).statusRequested = false) (hds : i.dStall = false) :
    (step c cs i).1.h.hstate = .getDescriptor := by
  simp [step, stdStep, hstd, stdStateBody, hh, handleNewSetup, handlerIn, hrc, hsr, hds]

theorem inOf_su (c : Cfg) (bc : Block.Config) (S : Sys2State) (i : CycIn) : (inOf c bc S i).su = i.su := rfl
theorem inOf_rc (c : Cfg) (bc : Block.Config) (S : Sys2State) (i : CycIn) : (inOf c bc S i).received = i.received := rfl
theorem inOf_cc (c : Cfg) (bc : Block.Config) (S : Sys2State) (i : CycIn) (st : Stage) :
    ctrlComb c st (inOf c bc S i) = ctrlComb c st i := rfl
theorem inOf_ds (c : Cfg) (bc : Block.Config) (S : Sys2State) (i : CycIn) :
    (inOf c bc S i).dStall = (bOut c bc S i).stall := rfl

theorem cnext_armed0 (L : Nat) (rdy : Bool) (d : Sig) (h1 : d.hs = false) (h2 : d.valid = false) :
    cnext L .idle true rdy d = .armed 0 := by
  simp [cnext, cnextB, h1, h2]

theorem step_quiet (c : Cfg) (bc : Block.Config) (L : Nat) {S : Sys2State} {g : CG} {i : CycIn} {pul : Bool}
    (hq : Quiet S) (hph : g.ph ≠ .sending) (he : EnvF c bc S g i pul) :
    cok g.ph pul (ctlSig (sys2Step c bc S i).2) = true ∧
    R (sys2Step c bc S i).1 (cgNext L g i pul (sys2Step c bc S i).2) := by
  obtain ⟨hb, hs⟩ := hq
  obtain ⟨f1, f2, f3, hbusy, _⟩ := he
  -- the streamers in this cycle
  obtain ⟨hbo, hbn⟩ := blk_idle' bc S.blk (blkInOf S.cs i (step c S.cs i).2.h) hb
  rw [← bOut_eq] at hbo
  rw [← sys2_blk, wires_blk] at hbn
  obtain ⟨w1, w2, w3, _⟩ := wires_ser c S.cs i
  have hso : (sOut c S i).valid = false ∧ (sOut c S i).first = false ∧ (sOut c S i).last = false ∧
      ((sys2Step c bc S i).1.ser.fsm = .idle ∨
        ((gs S.cs i && (ctrlComb c S.cs.stage i).dataRequested) = true ∧
          (sys2Step c bc S i).1.ser.fsm = .streaming ∧ (sys2Step c bc S i).1.ser.pos = 0)) := by
    rw [sOut_eq, sys2_ser, ← w1]
    rcases hs with hs | hs
    · exact ser_idle _ _ hs w3
    · obtain ⟨a, b, c', d⟩ := ser_done S.ser (serInOf (step c S.cs i).2.h) hs
      exact ⟨a, b, c', Or.inl d⟩
  obtain ⟨so1, so2, so3, hsn⟩ := hso
  have hi : g.ph = .idle ∨ pul = false := by
    rcases hbusy with h | h
    · exact Or.inl h
    · exact Or.inr h.1
  have hsig := sys2_sig c bc S i
  rw [hbo, so1, so2, so3] at hsig
  simp only [Beat.quiet] at hsig
  obtain ⟨k1, k2, k3⟩ := sigF_quiet S.cs.h.hstate (decide (i.su.type = TYPE_STANDARD)) (ctrlComb c S.cs.stage i) i.sdAck
    (clearFeatureStalls i.su) g.ph pul hph hi f1 (fun h => ⟨(f2 h).1, (f2 h).2.1, (f2 h).2.2.1⟩) f3
  rw [← hsig] at k1 k2 k3
  refine ⟨k1, ?_⟩
  have hns := cnext_ne_sending L g.ph pul i.txReady _ hph k2
  have hpty : (cgNext L g i pul (sys2Step c bc S i).2).pty = i.su.type := rfl
  have hphn : (cgNext L g i pul (sys2Step c bc S i).2).ph = cnext L g.ph pul i.txReady (ctlSig (sys2Step c bc S i).2) := rfl
  by_cases hdr : (ctrlComb c S.cs.stage i).dataRequested = true
  · obtain ⟨d1, d2, d3, d4⟩ := f2 hdr
    have hpul : pul = true := by
      cases hp : pul with
      | true => rfl
      | false => have := (f1 hp).1; simp [hdr] at this
    have hidle : g.ph = .idle := by rcases hi with h | h; exact h; simp [hpul] at h
    by_cases hgd : gd S.cs i = true
    · -- the descriptor handler is started
      simp only [gd, Bool.and_eq_true, decide_eq_true_eq, beq_iff_eq] at hgd
      obtain ⟨hstd, hh⟩ := hgd
      have hgs : gs S.cs i = false := by simp [gs, hh]
      obtain ⟨k4, k5⟩ := k3 hdr (by simp [hstd]) (Or.inl hh)
      right; right
      refine ⟨⟨?_, ?_, ?_⟩, Or.inr (Or.inl ⟨?_, ?_⟩)⟩
      · rcases hsn with h | h
        · exact Or.inl h
        · simp [hgs] at h
      · rw [hpty]; exact hstd
      · rw [sys2_cs]
        exact h_keep_gd_h c S.cs _ hstd hh d4 d1 (by rw [inOf_ds, hbo]; rfl)
      · rw [hphn, hidle, hpul]; exact cnext_armed0 L _ _ k4 k5
      · rw [hbn]; simp [gd, hstd, hh, hdr]
    · have hgd' : gd S.cs i = false := by simpa using hgd
      have hbn' : (sys2Step c bc S i).1.blk.fsm = .idle := by rw [hbn]; simp [hgd']
      rcases hsn with h | ⟨h1, h2, h3⟩
      · left; exact ⟨hns, hbn', Or.inl h⟩
      · -- the serializer is started
        simp only [gs, Bool.and_eq_true, decide_eq_true_eq, Bool.or_eq_true, beq_iff_eq] at h1
        obtain ⟨⟨hstd, hh⟩, _⟩ := h1
        obtain ⟨k4, k5⟩ := k3 hdr (by simp [hstd]) (Or.inr hh)
        right; left
        refine ⟨⟨hbn', h2, ?_, ?_⟩, Or.inr ⟨?_, h3⟩⟩
        · rw [hpty]; exact hstd
        · rw [sys2_cs, h_keep_gs c S.cs (inOf c bc S i) hstd hh d4 d1]; exact hh
        · rw [hphn, hidle, hpul]; exact cnext_armed0 L _ _ k4 k5
  · have hdr' : (ctrlComb c S.cs.stage i).dataRequested = false := by simpa using hdr
    left
    refine ⟨hns, ?_, ?_⟩
    · rw [hbn]; simp [hdr']
    · rcases hsn with h | h
      · exact Or.inl h
      · simp [hdr'] at h

end LunaVerif.CtrlCyc
