import LunaVerif.Lemmas.C24RankStep
/-!
# C24 — from the one-cycle lemmas to histories: the rank reaches 0 within an explicit bound

With `N = dirHigh h` the number of DIR-high cycles of the history and `r` the rank of the start
state: after `r + (2K+5)·N` cycles the rank is 0 (`rank_reaches_zero`), `r ≤ 3(2K+6) + T`
(`rank_le`), and rank 0 means settled (`rank_zero_settled`).
-/
set_option linter.unusedSimpArgs false
namespace LunaVerif.Ulpi

/-- Number of cycles of the history with DIR high. -/
def dirHigh : List UtmiIn → Nat
  | [] => 0
  | i :: is => (if i.phy.dir then 1 else 0) + dirHigh is

def dirLow : List UtmiIn → Nat
  | [] => 0
  | i :: is => (if i.phy.dir then 0 else 1) + dirLow is

theorem dir_count (h : List UtmiIn) : dirLow h + dirHigh h = h.length := by
  induction h with
  | nil => rfl
  | cons i is ih => simp only [dirLow, dirHigh, List.length_cons]; split <;> omega

/-- The control inputs equal `c` in every cycle of the history. -/
def ctrlConst (c : Controls) : List UtmiIn → Bool
  | [] => true
  | i :: is => decide (i.ctrl = c) && ctrlConst c is

theorem ready_step (cfg : Config) (x : World) (i : UtmiIn) (h : x.u.phyReady = true) :
    (x.step cfg i).u.phyReady = true := by
  simp [World.step, Utmi.step, h]

theorem ready_run (cfg : Config) (x : World) (h : List UtmiIn) (hr : x.u.phyReady = true) :
    (World.run cfg x h).u.phyReady = true := by
  induction h generalizing x with
  | nil => exact hr
  | cons i is ih => exact ih _ (ready_step cfg x i hr)

theorem liveCycle_safe {K T : Nat} {b : PhyBus} {e : Env} {i : UtmiIn} {o : UtmiOut}
    (h : liveCycle K T b e i o = true) : safeCycle b e i o = true := by
  simp only [liveCycle, Bool.and_eq_true] at h
  exact h.1.1.1

/-- Coherence and the monitor facts hold along every history satisfying the hypotheses. -/
theorem inv_run (cfg : Config) (K T : Nat) (x : World) (h : List UtmiIn) (hc : Coh x) (hl : Live K x)
    (ho : LiveOk cfg K T x h = true) : Coh (World.run cfg x h) ∧ Live K (World.run cfg x h) := by
  induction h generalizing x with
  | nil => exact ⟨hc, hl⟩
  | cons i is ih =>
    simp only [LiveOk, Bool.and_eq_true] at ho
    exact ih _ (coh_step cfg x i hc (liveCycle_safe ho.1)) (rank_step cfg K T x i hc hl ho.1).1 ho.2

theorem rank_zero_run (cfg : Config) (K T : Nat) (c : Controls) (x : World) (h : List UtmiIn)
    (hc : Coh x) (hl : Live K x) (hr : x.u.phyReady = true) (hcc : ctrlConst c h = true)
    (ho : LiveOk cfg K T x h = true) (hz : rank K T (functionControl c) (otgControl c) x = 0) :
    rank K T (functionControl c) (otgControl c) (World.run cfg x h) = 0 := by
  induction h generalizing x with
  | nil => exact hz
  | cons i is ih =>
    simp only [ctrlConst, LiveOk, Bool.and_eq_true, decide_eq_true_eq] at hcc ho
    obtain ⟨hi, hcc⟩ := hcc
    obtain ⟨h1, h2⟩ := ho
    have hs := rank_step cfg K T x i hc hl h1
    subst hi
    exact ih _ (coh_step cfg x i hc (liveCycle_safe h1)) hs.1 (ready_step cfg x i hr) hcc h2 ((hs.2 hr).1 hz)

theorem rank_run_bound (cfg : Config) (K T : Nat) (c : Controls) (x : World) (h : List UtmiIn)
    (hc : Coh x) (hl : Live K x) (hr : x.u.phyReady = true) (hcc : ctrlConst c h = true)
    (ho : LiveOk cfg K T x h = true) :
    rank K T (functionControl c) (otgControl c) (World.run cfg x h) = 0 ∨
    rank K T (functionControl c) (otgControl c) (World.run cfg x h) + dirLow h
      ≤ rank K T (functionControl c) (otgControl c) x + (2 * K + 4) * dirHigh h := by
  induction h generalizing x with
  | nil => right; simp [World.run, dirLow, dirHigh]
  | cons i is ih =>
    by_cases hz : rank K T (functionControl c) (otgControl c) x = 0
    · left; exact rank_zero_run cfg K T c x (i :: is) hc hl hr hcc ho hz
    · simp only [ctrlConst, LiveOk, Bool.and_eq_true, decide_eq_true_eq] at hcc ho
      obtain ⟨hi, hcc⟩ := hcc
      obtain ⟨h1, h2⟩ := ho
      have hs := rank_step cfg K T x i hc hl h1
      subst hi
      have hstep := (hs.2 hr).2
      rcases ih _ (coh_step cfg x i hc (liveCycle_safe h1)) hs.1 (ready_step cfg x i hr) hcc h2 with g | g
      · left; exact g
      · right
        simp only [World.run, dirLow, dirHigh]
        have hm : (2 * K + 4) * (1 + dirHigh is) = (2 * K + 4) + (2 * K + 4) * dirHigh is := by
          rw [Nat.mul_add, Nat.mul_one]
        cases hd : i.phy.dir <;> simp only [hd, if_true, if_false, Bool.false_eq_true, Nat.zero_add] at hstep ⊢
        · omega
        · rw [hm]; omega

/-- **The rank reaches 0.**  Control inputs constant `= c`, bounded-fairness hypotheses satisfied,
start-up timer expired: once the history is at least `rank + (2K+5)·(number of DIR-high cycles)` long
the rank with respect to `c` is 0. -/
theorem rank_reaches_zero (cfg : Config) (K T : Nat) (c : Controls) (x : World) (h : List UtmiIn)
    (hc : Coh x) (hl : Live K x) (hr : x.u.phyReady = true) (hcc : ctrlConst c h = true)
    (ho : LiveOk cfg K T x h = true)
    (hn : rank K T (functionControl c) (otgControl c) x + (2 * K + 5) * dirHigh h ≤ h.length) :
    rank K T (functionControl c) (otgControl c) (World.run cfg x h) = 0 := by
  rcases rank_run_bound cfg K T c x h hc hl hr hcc ho with g | g
  · exact g
  · have hm : (2 * K + 5) * dirHigh h = (2 * K + 4) * dirHigh h + dirHigh h := by
      rw [show 2 * K + 5 = (2 * K + 4) + 1 from rfl, Nat.add_mul, Nat.one_mul]
    have := dir_count h
    omega

/-- The rank of every coherent state is at most three register writes plus one transmission. -/
theorem rank_le (K T v04 v0A : Nat) (x : World) (hc : Coh x) (hl : Live K x) :
    rank K T v04 v0A x ≤ 3 * (2 * K + 6) + T := by
  obtain ⟨⟨win, ctl, tx, rx, rdy, cnt⟩, ⟨pb, r4, rA, po, pw⟩, ⟨pd, wt, tl, mh, dn, a4, aA⟩⟩ := x
  obtain ⟨wst, ca, cw, d, oq, sp, wdn, rd⟩ := win
  obtain ⟨tst, treq⟩ := tx
  obtain ⟨l2, l3, l4⟩ := hl
  simp only at l2 l3 l4
  have e1 : ∀ a b, wcost K a b ≤ 2 * K + 6 := by intro a b; unfold wcost; split <;> omega
  have p1 := e1 ctl.cur04 v04
  have p2 := e1 ctl.cur0A v0A
  have p3 := e1 cw v04
  have p4 := e1 cw v0A
  cases wst <;> simp only [rank]
  case idle =>
    split
    · simp only [pendAfter]; (repeat' split) <;> omega
    · split
      · omega
      · simp only [pendNow, txRank]
        cases tst <;> cases treq <;> cases pd <;>
          simp only [if_true, if_false, Bool.false_eq_true] <;> omega
  all_goals ((try simp only [pendAfter]); (repeat' split) <;> omega)

/-- Rank 0 is the settled state: register window idle, nothing credited or requested, both shadow
registers and both PHY registers equal to the requested values. -/
theorem rank_zero_settled (K T v04 v0A : Nat) (x : World) (hc : Coh x) (hl : Live K x)
    (hz : rank K T v04 v0A x = 0) :
    x.u.win.st = .idle ∧ x.u.win.done = false ∧ x.u.ctl.busy = false ∧
    x.u.ctl.cur04 = v04 ∧ x.u.ctl.cur0A = v0A ∧ x.p.r04 = v04 ∧ x.p.r0A = v0A := by
  obtain ⟨⟨win, ctl, tx, rx, rdy, cnt⟩, ⟨pb, r4, rA, po, pw⟩, ⟨pd, wt, tl, mh, dn, a4, aA⟩⟩ := x
  obtain ⟨wst, ca, cw, d, oq, sp, wdn, rd⟩ := win
  obtain ⟨c4, cA, cb⟩ := ctl
  obtain ⟨l2, l3, l4⟩ := hl
  simp only at l2 l3 l4
  obtain ⟨_, _, h3⟩ := hc
  cases wst <;> simp only [rank] at hz <;> simp only at h3
  case idle =>
    obtain ⟨_, _, h4⟩ := h3
    rcases h4 with ⟨hd, _⟩ | ⟨hd, hb, hr4, hrA, _⟩
    · subst hd; simp at hz
    · subst hd hb hr4 hrA
      simp only [Bool.false_eq_true, if_false, pendNow, wcost] at hz
      by_cases g4 : r4 = v04 <;> by_cases gA : rA = v0A <;> simp_all
      all_goals omega
  all_goals first | exact absurd h3 id | omega

end LunaVerif.Ulpi
