import LunaVerif.Lemmas.C37LiveBase
/-!
# C37 — liveness: every accepted header gets its LGOOD

`rankA T` bounds the number of ready cycles until `T` LGOODs have completed on the wire, for every
`T ≤ lgoods + acks_to_send` (= accepted headers + 1).  What can be ahead of an owed LGOOD: the rest of the
command in progress; a whole ISSUE_CREDITS session (which the dispatch FSM only leaves when
`credits_to_issue` is 1 at a completion; it is extended by every buffer the protocol layer frees in the
meantime, bounded by `credits_to_issue + buffers_filled + (4 - acks_to_send)` LCRDs because the partner
may have at most four unacknowledged headers); one LRTY per retry request (*bad* cycles, cost 4 each).
-/
set_option linter.unusedSimpArgs false
set_option linter.unusedVariables false
namespace LunaVerif.HeaderRx

def rankA (T : Nat) (x : World) : Nat :=
  if T - x.g.lgoods.length = 0 then 0 else
  match x.s.fsm with
  | .sendAcks => ph x.s.gen + 3 * (T - x.g.lgoods.length - 1)
  | .dispatch => 1 + lr x.s + 3 * (T - x.g.lgoods.length)
  | .sendLrty => ph x.s.gen + 1 + 3 * (T - x.g.lgoods.length)
  | .issueCredits => ph x.s.gen + 3 * (x.s.cti + x.s.bf + 3 - x.s.acks) + 1 + lr x.s +
      3 * (T - x.g.lgoods.length)
  | _ => ph x.s.gen + 1 + lr x.s + 3 * (T - x.g.lgoods.length)

def InvA (c : Config) (T : Nat) (x : World) : Prop := Inv c x.s x.g ∧ T ≤ x.g.lgoods.length + x.s.acks

def badA (_ : World) (i : In) : Bool := i.retryRequired

set_option hygiene false in
local macro "rank_go" hf:ident h0:ident : tactic =>
  `(tactic| (
    have hlr : lr s = if s.lrty then 4 else 0 := rfl
    cases hg : s.gen <;> cases hr : i.srcReady <;> cases hl : s.lrty <;> cases hq : i.retryRequired <;>
      simp [$hf:ident, $h0:ident, hg, hr, hl, hq, fsmNext, genNext, done, lgoodDone, lcrdDone, dispatchNext,
        generate, ph, nf, nr, na, en, step_fsm, step_gen] at fa fc fb flg flc fac lgA lcC fA fC g0 lrD lrN hlr hz ⊢ <;>
      (repeat' split) <;> (try simp only [ph] at *) <;> omega))

section
variable {c : Config} {T : Nat} {s : State} {g : Ghost} {n : Cnt} {i : In}

theorem rankA_step_dispatch (hI : Inv c s g) (hT : T ≤ g.lgoods.length + s.acks) (e : EnvStep s g i)
    (hf : s.fsm = .dispatch) (hz : rankA T ⟨s, g, n⟩ ≠ 0) :
    rankA T (World.next c ⟨s, g, n⟩ i) + (if i.srcReady then 1 else 0) ≤
      rankA T ⟨s, g, n⟩ + (if i.retryRequired then 4 else 0) := by
  obtain ⟨fa, fc, fb, flg, flc, fac, a4, a3, bc, bc3, cr, hk, hc, pb, lgA, lcC, fA, fC, g0, en, nf, nr, accA, bcA,
    popB, aL, pL, lrN, lrD, lbI⟩ := facts_of (c := c) hI e
  have na := no_abort (c := c) hI e
  simp only [World.next, rankA] at hz ⊢
  simp only [flg]
  have h0 : ¬ s.acks = 0 := by
    intro h0; rw [h0] at hT; simp only [hf] at hz; split at hz <;> omega
  have hgi := g0 hf
  rank_go hf h0

theorem rankA_step_sendAcks (hI : Inv c s g) (hT : T ≤ g.lgoods.length + s.acks) (e : EnvStep s g i)
    (hf : s.fsm = .sendAcks) (hz : rankA T ⟨s, g, n⟩ ≠ 0) :
    rankA T (World.next c ⟨s, g, n⟩ i) + (if i.srcReady then 1 else 0) ≤
      rankA T ⟨s, g, n⟩ + (if i.retryRequired then 4 else 0) := by
  obtain ⟨fa, fc, fb, flg, flc, fac, a4, a3, bc, bc3, cr, hk, hc, pb, lgA, lcC, fA, fC, g0, en, nf, nr, accA, bcA,
    popB, aL, pL, lrN, lrD, lbI⟩ := facts_of (c := c) hI e
  have na := no_abort (c := c) hI e
  simp only [World.next, rankA] at hz ⊢
  simp only [flg]
  by_cases h0 : s.acks = 1
  · rank_go hf h0
  · rank_go hf h0

theorem rankA_step_issueCredits1 (hI : Inv c s g) (hT : T ≤ g.lgoods.length + s.acks) (e : EnvStep s g i)
    (hf : s.fsm = .issueCredits) (h0 : s.cti = 1) (hz : rankA T ⟨s, g, n⟩ ≠ 0) :
    rankA T (World.next c ⟨s, g, n⟩ i) + (if i.srcReady then 1 else 0) ≤
      rankA T ⟨s, g, n⟩ + (if i.retryRequired then 4 else 0) := by
  obtain ⟨fa, fc, fb, flg, flc, fac, a4, a3, bc, bc3, cr, hk, hc, pb, lgA, lcC, fA, fC, g0, en, nf, nr, accA, bcA,
    popB, aL, pL, lrN, lrD, lbI⟩ := facts_of (c := c) hI e
  have na := no_abort (c := c) hI e
  simp only [World.next, rankA] at hz ⊢
  simp only [flg]
  rank_go hf h0

theorem rankA_step_issueCreditsN (hI : Inv c s g) (hT : T ≤ g.lgoods.length + s.acks) (e : EnvStep s g i)
    (hf : s.fsm = .issueCredits) (h0 : ¬ s.cti = 1) (hz : rankA T ⟨s, g, n⟩ ≠ 0) :
    rankA T (World.next c ⟨s, g, n⟩ i) + (if i.srcReady then 1 else 0) ≤
      rankA T ⟨s, g, n⟩ + (if i.retryRequired then 4 else 0) := by
  obtain ⟨fa, fc, fb, flg, flc, fac, a4, a3, bc, bc3, cr, hk, hc, pb, lgA, lcC, fA, fC, g0, en, nf, nr, accA, bcA,
    popB, aL, pL, lrN, lrD, lbI⟩ := facts_of (c := c) hI e
  have na := no_abort (c := c) hI e
  simp only [World.next, rankA] at hz ⊢
  simp only [flg]
  rank_go hf h0

theorem rankA_step_issueCredits (hI : Inv c s g) (hT : T ≤ g.lgoods.length + s.acks) (e : EnvStep s g i)
    (hf : s.fsm = .issueCredits) (hz : rankA T ⟨s, g, n⟩ ≠ 0) :
    rankA T (World.next c ⟨s, g, n⟩ i) + (if i.srcReady then 1 else 0) ≤
      rankA T ⟨s, g, n⟩ + (if i.retryRequired then 4 else 0) := by
  by_cases h0 : s.cti = 1
  · exact rankA_step_issueCredits1 hI hT e hf h0 hz
  · exact rankA_step_issueCreditsN hI hT e hf h0 hz

theorem rankA_step_sendLbad (hI : Inv c s g) (hT : T ≤ g.lgoods.length + s.acks) (e : EnvStep s g i)
    (hf : s.fsm = .sendLbad) (hz : rankA T ⟨s, g, n⟩ ≠ 0) :
    rankA T (World.next c ⟨s, g, n⟩ i) + (if i.srcReady then 1 else 0) ≤
      rankA T ⟨s, g, n⟩ + (if i.retryRequired then 4 else 0) := by
  obtain ⟨fa, fc, fb, flg, flc, fac, a4, a3, bc, bc3, cr, hk, hc, pb, lgA, lcC, fA, fC, g0, en, nf, nr, accA, bcA,
    popB, aL, pL, lrN, lrD, lbI⟩ := facts_of (c := c) hI e
  have na := no_abort (c := c) hI e
  simp only [World.next, rankA] at hz ⊢
  simp only [flg]
  have h0 : True := trivial
  rank_go hf h0

theorem rankA_step_sendLrty (hI : Inv c s g) (hT : T ≤ g.lgoods.length + s.acks) (e : EnvStep s g i)
    (hf : s.fsm = .sendLrty) (hz : rankA T ⟨s, g, n⟩ ≠ 0) :
    rankA T (World.next c ⟨s, g, n⟩ i) + (if i.srcReady then 1 else 0) ≤
      rankA T ⟨s, g, n⟩ + (if i.retryRequired then 4 else 0) := by
  obtain ⟨fa, fc, fb, flg, flc, fac, a4, a3, bc, bc3, cr, hk, hc, pb, lgA, lcC, fA, fC, g0, en, nf, nr, accA, bcA,
    popB, aL, pL, lrN, lrD, lbI⟩ := facts_of (c := c) hI e
  have na := no_abort (c := c) hI e
  simp only [World.next, rankA] at hz ⊢
  simp only [flg]
  have h0 : True := trivial
  rank_go hf h0

theorem rankA_step_sendKeepalive (hI : Inv c s g) (hT : T ≤ g.lgoods.length + s.acks) (e : EnvStep s g i)
    (hf : s.fsm = .sendKeepalive) (hz : rankA T ⟨s, g, n⟩ ≠ 0) :
    rankA T (World.next c ⟨s, g, n⟩ i) + (if i.srcReady then 1 else 0) ≤
      rankA T ⟨s, g, n⟩ + (if i.retryRequired then 4 else 0) := by
  obtain ⟨fa, fc, fb, flg, flc, fac, a4, a3, bc, bc3, cr, hk, hc, pb, lgA, lcC, fA, fC, g0, en, nf, nr, accA, bcA,
    popB, aL, pL, lrN, lrD, lbI⟩ := facts_of (c := c) hI e
  have na := no_abort (c := c) hI e
  simp only [World.next, rankA] at hz ⊢
  simp only [flg]
  have h0 : True := trivial
  rank_go hf h0

theorem rankA_step_sendLxu (hI : Inv c s g) (hT : T ≤ g.lgoods.length + s.acks) (e : EnvStep s g i)
    (hf : s.fsm = .sendLxu) (hz : rankA T ⟨s, g, n⟩ ≠ 0) :
    rankA T (World.next c ⟨s, g, n⟩ i) + (if i.srcReady then 1 else 0) ≤
      rankA T ⟨s, g, n⟩ + (if i.retryRequired then 4 else 0) := by
  obtain ⟨fa, fc, fb, flg, flc, fac, a4, a3, bc, bc3, cr, hk, hc, pb, lgA, lcC, fA, fC, g0, en, nf, nr, accA, bcA,
    popB, aL, pL, lrN, lrD, lbI⟩ := facts_of (c := c) hI e
  have na := no_abort (c := c) hI e
  simp only [World.next, rankA] at hz ⊢
  simp only [flg]
  have h0 : True := trivial
  rank_go hf h0

/-- **One cycle, LGOOD rank.** -/
theorem rankA_step (c : Config) (T : Nat) :
    StepOk (World.next c) WOk (InvA c T) (rankA T) rdyW badA 4 := by
  intro x i hI e
  obtain ⟨s, g, n⟩ := x
  obtain ⟨hI, hT⟩ := hI
  simp only [WOk] at hI hT e
  have F := facts_of (c := c) hI e
  have na := no_abort (c := c) hI e
  refine ⟨⟨inv_step hI e, ?_⟩, ?_, ?_⟩
  · have h1 := F.acks; have h2 := F.lg; have h3 := F.aL
    simp only [World.next]; omega
  · intro hz
    have h2 := F.lg
    have : T - g.lgoods.length = 0 := by
      simp only [rankA] at hz
      split at hz
      · assumption
      · exfalso; revert hz; cases s.fsm <;> cases s.gen <;> simp [ph]
    simp only [rankA, World.next, h2]
    rw [if_pos (by omega)]
  · intro hz
    simp only [rdyW, badA]
    cases hf : s.fsm
    · exact rankA_step_dispatch hI hT e hf hz
    · exact rankA_step_sendAcks hI hT e hf hz
    · exact rankA_step_issueCredits hI hT e hf hz
    · exact rankA_step_sendLbad hI hT e hf hz
    · exact rankA_step_sendLrty hI hT e hf hz
    · exact rankA_step_sendKeepalive hI hT e hf hz
    · exact rankA_step_sendLxu hI hT e hf hz

theorem rankA_le (c : Config) (T : Nat) (x : World) (h : InvA c T x) : rankA T x ≤ 40 := by
  obtain ⟨s, g, n⟩ := x
  obtain ⟨hI, hT⟩ := h
  simp only at hI hT
  have h1 := hI.hbf; have h2 := hI.hcti; have h3 := hI.hcred; have h4 := hI.hacks4
  have hlr : lr s ≤ 4 := by simp only [lr]; split <;> omega
  simp only [rankA]
  split
  · omega
  · cases s.fsm <;> cases s.gen <;> simp only [ph] <;> omega

end

theorem rankA_zero {T : Nat} {x : World} (hz : rankA T x = 0) : T ≤ x.g.lgoods.length := by
  simp only [rankA] at hz
  split at hz
  · omega
  · exfalso; revert hz; cases x.s.fsm <;> cases x.s.gen <;> simp [ph]

/-- **LGOOD liveness, from any reachable state.**  If `T ≤ LGOODs sent + acks_to_send` (the `T`-th LGOOD is
owed) then it has completed on the wire once the history contains `rankA + 4·(retry requests)` ready cycles
(`rankA ≤ 40`). -/
theorem lgood_live (c : Config) (T : Nat) (s : State) (g : Ghost) (h : Inv c s g)
    (hT : T ≤ g.lgoods.length + s.acks) (is : List In) (ho : EnvOk c s g is)
    (hn : 40 + 4 * countIn (·.retryRequired) is ≤ readyCount is) :
    T ≤ (runG c s g is).2.lgoods.length := by
  have hx : InvA c T ⟨s, g, Cnt.init⟩ := ⟨h, hT⟩
  have hle := rankA_le c T _ hx
  have hz := converge (World.next c) WOk (InvA c T) (rankA T) rdyW badA 4 (rankA_step c T) is ⟨s, g, Cnt.init⟩ hx
    ((okW_iff c is _).2 ho) (by
      rw [cnt_rdyW]
      have : cntS (World.next c) badA ⟨s, g, Cnt.init⟩ is = countIn (·.retryRequired) is :=
        cntS_in c (·.retryRequired) is _
      rw [this]; omega)
  have := rankA_zero hz
  have hsg := runW_sg c is ⟨s, g, Cnt.init⟩
  have : (runW c ⟨s, g, Cnt.init⟩ is).g = (runG c s g is).2 := by rw [← hsg]
  rw [← this]; assumption

end LunaVerif.HeaderRx
