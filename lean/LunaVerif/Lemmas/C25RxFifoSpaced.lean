import LunaVerif.Lemmas.C25RxFifoStream
/-!
# C25: helper facts for the FIFO stream theorem

`fifo_idle_run` (any number of cycles without a write), the counter formulation `SpacedG` of the spacing of a write
stream and its conversion to the pattern formulation `SpacedB` used by `fifo_stream`.
-/
set_option linter.unusedSimpArgs false
namespace LunaVerif.FsRxCdc

/-- number of `usb` edges in `n` cycles starting at cycle number `c` -/
def edges (φ : Nat) : Nat → Nat → Nat
  | _, 0 => 0
  | c, n + 1 => (if c == φ then 1 else 0) + edges φ ((c + 1) % 4) n

/-- any number of cycles without a write: nothing happens -/
theorem fifo_idle_run (φ : Nat) (hφ : φ < 4) (p : Nat) (hp : p < 8) (mem : List Nat) (hm : mem.length = 4) (n : Nat) :
    ∀ c, c < 4 → (runFifo φ c (settled p mem) (List.replicate n none)).1 = settled p mem ∧
      (runFifo φ c (settled p mem) (List.replicate n none)).2.map rdyData = List.replicate (edges φ c n) none := by
  obtain ⟨m0, m1, m2, m3, rfl⟩ := len4 mem hm
  induction n with
  | zero => intro c hc; exact ⟨rfl, rfl⟩
  | succ n ih =>
    intro c hc
    have h1 := fifo_idle p c φ hp hc hφ m0 m1 m2 m3
    obtain ⟨i1, i2⟩ := ih ((c + 1) % 4) (Nat.mod_lt _ (by omega))
    have hst : (settled p [m0, m1, m2, m3]).next false 0 (c == φ) = settled p [m0, m1, m2, m3] := by
      have := h1.1; simp only [runFifo] at this; exact this
    rw [List.replicate_succ]
    simp only [runFifo, Option.isSome_none, Option.getD_none, hst, i1, edges, List.map_append, i2]
    refine ⟨trivial, ?_⟩
    cases hcc : (c == φ)
    · simp [settled, rdyData]
    · simp [settled, rdyData]
      rw [Nat.add_comm 1, List.replicate_succ]

/-- spacing with a counter: `g` = bit times without a write so far -/
def SpacedG : Nat → List (Option Nat) → Bool
  | _, [] => true
  | g, none :: r => SpacedG (g + 1) r
  | g, some _ :: r => decide (5 ≤ g) && SpacedG 0 r

theorem spacedG_mono (W : List (Option Nat)) : ∀ g g', g ≤ g' → SpacedG g W = true → SpacedG g' W = true := by
  induction W with
  | nil => intros; rfl
  | cons w r ih =>
    intro g g' hg h
    cases w with
    | none => exact ih (g + 1) (g' + 1) (by omega) h
    | some d =>
      simp only [SpacedG, Bool.and_eq_true, decide_eq_true_eq] at h ⊢
      exact ⟨by omega, h.2⟩

theorem spacedG_nones (n : Nat) : ∀ g r, SpacedG g (List.replicate n none ++ r) = SpacedG (g + n) r := by
  induction n with
  | zero => intro g r; rfl
  | succ n ih => intro g r; rw [List.replicate_succ]; simp only [List.cons_append, SpacedG, ih]; congr 1; omega

theorem spacedB_nones (n : Nat) (r : List (Option Nat)) : SpacedB (List.replicate n none ++ r) = SpacedB r := by
  induction n with
  | zero => rfl
  | succ n ih => rw [List.replicate_succ]; simp only [List.cons_append, SpacedB, ih]

/-- a stream that is spaced by the counter, padded with five bit times without a write, is spaced -/
theorem spacedB_of_G (n : Nat) : ∀ (W : List (Option Nat)) (g : Nat), W.length ≤ n → 5 ≤ g → SpacedG g W = true →
    SpacedB (W ++ List.replicate 5 none) = true := by
  induction n with
  | zero =>
    intro W g hl _ _
    have : W = [] := List.eq_nil_of_length_eq_zero (by omega)
    subst this; rfl
  | succ n ih =>
    intro W g hl hg h
    match W, hl, h with
    | [], _, _ => rfl
    | none :: r, hl, h => exact ih r (g + 1) (by simp at hl; omega) (by omega) h
    | some d :: r, hl, h =>
      simp only [SpacedG, Bool.and_eq_true, decide_eq_true_eq] at h
      have h0 := h.2
      match r, hl, h0 with
      | [], _, _ => rfl
      | [none], _, _ => rfl
      | [none, none], _, _ => rfl
      | [none, none, none], _, _ => rfl
      | [none, none, none, none], _, _ => rfl
      | none :: none :: none :: none :: none :: r', hl, h0 =>
        simp only [List.cons_append, SpacedB]
        exact ih r' 5 (by simp at hl; omega) (by omega) h0
      | some _ :: _, _, h0 => simp [SpacedG] at h0
      | none :: some _ :: _, _, h0 => simp [SpacedG] at h0
      | none :: none :: some _ :: _, _, h0 => simp [SpacedG] at h0
      | none :: none :: none :: some _ :: _, _, h0 => simp [SpacedG] at h0
      | none :: none :: none :: none :: some _ :: _, _, h0 => simp [SpacedG] at h0

end LunaVerif.FsRxCdc
