import LunaVerif.Lemmas.C07MpsRead
import LunaVerif.Lemmas.C07MpsTransfer
/-!
# C09 end to end, event level: one whole GET_DESCRIPTOR transfer on the event-level control model (`stepM`)

Helpers of Props/C09EndToEnd.lean.  The host's side of a GET_DESCRIPTOR(`v`, wLength `l`) control read is the script
`getDescriptorScript a v l n` = SETUP token, the 8-byte SETUP data packet, `n` IN + ACK pairs.  From ANY state of the
event-level model (whatever the device did before):

* `setup_reading`        the two SETUP events are answered with (nothing, ACK) and leave the standard handler at the
                         start of the data stage (`Reading … 0`: GET_DESCRIPTOR, DATA_IN, `start_position` = 0, DATA1);
* `transfer_resps`       the whole transfer for an existing descriptor `dd`: (nothing, ACK) then
                         `readResps 0 (Desc.dataStage dd l mps)` (C07 `get_descriptor_data_stage_mps`);
* `first_in_resps`, `firstAnswer_stall_iff`   SETUP + first IN: (nothing, ACK, first packet under DATA1 or STALL);
                         STALL iff there is no such descriptor;
* `payloads_readResps`   the payload bytes of `readResps k ps` are `ps.flatten`, so with C09 `dataStage_concat` the
                         data packets concatenate to `dd.take l`;
* `script_legal`         the script is a legal host behaviour (`legalFromM`) after any history, so `LegalHostM` of
                         "prefix ++ script" is `LegalHostM` of the prefix.
-/
namespace LunaVerif.CtrlCyc
open LunaVerif.Device

/-- The SETUP data packet of a standard device-to-host GET_DESCRIPTOR(`wValue = v`, `wIndex = 0`, `wLength = l`). -/
def getDescriptorSetup (v l : Nat) : List Nat := [0x80, 6, v % 256, v / 256, 0, 0, l % 256, l / 256]

/-- The SETUP transaction of the transfer (host side). -/
def setupScript (a v l : Nat) : List Stim :=
  [⟨.token PID_SETUP a 0, .none⟩, ⟨.data PID_DATA0 (getDescriptorSetup v l) true, .none⟩]

/-- The host's side of the transfer up to the end of the data stage: SETUP transaction, `n` IN + ACK pairs. -/
def getDescriptorScript (a v l n : Nat) : List Stim := setupScript a v l ++ readScript a n

theorem parse_getDescriptorSetup (v l : Nat) (hv : v < 65536) (hl : l < 65536) :
    parseSetup (getDescriptorSetup v l) =
      { isIn := true, type := TYPE_STANDARD, recipient := 0, request := REQ_GET_DESCRIPTOR, value := v, index := 0,
        length := l } := by
  simp only [parseSetup, getDescriptorSetup, byteAt, List.getD_cons_zero, List.getD_cons_succ, TYPE_STANDARD,
    REQ_GET_DESCRIPTOR]
  have h1 : v % 256 % 256 + 256 * (v / 256 % 256) = v := by omega
  have h2 : l % 256 % 256 + 256 * (l / 256 % 256) = l := by omega
  simp only [Nat.mod_mod] at h1 h2
  simp [h1, h2]

/-- The state after the SETUP token of the script. -/
theorem setup_token (c : DevConfig) (d : DevState) :
    stepM c d ⟨.token PID_SETUP d.address 0, .none⟩ =
      ({ d with tokPid := PID_SETUP, tokEp := 0, sdWait := true, stage := .setup,
                gRespData := false, gRespLen := 0, gPrevTok := PID_SETUP }, .none) := by
  simp [stepM, coreM, core, onToken, afterToken, tokenStage, Resp.isNone, Resp.isData, Resp.dataLen, tokenPidOf]

/-- **The SETUP transaction of GET_DESCRIPTOR, from any state**: nothing after the token, ACK after the data packet,
and the standard handler is at the start of the data stage. -/
theorem setup_reading (c : DevConfig) (d : DevState) (v l : Nat) (hv : v < 65536) (hl : l < 65536) (hl0 : l ≠ 0) :
    respsM c d (setupScript d.address v l) = [.none, .hs PID_ACK] ∧
    Reading c v l d.address (finalM c d (setupScript d.address v l)) 0 ∧
    (finalM c d (setupScript d.address v l)).gDataDone = false := by
  have hp := parse_getDescriptorSetup v l hv hl
  have hlen : (getDescriptorSetup v l).length = 8 := rfl
  have h2 : stepM c
      { d with tokPid := PID_SETUP, tokEp := 0, sdWait := true, stage := .setup,
               gRespData := false, gRespLen := 0, gPrevTok := PID_SETUP }
      ⟨.data PID_DATA0 (getDescriptorSetup v l) true, .none⟩ =
      ({ d with tokPid := PID_SETUP, tokEp := 0, sdWait := false, stage := .dataIn,
                setup := parseSetup (getDescriptorSetup v l), hstate := .getDescriptor, startPos := 0, txPid := true,
                gDataDone := false, gRespData := false, gRespLen := 0, gPrevTok := 0 }, .hs PID_ACK) := by
    simp only [stepM, coreM, core, onData, hlen, onSetupData, hp]
    simp [stageAfterSetup, hl0, dispatch, REQ_GET_DESCRIPTOR, REQ_GET_STATUS, REQ_CLEAR_FEATURE, REQ_SET_ADDRESS,
      REQ_SET_CONFIGURATION, TYPE_STANDARD, Resp.isNone, Resp.isData, Resp.dataLen, tokenPidOf]
  refine ⟨?_, ?_, ?_⟩
  · simp only [setupScript, respsM, setup_token, h2]
  · simp only [setupScript, finalM, setup_token, h2, hp]
    constructor <;> simp
  · simp only [setupScript, finalM, setup_token, h2]

theorem c09_respsM_append (c : DevConfig) (h₁ h₂ : List Stim) : ∀ d,
    respsM c d (h₁ ++ h₂) = respsM c d h₁ ++ respsM c (finalM c d h₁) h₂ := by
  induction h₁ with
  | nil => intro d; rfl
  | cons x xs ih => intro d; simp only [List.cons_append, respsM, finalM, ih]

theorem c09_coreRespsM_append (c : DevConfig) (h₁ h₂ : List Stim) : ∀ d,
    coreRespsM c d (h₁ ++ h₂) = coreRespsM c d h₁ ++ coreRespsM c (finalM c d h₁) h₂ := by
  induction h₁ with
  | nil => intro d; rfl
  | cons x xs ih => intro d; simp only [List.cons_append, coreRespsM, finalM, ih]

theorem c09_coreRespsM_length (c : DevConfig) (h : List Stim) : ∀ d, (coreRespsM c d h).length = h.length := by
  induction h with
  | nil => intro d; rfl
  | cons x xs ih => intro d; simp only [coreRespsM, List.length_cons, ih]

theorem setupScript_noforeign (a v l : Nat) : ∀ x ∈ setupScript a v l, x.foreign = .none := by
  intro x hx
  simp only [setupScript, List.mem_cons, List.not_mem_nil, or_false] at hx
  rcases hx with rfl | rfl <;> rfl

theorem getDescriptorScript_noforeign (a v l n : Nat) : ∀ x ∈ getDescriptorScript a v l n, x.foreign = .none := by
  intro x hx
  simp only [getDescriptorScript, List.mem_append] at hx
  rcases hx with hx | hx
  · exact setupScript_noforeign a v l x hx
  · exact readScript_noforeign a n x hx

/-- **The whole transfer for an existing descriptor, event level, from any state.** -/
theorem transfer_resps (c : DevConfig) (hx : c.extra = [])
    (hm : c.maxPacket = 8 ∨ c.maxPacket = 16 ∨ c.maxPacket = 32 ∨ c.maxPacket = 64) (v l : Nat) (dd : List Nat)
    (hv : v < 65536) (hl : l < 65536) (hl0 : l ≠ 0)
    (hlk : lookupDescriptor c.descriptors (v / 256 % 256) (v % 256) = some dd) (hpb : dd.length < 2 ^ c.posBits)
    (h11 : min l dd.length < 2048) (d : DevState) :
    coreRespsM c d (getDescriptorScript d.address v l (Desc.dataStage dd l c.maxPacket).length) =
      [.none, .hs PID_ACK] ++ readResps 0 (Desc.dataStage dd l c.maxPacket) := by
  rw [← respsM_noforeign c d _ (getDescriptorScript_noforeign _ _ _ _), getDescriptorScript, c09_respsM_append]
  obtain ⟨r1, r2, _⟩ := setup_reading c d v l hv hl hl0
  rw [r1, get_descriptor_data_stage_mps c hx hm v l d.address dd hl hlk hpb h11 _ r2]

/-- The SETUP transaction and the first data-stage IN token. -/
def firstInScript (a v l : Nat) : List Stim := setupScript a v l ++ [⟨.token PID_IN a 0, .none⟩]

theorem firstInScript_noforeign (a v l : Nat) : ∀ x ∈ firstInScript a v l, x.foreign = .none := by
  intro x hx
  simp only [firstInScript, List.mem_append, List.mem_cons, List.not_mem_nil, or_false] at hx
  rcases hx with hx | rfl
  · exact setupScript_noforeign a v l x hx
  · rfl

/-- What the standard handler answers to the first data-stage IN token of GET_DESCRIPTOR. -/
def firstAnswer (c : DevConfig) (v l : Nat) : Resp :=
  match descriptorPacket c v l 0 with
  | none => .hs PID_STALL
  | some b => .data PID_DATA1 b

/-- The first data-stage IN token in the reading state. -/
theorem first_in (c : DevConfig) (hx : c.extra = []) (v l a : Nat) (d : DevState) (hr : Reading c v l a d 0) :
    (stepM c d ⟨.token PID_IN a 0, .none⟩).2 = firstAnswer c v l := by
  obtain ⟨h1, h2, h3, h4, h5, h6, h7, h8⟩ := hr
  have h7' : d.startPos = 0 := by rw [h7]; simp
  have h8' : d.txPid = true := by rw [h8]; simp
  have hst : tokenStage d PID_IN 0 = .dataIn := by
    simp [tokenStage, h1, PID_IN, PID_SETUP, PID_OUT, PID_PING]
  have hst' : (afterToken d PID_IN 0).stage = .dataIn := hst
  cases hp : descriptorPacket c v l 0 with
  | none =>
    have hreq : request c (afterToken d PID_IN 0) .data =
        (toIdle { afterToken d PID_IN 0 with expectingAck := false }, .hs PID_STALL) := by
      rw [request_noextra c hx]
      simp [afterToken, h3, stdRequest, h2, h4, h5, h7', hp]
    have hcore : coreM c d (.token PID_IN a 0) =
        (toIdle { afterToken d PID_IN 0 with expectingAck := false }, .hs PID_STALL) := by
      simp only [coreM, core, h6, if_true, onToken]
      simp only [hst', hreq]
    simp only [stepM, hcore, firstAnswer, hp]
    simp [Resp.isNone]
  | some b =>
    have hreq : request c (afterToken d PID_IN 0) .data =
        ({ afterToken d PID_IN 0 with expectingAck := true }, .data (dataPid d) b) := by
      rw [request_noextra c hx]
      simp [afterToken, h3, stdRequest, h2, h4, h5, h7', hp, dataPid]
    have hcore : coreM c d (.token PID_IN a 0) =
        ({ afterToken d PID_IN 0 with expectingAck := true }, .data (dataPid d) b) := by
      simp only [coreM, core, h6, if_true, onToken]
      simp only [hst', hreq]
    simp only [stepM, hcore, firstAnswer, hp]
    simp [Resp.isNone, dataPid, h8']

/-- **SETUP transaction + first IN token, event level, from any state**: nothing, ACK, then the first packet under
DATA1 -- or STALL. -/
theorem first_in_resps (c : DevConfig) (hx : c.extra = []) (v l : Nat) (hv : v < 65536) (hl : l < 65536)
    (hl0 : l ≠ 0) (d : DevState) :
    coreRespsM c d (firstInScript d.address v l) = [.none, .hs PID_ACK, firstAnswer c v l] := by
  rw [← respsM_noforeign c d _ (firstInScript_noforeign _ _ _), firstInScript, c09_respsM_append]
  obtain ⟨r1, r2, _⟩ := setup_reading c d v l hv hl hl0
  rw [r1]
  simp only [respsM, first_in c hx v l d.address _ r2, List.cons_append, List.nil_append]

theorem descriptorPacket_some (c : DevConfig) (v l p : Nat) (dd : List Nat)
    (hlk : lookupDescriptor c.descriptors (v / 256 % 256) (v % 256) = some dd) :
    ∃ b, descriptorPacket c v l p = some b := by
  unfold descriptorPacket
  rw [hlk]
  dsimp only
  repeat' split
  all_goals exact ⟨_, rfl⟩

/-- **STALL iff the descriptor does not exist.** -/
theorem firstAnswer_stall_iff (c : DevConfig) (v l : Nat) :
    firstAnswer c v l = .hs PID_STALL ↔ lookupDescriptor c.descriptors (v / 256 % 256) (v % 256) = none := by
  cases hlk : lookupDescriptor c.descriptors (v / 256 % 256) (v % 256) with
  | none =>
    have : descriptorPacket c v l 0 = none := by unfold descriptorPacket; rw [hlk]
    simp [firstAnswer, this]
  | some dd =>
    obtain ⟨b, hb⟩ := descriptorPacket_some c v l 0 dd hlk
    simp [firstAnswer, hb]

/-! ### Payload bytes -/

/-- The payload bytes of the DATA packets in a list of responses, in order. -/
def payloads : List Resp → List Nat
  | [] => []
  | .data _ p :: rs => p ++ payloads rs
  | _ :: rs => payloads rs

theorem payloads_readResps (ps : List (List Nat)) : ∀ k, payloads (readResps k ps) = ps.flatten := by
  induction ps with
  | nil => intro k; rfl
  | cons p ps ih => intro k; simp only [readResps, payloads, List.flatten_cons, ih]

/-- The data packets of the transfer concatenate to the first `wLength` bytes of the descriptor. -/
theorem payloads_dataStage (dd : List Nat) (l mps : Nat) (hm : 0 < mps) :
    payloads ([.none, .hs PID_ACK] ++ readResps 0 (Desc.dataStage dd l mps)) = dd.take l := by
  simp only [List.cons_append, List.nil_append, payloads, payloads_readResps, Desc.dataStage_concat dd l mps hm]

/-! ### The read is a legal host behaviour -/

theorem c09_finalM_append (c : DevConfig) (h₁ h₂ : List Stim) : ∀ d,
    finalM c d (h₁ ++ h₂) = finalM c (finalM c d h₁) h₂ := by
  induction h₁ with
  | nil => intro d; rfl
  | cons x xs ih => intro d; simp only [List.cons_append, finalM, ih]

theorem c09_legalFromM_append (c : DevConfig) (h₁ h₂ : List Stim) : ∀ d,
    legalFromM c d (h₁ ++ h₂) = (legalFromM c d h₁ && legalFromM c (finalM c d h₁) h₂) := by
  induction h₁ with
  | nil => intro d; simp [legalFromM, finalM]
  | cons x xs ih => intro d; simp only [List.cons_append, legalFromM, finalM, ih, Bool.and_assoc]

/-- The device address is a 7-bit value after every event. -/
theorem address_lt_stepM (c : DevConfig) (d : DevState) (x : Stim) (h : d.address < 128) :
    (stepM c d x).1.address < 128 := by
  show (coreM c d x.ev).1.address < 128
  cases x.ev with
  | token pid addr ep =>
    simp only [coreM, core]
    split
    · rw [(onToken_regs c d pid ep).1]; exact h
    · exact h
  | data dp p ok => simp only [coreM, core]; rw [(onData_regs c d p ok).1]; exact h
  | handshake pid =>
    simp only [coreM]
    rw [(onHandshakeM_ctl c.maxPacket d pid).1]
    by_cases hc : (onHandshake d pid).address = d.address
    · rw [hc]; exact h
    · rw [(onHandshake_address d pid hc).2.2]; exact Nat.mod_lt _ (by decide)
  | busReset => simp [coreM, core]
  | sof f => exact h
  | malformed b => exact h
  | quiet => exact h
  | produce e' b l => exact h
  | consume e' k => exact h
  | setSignal e' v => exact h

theorem address_lt_finalM (c : DevConfig) (h : List Stim) : ∀ d, d.address < 128 → (finalM c d h).address < 128 := by
  induction h with
  | nil => intro d hd; exact hd
  | cons x xs ih => intro d hd; exact ih _ (address_lt_stepM c d x hd)

/-- The SETUP transaction of the script is legal from every state (7-bit address). -/
theorem setupScript_legal (c : DevConfig) (d : DevState) (v l : Nat) (ha : d.address < 128) (hv : v < 65536)
    (hl : l < 65536) : legalFromM c d (setupScript d.address v l) = true := by
  have hb : (getDescriptorSetup v l).all (· < 256) = true := by
    simp only [getDescriptorSetup, List.all_cons, List.all_nil, Bool.and_true, Bool.and_eq_true, decide_eq_true_eq]
    omega
  simp only [setupScript, legalFromM, setup_token, Bool.and_true, Bool.and_eq_true]
  refine ⟨?_, ?_⟩
  · simp [legalEventM, Resp.isNone, isTokenPid, PID_SETUP, PID_OUT, PID_IN, PID_PING, ha]
  · simp only [legalEventM, hb]
    simp [Resp.isNone, isDataPid, PID_DATA0, PID_SETUP, PID_OUT]

/-- One IN + ACK pair of the read is legal while the data stage is not over; after a full packet it is still not
over. -/
theorem read_pair_legal (c : DevConfig) (hx : c.extra = []) (v l a : Nat) (d : DevState) (k : Nat) (b : List Nat)
    (ha : a < 128) (hr : Reading c v l a d k) (hg : d.gDataDone = false)
    (hp : descriptorPacket c v l ((k * c.maxPacket) % 2048) = some b) :
    legalEventM c d ⟨.token PID_IN a 0, .none⟩ = true ∧
    legalEventM c (stepM c d ⟨.token PID_IN a 0, .none⟩).1 ⟨.handshake PID_ACK, .none⟩ = true ∧
    (c.maxPacket ≤ b.length →
      (stepM c (stepM c d ⟨.token PID_IN a 0, .none⟩).1 ⟨.handshake PID_ACK, .none⟩).1.gDataDone = false) := by
  rw [← hr.pos] at hp
  have h := read_in c hx v l a d k b hr hp
  have hak := read_ack c (stepM c d ⟨.token PID_IN a 0, .none⟩).1 (by rw [h]; exact hr.hstate) (by rw [h]; exact hr.ty)
    (by rw [h]) (by rw [h]) (by rw [h])
  refine ⟨?_, ?_, ?_⟩
  · simp [legalEventM, Resp.isNone, isTokenPid, PID_SETUP, PID_OUT, PID_IN, PID_PING, ha, hg]
  · simp only [legalEventM]
    rw [h]
    simp [Resp.isNone, isHsPid, PID_ACK]
  · intro hfull
    rw [hak, h]
    show (if b.length < c.maxPacket then true else d.gDataDone) = false
    rw [if_neg (by omega), hg]

theorem packetAt_full (dd : List Nat) (l mps k : Nat) (h : (k + 1) * mps ≤ min l dd.length) :
    (Desc.packetAt dd l mps k).length = mps := by
  simp only [Desc.packetAt, List.length_take, List.length_drop]
  rw [Nat.succ_mul] at h
  omega

/-- The data stage of the read from packet `k` on is legal. -/
theorem read_legal_from (c : DevConfig) (hx : c.extra = []) (mps : Nat) (hmps : c.maxPacket = mps)
    (hm : mps = 8 ∨ mps = 16 ∨ mps = 32 ∨ mps = 64) (v l a : Nat) (dd : List Nat) (ha : a < 128)
    (hl : l < 65536)
    (hlk : lookupDescriptor c.descriptors (v / 256 % 256) (v % 256) = some dd) (hpb : dd.length < 2 ^ c.posBits)
    (h11 : min l dd.length < 2048) :
    ∀ (m k : Nat) (d : DevState), k + m = (min l dd.length + mps - 1) / mps → Reading c v l a d k →
      (m + (zlpTail (min l dd.length) l mps).length ≠ 0 → d.gDataDone = false) →
      legalFromM c d (readScript a (m + (zlpTail (min l dd.length) l mps).length)) = true := by
  have hmp : 0 < c.maxPacket := by rw [hmps]; omega
  intro m
  induction m with
  | zero =>
    intro k d hk hr hg
    by_cases hz : min l dd.length ≠ 0 ∧ min l dd.length % mps = 0 ∧ min l dd.length < l
    · have hzt : zlpTail (min l dd.length) l mps = [[]] := by simp only [zlpTail, if_pos hz]
      have htot : k * mps = min l dd.length := by
        rcases hm with rfl | rfl | rfl | rfl <;> omega
      have hmod : (k * c.maxPacket) % 2048 = k * c.maxPacket := by rw [hmps]; omega
      have hp : descriptorPacket c v l ((k * c.maxPacket) % 2048) = some [] := by
        rw [hmod, descriptorPacket_at c v l k dd hmp hl hlk hpb (by rw [hmps]; omega), if_neg (by rw [hmps]; omega)]
      obtain ⟨q1, q2, _⟩ := read_pair_legal c hx v l a d k [] ha hr (hg (by rw [hzt]; simp)) hp
      simp only [hzt, List.length_cons, List.length_nil, Nat.zero_add, readScript, legalFromM, q1, q2, Bool.and_self]
    · have hzt : zlpTail (min l dd.length) l mps = [] := by simp only [zlpTail, if_neg hz]
      simp only [hzt, List.length_nil, Nat.zero_add, readScript, legalFromM]
  | succ m ih =>
    intro k d hk hr hg
    have hlt : k * mps < min l dd.length := by
      rcases hm with rfl | rfl | rfl | rfl <;> omega
    have hmod : (k * c.maxPacket) % 2048 = k * c.maxPacket := by rw [hmps]; omega
    have hp : descriptorPacket c v l ((k * c.maxPacket) % 2048) = some (Desc.packetAt dd l mps k) := by
      rw [hmod, descriptorPacket_at c v l k dd hmp hl hlk hpb (by rw [hmps]; omega), if_pos (by rw [hmps]; exact hlt), hmps]
    obtain ⟨q1, q2, q3⟩ := read_pair_legal c hx v l a d k _ ha hr (hg (by omega)) hp
    obtain ⟨_, _, r3⟩ := read_pair c hx v l a d k _ hr hp
    have hn : m + 1 + (zlpTail (min l dd.length) l mps).length = (m + (zlpTail (min l dd.length) l mps).length) + 1 := by
      omega
    rw [hn]
    simp only [readScript, legalFromM, q1, q2, Bool.true_and]
    refine ih (k + 1) _ (by omega) r3 ?_
    intro hne
    apply q3
    have hfull : (k + 1) * mps ≤ min l dd.length := by
      by_cases hz : min l dd.length ≠ 0 ∧ min l dd.length % mps = 0 ∧ min l dd.length < l
      · rcases hm with rfl | rfl | rfl | rfl <;> omega
      · have hzt : zlpTail (min l dd.length) l mps = [] := by simp only [zlpTail, if_neg hz]
        rw [hzt] at hne
        simp only [List.length_nil, Nat.add_zero] at hne
        rcases hm with rfl | rfl | rfl | rfl <;> omega
    rw [hmps, packetAt_full dd l mps k hfull]
    exact Nat.le_refl _

/-- **The host's read of an existing descriptor is a legal host behaviour after every history**: SETUP transaction,
then one IN + ACK pair per packet of `Desc.dataStage` (the host stops after the short / zero-length packet or when
`wLength` bytes have arrived). -/
theorem script_legal (c : DevConfig) (hx : c.extra = [])
    (hm : c.maxPacket = 8 ∨ c.maxPacket = 16 ∨ c.maxPacket = 32 ∨ c.maxPacket = 64) (v l : Nat) (dd : List Nat)
    (hv : v < 65536) (hl : l < 65536) (hl0 : l ≠ 0)
    (hlk : lookupDescriptor c.descriptors (v / 256 % 256) (v % 256) = some dd) (hpb : dd.length < 2 ^ c.posBits)
    (h11 : min l dd.length < 2048) (d : DevState) (ha : d.address < 128) :
    legalFromM c d (getDescriptorScript d.address v l (Desc.dataStage dd l c.maxPacket).length) = true := by
  obtain ⟨_, r2, r3⟩ := setup_reading c d v l hv hl hl0
  rw [getDescriptorScript, c09_legalFromM_append, setupScript_legal c d v l ha hv hl, Bool.true_and]
  have h := read_legal_from c hx c.maxPacket rfl hm v l d.address dd ha hl hlk hpb h11
    ((min l dd.length + c.maxPacket - 1) / c.maxPacket) 0 _ (by omega) r2 (fun _ => r3)
  have hlen : (Desc.dataStage dd l c.maxPacket).length =
      (min l dd.length + c.maxPacket - 1) / c.maxPacket + (zlpTail (min l dd.length) l c.maxPacket).length := by
    rw [dataStage_split]
    simp only [List.length_append, List.length_map, List.length_range']
  rw [hlen]
  exact h

/-- The SETUP transaction + first IN token is legal after every history. -/
theorem firstInScript_legal (c : DevConfig) (v l : Nat) (hv : v < 65536) (hl : l < 65536) (hl0 : l ≠ 0)
    (d : DevState) (ha : d.address < 128) : legalFromM c d (firstInScript d.address v l) = true := by
  obtain ⟨_, _, r3⟩ := setup_reading c d v l hv hl hl0
  rw [firstInScript, c09_legalFromM_append, setupScript_legal c d v l ha hv hl, Bool.true_and]
  simp only [legalFromM, Bool.and_true]
  simp [legalEventM, Resp.isNone, isTokenPid, PID_SETUP, PID_OUT, PID_IN, PID_PING, ha, r3]

end LunaVerif.CtrlCyc
