import LunaVerif.Model.Ulpi.Spec
/-!
# C24 — the closed system "UTMITranslator + PHY-side observer + environment monitor"

`World` puts together the translator model (`Utmi`), the passive PHY-side observer on the
translator's pins (`PhyRegs`, exactly as the co-simulation driver attaches it: it sees `dir`, `nxt`
from the PHY and `dataO`, `stp` of the same cycle from the link) and a small *environment monitor*
`Env` whose only purpose is to make the environment hypotheses of the C24 theorems decidable
predicates of the input history:

* `prevDir`  DIR of the previous cycle (turnaround detection);
* `waited`   for how many consecutive cycles the byte now on the bus has been presented without NXT;
* `tlen`     for how many cycles the PHY has been inside a link transmission (transmit command
             accepted, STP not yet seen);
* `mustHold` the UTMI transmitter presented a byte in the previous cycle that was not accepted
             (`tx_valid ∧ ¬tx_ready`): UTMI obliges it to keep `tx_valid` up;
* `dones`    ghost counter: number of past cycles in which the register window showed `done`;
* `acc04`, `acc0A`  ghosts: the values requested for registers 0x04 / 0x0A by the control inputs of the
             most recent cycle in which the register window accepted a write request.

The hypotheses refer only to what the respective party can see: the PHY-side ones to the pins and
to the PHY's own bus parser (`PhyRegs.bus`, a function of the pin history), the UTMI-side one to
`tx_valid` / `tx_ready`.
-/
namespace LunaVerif.Ulpi

structure Env where
  prevDir  : Bool := false
  waited   : Nat := 0
  tlen     : Nat := 0
  mustHold : Bool := false
  dones    : Nat := 0
  acc04    : Nat := 0
  acc0A    : Nat := 0
deriving DecidableEq, Repr, Inhabited

def PhyBus.isIdle : PhyBus → Bool
  | .idle => true
  | _ => false

def PhyBus.isTx : PhyBus → Bool
  | .transmitting => true
  | _ => false

/-- The PHY is being presented a byte it has to answer with NXT: DIR low, not the turnaround cycle,
and either its parser is idle and a transmit / register-write command (`01xxxxxx` / `10xxxxxx`) is
on the data lines, or it has accepted a register-write command and waits for the data byte. -/
def presented (b : PhyBus) (prevDir dir : Bool) (dataO : Nat) : Bool :=
  !dir && !prevDir &&
    (match b with
     | .idle => dataO / 64 == 1 || dataO / 64 == 2
     | .wantData _ => true
     | _ => false)

def Env.step (e : Env) (b : PhyBus) (winDone accepted : Bool) (i : UtmiIn) (o : UtmiOut) : Env :=
  { prevDir := i.phy.dir
    waited := if presented b e.prevDir i.phy.dir o.dataO && !i.phy.nxt then e.waited + 1 else 0
    tlen := if b.isTx then e.tlen + 1 else 0
    mustHold := i.txValid && !o.txReady
    dones := e.dones + (if winDone then 1 else 0)
    acc04 := if accepted then functionControl i.ctrl else e.acc04
    acc0A := if accepted then otgControl i.ctrl else e.acc0A }

structure World where
  u : Utmi := {}
  p : PhyRegs := {}
  e : Env := {}
deriving DecidableEq, Repr, Inhabited

def World.init (cfg : Config) : World := { u := Utmi.init cfg }

/-- One clock cycle of the closed system; the observer and the monitor see the pins of this cycle. -/
def World.step (cfg : Config) (x : World) (i : UtmiIn) : World :=
  let r := x.u.step cfg i
  { u := r.1
    p := x.p.step i.phy.dir i.phy.nxt r.2.dataO r.2.stp
    e := x.e.step x.p.bus x.u.win.done (x.u.win.st == .idle && (x.u.ctlOut i.ctrl).writeReq) i r.2 }

def World.run (cfg : Config) : World → List UtmiIn → World
  | x, [] => x
  | x, i :: is => World.run cfg (x.step cfg i) is

theorem World.run_append (cfg : Config) (x : World) (a b : List UtmiIn) :
    World.run cfg x (a ++ b) = World.run cfg (World.run cfg x a) b := by
  induction a generalizing x with
  | nil => rfl
  | cons i is ih => simp [World.run, ih]

/-- The translator inside `World` is the translator of `Utmi.run`: the observer and the monitor
are passive. -/
theorem World.run_u (cfg : Config) (x : World) (h : List UtmiIn) :
    (World.run cfg x h).u = Utmi.run cfg x.u h := by
  induction h generalizing x with
  | nil => rfl
  | cons i is ih => simp [World.run, Utmi.run, ih, World.step]

/-! ## Environment hypotheses -/

/-- **LegalNxt / no abort of link transmissions** (per cycle; `b`, `e` are the PHY's parser state and
the monitor before the cycle, `o` the link's outputs in the cycle):

* E1  no NXT in the turnaround cycle after DIR fell;
* E2  the PHY does not raise DIR while it is inside a link transmission it has accepted (the
      transmit translator ignores such an abort, C23);
* E3  with its parser idle and DIR low the PHY asserts NXT only when a byte is on the data lines. -/
def safeCycle (b : PhyBus) (e : Env) (i : UtmiIn) (o : UtmiOut) : Bool :=
  !(e.prevDir && !i.phy.dir && i.phy.nxt) &&
  !(b.isTx && i.phy.dir) &&
  !(b.isIdle && !i.phy.dir && i.phy.nxt && o.dataO == 0)

/-- **Bounded fairness** (per cycle), parameters `K` and `T`:

* a presented byte (`presented`) is answered by NXT after at most `K` wait cycles;
* a link transmission occupies the PHY for at most `T` cycles (command acceptance to STP);
* the UTMI transmitter keeps `tx_valid` up until the byte it presents is accepted. -/
def liveCycle (K T : Nat) (b : PhyBus) (e : Env) (i : UtmiIn) (o : UtmiOut) : Bool :=
  safeCycle b e i o &&
  (!(presented b e.prevDir i.phy.dir o.dataO && !i.phy.nxt) || decide (e.waited < K)) &&
  (!b.isTx || decide (e.tlen < T)) &&
  (!e.mustHold || i.txValid)

def SafeOk (cfg : Config) : World → List UtmiIn → Bool
  | _, [] => true
  | x, i :: is => safeCycle x.p.bus x.e i (x.u.step cfg i).2 && SafeOk cfg (x.step cfg i) is

def LiveOk (cfg : Config) (K T : Nat) : World → List UtmiIn → Bool
  | _, [] => true
  | x, i :: is => liveCycle K T x.p.bus x.e i (x.u.step cfg i).2 && LiveOk cfg K T (x.step cfg i) is

theorem LiveOk_safe (cfg : Config) (K T : Nat) (x : World) (h : List UtmiIn) (hl : LiveOk cfg K T x h = true) :
    SafeOk cfg x h = true := by
  induction h generalizing x with
  | nil => rfl
  | cons i is ih =>
    simp only [LiveOk, liveCycle, Bool.and_eq_true] at hl
    simp only [SafeOk, Bool.and_eq_true]
    exact ⟨hl.1.1.1.1, ih _ hl.2⟩

theorem SafeOk_append (cfg : Config) (x : World) (a b : List UtmiIn) :
    SafeOk cfg x (a ++ b) = (SafeOk cfg x a && SafeOk cfg (World.run cfg x a) b) := by
  induction a generalizing x with
  | nil => simp [SafeOk, World.run]
  | cons i is ih => simp [SafeOk, World.run, ih, Bool.and_assoc]

theorem LiveOk_append (cfg : Config) (K T : Nat) (x : World) (a b : List UtmiIn) :
    LiveOk cfg K T x (a ++ b) = (LiveOk cfg K T x a && LiveOk cfg K T (World.run cfg x a) b) := by
  induction a generalizing x with
  | nil => simp [LiveOk, World.run]
  | cons i is ih => simp [LiveOk, World.run, ih, Bool.and_assoc]

/-! ## The coherence invariant -/

/-- The pair latched by the register window is a control register with the value that the control
inputs requested for it in the cycle the write was accepted. -/
def Latched (x : World) : Prop :=
  (x.u.win.curAddr = 4 ∧ x.u.win.curWrite = x.e.acc04) ∨ (x.u.win.curAddr = 10 ∧ x.u.win.curWrite = x.e.acc0A)

/-- What holds in every busy state of the register window: the control translator reports busy, the
transmit translator is idle and has not claimed the bus, the latched pair is a control register
with the value requested for it at acceptance, `done` is low, and the PHY's registers still equal the shadow registers. -/
def BusyCommon (x : World) : Prop :=
  x.u.ctl.busy = true ∧ x.u.tx = ⟨.idle, false⟩ ∧ Latched x ∧
  x.u.win.done = false ∧ x.p.r04 = x.u.ctl.cur04 ∧ x.p.r0A = x.u.ctl.cur0A

/-- **Coherence** of link and PHY: per state of the register window, where the PHY's bus parser is,
what is on the pins, and how the PHY's registers relate to the shadow registers. -/
def Coh (x : World) : Prop :=
  x.p.other = 0 ∧ x.p.writes = x.e.dones + (if x.u.win.done then 1 else 0) ∧
  match x.u.win.st with
  | .idle =>
    x.u.win.dataOut = 0 ∧ x.u.win.stop = false ∧
    ((x.u.win.done = true ∧ x.u.ctl.busy = true ∧ x.u.tx = ⟨.idle, false⟩ ∧ x.p.bus = .idle ∧
        Latched x ∧
        x.p.r04 = (if x.u.win.curAddr = 4 then x.u.win.curWrite else x.u.ctl.cur04) ∧
        x.p.r0A = (if x.u.win.curAddr = 10 then x.u.win.curWrite else x.u.ctl.cur0A))
     ∨ (x.u.win.done = false ∧ x.u.ctl.busy = false ∧ x.p.r04 = x.u.ctl.cur04 ∧ x.p.r0A = x.u.ctl.cur0A ∧
        ((x.u.tx = ⟨.idle, false⟩ ∧ x.p.bus = .idle) ∨ (x.u.tx = ⟨.idle, true⟩ ∧ x.p.bus = .idle) ∨
         (x.u.tx = ⟨.transmit, true⟩ ∧ x.p.bus = .transmitting))))
  | .startWrite =>
    BusyCommon x ∧ x.p.bus = .idle ∧ x.u.win.stop = false ∧ (x.e.prevDir = true ∨ x.u.win.dataOut = 0)
  | .sendWriteAddress =>
    BusyCommon x ∧ x.p.bus = .idle ∧ x.u.win.stop = false ∧ x.u.win.dataOut = 128 ||| x.u.win.curAddr ∧
      x.e.prevDir = false
  | .holdWrite =>
    BusyCommon x ∧ x.p.bus = .wantData x.u.win.curAddr ∧ x.u.win.stop = false ∧
      x.u.win.dataOut = x.u.win.curWrite ∧ x.e.prevDir = false
  | .stopping =>
    BusyCommon x ∧ x.p.bus = .wantStp x.u.win.curAddr x.u.win.curWrite ∧ x.u.win.stop = true ∧
      x.u.win.dataOut = 0
  | _ => False

theorem coh_init (cfg : Config) : Coh (World.init cfg) := by
  simp [Coh, World.init, Utmi.init]

end LunaVerif.Ulpi
