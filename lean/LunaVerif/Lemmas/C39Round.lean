import LunaVerif.Props.C39
/-!
# C39 — control invariant of the dispatch FSM / raw transmitter handshake (helper for the retry round)

`Inv2` ties `packets_to_send`, the read pointer and `retry_pending` to the FSM state and to whether the
raw transmitter is busy with the header at the read pointer (`cur`):

* DISPATCH_PACKET is only ever entered with an idle raw transmitter;
* WAIT_FOR_SEND with a pending retry means a (stale) packet is in flight;
* the headers that still have to be *latched* (`toLatch = packets_to_send − [cur]`) are the youngest
  `toLatch` of the `packets_awaiting_ack` unacknowledged ones, and the read pointer (plus one when the
  header it points to is already in flight) is the buffer of the oldest of them.

Environment needed beyond `EnvStep`: the partner acknowledges a header only after its (re)transmission has
at least been started in the current round (`AckSent`): an LGOOD for a header that has not been put on the
wire since the last LBAD / was never sent cannot come from a partner that follows the protocol.
-/
namespace LunaVerif.PacketTx
open LunaVerif.HeaderRx (Hdr Bufs bufQ)

theorem step_raw (c : Config) (s : State) (i : In) : (step c s i).1.raw = rawNext s i := rfl

theorem rawDone_not_idle {s : State} {i : In} (h : rawDone s i = true) : (s.raw == .idle) = false := by
  cases hr : s.raw <;> simp [rawDone, hr] at h ⊢

theorem rawNext_idle (s : State) (i : In) :
    (rawNext s i == .idle) = ((s.raw == .idle && !generate s i) || rawDone s i) := by
  unfold rawNext rawDone
  cases hr : s.raw <;> cases hs : i.srcReady <;> cases hg : generate s i <;> cases hd : s.rHdr.isData <;>
    cases hl : s.rHdr.delayed <;> simp <;> decide

/-! ## The control abstraction -/

/-- control part of the state: FSM, whether the raw transmitter is idle, `retry_pending`, the counters
and pointers -/
structure Ctl where
  fsm : Fsm
  idle : Bool
  rpend : Bool
  pts : Nat
  paa : Nat
  rp : Nat
  ap : Nat

/-- what happens in a cycle, as far as the control part is concerned -/
structure Ev where
  L : Bool        -- retry_required (LBAD)
  e : Bool        -- enqueue_send
  r : Bool        -- retire_packet
  dn : Bool       -- packet_tx.done
  lrty : Bool     -- lrty_pending
  bring : Bool    -- bringup_complete

def ctlOf (s : State) : Ctl := ⟨s.fsm, s.raw == .idle, s.retryPending, s.pts, s.paa, s.rp, s.ap⟩
def evOf (s : State) (i : In) : Ev := ⟨retryRequired s, enq s i, retire s, rawDone s i, i.lrtyPending, s.bringup⟩

namespace Ctl
def gen (k : Ctl) (v : Ev) : Bool :=
  match k.fsm with
  | .dispatch => false | .waitSend => true | .waitRetry => !v.lrty | .flush => false
def deq (k : Ctl) (v : Ev) : Bool :=
  match k.fsm with
  | .dispatch => false | .waitSend => v.dn && !k.rpend | .waitRetry => v.dn | .flush => false
/-- the raw transmitter latches `packet_tx.header` in this cycle -/
def latch (k : Ctl) (v : Ev) : Bool := k.idle && gen k v

def step (k : Ctl) (v : Ev) : Ctl :=
  { fsm := match k.fsm with
      | .dispatch => if v.bring && k.pts != 0
          then (if !k.rpend && !v.L then .waitSend else .waitRetry) else .dispatch
      | .waitSend => if v.dn then .dispatch else .waitSend
      | .waitRetry => if v.L then .flush else if v.dn && k.pts == 1 then .dispatch else .waitRetry
      | .flush => if k.idle || v.dn then .dispatch else .flush
    idle := (k.idle && !gen k v) || v.dn
    rpend := if k.fsm == .waitRetry && v.dn && k.pts == 1 && !v.L then false
      else if v.L then true else k.rpend
    pts := if v.L then (if v.e then (k.paa + 1) % 8 else k.paa)
      else if v.e && !deq k v then (k.pts + 1) % 8
      else if deq k v && !v.e then (k.pts + 7) % 8 else k.pts
    paa := if v.e && !v.r then (k.paa + 1) % 8
      else if v.r && !v.e && k.paa != 0 then (k.paa + 7) % 8 else k.paa
    rp := if v.L then k.ap else if deq k v then (k.rp + 1) % 4 else k.rp
    ap := if v.r then (k.ap + 1) % 4 else k.ap }

/-- the FSM is in a state in which the completion of the raw transmitter dequeues the header at the read
pointer -/
def active (k : Ctl) : Bool := k.fsm == .waitRetry || (k.fsm == .waitSend && !k.rpend)
/-- the raw transmitter is busy with the header at the read pointer (latched in this visit of the state) -/
def cur (k : Ctl) : Bool := active k && !k.idle
def nCur (k : Ctl) : Nat := if cur k then 1 else 0
/-- number of headers that still have to be handed to the raw transmitter -/
def toLatch (k : Ctl) : Nat := k.pts - nCur k

structure Inv (k : Ctl) : Prop where
  kDisp : k.fsm = .dispatch → k.idle = true
  kSend : k.fsm = .waitSend → k.rpend = true → k.idle = false
  pAct  : active k = true → 1 ≤ k.pts
  bLe   : k.pts ≤ k.paa + nCur k
  bRp   : (k.rp + nCur k) % 4 = (k.ap + (k.paa + nCur k - k.pts)) % 4
  rpLt  : k.rp < 4
  apLt  : k.ap < 4

/-- what the environment (and the rest of the state) guarantees about the events of a cycle -/
structure EvOk (k : Ctl) (v : Ev) : Prop where
  dnBusy : v.dn = true → k.idle = false
  lNotR  : v.L = true → v.r = false
  paa4   : k.paa ≤ 4
  eRoom  : v.e = true → k.paa ≤ 3
  ackSent : v.r = true → k.pts < k.paa + nCur k
end Ctl

theorem ctlOf_step (c : Config) (s : State) (i : In) (hen : i.enable = true) :
    ctlOf (step c s i).1 = (ctlOf s).step (evOf s i) := by
  simp only [ctlOf, evOf, Ctl.step, Ctl.gen, Ctl.deq, step_fsm, step_raw, step_retryPending, step_pts, step_paa,
    step_rp, step_ap, hen, rawNext_idle, Bool.not_true, Bool.false_eq_true, if_false, Ctl.mk.injEq]
  refine ⟨?_, ?_, ?_, ?_, ?_, ?_, ?_⟩
  · unfold fsmNext; cases hf : s.fsm <;> simp <;> rfl
  · unfold generate; cases hf : s.fsm <;> simp
  · rfl
  · rfl
  · rfl
  · rfl
  · rfl

namespace Ctl

/-- finish one fully case-split instance of a control lemma -/
local macro "ctl_leaf" : tactic =>
  `(tactic| (simp [step, gen, deq, active, cur, nCur, toLatch, latch] <;> (repeat' split) <;>
      (first | omega | (simp_all <;> omega))))

theorem inv_step_dispatch {k : Ctl} {v : Ev} (h : Inv k) (o : EvOk k v) (hf : k.fsm = .dispatch) :
    Inv (k.step v) := by
  obtain ⟨fsm, idle, rpend, pts, paa, rp, ap⟩ := k
  obtain ⟨L, e, r, dn, lrty, bring⟩ := v
  obtain ⟨h1, h2, h3, h4, h5, h6, h7⟩ := h
  obtain ⟨o1, o2, o3, o4, o5⟩ := o
  simp only at hf
  subst hf
  simp only [active, cur, nCur] at *
  cases idle <;> cases rpend <;> cases L <;> cases e <;> cases r <;> cases dn <;> cases bring <;>
    simp at h1 h2 h3 h4 h5 o1 o2 o4 o5 ⊢ <;> (constructor <;> ctl_leaf)

theorem inv_step_waitSend {k : Ctl} {v : Ev} (h : Inv k) (o : EvOk k v) (hf : k.fsm = .waitSend) :
    Inv (k.step v) := by
  obtain ⟨fsm, idle, rpend, pts, paa, rp, ap⟩ := k
  obtain ⟨L, e, r, dn, lrty, bring⟩ := v
  obtain ⟨h1, h2, h3, h4, h5, h6, h7⟩ := h
  obtain ⟨o1, o2, o3, o4, o5⟩ := o
  simp only at hf
  subst hf
  simp only [active, cur, nCur] at *
  cases idle <;> cases rpend <;> cases L <;> cases e <;> cases r <;> cases dn <;>
    simp at h1 h2 h3 h4 h5 o1 o2 o4 o5 ⊢ <;> (constructor <;> ctl_leaf)

theorem inv_step_waitRetry {k : Ctl} {v : Ev} (h : Inv k) (o : EvOk k v) (hf : k.fsm = .waitRetry) :
    Inv (k.step v) := by
  obtain ⟨fsm, idle, rpend, pts, paa, rp, ap⟩ := k
  obtain ⟨L, e, r, dn, lrty, bring⟩ := v
  obtain ⟨h1, h2, h3, h4, h5, h6, h7⟩ := h
  obtain ⟨o1, o2, o3, o4, o5⟩ := o
  simp only at hf
  subst hf
  simp only [active, cur, nCur] at *
  cases idle <;> cases rpend <;> cases L <;> cases e <;> cases r <;> cases dn <;> cases lrty <;>
    simp at h1 h2 h3 h4 h5 o1 o2 o4 o5 ⊢ <;> (constructor <;> ctl_leaf)

theorem inv_step_flush {k : Ctl} {v : Ev} (h : Inv k) (o : EvOk k v) (hf : k.fsm = .flush) :
    Inv (k.step v) := by
  obtain ⟨fsm, idle, rpend, pts, paa, rp, ap⟩ := k
  obtain ⟨L, e, r, dn, lrty, bring⟩ := v
  obtain ⟨h1, h2, h3, h4, h5, h6, h7⟩ := h
  obtain ⟨o1, o2, o3, o4, o5⟩ := o
  simp only at hf
  subst hf
  simp only [active, cur, nCur] at *
  cases idle <;> cases rpend <;> cases L <;> cases e <;> cases r <;> cases dn <;>
    simp at h1 h2 h3 h4 h5 o1 o2 o4 o5 ⊢ <;> (constructor <;> ctl_leaf)

/-- **the control invariant is preserved by every cycle** (with or without an LBAD) -/
theorem inv_step {k : Ctl} {v : Ev} (h : Inv k) (o : EvOk k v) : Inv (k.step v) := by
  cases hf : k.fsm
  · exact inv_step_dispatch h o hf
  · exact inv_step_waitSend h o hf
  · exact inv_step_waitRetry h o hf
  · exact inv_step_flush h o hf

/-- destructure everything, split on the FSM state and all event / state bits, simplify the hypotheses -/
local macro "ctl_go" k:ident v:ident h:ident o:ident : tactic =>
  `(tactic| (
    obtain ⟨fsm, idle, rpend, pts, paa, rp, ap⟩ := $k:ident
    obtain ⟨L, e, r, dn, lrty, bring⟩ := $v:ident
    obtain ⟨h1, h2, h3, h4, h5, h6, h7⟩ := $h:ident
    obtain ⟨o1, o2, o3, o4, o5⟩ := $o:ident
    simp only [active, cur, nCur] at *
    cases fsm <;> cases idle <;> cases rpend <;> cases L <;> cases e <;> cases r <;> cases dn <;> cases lrty <;>
      simp at h1 h2 h3 h4 h5 o1 o2 o4 o5 ⊢))

/-- In a cycle without LBAD the number of headers still to be latched grows by the enqueue and shrinks
by the latch — in every FSM state, whatever else happens (completion, retirement, dispatch). -/
theorem toLatch_step {k : Ctl} {v : Ev} (h : Inv k) (o : EvOk k v) (hL : v.L = false) :
    toLatch (k.step v) + (if latch k v then 1 else 0) = toLatch k + (if v.e then 1 else 0) := by
  revert hL
  ctl_go k v h o <;> ctl_leaf

/-- a header is latched only when one is due, and then the raw transmitter was idle -/
theorem latch_pos {k : Ctl} {v : Ev} (h : Inv k) (o : EvOk k v) (hl : latch k v = true) :
    1 ≤ toLatch k ∧ nCur k = 0 := by
  revert hl
  ctl_go k v h o <;> ctl_leaf

/-- with a retry pending, headers are latched in WAIT_FOR_RETRY only -/
theorem latch_retry {k : Ctl} {v : Ev} (h : Inv k) (o : EvOk k v) (hl : latch k v = true)
    (hp : k.rpend = true) : k.fsm = .waitRetry := by
  revert hl hp
  ctl_go k v h o <;> ctl_leaf

/-- `retry_pending` stays set while a header is still to be latched -/
theorem rpend_keep {k : Ctl} {v : Ev} (h : Inv k) (o : EvOk k v) (hL : v.L = false)
    (hp : k.rpend = true) (ht : 1 ≤ toLatch k) : (k.step v).rpend = true := by
  revert hL hp ht
  ctl_go k v h o <;> ctl_leaf

/-- an LBAD, in whatever state: all unacknowledged headers are to be latched again, starting at the
acknowledge pointer; the packet in flight (if any) is not the one at the read pointer -/
theorem lbad_step {k : Ctl} {v : Ev} (h : Inv k) (o : EvOk k v) (hL : v.L = true) :
    (k.step v).pts = (k.step v).paa ∧ (k.step v).rp = (k.step v).ap ∧ nCur (k.step v) = 0 ∧
    (k.step v).rpend = true := by
  revert hL
  ctl_go k v h o <;> ctl_leaf

end Ctl

end LunaVerif.PacketTx
