import LunaVerif.Lemmas.C07MpsClosed
import LunaVerif.Lemmas.C07Legal
/-!
# Descriptor reads of a legal host are in order -- every max packet size
(Lemmas/C07Legal.lean over the event-level model `stepM` of Lemmas/C07Mps.lean)

`LegalHostM` is `LegalHost` over `stepM`: the rule "no further data-stage IN after the host has ACKed a short packet"
reads the ghost `gDataDone`, which `onHandshakeM` sets after a packet shorter than `max_packet_size`.  `ReadInv` is an
invariant of `LegalHostM` histories (`readInv_legal_mps`); at every legal data-stage IN of a GET_DESCRIPTOR transfer
the request is well-sized and in order (`legal_read_in_order_mps`: `start_position ≤ min(wLength, |descriptor|)`, with
`start_position` advanced by `max_packet_size` per ACKed full packet), so the closed loop with the block descriptor
handler model simulates the event-level model along every `LegalHostM` history (`closed2_refines_legal_run_mps`).
-/
namespace LunaVerif.Device

/-! `legalEventM`, `legalFromM`, `LegalHostM` live in Model/Device/ControlM.lean (core Lean only: the compiled driver
`drv_dev` reports `legalEventM` for every event); they were moved there from this file unchanged. -/

theorem legalEventM_64 (c : DevConfig) (hmp : c.maxPacket = 64) (s : DevState) (x : Stim) :
    legalEventM c s x = legalEvent c s x := by
  unfold legalEventM legalEvent
  rw [stepM_eq_step c hmp]
  obtain ⟨ev, f⟩ := x
  cases ev <;> rfl

theorem legalFromM_64 (c : DevConfig) (hmp : c.maxPacket = 64) (s : DevState) (h : List Stim) :
    legalFromM c s h = legalFrom c s h := by
  induction h generalizing s with
  | nil => rfl
  | cons x xs ih => simp only [legalFromM, legalFrom, legalEventM_64 c hmp, stepM_eq_step c hmp, ih]

theorem LegalHostM_64 (c : DevConfig) (hmp : c.maxPacket = 64) (h : List Stim) : LegalHostM c h = LegalHost c h :=
  legalFromM_64 c hmp init h

theorem stepM_eq_step_of (c : DevConfig) (s : DevState) (t : Stim) (h : ∀ pid, t.ev ≠ .handshake pid) :
    stepM c s t = step c s t := by
  have hc : coreM c s t.ev = core c s t.ev := by
    cases hev : t.ev <;> first | rfl | exact absurd hev (h _)
  unfold stepM step
  rw [hc]

/-- `data_answer_is_to_in_token` (Lemmas/DeviceSteps.lean) over `stepM`. -/
theorem data_answer_is_to_in_token_M (c : DevConfig) (s : DevState) (t : Stim) (i : Inv s)
    (hd : (stepM c s t).1.gRespData = true) (hep : (stepM c s t).1.tokEp = 0)
    (hpid : (stepM c s t).1.tokPid = PID_IN) :
    t.ev = .token PID_IN s.address 0 ∧ (stepM c s t).2 = (onToken c s PID_IN 0).2 ∧
    (coreM c s t.ev).1 = (onToken c s PID_IN 0).1 := by
  by_cases hh : ∃ pid, t.ev = .handshake pid
  · obtain ⟨pid, hev⟩ := hh
    have hep' : (onHandshakeM c.maxPacket s pid).tokEp = 0 := by
      have : (stepM c s t).1.tokEp = (coreM c s t.ev).1.tokEp := rfl
      rw [this, hev] at hep; exact hep
    have : (stepM c s t).1.gRespData = false := by
      have h1 : (stepM c s t).1.gRespData = (stepM c s t).2.isData := rfl
      rw [h1]
      simp only [stepM, hev, coreM, hep']
      simp [Resp.isNone, Resp.isData]
    rw [this] at hd; exact absurd hd (by decide)
  · have hne : ∀ pid, t.ev ≠ .handshake pid := fun pid h => hh ⟨pid, h⟩
    have hs := stepM_eq_step_of c s t hne
    rw [hs] at hd hep hpid ⊢
    obtain ⟨a, b, d⟩ := data_answer_is_to_in_token c s t i hd hep hpid
    refine ⟨a, b, ?_⟩
    rw [a] at d ⊢
    exact d

end LunaVerif.Device

namespace LunaVerif.CtrlCyc
open LunaVerif.Device

/-- A full packet at an in-order offset leaves the next offset in order (every `max_packet_size > 0`). -/
theorem pkt_full_mps (c : DevConfig) (hmp : 0 < c.maxPacket) (v l p : Nat) (bytes dd : List Nat) (hl : l < 65536)
    (hlk : lookupDescriptor c.descriptors (v / 256 % 256) (v % 256) = some dd)
    (hp : p ≤ min l dd.length) (hfit : dd.length < 2 ^ c.posBits)
    (hpk : descriptorPacket c v l p = some bytes) (hfull : c.maxPacket ≤ bytes.length) :
    p + c.maxPacket ≤ min l dd.length := by
  unfold descriptorPacket at hpk
  rw [hlk] at hpk
  have hrem : (l + 131072 - p) % 131072 = l - p := by omega
  have hpp : p % 2 ^ c.posBits = p := Nat.mod_eq_of_lt (by omega)
  simp only [hrem, hpp] at hpk
  by_cases h1 : l - p ≤ c.maxPacket
  · simp only [h1, if_true] at hpk
    by_cases h2 : l - p = 0
    · simp only [h2, if_true, Option.some.injEq] at hpk; subst hpk; simp at hfull; omega
    · by_cases h3 : p ≥ dd.length
      · simp only [h2, if_false, h3, if_true, Option.some.injEq] at hpk; subst hpk; simp at hfull; omega
      · simp only [h2, if_false, h3, Option.some.injEq] at hpk
        subst hpk
        simp only [List.length_take, List.length_drop] at hfull
        omega
  · simp only [h1, if_false] at hpk
    by_cases h3 : p ≥ dd.length
    · simp only [h3, if_true] at hpk
      split at hpk
      · injection hpk with hpk; subst hpk; simp at hfull; omega
      · injection hpk with hpk; subst hpk; simp at hfull; omega
    · simp only [h3, if_false] at hpk
      split at hpk
      · omega
      · injection hpk with hpk
        subst hpk
        simp only [List.length_take, List.length_drop] at hfull
        omega

/-- A host ACK: the position advances (by `max_packet_size`) only past a full packet, which keeps it in order; after a
short packet the data stage is over (`gDataDone`). -/
theorem rj_onHandshakeM (c : DevConfig) (hmp : 0 < c.maxPacket) (hfit : DescsFit c) (d : DevState) (pid : Nat)
    (h : ReadInv c d) (hleg : d.gRespData = true ∨ d.tokPid = 0) : RJ c (onHandshakeM c.maxPacket d pid) := by
  have hrj : RJ c d := ⟨h.sizes, h.j⟩
  unfold onHandshakeM
  split
  · rename_i hfw
    obtain ⟨_, hep, hpid, hty⟩ := hfw
    have hgr : d.gRespData = true := by
      rcases hleg with g | g
      · exact g
      · rw [hpid] at g; exact absurd g (by decide)
    by_cases hg : d.hstate = .getDescriptor
    · by_cases he : d.expectingAck = true
      · by_cases hlen : d.gRespLen < c.maxPacket
        · -- short packet ACKed: the data stage is over
          simp only [hg, he, hlen, and_self, if_true]
          exact ⟨by simp only [stdAckM, hg, he, if_true]; exact h.sizes, fun _ _ e => by simp at e⟩
        · simp only [hg, he, hlen, and_false, if_false]
          simp only [stdAckM, hg, he, if_true]
          refine ⟨h.sizes, ?_⟩
          intro _ _ e dd hdd
          simp only at e hdd ⊢
          obtain ⟨bytes, hb1, hb2⟩ := h.k hgr hep hpid hg hty
          have hp := h.j hg hty e dd hdd
          have hf := hfit.2 _ _ dd hdd
          have := pkt_full_mps c hmp d.setup.value d.setup.length d.startPos bytes dd h.sizes.2 hdd hp hf hb1
            (by omega)
          have h2 := pow_le_2048 hfit.1
          omega
      · have : stdAckM c.maxPacket d = d := by simp [stdAckM, hg, he]
        simp only [hg, he, Bool.false_eq_true, false_and, and_false, if_false, this]
        exact hrj
    · have hne : (stdAckM c.maxPacket d).hstate ≠ .getDescriptor ∧ (stdAckM c.maxPacket d).setup = d.setup := by
        unfold stdAckM
        cases hd : d.hstate <;> simp_all [toIdle]
      simp only [hg, false_and, if_false]
      exact ⟨by rw [hne.2]; exact h.sizes, fun a => absurd a hne.1⟩
  · exact hrj

theorem rj_coreM (c : DevConfig) (hmp : 0 < c.maxPacket) (hfit : DescsFit c) (d : DevState) (x : Stim)
    (h : ReadInv c d) (hleg : legalEventM c d x = true) : RJ c (coreM c d x.ev).1 := by
  have hrj : RJ c d := ⟨h.sizes, h.j⟩
  cases hev : x.ev with
  | token pid addr ep =>
    simp only [coreM, core]
    split
    · exact rj_onToken c d pid ep hrj
    · exact hrj.mono rfl rfl (fun a => ⟨a, rfl⟩)
  | data dp p ok => exact rj_onData c d p ok hrj
  | handshake pid =>
    refine rj_onHandshakeM c hmp hfit d pid h ?_
    unfold legalEventM at hleg
    rw [hev] at hleg
    simp only [Bool.and_eq_true, Bool.or_eq_true, beq_iff_eq] at hleg
    exact hleg.2.2
  | busReset => exact hrj.mono rfl rfl (fun a => ⟨a, rfl⟩)
  | sof f => exact hrj
  | malformed b => exact hrj
  | quiet => exact hrj
  | produce e b l => exact hrj
  | consume e n => exact hrj
  | setSignal e v => exact hrj

/-- `ReadInv` is preserved by every legal event. -/
theorem readInv_stepM (c : DevConfig) (hx : c.extra = []) (hmp : 0 < c.maxPacket) (hfit : DescsFit c) (d : DevState)
    (x : Stim) (hinv : Inv d) (h : ReadInv c d) (hleg : legalEventM c d x = true) :
    ReadInv c (stepM c d x).1 := by
  have hrj := rj_coreM c hmp hfit d x h hleg
  refine ⟨hrj.sizes, ?_, hrj.j⟩
  intro hd hep hpid hhs hty
  obtain ⟨hev, hresp, hcore⟩ := data_answer_is_to_in_token_M c d x hinv hd hep hpid
  have e1 : (stepM c d x).1.hstate = (coreM c d x.ev).1.hstate := rfl
  have e2 : (stepM c d x).1.setup = (coreM c d x.ev).1.setup := rfl
  have e3 : (stepM c d x).1.startPos = (coreM c d x.ev).1.startPos := rfl
  rw [e1, hcore] at hhs
  rw [e2, hcore] at hty
  have h1 : (onToken c d PID_IN 0).2.isData = true := by
    rw [← hresp]; exact hd
  obtain ⟨bytes, hb1, hb2⟩ := onToken_in_data c hx d h1 hhs hty
  refine ⟨bytes, ?_, ?_⟩
  · rw [e2, e3, hcore]; exact hb1
  · have : (stepM c d x).1.gRespLen = (stepM c d x).2.dataLen := rfl
    rw [this, hresp]; exact hb2

theorem readInv_legalFromM (c : DevConfig) (hx : c.extra = []) (hmp : 0 < c.maxPacket) (hfit : DescsFit c)
    (h : List Stim) : ∀ d, Device.Inv d → ReadInv c d → legalFromM c d h = true → ReadInv c (finalM c d h) := by
  induction h with
  | nil => intro d _ hr _; exact hr
  | cons x xs ih =>
    intro d hinv hr hl
    simp only [legalFromM, Bool.and_eq_true] at hl
    exact ih _ (inv_stepM c d x hinv) (readInv_stepM c hx hmp hfit d x hinv hr hl.1) hl.2

/-- **`ReadInv` holds after every legal history, every `max_packet_size > 0`.** -/
theorem readInv_legal_mps (c : DevConfig) (hx : c.extra = []) (hmp : 0 < c.maxPacket) (hfit : DescsFit c)
    (h : List Stim) (hl : LegalHostM c h = true) : ReadInv c (finalM c Device.init h) :=
  readInv_legalFromM c hx hmp hfit h Device.init inv_init (readInv_init c) hl

/-- **Descriptor reads of a legal host are in order** (`legal_read_in_order` for `legalEventM`). -/
theorem legal_read_in_order_mps (c : DevConfig) (hfit : DescsFit c) (d : DevState) (x : Stim) (pid ep : Nat)
    (hev : x.ev = .token pid d.address ep) (h : ReadInv c d) (hleg : legalEventM c d x = true) (R : Desc.Response)
    (hso : streamOf c (afterToken d pid ep) = some (true, R)) : DescReqOk c (afterToken d pid ep) = true := by
  unfold streamOf at hso
  split at hso
  · rename_i hc
    obtain ⟨hdr, hty⟩ := hc
    have hhs : (afterToken d pid ep).hstate = .getDescriptor := by
      cases hd : (afterToken d pid ep).hstate <;> simp only [hd] at hso <;> first | rfl | (exact absurd hso (by simp))
    simp only [readyDr, Bool.and_eq_true, decide_eq_true_eq] at hdr
    obtain ⟨⟨hep0, hstg⟩, hpin⟩ := hdr
    have hpid : pid = PID_IN := hpin
    have hep : ep = 0 := hep0
    subst hpid hep
    have hstg0 : d.stage = .dataIn := by
      have : tokenStage d PID_IN 0 = .dataIn := hstg
      unfold tokenStage at this
      simp only [PID_IN, PID_SETUP, PID_OUT, PID_PING] at this
      cases hs : d.stage <;> simp_all
    have hdone : d.gDataDone = false := by
      unfold legalEventM at hleg
      rw [hev] at hleg
      simp only [Bool.and_eq_true, Bool.not_eq_eq_eq_not, Bool.not_true] at hleg
      have := hleg.2.2
      simpa [hstg0] using this
    unfold DescReqOk
    have hsz := h.sizes
    simp only [Bool.and_eq_true, decide_eq_true_eq]
    refine ⟨⟨hsz.1, hsz.2⟩, ?_⟩
    cases hlk : lookupDescriptor c.descriptors ((afterToken d PID_IN 0).setup.value / 256 % 256)
        ((afterToken d PID_IN 0).setup.value % 256) with
    | none => rfl
    | some dd =>
      simp only [Bool.and_eq_true, decide_eq_true_eq]
      exact ⟨h.j hhs hty hdone dd hlk, hfit.2 _ _ dd hlk⟩
  · exact absurd hso (by simp)

/-! ### The closed loop under `LegalHostM` -/

def WinFromM (c : DevConfig) : DevState → List (Stim × GapsS) → Bool
  | _, [] => true
  | d, (x, g) :: rest => StreamWin c d x.ev g && WinFromM c (stepM c d x).1 rest

theorem fits2_of_legal_mps (c : DevConfig) (hx : c.extra = []) (hmp : 0 < c.maxPacket) (hfit : DescsFit c)
    (h : List (Stim × GapsS)) : ∀ d, Device.Inv d → ReadInv c d → legalFromM c d (h.map (·.1)) = true →
      WinFromM c d h = true → Fits2FromM c d h = true := by
  induction h with
  | nil => intro d _ _ _ _; rfl
  | cons xg rest ih =>
    intro d hinv hr hl hw
    obtain ⟨x, g⟩ := xg
    simp only [List.map_cons, legalFromM, Bool.and_eq_true] at hl
    simp only [WinFromM, Bool.and_eq_true] at hw
    simp only [Fits2FromM, Bool.and_eq_true]
    refine ⟨?_, ih _ (inv_stepM c d x hinv) (readInv_stepM c hx hmp hfit d x hinv hr hl.1) hl.2 hw.2⟩
    have hw1 := hw.1
    unfold StreamWin at hw1
    unfold StreamFits2
    cases hev : x.ev with
    | token pid addr ep =>
      rw [hev] at hw1
      simp only at hw1 ⊢
      by_cases ha : addr = d.address
      · subst ha
        simp only [if_true, Bool.and_eq_true] at hw1 ⊢
        refine ⟨hw1.1, ?_⟩
        have hw2 := hw1.2
        unfold ReadyWin at hw2
        unfold ReadyFits
        cases hso : streamOf c (afterToken d pid ep) with
        | none => rfl
        | some fr =>
          obtain ⟨fd, R⟩ := fr
          rw [hso] at hw2
          cases fd with
          | false => exact hw2
          | true =>
            simp only at hw2 ⊢
            rw [hw2, legal_read_in_order_mps c hfit d x pid ep hev hr hl.1 R hso]
            rfl
      · simp [ha]
    | _ => rfl

/-- **`cycle_refines_event`, closed loop with both streamers, for every history of a legal host, every legal control
max packet size.**  For `c.maxPacket ∈ {8, 16, 32, 64}` and every `LegalHostM` event history with silent streamer noise
and windows that are long enough (`WinFromM`): the closed loop of the cycle-level control-endpoint model, the
serializer model and the block descriptor handler model (`max_packet_length = c.maxPacket`) simulates the event-level
model `stepM` (statement as in `closed2_refines_event_run_mps`); that the descriptor reads are well-sized and in order
(`start_position` = 0, `mps`, 2·`mps`, … `≤ min(wLength, |descriptor|)`) is a theorem (`legal_read_in_order_mps`). -/
theorem closed2_refines_legal_run_mps (c : DevConfig) (hx : c.extra = [])
    (hm : c.maxPacket = 8 ∨ c.maxPacket = 16 ∨ c.maxPacket = 32 ∨ c.maxPacket = 64)
    (hwf : Desc.wellFormed (collOf c.descriptors) = true)
    (hpw : 2 ≤ (Desc.Rom.layout (collOf c.descriptors)).maxLen) (hfit : DescsFit c)
    (h : List (Stim × GapsS)) (hl : LegalHostM c (h.map (·.1)) = true) (hw : WinFromM c Device.init h = true)
    (ht : ∀ xg ∈ h, TDSil xg.2) :
    ∃ h', SameButLat h h' ∧
      Rel (finalM c Device.init (h.map (·.1)))
        (sys2Final (cfgOf c) (Desc.blockOf (collOf c.descriptors) c.maxPacket) sys2Init
          ((expandAllRM c Device.init h').map (·.2))).cs ∧
      sys2BusRespsM c (Desc.blockOf (collOf c.descriptors) c.maxPacket) Device.init sys2Init h' =
        coreRespsM c Device.init (h.map (·.1)) ∧
      regsAfterR (0, 0) (sys2OutsR (cfgOf c) (Desc.blockOf (collOf c.descriptors) c.maxPacket) sys2Init
          (expandAllRM c Device.init h')) =
        ((finalM c Device.init (h.map (·.1))).address, (finalM c Device.init (h.map (·.1))).config) ∧
      SerQ (sys2Final (cfgOf c) (Desc.blockOf (collOf c.descriptors) c.maxPacket) sys2Init
          ((expandAllRM c Device.init h').map (·.2))).ser ∧
      (sys2Final (cfgOf c) (Desc.blockOf (collOf c.descriptors) c.maxPacket) sys2Init
          ((expandAllRM c Device.init h').map (·.2))).blk.fsm = .idle :=
  closed2_refines_event_run_mps c hx hm hwf hpw h
    (fits2_of_legal_mps c hx (by omega) hfit h Device.init inv_init (readInv_init c) hl hw) ht

/-! ### Non-vacuity: the `max_packet_size = 8` example history of Lemmas/C07MpsClosed.lean is a legal host's -/

example : LegalHostM exCfgC8 ((exHistoryD8 0).map (·.1)) = true := by decide +kernel
example : WinFromM exCfgC8 Device.init (exHistoryD8 0) = true := by decide +kernel
example : DescsFit exCfgC8 := by
  refine ⟨by decide, ?_⟩
  intro ty idx dd h
  simp only [exCfgC8, lookupDescriptor] at h
  repeat' split at h
  all_goals first | (injection h with h; subst h; decide) | (exact absurd h (by simp))
-- with the advance by 64 of `Device.core` the same host would NOT be legal for that model's bookkeeping at
-- max_packet_size = 8 (a full 8-byte packet counts as short there): the two notions differ
example : LegalHost exCfgC8 ((exHistoryD8 0).map (·.1)) = false := by decide +kernel

end LunaVerif.CtrlCyc
