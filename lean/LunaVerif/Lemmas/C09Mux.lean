import LunaVerif.Lemmas.C09DistReq
import LunaVerif.Model.Usb2.DescriptorMux
/-!
Helper lemmas for C09: `GetDescriptorHandlerMux` as a pure function of the two handlers' output
traces (`muxTrace`), and what it makes of the three combinations of responses that occur when the
two handlers own disjoint sets of descriptors.
-/
namespace LunaVerif.Desc.Mux

/-- the mux's combinational outputs and next latch values from the two handlers' beats. -/
def muxBeat (ob od : Beat) (start l0 l1 : Bool) : Beat × Bool × Bool :=
  let stalled0 := ob.stall || (l0 && !start)
  let stalled1 := od.stall || (l1 && !start)
  let stall := stalled0 && stalled1
  let upd (latch hstall : Bool) : Bool :=
    if hstall && !stall then true else if start || stall then false else latch
  (⟨ob.valid || od.valid, ob.first || od.first, ob.last || od.last,
    if od.valid && !ob.valid then od.payload else ob.payload, stall⟩, upd l0 ob.stall, upd l1 od.stall)

def muxTrace : List Beat → List Beat → List Bool → Bool → Bool → List Beat
  | ob :: obs, od :: ods, st :: sts, l0, l1 =>
    (muxBeat ob od st l0 l1).1 :: muxTrace obs ods sts (muxBeat ob od st l0 l1).2.1 (muxBeat ob od st l0 l1).2.2
  | _, _, _, _, _ => []

def toDist (i : Block.In) : Dist.In := ⟨i.value, i.length, i.startPos, i.start, i.ready⟩

/-- the mux model is the two handler models run side by side, combined beat by beat. -/
theorem run_eq (c : Config) (ins : List In) : ∀ s : State,
    run c s ins = muxTrace (Block.run c.block s.b ins) (Dist.run c.dist s.d (ins.map toDist))
      (ins.map (·.start)) s.latch0 s.latch1 := by
  induction ins with
  | nil => intro s; rfl
  | cons i is ih =>
    intro s
    simp only [run, List.map_cons, Block.run, Dist.run, muxTrace]
    rw [ih]
    rfl

theorem toDist_reqInputs (v l p : Nat) (rs : List Bool) :
    (Block.reqInputs v l p rs).map toDist = Dist.reqInputs v l p rs := by
  cases rs with
  | nil => rfl
  | cons r rs => simp [Block.reqInputs, Dist.reqInputs, toDist, List.map_map, Function.comp_def]

theorem start_reqInputs (v l p : Nat) (r : Bool) (rs : List Bool) :
    (Block.reqInputs v l p (r :: rs)).map (·.start) = true :: rs.map (fun _ => false) := by
  simp [Block.reqInputs, List.map_map, Function.comp_def]

/-! ### properties of the abstract response traces -/

theorem respTrace_length (lat : Nat) (r : Response) (rs : List Bool) : (respTrace lat r rs).length = rs.length := by
  unfold respTrace
  induction lat generalizing rs with
  | zero =>
    simp only [delayed]
    cases r with
    | data c =>
      simp only [bodyTrace]
      generalize 0 = k
      induction rs generalizing k with
      | nil => rfl
      | cons r rs ih => simp only [sendTrace]; split <;> simp [ih]
    | zlp => cases rs <;> simp [bodyTrace, pulseTrace, idleTrace]
    | stall => cases rs <;> simp [bodyTrace, pulseTrace, idleTrace]
    | silent => simp [bodyTrace, idleTrace]
  | succ n ih =>
    cases rs with
    | nil => rfl
    | cons r rs => simp [delayed, ih]

/-- a beat of a handler that answers with data / a ZLP / nothing: never `stall`, payload 0 unless valid. -/
def Honest (b : Beat) : Prop := b.stall = false ∧ (b.valid = false → b.payload = 0)
/-- a beat of a handler that refuses: at most `stall`. -/
def Mute (b : Beat) : Prop := b.valid = false ∧ b.first = false ∧ b.last = false ∧ b.payload = 0

theorem honest_quiet : Honest Beat.quiet := ⟨rfl, fun _ => rfl⟩
theorem mute_quiet : Mute Beat.quiet := ⟨rfl, rfl, rfl, rfl⟩
theorem mute_stall : Mute stallBeat := ⟨rfl, rfl, rfl, rfl⟩

theorem idleTrace_all (P : Beat → Prop) (h : P Beat.quiet) (rs : List Bool) : ∀ b ∈ idleTrace rs, P b := by
  intro b hb
  unfold idleTrace at hb
  obtain ⟨_, _, rfl⟩ := List.mem_map.mp hb
  exact h

theorem delayed_all (P : Beat → Prop) (h : P Beat.quiet) (f : List Bool → List Beat)
    (hf : ∀ rs, ∀ b ∈ f rs, P b) : ∀ (n : Nat) (rs : List Bool), ∀ b ∈ delayed n f rs, P b := by
  intro n
  induction n with
  | zero => intro rs; exact hf rs
  | succ n ih =>
    intro rs b hb
    cases rs with
    | nil => simp [delayed] at hb
    | cons r rs =>
      simp only [delayed, List.mem_cons] at hb
      rcases hb with rfl | hb
      · exact h
      · exact ih rs b hb

theorem sendTrace_honest (c : List Nat) (rs : List Bool) : ∀ k, ∀ b ∈ sendTrace c k rs, Honest b := by
  induction rs with
  | nil => intro k b hb; simp [sendTrace] at hb
  | cons r rs ih =>
    intro k b hb
    simp only [sendTrace] at hb
    split at hb
    · rcases List.mem_cons.mp hb with rfl | hb
      · exact ⟨rfl, fun h => by simp at h⟩
      · exact ih _ b hb
    · rcases List.mem_cons.mp hb with rfl | hb
      · exact honest_quiet
      · exact ih _ b hb

theorem pulseTrace_all (P : Beat → Prop) (h : P Beat.quiet) (p : Beat) (hp : P p) (rs : List Bool) :
    ∀ b ∈ pulseTrace p rs, P b := by
  intro b hb
  cases rs with
  | nil => simp [pulseTrace] at hb
  | cons r rs =>
    simp only [pulseTrace, List.mem_cons] at hb
    rcases hb with rfl | hb
    · exact hp
    · exact idleTrace_all P h rs b hb

theorem respTrace_honest (lat : Nat) (r : Response) (hr : r ≠ .stall) (rs : List Bool) :
    ∀ b ∈ respTrace lat r rs, Honest b := by
  unfold respTrace
  apply delayed_all Honest honest_quiet
  intro rs
  cases r with
  | data c => exact sendTrace_honest c rs 0
  | zlp => exact pulseTrace_all Honest honest_quiet zlpBeat ⟨rfl, fun h => by simp [zlpBeat] at h⟩ rs
  | stall => exact absurd rfl hr
  | silent => exact idleTrace_all Honest honest_quiet rs

theorem respTrace_mute (lat : Nat) (rs : List Bool) : ∀ b ∈ respTrace lat .stall rs, Mute b := by
  unfold respTrace
  apply delayed_all Mute mute_quiet
  intro rs
  exact pulseTrace_all Mute mute_quiet stallBeat mute_stall rs

/-! ### the three combinations, after the start cycle (`start` low) -/

/-- handler 0 answers, handler 1 has stalled (its latch is set): the mux shows handler 0. -/
theorem mux_left (rs : List Bool) : ∀ obs : List Beat, obs.length = rs.length → (∀ b ∈ obs, b.stall = false) →
    muxTrace obs (idleTrace rs) (rs.map (fun _ => false)) false true = obs := by
  induction rs with
  | nil => intro obs h _; cases obs with
    | nil => rfl
    | cons _ _ => simp at h
  | cons r rs ih =>
    intro obs hl hs
    cases obs with
    | nil => simp at hl
    | cons ob obs =>
      have h0 := hs ob (List.mem_cons_self ..)
      simp only [idleTrace_cons, List.map_cons, muxTrace]
      have hb : muxBeat ob Beat.quiet false false true = (ob, false, true) := by
        obtain ⟨v, f, l, pl, st⟩ := ob
        simp only at h0
        subst h0
        simp [muxBeat, Beat.quiet]
      rw [hb]
      simp only
      rw [ih obs (by simpa using hl) (fun b hb => hs b (List.mem_cons_of_mem _ hb))]

/-- handler 1 answers, handler 0 refuses (at any time; its latch value does not matter): the mux
shows handler 1. -/
theorem mux_right (rs : List Bool) : ∀ (obs ods : List Beat) (l0 : Bool),
    obs.length = rs.length → ods.length = rs.length →
    (∀ b ∈ obs, Mute b) → (∀ b ∈ ods, Honest b) →
    muxTrace obs ods (rs.map (fun _ => false)) l0 false = ods := by
  induction rs with
  | nil => intro obs ods l0 _ h _ _; cases ods with
    | nil => cases obs <;> rfl
    | cons _ _ => simp at h
  | cons r rs ih =>
    intro obs ods l0 hlb hld hm hh
    cases obs with
    | nil => simp at hlb
    | cons ob obs =>
      cases ods with
      | nil => simp at hld
      | cons od ods =>
        obtain ⟨m1, m2, m3, m4⟩ := hm ob (List.mem_cons_self ..)
        obtain ⟨g1, g2⟩ := hh od (List.mem_cons_self ..)
        simp only [List.map_cons, muxTrace]
        have hb : ∃ l0', muxBeat ob od false l0 false = (od, l0', false) := by
          obtain ⟨v, f, l, pl, st⟩ := ob
          obtain ⟨v', f', l', pl', st'⟩ := od
          simp only at m1 m2 m3 m4 g1 g2
          subst m1 m2 m3 m4 g1
          cases v' with
          | true => exact ⟨_, by simp [muxBeat]; rfl⟩
          | false => have := g2 rfl; subst this; exact ⟨_, by simp [muxBeat]; rfl⟩
        obtain ⟨l0', hb⟩ := hb
        rw [hb]
        simp only
        rw [ih obs ods l0' (by simpa using hlb) (by simpa using hld)
          (fun b hb => hm b (List.mem_cons_of_mem _ hb)) (fun b hb => hh b (List.mem_cons_of_mem _ hb))]

theorem mux_idle (rs : List Bool) :
    muxTrace (idleTrace rs) (idleTrace rs) (rs.map (fun _ => false)) false false = idleTrace rs := by
  induction rs with
  | nil => rfl
  | cons r rs ih =>
    simp only [idleTrace_cons, List.map_cons, muxTrace]
    have hb : muxBeat Beat.quiet Beat.quiet false false false = (Beat.quiet, false, false) := by
      simp [muxBeat, Beat.quiet]
    rw [hb]
    simp only
    rw [ih]

/-- handler 1 has stalled (latch set), handler 0 stalls later: the mux stalls in that cycle, once. -/
theorem mux_both (n : Nat) : ∀ rs : List Bool,
    muxTrace (delayed n (pulseTrace stallBeat) rs) (idleTrace rs) (rs.map (fun _ => false)) false true
      = delayed n (pulseTrace stallBeat) rs := by
  induction n with
  | zero =>
    intro rs
    cases rs with
    | nil => rfl
    | cons r rs =>
      simp only [delayed, pulseTrace, idleTrace_cons, List.map_cons, muxTrace]
      have hb : muxBeat stallBeat Beat.quiet false false true = (stallBeat, false, false) := by
        simp [muxBeat, Beat.quiet, stallBeat]
      rw [hb]
      simp only
      rw [mux_idle]
  | succ n ih =>
    intro rs
    cases rs with
    | nil => rfl
    | cons r rs =>
      simp only [delayed, idleTrace_cons, List.map_cons, muxTrace]
      have hb : muxBeat Beat.quiet Beat.quiet false false true = (Beat.quiet, false, true) := by
        simp [muxBeat, Beat.quiet]
      rw [hb]
      simp only
      rw [ih]

/-! ### whole requests (start cycle first; the latches may hold anything from the previous request) -/

theorem muxBeat_start_stall1 (l0 l1 : Bool) : muxBeat Beat.quiet stallBeat true l0 l1 = (Beat.quiet, false, true) := by
  cases l0 <;> cases l1 <;> simp [muxBeat, Beat.quiet, stallBeat]

theorem muxBeat_start_quiet (l0 l1 : Bool) : muxBeat Beat.quiet Beat.quiet true l0 l1 = (Beat.quiet, false, false) := by
  cases l0 <;> cases l1 <;> simp [muxBeat, Beat.quiet]

/-- descriptor owned by handler 0: handler 1 stalls in the start cycle, the mux shows handler 0's answer. -/
theorem mux_owner0 (n : Nat) (rB : Response) (hr : rB ≠ .stall) (r : Bool) (rs : List Bool) (l0 l1 : Bool) :
    muxTrace (respTrace (n + 1) rB (r :: rs)) (respTrace 0 .stall (r :: rs)) (true :: rs.map (fun _ => false)) l0 l1
      = respTrace (n + 1) rB (r :: rs) := by
  show muxTrace (Beat.quiet :: respTrace n rB rs) (stallBeat :: idleTrace rs) _ l0 l1 = Beat.quiet :: respTrace n rB rs
  simp only [muxTrace, muxBeat_start_stall1]
  rw [mux_left rs _ (respTrace_length n rB rs) (fun b hb => (respTrace_honest n rB hr rs b hb).1)]

/-- descriptor owned by handler 1: handler 0 stalls after its lookup, the mux shows handler 1's answer. -/
theorem mux_owner1 (n m : Nat) (rD : Response) (hr : rD ≠ .stall) (r : Bool) (rs : List Bool) (l0 l1 : Bool) :
    muxTrace (respTrace (n + 1) .stall (r :: rs)) (respTrace (m + 1) rD (r :: rs)) (true :: rs.map (fun _ => false)) l0 l1
      = respTrace (m + 1) rD (r :: rs) := by
  show muxTrace (Beat.quiet :: respTrace n .stall rs) (Beat.quiet :: respTrace m rD rs) _ l0 l1
    = Beat.quiet :: respTrace m rD rs
  simp only [muxTrace, muxBeat_start_quiet]
  rw [mux_right rs _ _ false (respTrace_length n .stall rs) (respTrace_length m rD rs)
    (respTrace_mute n rs) (respTrace_honest m rD hr rs)]

/-- descriptor owned by nobody: the mux stalls exactly when the second handler has stalled too. -/
theorem mux_nobody (n : Nat) (r : Bool) (rs : List Bool) (l0 l1 : Bool) :
    muxTrace (respTrace (n + 1) .stall (r :: rs)) (respTrace 0 .stall (r :: rs)) (true :: rs.map (fun _ => false)) l0 l1
      = respTrace (n + 1) .stall (r :: rs) := by
  show muxTrace (Beat.quiet :: delayed n (pulseTrace stallBeat) rs) (stallBeat :: idleTrace rs) _ l0 l1
    = Beat.quiet :: delayed n (pulseTrace stallBeat) rs
  simp only [muxTrace, muxBeat_start_stall1]
  rw [mux_both n rs]

end LunaVerif.Desc.Mux
