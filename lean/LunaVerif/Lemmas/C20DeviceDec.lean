import LunaVerif.Lemmas.C20DeviceCtl
import LunaVerif.Model.Usb2.SetupDecoder
/-!
# C20 — the closed device with its control endpoint AND the setup decoder's FSM + deserializer

`DevDec` adds `SetupDecoder.decStep` (the `USBSetupDecoder` FSM) and `SetupDecoder.deserStep` (its
`USBDataPacketDeserializer`) of C06 to `DevCtl`, on the SHARED tokenizer (`new_token`, `pid` of the device's token
detector), the SHARED timer (`tx_allowed`; `timer.start` = the deserializer's registered `new_packet`) and the SHARED CRC16
(`data_crc.start` while the deserializer reads the PID, CRC value = the receiver's), as `USBSetupDecoder.elaborate` /
`USBControlEndpoint.elaborate` wire them.  `packet.received`, `ack` and the `SetupPacket` registers are no longer inputs.

Proved (`decHolds_of_dec`, for every history): two clauses of `DevCtl.decHolds` — the decoder's `timer.start` comes only
in the cycle after a reception ended (`DI.i1/i2`: the deserializer parses only while `rx_active` was high a cycle ago), and
`setup.type` changes only together with the `received` strobe (`dec_regs`); and a third — `received` is visible only
while the tokenizer shows SETUP (`DI.i4/i5`: the strobe is raised for a `new_packet` under a SETUP pid, and the token
detector, idle after the cycle without `rx_active`, keeps its `pid` over that edge).  What remains assumed is `decOk'`:
the decoder's ACK coincides with the receiver's `ready_for_response` while the tokenizer shows SETUP, no `received` /
forwarded host ACK while the control slot is armed or sending, the legal-host clause on `start_position`, reset
sequencer silent.  (The first two need the joint invariant "decoder in DELAY <=> receiver in its inter-packet DELAY" +
the equality of the deserializer's and the receiver's CRC16 checks; not proved.)
-/
namespace LunaVerif.DevDec
open LunaVerif LunaVerif.DevCyc LunaVerif.DevCyc.Abs LunaVerif.C20Ctr LunaVerif.DevEp LunaVerif.CtrlCyc LunaVerif.DevCtl
open LunaVerif.SetupDecoder (Deser Dec deserStep decStep)

/-- The `SetupPacket` record as the request handlers see it. -/
def suOf (k : Dec) : Device.Setup :=
  { isIn := decide (k.requestType / 128 = 1), type := (k.requestType / 32) % 4, recipient := k.requestType % 32,
    request := k.request, value := k.value, index := k.index, length := k.length }

structure Config where
  dc : DevCtl.Config
  hs : Bool                -- speed == HIGH (the decoder ACKs without waiting for the timer)

def decCfg (c : Config) : SetupDecoder.Config := ⟨0, c.hs, 0, 0⟩   -- `decStep` reads `hs` only

structure State where
  w   : DevCtl.State
  ds  : Deser
  dec : Dec

def init (c : Config) : State := ⟨DevCtl.init c.dc, SetupDecoder.init.ds, SetupDecoder.init.dec⟩

/-- The decoder's combinational step of the cycle (`decStep` on the SHARED tokenizer and the SHARED timer). -/
def decCycle (c : Config) (D : State) (x : Ext) : Dec × Bool :=
  let o := fwd c.dc.ep D.w.ep x
  decStep (decCfg c) D.dec o.tok.regs.newToken o.tok.regs.pid D.ds.newPacket D.ds.length D.ds.packet o.txAllowed

/-- The packet layer's / endpoints' inputs with the decoder's `timer.start` (= the deserializer's `new_packet`) and
`data_crc.start`. -/
def xOf (D : State) (x : Ext) : Ext := { x with restTimer := D.ds.newPacket, restCrc := D.ds.fsm == .readPid }

/-- What the decoder shows the control endpoint. -/
def dOf (c : Config) (D : State) (x : Ext) (activeConfig : Nat) : DecIn :=
  ⟨D.dec.received, (decCycle c D x).2, suOf D.dec, activeConfig⟩

def step (c : Config) (D : State) (x : Ext) (ac : Nat) : State :=
  let o := fwd c.dc.ep D.w.ep x
  ⟨DevCtl.step c.dc D.w (xOf D x) (dOf c D x ac), deserStep D.ds o.rxo.crcOut x.rx, (decCycle c D x).1⟩

/-- The `DevCtl` input history along the run of the device with control endpoint and setup decoder. -/
def ysOf (c : Config) : State → List (Ext × Nat) → List (Ext × DecIn)
  | _, [] => []
  | D, (x, ac) :: zs => (xOf D x, dOf c D x ac) :: ysOf c (step c D x ac) zs

theorem fwd_x (c : Config) (D : State) (x : Ext) : fwd c.dc.ep D.w.ep (xOf D x) = fwd c.dc.ep D.w.ep x := rfl

/-! ### The deserializer and the decoder, one cycle -/

/-- `new_packet` is raised by a deserializer that was parsing and sees `rx_active` low. -/
theorem deser_new (d : Deser) (crc : Nat) (i : Utmi.RxCycle) :
    ((deserStep d crc i).newPacket = true → d.fsm ≠ .idle ∧ i.active = false) ∧
    ((deserStep d crc i).fsm ≠ .idle → i.active = true) := by
  cases hf : d.fsm <;> simp only [deserStep, hf] <;> cases i.active <;> cases i.valid <;> simp <;>
    (repeat' split) <;> simp

/-- The decoder's registers change only together with the `received` strobe. -/
theorem dec_regs (c : SetupDecoder.Config) (k : Dec) (tn : Bool) (tp : Nat) (dn : Bool) (dl : Nat) (p : List Nat)
    (ta : Bool) : (decStep c k tn tp dn dl p ta).1.received = false → suOf (decStep c k tn tp dn dl p ta).1 = suOf k := by
  cases hf : k.fsm <;> simp only [decStep, hf] <;> (repeat' split) <;> simp [suOf]

/-- `received` is strobed only for a `new_packet` of the deserializer while the tokenizer shows SETUP. -/
theorem dec_received_origin (c : SetupDecoder.Config) (k : Dec) (tn : Bool) (tp : Nat) (dn : Bool) (dl : Nat)
    (p : List Nat) (ta : Bool) :
    (decStep c k tn tp dn dl p ta).1.received = true → dn = true ∧ tp = SetupDecoder.SETUP_PID := by
  cases hf : k.fsm <;> simp only [decStep, hf] <;> (repeat' split) <;> simp_all

/-- The device's token detector is idle after a cycle without `rx_active`, and an idle detector keeps its `pid`. -/
theorem tok_facts (cfg : TokenDetector.Config) (s : TokenDetector.State) (i : TokenDetector.In) :
    (i.rx.active = false → (TokenDetector.tokStep cfg s i).1.fsm = .idle) ∧
    (s.fsm = .idle → (TokenDetector.tokStep cfg s i).1.regs.pid = s.regs.pid) := by
  refine ⟨?_, ?_⟩
  · intro h
    cases hf : s.fsm <;> simp only [TokenDetector.tokStep, hf, h] <;> simp
    (repeat' split) <;> simp
  · intro hf
    simp only [TokenDetector.tokStep, hf]
    split <;> simp

theorem dev_tok (c : DevEp.Config) (S : DevEp.State) (x : Ext) :
    (DevEp.step c S x).1.dev.tok.tok = (TokenDetector.tokStep c.dev.tok S.dev.tok.tok ⟨x.rx, x.address⟩).1 := by
  show (DevCyc.step c.dev S.dev (fullIn c S x)).1.tok.tok = _
  simp [DevCyc.step, TokenDetector.step, fullIn]

theorem fwd_regs (c : DevEp.Config) (S : DevEp.State) (x : Ext) : (fwd c S x).tok.regs = S.dev.tok.tok.regs := by
  simp [fwd, DevCyc.step, TokenDetector.step]

/-! ### The decoder's invariant next to the packet layer's ghost -/

/-- The deserializer parses only while `rx_active` was high in the previous cycle; its `new_packet` strobe appears in
the cycle after a reception ended; the decoder's registers are those of the previous cycle unless `received` strobes. -/
structure DI (D : State) (g : Ghost) (pty : Nat) : Prop where
  i1 : D.ds.fsm ≠ .idle → g.a1 = true
  i2 : D.ds.newPacket = true → g.a1 = false ∧ g.a2 = true
  i3 : D.dec.received = false → (suOf D.dec).type = pty
  i4 : g.a1 = false → D.w.ep.dev.tok.tok.fsm = .idle
  i5 : D.dec.received = true → D.w.ep.dev.tok.tok.regs.pid = SetupDecoder.SETUP_PID

theorem di_init (c : Config) : DI (init c) ghostInit 0 := by
  refine ⟨?_, ?_, ?_, ?_, ?_⟩ <;>
    simp [init, SetupDecoder.init, suOf, DevCtl.init, DevEp.init, DevCyc.init, TokenDetector.fullInit,
      TokenDetector.init]

/-- What is still assumed of the decoder's surroundings in one cycle (compare `DevCtl.decOk`: the `timer.start` clause
the `setup.type` clause and the `received => SETUP` clause are gone). -/
def decOk' (c : Config) (D : State) (q : Phs) (x : Ext) (ac : Nat) : Bool :=
  let o := fwd c.dc.ep D.w.ep x
  (!(decCycle c D x).2 || (o.rxo.ready && o.tok.isSetup)) &&
  (q.r == .idle ||
    (!D.dec.received && !(ctrlComb c.dc.ctl D.w.ctl.cs.stage (ctlIn x (dOf c D x ac) o)).hsAck)) &&
  (D.w.ctl.blk.fsm != .start || decide (D.w.ctl.cs.h.startPos < 2 ^ c.dc.blk.img.posW)) && !x.rsValid

theorem decOk_of (c : Config) {D : State} {g : Ghost} {q : Phs} {pty : Nat} {x : Ext} {ac : Nat}
    (hi : DI D g pty) (h : decOk' c D q x ac = true) :
    decOk c.dc D.w g q pty (xOf D x) (dOf c D x ac) = true := by
  simp only [decOk', Bool.and_eq_true, Bool.or_eq_true, Bool.not_eq_eq_eq_not, Bool.not_true, beq_iff_eq] at h
  obtain ⟨⟨⟨h1, h3⟩, h4⟩, h5⟩ := h
  simp only [decOk, fwd_x, Bool.and_eq_true, Bool.or_eq_true, Bool.not_eq_eq_eq_not, Bool.not_true, beq_iff_eq]
  refine ⟨⟨⟨⟨⟨h1, ?_⟩, ?_⟩, h4⟩, ?_⟩, h5⟩
  · show D.dec.received = false ∨ _
    cases hr : D.dec.received with
    | false => exact Or.inl rfl
    | true =>
      right
      rw [(pid_decode c.dc D.w x).2.2.1, fwd_regs, hi.i5 hr]
      rfl
  · rcases h3 with h | h
    · exact Or.inl h
    · exact Or.inr ⟨h, hi.i3 h.1⟩
  · show D.ds.newPacket = false ∨ _
    cases hn : D.ds.newPacket with
    | false => exact Or.inl rfl
    | true => obtain ⟨a, b⟩ := hi.i2 hn; exact Or.inr (by simp [a, b])

theorem di_step (c : Config) (p : Params) {D : State} {g : Ghost} {pty : Nat} (x : Ext) (ac : Nat) (i : DevCyc.In)
    (o : DevCyc.Out) (hrx : i.rx = x.rx) (hi : DI D g pty) :
    DI (step c D x ac) (ghostNext p g D.w.ep.dev i o) (suOf D.dec).type := by
  obtain ⟨n1, n2⟩ := deser_new D.ds (fwd c.dc.ep D.w.ep x).rxo.crcOut x.rx
  have htok : (step c D x ac).w.ep.dev.tok.tok =
      (TokenDetector.tokStep c.dc.ep.dev.tok D.w.ep.dev.tok.tok ⟨x.rx, x.address⟩).1 :=
    dev_tok c.dc.ep D.w.ep (extOf c.dc D.w (xOf D x) (dOf c D x ac))
  obtain ⟨t1, t2⟩ := tok_facts c.dc.ep.dev.tok D.w.ep.dev.tok.tok ⟨x.rx, x.address⟩
  refine ⟨?_, ?_, ?_, ?_, ?_⟩
  · intro h; show i.rx.active = true; rw [hrx]; exact n2 h
  · intro h
    obtain ⟨a, b⟩ := n1 h
    exact ⟨by show i.rx.active = false; rw [hrx]; exact b, hi.i1 a⟩
  · intro h
    have := dec_regs (decCfg c) D.dec (fwd c.dc.ep D.w.ep x).tok.regs.newToken (fwd c.dc.ep D.w.ep x).tok.regs.pid
      D.ds.newPacket D.ds.length D.ds.packet (fwd c.dc.ep D.w.ep x).txAllowed h
    exact congrArg Device.Setup.type this
  · intro h
    have h' : x.rx.active = false := by rw [← hrx]; exact h
    rw [htok]; exact t1 h'
  · intro h
    obtain ⟨a, b⟩ := dec_received_origin (decCfg c) D.dec (fwd c.dc.ep D.w.ep x).tok.regs.newToken
      (fwd c.dc.ep D.w.ep x).tok.regs.pid D.ds.newPacket D.ds.length D.ds.packet (fwd c.dc.ep D.w.ep x).txAllowed h
    rw [fwd_regs] at b
    rw [htok, t2 (hi.i4 (hi.i2 a).1), b]

/-! ### Along a history -/

def decHolds' (c : Config) (p : Params) : State → Ghost → Phs → List (Ext × Nat) → Bool
  | _, _, _, [] => true
  | D, g, q, (x, ac) :: zs =>
    let x' := extOf c.dc D.w (xOf D x) (dOf c D x ac)
    decOk' c D q x ac &&
      decHolds' c p (step c D x ac) (ghostNext p g D.w.ep.dev (fullIn c.dc.ep D.w.ep x') (DevEp.step c.dc.ep D.w.ep x').2)
        (nextPhs p.L c.dc.ep D.w.ep x' q) zs

theorem decHolds_of_di (c : Config) (p : Params) (zs : List (Ext × Nat)) :
    ∀ (D : State) (g : Ghost) (q : Phs) (pty : Nat), DI D g pty → decHolds' c p D g q zs = true →
      decHolds c.dc p D.w g q pty (ysOf c D zs) = true := by
  induction zs with
  | nil => intros; rfl
  | cons z zs ih =>
    intro D g q pty hi h
    obtain ⟨x, ac⟩ := z
    simp only [decHolds', Bool.and_eq_true] at h
    simp only [ysOf, decHolds, Bool.and_eq_true]
    refine ⟨decOk_of c hi h.1, ?_⟩
    exact ih _ _ _ _ (di_step c p x ac _ _ rfl hi) h.2

/-- **`decHolds` reduced.**  With the setup decoder's FSM and its deserializer composed in (on the shared tokenizer,
timer and CRC), the decoder's `timer.start` clause and the `setup.type` clause of `decHolds` are theorems. -/
theorem decHolds_of_dec (c : Config) (p : Params) (zs : List (Ext × Nat))
    (h : decHolds' c p (init c) ghostInit phs0 zs = true) :
    decHolds c.dc p (DevCtl.init c.dc) ghostInit phs0 0 (ysOf c (init c) zs) = true :=
  decHolds_of_di c p zs (init c) ghostInit phs0 0 (di_init c) h

/-- The `DevEp` input history of the device with control endpoint and setup decoder. -/
def extsD (c : Config) (zs : List (Ext × Nat)) : List Ext := extsOf c.dc (DevCtl.init c.dc) (ysOf c (init c) zs)

/-- The device with its control endpoint and setup decoder never transmits while a received packet is in progress. -/
theorem dec_closed_tx_never_during_rx (c : Config) (p : Params)
    (hs : strobes c.dc.ep.dev.tok.timer c.dc.ep.dev.speed = true)
    (hT : delayOf c.dc.ep.dev.tok.timer c.dc.ep.dev.speed + p.L + 2 < p.T) (hne : c.dc.ep.epIn ≠ c.dc.ep.sig.epNum)
    (he : epsOk c.dc) (hL : 3 ≤ p.L) (zs : List (Ext × Nat))
    (hh : hostHolds c.dc.ep.dev p DevCyc.init ghostInit (devIns c.dc.ep (DevEp.init c.dc.ep) (extsD c zs)) = true)
    (hd : decHolds' c p (init c) ghostInit phs0 zs = true) :
    ∀ o ∈ DevEp.run c.dc.ep (DevEp.init c.dc.ep) (extsD c zs), o.txValid = true → o.rxActive = false :=
  ctl_closed_tx_never_during_rx c.dc p hs hT hne he hL _ hh (decHolds_of_dec c p zs hd)

theorem dec_closed_transmitters_exclusive (c : Config) (p : Params)
    (hs : strobes c.dc.ep.dev.tok.timer c.dc.ep.dev.speed = true)
    (hT : delayOf c.dc.ep.dev.tok.timer c.dc.ep.dev.speed + p.L + 2 < p.T) (hne : c.dc.ep.epIn ≠ c.dc.ep.sig.epNum)
    (he : epsOk c.dc) (hL : 3 ≤ p.L) (zs : List (Ext × Nat))
    (hh : hostHolds c.dc.ep.dev p DevCyc.init ghostInit (devIns c.dc.ep (DevEp.init c.dc.ep) (extsD c zs)) = true)
    (hd : decHolds' c p (init c) ghostInit phs0 zs = true) :
    ∀ o ∈ DevEp.run c.dc.ep (DevEp.init c.dc.ep) (extsD c zs), ¬ (o.hsValid = true ∧ o.genValid = true) :=
  ctl_closed_transmitters_exclusive c.dc p hs hT hne he hL _ hh (decHolds_of_dec c p zs hd)

theorem dec_closed_tx_only_in_response_window (c : Config) (p : Params)
    (hs : strobes c.dc.ep.dev.tok.timer c.dc.ep.dev.speed = true)
    (hT : delayOf c.dc.ep.dev.tok.timer c.dc.ep.dev.speed + p.L + 2 < p.T) (hne : c.dc.ep.epIn ≠ c.dc.ep.sig.epNum)
    (he : epsOk c.dc) (hL : 3 ≤ p.L) (zs : List (Ext × Nat))
    (hh : hostHolds c.dc.ep.dev p DevCyc.init ghostInit (devIns c.dc.ep (DevEp.init c.dc.ep) (extsD c zs)) = true)
    (hd : decHolds' c p (init c) ghostInit phs0 zs = true) :
    ∀ go ∈ traceG c.dc.ep.dev p DevCyc.init ghostInit (devIns c.dc.ep (DevEp.init c.dc.ep) (extsD c zs)),
      go.2.txValid = true → go.1.win ≠ .closed :=
  ctl_closed_tx_only_in_response_window c.dc p hs hT hne he hL _ hh (decHolds_of_dec c p zs hd)

end LunaVerif.DevDec
