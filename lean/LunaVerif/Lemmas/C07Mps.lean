import LunaVerif.Lemmas.C07StreamRun
import LunaVerif.Model.Device.ControlM
/-!
# `cycle_refines_event_streams_run` for EVERY `max_packet_size`

The event-level model `Device.core` (Model/Device/Control.lean) advances `start_position` by the literal 64 on the host
ACK of a GET_DESCRIPTOR data packet (`Device.stdAck`) and marks the data stage as over after a packet shorter than 64
bytes (`Device.onHandshake`, ghost `gDataDone`).  The
gateware (`StandardRequestHandler`: `next_start_position = start_position + self._max_packet_size`) and the cycle-level
model (`CtrlCyc.stdStateBody`, co-simulated against the real `USBControlEndpoint(max_packet_size ∈ {8, 16, 32, 64})`)
advance by the configured size.

Model/Device/ControlM.lean has the event-level model with the advance by `c.maxPacket` -- it is the model the shared
driver `drv_dev` steps in the event-level co-simulation of the whole `USBDevice` (control max packet sizes 8 / 16 / 32 /
64) --; this file is about it (`coreM` / `stepM`: `Device.core` /
`Device.step` with `stdAckM` / `onHandshakeM` for the event "host handshake"; every other event is `Device.core`
itself): it shows that it IS `Device.core` / `Device.step` for `max_packet_size = 64` (`coreM_eq_core`, `stepM_eq_step`,
`finalM_eq_final`), and proves the refinement of Lemmas/C07Stream*.lean for it with NO hypothesis on the max packet
size (`cycle_refines_event_streams_mps`, `cycle_refines_event_all_mps`, `cycle_refines_event_streams_run_mps`,
`cycle_refines_event_streams_from_reset_mps`).  The old theorem is the instance `max_packet_size = 64`
(`cycle_refines_event_streams_run_of_mps`).
-/
namespace LunaVerif.Device

/-! ### The event-level model, `start_position` advance by `max_packet_size`

`stdAckM`, `onHandshakeM`, `coreM`, `stepM`, `finalM`, `respsM` live in Model/Device/ControlM.lean (core Lean only: the
compiled driver `drv_dev` steps with `stepM`); they were moved there from this file unchanged. -/

/-! ### For `max_packet_size = 64` it is the model of Model/Device/Control.lean -/

theorem stdAckM_64 (s : DevState) : stdAckM 64 s = stdAck s := by
  unfold stdAckM stdAck
  cases s.hstate <;> rfl

theorem onHandshakeM_64 (s : DevState) (pid : Nat) : onHandshakeM 64 s pid = onHandshake s pid := by
  unfold onHandshakeM onHandshake
  rw [stdAckM_64]

theorem coreM_eq_core (c : DevConfig) (hmp : c.maxPacket = 64) (s : DevState) (e : HostEvent) :
    coreM c s e = core c s e := by
  cases e <;> simp only [coreM, core, hmp, onHandshakeM_64]

theorem stepM_eq_step (c : DevConfig) (hmp : c.maxPacket = 64) (s : DevState) (x : Stim) :
    stepM c s x = step c s x := by
  unfold stepM step
  rw [coreM_eq_core c hmp]

theorem finalM_eq_final (c : DevConfig) (hmp : c.maxPacket = 64) (s : DevState) (h : List Stim) :
    finalM c s h = final c s h := by
  induction h generalizing s with
  | nil => rfl
  | cons x xs ih => simp only [finalM, final, stepM_eq_step c hmp, ih]

/-! ### What the two handshake reactions have in common: everything but `start_position` and the ghost -/

theorem stdAckM_ctl (mps : Nat) (s : DevState) :
    (stdAckM mps s).address = (stdAck s).address ∧ (stdAckM mps s).config = (stdAck s).config ∧
    (stdAckM mps s).tokPid = (stdAck s).tokPid ∧ (stdAckM mps s).tokEp = (stdAck s).tokEp ∧
    (stdAckM mps s).sdWait = (stdAck s).sdWait ∧ (stdAckM mps s).setup = (stdAck s).setup ∧
    (stdAckM mps s).stage = (stdAck s).stage ∧ (stdAckM mps s).hstate = (stdAck s).hstate ∧
    (stdAckM mps s).txPid = (stdAck s).txPid ∧ (stdAckM mps s).expectingAck = (stdAck s).expectingAck := by
  unfold stdAckM stdAck
  cases s.hstate <;> simp only [] <;> (try split) <;> simp

theorem onHandshakeM_ctl (mps : Nat) (s : DevState) (pid : Nat) :
    (onHandshakeM mps s pid).address = (onHandshake s pid).address ∧
    (onHandshakeM mps s pid).config = (onHandshake s pid).config ∧
    (onHandshakeM mps s pid).tokPid = (onHandshake s pid).tokPid ∧
    (onHandshakeM mps s pid).tokEp = (onHandshake s pid).tokEp ∧
    (onHandshakeM mps s pid).sdWait = (onHandshake s pid).sdWait ∧
    (onHandshakeM mps s pid).setup = (onHandshake s pid).setup ∧
    (onHandshakeM mps s pid).stage = (onHandshake s pid).stage ∧
    (onHandshakeM mps s pid).hstate = (onHandshake s pid).hstate ∧
    (onHandshakeM mps s pid).txPid = (onHandshake s pid).txPid ∧
    (onHandshakeM mps s pid).expectingAck = (onHandshake s pid).expectingAck := by
  unfold onHandshakeM onHandshake
  have h := stdAckM_ctl mps s
  split
  · simp only []
    split <;> split <;> exact h
  · simp

/-- `Inv` only reads the control registers. -/
theorem inv_congr {s s' : DevState} (h1 : s'.sdWait = s.sdWait) (h2 : s'.stage = s.stage) (h3 : s'.tokPid = s.tokPid)
    (h4 : s'.setup = s.setup) (h5 : s'.hstate = s.hstate) (i : Inv s) : Inv s' := by
  constructor
  · intro w; rw [h2]; exact i.wait_stage (h1 ▸ w)
  · intro w; rw [h3]; exact i.wait_pid (h1 ▸ w)
  · intro w; rw [h4]; exact i.data_in (h2 ▸ w)
  · intro w; rw [h4]; exact i.data_out (h2 ▸ w)
  · intro w; rw [h4]; exact i.status_out (h2 ▸ w)
  · intro w; rw [h4]; exact i.status_in (h2 ▸ w)
  · intro w; rw [h4] at w ⊢; rw [h5]; exact i.handler w

theorem inv_coreM (c : DevConfig) (s : DevState) (e : HostEvent) (i : Inv s) : Inv (coreM c s e).1 := by
  cases e with
  | handshake pid =>
    obtain ⟨_, _, h3, _, h5, h6, h7, h8, _, _⟩ := onHandshakeM_ctl c.maxPacket s pid
    exact inv_congr h5 h7 h3 h6 h8 (inv_onHandshake s pid i)
  | _ => exact inv_core c s _ i

theorem inv_stepM (c : DevConfig) (s : DevState) (x : Stim) (i : Inv s) : Inv (stepM c s x).1 :=
  inv_congr (s := (coreM c s x.ev).1) (s' := (stepM c s x).1) rfl rfl rfl rfl rfl (inv_coreM c s x.ev i)

theorem inv_finalM (c : DevConfig) (s : DevState) (h : List Stim) (i : Inv s) : Inv (finalM c s h) := by
  induction h generalizing s with
  | nil => exact i
  | cons x xs ih => exact ih _ (inv_stepM c s x i)

end LunaVerif.Device

namespace LunaVerif.CtrlCyc
open LunaVerif.Device

/-! ### The cycle of the forwarded host ACK, every `max_packet_size` -/

/-- The event-level reaction to a host ACK that is forwarded to the handlers. -/
def ackStateM (mps : Nat) (d : DevState) : DevState := if d.setup.type = TYPE_STANDARD then stdAckM mps d else d

/-- `hs_ack` without `max_packet_size = 64`: the handler's registers after the cycle are those of `stdAckM` with the
handler's own `max_packet_size`. -/
theorem hs_ack_mps (cyc : Cfg) (d : DevState) (h : StdState) (n : HIn) (hr : HRel d h)
    (hc : CalmH d.hstate n) :
    HRel (ackStateM cyc.maxPacket d) (stdStep cyc h (hin d n false false true)).1 ∧
    hResp (muxOut (stdStep cyc h (hin d n false false true)).2 (hin d n false false true)) = .none ∧
    NoFirst (muxOut (stdStep cyc h (hin d n false false true)).2 (hin d n false false true)) ∧
    (let o := muxOut (stdStep cyc h (hin d n false false true)).2 (hin d n false false true)
     (if o.addressChanged then o.newAddress else d.address) = (ackStateM cyc.maxPacket d).address ∧
     (if o.configChanged then o.newConfig else d.config) = (ackStateM cyc.maxPacket d).config) := by
  obtain ⟨h1, h2, h3⟩ := hr
  obtain ⟨hst, sp, tp, ea⟩ := h
  simp only at h1 h2 h3
  subst h1 h2
  unfold ackStateM
  by_cases hty : d.setup.type = TYPE_STANDARD
  · cases hd : d.hstate <;> cases hea : d.expectingAck <;>
      simp_all [stdStep, hin, stdComb, simpleDataOut, regWriteZlp, handleNewSetup, stdStateBody, muxOut, hResp, NoFirst,
        CalmH, stdAckM, toIdle] <;>
      (try constructor) <;> simp_all
  · simp_all [stdStep, hin, muxOut, fallbackOut, hResp, NoFirst]
    constructor <;> simp_all

/-- (K6) a host ACK, every `max_packet_size`. -/
theorem sim_hsAck_mps (c : DevConfig) (d : DevState) (n : CycIn) (hcalm : CalmH d.hstate (noiseH n)) :
    Sim1S (cfgOf c) d (onHandshakeM c.maxPacket d PID_ACK) { envIn d n with hsAck := true } .none := by
  have hnx : ∀ cs : CycState, ctrlNext (cfgOf c) cs.stage { envIn d n with hsAck := true } = cs.stage := by
    intro cs; cases hs : cs.stage <;> simp [ctrlNext, envIn]
  by_cases hfw : d.tokEp = 0 ∧ d.tokPid = PID_IN
  · -- forwarded to the handlers
    have hd : (onHandshakeM c.maxPacket d PID_ACK).stage = d.stage ∧
        (onHandshakeM c.maxPacket d PID_ACK).hstate = (ackStateM c.maxPacket d).hstate ∧
        (onHandshakeM c.maxPacket d PID_ACK).expectingAck = (ackStateM c.maxPacket d).expectingAck ∧
        (onHandshakeM c.maxPacket d PID_ACK).startPos = (ackStateM c.maxPacket d).startPos ∧
        (onHandshakeM c.maxPacket d PID_ACK).txPid = (ackStateM c.maxPacket d).txPid ∧
        (onHandshakeM c.maxPacket d PID_ACK).address = (ackStateM c.maxPacket d).address ∧
        (onHandshakeM c.maxPacket d PID_ACK).config = (ackStateM c.maxPacket d).config := by
      unfold onHandshakeM ackStateM
      by_cases hty : d.setup.type = TYPE_STANDARD
      · simp only [hfw.1, hfw.2, hty, and_self, if_true]
        have hst : (stdAckM c.maxPacket d).stage = d.stage := by
          unfold stdAckM; cases d.hstate <;> simp [toIdle] <;> split <;> rfl
        split <;> simp [hst]
      · simp [hty]
    refine sim1s_core _ d _ _ _ (hin d (noiseH n) false false true) ⟨false, false, true, false⟩ rfl
      (fun cs _ => by simp [ctrlComb, envIn, targeted, cfgOf, hfw.1, hfw.2])
      (fun cs hr => by rw [hnx, hd.1]; exact hr.stage) rfl ?_
    intro hh hr
    obtain ⟨q1, q2, q3, q4, q5⟩ := hs_ack_mps (cfgOf c) d hh (noiseH n) hr hcalm
    exact ⟨q1.congr hd.2.1 hd.2.2.1 hd.2.2.2.1 hd.2.2.2.2.1, by simpa using q2, q3,
      by rw [hd.2.2.2.2.2.1]; exact q4, by rw [hd.2.2.2.2.2.2]; exact q5⟩
  · -- not for this endpoint's IN transaction: invisible
    have hd : onHandshakeM c.maxPacket d PID_ACK = d := by
      unfold onHandshakeM
      rw [if_neg]
      intro g; exact hfw ⟨g.2.1, g.2.2.1⟩
    rw [hd]
    refine sim1s_core _ d d _ _ (hin d (noiseH n) false false false) ⟨false, false, false, false⟩ rfl
      (fun cs _ => ?_) (fun cs hr => by rw [hnx]; exact hr.stage) rfl
      (hfacts_of_quiet (fun hh hr => hs_quiet (cfgOf c) d hh (noiseH n) hr hcalm) rfl rfl)
    simp only [ctrlComb, envIn, targeted, cfgOf]
    by_cases h0 : d.tokEp = 0 <;> by_cases h1 : d.tokPid = PID_IN <;> simp_all

/-! ### The expansion of an event -/

theorem idleS_congr {d d' : DevState} (h1 : d'.tokEp = d.tokEp) (h2 : d'.tokPid = d.tokPid) (h3 : d'.config = d.config)
    (h4 : d'.setup = d.setup) (h5 : d'.hstate = d.hstate) (ns : List CycIn) : idleS d' ns = idleS d ns := by
  unfold idleS
  apply List.map_congr_left
  intro n _
  have hc : calm d' n = calm d n := by unfold calm; rw [h5]
  rw [hc, envIn_congr h1 h2 h3 h4]

/-- `expandS` (Lemmas/C07StreamMain.lean) with the event-level successor taken from `coreM`: the clock cycles the
control endpoint sees for the event `e` received in the event-level state `d`. -/
def expandSM (c : DevConfig) (d : DevState) (e : HostEvent) (g : GapsS) : List CycIn :=
  let d' := (coreM c d e).1
  match e with
  | .token pid addr ep =>
      if addr = d.address then
        let d1 := afterToken d pid ep
        idleS d g.pre ++ ([{ envIn d1 (calm d1 g.n1) with newToken := true }] ++ (idleS d1 g.mid ++
          (readySeg c d1 g ++ idleS d' g.post)))
      else idleS d g.pre ++ idleS d' g.post
  | .data _ p ok =>
      if ok = true then
        if d.sdWait = true ∧ p.length = 8 ∧ d.tokPid = PID_SETUP then
          idleS d g.pre ++ ([{ envIn d (calm d g.n1) with received := true, su := parseSetup p }] ++ (idleS d' g.mid ++
            ([{ envIn d' (calm d' g.n2) with sdAck := true }] ++ (idleS d' g.mid2 ++
              ([{ envIn d' (calm d' g.n3) with rxReady := true }] ++ idleS d' g.post)))))
        else idleS d g.pre ++ ([{ envIn d (calm d g.n1) with rxReady := true }] ++ idleS d' g.post)
      else idleS d g.pre ++ idleS d' g.post
  | .handshake pid =>
      if pid = PID_ACK then idleS d g.pre ++ ([{ envIn d (calm d g.n1) with hsAck := true }] ++ idleS d' g.post)
      else idleS d g.pre ++ idleS d' g.post
  | _ => idleS d g.pre ++ idleS d' g.post

/-- The cycles do not depend on which of the two models provides the successor state (the idle cycles after the
strobes show the token registers, the latched SETUP packet and the configuration, not `start_position`). -/
theorem expandSM_eq (c : DevConfig) (d : DevState) (e : HostEvent) (g : GapsS) : expandSM c d e g = expandS c d e g := by
  cases e with
  | handshake pid =>
    obtain ⟨_, h2, h3, h4, _, h6, _, h8, _, _⟩ := onHandshakeM_ctl c.maxPacket d pid
    have : idleS (onHandshakeM c.maxPacket d pid) g.post = idleS (onHandshake d pid) g.post :=
      idleS_congr h4 h3 h2 h6 h8 _
    simp only [expandSM, expandS, coreM, core, this]
  | _ => rfl

/-! ### One event -/

/-- **`cycle_refines_event`, every handler state, every `max_packet_size`.**  As `cycle_refines_event_streams`, with
the event-level model `coreM` (host ACK of a GET_DESCRIPTOR data packet: `start_position += c.maxPacket`) and the
cycle-level model configured with the same `max_packet_size` (`cfgOf c`); no hypothesis on `c.maxPacket`. -/
theorem cycle_refines_event_streams_mps (c : DevConfig) (hx : c.extra = []) (d : DevState)
    (e : HostEvent) (g : GapsS) (hinv : Inv d) (hcfg : d.config < 256) (hfit : StreamFits c d e g = true)
    (hrst : e ≠ .busReset) :
    SimS (cfgOf c) d (coreM c d e).1 (expandSM c d e g) (coreM c d e).2 := by
  rw [expandSM_eq]
  by_cases hack : e = .handshake PID_ACK
  · subst hack
    have hcore : coreM c d (.handshake PID_ACK) = (onHandshakeM c.maxPacket d PID_ACK, .none) := rfl
    have hpost : idleS (onHandshake d PID_ACK) g.post = idleS (onHandshakeM c.maxPacket d PID_ACK) g.post := by
      obtain ⟨_, h2, h3, h4, _, h6, _, h8, _, _⟩ := onHandshakeM_ctl c.maxPacket d PID_ACK
      exact (idleS_congr h4 h3 h2 h6 h8 _).symm
    simp only [expandS, if_true, core, hpost]
    rw [hcore]
    exact (sim_idleS c d g.pre).none_append
      ((SimS.single (sim_hsAck_mps c d (calm d g.n1) (calmH_calm _ _))).none_append (sim_idleS c _ g.post))
  · have hcm : coreM c d e = core c d e := by
      cases e with
      | handshake pid =>
        have hp : pid ≠ PID_ACK := fun h => hack (by rw [h])
        simp [coreM, core, onHandshakeM, onHandshake, hp]
      | _ => rfl
    rw [hcm]
    exact cycle_refines_event_streams_gen c hx d e (fun h => absurd h hack) g hinv hcfg hfit hrst

/-- The cycles of an event, annotated with `bus_reset` (`expandR` over `expandSM`). -/
def expandRM (c : DevConfig) (d : DevState) (e : HostEvent) (g : GapsS) : List (Bool × CycIn) :=
  match e with
  | .busReset =>
      noRst (idleS d g.pre) ++ ((true, envIn d (calm d g.n1)) ::
        ((idleS { d with address := 0, config := 0 } g.mid).map (fun i => (true, i)) ++
          noRst (idleS { d with address := 0, config := 0 } g.post)))
  | _ => noRst (expandSM c d e g)

theorem expandRM_eq (c : DevConfig) (d : DevState) (e : HostEvent) (g : GapsS) : expandRM c d e g = expandR c d e g := by
  cases e <;> simp only [expandRM, expandR, expandSM_eq]

/-- **Every event (bus reset included), every `max_packet_size`.** -/
theorem cycle_refines_event_all_mps (c : DevConfig) (hx : c.extra = []) (d : DevState)
    (e : HostEvent) (g : GapsS) (hinv : Inv d) (hcfg : d.config < 256) (hfit : StreamFits c d e g = true) :
    SimRO (cfgOf c) d (coreM c d e).1 (expandRM c d e g) .idle (obsOf (coreM c d e).2) := by
  by_cases hrst : e = .busReset
  · subst hrst
    have hcore : coreM c d .busReset = ({ d with address := 0, config := 0 }, .none) := rfl
    rw [hcore]
    simp only [expandRM]
    have h1 := (sim_idleS c d g.pre).simRO
    have h2 := sim_reset_cycle c d g.n1
    have h3 := sim_reset_cycles c { d with address := 0, config := 0 } rfl rfl g.mid
    have h4 := (sim_idleS c { d with address := 0, config := 0 } g.post).simRO
    exact h1.append (SimRO.append (a := [_]) h2 (h3.append h4))
  · have h := (cycle_refines_event_streams_mps c hx d e g hinv hcfg hfit hrst).simRO
    cases e <;> first | exact absurd rfl hrst | exact h

/-! ### Histories -/

theorem config_lt_coreM (c : DevConfig) (d : DevState) (e : HostEvent) (h : d.config < 256) :
    (coreM c d e).1.config < 256 := by
  cases e with
  | handshake pid =>
    have h1 := config_lt_core c d (.handshake pid) h
    have h2 := (onHandshakeM_ctl c.maxPacket d pid).2.1
    simp only [coreM, core] at h1 ⊢
    rw [h2]; exact h1
  | _ => exact config_lt_core c d _ h

theorem config_lt_stepM (c : DevConfig) (d : DevState) (x : Stim) (h : d.config < 256) :
    (stepM c d x).1.config < 256 := config_lt_coreM c d x.ev h

/-- The cycles of a whole history (every event with its own idle-cycle counts, free inputs, stream window). -/
def expandAllRM (c : DevConfig) : DevState → List (Stim × GapsS) → List (Bool × CycIn)
  | _, [] => []
  | d, (x, g) :: rest => expandRM c d x.ev g ++ expandAllRM c (stepM c d x).1 rest

/-- The cycle-level bus responses, event by event. -/
def busRespsM (c : DevConfig) : DevState → CycState → List (Stim × GapsS) → List Resp
  | _, _, [] => []
  | d, cs, (x, g) :: rest =>
      busResp (cfgOf c) cs ((expandRM c d x.ev g).map (·.2)) ::
        busRespsM c (stepM c d x).1 (final (cfgOf c) cs ((expandRM c d x.ev g).map (·.2))) rest

/-- The control endpoint's own responses along an event history (`coreResps` over `coreM` / `stepM`). -/
def coreRespsM (c : DevConfig) : DevState → List Stim → List Resp
  | _, [] => []
  | d, x :: xs => (coreM c d x.ev).2 :: coreRespsM c (stepM c d x).1 xs

/-- Every stream window of the history is long enough (`StreamFits`, event by event). -/
def FitsFromM (c : DevConfig) : DevState → List (Stim × GapsS) → Bool
  | _, [] => true
  | d, (x, g) :: rest => StreamFits c d x.ev g && FitsFromM c (stepM c d x).1 rest

theorem cycle_refines_step_all_mps (c : DevConfig) (hx : c.extra = []) (d : DevState)
    (x : Stim) (g : GapsS) (hinv : Inv d) (hcfg : d.config < 256) (hfit : StreamFits c d x.ev g = true) :
    SimRO (cfgOf c) d (stepM c d x).1 (expandRM c d x.ev g) .idle (obsOf (coreM c d x.ev).2) := by
  have h1 := cycle_refines_event_all_mps c hx d x.ev g hinv hcfg hfit
  have h2 : SimRO (cfgOf c) (coreM c d x.ev).1 (stepM c d x).1 [] (obsOf (coreM c d x.ev).2)
      (obsOf (coreM c d x.ev).2) := by
    intro cs hr
    exact ⟨⟨hr.stage, hr.h.congr rfl rfl rfl rfl⟩, rfl, rfl⟩
  simpa using h1.append h2

/-- **`cycle_refines_event`, histories, EVERY `max_packet_size`.**  For every device configuration `c` without
additional request handlers -- in particular for each legal control max packet size 8, 16, 32, 64 -- and along EVERY
event history (standard requests of all kinds incl. GET_DESCRIPTOR data stages of any number of packets, each host ACK
of a data packet advancing `start_position` by `c.maxPacket` and toggling the data PID, the descriptor handler's
answer at that position -- `descriptorPacket`: at most `c.maxPacket` bytes, the zero-length packet when the position
has reached the descriptor's end before `wLength` --, bus resets, arbitrary foreign traffic), with arbitrary idle-cycle
counts, free inputs, streamer latencies and `tx.ready` patterns per event such that every started streamer finishes
within its event's window: the cycle-level composition configured with `max_packet_size = c.maxPacket`, run over the
concatenated expansions from any state related to the event-level start state, ends related to the event-level final
state (`start_position`, `tx_data_pid`, `expecting_ack` included), the bus carries for every event exactly the
event-level response, and device.py's address / configuration registers end with the event-level values. -/
theorem cycle_refines_event_streams_run_mps (c : DevConfig) (hx : c.extra = [])
    (h : List (Stim × GapsS)) (d : DevState) (hinv : Inv d) (hcfg : d.config < 256) (hfit : FitsFromM c d h = true)
    (cs : CycState) (hr : Rel d cs) :
    Rel (finalM c d (h.map (·.1))) (final (cfgOf c) cs ((expandAllRM c d h).map (·.2))) ∧
    busRespsM c d cs h = coreRespsM c d (h.map (·.1)) ∧
    regsAfterR (d.address, d.config) (outsR (cfgOf c) cs (expandAllRM c d h)) =
      ((finalM c d (h.map (·.1))).address, (finalM c d (h.map (·.1))).config) := by
  induction h generalizing d cs with
  | nil => exact ⟨hr, rfl, rfl⟩
  | cons xg rest ih =>
    obtain ⟨x, g⟩ := xg
    simp only [FitsFromM, Bool.and_eq_true] at hfit
    obtain ⟨a1, a2, a3⟩ := cycle_refines_step_all_mps c hx d x g hinv hcfg hfit.1 cs hr
    obtain ⟨b1, b2, b3⟩ := ih (stepM c d x).1 (inv_stepM c d x hinv) (config_lt_stepM c d x hcfg) hfit.2 _ a1
    refine ⟨?_, ?_, ?_⟩
    · simp only [List.map_cons, finalM, expandAllRM, List.map_append]
      rw [final_append]; exact b1
    · simp only [List.map_cons, busRespsM, coreRespsM, b2]
      congr 1
      unfold busResp
      rw [a2, obsOf_resp]
    · simp only [List.map_cons, finalM, expandAllRM]
      rw [outsR_append, regsAfterR_append, a3, b3]

theorem cycle_refines_event_streams_from_reset_mps (c : DevConfig) (hx : c.extra = [])
    (h : List (Stim × GapsS)) (hfit : FitsFromM c Device.init h = true) :
    Rel (finalM c Device.init (h.map (·.1)))
      (final (cfgOf c) CtrlCyc.init ((expandAllRM c Device.init h).map (·.2))) ∧
    busRespsM c Device.init CtrlCyc.init h = coreRespsM c Device.init (h.map (·.1)) ∧
    regsAfterR (0, 0) (outsR (cfgOf c) CtrlCyc.init (expandAllRM c Device.init h)) =
      ((finalM c Device.init (h.map (·.1))).address, (finalM c Device.init (h.map (·.1))).config) :=
  cycle_refines_event_streams_run_mps c hx h Device.init inv_init (by decide) hfit CtrlCyc.init rel_init

/-! ### The instance `max_packet_size = 64` is the theorem of Lemmas/C07StreamRun.lean -/

theorem expandAllRM_64 (c : DevConfig) (hmp : c.maxPacket = 64) (d : DevState) (h : List (Stim × GapsS)) :
    expandAllRM c d h = expandAllR c d h := by
  induction h generalizing d with
  | nil => rfl
  | cons xg rest ih =>
    obtain ⟨x, g⟩ := xg
    simp only [expandAllRM, expandAllR, expandRM_eq, stepM_eq_step c hmp, ih]

theorem busRespsM_64 (c : DevConfig) (hmp : c.maxPacket = 64) (d : DevState) (cs : CycState) (h : List (Stim × GapsS)) :
    busRespsM c d cs h = busResps c d cs h := by
  induction h generalizing d cs with
  | nil => rfl
  | cons xg rest ih =>
    obtain ⟨x, g⟩ := xg
    simp only [busRespsM, busResps, expandRM_eq, stepM_eq_step c hmp, ih]

theorem coreRespsM_64 (c : DevConfig) (hmp : c.maxPacket = 64) (d : DevState) (h : List Stim) :
    coreRespsM c d h = coreResps c d h := by
  induction h generalizing d with
  | nil => rfl
  | cons x xs ih => simp only [coreRespsM, coreResps, coreM_eq_core c hmp, stepM_eq_step c hmp, ih]

theorem FitsFromM_64 (c : DevConfig) (hmp : c.maxPacket = 64) (d : DevState) (h : List (Stim × GapsS)) :
    FitsFromM c d h = FitsFrom c d h := by
  induction h generalizing d with
  | nil => rfl
  | cons xg rest ih =>
    obtain ⟨x, g⟩ := xg
    simp only [FitsFromM, FitsFrom, stepM_eq_step c hmp, ih]

/-- `cycle_refines_event_streams_run` (Lemmas/C07StreamRun.lean) re-derived as the instance `max_packet_size = 64`. -/
theorem cycle_refines_event_streams_run_of_mps (c : DevConfig) (hx : c.extra = []) (hmp : c.maxPacket = 64)
    (h : List (Stim × GapsS)) (d : DevState) (hinv : Inv d) (hcfg : d.config < 256) (hfit : FitsFrom c d h = true)
    (cs : CycState) (hr : Rel d cs) :
    Rel (Device.final c d (h.map (·.1))) (final (cfgOf c) cs ((expandAllR c d h).map (·.2))) ∧
    busResps c d cs h = coreResps c d (h.map (·.1)) ∧
    regsAfterR (d.address, d.config) (outsR (cfgOf c) cs (expandAllR c d h)) =
      ((Device.final c d (h.map (·.1))).address, (Device.final c d (h.map (·.1))).config) := by
  have := cycle_refines_event_streams_run_mps c hx h d hinv hcfg (by rw [FitsFromM_64 c hmp]; exact hfit) cs hr
  rwa [expandAllRM_64 c hmp, busRespsM_64 c hmp, coreRespsM_64 c hmp, finalM_eq_final c hmp] at this

end LunaVerif.CtrlCyc
