import LunaVerif.Lemmas.C36RoundTrip
/-!
# C36 — `rx_of_tx` with invalid words interleaved (data receiver)

A stalling PHY on a ready-gated channel shows the receivers `sink.valid = 0` words between the words of
the frame.  Here: for every word history whose VALID words are `frame hdr payload` — invalid words
(whatever their data) anywhere, any number — the data receiver, from reset, behaves as for the bare
frame.  (For the header receiver the same is C37's `RawRx.frame_received`.)

Two generic facts about the receiver model: `run_exact_stutter` (if every state on the valid-only path
treats an invalid word as an exact stutter, the invalid words can be removed) for the header phase, and
`run_dpp_gaps` (inside a payload and after it, as long as no header start arrives) for the rest.
-/
namespace LunaVerif.RoundTrip

open LunaVerif.RawPacketTransmitter (Header frame dppFrame dppTail closing specDw3 headerFrame le4
  sinkWords dppSyms pack)
open LunaVerif.DataPacketReceiver (State In Out step run final quiet validOnly allLaneBytes countVerdicts
  laneBytes verdict inDpp init)

/-- What is compared between a history and its valid words. -/
structure Obs where
  bytes    : List Nat
  verdicts : Nat
  bads     : Nat
  fsm      : DataPacketReceiver.Fsm
  outHdr   : DataPacketReceiver.Hdr
deriving DecidableEq

def countBad : List Out → Nat
  | [] => 0
  | o :: os => DataPacketReceiver.b2n o.bad + countBad os

def obs (s : State) (h : List In) : Obs :=
  ⟨allLaneBytes (run s h), countVerdicts (run s h), countBad (run s h), (final s h).fsm, (final s h).outHdr⟩

/-- an invalid word is an exact stutter in this state -/
def Stutters (s : State) : Prop := ∀ d c, (step s ⟨false, d, c⟩).1 = s ∧
  laneBytes (step s ⟨false, d, c⟩).2 = [] ∧ (step s ⟨false, d, c⟩).2.good = false ∧ (step s ⟨false, d, c⟩).2.bad = false

theorem obs_cons_inert (s : State) (i : In) (h : List In) (h1 : laneBytes (step s i).2 = [])
    (h2 : (step s i).2.good = false) (h3 : (step s i).2.bad = false) :
    obs s (i :: h) = obs (step s i).1 h := by
  simp [obs, run, final, allLaneBytes, countVerdicts, countBad, h1, h2, h3, verdict, DataPacketReceiver.b2n]

theorem quiet_inert (s : State) : laneBytes (quiet s) = [] ∧ (quiet s).good = false ∧ (quiet s).bad = false := by
  simp [quiet, laneBytes, DataPacketReceiver.wordBytes]

/-- If every state on the valid-only path stutters exactly on invalid words, these can be removed. -/
theorem run_exact_stutter (h : List In) (s : State)
    (hp : ∀ k, k ≤ (validOnly h).length → Stutters (final s ((validOnly h).take k))) :
    obs s h = obs s (validOnly h) ∧ final s h = final s (validOnly h) := by
  induction h generalizing s with
  | nil => exact ⟨rfl, rfl⟩
  | cons i is ih =>
    obtain ⟨v, d, c⟩ := i
    cases v
    · have hv : validOnly (⟨false, d, c⟩ :: is) = validOnly is := by simp [validOnly]
      rw [hv] at hp ⊢
      have hst : Stutters s := by
        have := hp 0 (Nat.zero_le _)
        simpa [final] using this
      obtain ⟨hs, q1, q2, q3⟩ := hst d c
      have e1 := obs_cons_inert s ⟨false, d, c⟩ is q1 q2 q3
      rw [hs] at e1
      obtain ⟨r1, r2⟩ := ih s hp
      exact ⟨by rw [e1, r1], by simp only [final, hs]; exact r2⟩
    · have hv : validOnly (⟨true, d, c⟩ :: is) = ⟨true, d, c⟩ :: validOnly is := by simp [validOnly]
      rw [hv] at hp ⊢
      have hp' : ∀ k, k ≤ (validOnly is).length →
          Stutters (final (step s ⟨true, d, c⟩).1 ((validOnly is).take k)) := by
        intro k hk
        have := hp (k + 1) (by simp; omega)
        simpa [final] using this
      obtain ⟨r1, r2⟩ := ih (step s ⟨true, d, c⟩).1 hp'
      refine ⟨?_, by simp only [final]; exact r2⟩
      simp only [obs, run, final, allLaneBytes, countVerdicts, countBad] at r1 ⊢
      simp only [Obs.mk.injEq] at r1 ⊢
      obtain ⟨a1, a2, a3, a4, a5⟩ := r1
      exact ⟨by rw [a1], by rw [a2], by rw [a3], a4, a5⟩

/-! ## inside and after a payload -/

/-- RECEIVE_PAYLOAD, CHECK_CRC32 or WAIT_FOR_HPSTART -/
def Late (s : State) : Prop := s.fsm = .payload ∨ s.fsm = .checkCrc ∨ s.fsm = .waitHp

def isHp (i : In) : Bool := i.valid && i.data % 2 ^ 32 == DataPacketReceiver.HPSTART && i.ctrl % 16 == 0xF

theorem late_step (s : State) (hs : Late s) (i : In) (hi : isHp i = false) : Late (step s i).1 := by
  obtain ⟨f, hh, e, r, pw, pv, c16, c32, oh, nh, fi⟩ := s
  obtain ⟨v, d, c⟩ := i
  simp only [Late] at hs
  rcases hs with h | h | h <;> subst h <;> cases v <;> simp only [step, Late]
  all_goals (repeat' split) <;> simp_all [isHp]

/-- in WAIT_FOR_HPSTART the contents of the CRC units do not matter -/
theorem wait_crc_irrelevant (s : State) (hs : s.fsm = .waitHp) (a b : List Nat) (l : List In) :
    obs { s with crc16In := a, crc32In := b } l = obs s l := by
  obtain ⟨f, hh, e, r, pw, pv, c16, c32, oh, nh, fi⟩ := s
  simp only at hs; subst hs
  cases l with
  | nil => simp [obs, run, final]
  | cons i is => simp [obs, run, final, step, quiet]

/-- Inside a payload and after it, as long as no header start arrives, invalid words can be removed. -/
theorem run_dpp_gaps (h : List In) (s : State) (hs : Late s) (hh : ∀ i ∈ h, isHp i = false) :
    obs s h = obs s (validOnly h) := by
  induction h generalizing s with
  | nil => rfl
  | cons i is ih =>
    have hi := hh i (by simp)
    have his : ∀ j ∈ is, isHp j = false := fun j hj => hh j (List.mem_cons_of_mem _ hj)
    obtain ⟨v, d, c⟩ := i
    cases v
    · have hv : validOnly (⟨false, d, c⟩ :: is) = validOnly is := by simp [validOnly]
      rw [hv]
      rcases hs with hf | hf | hf
      · obtain ⟨e1, e2, e3, e4⟩ := DataPacketReceiver.invalid_word_stutters s (by simp [inDpp, hf]) d c
        rw [obs_cons_inert s _ is e2 e3 e4, e1]
        exact ih s (Or.inl hf) his
      · obtain ⟨e1, e2, e3, e4⟩ := DataPacketReceiver.invalid_word_stutters s (by simp [inDpp, hf]) d c
        rw [obs_cons_inert s _ is e2 e3 e4, e1]
        exact ih s (Or.inr (Or.inl hf)) his
      · have hst : step s ⟨false, d, c⟩ = ({ s with crc16In := [], crc32In := [] }, quiet s) := by
          obtain ⟨f, hh', e, r, pw, pv, c16, c32, oh, nh, fi⟩ := s
          simp only at hf; subst hf
          simp [step]
        obtain ⟨q1, q2, q3⟩ := quiet_inert s
        rw [obs_cons_inert s _ is (by rw [hst]; exact q1) (by rw [hst]; exact q2) (by rw [hst]; exact q3), hst]
        have hl : Late { s with crc16In := [], crc32In := [] } := Or.inr (Or.inr hf)
        rw [ih _ hl his, wait_crc_irrelevant s hf]
    · have hv : validOnly (⟨true, d, c⟩ :: is) = ⟨true, d, c⟩ :: validOnly is := by simp [validOnly]
      rw [hv]
      have := ih (step s ⟨true, d, c⟩).1 (late_step s hs _ hi) his
      simp only [obs, run, final, allLaneBytes, countVerdicts, countBad, Obs.mk.injEq] at this ⊢
      obtain ⟨a1, a2, a3, a4, a5⟩ := this
      exact ⟨by rw [a1], by rw [a2], by rw [a3], a4, a5⟩

/-! ## the frame with gaps -/

theorem obs_append (s : State) (a b : List In) :
    obs s (a ++ b) = ⟨(obs s a).bytes ++ (obs (final s a) b).bytes, (obs s a).verdicts + (obs (final s a) b).verdicts,
      (obs s a).bads + (obs (final s a) b).bads, (obs (final s a) b).fsm, (obs (final s a) b).outHdr⟩ := by
  induction a generalizing s with
  | nil => simp [obs, run, final, allLaneBytes, countVerdicts, countBad]
  | cons i is ih =>
    have := ih (step s i).1
    simp only [obs, Obs.mk.injEq] at this ⊢
    obtain ⟨a1, a2, a3, a4, a5⟩ := this
    simp only [List.cons_append, run, final, allLaneBytes, countVerdicts, countBad]
    exact ⟨by rw [a1, List.append_assoc], by rw [a2]; omega, by rw [a3]; omega, a4, a5⟩

theorem countBad_zero (outs : List Out) (h : ∀ o ∈ outs, o.bad = false) : countBad outs = 0 := by
  induction outs with
  | nil => rfl
  | cons o os ih =>
    simp [countBad, h o (by simp), DataPacketReceiver.b2n, ih (fun x hx => h x (List.mem_cons_of_mem _ hx))]

theorem bad_of_countBad_zero (outs : List Out) (h : countBad outs = 0) : ∀ o ∈ outs, o.bad = false := by
  induction outs with
  | nil => simp
  | cons o os ih =>
    simp only [countBad] at h
    intro x hx
    rcases List.mem_cons.mp hx with e | e
    · subst e
      cases hb : x.bad
      · rfl
      · simp [hb, DataPacketReceiver.b2n] at h
    · exact ih (by omega) x e

/-- words of the data packet part never look like a header start (data receiver's test) -/
theorem dppTail_no_hp (acc rest : List Nat) : ∀ w ∈ dppTail acc rest, isHp (rxIn w) = false := by
  fun_induction dppTail acc rest with
  | case1 => simp
  | case2 acc a =>
    intro w hw
    simp only [closing, List.mem_cons, List.not_mem_nil, or_false] at hw
    rcases hw with h | h | h <;> subst h <;>
      simp [isHp, rxIn, RawPacketTransmitter.crcWord, RawPacketTransmitter.finishWord]
  | case3 acc a b =>
    intro w hw
    simp only [closing, List.mem_cons, List.not_mem_nil, or_false] at hw
    rcases hw with h | h | h <;> subst h <;>
      simp [isHp, rxIn, RawPacketTransmitter.crcWord, RawPacketTransmitter.finishWord]
  | case4 acc a b c =>
    intro w hw
    simp only [closing, List.mem_cons, List.not_mem_nil, or_false] at hw
    rcases hw with h | h | h <;> subst h <;>
      simp [isHp, rxIn, RawPacketTransmitter.crcWord, RawPacketTransmitter.finishWord]
  | case5 acc a b c d =>
    intro w hw
    simp only [closing, List.mem_cons, List.not_mem_nil, or_false] at hw
    rcases hw with h | h | h <;> subst h <;>
      simp [isHp, rxIn, RawPacketTransmitter.crcWord, RawPacketTransmitter.finishWord,
        RawPacketTransmitter.DPPEND, DataPacketReceiver.HPSTART]
  | case6 acc a b c d e rest ih =>
    intro w hw
    rcases List.mem_cons.mp hw with h | h
    · subst h; simp [isHp, rxIn]
    · exact ih w h

theorem payload_part_no_hp (payload : List Nat) (hb : ∀ x ∈ payload, x < 256) :
    ∀ w ∈ pack (dppSyms payload), isHp (rxIn w) = false := by
  intro w hw
  by_cases hemp : payload = []
  · subst hemp
    rw [RawPacketTransmitter.pack_dppSyms_nil] at hw
    simp only [List.mem_cons, List.not_mem_nil, or_false] at hw
    rcases hw with h1 | h1 <;> subst h1 <;>
      simp [isHp, rxIn, RawPacketTransmitter.DPPEND, DataPacketReceiver.HPSTART]
  · have hp : pack (dppSyms payload) = dppTail [] payload := by
      rw [RawPacketTransmitter.dppTail_eq_pack [] payload hemp hb]; rfl
    rw [hp] at hw
    exact dppTail_no_hp [] payload w hw

/-- every state of the data receiver on the way through HPSTART, DWORD 0..3 (valid CRCs) and DPPSTART
treats an invalid word as an exact stutter -/
theorem hdr_path_stutters (h : Header) (hw : h.wf) (hty : h.dw0 % 32 = 8) :
    ∀ k, k ≤ (hdrIns h).length → Stutters (final init ((hdrIns h).take k)) := by
  obtain ⟨w0, w1, w2, w3⟩ := hw
  obtain ⟨f0, f1, f2, f3, _, _⟩ := dw3_fields h w3
  have m0 : h.dw0 % 2 ^ 32 = h.dw0 := Nat.mod_eq_of_lt w0
  have m1 : h.dw1 % 2 ^ 32 = h.dw1 := Nat.mod_eq_of_lt w1
  have m2 : h.dw2 % 2 ^ 32 = h.dw2 := Nat.mod_eq_of_lt w2
  have m3 : dw3Of h % 2 ^ 32 = dw3Of h := Nat.mod_eq_of_lt f0
  have e16 : DataPacketReceiver.crc16Of [h.dw0, h.dw1, h.dw2] = RawPacketTransmitter.crc16Of [h.dw0, h.dw1, h.dw2] := rfl
  have e5 : ∀ x, DataPacketReceiver.crc5Of x = RawPacketTransmitter.crc5Of x := fun _ => rfl
  have t0 : (h.dw0 % 32 != DataPacketReceiver.TYPE_DATA) = false := by simp [hty, DataPacketReceiver.TYPE_DATA]
  have hd3 : specDw3 h.dw0 h.dw1 h.dw2 h.lcw = dw3Of h := rfl
  have hl : (hdrIns h).length = 6 := by simp [hdrIns, rxIns, headerFrame]
  intro k hk
  rw [hl] at hk
  by_cases h6 : k = 6
  · subst h6
    have ht : (hdrIns h).take 6 = hdrIns h := List.take_of_length_le (by rw [hl]; exact Nat.le_refl _)
    rw [ht, (dpr_header h ⟨w0, w1, w2, w3⟩ hty).1]
    intro d c
    have hin : inDpp (afterDppStart h) = true := by
      simp only [afterDppStart, inDpp]; split <;> simp_all
    exact DataPacketReceiver.invalid_word_stutters (afterDppStart h) hin d c
  have hk' : k = 0 ∨ k = 1 ∨ k = 2 ∨ k = 3 ∨ k = 4 ∨ k = 5 := by omega
  intro d c
  rcases hk' with e | e | e | e | e | e <;> subst e <;>
    simp only [hdrIns, rxIns, rxIn, headerFrame, List.map_cons, List.map_nil, List.cons_append, List.nil_append,
      List.take_succ_cons, List.take_zero, final, init, hd3] <;>
    simp [step, DataPacketReceiver.HPSTART, RawPacketTransmitter.HPSTART,
      DataPacketReceiver.DPPSTART, m0, m1, m2, m3, t0, f1, f2, f3, e16, e5, quiet, laneBytes,
      DataPacketReceiver.wordBytes]

/-- **C36 `rx_of_tx`, data receiver, with invalid words anywhere.**  For every DATA header (not delayed,
well-formed) and payload of the announced length, and EVERY word history `h` whose valid words are
exactly `frame hdr payload` — invalid words of any content interleaved anywhere, in any number (what a
stalling PHY produces on the ready-gated channel): from reset the data receiver delivers exactly the
payload bytes, raises exactly one verdict, never `packet_bad`, publishes the header sent and is back in
WAIT_FOR_HPSTART. -/
theorem rx_of_tx_gaps (hdr : Header) (payload : List Nat) (hw : hdr.wf) (hb : ∀ x ∈ payload, x < 256)
    (hty : hdr.dw0 % 32 = 8) (hnd : hdr.lcw / 2 ^ 9 % 2 = 0)
    (hlen : payload.length = hdr.dw1 / 2 ^ 16 % 2 ^ 11)
    (h : List In) (hv : validOnly h = rxIns (frame hdr payload)) :
    allLaneBytes (run init h) = payload ∧ countVerdicts (run init h) = 1 ∧
    (∀ o ∈ run init h, o.bad = false) ∧ (final init h).outHdr = dprHdr hdr ∧
    (final init h).fsm = .waitHp := by
  have hdat : hdr.isData = true := by simp [Header.isData]; omega
  have hdel : hdr.delayed = false := by simp [Header.delayed]; omega
  have hI : rxIns (frame hdr payload) = hdrIns hdr ++ rxIns (pack (dppSyms payload)) := by
    have : frame hdr payload = (headerFrame hdr.dw0 hdr.dw1 hdr.dw2 hdr.lcw ++
        [(RawPacketTransmitter.DPPSTART, 0xF)]) ++ pack (dppSyms payload) := by
      simp [frame, hdat, hdel]
    rw [this, rxIns_append]; rfl
  rw [hI] at hv
  obtain ⟨h1, h2, rfl, hv1, hv2⟩ := List.filter_eq_append_iff.mp hv
  -- header phase
  have hp1 : ∀ k, k ≤ (validOnly h1).length → Stutters (final init ((validOnly h1).take k)) := by
    have e : validOnly h1 = hdrIns hdr := hv1
    rw [e]; exact hdr_path_stutters hdr hw hty
  obtain ⟨o1, f1⟩ := run_exact_stutter h1 init hp1
  have e1 : validOnly h1 = hdrIns hdr := hv1
  obtain ⟨a1, a2, a3, a4⟩ := dpr_header hdr hw hty
  rw [e1] at o1 f1
  rw [a1] at f1
  -- payload phase
  have hlate : Late (afterDppStart hdr) := by
    simp only [Late, afterDppStart]; split <;> simp
  have e2 : validOnly h2 = rxIns (pack (dppSyms payload)) := hv2
  have hnohp : ∀ i ∈ h2, isHp i = false := by
    intro i hi
    cases hval : i.valid
    · simp [isHp, hval]
    · have : i ∈ validOnly h2 := by simp [validOnly, hi, hval]
      rw [e2] at this
      simp only [rxIns, List.mem_map] at this
      obtain ⟨w, hw', rfl⟩ := this
      exact payload_part_no_hp payload hb w hw'
  have o2 := run_dpp_gaps h2 (afterDppStart hdr) hlate hnohp
  rw [e2] at o2
  obtain ⟨d1, d2, d3, d4, d5⟩ := delivers_payload_part hdr payload hb hlen
  have hall := obs_append init h1 h2
  rw [f1, o1, o2] at hall
  simp only [obs, Obs.mk.injEq] at hall
  obtain ⟨b1, b2, b3, b4, b5⟩ := hall
  rw [a2, d1] at b1
  rw [a3, d2] at b2
  rw [countBad_zero _ a4, countBad_zero _ d3] at b3
  refine ⟨by simpa using b1, by simpa using b2, bad_of_countBad_zero _ (by simpa using b3), ?_, ?_⟩
  · rw [b5, d5]; rfl
  · rw [b4, d4]

-- non-vacuity of `hv`: any frame with invalid words (of any content) before, after and inside
example (f g : List (Nat × Nat)) :
    validOnly (⟨false, 7, 7⟩ :: (rxIns f ++ ⟨false, 0xF7FBFBFB, 15⟩ :: (rxIns g ++ [⟨false, 1, 2⟩]))) = rxIns (f ++ g) := by
  have hf : ∀ l : List (Nat × Nat), (List.map rxIn l).filter (fun x => x.valid) = List.map rxIn l := by
    intro l; induction l with
    | nil => rfl
    | cons w ws ih => simp [rxIn, ih]
  simp [validOnly, rxIns, List.filter_append, hf]

end LunaVerif.RoundTrip
