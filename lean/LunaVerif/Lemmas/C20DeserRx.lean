import LunaVerif.Model.Usb2.SetupDecoder
import LunaVerif.Model.Usb2.DataReceiver
/-!
# C20 — the setup decoder's deserializer and the device's data receiver parse the same packet in lock-step

`USBDataPacketDeserializer` (request.py, inside `USBSetupDecoder`) and `USBDataPacketReceiver` (packet.py, inside
`USBDevice`) both listen to the same UTMI receive bytes and both read the SHARED CRC16 unit.  `DR` relates their
registers: the FSM states correspond, and from the second payload byte on the deserializer's `last_word` /
`last_word_crc` / `last_byte_crc` equal the receiver's `data_pipeline` / `last_word_crc` / `last_byte_crc`, so that the two
CRC16 checks made when `rx_active` falls (`last_word_crc == last_word` there, `last_word_crc == data_pipeline` here)
decide the same.  `dr_step`: the relation is kept by one cycle (both modules see the same `RxCycle` and the same CRC
output; the bytes are 8 bits wide; nothing is received while the receiver sits in its inter-packet DELAY).
`dr_new8`: a `new_packet` strobe of the deserializer with `length = 8` (the only one the setup decoder accepts) comes
exactly when the receiver accepts the packet too (`timer.start`, next state DELAY).
-/
namespace LunaVerif.DeserRx
open LunaVerif LunaVerif.Utmi
open LunaVerif.SetupDecoder (Deser deserStep)

theorem isDataPid_eq (b : Nat) : SetupDecoder.isDataPid b = DataReceiver.isDataPid b := rfl

/-- The joint relation between the deserializer's and the receiver's registers. -/
def DR (d : Deser) (r : DataReceiver.State) : Prop :=
  match d.fsm with
  | .idle => r.fsm = .idle ∨ r.fsm = .delay
  | .readPid => r.fsm = .readPid
  | .capture =>
      (d.position = 0 ∧ r.fsm = .first) ∨
      (d.position = 1 ∧ r.fsm = .second ∧ d.lastByteCrc = r.lastByteCrc ∧ d.lastWord / 256 % 256 = r.pipeHi ∧
        r.pipeHi < 256) ∨
      (2 ≤ d.position ∧ d.position ≤ 10 ∧ r.fsm = .emit ∧ d.lastByteCrc = r.lastByteCrc ∧
        d.lastWordCrc = r.lastWordCrc ∧ d.lastWord = r.pipeLo + 256 * r.pipeHi ∧ r.pipeLo < 256 ∧ r.pipeHi < 256)
  | .irrelevant => r.fsm = .irrelevant ∨ r.fsm = .emit

theorem dr_init : DR SetupDecoder.init.ds DataReceiver.init := by
  simp [DR, SetupDecoder.init, DataReceiver.init]

/-- One cycle keeps the relation. -/
theorem dr_step (cfg : DataReceiver.Config) (d : Deser) (r : DataReceiver.State) (i : RxCycle)
    (h : DR d r) (hd : r.fsm = .delay → i.active = false) (hv : i.valid = true → i.active = true)
    (hb : i.data < 256) :
    DR (deserStep d (DataCrc.output r.crc) i) (DataReceiver.fsmStep cfg r i).1 := by
  have hm : i.data % 256 = i.data := Nat.mod_eq_of_lt hb
  cases hf : d.fsm with
  | idle =>
    simp only [DR, hf] at h
    rcases h with h | h
    · cases ha : i.active <;> simp [DR, deserStep, DataReceiver.fsmStep, hf, h, ha]
    · have ha := hd h
      by_cases hc : r.counter = cfg.delay <;> simp [DR, deserStep, DataReceiver.fsmStep, hf, h, ha, hc]
  | readPid =>
    simp only [DR, hf] at h
    cases ha : i.active with
    | false => simp [DR, deserStep, DataReceiver.fsmStep, hf, h, ha]
    | true =>
      cases hvv : i.valid with
      | false => simp [DR, deserStep, DataReceiver.fsmStep, hf, h, ha, hvv]
      | true =>
        cases hp : DataReceiver.isDataPid i.data with
        | false => simp [DR, deserStep, DataReceiver.fsmStep, hf, h, ha, hvv, isDataPid_eq, hp]
        | true => simp [DR, deserStep, DataReceiver.fsmStep, hf, h, ha, hvv, isDataPid_eq, hp]
  | capture =>
    simp only [DR, hf] at h
    cases ha : i.active with
    | false =>
      have hvv : i.valid = false := by
        cases hvv : i.valid with
        | false => rfl
        | true => have := hv hvv; simp [ha] at this
      rcases h with ⟨h0, h1⟩ | ⟨h0, h1, _⟩ | ⟨_, _, h1, _⟩
      · by_cases hc : d.lastWordCrc = d.lastWord <;>
          simp [DR, deserStep, DataReceiver.fsmStep, hf, h1, ha, hvv, hc]
      · by_cases hc : d.lastWordCrc = d.lastWord <;>
          simp [DR, deserStep, DataReceiver.fsmStep, hf, h1, ha, hvv, hc]
      · by_cases hc : d.lastWordCrc = d.lastWord <;>
          by_cases hr : r.lastWordCrc = r.pipeLo + 256 * r.pipeHi <;>
          simp [DR, deserStep, DataReceiver.fsmStep, hf, h1, ha, hvv, hc, hr]
    | true =>
      cases hvv : i.valid with
      | false =>
        rcases h with ⟨h0, h1⟩ | ⟨h0, h1, h2, h3, h4⟩ | ⟨h0, h0', h1, h2, h3, h4, h5, h6⟩
        · simp [DR, deserStep, DataReceiver.fsmStep, hf, h1, ha, hvv, h0]
        · simp [DR, deserStep, DataReceiver.fsmStep, hf, h1, ha, hvv, h0, h2, h3, h4]
        · simp only [DR, deserStep, DataReceiver.fsmStep, hf, h1, ha, hvv]
          simp
          exact ⟨h0, h0', h2, h3, h4, h5, h6⟩
      | true =>
        rcases h with ⟨h0, h1⟩ | ⟨h0, h1, h2, h3, h4⟩ | ⟨h0, h0', h1, h2, h3, h4, h5, h6⟩
        · simp only [DR, deserStep, DataReceiver.fsmStep, hf, h1, ha, hvv, h0]
          simp [hm, hb]
          omega
        · simp only [DR, deserStep, DataReceiver.fsmStep, hf, h1, ha, hvv, h0]
          simp [hm, hb, h2, h3, h4]
        · by_cases h10 : d.position = 10
          · simp [DR, deserStep, DataReceiver.fsmStep, hf, h1, ha, hvv, h10]
          · have hlt : ¬ d.position ≥ 10 := by omega
            simp only [DR, deserStep, DataReceiver.fsmStep, hf, h1, ha, hvv, hlt]
            simp [hm, hb, h2, h6]
            have : (d.position + 1) % 16 = d.position + 1 := by omega
            rw [this]
            refine ⟨by omega, by omega, ?_⟩
            rw [h4]; omega
  | irrelevant =>
    simp only [DR, hf] at h
    cases ha : i.active with
    | true =>
      rcases h with h | h
      · simp [DR, deserStep, DataReceiver.fsmStep, hf, h, ha]
      · cases hvv : i.valid <;> simp [DR, deserStep, DataReceiver.fsmStep, hf, h, ha, hvv]
    | false =>
      rcases h with h | h
      · simp [DR, deserStep, DataReceiver.fsmStep, hf, h, ha]
      · by_cases hr : r.lastWordCrc = r.pipeLo + 256 * r.pipeHi <;>
          cases hvv : i.valid <;> simp [DR, deserStep, DataReceiver.fsmStep, hf, h, ha, hr, hvv]

/-- A `new_packet` strobe with `length = 8` is raised exactly when the receiver accepts the same packet: the
receiver's `timer.start` is high in that cycle and its next state is DELAY. -/
theorem dr_new8 (cfg : DataReceiver.Config) (d : Deser) (r : DataReceiver.State) (i : RxCycle) (h : DR d r)
    (hn : (deserStep d (DataCrc.output r.crc) i).newPacket = true)
    (hl : (deserStep d (DataCrc.output r.crc) i).length = 8) :
    (DataReceiver.fsmStep cfg r i).2.2.2.2 = true ∧ (DataReceiver.fsmStep cfg r i).1.fsm = .delay := by
  cases hf : d.fsm with
  | idle => simp [deserStep, hf] at hn
  | readPid =>
    simp only [deserStep, hf] at hn
    revert hn; (repeat' split) <;> simp
  | irrelevant => simp [deserStep, hf] at hn
  | capture =>
    simp only [DR, hf] at h
    cases ha : i.active with
    | true =>
      simp only [deserStep, hf, ha] at hn
      revert hn; simp; (repeat' split) <;> simp
    | false =>
      cases hc : (d.lastWordCrc == d.lastWord) with
      | false =>
        simp only [deserStep, hf, ha, hc] at hn
        revert hn; simp; (repeat' split) <;> simp
      | true =>
        have hpos : d.position = 10 := by
          simp only [deserStep, hf, ha, hc] at hl
          revert hl; simp
          rcases h with ⟨h0, _⟩ | ⟨h0, _⟩ | ⟨h0, h0', _⟩
          · simp [h0]
          · simp [h0]
          · intro hl; omega
        rcases h with ⟨h0, _⟩ | ⟨h0, _⟩ | ⟨_, _, h1, h2, h3, h4, _⟩
        · omega
        · omega
        · have hcm : (r.lastWordCrc == r.pipeLo + 256 * r.pipeHi) = true := by
            rw [← h3, ← h4]; exact hc
          simp only [DataReceiver.fsmStep, h1, ha, hcm]
          simp

end LunaVerif.DeserRx
