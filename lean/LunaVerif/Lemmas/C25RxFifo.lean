import LunaVerif.Model.Phy.FsRxCdc
/-!
# C25: Amaranth's `AsyncFIFOBuffered` (as instantiated by `RxPipeline`) for isolated writes

`RxPipeline` writes into each of its two clock-domain-crossing FIFOs at most once per bit time (flags) resp. once per
byte (payload), and reads them unconditionally every `usb` cycle.  `fifo_isolated_write`: a write into an empty, settled
FIFO followed by 19 `usb_io` cycles without a write is seen by the `usb` side exactly once, with the written data, for
every pointer position, memory content, `usb` clock phase and write cycle; `fifo_idle`: without a write nothing is seen.

Proof: the FIFO only moves data, so relabelling the data commutes with `Fifo.next` (`next_mapData`, `runFifo_mapData`);
the control behaviour is then a finite check with tags for the data (`tagged_write`: 8 pointer values x 4 x 4 phases).
-/
set_option linter.unusedSimpArgs false
namespace LunaVerif.FsRxCdc
open Fifo

/-- one FIFO over a write stream (`some d` = `w_en` with `w_data = d`), `c` = cycle number mod 4, `usb` edge at the end
of the cycles with `c = φ`; returns the (`r_rdy`, `r_data`) the `usb` side samples at its edges -/
def runFifo (φ : Nat) : Nat → Fifo → List (Option Nat) → Fifo × List (Bool × Nat)
  | _, s, [] => (s, [])
  | c, s, w :: ws =>
    let r := runFifo φ ((c + 1) % 4) (s.next w.isSome (w.getD 0) (c == φ)) ws
    (r.1, (if c == φ then [(s.oRdy, s.oData)] else []) ++ r.2)

/-- empty and settled, pointers at `p`; `port`/`r_data` show the (stale) slot the pointers are at -/
def settled (p : Nat) (mem : List Nat) : Fifo :=
  { wBin := p, wGry := gray p, cw0 := gray p, cw1 := gray p, mem := mem, rBin := p, rGry := gray p, pr0 := gray p,
    pr1 := gray p, rs0 := false, rs1 := false, port := mem.getD (p % 4) 0, oData := mem.getD (p % 4) 0, oRdy := false }

/-- relabel the data -/
def mapData (f : Nat → Nat) (s : Fifo) : Fifo :=
  { s with mem := s.mem.map f, port := f s.port, oData := f s.oData }

theorem next_mapData (f : Nat → Nat) (h0 : f 0 = 0) (s : Fifo) (wEn : Bool) (d : Nat) (e : Bool) :
    (mapData f s).next wEn (f d) e = mapData f (s.next wEn d e) := by
  have hg : ∀ i, (s.mem.map f).getD i 0 = f (s.mem.getD i 0) := by
    intro i
    simp only [List.getD, List.getElem?_map]
    cases s.mem[i]? <;> simp [h0]
  cases e <;> cases wEn <;>
    simp [Fifo.next, mapData, Fifo.wNxt, Fifo.doWrite, Fifo.wRdy, Fifo.wFull, Fifo.rNxt, Fifo.rRdyInner, hg,
      List.map_set] <;> split <;> simp_all [List.map_set]

theorem runFifo_mapData (f : Nat → Nat) (h0 : f 0 = 0) (φ : Nat) (ws : List (Option Nat)) : ∀ (c : Nat) (s : Fifo),
    runFifo φ c (mapData f s) (ws.map (Option.map f)) =
      (mapData f (runFifo φ c s ws).1, (runFifo φ c s ws).2.map (fun x => (x.1, f x.2))) := by
  induction ws with
  | nil => intro c s; rfl
  | cons w ws ih =>
    intro c s
    have h1 : (Option.map f w).isSome = w.isSome := by cases w <;> rfl
    have h2 : (Option.map f w).getD 0 = f (w.getD 0) := by cases w <;> simp [h0]
    simp only [List.map, runFifo, h1, h2, next_mapData f h0, ih]
    refine Prod.ext rfl ?_
    simp only [List.map_append]
    congr 1
    split <;> simp [mapData]

/-- the isolated write with tags for data: slots hold 1, 2, 3, 4, the written value is 5 (finite check) -/
theorem tagged_write : ∀ (p : Fin 8) (c φ : Fin 4),
    (runFifo φ.val c.val (settled p.val [1, 2, 3, 4]) (some 5 :: List.replicate 19 none)).1 =
      settled ((p.val + 1) % 8) ([1, 2, 3, 4].set (p.val % 4) 5) ∧
    (runFifo φ.val c.val (settled p.val [1, 2, 3, 4]) (some 5 :: List.replicate 19 none)).2.filter (·.1) = [(true, 5)] := by
  decide +kernel

theorem tagged_idle : ∀ (p : Fin 8) (c φ : Fin 4),
    runFifo φ.val c.val (settled p.val [1, 2, 3, 4]) [none] =
      (settled p.val [1, 2, 3, 4], if c.val == φ.val then [(false, (p.val % 4) + 1)] else []) := by
  decide +kernel

/-- **an isolated write crosses the clock domains exactly once**: from an empty, settled `AsyncFIFOBuffered` (pointers at
any `p`, any memory contents), for any phase `φ` of the `usb` clock and any cycle `c` of the write: one write of `d`
followed by 19 `usb_io` cycles without a write shows `r_rdy` to the `usb` side in exactly one `usb` cycle, with
`r_data = d`, and leaves the FIFO empty and settled with the pointers advanced by one. -/
theorem fifo_isolated_write (p c φ : Nat) (hp : p < 8) (hc : c < 4) (hφ : φ < 4) (m0 m1 m2 m3 d : Nat) :
    (runFifo φ c (settled p [m0, m1, m2, m3]) (some d :: List.replicate 19 none)).1 =
      settled ((p + 1) % 8) ([m0, m1, m2, m3].set (p % 4) d) ∧
    (runFifo φ c (settled p [m0, m1, m2, m3]) (some d :: List.replicate 19 none)).2.filter (·.1) = [(true, d)] := by
  let f : Nat → Nat := fun i => [0, m0, m1, m2, m3, d].getD i 0
  have h0 : f 0 = 0 := rfl
  obtain ⟨t1, t2⟩ := tagged_write ⟨p, hp⟩ ⟨c, hc⟩ ⟨φ, hφ⟩
  have hm := runFifo_mapData f h0 φ (some 5 :: List.replicate 19 none) c (settled p [1, 2, 3, 4])
  have hs : mapData f (settled p [1, 2, 3, 4]) = settled p [m0, m1, m2, m3] := by
    have : p = 0 ∨ p = 1 ∨ p = 2 ∨ p = 3 ∨ p = 4 ∨ p = 5 ∨ p = 6 ∨ p = 7 := by omega
    rcases this with h | h | h | h | h | h | h | h <;> subst h <;> rfl
  have hs' : mapData f (settled ((p + 1) % 8) ([1, 2, 3, 4].set (p % 4) 5)) =
      settled ((p + 1) % 8) ([m0, m1, m2, m3].set (p % 4) d) := by
    have : p = 0 ∨ p = 1 ∨ p = 2 ∨ p = 3 ∨ p = 4 ∨ p = 5 ∨ p = 6 ∨ p = 7 := by omega
    rcases this with h | h | h | h | h | h | h | h <;> subst h <;> rfl
  have hw : (some 5 :: List.replicate 19 none).map (Option.map f) = some d :: List.replicate 19 none := by
    simp [f]
  rw [hw, hs] at hm
  simp only [Fin.val_mk] at t1 t2
  rw [hm, t1, hs']
  refine ⟨rfl, ?_⟩
  simp only [List.filter_map]
  have : ((fun x : Bool × Nat => x.1) ∘ fun x : Bool × Nat => (x.1, f x.2)) = (fun x => x.1) := rfl
  rw [this, t2]
  rfl

/-- an empty, settled FIFO without a write stays as it is and shows no `r_rdy` -/
theorem fifo_idle (p c φ : Nat) (hp : p < 8) (hc : c < 4) (hφ : φ < 4) (m0 m1 m2 m3 : Nat) :
    (runFifo φ c (settled p [m0, m1, m2, m3]) [none]).1 = settled p [m0, m1, m2, m3] ∧
    (runFifo φ c (settled p [m0, m1, m2, m3]) [none]).2.filter (·.1) = [] := by
  let f : Nat → Nat := fun i => [0, m0, m1, m2, m3].getD i 0
  have h0 : f 0 = 0 := rfl
  have t := tagged_idle ⟨p, hp⟩ ⟨c, hc⟩ ⟨φ, hφ⟩
  have hm := runFifo_mapData f h0 φ [none] c (settled p [1, 2, 3, 4])
  have hs : mapData f (settled p [1, 2, 3, 4]) = settled p [m0, m1, m2, m3] := by
    have : p = 0 ∨ p = 1 ∨ p = 2 ∨ p = 3 ∨ p = 4 ∨ p = 5 ∨ p = 6 ∨ p = 7 := by omega
    rcases this with h | h | h | h | h | h | h | h <;> subst h <;> rfl
  have hw : ([none] : List (Option Nat)).map (Option.map f) = [none] := rfl
  rw [hw, hs] at hm
  simp only [Fin.val_mk] at t
  rw [hm, t, hs]
  refine ⟨rfl, ?_⟩
  split <;> simp

end LunaVerif.FsRxCdc
