import LunaVerif.Props.C25Rx
import LunaVerif.Lemmas.C25RxFifoStream
/-!
# C25: the receive chain behind its clock-domain crossing, decomposition and event streams

`cdc_split`: `FsRxCdc.step` is feed-forward -- the receive chain (`FsRx`) drives the two FIFOs, the flags FIFO drives
`o_pkt_in_progress`; what the 12 MHz side sees (`evsU`) is a function (`usbEv`) of the three sample streams (payload
FIFO, flags FIFO, `o_receive_error`) at the `usb` edges.  `back_block_writes`: what one bit time writes, cycle by cycle.
`evN_bits`: pairing the per-bit write streams without delay gives the write-side events of `Lemmas/C25RxBack`.
-/
set_option linter.unusedSimpArgs false
namespace LunaVerif.FsRxCdc
open LunaVerif.FsRx LunaVerif.FsCodec

/-- what the 12 MHz side can see at a `usb` edge -/
inductive EvU | start | byte (b : Nat) | fin | err
deriving DecidableEq, Repr

/-- `rx_valid = o_data_strobe & o_pkt_in_progress` delivers a byte; `err` = `o_receive_error` while in progress -/
def evU (o : Out) : List EvU :=
  (if o.pktStart then [.start] else []) ++ (if o.strobe && o.inProgress then [.byte o.payload] else []) ++
  (if o.pktEnd then [.fin] else []) ++ (if o.inProgress && o.rxErr then [.err] else [])

def evsU : List Out → List EvU
  | [] => []
  | o :: os => evU o ++ evsU os

/-- the model over an input list; outputs sampled at the `usb` edges -/
def runCdc (φ : Nat) : St → List FsRx.In → St × List Out
  | s, [] => (s, [])
  | s, i :: is => let r := runCdc φ (s.next φ i) is; (r.1, (if s.cyc == φ then [s.out] else []) ++ r.2)

/-! ### feed-forward decomposition -/

def payW (o : FsRx.Out) : Option Nat := if o.put then some o.payData else none
def flgW (o : FsRx.Out) : Option Nat :=
  if o.pktStart || o.pktEnd then some ((if o.pktStart then 2 else 0) + (if o.pktEnd then 1 else 0)) else none

/-- `o_receive_error` at the `usb` edges -/
def errSamples (φ : Nat) : Nat → List FsRx.Out → List Bool
  | _, [] => []
  | c, o :: os => (if c == φ then [o.rxErr] else []) ++ errSamples φ ((c + 1) % 4) os

def fStart (f : Bool × Nat) : Bool := f.2.testBit 1 && f.1
def fEnd (f : Bool × Nat) : Bool := f.2.testBit 0 && f.1
def ipNext (ip : Bool) (f : Bool × Nat) : Bool := if fStart f then true else if fEnd f then false else ip

/-- the events from the three sample streams (payload FIFO, flags FIFO, error), `ip` = `o_pkt_in_progress` -/
def usbEv : Bool → List (Bool × Nat) → List (Bool × Nat) → List Bool → List EvU
  | ip, p :: ps, f :: fs, e :: es =>
    (if fStart f then [.start] else []) ++ (if p.1 && ip then [.byte p.2] else []) ++
    (if fEnd f then [.fin] else []) ++ (if ip && e then [.err] else []) ++ usbEv (ipNext ip f) ps fs es
  | _, _, _, _ => []

def ipFinal : Bool → List (Bool × Nat) → Bool
  | ip, [] => ip
  | ip, f :: fs => ipFinal (ipNext ip f) fs

theorem next_nowrite (s : Fifo) (d : Nat) (e : Bool) : s.next false d e = s.next false 0 e := by
  cases e <;> simp [Fifo.next, Fifo.wNxt, Fifo.doWrite]

theorem fifo_next_payW (s : Fifo) (o : FsRx.Out) (e : Bool) :
    s.next o.put o.payData e = s.next (payW o).isSome ((payW o).getD 0) e := by
  unfold payW; cases h : o.put
  · simp [next_nowrite s o.payData e]
  · simp

theorem fifo_next_flgW (s : Fifo) (o : FsRx.Out) (e : Bool) :
    s.next (o.pktStart || o.pktEnd) ((if o.pktStart then 2 else 0) + (if o.pktEnd then 1 else 0)) e =
      s.next (flgW o).isSome ((flgW o).getD 0) e := by
  unfold flgW; cases h : (o.pktStart || o.pktEnd)
  · simp [next_nowrite s _ e]
  · simp

theorem evsU_append (a b : List Out) : evsU (a ++ b) = evsU a ++ evsU b := by
  induction a with
  | nil => rfl
  | cons o os ih => simp only [List.cons_append, evsU, ih, List.append_assoc]

/-- **feed-forward**: the receive chain drives the two FIFOs, the flags FIFO drives `o_pkt_in_progress` -/
theorem cdc_split (φ : Nat) (ins : List FsRx.In) : ∀ s : St, s.cyc < 4 →
    (runCdc φ s ins).1 =
      ⟨(FsRx.run s.rx ins).1,
       (runFifo φ s.cyc s.pay ((FsRx.run s.rx ins).2.map payW)).1,
       (runFifo φ s.cyc s.flg ((FsRx.run s.rx ins).2.map flgW)).1,
       ipFinal s.inProgress (runFifo φ s.cyc s.flg ((FsRx.run s.rx ins).2.map flgW)).2,
       (s.cyc + ins.length) % 4⟩ ∧
    evsU (runCdc φ s ins).2 =
      usbEv s.inProgress (runFifo φ s.cyc s.pay ((FsRx.run s.rx ins).2.map payW)).2
        (runFifo φ s.cyc s.flg ((FsRx.run s.rx ins).2.map flgW)).2
        (errSamples φ s.cyc (FsRx.run s.rx ins).2) := by
  induction ins with
  | nil =>
    intro s hs
    refine ⟨?_, by simp [runCdc, FsRx.run, runFifo, evsU, usbEv, errSamples]⟩
    have : s.cyc % 4 = s.cyc := Nat.mod_eq_of_lt hs
    simp [runCdc, FsRx.run, runFifo, ipFinal, this]
  | cons i is ih =>
    intro s hs
    obtain ⟨h1, h2⟩ := ih (s.next φ i) (Nat.mod_lt _ (by omega))
    have hrx : (s.next φ i).rx = (FsRx.step s.rx i).1 := rfl
    have hcy : (s.next φ i).cyc = (s.cyc + 1) % 4 := rfl
    have hpay : (s.next φ i).pay = s.pay.next (payW s.rx.out).isSome ((payW s.rx.out).getD 0) (s.cyc == φ) := by
      simp only [St.next]; exact fifo_next_payW _ _ _
    have hflg : (s.next φ i).flg = s.flg.next (flgW s.rx.out).isSome ((flgW s.rx.out).getD 0) (s.cyc == φ) := by
      simp only [St.next]; exact fifo_next_flgW _ _ _
    have hip : (s.next φ i).inProgress = if s.cyc == φ then ipNext s.inProgress (s.flg.oRdy, s.flg.oData) else s.inProgress := by
      rfl
    have hout : (FsRx.step s.rx i).2 = s.rx.out := rfl
    rw [hrx, hcy, hpay, hflg, hip] at h1 h2
    constructor
    · simp only [runCdc]
      rw [h1]
      simp only [FsRx.run, List.map, runFifo, hout, List.length_cons]
      congr 1
      · cases hc : (s.cyc == φ) <;> simp [ipFinal]
      · omega
    · simp only [runCdc, evsU_append]
      rw [h2]
      simp only [FsRx.run, List.map, runFifo, hout, errSamples]
      cases hc : (s.cyc == φ)
      · simp [evsU]
      · simp [evsU, evU, usbEv, St.out, fStart, fEnd, FsRx.St.out, FsRx.Back.out]

/-! ### what one bit time writes, cycle by cycle -/

/-- the payload write of a bit time (third cycle) -/
def bitPay (a : BB) (b : Bool × Bool) : Option Nat :=
  if !(a.bs == 6) && (a.det == 6 && !b.2) && a.sr.getD 7 false && !a.sr.getD 8 false
  then some (bitsVal ((shiftIn a.sr b.1).take 8).reverse) else none

/-- the flags write of a bit time (first cycle): 2 = packet start, 1 = packet end -/
def bitFlg (a : BB) (b : Bool × Bool) : Option Nat :=
  if a.det == 5 && !b.2 && b.1 then some 2 else if a.det == 6 && b.2 then some 1 else none

theorem back_block_writes (a : BB) (bd : Bool) (b : Bool × Bool) :
    (outsB (conc a bd) (bitBlock b)).map payW = [none, none, bitPay a b, none] ∧
    (outsB (conc a bd) (bitBlock b)).map flgW = [bitFlg a b, none, none, none] := by
  obtain ⟨d, z⟩ := b
  obtain ⟨det, bs, sr, err⟩ := a
  constructor
  · simp only [bitBlock, runB, outsB, conc, Back.next, Back.nextDet, Back.nextBs, Back.dropBit, Back.nextSr, Back.shValid,
      Back.srFull, Back.pktEnd, Back.pktActive, Back.pktStart, Back.out, Back.payData, payW, bitPay, shiftIn, List.map]
    cases d <;> cases z <;> simp <;> split <;> simp_all <;> grind
  · simp only [bitBlock, runB, outsB, conc, Back.next, Back.nextDet, Back.nextBs, Back.dropBit, Back.nextSr, Back.shValid,
      Back.srFull, Back.pktEnd, Back.pktActive, Back.pktStart, Back.out, flgW, bitFlg, List.map]
    cases d <;> cases z <;> simp <;> split <;> simp_all

/-! ### events from option streams -/

def oStart : Option Nat → Bool | some v => v.testBit 1 | none => false
def oEnd : Option Nat → Bool | some v => v.testBit 0 | none => false
def ipNextO (ip : Bool) (f : Option Nat) : Bool := if oStart f then true else if oEnd f then false else ip

def usbEvO : Bool → List (Option Nat) → List (Option Nat) → List Bool → List EvU
  | ip, p :: ps, f :: fs, e :: es =>
    (if oStart f then [.start] else []) ++ (match p with | some v => if ip then [EvU.byte v] else [] | none => []) ++
    (if oEnd f then [.fin] else []) ++ (if ip && e then [.err] else []) ++ usbEvO (ipNextO ip f) ps fs es
  | _, _, _, _ => []

/-- without the error samples -/
def usbEvN : Bool → List (Option Nat) → List (Option Nat) → List EvU
  | ip, p :: ps, f :: fs =>
    (if oStart f then [.start] else []) ++ (match p with | some v => if ip then [EvU.byte v] else [] | none => []) ++
    (if oEnd f then [.fin] else []) ++ usbEvN (ipNextO ip f) ps fs
  | _, _, _ => []

theorem usbEv_eq_O (ps : List (Bool × Nat)) : ∀ (ip : Bool) (fs : List (Bool × Nat)) (es : List Bool),
    usbEv ip ps fs es = usbEvO ip (ps.map rdyData) (fs.map rdyData) es := by
  induction ps with
  | nil => intro ip fs es; simp [usbEv, usbEvO]
  | cons p ps ih =>
    intro ip fs es
    cases fs with
    | nil => simp [usbEv, usbEvO]
    | cons f fs =>
      cases es with
      | nil => simp [usbEv, usbEvO]
      | cons e es =>
        obtain ⟨p1, p2⟩ := p
        obtain ⟨f1, f2⟩ := f
        simp only [usbEv, List.map, usbEvO, ih]
        cases p1 <;> cases f1 <;> simp [rdyData, fStart, fEnd, oStart, oEnd, ipNext, ipNextO]

theorem usbEvO_strip (j : Nat) : ∀ (es1 : List Bool) (ps fs : List (Option Nat)) (es : List Bool), es1.length = j →
    usbEvO false (List.replicate j none ++ ps) (List.replicate j none ++ fs) (es1 ++ es) = usbEvO false ps fs es := by
  induction j with
  | zero => intro es1 ps fs es h; have : es1 = [] := List.eq_nil_of_length_eq_zero h; subst this; rfl
  | succ j ih =>
    intro es1 ps fs es h
    match es1, h with
    | e :: es1, h =>
      rw [List.replicate_succ]
      simp only [List.cons_append, usbEvO, oStart, oEnd, ipNextO, Bool.false_and]
      simp
      exact ih es1 ps fs es (by simpa using h)

theorem usbEvO_noerr (ps : List (Option Nat)) : ∀ (ip : Bool) (fs : List (Option Nat)) (es : List Bool),
    (∀ e ∈ es, e = false) → es.length = ps.length → usbEvO ip ps fs es = usbEvN ip ps fs := by
  induction ps with
  | nil => intro ip fs es _ _; simp [usbEvO, usbEvN]
  | cons p ps ih =>
    intro ip fs es he hl
    cases fs with
    | nil => simp [usbEvO, usbEvN]
    | cons f fs =>
      match es, hl with
      | e :: es, hl =>
        have h0 : e = false := he e (by simp)
        subst h0
        simp only [usbEvO, usbEvN, Bool.and_false]
        rw [ih _ fs es (fun x hx => he x (by simp [hx])) (by simpa using hl)]
        simp

theorem usbEvN_strip (j : Nat) (ps fs : List (Option Nat)) :
    usbEvN false (List.replicate j none ++ ps) (List.replicate j none ++ fs) = usbEvN false ps fs := by
  induction j with
  | zero => rfl
  | succ j ih =>
    rw [List.replicate_succ]
    simp only [List.cons_append, usbEvN, oStart, oEnd, ipNextO]
    simpa using ih

theorem usbEvN_trailing (ps : List (Option Nat)) : ∀ (ip : Bool) (fs : List (Option Nat)), ps.length = fs.length →
    usbEvN ip (ps ++ [none]) (fs ++ [none]) = usbEvN ip ps fs := by
  induction ps with
  | nil =>
    intro ip fs h
    have : fs = [] := List.eq_nil_of_length_eq_zero (by simpa using h.symm)
    subst this; simp [usbEvN, oStart, oEnd]
  | cons p ps ih =>
    intro ip fs h
    match fs, h with
    | f :: fs, h =>
      simp only [List.cons_append, usbEvN]
      rw [ih _ fs (by simpa using h)]

/-! ### the per-bit write streams -/

def bitPays : BB → List (Bool × Bool) → List (Option Nat)
  | _, [] => []
  | a, b :: bs => bitPay a b :: bitPays (bitStep a b) bs

def bitFlgs : BB → List (Bool × Bool) → List (Option Nat)
  | _, [] => []
  | a, b :: bs => bitFlg a b :: bitFlgs (bitStep a b) bs

def toU : Ev → EvU | .start => .start | .byte b => .byte b | .fin => .fin

theorem oStart_bitFlg (a : BB) (b : Bool × Bool) : oStart (bitFlg a b) = (a.det == 5 && !b.2 && b.1) := by
  unfold bitFlg
  split
  · rename_i h; rw [h]; decide
  · rename_i h
    split
    · simp only [oStart]; rw [show Nat.testBit 1 1 = false by decide]; simpa using h
    · simp only [oStart]; simpa using h

theorem oEnd_bitFlg (a : BB) (b : Bool × Bool) : oEnd (bitFlg a b) = (a.det == 6 && b.2) := by
  unfold bitFlg
  split
  · rename_i h
    simp only [oEnd]; rw [show Nat.testBit 2 0 = false by decide]
    simp only [Bool.and_eq_true, beq_iff_eq] at h
    have : (a.det == 6) = false := by simp; omega
    simp [this]
  · split
    · rename_i h; rw [h]; decide
    · rename_i h; simp only [oEnd]; simpa using h

theorem det_inv (a : BB) (b : Bool × Bool) : ipNextO (a.det == 6) (bitFlg a b) = ((bitStep a b).det == 6) := by
  obtain ⟨d, z⟩ := b
  simp only [ipNextO, oStart_bitFlg, oEnd_bitFlg, bitStep, detStep]
  by_cases h6 : a.det = 6
  · cases z <;> simp [h6]
  · by_cases h5 : a.det = 5
    · cases z <;> cases d <;> simp [h5]
    · have e6 : (a.det == 6) = false := by simpa using h6
      have e5 : (a.det == 5) = false := by simpa using h5
      simp only [e6, e5, Bool.false_and, if_false, Bool.false_eq_true]
      split <;> simp <;> omega

theorem pay_active (a : BB) (b : Bool × Bool) (h : (bitPay a b).isSome) : a.det = 6 ∧ (bitStep a b).det = 6 := by
  obtain ⟨d, z⟩ := b
  unfold bitPay at h
  split at h
  · rename_i hc
    simp only [Bool.and_eq_true, beq_iff_eq, Bool.not_eq_true'] at hc
    have h6 : a.det = 6 := hc.1.1.2.1
    have hz : z = false := by simpa using hc.1.1.2.2
    exact ⟨h6, by simp [bitStep, detStep, h6, hz]⟩
  · simp at h

theorem bit_events_U (a : BB) (b : Bool × Bool) :
    (if (a.det == 5 && !b.2 && b.1) = true then [EvU.start] else []) ++
      ((match bitPay a b with | some v => if (a.det == 6) = true then [EvU.byte v] else [] | none => []) ++
        (if (a.det == 6 && b.2) = true then [EvU.fin] else [])) = (bitEv a b).map toU := by
  obtain ⟨d, z⟩ := b
  by_cases h6 : a.det = 6
  · cases z <;> simp [bitPay, bitEv, h6, toU] <;> split <;> simp_all [toU]
  · have e6 : (a.det == 6) = false := by simpa using h6
    simp [bitPay, bitEv, e6, toU]
    split <;> simp_all [toU]

/-- un-delayed pairing of the two write streams: the events of the write side -/
theorem evN_bits (bits : List (Bool × Bool)) : ∀ a : BB,
    usbEvN (a.det == 6) (bitPays a bits) (bitFlgs a bits) = (bitEvs a bits).map toU := by
  induction bits with
  | nil => intro a; rfl
  | cons b bs ih =>
    intro a
    simp only [bitPays, bitFlgs, usbEvN, det_inv, ih, bitEvs, List.map_append, oStart_bitFlg, oEnd_bitFlg]
    rw [← bit_events_U a b]
    simp only [List.append_assoc]

end LunaVerif.FsRxCdc
