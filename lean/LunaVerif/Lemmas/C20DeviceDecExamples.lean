import LunaVerif.Lemmas.C20DeviceDec
import LunaVerif.Lemmas.C20DeviceCtlExamples
/-!
# C20 — device + control endpoint + setup decoder: non-vacuity (kernel-evaluated control read, decoder model composed)
-/
namespace LunaVerif.DevDec
open LunaVerif LunaVerif.DevCyc LunaVerif.DevCyc.Abs LunaVerif.C20Ctr LunaVerif.DevEp LunaVerif.CtrlCyc LunaVerif.DevCtl

def exD : Config := ⟨DevCtl.exC, false⟩

def z0 : List (Ext × Nat) :=
  (rxBytes [0x2d, 0x00, 0x10] ++ [quiet, quiet, quiet] ++ rxBytes [0xc3, 0x80, 6, 0, 1, 0, 0, 0x12, 0, 0xe0, 0xf4] ++
    List.replicate 11 quiet ++ rxBytes [0x69, 0x00, 0x10] ++ List.replicate 40 quiet).map (fun x => (x, 0))

/-- The hypotheses of `dec_closed_tx_never_during_rx` hold along a control read (SETUP token, DATA0 GET_DESCRIPTOR(DEVICE,
18) with CRC16, IN token) in which nothing about the decoder is fed by hand ... -/
example : decHolds' exD exPar (init exD) ghostInit phs0 z0 = true ∧
    hostHolds exD.dc.ep.dev exPar DevCyc.init ghostInit (devIns exD.dc.ep (DevEp.init exD.dc.ep) (extsD exD z0)) = true := by
  decide +kernel

/-- ... the decoder model itself restarts the timer in cycle 20 (the cycle after the reception), strobes `received` in
cycle 21 and ACKs in cycle 23 (the receiver's `ready_for_response`) ... -/
example : ((ysOf exD (init exD) z0).zip (List.range 100)).filterMap
      (fun ((x, d), n) => if d.received || d.sdAck || x.restTimer then some (n, d.received, d.sdAck, x.restTimer) else none) =
    [(20, false, false, true), (21, true, false, false), (23, false, true, false)] := by decide +kernel

/-- ... and the device answers ACK and the DATA1 packet with the descriptor and its CRC16 (usbref bytes). -/
example : ((DevEp.run exD.dc.ep (DevEp.init exD.dc.ep) (extsD exD z0)).filter (·.txValid)).map (·.txData) =
    [0xD2, 0x4B, 18, 1, 0, 2, 0, 0, 0, 64, 0x50, 0x1d, 0x5c, 0x61, 0, 0, 1, 2, 3, 1, 0x2F, 0x84] := by decide +kernel

end LunaVerif.DevDec
