/-
Model of `luna.gateware.utils.cdc.stretch_strobe_signal` (C55).

The gateware keeps a shift register `delayed_strobe` (`to_cycles` bits wide with `allow_delay`,
`to_cycles-1` bits without) into which the strobe is shifted every cycle, and drives
`output = (delayed_strobe != 0)` (with delay) or `strobe | (delayed_strobe != 0)` (without).
`to_cycles = 1` is a plain wire.  The register is modelled as a `List Bool`, index 0 = bit 0 =
the most recently shifted-in strobe; truncation to the register width is `List.take`.
-/
namespace LunaVerif.StrobeStretcher

structure Config where
  n          : Nat      -- to_cycles (the Python code requires >= 1)
  allowDelay : Bool
deriving Repr

abbrev State := List Bool

def width (c : Config) : Nat := if c.allowDelay then c.n else c.n - 1

def init (c : Config) : State := List.replicate (width c) false

/-- One clock cycle: returns the next register value and the (combinational) output of this cycle. -/
def step (c : Config) (s : State) (strobe : Bool) : State × Bool :=
  if c.n = 1 then (s, strobe)
  else
    let s' := (strobe :: s).take (width c)
    let out := if c.allowDelay then s.any id else (strobe || s.any id)
    (s', out)

/-- Outputs for a whole strobe history (oldest first). -/
def run (c : Config) : State → List Bool → List Bool
  | _, [] => []
  | s, x :: xs => (step c s x).2 :: run c (step c s x).1 xs

end LunaVerif.StrobeStretcher
