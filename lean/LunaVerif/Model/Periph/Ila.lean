/-
Model of `luna.gateware.debug.ila.IntegratedLogicAnalyzer` (C56).

* `delayed_inputs`: the sampled inputs delayed by `samples_pretrigger` cycles (0: the wire; 1: one
  register; ≥ 2: an FFSynchronizer with that many stages).  Modelled as a queue `dl` (oldest first, length
  `pre`): push the current inputs at the back, take the front.
* the sample memory has a synchronous write port whose enable `write_port.en` is itself a *register*
  driven by the FSM (`wen`), address `write_position`, data `delayed_inputs` (combinational), and a
  synchronous, non-transparent read port (`captured_sample` = contents addressed in the previous cycle,
  before that cycle's write).
* FSM IDLE/SAMPLE; `sampling = ~IDLE` (combinational), `complete` is a register.
-/
namespace LunaVerif.Ila

structure Config where
  depth : Nat        -- sample_depth (≥ 1)
  pre   : Nat        -- samples_pretrigger
deriving Repr

def rangeWidth (n : Nat) : Nat := if n ≤ 1 then 0 else Nat.log2 (n - 1) + 1

inductive Fsm | idle | sample
deriving DecidableEq, Repr

structure State where
  fsm      : Fsm
  wpos     : Nat          -- write_position
  wen      : Bool         -- write_port.en (registered)
  complete : Bool
  mem      : List Nat     -- sample memory, `depth` words
  rdata    : Nat          -- read_port.data
  dl       : List Nat     -- input delay line, oldest first, `pre` entries
deriving DecidableEq, Repr

structure In where
  trigger : Bool
  inputs  : Nat           -- Cat(*signals)
  rdaddr  : Nat           -- captured_sample_number
deriving Repr

structure Out where
  sampling : Bool
  complete : Bool
  captured : Nat          -- captured_sample
deriving DecidableEq, Repr

def init (c : Config) : State :=
  ⟨.idle, 0, false, false, List.replicate c.depth 0, 0, List.replicate c.pre 0⟩

/-- push the current inputs, pop the delayed ones: (delayed_inputs, next delay line) -/
def shift (dl : List Nat) (x : Nat) : Nat × List Nat :=
  match dl with
  | [] => (x, [])
  | d :: rest => (d, rest ++ [x])

def memRead (mem : List Nat) (a : Nat) : Nat :=
  match mem[a]? with
  | some v => v
  | none => 0                 -- simulator semantics of an out-of-range address

def step (c : Config) (s : State) (i : In) : State × Out :=
  let (delayed, dl') := shift s.dl i.inputs
  -- memory ports act on the clock edge with the current (registered) enable / address
  let mem' := if s.wen then s.mem.set s.wpos delayed else s.mem
  let rdata' := memRead s.mem i.rdaddr
  let out : Out := ⟨decide (s.fsm ≠ .idle), s.complete, s.rdata⟩
  match s.fsm with
  | .idle =>
    -- m.d.sync += write_port.en.eq(0); with m.If(trigger): next SAMPLE, en = 1, position = 0, complete = 0
    if i.trigger then (⟨.sample, 0, true, false, mem', rdata', dl'⟩, out)
    else (⟨.idle, s.wpos, false, s.complete, mem', rdata', dl'⟩, out)
  | .sample =>
    let wpos' := (s.wpos + 1) % 2 ^ rangeWidth c.depth
    if s.wpos + 1 = c.depth then (⟨.idle, wpos', false, true, mem', rdata', dl'⟩, out)
    else (⟨.sample, wpos', true, s.complete, mem', rdata', dl'⟩, out)

def run (c : Config) : State → List In → List Out
  | _, [] => []
  | s, x :: xs => (step c s x).2 :: run c (step c s x).1 xs

def runState (c : Config) : State → List In → State
  | s, [] => s
  | s, x :: xs => runState c (step c s x).1 xs

end LunaVerif.Ila
