/-
Model of `luna.gateware.interface.spi.SPICommandInterface` and of the register decode that
`SPIRegisterInterface` wraps around it (C51).

Shift registers are `List Bool`, index 0 = bit 0 (LSB); `Cat(sdi, x[:-1])` = `sdi :: x.dropLast`.
`bit_count` is a `Nat`: the source sizes it `range(0, max(word_size, command_size) + 1)` and only
increments it under the guard `bit_count < size`, so it cannot overflow (`Props/C51.lean`,
`Rel.cmdLen` / `Rel.dataLen` bound it by the sizes).

Register map: a list of registers in the order they were added (that is the priority order of the
`If/Elif` chain that selects `word_to_send`; addresses are unique).  Kinds:
  `const v`   add_read_only_register(read = integer constant)
  `input`     add_read_only_register(read = a Signal driven from outside; value = per-cycle input)
  `mem size`  add_register(size = …): backing store written on its write strobe
  `sfr`       add_sfr(write_signal, write_strobe) – no read value (reads return the default)
Every register has a read strobe; `mem` and `sfr` have a write strobe.
-/
namespace LunaVerif.SpiRegister

inductive Kind
  | const (v : Nat)
  | input
  | mem (size : Nat) (init : Nat)
  | sfr
deriving Repr, DecidableEq

structure Reg where
  addr : Nat
  kind : Kind
deriving Repr

structure Config where
  addrSize : Nat          -- command_size = addrSize + 1
  wordSize : Nat          -- register_size
  default  : Nat          -- default_read_value (already reduced mod 2^wordSize)
  regs     : List Reg
deriving Repr

def Config.cmdSize (c : Config) : Nat := c.addrSize + 1

inductive Fsm | stall | idle | recvCmd | processing | latchOutput | shiftData
deriving Repr, DecidableEq

structure In where
  sck  : Bool
  sdi  : Bool
  cs   : Bool
  vals : List Nat        -- per register: current value of an `input` register's read signal
deriving Repr

structure State where
  -- SPICommandInterface
  pastSck      : Bool
  bitCount     : Nat
  curCmd       : List Bool
  curWord      : List Bool
  command      : List Bool
  commandReady : Bool
  wordReceived : List Bool
  wordComplete : Bool
  sdo          : Bool
  fsm          : Fsm
  -- backing stores of the `mem` registers (parallel to `regs`; 0 for other kinds)
  mem          : List Nat
deriving Repr

def zeros (n : Nat) : List Bool := List.replicate n false

def bitsToNat : List Bool → Nat
  | [] => 0
  | b :: bs => (if b then 1 else 0) + 2 * bitsToNat bs

def natToBits : Nat → Nat → List Bool
  | 0, _ => []
  | w + 1, n => (n % 2 == 1) :: natToBits w (n / 2)

def initMem (c : Config) : List Nat :=
  c.regs.map (fun r => match r.kind with | .mem _ i => i | _ => 0)

def init (c : Config) : State :=
  { pastSck := false, bitCount := 0, curCmd := zeros c.cmdSize, curWord := zeros c.wordSize,
    command := zeros c.cmdSize, commandReady := false, wordReceived := zeros c.wordSize,
    wordComplete := false, sdo := false, fsm := .stall,        -- the first state declared is the reset state
    mem := initMem c }

/-- `_is_write = command[-1]`, `_address = command[0:-1]` -/
def isWrite (s : State) : Bool := s.command.getLast?.getD false
def address (s : State) : Nat := bitsToNat s.command.dropLast

/-- Value a register presents for reading (`none`: no read value, the default is returned). -/
def readOf (r : Reg) (memv inv : Nat) : Option Nat :=
  match r.kind with
  | .const v => some v
  | .input => some inv
  | .mem _ _ => some memv
  | .sfr => none

/-- The `If/Elif/Else` chain selecting `word_to_send`. -/
def wordToSend (c : Config) (addr : Nat) : List Reg → List Nat → List Nat → Nat
  | [], _, _ => c.default
  | r :: rs, mem, vals =>
    if addr = r.addr then (readOf r (mem.headD 0) (vals.headD 0)).getD c.default % 2 ^ c.wordSize
    else wordToSend c addr rs mem.tail vals.tail

/-- Backing stores after one clock: `if write_strobe: value.eq(write_value)`. -/
def memStep (strobe : Bool) (addr wr : Nat) : List Reg → List Nat → List Nat
  | [], _ => []
  | r :: rs, mem =>
    (match r.kind with
     | .mem size _ => if strobe && addr = r.addr then wr % 2 ^ size else mem.headD 0
     | _ => mem.headD 0) :: memStep strobe addr wr rs mem.tail

def step (c : Config) (s : State) (i : In) : State :=
  let sampleEdge := s.pastSck && !i.sck
  -- defaults
  let s0 : State := { s with
    pastSck := i.sck
    commandReady := false
    wordComplete := false
    mem := memStep (s.wordComplete && isWrite s) (address s) (bitsToNat s.wordReceived) c.regs s.mem }
  match s.fsm with
  | .stall => if !i.cs then { s0 with fsm := .idle } else s0
  | .idle =>
    let s1 := { s0 with bitCount := 0 }
    if i.cs then { s1 with fsm := .recvCmd } else s1
  | .recvCmd =>
    let s1 := if !i.cs then { s0 with fsm := .idle } else s0
    if s.bitCount < c.cmdSize then
      if sampleEdge then { s1 with bitCount := s.bitCount + 1, curCmd := i.sdi :: s.curCmd.dropLast } else s1
    else
      { s1 with bitCount := 0, commandReady := true, command := s.curCmd, fsm := .processing }
  | .processing => { s0 with fsm := .latchOutput }
  | .latchOutput =>
    { s0 with curWord := natToBits c.wordSize (wordToSend c (address s) c.regs s.mem i.vals), fsm := .shiftData }
  | .shiftData =>
    let s1 := if !i.cs then { s0 with fsm := .idle } else s0
    let s2 := { s1 with sdo := s.curWord.getLast?.getD false }
    if s.bitCount < c.wordSize then
      if sampleEdge then { s2 with bitCount := s.bitCount + 1, curWord := i.sdi :: s.curWord.dropLast } else s2
    else
      { s2 with bitCount := 0, wordComplete := true, wordReceived := s.curWord, fsm := .stall }

/-- Write / read strobe of the register at `r` in the current cycle (combinational). -/
def writeStrobe (s : State) (r : Reg) : Bool :=
  match r.kind with
  | .mem _ _ | .sfr => isWrite s && s.wordComplete && address s == r.addr
  | _ => false
def readStrobe (s : State) (r : Reg) : Bool := !isWrite s && s.wordComplete && address s == r.addr

/-- Ports visible in a cycle (all are functions of the registered state):
`sdo idle stalled command_ready command word_complete word_received` then per register
`value write_strobe read_strobe`. -/
def outputs (c : Config) (s : State) : List Nat :=
  let b2n (b : Bool) : Nat := if b then 1 else 0
  [b2n s.sdo, b2n (s.fsm == .idle), b2n (s.fsm == .stall), b2n s.commandReady, bitsToNat s.command,
   b2n s.wordComplete, bitsToNat s.wordReceived] ++
  ((c.regs.zip s.mem).map (fun (r, v) => [v, b2n (writeStrobe s r), b2n (readStrobe s r)])).flatten

end LunaVerif.SpiRegister
