import LunaVerif.Model.Periph.IlaStream
/-
Model of `luna.gateware.debug.ila.StreamILA` with `o_domain != domain` (C56, clock-domain crossing of the read-out).

The read-out FSM of the StreamILA (model `LunaVerif.IlaStream`, re-used unchanged) then drives an internal stream whose
`valid` is the write enable of an `AsyncFIFOBuffered(width = 1 + bits_per_sample + 1, depth = 16)` from Amaranth's
library (`w_data = Cat(first, payload, last)`, `ready = w_rdy`), and the output stream is the FIFO's read side in the other
clock domain (`valid = r_rdy`, `Cat(first, payload, last) = r_data`, `r_en = ready`).

The FIFO (Amaranth library code) is modelled *abstractly*, by its contract: an in-order queue.  `w_rdy` and `r_rdy` are not
computed: they are oracle inputs of the model (any values), subject to one condition, `r_rdy → the queue is non-empty`
(reported in the `ok` output; a run in which it always holds is `Legal`).  When they rise (the delay through the
synchronizers, the depth) is left open.  One model step is one clock cycle of ONE of the two domains (`Ev.w`: a cycle of
the capture domain ending in its clock edge, `Ev.r`: a cycle of the output domain); the history is the interleaving of
the two in the order of the clock edges — any interleaving.

The harness replays every two-clock trace of the real gateware through this model with the observed `w_rdy` / `r_rdy`
as the oracle: the comparison checks that the real FIFO's behaviour is one of the behaviours of the queue.
-/
namespace LunaVerif.IlaCdc
open LunaVerif.Ila

/-- a FIFO word: (payload, first, last) -/
abbrev Word := Nat × Bool × Bool

structure State where
  ila : IlaStream.State
  q   : List Word          -- contents of the FIFO, oldest first
deriving DecidableEq, Repr

inductive Ev
  | w (trigger : Bool) (inputs : Nat) (wRdy : Bool)     -- a cycle of the capture domain; `wRdy` = fifo.w_rdy (oracle)
  | r (rEn : Bool) (rRdy : Bool)                        -- a cycle of the output domain; `rRdy` = fifo.r_rdy (oracle)
deriving Repr

structure Out where
  sampling : Bool := false
  complete : Bool := false
  valid    : Bool := false      -- `Ev.w`: fifo.w_en (internal stream valid); `Ev.r`: stream.valid = r_rdy
  payload  : Nat := 0           -- `Ev.w`: the internal stream; `Ev.r`: the head of the queue
  first    : Bool := false
  last     : Bool := false
  ok       : Bool := true       -- the oracle respects the contract (`r_rdy` only when the queue is non-empty)
deriving DecidableEq, Repr

def init (c : Config) : State := ⟨IlaStream.init c, []⟩

def step (c : Config) (s : State) : Ev → State × Out
  | .w t x rdy =>
    let r := IlaStream.step c s.ila ⟨t, x, rdy⟩
    (⟨r.1, s.q ++ (if r.2.valid && rdy then [(r.2.payload, r.2.first, r.2.last)] else [])⟩,
     { sampling := r.2.sampling, complete := r.2.complete, valid := r.2.valid, payload := r.2.payload,
       first := r.2.first, last := r.2.last })
  | .r en rdy =>
    match s.q with
    | [] => (s, { valid := rdy, ok := !rdy })
    | h :: t => (⟨s.ila, if en && rdy then t else h :: t⟩, { valid := rdy, payload := h.1, first := h.2.1, last := h.2.2 })

def run (c : Config) : State → List Ev → List Out
  | _, [] => []
  | s, x :: xs => (step c s x).2 :: run c (step c s x).1 xs

def runState (c : Config) : State → List Ev → State
  | s, [] => s
  | s, x :: xs => runState c (step c s x).1 xs

end LunaVerif.IlaCdc
