/-
Model of `luna.gateware.stream.arbiter.StreamArbiter` (C26), also the base class of
`HeaderQueueArbiter` (usb3/link/header.py) and `SuperSpeedStreamArbiter` (usb/stream.py).

State: the register `active_stream_index` (`Signal(range(n))`).  Everything else is combinational:

* `with m.Switch(active_stream_index): with m.Case(index): source.stream_eq(sinks[index])` —
  `source.{valid, first, last, payload, …}` are those of the selected sink, and only the selected sink's
  `ready` is driven (from `source.ready`); all other `ready`s keep their default 0.  If no case matches
  (an index ≥ n, unreachable, but it is what the Switch does) the source is all-zero.
* `with m.If(~source.valid)`: `idle = 1`; then for `stream_index` in `reversed(range(n))`:
  `with m.If(sinks[stream_index].valid): idle = 0; active_stream_index <= stream_index` — the last
  assignment in program order wins, i.e. the *lowest* valid index.

All data fields of a stream (first, last, payload and extra fields / the whole header record) are
carried as one natural number `data`; the arbiter never looks at them.  `valid` is one bit (all
arbitrated stream types in the repository have a 1-bit `valid`).
-/
namespace LunaVerif.StreamArbiter

structure Sink where
  valid : Bool
  data  : Nat
deriving DecidableEq, Repr

structure In where
  sinks : List Sink      -- one entry per added stream, index 0 = highest priority
  ready : Bool           -- source.ready (back-pressure from the consumer)
deriving Repr

structure Out where
  valid  : Bool          -- source.valid
  data   : Nat           -- source.{first,last,payload,…}
  readys : List Bool     -- sinks[k].ready
  idle   : Bool
deriving DecidableEq, Repr

/-- The `for stream_index in reversed(range(n))` chain of `m.If`s, for the sinks from index `k`
upwards: the statements for the higher indices come first in program order, the `If` for index `k`
comes last and therefore overrides them.  `acc` = (next index, idle) before the chain. -/
def scan : List Sink → Nat → Nat × Bool → Nat × Bool
  | [], _, acc => acc
  | x :: xs, k, acc =>
    let later := scan xs (k + 1) acc
    if x.valid then (k, false) else later

/-- One clock cycle: `s` is `active_stream_index`. -/
def step (n : Nat) (s : Nat) (i : In) : Nat × Out :=
  let act : Sink := match i.sinks[s]? with
    | some a => a
    | none => ⟨false, 0⟩                      -- no Case matches
  let readys := (List.range n).map (fun k => k == s && i.ready)
  if act.valid then
    (s, ⟨true, act.data, readys, false⟩)
  else
    let r := scan i.sinks 0 (s, true)
    (r.1, ⟨false, act.data, readys, r.2⟩)

def run (n : Nat) : Nat → List In → List Out
  | _, [] => []
  | s, x :: xs => (step n s x).2 :: run n (step n s x).1 xs

def runState (n : Nat) : Nat → List In → Nat
  | s, [] => s
  | s, x :: xs => runState n (step n s x).1 xs

end LunaVerif.StreamArbiter
