/-
Model of `luna.gateware.interface.i2c.I2CBusDriver` + `I2CInitiator` (C52), with bidirectional
SCL/SDA pads (`I2CBus` record: both lines have `oe`).

Bus driver: each pad input goes through a 2-stage `FFSynchronizer` (reset value 1) giving
`scl_i` / `sda_i`; `scl_r` / `sda_r` delay these by one more cycle for the edge detectors
(`bus_sample/setup/start/stop`, which the initiator itself does not use).  Pads are open drain:
`o = 0`, `oe = ~scl_o` / `~sda_o`.

Initiator: quarter-period timer (`period_cyc // 4`, reloaded when it reaches 0 or while not busy,
held while `clk_stretch` and `scl_o != scl_i`), strobe `stb = (timer == 0)`, and the FSM built from
the three helpers `scl_l`, `scl_h`, `stb_x` of the source — reproduced here as `sclL`, `sclH`,
`stbX`.
-/
namespace LunaVerif.I2c

structure Config where
  period     : Nat     -- period_cyc (>= 1)
  clkStretch : Bool
deriving Repr

inductive Fsm
  | idle
  | startSclL | startSdaH | startSclH | startSdaL
  | stopSclL | stopSdaL | stopSclH | stopSdaH
  | wrDataSclL | wrDataSdaX | wrDataSclH | wrDataSdaN
  | wrAckSclL | wrAckSdaH | wrAckSclH | wrAckSdaN
  | rdDataSclL | rdDataSdaH | rdDataSclH | rdDataSdaN
  | rdAckSclL | rdAckSdaX | rdAckSclH | rdAckSdaN
deriving Repr, DecidableEq

structure In where
  sclPad : Bool
  sdaPad : Bool
  start  : Bool
  stop   : Bool
  write  : Bool
  read   : Bool
  dataI  : Nat
  ackI   : Bool
deriving Repr

structure State where
  sclS0 : Bool
  sclI  : Bool      -- synchroniser output (second stage)
  sdaS0 : Bool
  sdaI  : Bool
  sclR  : Bool
  sdaR  : Bool
  sclO  : Bool
  sdaO  : Bool
  busy  : Bool
  timer : Nat
  bitno : Nat
  rShreg : Nat
  wShreg : Nat
  rAck  : Bool
  ackO  : Bool
  dataO : Nat
  fsm   : Fsm
deriving Repr

def init : State :=
  { sclS0 := true, sclI := true, sdaS0 := true, sdaI := true, sclR := true, sdaR := true,
    sclO := true, sdaO := true, busy := true, timer := 0, bitno := 0, rShreg := 0, wShreg := 0,
    rAck := false, ackO := false, dataO := 0, fsm := .idle }

/-- width of `Signal(range(period_cyc))` -/
def timerWidth (p : Nat) : Nat := if p ≤ 1 then 0 else Nat.log2 (p - 1) + 1

def stb (s : State) : Bool := s.timer == 0

/-- `scl_l(state, next)`: on the strobe pull SCL low and advance. -/
def sclL (s0 : State) (st : Bool) (next : Fsm) : State :=
  if st then { s0 with sclO := false, fsm := next } else s0

/-- `scl_h(state, next, exprs)`: on the strobe release SCL; afterwards, once SCL is released and
(with clock stretching) actually high, advance and apply `upd`. -/
def sclH (c : Config) (s : State) (s0 : State) (st : Bool) (next : Fsm) (upd : State → State) : State :=
  if st then { s0 with sclO := true }
  else if s.sclO then
    (if !c.clkStretch || s.sclI then upd { s0 with fsm := next } else s0)
  else s0

/-- `stb_x(state, next, exprs)`: on the strobe advance and apply `upd`. -/
def stbX (s0 : State) (st : Bool) (next : Fsm) (upd : State → State) : State :=
  if st then upd { s0 with fsm := next } else s0

def step (c : Config) (s : State) (i : In) : State :=
  let st := stb s
  -- bus driver registers and the timer
  let s0 : State := { s with
    sclS0 := i.sclPad, sclI := s.sclS0, sdaS0 := i.sdaPad, sdaI := s.sdaS0,
    sclR := s.sclI, sdaR := s.sdaI,
    timer := if s.timer == 0 || !s.busy then (c.period / 4) % 2 ^ timerWidth c.period
             else if !c.clkStretch || (s.sclO == s.sclI) then s.timer - 1 else s.timer }
  match s.fsm with
  | .idle =>
    let s1 := { s0 with busy := true }
    if i.start then
      if s.sclI && s.sdaI then { s1 with fsm := .startSdaL }
      else if !s.sclI then { s1 with fsm := .startSclH }
      else { s1 with fsm := .startSclL }
    else if i.stop then
      if s.sclI && !s.sdaO then { s1 with fsm := .stopSdaH }
      else if !s.sclI then { s1 with fsm := .stopSclH }
      else { s1 with fsm := .stopSclL }
    else if i.write then { s1 with wShreg := i.dataI % 256, fsm := .wrDataSclL }
    else if i.read then { s1 with rAck := i.ackI, fsm := .rdDataSclL }
    else { s1 with busy := false }
  -- start
  | .startSclL => sclL s0 st .startSdaH
  | .startSdaH => stbX s0 st .startSclH (fun x => { x with sdaO := true })
  | .startSclH => sclH c s s0 st .startSdaL id
  | .startSdaL => stbX s0 st .idle (fun x => { x with sdaO := false })
  -- stop
  | .stopSclL => sclL s0 st .stopSdaL
  | .stopSdaL => stbX s0 st .stopSclH (fun x => { x with sdaO := false })
  | .stopSclH => sclH c s s0 st .stopSdaH id
  | .stopSdaH => stbX s0 st .idle (fun x => { x with sdaO := true })
  -- write data
  | .wrDataSclL => sclL s0 st .wrDataSdaX
  | .wrDataSdaX => stbX s0 st .wrDataSclH (fun x => { x with sdaO := s.wShreg / 128 % 2 == 1 })
  | .wrDataSclH => sclH c s s0 st .wrDataSdaN (fun x => { x with wShreg := s.wShreg * 2 % 256 })
  | .wrDataSdaN =>
    stbX s0 st (if s.bitno == 7 then .wrAckSclL else .wrDataSclL) (fun x => { x with bitno := (s.bitno + 1) % 8 })
  -- write ack
  | .wrAckSclL => sclL s0 st .wrAckSdaH
  | .wrAckSdaH => stbX s0 st .wrAckSclH (fun x => { x with sdaO := true })
  | .wrAckSclH => sclH c s s0 st .wrAckSdaN (fun x => { x with ackO := !s.sdaI })
  | .wrAckSdaN => stbX s0 st .idle id
  -- read data
  | .rdDataSclL => sclL s0 st .rdDataSdaH
  | .rdDataSdaH => stbX s0 st .rdDataSclH (fun x => { x with sdaO := true })
  | .rdDataSclH =>
    sclH c s s0 st .rdDataSdaN (fun x => { x with rShreg := (if s.sdaI then 1 else 0) + s.rShreg % 128 * 2 })
  | .rdDataSdaN =>
    stbX s0 st (if s.bitno == 7 then .rdAckSclL else .rdDataSclL) (fun x => { x with bitno := (s.bitno + 1) % 8 })
  -- read ack
  | .rdAckSclL => sclL s0 st .rdAckSdaX
  | .rdAckSdaX => stbX s0 st .rdAckSclH (fun x => { x with sdaO := !s.rAck })
  | .rdAckSclH => sclH c s s0 st .rdAckSdaN (fun x => { x with dataO := s.rShreg })
  | .rdAckSdaN => stbX s0 st .idle id

def b2n (b : Bool) : Nat := if b then 1 else 0

/-- `scl.oe sda.oe busy ack_o data_o bus_sample bus_setup bus_start bus_stop` -/
def outputs (s : State) : List Nat :=
  [b2n (!s.sclO), b2n (!s.sdaO), b2n s.busy, b2n s.ackO, s.dataO,
   b2n (!s.sclR && s.sclI), b2n (s.sclR && !s.sclI),
   b2n (s.sclI && s.sdaR && !s.sdaI), b2n (s.sclI && !s.sdaR && s.sdaI)]

def stateAfter (c : Config) : State → List In → State
  | s, [] => s
  | s, i :: is => stateAfter c (step c s i) is

end LunaVerif.I2c
