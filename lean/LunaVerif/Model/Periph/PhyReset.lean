/-
Model of `luna.gateware.architecture.car.PHYResetController` (C54), *as repaired* by the `fix:`
commit that sizes `cycles_in_reset` for the longer of the reset and the stop interval
(`Signal(range(0, max(reset_length_cycles, stop_length_cycles)))`).

The gateware is a three-state FSM (IDLE / RESETTING / DEFERRING_STARTUP) with one counter.
`phy_reset = ongoing(RESETTING)`, `phy_stop = ~ongoing(IDLE)` are combinational functions of the
FSM register only (Moore).  The comparison `cycles_in_reset + 1 == N` is made on a value one bit
wider than the counter (Amaranth widens `+`), so it is an exact comparison of naturals; only the
*assignment* `cycles_in_reset.eq(cycles_in_reset + 1)` truncates to the counter width.

The cycle counts are computed in Python with float arithmetic (`ceil(length / (1 / f))`); they are
`Config` fields here and the harness passes the integers the real object computed.
-/
namespace LunaVerif.PhyReset

structure Config where
  resetCycles : Nat     -- reset_length_cycles
  stopCycles  : Nat     -- stop_length_cycles
  powerOn     : Bool    -- power_on_reset
deriving Repr

inductive Fsm | idle | resetting | deferring
deriving DecidableEq, Repr

structure State where
  fsm : Fsm
  cnt : Nat             -- cycles_in_reset
deriving DecidableEq, Repr

structure Out where
  phyReset : Bool
  phyStop  : Bool
deriving DecidableEq, Repr

/-- Width of `Signal(range(0, n))` in Amaranth 0.5: `bits_for(n - 1)`, and 0 bits for `range(0, 1)`. -/
def rangeWidth (n : Nat) : Nat := if n ≤ 1 then 0 else Nat.log2 (n - 1) + 1

/-- The counter wraps modulo this (repaired code: sized for the larger interval). -/
def modulus (c : Config) : Nat := 2 ^ rangeWidth (max c.resetCycles c.stopCycles)

def init (c : Config) : State := ⟨if c.powerOn then .resetting else .idle, 0⟩

def outOf (s : State) : Out := ⟨decide (s.fsm = .resetting), decide (s.fsm ≠ .idle)⟩

/-- One clock cycle (inputs set, outputs read, then the edge) for a counter that wraps modulo `M`. -/
def stepM (M : Nat) (c : Config) (s : State) (trigger : Bool) : State × Out :=
  match s.fsm with
  | .idle =>
    -- m.d.sync += cycles_in_reset.eq(0); with m.If(self.trigger): m.next = 'RESETTING'
    (⟨if trigger then .resetting else .idle, 0⟩, outOf s)
  | .resetting =>
    if s.cnt + 1 = c.resetCycles then (⟨.deferring, 0⟩, outOf s)
    else (⟨.resetting, (s.cnt + 1) % M⟩, outOf s)
  | .deferring =>
    if s.cnt + 1 = c.stopCycles then (⟨.idle, 0⟩, outOf s)
    else (⟨.deferring, (s.cnt + 1) % M⟩, outOf s)

/-- The repaired gateware: counter sized for the larger interval. -/
def step (c : Config) : State → Bool → State × Out := stepM (modulus c) c

/-- The counter as it was sized before the repair (`Signal(range(0, reset_length_cycles))`); kept only
to state the defect (F23) as a theorem. -/
def stepUnrepaired (c : Config) : State → Bool → State × Out := stepM (2 ^ rangeWidth c.resetCycles) c

/-- Outputs for a whole trigger history (oldest first). -/
def run (c : Config) : State → List Bool → List Out
  | _, [] => []
  | s, x :: xs => (step c s x).2 :: run c (step c s x).1 xs

/-- State after a whole trigger history. -/
def runState (c : Config) : State → List Bool → State
  | s, [] => s
  | s, x :: xs => runState c (step c s x).1 xs

end LunaVerif.PhyReset
