/-
Models of `luna.gateware.interface.uart.UARTTransmitter` and `UARTMultibyteTransmitter` (C49).

UARTTransmitter: FSM IDLE/TRANSMIT, `baud_counter` (`range(divisor)`), 10-bit `data_shift`
(`Cat(START_BIT=0, payload[8], STOP_BIT=1)`, shifted out LSB first), `bits_to_send` (`range(10)`).
`tx`, `stream.ready`, `idle`, `driving` are combinational.  `stream.ready` does not depend on
`stream.valid`.

`baud_counter.eq(baud_counter - 1)` would wrap at 0, but in exactly that case (`baud_counter == 0`)
the later statement `baud_counter.eq(divisor - 1)` overrides it, so the truncated subtraction of `Nat`
is a faithful rendering.  With `divisor = 1` the counter is a 0-bit signal, constantly 0.
-/
namespace LunaVerif.Uart

inductive Fsm | idle | transmit
deriving DecidableEq, Repr

structure State where
  fsm   : Fsm
  baud  : Nat      -- baud_counter
  shift : Nat      -- data_shift (10 bits)
  bits  : Nat      -- bits_to_send
deriving DecidableEq, Repr

structure In where
  valid   : Bool
  payload : Nat    -- 8 bits
deriving Repr

structure Out where
  tx      : Bool
  ready   : Bool
  idle    : Bool
  driving : Bool
deriving DecidableEq, Repr

def init : State := ⟨.idle, 0, 0, 0⟩

/-- `Cat(START_BIT, payload, STOP_BIT)` as a number: bit 0 = 0, bits 1..8 = payload, bit 9 = 1. -/
def framed (payload : Nat) : Nat := 2 * (payload % 256) + 512

def step (d : Nat) (s : State) (i : In) : State × Out :=
  match s.fsm with
  | .idle =>
    -- tx = 1, ready = 1; with m.If(valid): load, m.next = TRANSMIT
    let s' : State := if i.valid then ⟨.transmit, d - 1, framed i.payload, 9⟩ else s
    (s', ⟨true, true, true, false⟩)
  | .transmit =>
    let tx := s.shift % 2 == 1
    if s.baud = 0 then
      if s.bits > 0 then
        (⟨.transmit, d - 1, s.shift / 2, s.bits - 1⟩, ⟨tx, false, false, true⟩)
      else if i.valid then
        (⟨.transmit, d - 1, framed i.payload, 9⟩, ⟨tx, true, false, true⟩)
      else
        (⟨.idle, d - 1, s.shift, s.bits⟩, ⟨tx, true, false, true⟩)
    else
      (⟨.transmit, s.baud - 1, s.shift, s.bits⟩, ⟨tx, false, false, true⟩)

def run (d : Nat) : State → List In → List Out
  | _, [] => []
  | s, x :: xs => (step d s x).2 :: run d (step d s x).1 xs

/-! ## UARTMultibyteTransmitter: a word shift register in front of the byte transmitter -/

structure MBState where
  fsm   : Fsm
  shift : Nat      -- data_shift (8·byte_width bits)
  bytes : Nat      -- bytes_to_send
  uart  : State
deriving DecidableEq, Repr

structure MBOut where
  tx    : Bool
  ready : Bool
  idle  : Bool
deriving DecidableEq, Repr

def mbInit : MBState := ⟨.idle, 0, 0, init⟩

/-- `w` = byte_width, `d` = divisor.  The inner UART is offered `data_shift[0:8]` with
`valid = ongoing(TRANSMIT)`; its `ready` is a function of its own state only. -/
def mbStep (d w : Nat) (s : MBState) (i : In) : MBState × MBOut :=
  let (u', uo) := step d s.uart ⟨decide (s.fsm = .transmit), s.shift % 256⟩
  match s.fsm with
  | .idle =>
    if i.valid then (⟨.transmit, i.payload % 2 ^ (8 * w), w - 1, u'⟩, ⟨uo.tx, true, true⟩)
    else (⟨.idle, s.shift, s.bytes, u'⟩, ⟨uo.tx, true, true⟩)
  | .transmit =>
    if uo.ready then
      if s.bytes > 0 then
        (⟨.transmit, s.shift / 256, s.bytes - 1, u'⟩, ⟨uo.tx, false, false⟩)
      else if i.valid then
        (⟨.transmit, i.payload % 2 ^ (8 * w), w - 1, u'⟩, ⟨uo.tx, true, false⟩)
      else
        (⟨.idle, s.shift, s.bytes, u'⟩, ⟨uo.tx, true, false⟩)
    else
      (⟨.transmit, s.shift, s.bytes, u'⟩, ⟨uo.tx, false, false⟩)

def mbRun (d w : Nat) : MBState → List In → List MBOut
  | _, [] => []
  | s, x :: xs => (mbStep d w s x).2 :: mbRun d w (mbStep d w s x).1 xs

end LunaVerif.Uart
