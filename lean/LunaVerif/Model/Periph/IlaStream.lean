import LunaVerif.Model.Periph.Ila
/-
Model of `luna.gateware.debug.ila.StreamILA` (C56, read-out wrapper) for `o_domain == domain` (no CDC FIFO).

The wrapper instantiates the core `IntegratedLogicAnalyzer` (model `LunaVerif.Ila`, re-used unchanged) and adds

* `current_sample_number` (`csn`, a register of the width of `range(sample_depth)`), wired combinationally to the
  core's `captured_sample_number`; the stream payload is the core's `captured_sample` (the read-port register),
* an FSM IDLE / SAMPLING / SENDING.  The core's trigger input is the wrapper's trigger *only in IDLE* (blocked
  otherwise).  SAMPLING waits for the core's `complete` register, then clears `csn` and sets the stream's
  `first` register.  SENDING drives `valid = data_valid`, `last = (csn == depth - 1)`; with `ready`:
  if `data_valid` the word is taken (`csn += 1`, `data_valid := 0`, `first := 0`, back to IDLE after the last
  one), otherwise `data_valid := 1` (one cycle for the synchronous read port to fetch the new address).
* `data_valid` is a register with reset value 1 that is only touched in SENDING.
-/
namespace LunaVerif.IlaStream
open LunaVerif.Ila

inductive WFsm | idle | sampling | sending
deriving DecidableEq, Repr

structure State where
  core  : Ila.State
  fsm   : WFsm
  csn   : Nat          -- current_sample_number
  first : Bool         -- stream.first (registered)
  dv    : Bool         -- data_valid
deriving DecidableEq, Repr

structure In where
  trigger : Bool
  inputs  : Nat
  ready   : Bool       -- stream.ready
deriving Repr

structure Out where
  sampling : Bool
  complete : Bool
  valid    : Bool
  payload  : Nat
  first    : Bool
  last     : Bool
deriving DecidableEq, Repr

def init (c : Config) : State := ⟨Ila.init c, .idle, 0, false, true⟩

/-- what the core sees in this cycle -/
def coreIn (s : State) (i : In) : Ila.In :=
  ⟨(match s.fsm with | .idle => i.trigger | _ => false), i.inputs, s.csn⟩

def step (c : Config) (s : State) (i : In) : State × Out :=
  let core' := (Ila.step c s.core (coreIn s i)).1
  let co := (Ila.step c s.core (coreIn s i)).2
  match s.fsm with
  | .idle =>
    let out : Out := ⟨co.sampling, co.complete, false, co.captured, s.first, false⟩
    if i.trigger then (⟨core', .sampling, s.csn, s.first, s.dv⟩, out)
    else (⟨core', .idle, s.csn, s.first, s.dv⟩, out)
  | .sampling =>
    let out : Out := ⟨co.sampling, co.complete, false, co.captured, s.first, false⟩
    if co.complete then (⟨core', .sending, 0, true, s.dv⟩, out)
    else (⟨core', .sampling, s.csn, s.first, s.dv⟩, out)
  | .sending =>
    let last := decide (s.csn = c.depth - 1)
    let out : Out := ⟨co.sampling, co.complete, s.dv, co.captured, s.first, last⟩
    if i.ready then
      if s.dv then
        (⟨core', (if last then .idle else .sending), (s.csn + 1) % 2 ^ rangeWidth c.depth, false, false⟩, out)
      else (⟨core', .sending, s.csn, s.first, true⟩, out)
    else (⟨core', .sending, s.csn, s.first, s.dv⟩, out)

def run (c : Config) : State → List In → List Out
  | _, [] => []
  | s, x :: xs => (step c s x).2 :: run c (step c s x).1 xs

def runState (c : Config) : State → List In → State
  | s, [] => s
  | s, x :: xs => runState c (step c s x).1 xs

end LunaVerif.IlaStream
