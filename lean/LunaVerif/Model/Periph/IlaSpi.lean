import LunaVerif.Model.Periph.Ila
import LunaVerif.Model.Periph.SpiDevice
/-
Model of `luna.gateware.debug.ila.SyncSerialILA` (C56, SPI read-out wrapper).

Composition of the unchanged core model (`LunaVerif.Ila`) and the unchanged `SPIDeviceInterface` model of C50
(`LunaVerif.SpiDevice`, word size `bits_per_word`, MSB first, chip select active high — the wrapper does NOT pass
its `cs_idles_high` argument on) plus the wrapper's own registers:

* `past_spi_cs`; `transaction_start = ~past_spi_cs & cs`,
* `current_sample_number` (`csn`): with `cs`: 1 at the transaction start, `+1` on `word_accepted`; without `cs`: 0,
* the core's `captured_sample_number` is a *register* loaded from `csn` every cycle (`rdaddr`),
* `interface.word_out = captured_sample` (zero-extended to `bits_per_word`).
The trigger goes to the core unconditionally (a trigger during a read-out starts a new capture).
-/
namespace LunaVerif.IlaSpi
open LunaVerif.Ila

structure Config where
  ila : Ila.Config
  spi : SpiDevice.Config      -- w = bits_per_word, pol, phase, msbFirst = true, csIdlesHigh = false
deriving Repr

structure State where
  core   : Ila.State
  spi    : SpiDevice.State
  pastCs : Bool
  csn    : Nat          -- current_sample_number
  rdaddr : Nat          -- ila.captured_sample_number (registered)
deriving Repr

structure In where
  trigger : Bool
  inputs  : Nat
  sck     : Bool
  sdi     : Bool
  cs      : Bool
deriving Repr

structure Out where
  sampling : Bool
  complete : Bool
  sdo      : Bool
deriving DecidableEq, Repr

def init (c : Config) : State := ⟨Ila.init c.ila, SpiDevice.init c.spi, false, 0, 0⟩

def wordOut (c : Config) (s : State) : List Bool := SpiDevice.natToBits c.spi.w s.core.rdata

def spiIn (c : Config) (s : State) (i : In) : SpiDevice.In := ⟨i.sck, i.sdi, i.cs, wordOut c s⟩

def step (c : Config) (s : State) (i : In) : State × Out :=
  let cr := Ila.step c.ila s.core ⟨i.trigger, i.inputs, s.rdaddr⟩
  let sr := SpiDevice.step c.spi s.spi (spiIn c s i)
  let wd := 2 ^ rangeWidth c.ila.depth
  let csn' :=
    if i.cs then
      if !s.pastCs then 1 % wd
      else if sr.2.wordAccepted then (s.csn + 1) % wd
      else s.csn
    else 0
  (⟨cr.1, sr.1, i.cs, csn', s.csn⟩, ⟨cr.2.sampling, cr.2.complete, sr.2.sdo⟩)

def run (c : Config) : State → List In → List Out
  | _, [] => []
  | s, x :: xs => (step c s x).2 :: run c (step c s x).1 xs

def runState (c : Config) : State → List In → State
  | s, [] => s
  | s, x :: xs => runState c (step c s x).1 xs

end LunaVerif.IlaSpi
