/-
Model of `luna.gateware.interface.psram.HyperRAMInterface` (C53) — the FSM core the repository's
tests instantiate with a bare `HyperBusPHY` record (the vendor-primitive PHY `HyperRAMPHY` is not
part of the model).

All `phy` outputs are registers with per-cycle defaults (`clk_en = 1, cs = 1, rwds.e = 0,
dq.e = 0`) that a state may override; `idle`, `read_ready`, `write_ready`, `read_data` are
combinational.  Later assignments win, as in Amaranth.
-/
namespace LunaVerif.HyperRam

inductive Fsm
  | idle | latchRwds | shiftCommand0 | shiftCommand1 | shiftCommand2 | handleLatency
  | readData | writeData | recovery
deriving Repr, DecidableEq

structure In where
  address       : Nat    -- 32 bits
  registerSpace : Bool
  performWrite  : Bool
  singlePage    : Bool
  startTransfer : Bool
  finalWord     : Bool
  writeData     : Nat    -- 16 bits
  dqI           : Nat    -- 16 bits
  rwdsI         : Nat    -- 2 bits
deriving Repr

structure State where
  fsm          : Fsm
  isRead       : Bool
  isRegister   : Bool
  isMultipage  : Bool
  curAddr      : Nat
  extraLatency : Bool
  latency      : Nat     -- 4 bits: Signal(range(0, 15))
  lastHalfRwds : Bool
  lastHalfDq   : Nat     -- 8 bits
  clkEn        : Bool
  cs           : Bool
  rwdsE        : Bool
  rwdsO        : Nat
  dqE          : Bool
  dqO          : Nat
deriving Repr

structure Out where
  idle       : Bool
  readReady  : Bool
  writeReady : Bool
  readData   : Nat
  clkEn      : Bool
  cs         : Bool
  rwdsE      : Bool
  rwdsO      : Nat
  dqE        : Bool
  dqO        : Nat
deriving Repr

def HIGH_LATENCY_CLOCKS : Nat := 14
def LOW_LATENCY_CLOCKS : Nat := 7

def init : State :=
  { fsm := .idle, isRead := false, isRegister := false, isMultipage := false, curAddr := 0,
    extraLatency := false, latency := 0, lastHalfRwds := false, lastHalfDq := 0,
    clkEn := false, cs := false, rwdsE := false, rwdsO := 0, dqE := false, dqO := 0 }

def b2n (b : Bool) : Nat := if b then 1 else 0

/-- `ca = Cat(addr[0:3], Const(0, 13), addr[3:32], is_multipage, is_register, is_read)` -/
def ca (s : State) : Nat :=
  s.curAddr % 8 + (s.curAddr / 8 % 2 ^ 29) * 2 ^ 16 + b2n s.isMultipage * 2 ^ 45 +
    b2n s.isRegister * 2 ^ 46 + b2n s.isRead * 2 ^ 47

def step (s : State) (i : In) : State × Out :=
  -- per-cycle defaults of the registered outputs
  let d : State := { s with clkEn := true, cs := true, rwdsE := false, dqE := false }
  -- read path (combinational, READ_DATA only)
  let direct   := i.rwdsI == 2
  let inverted := !direct && (i.rwdsI / 2 % 2 == 0 && s.lastHalfRwds)
  let o0 : Out := { idle := false, readReady := false, writeReady := false, readData := 0,
                    clkEn := s.clkEn, cs := s.cs, rwdsE := s.rwdsE, rwdsO := s.rwdsO, dqE := s.dqE, dqO := s.dqO }
  match s.fsm with
  | .idle =>
    let s' : State :=
      if i.startTransfer then
        { d with clkEn := false, fsm := .latchRwds, isRead := !i.performWrite, isRegister := i.registerSpace,
                 isMultipage := !i.singlePage, curAddr := i.address % 2 ^ 32, dqO := 0 }
      else { d with clkEn := false, cs := false }
    (s', { o0 with idle := true })
  | .latchRwds =>
    ({ d with extraLatency := i.rwdsI % 2 == 1, clkEn := false, fsm := .shiftCommand0 }, o0)
  | .shiftCommand0 => ({ d with dqO := ca s / 2 ^ 32 % 2 ^ 16, dqE := true, fsm := .shiftCommand1 }, o0)
  | .shiftCommand1 => ({ d with dqO := ca s / 2 ^ 16 % 2 ^ 16, dqE := true, fsm := .shiftCommand2 }, o0)
  | .shiftCommand2 =>
    let d1 : State := { d with dqO := ca s % 2 ^ 16, dqE := true }
    if s.isRegister && !s.isRead then ({ d1 with fsm := .writeData }, o0)
    else
      -- `with m.If(extra_latency | 1)`: always the high latency
      ({ d1 with fsm := .handleLatency, latency := HIGH_LATENCY_CLOCKS - 2 }, o0)
  | .handleLatency =>
    let d1 : State := { d with latency := (s.latency + 15) % 16 }
    if s.latency == 0 then ({ d1 with fsm := if s.isRead then .readData else .writeData }, o0)
    else (d1, o0)
  | .readData =>
    let d1 : State := { d with lastHalfRwds := i.rwdsI % 2 == 1, lastHalfDq := i.dqI % 2 ^ 8 }
    if direct then
      ({ d1 with fsm := if i.finalWord then .recovery else .readData },
       { o0 with readReady := true, readData := i.dqI })
    else if inverted then
      ({ d1 with fsm := if i.finalWord then .recovery else .readData },
       { o0 with readReady := true, readData := i.dqI / 2 ^ 8 + s.lastHalfDq * 2 ^ 8 })
    else (d1, o0)
  | .writeData =>
    let d1 : State := { d with dqO := i.writeData, dqE := true, rwdsE := !s.isRegister, rwdsO := 0 }
    let nxt := if s.isRegister then Fsm.idle else if i.finalWord then Fsm.recovery else Fsm.writeData
    ({ d1 with fsm := nxt }, { o0 with writeReady := true })
  | .recovery =>
    ({ d with cs := false, clkEn := false, lastHalfRwds := false, lastHalfDq := 0, fsm := .idle }, o0)

def run : State → List In → List Out
  | _, [] => []
  | s, i :: is => (step s i).2 :: run (step s i).1 is

def stateAfter : State → List In → State
  | s, [] => s
  | s, i :: is => stateAfter (step s i).1 is

end LunaVerif.HyperRam
