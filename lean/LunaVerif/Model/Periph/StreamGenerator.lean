/-
Models of `luna.gateware.stream.generator.ConstantStreamGenerator` and `StreamSerializer` (C27).

ConstantStreamGenerator (bytes-like `constant_data`):
* ROM = `_get_initializer_value()`: the bytes cut into words of `wb = data_width/8` bytes, each word
  `int.from_bytes(chunk, endianness)` (the last chunk may be short); `valid_bits_last_word` = number of
  bytes in the last word (or `len(stream.valid)` when `data_width == 8`).
* the ROM read port is synchronous: `rom_read_port.data` in a cycle is the word addressed in the
  *previous* cycle (`romData` below); an address beyond the depth reads 0 in the simulator.
* registers: FSM (IDLE/STREAMING/DONE), `position_in_stream` (`range(words)`), `bytes_sent` and the
  latched `max_length` (both `max_length_width` bits).  Only generators *with* a max_length port are
  modelled: without `max_length_width` the class does not elaborate (`bytes_sent = 0` is a Python int
  and `bytes_sent.eq(0)` raises AttributeError), so there is nothing to model.
* `self.start_position` is `Signal(range(len(data)))` — sized by the length in *bytes* — while the internal
  `start_position`/`position_in_stream` are sized by the number of *words*: the assignment truncates.
  The clamp compares with the byte length: `start_position >= len(data)` → `words - 1`.
* `first = (position_in_stream == self.start_position)` uses the *live* input, full width.

All widths are kept exactly (see DESIGN F6: callers can present `start_position == len`).
-/
namespace LunaVerif.StreamGen

/-- Width of `Signal(range(n))` (Amaranth 0.5: 0 bits for `range(1)`), also `ceil_log2(n)` for n ≥ 1. -/
def rangeWidth (n : Nat) : Nat := if n ≤ 1 then 0 else Nat.log2 (n - 1) + 1

structure Config where
  data : List Nat      -- constant_data, one entry per byte
  wb   : Nat           -- bytes per word (data_width / 8): 1, 2 or 4
  big  : Bool          -- data_endianness == "big"
  mlw  : Nat           -- max_length_width (>= 1)
  vw   : Nat           -- len(stream.valid): 1, or wb for streams with per-byte valid bits
deriving Repr

/-- `int.from_bytes(chunk, byteorder)` -/
def wordOf (big : Bool) (chunk : List Nat) : Nat :=
  if big then chunk.foldl (fun acc b => acc * 256 + b) 0
  else chunk.foldr (fun b acc => b + 256 * acc) 0

def nWords (c : Config) : Nat := (c.data.length + c.wb - 1) / c.wb

/-- the ROM initializer -/
def rom (c : Config) : List Nat :=
  (List.range (nWords c)).map (fun k => wordOf c.big ((c.data.drop (k * c.wb)).take c.wb))

def lastWordBytes (c : Config) : Nat :=
  if c.data.length % c.wb = 0 then c.wb else c.data.length % c.wb

/-- `valid_bits_last_word` as returned by `_get_initializer_value` -/
def validBitsLastWord (c : Config) : Nat := if c.wb = 1 then c.vw else lastWordBytes c

/-- `Const(1).replicate(n)` -/
def ones (n : Nat) : Nat := 2 ^ n - 1

def romRead (c : Config) (addr : Nat) : Nat :=
  match (rom c)[addr]? with
  | some w => w
  | none => 0                   -- simulator semantics of an out-of-range read

inductive Fsm | idle | streaming | done
deriving DecidableEq, Repr

structure State where
  fsm       : Fsm
  pos       : Nat      -- position_in_stream
  bytesSent : Nat      -- bytes_sent
  maxLen    : Nat      -- latched max_length
  romData   : Nat      -- rom_read_port.data
deriving DecidableEq, Repr

structure In where
  start         : Bool
  startPosition : Nat  -- self.start_position, `rangeWidth len` bits
  maxLength     : Nat  -- self.max_length, `mlw` bits
  ready         : Bool
deriving Repr

structure Out where
  valid        : Nat
  payload      : Nat
  first        : Bool
  last         : Bool
  done         : Bool
  outputLength : Nat
deriving DecidableEq, Repr

def init (_c : Config) : State := ⟨.idle, 0, 0, 0, 0⟩

/-- `on_last_packet = (position_in_stream == data_length - 1) | (bytes_sent + bytes_per_word >= max_length)` -/
def endData (c : Config) (pos : Nat) : Bool := pos == nWords c - 1
def endMax (c : Config) (bytesSent maxLen : Nat) : Bool := decide (bytesSent + c.wb ≥ maxLen)
def onLast (c : Config) (pos bytesSent maxLen : Nat) : Bool := endData c pos || endMax c bytesSent maxLen

/-- `stream.valid` while STREAMING -/
def validMask (c : Config) (pos bytesSent maxLen : Nat) : Nat :=
  if c.vw = 1 then 1                                   -- `if len(self.stream.valid) == 1: valid.eq(1)`
  else if onLast c pos bytesSent maxLen then
    let leftW := rangeWidth (c.wb + 1)                 -- bytes_left_over = Signal(range(bytes_per_word + 1))
    let left := (maxLen + 2 ^ (c.mlw + leftW) - bytesSent) % 2 ^ leftW
    let vMax := if 1 ≤ left ∧ left ≤ c.wb then ones left else 0       -- the Switch over 1..bytes_per_word
    let vData := ones (validBitsLastWord c) % 2 ^ c.vw
    if endData c pos && endMax c bytesSent maxLen then vData &&& vMax
    else if endData c pos then vData
    else vMax
  else ones c.vw

def step (c : Config) (s : State) (i : In) : State × Out :=
  let len := c.data.length
  let words := nWords c
  let posMod := 2 ^ rangeWidth words
  -- start position: clamp against the byte length, then truncate to the word-position width
  let startPos := if i.startPosition ≥ len then words - 1 else i.startPosition % posMod
  let last := onLast c s.pos s.bytesSent s.maxLen
  let outLen := if s.maxLen < len then s.maxLen else len
  match s.fsm with
  | .idle =>
    let go := i.start && decide (i.maxLength > 0)
    (⟨if go then .streaming else .idle, startPos, 0, i.maxLength, romRead c startPos⟩,
     ⟨0, 0, false, false, false, outLen⟩)
  | .streaming =>
    let adv := i.ready && !last
    let pos' := if adv then (s.pos + 1) % posMod else s.pos
    let bs' := if adv then (s.bytesSent + c.wb) % 2 ^ c.mlw else s.bytesSent
    (⟨if i.ready && last then .done else .streaming, pos', bs', s.maxLen, romRead c pos'⟩,
     ⟨validMask c s.pos s.bytesSent s.maxLen, s.romData, s.pos == i.startPosition, last, false, outLen⟩)
  | .done =>
    (⟨.idle, s.pos, s.bytesSent, s.maxLen, romRead c 0⟩, ⟨0, 0, false, false, true, outLen⟩)

def run (c : Config) : State → List In → List Out
  | _, [] => []
  | s, x :: xs => (step c s x).2 :: run c (step c s x).1 xs

/-! ## StreamSerializer: the same controller over a run-time array, counting words -/

structure SerConfig where
  n   : Nat            -- data_length
  mlw : Nat            -- max_length_width (0: max_length is the constant data_length)
deriving Repr

structure SerState where
  fsm       : Fsm
  pos       : Nat
  bytesSent : Nat
deriving DecidableEq, Repr

structure SerIn where
  start         : Bool
  startPosition : Nat
  maxLength     : Nat      -- live (NOT latched by the serializer)
  ready         : Bool
  data          : List Nat -- self.data[0..n-1], live
deriving Repr

structure SerOut where
  valid   : Bool
  payload : Nat
  first   : Bool
  last    : Bool
  done    : Bool
deriving DecidableEq, Repr

def serInit : SerState := ⟨.idle, 0, 0⟩

/-- width of `Signal.like(self.max_length)`: the port width, or that of the constant `data_length` -/
def serCountWidth (c : SerConfig) : Nat := if c.mlw != 0 then c.mlw else max 1 (Nat.log2 c.n + 1)

def serStep (c : SerConfig) (s : SerState) (i : SerIn) : SerState × SerOut :=
  let maxLen := if c.mlw != 0 then i.maxLength else c.n
  let startPos := if i.startPosition ≥ c.n then c.n - 1 else i.startPosition
  let onFirst := s.pos == i.startPosition
  -- `bytes_sent == max_length - 1`: the right side is -1 (never equal) for max_length = 0
  let onLast := s.pos == c.n - 1 || (decide (maxLen ≥ 1) && s.bytesSent == maxLen - 1)
  match s.fsm with
  | .idle =>
    let go := i.start && decide (maxLen > 0)
    (⟨if go then .streaming else .idle, startPos, 0⟩, ⟨false, 0, false, false, false⟩)
  | .streaming =>
    -- Array indexing beyond the end selects the last element
    let payload := match i.data[s.pos]? with
      | some v => v
      | none => i.data.getLastD 0
    let adv := i.ready && !onLast
    (⟨if i.ready && onLast then .done else .streaming,
      if adv then (s.pos + 1) % 2 ^ rangeWidth c.n else s.pos,
      if adv then (s.bytesSent + 1) % 2 ^ serCountWidth c else s.bytesSent⟩,
     ⟨true, payload, onFirst, onLast, false⟩)
  | .done => (⟨.idle, s.pos, s.bytesSent⟩, ⟨false, 0, false, false, true⟩)

def serRun (c : SerConfig) : SerState → List SerIn → List SerOut
  | _, [] => []
  | s, x :: xs => (serStep c s x).2 :: serRun c (serStep c s x).1 xs

end LunaVerif.StreamGen
