import LunaVerif.Model.Periph.IlaStream
import LunaVerif.Model.Periph.Uart
/-
Model of `luna.gateware.debug.ila.AsyncSerialILA` (C56, UART read-out).

The class instantiates a `StreamILA` (same clock domain; model `LunaVerif.IlaStream`, re-used unchanged) and a
`UARTMultibyteTransmitter(byte_width = bytes_per_sample, divisor)` (model `LunaVerif.Uart.mbStep` of C49, re-used
unchanged) and connects them with `uart.stream.stream_eq(ila.stream)`:

* `uart.stream.valid / payload = ila.stream.valid / payload` (`first` / `last` are not used by the transmitter),
* `ila.stream.ready = uart.stream.ready`, which is a function of the transmitter's *state* only (it does not depend
  on `valid`), so there is no combinational loop: `uartReady` computes it by probing `mbStep` with a dummy input.
* `tx = uart.tx`; `trigger`, `sampling`, `complete` are those of the StreamILA.
-/
namespace LunaVerif.IlaUart
open LunaVerif.Ila

structure Config where
  ila : Ila.Config
  d   : Nat            -- divisor (≥ 1)
  w   : Nat            -- bytes_per_sample (≥ 1)
deriving Repr

structure State where
  ila  : IlaStream.State
  uart : Uart.MBState
deriving DecidableEq, Repr

structure In where
  trigger : Bool
  inputs  : Nat
deriving Repr

structure Out where
  sampling : Bool
  complete : Bool
  tx       : Bool
  -- internal stream between the two sub-modules (compared in the co-simulation too)
  valid    : Bool
  ready    : Bool
  payload  : Nat
deriving DecidableEq, Repr

def init (c : Config) : State := ⟨IlaStream.init c.ila, Uart.mbInit⟩

/-- `uart.stream.ready` in the current cycle: a function of the transmitter's state only -/
def uartReady (c : Config) (u : Uart.MBState) : Bool := (Uart.mbStep c.d c.w u ⟨false, 0⟩).2.ready

/-- what the StreamILA sees in this cycle -/
def ilaIn (c : Config) (s : State) (i : In) : IlaStream.In := ⟨i.trigger, i.inputs, uartReady c s.uart⟩

/-- what the transmitter sees in this cycle -/
def uartIn (c : Config) (s : State) (i : In) : Uart.In :=
  ⟨(IlaStream.step c.ila s.ila (ilaIn c s i)).2.valid, (IlaStream.step c.ila s.ila (ilaIn c s i)).2.payload⟩

def step (c : Config) (s : State) (i : In) : State × Out :=
  let ri := IlaStream.step c.ila s.ila (ilaIn c s i)
  let ru := Uart.mbStep c.d c.w s.uart (uartIn c s i)
  (⟨ri.1, ru.1⟩, ⟨ri.2.sampling, ri.2.complete, ru.2.tx, ri.2.valid, uartReady c s.uart, ri.2.payload⟩)

def run (c : Config) : State → List In → List Out
  | _, [] => []
  | s, x :: xs => (step c s x).2 :: run c (step c s x).1 xs

def runState (c : Config) : State → List In → State
  | s, [] => s
  | s, x :: xs => runState c (step c s x).1 xs

end LunaVerif.IlaUart
