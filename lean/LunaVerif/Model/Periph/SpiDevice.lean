/-
Model of `luna.gateware.interface.spi.SPIDeviceInterface` (C50), as REPAIRED by the commit
"fix: wrap SPIDeviceInterface bit counter at word_size" (the counter is cleared when a word
completes; the unrepaired code only cleared it when chip select deasserts, see `stepBroken`).

The class has no input synchronisers: `spi.sck` goes through an optional inverter (clock polarity)
into ONE register `past_clk`, and the leading / trailing edge strobes are combinational functions
of `past_clk` and the current `sck`.  `sdi`, `cs` and `word_out` are used directly.  All outputs
(`word_in`, `word_complete`, `word_accepted`, `spi.sdo`) are registers.

Words are `List Bool` of length `word_size`, index 0 = bit 0 (LSB), so the Amaranth slices read
  `Cat(sdi, current_rx[:-1])`            = `sdi :: rx.dropLast`
  `Cat(current_rx[1:], sdi)`             = `rx.tail ++ [sdi]`
  `Cat(current_tx[1:], sdo).eq(tx)`      : `tx' = tx[0] :: tx.dropLast` (bit 0 is not assigned, it holds), `sdo' = tx[-1]`
  `Cat(sdo, current_tx[:-1]).eq(tx)`     : `sdo' = tx[0]`, `tx' = tx.tail ++ [tx[-1]]` (the top bit holds)
-/
namespace LunaVerif.SpiDevice

structure Config where
  w           : Nat     -- word_size (>= 1)
  pol         : Bool    -- clock_polarity
  phase       : Bool    -- clock_phase
  msbFirst    : Bool
  csIdlesHigh : Bool
deriving Repr

structure In where
  sck     : Bool
  sdi     : Bool
  cs      : Bool
  wordOut : List Bool
deriving Repr

structure State where
  pastClk      : Bool
  bitCount     : Nat
  tx           : List Bool
  rx           : List Bool
  wordIn       : List Bool
  wordAccepted : Bool
  wordComplete : Bool
  sdo          : Bool
deriving Repr

structure Out where
  wordIn       : List Bool
  wordComplete : Bool
  wordAccepted : Bool
  sdo          : Bool
deriving Repr

/-- Width of `Signal(range(0, word_size))`: `bits_for(word_size - 1)`. -/
def bcWidth (w : Nat) : Nat := if w ≤ 1 then 0 else Nat.log2 (w - 1) + 1

def zeros (w : Nat) : List Bool := List.replicate w false

def init (c : Config) : State :=
  { pastClk := false, bitCount := 0, tx := zeros c.w, rx := zeros c.w, wordIn := zeros c.w,
    wordAccepted := false, wordComplete := false, sdo := false }

def shiftRx (c : Config) (rx : List Bool) (sdi : Bool) : List Bool :=
  if c.msbFirst then sdi :: rx.dropLast else rx.tail ++ [sdi]

def shiftTx (c : Config) (tx : List Bool) : List Bool :=
  if c.msbFirst then
    match tx with
    | [] => []
    | b :: _ => b :: tx.dropLast
  else
    match tx.getLast? with
    | none => []
    | some l => tx.tail ++ [l]

def shiftOutBit (c : Config) (tx : List Bool) : Bool :=
  if c.msbFirst then tx.getLast?.getD false else tx.headD false

def serialClock (c : Config) (i : In) : Bool := i.sck != c.pol
def selected (c : Config) (i : In) : Bool := i.cs != c.csIdlesHigh
def leading (c : Config) (past : Bool) (i : In) : Bool := !past && serialClock c i
def trailing (c : Config) (past : Bool) (i : In) : Bool := past && !serialClock c i
def sampleEdge (c : Config) (past : Bool) (i : In) : Bool :=
  if c.phase then trailing c past i else leading c past i
def outputEdge (c : Config) (past : Bool) (i : In) : Bool :=
  if c.phase then leading c past i else trailing c past i

def outOf (s : State) : Out :=
  { wordIn := s.wordIn, wordComplete := s.wordComplete, wordAccepted := s.wordAccepted, sdo := s.sdo }

/-- One clock cycle.  `fixed = true` is the repaired code, `false` the code before the fix. -/
def stepGen (fixed : Bool) (c : Config) (s : State) (i : In) : State × Out :=
  let smp := sampleEdge c s.pastClk i
  let oe  := outputEdge c s.pastClk i
  let completing := s.bitCount + 1 == c.w
  -- statements outside `with m.If(chip_selected)`
  let s1 : State := { s with
    pastClk      := serialClock c i
    wordIn       := if s.wordAccepted then s.rx else s.wordIn
    wordComplete := s.wordAccepted
    wordAccepted := false }
  let s' : State :=
    if selected c i then
      let s2 : State :=
        if smp then
          { s1 with
            bitCount     := if fixed && completing then 0 else (s.bitCount + 1) % 2 ^ bcWidth c.w
            rx           := shiftRx c s.rx i.sdi
            wordAccepted := completing
            tx           := if completing then i.wordOut else s1.tx }
        else s1
      if oe then { s2 with tx := shiftTx c s.tx, sdo := shiftOutBit c s.tx } else s2
    else
      { s1 with tx := i.wordOut, bitCount := 0 }
  (s', outOf s)

def step : Config → State → In → State × Out := stepGen true
def stepBroken : Config → State → In → State × Out := stepGen false

def run (c : Config) : State → List In → List Out
  | _, [] => []
  | s, x :: xs => (step c s x).2 :: run c (step c s x).1 xs

def runBroken (c : Config) : State → List In → List Out
  | _, [] => []
  | s, x :: xs => (stepBroken c s x).2 :: runBroken c (stepBroken c s x).1 xs

/-- little-endian bits <-> number (driver only) -/
def bitsToNat : List Bool → Nat
  | [] => 0
  | b :: bs => (if b then 1 else 0) + 2 * bitsToNat bs

def natToBits : Nat → Nat → List Bool
  | 0, _ => []
  | w + 1, n => (n % 2 == 1) :: natToBits w (n / 2)

end LunaVerif.SpiDevice
