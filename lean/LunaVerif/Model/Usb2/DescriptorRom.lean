/-
Descriptor collections and the ROM image of `GetDescriptorHandlerBlock.generate_rom_content`
(luna/gateware/usb/usb2/descriptor.py) — C09.

A collection is the list of `(type, index, bytes)` triples the Python `DeviceDescriptorCollection`
iterates over (insertion order, keys pairwise distinct).  `Rom.layout` is a re-implementation of the
repo's pure-Python `generate_rom_content`, written as a closed form instead of the Python's
address-bumping loops:

    word 0 … maxType                 type table:   (number of indexes of this type) << 16 | byte address of its entry table
                                                   (0 for a type without descriptors)
    next |collection| words          entry tables: (descriptor length) << 16 | byte address of its data,
                                                   descriptors sorted by (type, index)
    rest                             the descriptors in the same order, big-endian, zero padded to 4 bytes

`index_map` (only when some type has non-consecutive indexes): `type << 8 | index  ↦  rank of that
index within its type`.  The correspondence with the Python function is checked on every run by
diffing the two on randomly generated collections (harness/translate/rom.py + Driver/C09.lean).
-/
namespace LunaVerif.Desc

structure Descr where
  ty    : Nat            -- descriptor type number   (0..255)
  idx   : Nat            -- descriptor index         (0..255)
  bytes : List Nat       -- raw descriptor
deriving Repr, DecidableEq

abbrev Collection := List Descr

/-- `type << 8 | index` — what the host puts into wValue. -/
def key (d : Descr) : Nat := d.ty * 256 + d.idx

/-- `amaranth.utils.bits_for`: width of `Signal(range(n+1))`. -/
def bitsFor (n : Nat) : Nat := if n = 0 then 0 else Nat.log2 n + 1

def find? (c : Collection) (ty idx : Nat) : Option Descr :=
  c.find? (fun d => d.ty == ty && d.idx == idx)

/-- One cycle of a descriptor handler's outputs (`tx.valid/first/last/payload`, `stall`). -/
structure Beat where
  valid   : Bool
  first   : Bool
  last    : Bool
  payload : Nat
  stall   : Bool
deriving Repr, DecidableEq

def Beat.quiet : Beat := ⟨false, false, false, 0, false⟩

namespace Rom

def insertSorted (d : Descr) : List Descr → List Descr
  | [] => [d]
  | e :: es => if key d ≤ key e then d :: e :: es else e :: insertSorted d es

/-- `sorted(descriptors.items())` / `sorted(descriptor_set.items())`: by type, then by index. -/
def sortDescrs (c : Collection) : List Descr := c.foldr insertSorted []

def maxType (c : Collection) : Nat := c.foldl (fun m d => max m d.ty) 0
def maxLen  (c : Collection) : Nat := c.foldl (fun m d => max m d.bytes.length) 0

def countType (c : Collection) (t : Nat) : Nat := (c.filter (fun d => d.ty == t)).length
def countBelow (c : Collection) (t : Nat) : Nat := (c.filter (fun d => d.ty < t)).length

/-- "Check if we need to support non-consecutive indexes." -/
def indirect (c : Collection) : Bool :=
  c.any (fun d =>
    let same := c.filter (fun e => e.ty == d.ty)
    same.foldl (fun m e => max m e.idx) 0 != same.length - 1)

def alignWords (n : Nat) : Nat := (n + 3) / 4

def typeWord (c : Collection) (t : Nat) : Nat :=
  let n := countType c t
  if n = 0 then 0 else n * 65536 + (4 * (maxType c + 1) + 4 * countBelow c t)

def typeTable (c : Collection) : List Nat := (List.range (maxType c + 1)).map (typeWord c)

/-- entry words for the (sorted) descriptors `s`, the first of which has its data at byte `addr`. -/
def entryTable : List Descr → Nat → List Nat
  | [], _ => []
  | d :: ds, addr => (d.bytes.length * 65536 + addr) :: entryTable ds (addr + 4 * alignWords d.bytes.length)

/-- big-endian 32-bit words of a byte string, zero padded. -/
def packWords : List Nat → List Nat
  | [] => []
  | [a] => [a * 16777216]
  | [a, b] => [a * 16777216 + b * 65536]
  | [a, b, c] => [a * 16777216 + b * 65536 + c * 256]
  | a :: b :: c :: d :: rest => (a * 16777216 + b * 65536 + c * 256 + d) :: packWords rest

def dataWords (s : List Descr) : List Nat := s.flatMap (fun d => packWords d.bytes)

/-- rank of each descriptor within its type, in sorted order. -/
def indexMapOf : List Descr → List Descr → List (Nat × Nat)
  | _, [] => []
  | seen, d :: ds => (key d, (seen.filter (fun e => e.ty == d.ty)).length) :: indexMapOf (d :: seen) ds

structure Image where
  words    : Array Nat            -- 32-bit ROM words
  maxLen   : Nat                  -- descriptor_max_length
  maxType  : Nat                  -- max_type_index
  indexMap : List (Nat × Nat)     -- empty = direct indexing
deriving Repr

/-- Re-implementation of `generate_rom_content`. -/
def layout (c : Collection) : Image :=
  let s := sortDescrs c
  let dataBase := 4 * (maxType c + 1) + 4 * c.length
  { words    := (typeTable c ++ entryTable s dataBase ++ dataWords s).toArray
    maxLen   := maxLen c
    maxType  := maxType c
    indexMap := if indirect c then indexMapOf [] s else [] }

end Rom

/-! ### The pointer hops the gateware performs on a ROM image -/

/-- width of the ROM read port's address. -/
def Rom.Image.addrW (img : Rom.Image) : Nat := bitsFor (img.words.size - 1)
/-- width of `position_in_stream = Signal(range(descriptor_max_length + 1))`. -/
def Rom.Image.posW (img : Rom.Image) : Nat := bitsFor img.maxLen

def Rom.Image.read (img : Rom.Image) (addr : Nat) : Nat := img.words.getD addr 0

/-- the index the FSM compares with the count word: remapped through `index_map` when present
(`0xFF` = "invalid index" default of the Switch), the raw index otherwise. -/
def Rom.Image.descrIdx (img : Rom.Image) (ty idx : Nat) : Nat :=
  if img.indexMap.isEmpty then idx
  else match img.indexMap.lookup (ty * 256 + idx) with
    | some r => r
    | none => 255

/-- `rom_element_pointer` of a ROM word: bits [2, 2+addrW). -/
def Rom.Image.ptrOf (img : Rom.Image) (w : Nat) : Nat := (w / 4) % 2 ^ img.addrW
/-- `rom_element_count` of a ROM word: the upper half. -/
def countOf (w : Nat) : Nat := w / 65536

/-- START / LOOKUP_TYPE / LOOKUP_DESCRIPTOR: `some w` = the entry word `(length << 16) | byte address`
reached by the two pointer hops, or `none` = STALL. -/
def Rom.Image.lookup (img : Rom.Image) (ty idx : Nat) : Option Nat :=
  if ty ≤ img.maxType then
    let w1 := img.read (ty % 2 ^ img.addrW)
    let di := img.descrIdx ty idx
    if di ≥ countOf w1 then none
    else some (img.read ((img.ptrOf w1 + di) % 2 ^ img.addrW))
  else none

/-- byte `k` of the descriptor stored from word `base`: big-endian byte `k % 4` of word `base + k/4`. -/
def Rom.Image.byteAt (img : Rom.Image) (base k : Nat) : Nat :=
  (img.read ((base + k / 4) % 2 ^ img.addrW) / 256 ^ (3 - k % 4)) % 256

def Rom.Image.bytesAt (img : Rom.Image) (base len : Nat) : List Nat :=
  (List.range len).map (img.byteAt base)

/-- What `rom_lookup_correct` says about one request: a descriptor that is present is reached by
the pointer hops — the entry word is word aligned, carries the descriptor's length, and the bytes
read back from its address are the descriptor; the longest-descriptor bound covers it — and an
absent one is refused. -/
def lookupOk (img : Rom.Image) (c : Collection) (ty idx : Nat) : Bool :=
  match find? c ty idx with
  | some d =>
    (match img.lookup ty idx with
     | some w => w % 4 == 0 && countOf w == d.bytes.length && d.bytes.length ≤ img.maxLen
                 && img.bytesAt (img.ptrOf w) d.bytes.length == d.bytes
     | none => false)
  | none => (img.lookup ty idx).isNone

/-- The ROM answers every one of the 65536 possible wValues correctly. -/
def romOk (img : Rom.Image) (c : Collection) : Bool :=
  (List.range 256).all (fun ty => (List.range 256).all (fun idx => lookupOk img c ty idx))

/-- Constructor preconditions of the Python code / of the generators for a collection:
non-empty, keys distinct, bytes are bytes, type/index fit their 8-bit fields, every descriptor
non-empty, and the ROM stays below 64 KiB (struct.pack(">HH") would raise otherwise). -/
def wellFormed (c : Collection) : Bool :=
  !c.isEmpty
  && c.all (fun d => d.ty < 256 && d.idx < 256 && !d.bytes.isEmpty && d.bytes.length < 65536
                      && d.bytes.all (· < 256))
  && (c.map key).Nodup
  && 4 * (Rom.layout c).words.size < 65536

end LunaVerif.Desc
