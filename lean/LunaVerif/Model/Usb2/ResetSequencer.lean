/-
Model of `luna.gateware.usb.usb2.reset.USBResetSequencer` (C19), as repaired by the three `fix:`
commits on branch wt-phy (F10: DETECT_HS_SUSPEND guards the chirp start by the speed restriction;
F10b: the 2.5 ms time-out is checked last in AWAIT_HOST_K/J; F10c: a K-J pair is counted only while
the J is still present).

One `step*` function per FSM state, written in program order: every `let x := if c then v else x`
is one `with m.If(c): … x.eq(v)` of the source, so later assignments win exactly as in Amaranth.
`timer` and `line_state_time` are `Signal(range(0, _CYCLES_3_MILLISECONDS+1))`; they count up in
every cycle and wrap at `M = 2^width` (18 bits at the real constants).
-/
namespace LunaVerif.ResetSeq

structure Config where
  c2p5us : Nat
  c5us   : Nat
  c200us : Nat
  c2ms   : Nat
  c2p5ms : Nat
  c3ms   : Nat
  M      : Nat      -- 2 ^ (bit width of timer / line_state_time)
deriving Repr, DecidableEq

/-- The class-level constants of the real gateware (60 MHz clock). -/
def luna : Config := ⟨150, 300, 12000, 120000, 150000, 180000, 262144⟩

inductive Fsm
  | INITIALIZE | LS_FS_NON_RESET | HS_NON_RESET | START_HS_DETECTION
  | PREPARE_FOR_CHIRP_0 | PREPARE_FOR_CHIRP_1 | DEVICE_CHIRP
  | AWAIT_HOST_K | IN_HOST_K | AWAIT_HOST_J | IN_HOST_J
  | IS_HIGH_SPEED | IS_LOW_OR_FULL_SPEED | DETECT_HS_SUSPEND | SUSPENDED | DISCONNECT
deriving DecidableEq, Repr

inductive Speed | HIGH | FULL | LOW            -- USBSpeed: 0, 1, 2
deriving DecidableEq, Repr
inductive OpMode | NORMAL | NON_DRIVING | CHIRP -- UTMIOperatingMode: 0, 1, 2
deriving DecidableEq, Repr
/-- UTMI line state, full/high-speed naming: SE0 = 0b00, J = 0b01, K = 0b10, SE1 = 0b11.
(At low speed the roles of the two middle values are exchanged.) -/
inductive Line | SE0 | J | K | SE1
deriving DecidableEq, Repr

structure State where
  fsm        : Fsm
  timer      : Nat
  lst        : Nat      -- line_state_time
  validPairs : Nat
  wasHs      : Bool     -- was_hs_pre_suspend
  tddis      : Bool
  speed      : Speed    -- current_speed        (registered output)
  opMode     : OpMode   -- operating_mode       (registered output)
  termSel    : Bool     -- termination_select   (registered output)
deriving Repr, DecidableEq

structure In where
  lowOnly    : Bool
  fullOnly   : Bool
  busBusy    : Bool
  vbus       : Bool
  line       : Line
  disconnect : Bool
deriving Repr, DecidableEq

structure Out where
  busReset  : Bool
  suspended : Bool
  speed     : Speed
  opMode    : OpMode
  termSel   : Bool
  txValid   : Bool
deriving Repr, DecidableEq

def init : State :=
  { fsm := .INITIALIZE, timer := 0, lst := 0, validPairs := 0, wasHs := false, tddis := false,
    speed := .FULL, opMode := .NORMAL, termSel := true }

/-- `x + 1` truncated to the counter width. -/
def wrapInc (M x : Nat) : Nat := (x + 1) % M

def restricted (i : In) : Bool := i.lowOnly || i.fullOnly

/-- `bus_idle`: SE0 (squelch) at high speed, J at full speed, the low-speed J (= 0b10) otherwise. -/
def busIdle (sp : Speed) (l : Line) : Bool :=
  match sp with
  | .HIGH => l == .SE0
  | .FULL => l == .J
  | .LOW  => l == .K

/-- Registered outputs + the given combinational strobes. -/
def mkOut (s : State) (busReset suspended txValid : Bool) : Out :=
  ⟨busReset, suspended, s.speed, s.opMode, s.termSel, txValid⟩

def stepInitialize (c : Config) (s : State) (i : In) : State × Out :=
  ({ s with fsm := .LS_FS_NON_RESET, timer := 0, lst := 0,
            speed := if i.lowOnly then .LOW else s.speed },
   mkOut s false false false)

def stepLsFs (c : Config) (s : State) (i : In) : State × Out :=
  let timer := wrapInc c.M s.timer
  let lst := wrapInc c.M s.lst
  let nxt := Fsm.LS_FS_NON_RESET
  -- with m.If(line_state != SE0)
  let timer := if i.line != .SE0 then 0 else timer
  let nxt := if i.line != .SE0 && i.disconnect then .DISCONNECT else nxt
  -- with m.If(~vbus_connected)
  let timer := if !i.vbus then 0 else timer
  let br := !i.vbus
  -- with m.If(timer == 5us)
  let br := if s.timer == c.c5us then true else br
  let nxt := if s.timer == c.c5us && !restricted i then .START_HS_DETECTION else nxt
  -- with m.If(~bus_idle)
  let lst := if !busIdle s.speed i.line then 0 else lst
  -- with m.If(line_state_time == 3ms)
  let wasHs := if s.lst == c.c3ms then false else s.wasHs
  let nxt := if s.lst == c.c3ms then .SUSPENDED else nxt
  ({ s with fsm := nxt, timer := timer, lst := lst, wasHs := wasHs }, mkOut s br false false)

def stepHs (c : Config) (s : State) (i : In) : State × Out :=
  let timer := wrapInc c.M s.timer
  let lst := wrapInc c.M s.lst
  let nxt := Fsm.HS_NON_RESET
  let timer := if i.line != .SE0 then 0 else timer
  let nxt := if i.line != .SE0 && i.disconnect then .DISCONNECT else nxt
  -- with m.If(~vbus_connected)
  let br := !i.vbus
  let nxt := if !i.vbus then .IS_LOW_OR_FULL_SPEED else nxt
  -- with m.If(timer == 3ms)
  let hit := s.timer == c.c3ms
  let timer := if hit then 0 else timer
  let nxt := if hit then .DETECT_HS_SUSPEND else nxt
  -- with m.If(full_speed_only | low_speed_only)
  let nxt := if restricted i then .IS_LOW_OR_FULL_SPEED else nxt
  ({ s with fsm := nxt, timer := timer, lst := lst,
            speed := if hit then .FULL else s.speed,
            opMode := if hit then .NORMAL else s.opMode,
            termSel := if hit then true else s.termSel },
   mkOut s br false false)

def stepStartHs (c : Config) (s : State) (i : In) : State × Out :=
  ({ s with fsm := .PREPARE_FOR_CHIRP_0, timer := 0, lst := wrapInc c.M s.lst,
            speed := .HIGH, opMode := .CHIRP, termSel := true },
   mkOut s false false false)

def stepPrepare (c : Config) (s : State) (i : In) (cur nxt : Fsm) : State × Out :=
  ({ s with fsm := if !i.busBusy then nxt else cur,
            timer := wrapInc c.M s.timer, lst := wrapInc c.M s.lst },
   mkOut s false false false)

def stepDeviceChirp (c : Config) (s : State) (i : In) : State × Out :=
  let hit := s.timer == c.c2ms
  ({ s with fsm := if hit then .AWAIT_HOST_K else .DEVICE_CHIRP,
            timer := if hit then 0 else wrapInc c.M s.timer,
            lst := wrapInc c.M s.lst,
            validPairs := if hit then 0 else s.validPairs },
   mkOut s false false true)

def stepAwaitK (c : Config) (s : State) (i : In) : State × Out :=
  let nxt := Fsm.AWAIT_HOST_K
  let nxt := if i.line == .K then .IN_HOST_K else nxt
  let lst := if i.line == .K then 0 else wrapInc c.M s.lst
  let nxt := if s.timer == c.c2p5ms then .IS_LOW_OR_FULL_SPEED else nxt     -- (F10b: checked last)
  ({ s with fsm := nxt, timer := wrapInc c.M s.timer, lst := lst }, mkOut s false false false)

def stepInK (c : Config) (s : State) (i : In) : State × Out :=
  let nxt := Fsm.IN_HOST_K
  let nxt := if s.lst == c.c2p5us then .AWAIT_HOST_J else nxt
  let nxt := if i.line != .K then .AWAIT_HOST_K else nxt
  let nxt := if s.timer == c.c2p5ms then .IS_LOW_OR_FULL_SPEED else nxt
  ({ s with fsm := nxt, timer := wrapInc c.M s.timer, lst := wrapInc c.M s.lst },
   mkOut s false false false)

def stepAwaitJ (c : Config) (s : State) (i : In) : State × Out :=
  let nxt := Fsm.AWAIT_HOST_J
  let nxt := if i.line == .J then .IN_HOST_J else nxt
  let lst := if i.line == .J then 0 else wrapInc c.M s.lst
  let nxt := if s.timer == c.c2p5ms then .IS_LOW_OR_FULL_SPEED else nxt     -- (F10b: checked last)
  ({ s with fsm := nxt, timer := wrapInc c.M s.timer, lst := lst }, mkOut s false false false)

def stepInJ (c : Config) (s : State) (i : In) : State × Out :=
  let nxt := Fsm.IN_HOST_J
  -- with m.If((line_state_time == 2.5us) & (line_state == J))          (F10c)
  let hit := s.lst == c.c2p5us && i.line == .J
  let nxt := if hit then (if s.validPairs == 2 then .IS_HIGH_SPEED else .AWAIT_HOST_K) else nxt
  let vp := if hit && s.validPairs != 2 then (s.validPairs + 1) % 4 else s.validPairs
  let nxt := if i.line != .J then .AWAIT_HOST_J else nxt
  let nxt := if s.timer == c.c2p5ms then .IS_LOW_OR_FULL_SPEED else nxt
  ({ s with fsm := nxt, timer := wrapInc c.M s.timer, lst := wrapInc c.M s.lst, validPairs := vp },
   mkOut s false false false)

def stepIsHs (c : Config) (s : State) (i : In) : State × Out :=
  ({ s with fsm := .HS_NON_RESET, timer := 0, lst := 0,
            speed := .HIGH, opMode := .NORMAL, termSel := false },
   mkOut s false false false)

def stepIsLsFs (c : Config) (s : State) (i : In) : State × Out :=
  let go := i.line != .SE0
  ({ s with fsm := if go then .LS_FS_NON_RESET else .IS_LOW_OR_FULL_SPEED,
            timer := if go then 0 else wrapInc c.M s.timer,
            lst := if go then 0 else wrapInc c.M s.lst,
            opMode := .NORMAL, termSel := true,
            speed := if i.lowOnly then .LOW else .FULL },
   mkOut s false false false)

def stepDetectHsSuspend (c : Config) (s : State) (i : In) : State × Out :=
  let hit := s.timer == c.c200us
  let isJ := i.line == .J
  let nxt := if hit then
               (if isJ then Fsm.SUSPENDED
                else if !restricted i then .START_HS_DETECTION else .IS_LOW_OR_FULL_SPEED)   -- (F10)
             else .DETECT_HS_SUSPEND
  ({ s with fsm := nxt, timer := if hit then 0 else wrapInc c.M s.timer, lst := wrapInc c.M s.lst,
            wasHs := if hit && isJ then true else s.wasHs },
   mkOut s (hit && !isJ) false false)

def stepSuspended (c : Config) (s : State) (i : In) : State × Out :=
  let timer := wrapInc c.M s.timer
  let lst := wrapInc c.M s.lst
  let nxt := Fsm.SUSPENDED
  -- resume: K of the configured speed (low speed: K = 0b01)
  let isK := (i.lowOnly && i.line == .J) || (!i.lowOnly && i.line == .K)
  let timer := if isK then 0 else timer
  let nxt := if isK then (if s.wasHs then .IS_HIGH_SPEED else .LS_FS_NON_RESET) else nxt
  let lst := if isK && !s.wasHs then 0 else lst
  -- with m.If(line_state != SE0)
  let timer := if i.line != .SE0 then 0 else timer
  -- with m.If(timer == 2.5us)
  let hit := s.timer == c.c2p5us
  let timer := if hit then 0 else timer
  let nxt := if hit then (if restricted i then .LS_FS_NON_RESET else .START_HS_DETECTION) else nxt
  let lst := if hit && restricted i then 0 else lst
  ({ s with fsm := nxt, timer := timer, lst := lst }, mkOut s hit true false)

def stepDisconnect (c : Config) (s : State) (i : In) : State × Out :=
  let tddis := if s.timer == c.c2p5us then true else s.tddis
  let leave := !i.disconnect && s.tddis
  ({ s with fsm := if leave then .INITIALIZE else .DISCONNECT,
            timer := wrapInc c.M s.timer, lst := wrapInc c.M s.lst,
            tddis := if leave then false else tddis,
            opMode := if leave then .NORMAL else .NON_DRIVING,
            speed := if leave then .FULL else s.speed,
            termSel := if leave then true else s.termSel },
   mkOut s false false false)

/-- One clock cycle of the `usb` domain. -/
def step (c : Config) (s : State) (i : In) : State × Out :=
  match s.fsm with
  | .INITIALIZE           => stepInitialize c s i
  | .LS_FS_NON_RESET      => stepLsFs c s i
  | .HS_NON_RESET         => stepHs c s i
  | .START_HS_DETECTION   => stepStartHs c s i
  | .PREPARE_FOR_CHIRP_0  => stepPrepare c s i .PREPARE_FOR_CHIRP_0 .PREPARE_FOR_CHIRP_1
  | .PREPARE_FOR_CHIRP_1  => stepPrepare c s i .PREPARE_FOR_CHIRP_1 .DEVICE_CHIRP
  | .DEVICE_CHIRP         => stepDeviceChirp c s i
  | .AWAIT_HOST_K         => stepAwaitK c s i
  | .IN_HOST_K            => stepInK c s i
  | .AWAIT_HOST_J         => stepAwaitJ c s i
  | .IN_HOST_J            => stepInJ c s i
  | .IS_HIGH_SPEED        => stepIsHs c s i
  | .IS_LOW_OR_FULL_SPEED => stepIsLsFs c s i
  | .DETECT_HS_SUSPEND    => stepDetectHsSuspend c s i
  | .SUSPENDED            => stepSuspended c s i
  | .DISCONNECT           => stepDisconnect c s i

/-- The state after a whole input history (oldest first). -/
def runState (c : Config) : State → List In → State
  | s, [] => s
  | s, i :: is => runState c (step c s i).1 is

/-! Encodings used by the line-protocol driver. -/
def Speed.toNat : Speed → Nat | .HIGH => 0 | .FULL => 1 | .LOW => 2
def OpMode.toNat : OpMode → Nat | .NORMAL => 0 | .NON_DRIVING => 1 | .CHIRP => 2
def Line.ofCode (n : Nat) : Line :=
  match n % 4 with | 0 => .SE0 | 1 => .J | 2 => .K | _ => .SE1
def Fsm.toNat : Fsm → Nat
  | .INITIALIZE => 0 | .LS_FS_NON_RESET => 1 | .HS_NON_RESET => 2 | .START_HS_DETECTION => 3
  | .PREPARE_FOR_CHIRP_0 => 4 | .PREPARE_FOR_CHIRP_1 => 5 | .DEVICE_CHIRP => 6
  | .AWAIT_HOST_K => 7 | .IN_HOST_K => 8 | .AWAIT_HOST_J => 9 | .IN_HOST_J => 10
  | .IS_HIGH_SPEED => 11 | .IS_LOW_OR_FULL_SPEED => 12 | .DETECT_HS_SUSPEND => 13
  | .SUSPENDED => 14 | .DISCONNECT => 15

/-- Output ports packed into one natural:
bit0 bus_reset, bit1 suspended, bits2-3 current_speed, bits4-5 operating_mode,
bit6 termination_select, bit7 tx.valid. -/
def Out.pack (o : Out) : Nat :=
  (if o.busReset then 1 else 0) + (if o.suspended then 2 else 0) + 4 * o.speed.toNat
    + 16 * o.opMode.toNat + (if o.termSel then 64 else 0) + (if o.txValid then 128 else 0)

end LunaVerif.ResetSeq
