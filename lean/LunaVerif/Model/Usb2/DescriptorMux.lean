import LunaVerif.Model.Usb2.DescriptorBlock
import LunaVerif.Model.Usb2.DescriptorDistributed
/-
Cycle-level model of `GetDescriptorHandlerMux` (luna/gateware/usb/usb2/descriptor.py) in the one
configuration `StandardRequestHandler.get_descriptor_handler_submodule` builds: handler 0 =
`GetDescriptorHandlerBlock(fixed descriptors)`, handler 1 = `GetDescriptorHandlerDistributed(runtime
descriptors)` — C09.

Inputs fan out to both handlers; `tx.ready` is passed back to both.  The mux stalls when *all*
handlers have stalled the current request; a handler's stall pulse is remembered in `stall_latch_i`.
The model follows the code *with the repair* "fix: GetDescriptorHandlerMux ignores stall latches left
over from the previous request": `stalled_i = handler_i.stall | (stall_latch_i & ~start)` (the latches
are only cleared on the edge after `start`, so in the start cycle they still describe the previous
request).

tx: `valid/first/last` are ORed; `payload` goes through a `OneHotMultiplexer` whose encoder output
is 0 unless exactly one `valid` is high, i.e. handler 1's payload is taken iff only handler 1 is
valid and handler 0's otherwise.
-/
namespace LunaVerif.Desc.Mux

structure Config where
  block : Block.Config
  dist  : Dist.Config

structure State where
  b      : Block.State
  d      : Dist.State
  latch0 : Bool
  latch1 : Bool

abbrev In := Block.In
abbrev Out := Block.Out

def init (c : Config) : State := ⟨Block.init, Dist.init c.dist, false, false⟩

def step (c : Config) (s : State) (i : In) : State × Out :=
  let (b', ob) := Block.step c.block s.b i
  let (d', od) := Dist.step c.dist s.d ⟨i.value, i.length, i.startPos, i.start, i.ready⟩
  let stalled0 := ob.stall || (s.latch0 && !i.start)
  let stalled1 := od.stall || (s.latch1 && !i.start)
  let stall := stalled0 && stalled1
  -- "with m.If(self.start | self.stall): latch.eq(0)"  then  "with m.If(handler.stall & ~self.stall): latch.eq(1)"
  let upd (latch hstall : Bool) : Bool :=
    if hstall && !stall then true else if i.start || stall then false else latch
  let payload := if od.valid && !ob.valid then od.payload else ob.payload
  (⟨b', d', upd s.latch0 ob.stall, upd s.latch1 od.stall⟩,
   ⟨ob.valid || od.valid, ob.first || od.first, ob.last || od.last, payload, stall⟩)

def run (c : Config) : State → List In → List Out
  | _, [] => []
  | s, i :: is => (step c s i).2 :: run c (step c s i).1 is

end LunaVerif.Desc.Mux
