/-
Model of `luna.gateware.usb.usb2.packet.USBInterpacketTimer` (C05), as REPAIRED by the `fix:`
commit that makes the low-speed branch use the low-speed table (the unrepaired code compared the
counter with the high-speed constants in the `Else` branch).

The gateware keeps one saturating counter in the `usb` domain:

    with m.If(any_reset):                        counter <= 0
    with m.Elif(counter < counter_max + 1):      counter <= counter + 1

(`any_reset` is the OR of the `start` strobes of all attached interfaces) and derives three
combinational strobes from `counter == constant`, the constants being selected by the `speed`
input: `speed == HIGH (0)`, `speed == FULL (1)`, else (2 = LOW, and also the unused encoding 3).
In an `fs_only` build the HIGH and else branches drive nothing (the strobes stay 0) and the
counter only counts to the full-speed receive time-out.

Supported constructor arguments: `domain_clock` 60 MHz (any `fs_only`) or 12 MHz (`fs_only=True`
only; the constructor raises `ValueError` for 12 MHz without `fs_only`).

Core Lean only.
-/
namespace LunaVerif.InterpacketTimer

structure Config where
  clk12  : Bool      -- domain_clock = 12e6 (otherwise 60e6)
  fsOnly : Bool
deriving Repr, DecidableEq

/-- The configurations the Python constructor accepts. -/
def Config.valid (c : Config) : Bool := !c.clk12 || c.fsOnly

/-! The class-level tables of the Python source (`_HS_RX_TO_TX_DELAY` …), indexed by clock. -/
def hsRxToTxDelay : Nat × Nat := (1, 24)                       -- 60 MHz only
def fsRxToTxDelay (clk12 : Bool) : Nat × Nat := if clk12 then (2, 7) else (10, 32)
def lsRxToTxDelay : Nat × Nat := (80, 260)                     -- 60 MHz only
def hsTxToRxTimeout : Nat := 92
def fsTxToRxTimeout (clk12 : Bool) : Nat := if clk12 then 16 else 80
def lsTxToRxTimeout : Nat := 640

/-- `self._counter_max`. -/
def counterMax (c : Config) : Nat :=
  if c.fsOnly then fsTxToRxTimeout c.clk12 else lsTxToRxTimeout

structure In where
  start : Bool       -- OR of all interfaces' start strobes
  speed : Nat        -- 2-bit `speed` input
deriving Repr

structure Out where
  txAllowed : Bool
  txTimeout : Bool
  rxTimeout : Bool
deriving Repr, DecidableEq

/-- The counter register. -/
abbrev State := Nat

def init : State := 0

def noStrobe : Out := ⟨false, false, false⟩

/-- Combinational strobes of the current cycle (they depend on the counter and on `speed` only). -/
def outputs (c : Config) (counter : Nat) (speed : Nat) : Out :=
  if speed = 0 then
    if c.fsOnly then noStrobe
    else ⟨counter == hsRxToTxDelay.1, counter == hsRxToTxDelay.2, counter == hsTxToRxTimeout⟩
  else if speed = 1 then
    ⟨counter == (fsRxToTxDelay c.clk12).1, counter == (fsRxToTxDelay c.clk12).2,
     counter == fsTxToRxTimeout c.clk12⟩
  else
    if c.fsOnly then noStrobe
    else ⟨counter == lsRxToTxDelay.1, counter == lsRxToTxDelay.2, counter == lsTxToRxTimeout⟩

/-- Next counter value. -/
def next (c : Config) (counter : Nat) (start : Bool) : Nat :=
  if start then 0
  else if counter < counterMax c + 1 then counter + 1
  else counter

def step (c : Config) (s : State) (i : In) : State × Out :=
  (next c s i.start, outputs c s i.speed)

/-- Outputs for a whole input history (oldest first). -/
def run (c : Config) : State → List In → List Out
  | _, [] => []
  | s, i :: is => (step c s i).2 :: run c (step c s i).1 is

end LunaVerif.InterpacketTimer
