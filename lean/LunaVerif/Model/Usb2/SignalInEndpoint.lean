/-
Model of `luna.gateware.usb.usb2.endpoints.status.USBSignalInEndpoint` (C17), cycle level.

The gateware latches `signal` when an IN token for its endpoint becomes ready for a response while
the FSM is IDLE, streams the `ceil(width/8)` bytes of the latched value to the packet generator
(`tx.valid/first/last/payload`, advancing on `tx.ready`), waits for the host's ACK (which flips bit 0
of `tx_pid_toggle` and pulses `status_read_complete`), and after a new token without ACK waits in
RETRANSMIT for the next request and sends the *latched* value again.

Quirks kept as in the source:
* in WAIT_FOR_ACK the `new_token` test comes after the `ack` test, so if both are high in one cycle
  the toggle flips, `status_read_complete` pulses and the FSM still goes to RETRANSMIT;
* `packet_requested` is ignored in TRANSMIT_RESPONSE and WAIT_FOR_ACK, `ack` everywhere except
  WAIT_FOR_ACK; (repaired code) an `ack` counts only while the tokenizer still shows an IN token for
  this endpoint (`handshakes_in.ack & targeting_endpoint`);
* (repaired code, 61d16f5) ClearFeature(ENDPOINT_HALT) naming this IN endpoint resets the toggle to DATA0 in
  every state, overriding a flip of the same cycle;
* with `signal_domain != "usb"` the source creates a 1-bit synchroniser whose output is never used
  (the latch still samples `self.signal` directly), so the behaviour is the same.

`tx.payload` is a combinational mux over the latched bytes in every state; it is modelled only for
indices in range (`valid = 1`); the harness masks it while `valid = 0`.
-/
namespace LunaVerif.SignalIn

structure Config where
  width     : Nat      -- 1..64 in the property's configuration table (any width >= 1 in the theorems)
  bigEndian : Bool
  epNum     : Nat
deriving Repr

inductive Fsm | idle | transmit | waitAck | retransmit
deriving Repr, DecidableEq

structure State where
  fsm     : Fsm
  latched : Nat     -- latched_signal
  sent    : Nat     -- bytes_transmitted
  toggle  : Bool    -- tx_pid_toggle[0]   (bit 1 is never driven)
deriving Repr

structure In where
  endpoint : Nat
  isIn     : Bool
  rfr      : Bool    -- tokenizer.ready_for_response
  newToken : Bool
  ack      : Bool    -- handshakes_in.ack
  txReady  : Bool
  signal   : Nat
  clearHalt : Bool := false   -- clear_endpoint_halt_in.enable & .direction & (.number == endpoint_number)
deriving Repr

structure Out where
  valid    : Bool
  first    : Bool
  last     : Bool
  payload  : Nat
  toggle   : Bool
  complete : Bool    -- status_read_complete
deriving Repr

def init : State := ⟨.idle, 0, 0, false⟩

/-- bytes_in_signal -/
def nbytes (c : Config) : Nat := (c.width + 7) / 8

/-- `targeting_endpoint & tokenizer.ready_for_response` -/
def packetRequested (c : Config) (i : In) : Bool :=
  i.endpoint == c.epNum && i.isIn && i.rfr

/-- `targeting_endpoint`: the most recent token is an IN for this endpoint. -/
def targeting (c : Config) (i : In) : Bool := i.endpoint == c.epNum && i.isIn

/-- The ACK test of WAIT_FOR_ACK (repaired code): host handshakes are broadcast, only an ACK that
follows an IN token for this endpoint counts. -/
def ackTaken (c : Config) (i : In) : Bool := i.ack && targeting c i

/-- `signal_bytes[index]` -/
def byteAt (v idx : Nat) : Nat := v / 2 ^ (8 * idx) % 256

/-- `index_to_transmit` -/
def txIndex (c : Config) (sent : Nat) : Nat :=
  if c.bigEndian then nbytes c - sent - 1 else sent

/-- The FSM and its registers (everything except the halt-clear override). -/
def stepCore (c : Config) (s : State) (i : In) : State × Out :=
  let payload := byteAt s.latched (txIndex c s.sent)
  match s.fsm with
  | .idle =>
    let o : Out := ⟨false, false, false, payload, s.toggle, false⟩
    if packetRequested c i then
      ({ s with sent := 0, latched := i.signal % 2 ^ c.width, fsm := .transmit }, o)
    else (s, o)
  | .transmit =>
    let isLast := s.sent + 1 == nbytes c
    let o : Out := ⟨true, s.sent == 0, isLast, payload, s.toggle, false⟩
    if i.txReady then
      ({ s with sent := s.sent + 1, fsm := if isLast then .waitAck else .transmit }, o)
    else (s, o)
  | .waitAck =>
    let o : Out := ⟨false, false, false, payload, s.toggle, ackTaken c i⟩
    let s1 := if ackTaken c i then { s with toggle := !s.toggle, fsm := .idle } else s
    let s2 := if i.newToken then { s1 with fsm := .retransmit } else s1
    (s2, o)
  | .retransmit =>
    let o : Out := ⟨false, false, false, payload, s.toggle, false⟩
    if packetRequested c i then ({ s with sent := 0, fsm := .transmit }, o) else (s, o)

/-- One clock cycle.  The halt-clear statement is emitted after the FSM in the source (/repo 61d16f5), so it wins
over a toggle flip of the same cycle: the toggle register ends at 0; nothing else changes (the
`tx_pid_toggle` output is the register, so the 0 is visible from the next cycle). -/
def step (c : Config) (s : State) (i : In) : State × Out :=
  let r := stepCore c s i
  (if i.clearHalt then { r.1 with toggle := false } else r.1, r.2)

/-- The per-cycle trace (input, output) of a whole input history. -/
def trace (c : Config) : State → List In → List (In × Out)
  | _, [] => []
  | s, i :: is => (i, (step c s i).2) :: trace c (step c s i).1 is

/-- State reached after an input history. -/
def runState (c : Config) : State → List In → State
  | s, [] => s
  | s, i :: is => runState c (step c s i).1 is

end LunaVerif.SignalIn
