import LunaVerif.Core.Utmi
import LunaVerif.Model.Usb2.DataCrc
/-
Model of `luna.gateware.usb.usb2.request.USBSetupDecoder` (C06) in the composition its
`standalone=True` mode builds (and USBDevice builds around it): the decoder FSM, its
`USBDataPacketDeserializer(max_packet_size=8)`, a `USBTokenDetector(filter_by_address=True)`, the
running CRC16 unit fed from the UTMI receive bytes, and the inter-packet timer started by the
deserializer's `new_packet`.

The model follows the REPAIRED code:
* F2  — the deserializer leaves CAPTURE_DATA for IDLE whenever `rx_active` falls (before the repair
        only on a CRC match, so one corrupted data packet wedged it);
* F2b — the decoder stays in READ_DATA when the new token is another SETUP (a retry);
* F24 — the decoder accepts the data packet only while the token detector's PID is still SETUP
        (the detector clears its PID on a token for another address).

Each gateware module is one `…Step` function (one `match` arm per FSM state, later assignments
win); `step` wires them.  Registered outputs are read from the state before the clock edge.
The token CRC5 uses the bit-serial oracle of `Core/Crc.lean` (C30/C01 prove the gateware's XOR
network equal to it; the co-simulation compares every token here as well).  Core Lean only.
-/
namespace LunaVerif.SetupDecoder
open LunaVerif.Utmi LunaVerif.DataCrc LunaVerif.Crc

structure Config where
  addr       : Nat     -- token detector's `address` input (7 bit)
  hs         : Bool    -- speed == USBSpeed.HIGH
  delay      : Nat     -- rx-to-tx delay of the selected speed (timer table)
  counterMax : Nat     -- timer `_counter_max`
deriving Repr

/-! ## USBTokenDetector -/

inductive TokFsm | idle | readPid | tok0 | tok1 | complete | irrelevant
deriving Repr, DecidableEq

structure Tok where
  fsm        : TokFsm
  currentPid : Nat     -- 4 bit
  tokenData  : Nat     -- 11 bit
  pid        : Nat     -- interface.pid
  address    : Nat
  endpoint   : Nat
  newToken   : Bool    -- registered strobe
deriving Repr, DecidableEq

def SETUP_PID : Nat := 13
def SOF_PID : Nat := 5

/-- `rx_data[0:4] == ~rx_data[4:8]` -/
def validPid (b : Nat) : Bool := b % 16 + (b / 16) % 16 == 15
/-- token PIDs the detector accepts: suffix 0b01 (OUT, IN, SOF, SETUP) or PING (0b0100). -/
def isTokenPid (b : Nat) : Bool := (b % 4 == 1 || b % 16 == 4) && validPid b

def tokStep (addr : Nat) (t : Tok) (i : RxCycle) : Tok :=
  let t0 := { t with newToken := false }
  match t.fsm with
  | .idle => { t0 with fsm := if i.active then .readPid else .idle }
  | .readPid =>
    if !i.active then { t0 with fsm := .idle }
    else if i.valid then
      if isTokenPid i.data then { t0 with currentPid := i.data % 16, fsm := .tok0 }
      else { t0 with fsm := .irrelevant }
    else t0
  | .tok0 =>
    if !i.active then { t0 with fsm := .idle }
    else if i.valid then { t0 with tokenData := i.data % 256, fsm := .tok1 }
    else t0
  | .tok1 =>
    if !i.active then { t0 with fsm := .idle }
    else if i.valid then
      if (i.data / 8) % 32 == usb2Crc5 (t.tokenData % 256 + 256 * (i.data % 8)) then
        { t0 with tokenData := t.tokenData % 256 + 256 * (i.data % 8), fsm := .complete }
      else { t0 with fsm := .irrelevant }
    else t0
  | .complete =>
    if !i.active then
      if t.currentPid == SOF_PID then { t0 with fsm := .idle }
      else if t.tokenData % 128 == addr then
        { t0 with pid := t.currentPid, newToken := true, address := t.tokenData % 128,
                  endpoint := t.tokenData / 128, fsm := .idle }
      else { t0 with pid := 0, fsm := .idle }
    else if i.valid then { t0 with fsm := .irrelevant }
    else t0
  | .irrelevant => { t0 with fsm := if !i.active then .idle else .irrelevant }

/-! ## USBDataPacketDeserializer(max_packet_size = 8) -/

inductive DsFsm | idle | readPid | capture | irrelevant
deriving Repr, DecidableEq

structure Deser where
  fsm          : DsFsm
  activePid    : Nat          -- 4 bit
  position     : Nat          -- position_in_packet, 4 bit
  activePacket : List Nat     -- 10 bytes
  lastWord     : Nat          -- 16 bit
  lastByteCrc  : Nat
  lastWordCrc  : Nat
  newPacket    : Bool         -- registered strobe
  packetId     : Nat
  packet       : List Nat     -- 8 bytes
  length       : Nat          -- 4 bit
deriving Repr, DecidableEq

def isDataPid (b : Nat) : Bool := b % 4 == 3 && validPid b

def deserStep (d : Deser) (crcOut : Nat) (i : RxCycle) : Deser :=
  let d0 := { d with newPacket := false }
  match d.fsm with
  | .idle => { d0 with fsm := if i.active then .readPid else .idle }
  | .readPid =>
    if !i.active then { d0 with fsm := .idle }
    else if i.valid then
      if isDataPid i.data then { d0 with activePid := i.data % 16, position := 0, fsm := .capture }
      else { d0 with fsm := .irrelevant }
    else d0
  | .capture =>
    let d1 :=
      if i.valid then
        if d.position ≥ 10 then { d0 with fsm := .irrelevant }
        else { d0 with activePacket := d.activePacket.set d.position (i.data % 256),
                       position := (d.position + 1) % 16,
                       lastWord := (d.lastWord / 256) % 256 + 256 * (i.data % 256),
                       lastWordCrc := d.lastByteCrc, lastByteCrc := crcOut }
      else d0
    if !i.active then
      -- `m.next = "IDLE"` (F2 repair), then the CRC check on the registers as they are in this cycle
      if d.lastWordCrc == d.lastWord then
        { d1 with packetId := d.activePid, length := (d.position + 14) % 16, newPacket := true,
                  packet := d.activePacket.take 8, fsm := .idle }
      else { d1 with fsm := .idle }
    else d1
  | .irrelevant => { d0 with fsm := if !i.active then .idle else .irrelevant }

/-! ## USBSetupDecoder -/

inductive DecFsm | idle | readData | delay
deriving Repr, DecidableEq

structure Dec where
  fsm         : DecFsm
  received    : Bool      -- packet.received, registered strobe
  requestType : Nat       -- Cat(recipient, type, is_in_request)
  request     : Nat
  value       : Nat
  index       : Nat
  length      : Nat
deriving Repr, DecidableEq

/-- byte `k` of the deserializer's `packet` output (the registers exist for k < 8). -/
def pk (p : List Nat) (k : Nat) : Nat := p.getD k 0

def decStep (c : Config) (k : Dec) (tokNew : Bool) (tokPid : Nat) (dsNew : Bool) (dsLen : Nat)
    (p : List Nat) (txAllowed : Bool) : Dec × Bool :=
  let k0 := { k with received := false }
  match k.fsm with
  | .idle => ({ k0 with fsm := if tokPid == SETUP_PID && tokNew then .readData else .idle }, false)
  | .readData =>
    let k1 := if tokNew && tokPid != SETUP_PID then { k0 with fsm := .idle } else k0
    if dsNew then
      if dsLen == 8 && tokPid == SETUP_PID then
        let k2 := { k1 with requestType := pk p 0, request := pk p 1, value := pk p 2 + 256 * pk p 3,
                            index := pk p 4 + 256 * pk p 5, length := pk p 6 + 256 * pk p 7,
                            received := true }
        if txAllowed || c.hs then ({ k2 with fsm := .idle }, true)
        else ({ k2 with fsm := .delay }, false)
      else ({ k1 with fsm := .idle }, false)
    else (k1, false)
  | .delay =>
    if txAllowed then ({ k0 with fsm := .idle }, true) else (k0, false)

/-! ## The composition -/

structure State where
  tok     : Tok
  ds      : Deser
  dec     : Dec
  crc     : Reg
  counter : Nat
deriving Repr, DecidableEq

structure Out where
  received    : Bool
  requestType : Nat
  request     : Nat
  value       : Nat
  index       : Nat
  length      : Nat
  ack         : Bool
  tokNew      : Bool
  tokPid      : Nat
  tokAddr     : Nat
  tokEp       : Nat
  crcOut      : Nat
deriving Repr, DecidableEq

def init : State :=
  { tok := ⟨.idle, 0, 0, 0, 0, 0, false⟩,
    ds := ⟨.idle, 0, 0, List.replicate 10 0, 0, 0, 0, false, 0, List.replicate 8 0, 0⟩,
    dec := ⟨.idle, false, 0, 0, 0, 0, 0⟩,
    crc := initReg, counter := 0 }

def counterNext (c : Config) (counter : Nat) (start : Bool) : Nat :=
  if start then 0 else if counter < c.counterMax + 1 then counter + 1 else counter

def step (c : Config) (s : State) (i : RxCycle) : State × Out :=
  let r := decStep c s.dec s.tok.newToken s.tok.pid s.ds.newPacket s.ds.length s.ds.packet
             (s.counter == c.delay)
  ({ tok := tokStep c.addr s.tok i,
     ds := deserStep s.ds (output s.crc) i,
     dec := r.1,
     crc := DataCrc.next s.crc (s.ds.fsm == .readPid) i.valid i.data false 0,
     counter := counterNext c s.counter s.ds.newPacket },
   { received := s.dec.received, requestType := s.dec.requestType, request := s.dec.request,
     value := s.dec.value, index := s.dec.index, length := s.dec.length, ack := r.2,
     tokNew := s.tok.newToken, tokPid := s.tok.pid, tokAddr := s.tok.address, tokEp := s.tok.endpoint,
     crcOut := output s.crc })

def run (c : Config) : State → List RxCycle → List Out
  | _, [] => []
  | s, i :: is => (step c s i).2 :: run c (step c s i).1 is

def final (c : Config) : State → List RxCycle → State
  | s, [] => s
  | s, i :: is => final c (step c s i).1 is

end LunaVerif.SetupDecoder
