import LunaVerif.Model.Usb2.DescriptorRom
/-
Cycle-level model of `GetDescriptorHandlerBlock.elaborate` (luna/gateware/usb/usb2/descriptor.py) — C09.

FSM IDLE / START / LOOKUP_TYPE / LOOKUP_DESCRIPTOR / SEND_DESCRIPTOR / SEND_ZLP over a ROM of 32-bit
words with a *registered* read port (`rom.read_port()` in the `usb` domain: the word addressed in
cycle t is on `data` in cycle t+1; confirmed by the co-simulation).  One `match` arm per FSM state.

Widths kept as in the source:
* `words_remaining = length - start_position` is `signed(17)` (16-bit minus 11-bit never wraps), so a
  start position beyond wLength gives a negative value, which is `<= max_packet_length`, and the
  16-bit `length` register receives it modulo 2^16;
* `position_in_stream` is `Signal(range(descriptor_max_length + 1))`; the 11-bit `start_position`
  is truncated to it;  the read address is truncated to the address width of the ROM;
* `descriptor_length - 1` is signed: for a zero length it is -1 and never equals the position;
* the look-ahead address `(position + 1).bit_select(2, posW - 2)` drops the carry bit.
-/
namespace LunaVerif.Desc.Block

structure Config where
  img : Rom.Image
  mps : Nat          -- max_packet_length

inductive Fsm | idle | start | lookupType | lookupDescriptor | sendDescriptor | sendZlp
deriving Repr, DecidableEq

structure State where
  fsm       : Fsm
  length    : Nat      -- registered `length`                (16 bits)
  pos       : Nat      -- position_in_stream                 (posW bits)
  sent      : Nat      -- bytes_sent                         (16 bits)
  descLen   : Nat      -- descriptor_length                  (16 bits)
  base      : Nat      -- descriptor_data_base_address       (addrW bits)
  descrIdx  : Nat      -- descr_idx (register only when an index map exists)
  romData   : Nat      -- rom_read_port.data                 (32 bits)
deriving Repr

structure In where
  value    : Nat       -- 16 bits: type << 8 | index
  length   : Nat       -- 16 bits
  startPos : Nat       -- 11 bits
  start    : Bool
  ready    : Bool      -- tx.ready
deriving Repr

abbrev Out := Beat

def init : State := ⟨.idle, 0, 0, 0, 0, 0, 0, 0⟩

def quiet : Out := Beat.quiet

/-- the value the `length` register takes at the next edge. -/
def nextLength (mps : Nat) (length startPos : Nat) : Nat :=
  if length ≤ startPos + mps then (length + 65536 - startPos) % 65536 else mps % 65536

/-- `on_last_packet` -/
def onLast (s : State) : Bool := (s.pos + 1 == s.descLen) || (s.sent + 1 ≥ s.length)

def step (c : Config) (s : State) (i : In) : State × Out :=
  let img := c.img
  let aw := 2 ^ img.addrW
  let ty := (i.value / 256) % 256
  let idx := i.value % 256
  let len' := nextLength c.mps i.length i.startPos
  -- (next state without the memory/length registers, address driven this cycle, outputs)
  let (s', addr, o) : State × Nat × Out :=
    match s.fsm with
    | .idle =>
      ({ s with sent := 0, fsm := if i.start then .start else .idle }, ty % aw, quiet)
    | .start =>
      let s1 := { s with pos := i.startPos % 2 ^ img.posW,
                         descrIdx := if img.indexMap.isEmpty then s.descrIdx else img.descrIdx ty idx }
      if ty ≤ img.maxType then ({ s1 with fsm := .lookupType }, ty % aw, quiet)
      else ({ s1 with fsm := .idle }, ty % aw, { quiet with stall := true })
    | .lookupType =>
      let di := if img.indexMap.isEmpty then idx else s.descrIdx
      if di ≥ countOf s.romData then ({ s with fsm := .idle }, 0, { quiet with stall := true })
      else
        ({ s with fsm := if s.length = 0 then .sendZlp else .lookupDescriptor },
         (img.ptrOf s.romData + di) % aw, quiet)
    | .lookupDescriptor =>
      ({ s with base := img.ptrOf s.romData, descLen := countOf s.romData,
                fsm := if s.pos ≥ countOf s.romData then .sendZlp else .sendDescriptor },
       ((s.romData + s.pos) / 4) % aw, quiet)
    | .sendDescriptor =>
      let last := onLast s
      let o : Out := ⟨true, s.pos == i.startPos, last, (s.romData / 256 ^ (3 - s.pos % 4)) % 256, false⟩
      if i.ready then
        if !last then
          ({ s with pos := (s.pos + 1) % 2 ^ img.posW, sent := (s.sent + 1) % 65536 },
           (s.base + ((s.pos + 1) / 4) % 2 ^ (img.posW - 2)) % aw, o)
        else ({ s with descLen := 0, base := 0, fsm := .idle }, (s.base + s.pos / 4) % aw, o)
      else (s, (s.base + s.pos / 4) % aw, o)
    | .sendZlp =>
      ({ s with fsm := .idle }, 0, ⟨true, false, true, 0, false⟩)
  ({ s' with length := len', romData := img.read addr }, o)

/-- Outputs for a whole input history. -/
def run (c : Config) : State → List In → List Out
  | _, [] => []
  | s, i :: is => (step c s i).2 :: run c (step c s i).1 is

end LunaVerif.Desc.Block
