import LunaVerif.Core.Crc
/-
Model of `luna.gateware.usb.usb2.packet.USBDataPacketCRC`: one 16-bit running register,

    with m.If(clear):            crc <= initial value          (clear = OR of all interfaces' start)
    with m.Elif(rx_valid):       crc <= next(crc, rx_data)
    with m.Elif(tx_valid):       crc <= next(crc, tx_data)
    output (every interface's .crc) = ~crc[::-1]

The register is kept as the bit list of the bit-serial CRC16 definition (`Core/Crc.lean`, index 0
= register bit 0) and advanced with that definition, eight data bits LSB first.  That the
gateware's byte-wide XOR network `_generate_next_crc` is this function is C30's theorem; here the
co-simulation compares the `crc` port with `output` every cycle.

Core Lean only.
-/
namespace LunaVerif.DataCrc
open LunaVerif.Crc

abbrev Reg := List Bool

def poly : List Bool := lsbBits 0x8005 16
def initReg : Reg := ones 16

/-- Advance the register by one data byte. -/
def update (r : Reg) (byte : Nat) : Reg := serial poly r (lsbBits byte 8)

/-- Next register value, with the gateware's priority clear > rx_valid > tx_valid. -/
def next (r : Reg) (clear rxValid : Bool) (rxData : Nat) (txValid : Bool) (txData : Nat) : Reg :=
  if clear then initReg
  else if rxValid then update r rxData
  else if txValid then update r txData
  else r

/-- The `crc` port: complemented, bit-reversed register. -/
def output (r : Reg) : Nat := field r

theorem reg_nil : usb2Crc16Reg [] = initReg := rfl

theorem reg_snoc (bs : List Nat) (b : Nat) :
    usb2Crc16Reg (bs ++ [b]) = update (usb2Crc16Reg bs) b := by
  simp [usb2Crc16Reg, update, serial, bytesBits, poly, List.flatMap_append, List.foldl_append]

theorem output_reg (bs : List Nat) : output (usb2Crc16Reg bs) = usb2Crc16 bs := rfl

end LunaVerif.DataCrc
