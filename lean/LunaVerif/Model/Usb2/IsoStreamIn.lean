/-
Model of `luna.gateware.usb.usb2.endpoints.isochronous_stream_in.USBIsochronousStreamInEndpoint`
(C15), cycle level.

Registers: FSM (IDLE / SEND_DATA / SEND_ZLP), `bytes_left_in_frame` (12 bit), `bytes_left_in_packet`,
`next_data_pid` (2 bit, drives `tx_pid_toggle`), the *registered* `tx.first` and `frame_finished`.
(`tx_cnt`/`next_byte` drive no port and are not modelled.)

Program order matters: the `with m.If(new_frame)` block is emitted *before* the FSM, so an FSM
assignment in the same cycle wins.  A SOF in the very cycle in which SEND_DATA hands over a byte
therefore loses its `bytes_left_in_frame` / `bytes_left_in_packet` latch (and the PID latch when that
byte ends the packet); with a 12-bit `bytes_left_in_frame` of 0 the decrement wraps to 4095.  All of
that is mirrored here (the theorems assume SOFs arrive between packets).

Other quirks kept: `bytes_left_in_packet` resets to `mps - 1`, not `mps` (harmless: no data is sent
before the first SOF); `next_data_pid - 1` wraps 0 → 3, so a ZLP sent after the frame's data is
labelled with PID value 3; `frame_finished` is registered from `bytes_left_in_frame <= 1` in *every*
SEND_DATA cycle (it is high for as long as the last byte is stalled, and one cycle after it);
SEND_ZLP lasts one cycle regardless of `tx.ready`.
-/
namespace LunaVerif.IsoIn

structure Config where
  mps   : Nat     -- max_packet_size (>= 1)
  epNum : Nat
deriving Repr

inductive Fsm | idle | sendData | sendZlp
deriving Repr, DecidableEq

structure State where
  fsm   : Fsm
  blf   : Nat     -- bytes_left_in_frame   (mod 4096)
  blp   : Nat     -- bytes_left_in_packet
  pid   : Nat     -- next_data_pid         (mod 4)
  first : Bool    -- tx.first (registered)
  ff    : Bool    -- frame_finished (registered)
deriving Repr

structure In where
  endpoint     : Nat
  isIn         : Bool
  rfr          : Bool    -- tokenizer.ready_for_response
  newFrame     : Bool
  txReady      : Bool
  sValid       : Bool    -- stream.valid
  sPayload     : Nat     -- stream.payload
  bytesInFrame : Nat     -- 12 bit input
deriving Repr

structure Out where
  valid         : Bool
  first         : Bool
  last          : Bool
  payload       : Nat
  pid           : Nat     -- tx_pid_toggle
  sReady        : Bool    -- stream.ready
  dataRequested : Bool
  frameFinished : Bool
deriving Repr

def init (c : Config) : State := ⟨.idle, 0, c.mps - 1, 0, false, false⟩

def dataRequested (c : Config) (i : In) : Bool :=
  i.endpoint == c.epNum && i.isIn && i.rfr

/-- PID latched at a SOF. -/
def startPid (c : Config) (n : Nat) : Nat :=
  if n > 2 * c.mps then 2 else if n > c.mps then 1 else 0

def step (c : Config) (s : State) (i : In) : State × Out :=
  -- the `new_frame` block (overridden by FSM assignments below)
  let blf0 := if i.newFrame then i.bytesInFrame else s.blf
  let blp0 := if i.newFrame then c.mps else s.blp
  let pid0 := if i.newFrame then startPid c i.bytesInFrame else s.pid
  match s.fsm with
  | .idle =>
    let req := dataRequested c i
    let o : Out := ⟨false, s.first, false, 0, s.pid, false, req, s.ff⟩
    let fsm' := if req then (if s.blf != 0 then Fsm.sendData else Fsm.sendZlp) else Fsm.idle
    (⟨fsm', blf0, blp0, pid0, req && s.blf != 0, false⟩, o)
  | .sendData =>
    let lastF := decide (s.blf ≤ 1)
    let term := decide (s.blp ≤ 1) || lastF
    let o : Out := ⟨true, s.first, term, if i.sValid then i.sPayload else 0, s.pid, i.txReady,
                    false, s.ff⟩
    if i.txReady then
      (⟨if term then .idle else .sendData,
        (s.blf + 4095) % 4096,
        if term then c.mps else s.blp - 1,
        if term then (s.pid + 3) % 4 else pid0,
        false, lastF⟩, o)
    else
      (⟨.sendData, blf0, blp0, pid0, s.first, lastF⟩, o)
  | .sendZlp =>
    let o : Out := ⟨true, s.first, true, 0, s.pid, false, false, s.ff⟩
    (⟨.idle, blf0, blp0, pid0, s.first, false⟩, o)

def trace (c : Config) : State → List In → List (In × Out)
  | _, [] => []
  | s, i :: is => (i, (step c s i).2) :: trace c (step c s i).1 is

end LunaVerif.IsoIn
