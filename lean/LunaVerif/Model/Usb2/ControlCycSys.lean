import LunaVerif.Model.Usb2.ControlCyc
import LunaVerif.Model.Periph.StreamGenerator
import LunaVerif.Model.Usb2.DescriptorBlock
/-
CLOSED-LOOP composition of the cycle-level control-endpoint model (Model/Usb2/ControlCyc.lean) with the model of its
`StreamSerializer(data_length=2, domain="usb", stream_type=USBInStreamInterface, max_length_width=2)` "transmitter"
(Model/Periph/StreamGenerator.lean, C27), wired as in `StandardRequestHandler.elaborate` /
`handle_simple_data_request` (usb/request/standard.py, usb/request/control.py):

    transmitter.start      = data_requested   (in GET_STATUS / GET_CONFIGURATION under `setup.type == STANDARD`, else 0)
    transmitter.max_length = 2 / 1            (…, else 0)
    Cat(transmitter.data[0:length]) = 0 / active_config   (data[1] is never driven in GET_CONFIGURATION: 0)
    transmitter.stream.ready = tx.ready       (`stream.attach(tx)`, …, else 0)
    transmitter.start_position is never driven (0)
    tx.valid / first / last / payload = transmitter.stream.*   (…)

The four transmitter inputs of `CycIn` (`tValid`, `tFirst`, `tLast`, `tPayload`) are no longer inputs: `sysStep`
overwrites them with the serializer model's outputs of the same cycle.  The wires towards the serializer do not depend
on the serializer's outputs (Lemmas/C07Closed.lean `wires_indep`), so there is no combinational loop.

Core Lean only (linked into lean/Driver/C07Cyc.lean, which co-simulates the serializer model against the real
transmitter inside the real handler in every cycle).
-/
namespace LunaVerif.CtrlCyc
open LunaVerif.StreamGen

/-- The transmitter instance of the standard request handler. -/
def txCfg : SerConfig := ⟨2, 2⟩

structure SysState where
  cs  : CycState := {}
  ser : SerState := serInit
deriving Repr, DecidableEq

def sysInit : SysState := {}

/-- The handler's wires towards the transmitter. -/
def serInOf (o : HOut) : SerIn := ⟨o.tStart, 0, o.tMaxLen, o.tReady, [o.tData0, 0]⟩

/-- The transmitter's stream outputs as the handler sees them. -/
def withT (i : CycIn) (so : SerOut) : CycIn :=
  { i with tValid := so.valid, tFirst := so.first, tLast := so.last, tPayload := so.payload }

/-- What the serializer does in this cycle, given the control endpoint's state and the cycle's inputs. -/
def serCycle (c : Cfg) (s : SysState) (i : CycIn) : SerState × SerOut :=
  serStep txCfg s.ser (serInOf (step c s.cs i).2.h)

/-- One clock cycle of the closed loop. -/
def sysStep (c : Cfg) (s : SysState) (i : CycIn) : SysState × CycOut :=
  let r := serCycle c s i
  let x := step c s.cs (withT i r.2)
  ({ cs := x.1, ser := r.1 }, x.2)

def sysRun (c : Cfg) : SysState → List CycIn → List (SysState × CycOut)
  | _, [] => []
  | s, i :: is => sysStep c s i :: sysRun c (sysStep c s i).1 is

def sysFinal (c : Cfg) : SysState → List CycIn → SysState
  | s, [] => s
  | s, i :: is => sysFinal c (sysStep c s i).1 is

/-! ### … and with the model of `GetDescriptorHandlerBlock` (Model/Usb2/DescriptorBlock.lean, C09)

    get_descriptor_handler.value / length = setup.value / setup.length            (always)
    get_descriptor_handler.start_position = the handler's `start_position` register
    get_descriptor_handler.start          = data_requested   (in GET_DESCRIPTOR under `setup.type == STANDARD`, else 0)
    get_descriptor_handler.tx.ready       = tx.ready         (`tx.attach(tx)`, …, else 0)
    tx.valid / first / last / payload, handshakes_out.stall = get_descriptor_handler.tx.*, .stall   (…)

The five descriptor-handler inputs of `CycIn` are overwritten with the block handler model's outputs of the same cycle.
-/

structure Sys2State where
  cs  : CycState := {}
  ser : SerState := serInit
  blk : Desc.Block.State := Desc.Block.init

def sys2Init : Sys2State := {}

/-- The wires towards the descriptor handler. -/
def blkInOf (cs : CycState) (i : CycIn) (o : HOut) : Desc.Block.In :=
  ⟨i.su.value, i.su.length, cs.h.startPos, o.dStart, o.dReady⟩

/-- The descriptor handler's outputs as the standard handler sees them. -/
def withD (i : CycIn) (b : Desc.Beat) : CycIn :=
  { i with dValid := b.valid, dFirst := b.first, dLast := b.last, dPayload := b.payload, dStall := b.stall }

/-- What the block descriptor handler does in this cycle. -/
def blkCycle (c : Cfg) (bc : Desc.Block.Config) (cs : CycState) (blk : Desc.Block.State) (i : CycIn) :
    Desc.Block.State × Desc.Beat :=
  Desc.Block.step bc blk (blkInOf cs i (step c cs i).2.h)

/-- One clock cycle of the closed loop with both streamers. -/
def sys2Step (c : Cfg) (bc : Desc.Block.Config) (s : Sys2State) (i : CycIn) : Sys2State × CycOut :=
  let rb := blkCycle c bc s.cs s.blk i
  let rs := serCycle c ⟨s.cs, s.ser⟩ i
  let x := step c s.cs (withD (withT i rs.2) rb.2)
  ({ cs := x.1, ser := rs.1, blk := rb.1 }, x.2)

def sys2Run (c : Cfg) (bc : Desc.Block.Config) : Sys2State → List CycIn → List (Sys2State × CycOut)
  | _, [] => []
  | s, i :: is => sys2Step c bc s i :: sys2Run c bc (sys2Step c bc s i).1 is

def sys2Final (c : Cfg) (bc : Desc.Block.Config) : Sys2State → List CycIn → Sys2State
  | s, [] => s
  | s, i :: is => sys2Final c bc (sys2Step c bc s i).1 is

end LunaVerif.CtrlCyc
