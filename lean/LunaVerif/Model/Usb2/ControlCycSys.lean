import LunaVerif.Model.Usb2.ControlCyc
import LunaVerif.Model.Periph.StreamGenerator
/-
CLOSED-LOOP composition of the cycle-level control-endpoint model (Model/Usb2/ControlCyc.lean) with the model of its
`StreamSerializer(data_length=2, domain="usb", stream_type=USBInStreamInterface, max_length_width=2)` "transmitter"
(Model/Periph/StreamGenerator.lean, C27), wired as in `StandardRequestHandler.elaborate` /
`handle_simple_data_request` (usb/request/standard.py, usb/request/control.py):

    transmitter.start      = data_requested   (in GET_STATUS / GET_CONFIGURATION under `setup.type == STANDARD`, else 0)
    transmitter.max_length = 2 / 1            (…, else 0)
    Cat(transmitter.data[0:length]) = 0 / active_config   (data[1] is never driven in GET_CONFIGURATION: 0)
    transmitter.stream.ready = tx.ready       (`stream.attach(tx)`, …, else 0)
    transmitter.start_position is never driven (0)
    tx.valid / first / last / payload = transmitter.stream.*   (…)

The four transmitter inputs of `CycIn` (`tValid`, `tFirst`, `tLast`, `tPayload`) are no longer inputs: `sysStep`
overwrites them with the serializer model's outputs of the same cycle.  The wires towards the serializer do not depend
on the serializer's outputs (Lemmas/C07Closed.lean `wires_indep`), so there is no combinational loop.

Core Lean only (linked into lean/Driver/C07Cyc.lean, which co-simulates the serializer model against the real
transmitter inside the real handler in every cycle).
-/
namespace LunaVerif.CtrlCyc
open LunaVerif.StreamGen

/-- The transmitter instance of the standard request handler. -/
def txCfg : SerConfig := ⟨2, 2⟩

structure SysState where
  cs  : CycState := {}
  ser : SerState := serInit
deriving Repr, DecidableEq

def sysInit : SysState := {}

/-- The handler's wires towards the transmitter. -/
def serInOf (o : HOut) : SerIn := ⟨o.tStart, 0, o.tMaxLen, o.tReady, [o.tData0, 0]⟩

/-- The transmitter's stream outputs as the handler sees them. -/
def withT (i : CycIn) (so : SerOut) : CycIn :=
  { i with tValid := so.valid, tFirst := so.first, tLast := so.last, tPayload := so.payload }

/-- What the serializer does in this cycle, given the control endpoint's state and the cycle's inputs. -/
def serCycle (c : Cfg) (s : SysState) (i : CycIn) : SerState × SerOut :=
  serStep txCfg s.ser (serInOf (step c s.cs i).2.h)

/-- One clock cycle of the closed loop. -/
def sysStep (c : Cfg) (s : SysState) (i : CycIn) : SysState × CycOut :=
  let r := serCycle c s i
  let x := step c s.cs (withT i r.2)
  ({ cs := x.1, ser := r.1 }, x.2)

def sysRun (c : Cfg) : SysState → List CycIn → List (SysState × CycOut)
  | _, [] => []
  | s, i :: is => sysStep c s i :: sysRun c (sysStep c s i).1 is

def sysFinal (c : Cfg) : SysState → List CycIn → SysState
  | s, [] => s
  | s, i :: is => sysFinal c (sysStep c s i).1 is

end LunaVerif.CtrlCyc
