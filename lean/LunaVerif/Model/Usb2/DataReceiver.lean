import LunaVerif.Core.Utmi
import LunaVerif.Model.Usb2.DataCrc
/-
Model of `luna.gateware.usb.usb2.packet.USBDataPacketReceiver` (C02) composed with the running
CRC16 (`USBDataPacketCRC`) and the inter-packet timer exactly as `standalone=True` wires them:

    crc.rx_data = utmi.rx_data, crc.rx_valid = utmi.rx_valid, crc.tx_valid = 0,
    crc clear   = receiver.data_crc.start (| a second interface's start, input `extStart`, as in USBDevice
                  where the CRC unit is shared with the transmitter)
    timer start = receiver.timer.start,   receiver.timer.tx_allowed = (counter == delay(speed))

Of the timer only what the receiver uses is modelled: the saturating counter and `tx_allowed`;
`Config.delay` is the rx-to-tx delay of the selected speed (HS 1, FS 10 cycles at 60 MHz) and
`Config.counterMax` the timer's `_counter_max` (640 for a 60 MHz non-`fs_only` build).

One `match` arm per FSM state, later assignments win as in Amaranth; outputs are those visible
in the same cycle as the inputs, given the state before the clock edge.  Core Lean only.
-/
namespace LunaVerif.DataReceiver
open LunaVerif.Utmi LunaVerif.DataCrc

inductive Fsm | idle | readPid | first | second | emit | delay | irrelevant
deriving Repr, DecidableEq

structure Config where
  delay      : Nat
  counterMax : Nat
deriving Repr

structure State where
  fsm            : Fsm
  activePid      : Nat     -- 4 bit
  lastByteCrc    : Nat     -- 16 bit
  lastWordCrc    : Nat     -- 16 bit
  pipeLo         : Nat     -- data_pipeline[0:8]
  pipeHi         : Nat     -- data_pipeline[8:16]
  packetComplete : Bool    -- registered strobe
  crcMismatch    : Bool    -- registered strobe
  packetId       : Nat     -- 4 bit
  crc            : Reg     -- USBDataPacketCRC.crc
  counter        : Nat     -- USBInterpacketTimer.counter
deriving Repr, DecidableEq

structure Out where
  streamValid    : Bool
  streamNext     : Bool
  payload        : Nat
  packetComplete : Bool
  crcMismatch    : Bool
  ready          : Bool    -- ready_for_response
  packetId       : Nat
  activePid      : Nat
  crcOut         : Nat     -- data_crc.crc
deriving Repr, DecidableEq

def init : State :=
  { fsm := .idle, activePid := 0, lastByteCrc := 0, lastWordCrc := 0, pipeLo := 0, pipeHi := 0,
    packetComplete := false, crcMismatch := false, packetId := 0, crc := initReg, counter := 0 }

/-- `rx_data[0:2] == 0b11` and `rx_data[0:4] == ~rx_data[4:8]`. -/
def isDataPid (b : Nat) : Bool := b % 4 == 3 && b % 16 + (b / 16) % 16 == 15

/-- The timer's counter register. -/
def counterNext (c : Config) (counter : Nat) (start : Bool) : Nat :=
  if start then 0 else if counter < c.counterMax + 1 then counter + 1 else counter

/-- What the FSM decides in one cycle: (state with the register updates and the next FSM state,
`stream.valid`, `stream.next`, `ready_for_response`, `timer.start`).  `s0` is the state with the
two registered strobes defaulted to 0 (the `m.d.usb += […eq(0)]` at the top of `elaborate`). -/
def fsmStep (c : Config) (s : State) (i : RxCycle) : State × Bool × Bool × Bool × Bool :=
  let crcOut    := output s.crc
  let txAllowed := s.counter == c.delay
  let s0 := { s with packetComplete := false, crcMismatch := false }
  match s.fsm with
  | .idle => ({ s0 with fsm := if i.active then .readPid else .idle }, false, false, false, false)
  | .readPid =>
    if !i.active then ({ s0 with fsm := .idle }, false, false, false, false)
    else if i.valid then
      if isDataPid i.data then
        ({ s0 with activePid := i.data % 16, fsm := .first }, false, false, false, false)
      else ({ s0 with fsm := .irrelevant }, false, false, false, false)
    else (s0, false, false, false, false)
  | .first =>
    let s1 := if i.valid then { s0 with pipeHi := i.data, lastByteCrc := crcOut, fsm := .second } else s0
    let s2 := if !i.active then { s1 with fsm := .idle } else s1
    (s2, false, false, false, false)
  | .second =>
    if i.valid then
      ({ s0 with pipeHi := i.data, pipeLo := s.pipeHi, lastByteCrc := crcOut,
                 lastWordCrc := s.lastByteCrc, fsm := .emit }, false, false, false, false)
    else if !i.active then ({ s0 with fsm := .idle }, false, false, false, false)
    else (s0, false, false, false, false)
  | .emit =>
    let s1 := if i.valid then
                { s0 with pipeHi := i.data, pipeLo := s.pipeHi, lastByteCrc := crcOut,
                          lastWordCrc := s.lastByteCrc }
              else s0
    if !i.active then
      if s.lastWordCrc == s.pipeLo + 256 * s.pipeHi then
        ({ s1 with packetId := s.activePid, packetComplete := true, fsm := .delay },
          true, i.valid, false, true)
      else ({ s1 with crcMismatch := true, fsm := .idle }, true, i.valid, false, false)
    else (s1, true, i.valid, false, false)
  | .delay =>
    if txAllowed then ({ s0 with fsm := .idle }, false, false, true, false)
    else (s0, false, false, false, false)
  | .irrelevant =>
    ({ s0 with fsm := if !i.active then .idle else .irrelevant }, false, false, false, false)

/-- One clock cycle of receiver + CRC unit + timer counter. -/
def step (c : Config) (s : State) (i : RxCycle) (extStart : Bool) : State × Out :=
  let r := fsmStep c s i
  let clear := (s.fsm == .readPid) || extStart
  ({ r.1 with crc := DataCrc.next s.crc clear i.valid i.data false 0,
              counter := counterNext c s.counter r.2.2.2.2 },
   { streamValid := r.2.1, streamNext := r.2.2.1, payload := if r.2.2.1 then s.pipeLo else 0,
     packetComplete := s.packetComplete, crcMismatch := s.crcMismatch, ready := r.2.2.2.1,
     packetId := s.packetId, activePid := s.activePid, crcOut := output s.crc })

/-- Outputs for a whole history (no second CRC user: `extStart = false`). -/
def run (c : Config) : State → List RxCycle → List Out
  | _, [] => []
  | s, i :: is => (step c s i false).2 :: run c (step c s i false).1 is

/-- State after a whole history. -/
def final (c : Config) : State → List RxCycle → State
  | s, [] => s
  | s, i :: is => final c (step c s i false).1 is

end LunaVerif.DataReceiver
