import LunaVerif.Model.Usb2.DescriptorRom
/-
Cycle-level model of `GetDescriptorHandlerDistributed` (luna/gateware/usb/usb2/descriptor.py) and of
the `USBDescriptorStreamGenerator`s it switches over (= `ConstantStreamGenerator(data, domain="usb",
stream_type=USBInStreamInterface, max_length_width=16)`, luna/gateware/stream/generator.py) — C09.

The model follows the code *with the repair of defect F6* (commit "fix: distributed GET_DESCRIPTOR
handler ends exact-multiple descriptors with a single ZLP"): for a fixed (bytes) descriptor a request
whose `start_position >= len(descriptor)` does not start the generator but raises the registered
strobe `send_zlp`, which drives `tx.valid = tx.last = 1` for one cycle.  Runtime descriptors
(callables returning a generator) keep the original path.

Widths kept as in the source:
* the generator's `start_position` is `Signal(range(len))`, the handler assigns its own 11-bit
  `start_position` to it (truncation modulo `2^bitsFor(len-1)` — this is what made F6);
  `first` is compared against that truncated input, the position register starts at the clamped one;
* the handler's `length` is combinational here (it is a register in the block handler);
* `generator.start` is a register that is only written while `value` selects that generator.
-/
namespace LunaVerif.Desc.Gen

/-- One `USBDescriptorStreamGenerator`. -/
structure Config where
  data : List Nat
deriving Repr

def Config.len (c : Config) : Nat := c.data.length
/-- width of `start_position`, `position_in_stream` and of the ROM address. -/
def Config.w (c : Config) : Nat := bitsFor (c.len - 1)

inductive Fsm | idle | streaming | done
deriving Repr, DecidableEq

structure State where
  fsm     : Fsm
  pos     : Nat     -- position_in_stream
  sent    : Nat     -- bytes_sent        (16 bits)
  maxLen  : Nat     -- registered max_length
  romData : Nat     -- rom_read_port.data (8 bits)
deriving Repr

structure In where
  start     : Bool
  maxLength : Nat    -- 16 bits
  startPos  : Nat    -- already truncated to `w` bits
  ready     : Bool
deriving Repr

structure Out where
  valid   : Bool
  first   : Bool
  last    : Bool
  payload : Nat
deriving Repr, DecidableEq

def init : State := ⟨.idle, 0, 0, 0, 0⟩

def onLast (c : Config) (s : State) : Bool := (s.pos + 1 == c.len) || (s.sent + 1 ≥ s.maxLen)

def step (c : Config) (s : State) (i : In) : State × Out :=
  let m := 2 ^ c.w
  -- "If our starting position is greater than our data length, use our data length."
  let startClamped := if i.startPos ≥ c.len then c.len - 1 else i.startPos
  let (s', addr, o) : State × Nat × Out :=
    match s.fsm with
    | .idle =>
      ({ s with pos := startClamped % m, sent := 0, maxLen := i.maxLength,
                fsm := if i.start && i.maxLength > 0 then .streaming else .idle },
       startClamped % m, ⟨false, false, false, 0⟩)
    | .streaming =>
      let last := onLast c s
      let o : Out := ⟨true, s.pos == i.startPos, last, s.romData⟩
      if i.ready then
        if !last then
          ({ s with pos := (s.pos + 1) % m, sent := (s.sent + 1) % 65536 }, (s.pos + 1) % m, o)
        else ({ s with fsm := .done }, s.pos, o)
      else (s, s.pos, o)
    | .done => ({ s with fsm := .idle }, 0, ⟨false, false, false, 0⟩)
  ({ s' with romData := c.data.getD addr 0 }, o)

end LunaVerif.Desc.Gen

namespace LunaVerif.Desc.Dist

/-- One entry of the distributed handler: wValue key, generator, and the descriptor length when it
is a fixed (bytes) descriptor (`none` for a runtime generator). -/
structure Entry where
  key      : Nat
  gen      : Gen.Config
  fixedLen : Option Nat
deriving Repr

structure Config where
  entries : List Entry
  mps     : Nat

structure State where
  gens     : List (Gen.State × Bool)    -- per entry: generator state, its registered `start`
  sendZlp  : Bool
deriving Repr

structure In where
  value    : Nat
  length   : Nat
  startPos : Nat
  start    : Bool
  ready    : Bool
deriving Repr

abbrev Out := Beat

def init (c : Config) : State := ⟨c.entries.map (fun _ => (Gen.init, false)), false⟩

/-- the combinational `length` (max_length of every generator). -/
def curLength (mps length startPos : Nat) : Nat :=
  if length ≤ startPos + mps then (length + 65536 - startPos) % 65536 else mps % 65536

def pastEnd (e : Entry) (startPos : Nat) : Bool :=
  match e.fixedLen with
  | some l => startPos ≥ l
  | none => false

/-- one entry for one cycle: next (generator state, start register) and the generator's outputs. -/
def stepEntry (c : Config) (i : In) (e : Entry) (gs : Gen.State × Bool) : (Gen.State × Bool) × Gen.Out :=
  let sel := e.key == i.value
  let gi : Gen.In := ⟨gs.2, curLength c.mps i.length i.startPos, i.startPos % 2 ^ e.gen.w, sel && i.ready⟩
  let (g', o) := Gen.step e.gen gs.1 gi
  ((g', if sel then (i.start && !pastEnd e i.startPos) else gs.2), o)

/-- all entries for one cycle: the next per-entry states, and the (entry, generator outputs) the
`Switch(value)` selects (the first entry whose key matches; keys are distinct). -/
def stepAll (c : Config) (i : In) :
    List Entry → List (Gen.State × Bool) → List (Gen.State × Bool) × Option (Entry × Gen.Out)
  | e :: es, g :: gs =>
    let r := stepEntry c i e g
    let rest := stepAll c i es gs
    (r.1 :: rest.1, if e.key == i.value then some (e, r.2) else rest.2)
  | _, _ => ([], none)

/-- the handler's outputs from the selected generator's outputs and the `send_zlp` strobe. -/
def mkOut (sel : Option (Entry × Gen.Out)) (sendZlp start : Bool) : Out :=
  match sel with
  | some (_, g) => ⟨g.valid || sendZlp, g.first, g.last || sendZlp, g.payload, false⟩
  | none => ⟨sendZlp, false, sendZlp, 0, start⟩

def step (c : Config) (s : State) (i : In) : State × Out :=
  let r := stepAll c i c.entries s.gens
  let zlp' := match r.2 with
    | some (e, _) => i.start && pastEnd e i.startPos
    | none => false
  (⟨r.1, zlp'⟩, mkOut r.2 s.sendZlp i.start)

def run (c : Config) : State → List In → List Out
  | _, [] => []
  | s, i :: is => (step c s i).2 :: run c (step c s i).1 is

end LunaVerif.Desc.Dist
