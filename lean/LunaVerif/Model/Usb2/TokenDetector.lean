import LunaVerif.Core.Utmi
import LunaVerif.Core.Crc
import LunaVerif.Model.Usb2.InterpacketTimer
/-
Model of `luna.gateware.usb.usb2.packet.USBTokenDetector` (C01; also used by C21).

FSM IDLE / READ_PID / READ_TOKEN_0 / READ_TOKEN_1 / TOKEN_COMPLETE / IRRELEVANT in the `usb` domain,
registers `current_pid` (4 bits), `token_data` (11 bits) and the interface registers `pid`,
`address`, `endpoint`, `frame`, `new_token`, `new_frame` (the two strobes are cleared every cycle).
The detector owns a private `USBInterpacketTimer` whose `tx_allowed` is the combinational
`ready_for_response` output and whose `start` is raised (combinationally) in the cycle an
applicable non-SOF token completes.

The CRC5 check uses the reference `Crc.usb2Crc5` (C30 proves the gateware's XOR network equal to it
for all 2^11 inputs; the co-simulation ties this model to the gateware on the tested inputs).

Quirks kept: a complete, CRC-correct token for a *foreign* address clears the `pid` register; the
`address` input is sampled in the cycle the packet ends; `rx_valid` in the cycle `rx_active` rises
is not looked at; `rx_active` low takes precedence over `rx_valid`.

Core Lean only.
-/
namespace LunaVerif.TokenDetector
open LunaVerif.Utmi

structure Config where
  filterByAddress : Bool
  timer : InterpacketTimer.Config
deriving Repr

inductive Fsm | idle | readPid | readToken0 | readToken1 | tokenComplete | irrelevant
deriving Repr, DecidableEq

/-- The registered part of `TokenDetectorInterface`. -/
structure Regs where
  pid      : Nat
  address  : Nat
  endpoint : Nat
  frame    : Nat
  newToken : Bool
  newFrame : Bool
deriving Repr, DecidableEq

structure State where
  fsm        : Fsm
  currentPid : Nat     -- Signal(4)
  tokenData  : Nat     -- Signal(11)
  regs       : Regs
deriving Repr, DecidableEq

structure In where
  rx      : RxCycle
  address : Nat        -- `address` input (used when filter_by_address)
deriving Repr

def initRegs : Regs := ⟨0, 0, 0, 0, false, false⟩
def init : State := ⟨.idle, 0, 0, initRegs⟩

def sofPid : Nat := 0b0101
def pingPid : Nat := 0b0100

/-- `rx_data[0:4] == ~rx_data[4:8]` -/
def isValidPid (d : Nat) : Bool := d % 16 == 15 - (d / 16) % 16

/-- `(is_normal_token | is_ping_token) & is_valid_pid` -/
def isTokenPid (d : Nat) : Bool := (d % 4 == 0b01 || d % 16 == pingPid) && isValidPid d

/-- `rx_data[3:8] == crc5(Cat(token_data[0:8], rx_data[0:3]))` -/
def crcOk (tokenData d : Nat) : Bool :=
  (d / 8) % 32 == Crc.usb2Crc5 (tokenData % 256 + 256 * (d % 8))

/-- One clock of the detector proper; the `Bool` is the combinational `timer.start`. -/
def tokStep (cfg : Config) (s : State) (i : In) : State × Bool :=
  let c := i.rx
  -- strobes default to 0 every cycle
  let r0 : Regs := { s.regs with newToken := false, newFrame := false }
  let s0 : State := { s with regs := r0 }
  match s.fsm with
  | .idle => (if c.active then { s0 with fsm := .readPid } else s0, false)
  | .readPid =>
    if !c.active then ({ s0 with fsm := .idle }, false)
    else if c.valid then
      if isTokenPid c.data then ({ s0 with currentPid := c.data % 16, fsm := .readToken0 }, false)
      else ({ s0 with fsm := .irrelevant }, false)
    else (s0, false)
  | .readToken0 =>
    if !c.active then ({ s0 with fsm := .idle }, false)
    else if c.valid then ({ s0 with tokenData := c.data % 256, fsm := .readToken1 }, false)
    else (s0, false)
  | .readToken1 =>
    if !c.active then ({ s0 with fsm := .idle }, false)
    else if c.valid then
      if crcOk s.tokenData c.data then
        ({ s0 with tokenData := s.tokenData % 256 + 256 * (c.data % 8), fsm := .tokenComplete }, false)
      else ({ s0 with fsm := .irrelevant }, false)
    else (s0, false)
  | .tokenComplete =>
    if !c.active then
      if s.currentPid == sofPid then
        ({ s0 with fsm := .idle, regs := { r0 with frame := s.tokenData, newFrame := true } }, false)
      else
        let applicable := if cfg.filterByAddress then s.tokenData % 128 == i.address else true
        if applicable then
          ({ s0 with fsm := .idle,
                     regs := { r0 with pid := s.currentPid, newToken := true,
                                       address := s.tokenData % 128,
                                       endpoint := s.tokenData / 128 } }, true)
        else
          ({ s0 with fsm := .idle, regs := { r0 with pid := 0 } }, false)
    else if c.valid then ({ s0 with fsm := .irrelevant }, false)
    else (s0, false)
  | .irrelevant =>
    if !c.active then ({ s0 with fsm := .idle }, false) else (s0, false)

/-- Outputs for a whole history, registers only (what C01 is about). -/
def tokRun (cfg : Config) : State → List In → List Regs
  | _, [] => []
  | s, i :: is => s.regs :: tokRun cfg (tokStep cfg s i).1 is

/-! ### Composition with the private inter-packet timer (all ports, for the co-simulation) -/

structure Out where
  regs : Regs
  readyForResponse : Bool
  isIn : Bool
  isOut : Bool
  isSetup : Bool
  isPing : Bool
deriving Repr

structure FullState where
  tok   : State
  timer : InterpacketTimer.State
deriving Repr

def fullInit : FullState := ⟨init, InterpacketTimer.init⟩

def step (cfg : Config) (s : FullState) (i : In) (speed : Nat) : FullState × Out :=
  let (tok', start) := tokStep cfg s.tok i
  let (timer', tout) := InterpacketTimer.step cfg.timer s.timer ⟨start, speed⟩
  let r := s.tok.regs
  (⟨tok', timer'⟩,
   ⟨r, tout.txAllowed, r.pid == 0b1001, r.pid == 0b0001, r.pid == 0b1101, r.pid == 0b0100⟩)

end LunaVerif.TokenDetector
