/-
Cycle-level model of the control path of `luna.gateware.usb.usb2.transfer.USBInTransferManager`
(FSM, data PID, buffer bookkeeping, handshake/transmit strobes) and of its wrapper
`luna.gateware.usb.usb2.endpoints.stream.USBStreamInEndpoint` (C12, C14).

The payload bytes held in the two packet memories are NOT modelled (C11's model owns the data path);
everything that decides *whether* and *with which PID* the endpoint transmits is: `data_pid`,
`buffer_toggle`, the two fill counts and `stream_ended` flags, `send_position`, `out_stream.first`.

Written to read like the source; assignments later in program order win:

  1. `If(reset_sequence): data_pid := ~start_with_data1`              (whole 2-bit register)
  2. `If(discard) … Elif(buffer_write.en) …`, `If(last & en): write_stream_ended := 1`
  3. the FSM (its `data_pid[0] := ~data_pid[0]` overrides bit 0 of (1); its `data_pid := start_with_data1`
     in WAIT_TO_SEND overrides both bits)

The host's ACK is only taken after an IN token for this endpoint (`handshakes_in.ack & active &
tokenizer.is_in`, fix 778b997).

F8 repaired (`fix: USBInTransferManager keeps a PID-sequence reset that coincides with a packet becoming
ready`, builder-in's commit 52e0a98): when `reset_sequence` coincides with the buffer swap in WAIT_FOR_DATA the
register is loaded with the start PID instead of being toggled.  `Config.f8Repaired = false` gives the
original behaviour (kept for the `…_fails` witness in `Props/C14.lean`).
-/
namespace LunaVerif.InGate

structure Config where
  mps        : Nat
  epNum      : Nat := 0
  f8Repaired : Bool := true
deriving Repr

inductive Fsm | waitData | waitSend | send | waitAck
deriving DecidableEq, Repr

structure State where
  fsm     : Fsm := .waitData
  pid0    : Bool := true        -- data_pid[0]  (init=1)
  pid1    : Bool := false       -- data_pid[1]
  toggle  : Bool := false       -- buffer_toggle (write buffer number)
  fill0   : Nat := 0
  fill1   : Nat := 0
  ended0  : Bool := false
  ended1  : Bool := false
  sendPos : Nat := 0
  first   : Bool := false       -- out_stream.first (a register)
deriving DecidableEq, Repr

/-- Inputs of `USBInTransferManager`. -/
structure In where
  active   : Bool
  isIn     : Bool      -- tokenizer.is_in
  rfr      : Bool      -- tokenizer.ready_for_response
  newToken : Bool      -- tokenizer.new_token
  ack      : Bool      -- handshakes_in.ack
  sValid   : Bool      -- transfer_stream.valid
  sLast    : Bool      -- transfer_stream.last
  flush    : Bool
  discard  : Bool
  genZlp   : Bool
  start1   : Bool      -- start_with_data1
  resetSeq : Bool      -- reset_sequence
  txReady  : Bool      -- packet_stream.ready
deriving DecidableEq, Repr

structure Out where
  nak    : Bool        -- handshakes_out.nak
  valid  : Bool        -- packet_stream.valid
  first  : Bool
  last   : Bool
  sReady : Bool        -- transfer_stream.ready
  pid    : Nat         -- data_pid (2 bits)
deriving DecidableEq, Repr

def bitsFor (n : Nat) : Nat := if n = 0 then 0 else Nat.log2 n + 1

def wFill (s : State) : Nat := if s.toggle then s.fill1 else s.fill0
def wEnded (s : State) : Bool := if s.toggle then s.ended1 else s.ended0
def rFill (s : State) : Nat := if s.toggle then s.fill0 else s.fill1
def rEnded (s : State) : Bool := if s.toggle then s.ended0 else s.ended1

def setWFill (s : State) (v : Nat) : State := if s.toggle then { s with fill1 := v } else { s with fill0 := v }
def setWEnded (s : State) (v : Bool) : State := if s.toggle then { s with ended1 := v } else { s with ended0 := v }
def setRFill (s : State) (v : Nat) : State := if s.toggle then { s with fill0 := v } else { s with fill1 := v }
def setREnded (s : State) (v : Bool) : State := if s.toggle then { s with ended0 := v } else { s with ended1 := v }

def sReady (c : Config) (s : State) : Bool := wFill s != c.mps && !wEnded s
def writeEn (c : Config) (s : State) (i : In) : Bool := i.sValid && sReady c s
def packetReady (c : Config) (s : State) (i : In) : Bool :=
  ((i.sValid && (i.sLast || wFill s + 1 == c.mps)) || (i.flush && wFill s != 0)) && !i.discard
def inTokenReceived (i : In) : Bool := i.active && i.isIn && i.rfr

def pidNat (s : State) : Nat := (if s.pid0 then 1 else 0) + (if s.pid1 then 2 else 0)

/-- The combinational outputs of a cycle. -/
def outOf (c : Config) (s : State) (i : In) : Out :=
  let tok := inTokenReceived i
  { nak := s.fsm == .waitData && tok
    valid := (s.fsm == .waitSend && !i.discard && !i.resetSeq && tok && rFill s == 0) || s.fsm == .send
    first := s.first
    last := (s.fsm == .waitSend && !i.discard && !i.resetSeq && tok && rFill s == 0) ||
            (s.fsm == .send && s.sendPos + 1 == rFill s)
    sReady := sReady c s
    pid := pidNat s }

/-- The registers after the clock edge. -/
def next (c : Config) (s : State) (i : In) : State :=
  -- (1) PID-sequence reset
  let a := if i.resetSeq then { s with pid0 := !i.start1, pid1 := false } else s
  -- (2) fill counts / stream_ended of the buffer being written
  let wen := writeEn c s i
  let b := if i.discard then setREnded (setRFill (setWEnded (setWFill a 0) false) 0) false
           else if wen then setWFill a (wFill s + 1) else a
  let b := if i.sLast && wen then setWEnded b true else b
  -- (3) the FSM
  match s.fsm with
  | .waitData =>
    if packetReady c s i then
      let d := setREnded b false
      if c.f8Repaired && i.resetSeq then
        { d with fsm := .waitSend, toggle := !s.toggle, pid0 := i.start1, pid1 := false }
      else { d with fsm := .waitSend, toggle := !s.toggle, pid0 := !s.pid0 }
    else b
  | .waitSend =>
    let d := { b with sendPos := 0 }
    if i.discard then { d with pid0 := !s.pid0, fsm := .waitData }
    else if i.resetSeq then { d with pid0 := i.start1, pid1 := false }
    else if inTokenReceived i then
      if rFill s != 0 then { d with fsm := .send, first := true }
      else { setREnded d false with fsm := .waitAck }
    else d
  | .send =>
    if i.txReady then
      let d := { b with sendPos := (s.sendPos + 1) % 2 ^ bitsFor c.mps, first := false }
      if s.sendPos + 1 == rFill s then { d with fsm := .waitAck } else d
    else b
  | .waitAck =>
    let d :=
      if i.discard then { b with fsm := .waitData }
      else if i.ack && i.active && i.isIn then
        let e := setRFill b 0
        if i.genZlp && rFill s == c.mps && rEnded s then { e with pid0 := !s.pid0, fsm := .waitSend }
        else if !sReady c s || packetReady c s i then
          { setREnded e false with fsm := .waitSend, toggle := !s.toggle, pid0 := !s.pid0 }
        else { e with fsm := .waitData }
      else b
    if i.newToken && !i.discard then { d with fsm := .waitSend } else d

def step (c : Config) (s : State) (i : In) : State × Out := (next c s i, outOf c s i)

/-! ### USBStreamInEndpoint: the wrapper's wiring -/

/-- Interface-level inputs of `USBStreamInEndpoint`. -/
structure EpIn where
  tokEp    : Nat
  isIn     : Bool
  rfr      : Bool
  newToken : Bool
  ack      : Bool
  sValid   : Bool
  sLast    : Bool
  flush    : Bool
  discard  : Bool
  chEnable : Bool      -- clear_endpoint_halt_in.enable
  chDir    : Bool      --   .direction
  chNum    : Nat       --   .number
  txReady  : Bool
deriving DecidableEq, Repr

def clearHalt (c : Config) (i : EpIn) : Bool := i.chEnable && i.chDir && i.chNum == c.epNum

def wire (c : Config) (i : EpIn) : In :=
  { active := i.tokEp == c.epNum, isIn := i.isIn, rfr := i.rfr, newToken := i.newToken, ack := i.ack,
    sValid := i.sValid, sLast := i.sLast, flush := i.flush, discard := i.discard, genZlp := true,
    start1 := false, resetSeq := clearHalt c i, txReady := i.txReady }

def epStep (c : Config) (s : State) (i : EpIn) : State × Out := step c s (wire c i)

/-- The sequence bit: PID (bit 0) of the packet the endpoint sends next, is sending, or has sent and not
yet seen acknowledged.  In WAIT_FOR_DATA the register still holds the previous packet's PID. -/
def seq (s : State) : Bool := if s.fsm = .waitData then !s.pid0 else s.pid0

def runState (c : Config) : State → List EpIn → State
  | s, [] => s
  | s, i :: is => runState c (epStep c s i).1 is

end LunaVerif.InGate
