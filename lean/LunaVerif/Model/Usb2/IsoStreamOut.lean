import LunaVerif.Model.Usb.BoundaryDetector
import LunaVerif.Model.Memory.TxnFifo
/-
Model of `luna.gateware.usb.usb2.endpoints.isochronous_stream_out.USBIsochronousStreamOutEndpoint`
(C16) = boundary detector + glue + transactional FIFO (width 10: payload, bit 8 = last, bit 9 = first).

The glue follows the repaired source (`fix: USBIsochronousStreamOutEndpoint: decide once per packet
whether it fits`): whether a packet is taken is decided on its first byte (`sufficient_space` at that
moment) and latched in `packet_fits` for the remaining bytes.  (The unrepaired source re-evaluates
`sufficient_space` for every byte while `space_available` shrinks with the uncommitted writes of the
same packet, so a packet entering a partly full FIFO is truncated and then committed.)

`overflow` and `rx_cnt` of the source drive no output and no other register in this endpoint; they are
not modelled.
-/
namespace LunaVerif.IsoStreamOut
open LunaVerif

structure Config where
  epNum  : Nat     -- endpoint_number
  mps    : Nat     -- max_packet_size
  depth  : Nat     -- buffer_size
deriving Repr

structure In where
  rx        : BoundaryDetector.In   -- interface.rx (valid, next, payload), rx_complete, rx_invalid
  tokEp     : Nat                   -- tokenizer.endpoint
  tokIsOut  : Bool                  -- tokenizer.is_out
  ready     : Bool                  -- stream.ready

structure Out where
  valid : Bool     -- stream.valid
  data  : Nat      -- stream.p.data
  first : Bool     -- stream.p.first
  last  : Bool     -- stream.p.last
deriving DecidableEq, Repr

structure State where
  det        : BoundaryDetector.State
  fifo       : TxnFifo.State Nat
  packetFits : Bool

def init : State := ⟨BoundaryDetector.init, TxnFifo.init 0, false⟩

/-- `Cat(payload, last, first)` as written into the FIFO -/
def entry (payload : Nat) (last first : Bool) : Nat :=
  payload % 256 + (if last then 256 else 0) + (if first then 512 else 0)

/-- the FIFO control inputs the glue derives in one cycle -/
def fifoIn (c : Config) (s : State) (i : In) : TxnFifo.In Nat :=
  let o := s.det.out
  let targeting := (i.tokEp == c.epNum) && i.tokIsOut
  let sufficient := decide (c.mps ≤ TxnFifo.space c.depth s.fifo)
  let accept := if o.first then sufficient else s.packetFits
  let okay := targeting && accept
  { wdata := entry o.payload o.last o.first
    wen := okay && o.next && o.valid
    wcommit := targeting && o.completeOut
    wdiscard := targeting && o.invalidOut
    ren := i.ready
    rcommit := true
    rdiscard := false }

def outOf (s : State) : Out :=
  let rd := s.fifo.rdata
  ⟨!TxnFifo.empty s.fifo, rd % 256, rd / 512 % 2 == 1, rd / 256 % 2 == 1⟩

def step (c : Config) (s : State) (i : In) : State × Out :=
  let o := s.det.out
  let sufficient := decide (c.mps ≤ TxnFifo.space c.depth s.fifo)
  let fits' := if o.next && o.valid && o.first then sufficient else s.packetFits
  (⟨BoundaryDetector.step s.det i.rx, (TxnFifo.step c.depth s.fifo (fifoIn c s i)).1, fits'⟩, outOf s)

end LunaVerif.IsoStreamOut
