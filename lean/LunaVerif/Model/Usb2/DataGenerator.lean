import LunaVerif.Model.Usb2.DataCrc
/-
Model of `luna.gateware.usb.usb2.packet.USBDataPacketGenerator` (C03) composed with the running
CRC16 unit (`USBDataPacketCRC`, model `DataCrc`) in the two wirings that exist in the code base:

* device wiring (`USBDevice.elaborate`, device.py):  `data_crc.tx_valid = tx.valid & utmi.tx_ready`,
  `data_crc.tx_data = tx.data`  — `Config.standalone = false`; the theorems are about this one;
* the class's own `standalone=True` wiring: `crc.tx_valid = tx.ready`, `crc.tx_data = stream.payload`.

In both, `crc.rx_valid = 0` and the unit is cleared by the generator's `crc.start` (SEND_PID).
One `match` arm per FSM state; outputs are those visible in the same cycle as the inputs.
Core Lean only.
-/
namespace LunaVerif.DataGenerator
open LunaVerif.DataCrc

inductive Fsm | idle | sendPid | sendPayload | sendCrcFirst | sendCrcSecond
deriving Repr, DecidableEq

structure Config where
  standalone : Bool
deriving Repr

structure In where
  dataPid : Nat      -- 2 bit
  valid   : Bool     -- stream.valid
  first   : Bool     -- stream.first
  last    : Bool     -- stream.last
  payload : Nat      -- stream.payload
  ready   : Bool     -- tx.ready (PHY accepts the byte on the bus in this cycle)
deriving Repr

structure State where
  fsm          : Fsm
  currentPid   : Nat     -- current_data_pid (8 bit)
  remainingCrc : Nat     -- remaining_crc (8 bit)
  isZlp        : Bool
  crc          : Reg     -- USBDataPacketCRC.crc
deriving Repr, DecidableEq

structure Out where
  txValid     : Bool
  txData      : Nat
  streamReady : Bool
  crcOut      : Nat      -- crc.crc (DataCRCInterface)
deriving Repr, DecidableEq

def init : State := { fsm := .idle, currentPid := 0, remainingCrc := 0, isZlp := false, crc := initReg }

/-- The `data_pids` array: 0 = DATA0, 1 = DATA1, 2 = DATA2, 3 = MDATA. -/
def dataPidByte (n : Nat) : Nat :=
  match n % 4 with
  | 0 => 0xC3
  | 1 => 0x4B
  | 2 => 0x87
  | _ => 0x0F

/-- FSM part of a cycle: (next state without the CRC update, tx.valid, tx.data, stream.ready, crc.start). -/
def fsmStep (s : State) (i : In) : State × Bool × Nat × Bool × Bool :=
  let crcOut := output s.crc
  match s.fsm with
  | .idle =>
    let s1 := { s with currentPid := dataPidByte i.dataPid }
    if i.first && i.valid then ({ s1 with isZlp := false, fsm := .sendPid }, false, 0, false, false)
    else if i.last && i.valid then ({ s1 with isZlp := true, fsm := .sendPid }, false, 0, false, false)
    else (s1, false, 0, false, false)
  | .sendPid =>
    ({ s with fsm := if i.ready then (if s.isZlp then .sendCrcFirst else .sendPayload) else .sendPid },
      true, s.currentPid, false, true)
  | .sendPayload =>
    ({ s with fsm := if i.ready && (i.last || !i.valid) then .sendCrcFirst else .sendPayload },
      i.valid, i.payload, i.ready, false)
  | .sendCrcFirst =>
    ({ s with remainingCrc := crcOut / 256, fsm := if i.ready then .sendCrcSecond else .sendCrcFirst },
      true, crcOut % 256, false, false)
  | .sendCrcSecond =>
    ({ s with fsm := if i.ready then .idle else .sendCrcSecond }, true, s.remainingCrc, false, false)

def step (c : Config) (s : State) (i : In) : State × Out :=
  let r := fsmStep s i
  let crcTxValid := if c.standalone then i.ready else (r.2.1 && i.ready)
  let crcTxData  := if c.standalone then i.payload else r.2.2.1
  ({ r.1 with crc := DataCrc.next s.crc r.2.2.2.2 false 0 crcTxValid crcTxData },
   { txValid := r.2.1, txData := r.2.2.1, streamReady := r.2.2.2.1, crcOut := output s.crc })

end LunaVerif.DataGenerator
