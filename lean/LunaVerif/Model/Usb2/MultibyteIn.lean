import LunaVerif.Model.Usb2.InTransferManager
/-
Model of `luna.gateware.usb.usb2.endpoints.stream.USBMultibyteStreamInEndpoint` (C29).

The class is a small serialiser ("shim": IDLE / TRANSMIT, `data_shift`, `first_latched`,
`last_latched`, `bytes_to_send`) in front of an inner `USBStreamInEndpoint`, which is the
`USBInTransferManager` of C11 with `generate_zlps = 1`, `active = (endpoint matches)`, and `flush`,
`discard` tied to 0.  `Shim.step` takes the inner byte stream's `ready` as an *input* (the shim theorems hold for an
arbitrary `ready` schedule); `step` is the composite, where `ready` comes from the C11 model's state.

Shim details kept: `byte_stream.first/last` are only raised in a cycle in which the byte is taken
(`byte_stream.ready`); the word stream is `ready` in IDLE and in the cycle in which the last byte of the
previous word is taken (back-to-back words without an idle cycle).
-/
namespace LunaVerif.MultibyteIn

inductive Fsm | idle | transmit
deriving Repr, DecidableEq

structure Shim where
  fsm    : Fsm
  shift  : Nat      -- data_shift  (8·bw bits)
  firstL : Bool
  lastL  : Bool
  bts    : Nat      -- bytes_to_send
deriving Repr

structure WordIn where
  valid   : Bool
  payload : Nat
  first   : Bool
  last    : Bool
deriving Repr

structure ShimOut where
  wReady : Bool
  bValid : Bool
  bPayload : Nat
  bFirst : Bool
  bLast  : Bool
deriving Repr

def Shim.init : Shim := ⟨.idle, 0, false, false, 0⟩

def Shim.load (bw : Nat) (w : WordIn) : Shim :=
  ⟨.transmit, w.payload % 2 ^ (8 * bw), w.first, w.last, bw - 1⟩

def Shim.step (bw : Nat) (s : Shim) (w : WordIn) (bReady : Bool) : Shim × ShimOut :=
  match s.fsm with
  | .idle =>
    (if w.valid then Shim.load bw w else s, ⟨true, false, s.shift % 256, false, false⟩)
  | .transmit =>
    if bReady then
      let o : ShimOut := ⟨decide (s.bts = 0), true, s.shift % 256,
                          s.firstL && (s.bts == bw - 1), s.lastL && (s.bts == 0)⟩
      if s.bts > 0 then ({ s with bts := s.bts - 1, shift := s.shift / 256 }, o)
      else if w.valid then (Shim.load bw w, o)
      else ({ s with fsm := .idle }, o)
    else (s, ⟨false, true, s.shift % 256, false, false⟩)

/-! ## The composite endpoint -/

structure Config where
  mps : Nat
  bw  : Nat        -- byte_width (>= 1)
deriving Repr

structure State where
  shim  : Shim
  inner : InXfer.State
deriving Repr

structure In where
  active   : Bool     -- tokenizer.endpoint == endpoint_number
  isIn     : Bool
  rfr      : Bool
  newToken : Bool
  ack      : Bool
  word     : WordIn
  txReady  : Bool
deriving Repr

def init (c : Config) : State := ⟨Shim.init, InXfer.init ⟨c.mps⟩⟩

def step (c : Config) (s : State) (i : In) : State × ShimOut × Bool × InXfer.Out :=
  let bReady := InXfer.inReady ⟨c.mps⟩ s.inner
  let (sh', so) := Shim.step c.bw s.shim i.word bReady
  let xi : InXfer.In :=
    ⟨i.active, i.isIn, i.rfr, i.newToken, i.ack, so.bValid, so.bPayload, so.bLast, false, false, true,
     false, false, i.txReady⟩
  let (x', xo) := InXfer.step ⟨c.mps⟩ s.inner xi
  (⟨sh', x'⟩, so, bReady, xo)

end LunaVerif.MultibyteIn
