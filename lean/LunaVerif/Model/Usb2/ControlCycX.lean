import LunaVerif.Model.Usb2.ControlCyc
/-
`USBRequestHandlerMultiplexer` (luna/gateware/usb/usb2/request.py) with ANY number of additional request handlers
next to the `StandardRequestHandler`.

The additional handlers are abstract: their `RequestHandlerInterface` outputs (`claim`, `handshakes_out`, `tx`,
`tx_data_pid`, the address / configuration / halt-clear strobes) are INPUTS of every cycle (`xs : List HOut`, in the
order of `add_request_handler`; the standard handler is interface 0).  The multiplexer:

    encoder.i = Cat(interface.claim for interface in interfaces)          # amaranth.lib.coding.Encoder
    Switch(encoder.o): Case(index): shared outputs = interface[index] outputs
    If(encoder.n):                   shared outputs = fallback outputs      # later assignment: wins

`Encoder`: `o` = the index of the single set bit, `n` = 1 when no bit or more than one bit is set (then `o` = 0, and the
fallback's assignments override those of interface 0 signal by signal).  So the shared outputs are those of the ONLY
claiming handler, and the `StallOnlyRequestHandler` fallback's when nobody or more than one handler claims.

`stepX c s i []` is `step c s i` (Lemmas/C07Extra.lean: `stepX_nil`).  Core Lean only (linked into lean/Driver/C07Cyc.lean).
-/
namespace LunaVerif.CtrlCyc
open LunaVerif.Device

/-- The multiplexer over the handlers' outputs in interface order: the first claiming handler's outputs if no other
handler claims, else (nobody, or more than one) the fallback's. -/
def muxN : List HOut → HIn → HOut
  | [], i => fallbackOut i
  | h :: hs, i => if h.claim then (if hs.all (fun x => !x.claim) then h else fallbackOut i) else muxN hs i

/-- One cycle of the control endpoint with the additional handlers' outputs `xs`.  The registers (stage FSM, standard
handler) do not depend on `xs`: the multiplexer only selects outputs. -/
def stepX (c : Cfg) (s : CycState) (i : CycIn) (xs : List HOut) : CycState × CycOut :=
  let cc := ctrlComb c s.stage i
  let hi := handlerIn i cc
  let r := stdStep c s.h hi
  let sel := muxN (r.2 :: xs) hi
  ({ stage := ctrlNext c s.stage i, h := r.1 },
   { ack := i.sdAck || sel.ack || cc.pingAck
     nak := false
     stall := sel.stall
     txValid := sel.txValid, txFirst := sel.txFirst, txLast := sel.txLast, txPayload := sel.txPayload
     txPidToggle := if sel.txDataPid then 1 else 0
     addressChanged := sel.addressChanged, newAddress := sel.newAddress
     configChanged := sel.configChanged, newConfig := sel.newConfig
     cehEnable := sel.cehEnable, cehDirection := sel.cehDirection, cehNumber := sel.cehNumber
     ctl := cc, h := r.2 })

end LunaVerif.CtrlCyc
