/-
Model of the device-to-host half of `luna.gateware.usb.usb2.endpoint.USBEndpointMultiplexer`
(including its `luna.gateware.utils.bus.OneHotMultiplexer` for the transmit stream) — C12, C14.

Everything routed *to* the endpoints (tokenizer, handshake detector, rx stream, timer, CRC, halt-clear
strobe) is a plain broadcast wire in the source; what needs a model is the merge of what the endpoints
drive:

  * transmit stream: `valid`, `first`, `last` are OR-ed; `payload` goes through a `Switch` on
    `amaranth.lib.coding.Encoder(valid bits)`, whose output is the index of the single set bit and **0
    whenever the input is not one-hot** (no valid or several valids) — modelled as coded; `ready` is
    passed back to every interface;
  * `handshakes_out.{ack,nak,stall}` and the three fields of `clear_endpoint_halt_out` are OR-joined
    field by field (so two drivers naming different endpoints would merge their numbers bitwise);
  * `tx_pid_toggle`: priority `If/Elif` over the interfaces on `tx.valid | past_valid[i]`, where
    `past_valid` is `tx.valid` of the previous cycle (a register); 0 when no branch is taken;
  * `address_changed/new_address`, `config_changed/new_config`: priority `If/Elif` on the strobe.
-/
namespace LunaVerif.EpMux

/-- What one pre-mux `EndpointInterface` drives. -/
structure Drv where
  valid    : Bool := false
  first    : Bool := false
  last     : Bool := false
  payload  : Nat := 0        -- 8 bits
  pid      : Nat := 0        -- tx_pid_toggle, 2 bits
  ack      : Bool := false
  nak      : Bool := false
  stall    : Bool := false
  chEnable : Bool := false   -- clear_endpoint_halt_out
  chDir    : Bool := false
  chNum    : Nat := 0        -- 4 bits
  addrChg  : Bool := false
  newAddr  : Nat := 0
  cfgChg   : Bool := false
  newCfg   : Nat := 0
deriving DecidableEq, Repr

/-- The post-mux (`shared`) values. -/
structure Out where
  valid    : Bool
  first    : Bool
  last     : Bool
  payload  : Nat
  pid      : Nat
  ack      : Bool
  nak      : Bool
  stall    : Bool
  chEnable : Bool
  chDir    : Bool
  chNum    : Nat
  addrChg  : Bool
  newAddr  : Nat
  cfgChg   : Bool
  newCfg   : Nat
deriving DecidableEq, Repr

/-- `past_valid` register, one bit per interface. -/
abbrev State := List Bool

def init (n : Nat) : State := List.replicate n false

/-- Index of the first `true`. -/
def firstIdx : List Bool → Nat
  | [] => 0
  | b :: bs => if b then 0 else firstIdx bs + 1

def countTrue (bs : List Bool) : Nat := (bs.filter id).length

/-- `Encoder.o`: the index of the set bit when exactly one bit is set, 0 otherwise. -/
def encoderO (bs : List Bool) : Nat := if countTrue bs = 1 then firstIdx bs else 0

/-- Priority `If/Elif` chain: value of the first entry whose condition holds, else 0 (signal default). -/
def prio : List (Bool × Nat) → Nat
  | [] => 0
  | (c, v) :: rest => if c then v else prio rest

def bitOr (a b : Nat) : Nat := a ||| b

def outOf (past : State) (ds : List Drv) : Out :=
  let sel := encoderO (ds.map (·.valid))
  { valid := ds.any (·.valid), first := ds.any (·.first), last := ds.any (·.last)
    payload := match ds[sel]? with | some d => d.payload | none => 0
    pid := prio (List.zipWith (fun d p => (d.valid || p, d.pid)) ds past)
    ack := ds.any (·.ack), nak := ds.any (·.nak), stall := ds.any (·.stall)
    chEnable := ds.any (·.chEnable), chDir := ds.any (·.chDir)
    chNum := (ds.map (·.chNum)).foldr bitOr 0
    addrChg := ds.any (·.addrChg)
    newAddr := prio (ds.map (fun d => (d.addrChg, d.newAddr)))
    cfgChg := ds.any (·.cfgChg)
    newCfg := prio (ds.map (fun d => (d.cfgChg, d.newCfg))) }

def step (past : State) (ds : List Drv) : State × Out := (ds.map (·.valid), outOf past ds)

end LunaVerif.EpMux
