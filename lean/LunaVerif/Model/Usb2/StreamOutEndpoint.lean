import LunaVerif.Model.Usb.BoundaryDetector
import LunaVerif.Model.Memory.TxnFifo
/-
Model of `luna.gateware.usb.usb2.endpoints.stream.USBStreamOutEndpoint` (C13)
= boundary detector + ack/nak/commit/discard glue + transactional FIFO (width 10: payload,
bit 8 = last, bit 9 = first).  The model follows the repaired source (two `fix:` commits):

* `overflow` stays set until the next token (`tokenizer.new_token`) instead of being cleared by the
  discard at `complete_out`, so an overflowed packet is discarded *and* NAKed whatever the delay of
  `rx_ready_for_response`;
* `transfer_active` follows accepted packets only: a committed packet continues the transfer iff it was
  a full one (`packet_is_full`, latched on the write of its last byte), a discarded packet changes
  nothing, and an accepted (ACKed) zero-length packet — which never reaches the FIFO — ends it
  (`packet_has_data` is cleared by the token and set by the first byte written or lost).

Kept as in the source: `rx_pid_toggle` is two bits wide and compared with the one-bit expected toggle;
`rx_cnt` is `Signal(range(max_packet_size))` and wraps at its bit width.
-/
namespace LunaVerif.StreamOutEndpoint
open LunaVerif

structure Config where
  epNum : Nat     -- endpoint_number
  mps   : Nat     -- max_packet_size
  depth : Nat     -- buffer_size
deriving Repr

structure In where
  rx          : BoundaryDetector.In   -- interface.rx (valid, next, payload), rx_complete, rx_invalid
  rxReady     : Bool                  -- interface.rx_ready_for_response
  pidToggle   : Nat                   -- interface.rx_pid_toggle (2 bits)
  tokEp       : Nat                   -- tokenizer.endpoint
  tokIsOut    : Bool                  -- tokenizer.is_out
  tokIsPing   : Bool                  -- tokenizer.is_ping
  tokReady    : Bool                  -- tokenizer.ready_for_response
  tokNew      : Bool                  -- tokenizer.new_token
  clearHalt   : Bool                  -- clear_endpoint_halt_in.enable & ~direction & number == endpoint
  ready       : Bool                  -- stream.ready

structure Out where
  ack   : Bool
  nak   : Bool
  valid : Bool
  data  : Nat
  first : Bool
  last  : Bool
deriving DecidableEq, Repr

structure State where
  det            : BoundaryDetector.State
  fifo           : TxnFifo.State Nat
  expectedToggle : Bool
  overflow       : Bool
  rxCnt          : Nat
  transferActive : Bool
  packetIsFull   : Bool
  packetHasData  : Bool

def init : State := ⟨BoundaryDetector.init, TxnFifo.init 0, false, false, 0, false, false, false⟩

/-- smallest `w ≥ start` with `2 ^ w ≥ n` (structural in the fuel, so the kernel can evaluate it) -/
def bitsAux : Nat → Nat → Nat → Nat
  | 0, _, w => w
  | fuel + 1, n, w => if n ≤ 2 ^ w then w else bitsAux fuel n (w + 1)

/-- number of bits of `Signal(range(n))` (0 for n ≤ 1, else ⌈log2 n⌉) -/
def bitsFor (n : Nat) : Nat := if n ≤ 1 then 0 else bitsAux n n 0

def entry (payload : Nat) (last first : Bool) : Nat :=
  payload % 256 + (if last then 256 else 0) + (if first then 512 else 0)

/-- the combinational conditionals of the source, in its own names -/
structure Comb where
  targeting      : Bool
  pidMatch       : Bool
  sufficient     : Bool
  pingRequested  : Bool
  dataRequested  : Bool
  okayToReceive  : Bool
  dataIsLost     : Bool
  dataAccepted   : Bool
  shouldSkip     : Bool
  fullPacket     : Bool
  writeEn        : Bool
  writeCommit    : Bool
  writeDiscard   : Bool

def comb (c : Config) (s : State) (i : In) : Comb :=
  let o := s.det.out
  let epMatch := i.tokEp == c.epNum
  let targeting := epMatch && i.tokIsOut
  let pidMatch := i.pidToggle == (if s.expectedToggle then 1 else 0)
  let sufficient := decide (c.mps ≤ TxnFifo.space c.depth s.fifo)
  let pingRequested := epMatch && i.tokIsPing && i.tokReady
  let dataRequested := targeting && i.tokIsOut && i.rxReady
  let okay := targeting && pidMatch
  let full := TxnFifo.full c.depth s.fifo
  let lost := okay && o.next && o.valid && full
  let accepted := okay && !lost && !s.overflow
  let skip := targeting && !pidMatch
  let fullPacket := s.rxCnt == c.mps - 1
  { targeting := targeting, pidMatch := pidMatch, sufficient := sufficient, pingRequested := pingRequested,
    dataRequested := dataRequested, okayToReceive := okay, dataIsLost := lost, dataAccepted := accepted,
    shouldSkip := skip, fullPacket := fullPacket,
    writeEn := okay && o.next && o.valid && !full,
    writeCommit := targeting && o.completeOut && !s.overflow,
    writeDiscard := targeting && (o.invalidOut || (o.completeOut && s.overflow)) }

def fifoIn (c : Config) (s : State) (i : In) : TxnFifo.In Nat :=
  let o := s.det.out
  let k := comb c s i
  { wdata := entry o.payload (o.last && !k.fullPacket) (o.first && !s.transferActive)
    wen := k.writeEn, wcommit := k.writeCommit, wdiscard := k.writeDiscard
    ren := i.ready, rcommit := true, rdiscard := false }

def outOf (c : Config) (s : State) (i : In) : Out :=
  let k := comb c s i
  let rd := s.fifo.rdata
  { ack := (k.dataRequested && k.dataAccepted) || (k.pingRequested && k.sufficient) || (k.dataRequested && k.shouldSkip)
    nak := (k.dataRequested && !k.dataAccepted && !k.shouldSkip) || (k.pingRequested && !k.sufficient)
    valid := !TxnFifo.empty s.fifo
    data := rd % 256, first := rd / 512 % 2 == 1, last := rd / 256 % 2 == 1 }

def step (c : Config) (s : State) (i : In) : State × Out :=
  let o := s.det.out
  let k := comb c s i
  let byteNow := o.next && o.valid
  -- Count bytes in packet; remember whether the packet is a full one
  let rxCnt1 := if k.writeEn then (s.rxCnt + 1) % 2 ^ bitsFor c.mps else s.rxCnt
  let pif' := if k.writeEn && o.last then k.fullPacket else s.packetIsFull
  -- transfer_active: commit takes packet_is_full; an accepted zero-length packet clears it (later assignment)
  let ta1 := if k.writeCommit && s.packetHasData then s.packetIsFull else s.transferActive
  let ta' := if k.dataRequested && k.dataAccepted && !s.packetHasData && !byteNow then false else ta1
  -- packet_has_data: cleared by a token, set by a byte for us (later assignment wins)
  let phd1 := if i.tokNew then false else s.packetHasData
  let phd' := if k.okayToReceive && byteNow then true else phd1
  -- overflow: If(data_is_lost) 1, Elif(new_token) 0; rx_cnt cleared when the packet is done
  let overflow' := if k.dataIsLost then true else if i.tokNew then false else s.overflow
  let rxCnt' := if k.writeCommit || k.writeDiscard then 0 else rxCnt1
  -- toggle on ACKed data; ClearFeature(ENDPOINT_HALT) resets it (later assignment)
  let tg1 := if k.dataRequested && k.dataAccepted then !s.expectedToggle else s.expectedToggle
  let tg' := if i.clearHalt then false else tg1
  (⟨BoundaryDetector.step s.det i.rx, (TxnFifo.step c.depth s.fifo (fifoIn c s i)).1, tg', overflow', rxCnt', ta',
    pif', phd'⟩, outOf c s i)

end LunaVerif.StreamOutEndpoint
