import LunaVerif.Core.Utmi
/-
Models of `luna.gateware.usb.usb2.packet.USBHandshakeGenerator` and `USBHandshakeDetector` (C04).

Generator: FSM IDLE/TRANSMIT in the `usb` domain; `tx.valid` is combinational (= state is
TRANSMIT), `tx.data` is a *register* loaded in IDLE when a request strobe is seen.  The three
`with m.If(...)` blocks in IDLE are independent (not `Elif`), so with simultaneous requests the
LATER assignment wins: stall over nak over ack.  Requests in TRANSMIT are ignored.

Detector: FSM IDLE/READ_PID/AWAIT_COMPLETION/IRRELEVANT; the four strobes are registers cleared
every cycle and set in the cycle `rx_active` is seen low in AWAIT_COMPLETION; `active_pid` is a
4-bit register that keeps the low nibble of the PID byte.

Core Lean only.
-/
namespace LunaVerif.Handshake

/-! ## Generator -/
namespace Gen

def packetAck   : Nat := 0b11010010
def packetNak   : Nat := 0b01011010
def packetStall : Nat := 0b00011110

structure State where
  transmit : Bool     -- FSM state is TRANSMIT
  data     : Nat      -- tx.data register
deriving Repr, DecidableEq

structure In where
  ack   : Bool
  nak   : Bool
  stall : Bool
  ready : Bool        -- tx.ready
deriving Repr, DecidableEq

structure Out where
  valid : Bool
  data  : Nat
deriving Repr, DecidableEq

def init : State := ⟨false, 0⟩

def step (s : State) (i : In) : State × Out :=
  let out : Out := ⟨s.transmit, s.data⟩
  let s' : State :=
    if !s.transmit then
      -- IDLE: three independent `If`s; the later one overrides the earlier ones
      let s1 := if i.ack   then ⟨true, packetAck⟩   else s
      let s2 := if i.nak   then ⟨true, packetNak⟩   else s1
      let s3 := if i.stall then ⟨true, packetStall⟩ else s2
      s3
    else
      -- TRANSMIT
      if i.ready then { s with transmit := false } else s
  (s', out)

def run : State → List In → List Out
  | _, [] => []
  | s, i :: is => (step s i).2 :: run (step s i).1 is

end Gen

/-! ## Detector -/
namespace Det
open LunaVerif.Utmi

inductive Fsm | idle | readPid | awaitCompletion | irrelevant
deriving Repr, DecidableEq

structure State where
  fsm       : Fsm
  activePid : Nat       -- Signal(4)
  ack       : Bool
  nak       : Bool
  stall     : Bool
  nyet      : Bool
deriving Repr, DecidableEq

structure Out where
  ack   : Bool
  nak   : Bool
  stall : Bool
  nyet  : Bool
deriving Repr, DecidableEq

def init : State := ⟨.idle, 0, false, false, false, false⟩

/-- `rx_data[0:4] == ~rx_data[4:8]` -/
def isValidPid (d : Nat) : Bool := d % 16 == 15 - (d / 16) % 16

def ackPid   : Nat := 0b0010
def nakPid   : Nat := 0b1010
def stallPid : Nat := 0b1110
def nyetPid  : Nat := 0b0110

def step (s : State) (c : RxCycle) : State × Out :=
  let out : Out := ⟨s.ack, s.nak, s.stall, s.nyet⟩
  -- strobes default to 0 every cycle
  let s0 : State := { s with ack := false, nak := false, stall := false, nyet := false }
  let s' : State :=
    match s.fsm with
    | .idle => if c.active then { s0 with fsm := .readPid } else s0
    | .readPid =>
      if !c.active then { s0 with fsm := .idle }
      else if c.valid then
        if isValidPid c.data then { s0 with activePid := c.data % 16, fsm := .awaitCompletion }
        else { s0 with fsm := .irrelevant }
      else s0
    | .awaitCompletion =>
      if !c.active then
        { s0 with ack := s.activePid == ackPid, nak := s.activePid == nakPid,
                  stall := s.activePid == stallPid, nyet := s.activePid == nyetPid, fsm := .idle }
      else if c.valid then { s0 with fsm := .irrelevant }
      else s0
    | .irrelevant => if !c.active then { s0 with fsm := .idle } else s0
  (s', out)

def run : State → List RxCycle → List Out
  | _, [] => []
  | s, c :: cs => (step s c).2 :: run (step s c).1 cs

end Det
end LunaVerif.Handshake
