import LunaVerif.Model.Device.Control
/-
CYCLE-level model of `USBControlEndpoint` (luna/gateware/usb/usb2/control.py) composed with the
`USBRequestHandlerMultiplexer` (usb2/request.py; one `StandardRequestHandler` + the `StallOnlyRequestHandler`
fallback) and the `StandardRequestHandler` FSM (usb/request/standard.py, usb/request/control.py), at the level
of the `EndpointInterface` / `RequestHandlerInterface` ports.

Abstracted as INPUTS of every cycle (their outputs are sampled from the real submodules by the co-simulation,
harness/props/c07_cyc.py, and are arbitrary in the theorems):
  * the setup decoder   : `packet.received`, the latched `SetupPacket` fields, `ack`;
  * the descriptor handler (`get_descriptor_handler`) : its `tx` stream and `stall`;
  * the `StreamSerializer` "transmitter"            : its `stream`.
Not modelled: the `rx` stream pass-through of the DATA_OUT stage (the standard handler ignores `rx`).

One `step` = one `usb` clock cycle with the framework's sampling discipline: the outputs are the settled
combinational values of the cycle (they see the inputs of the same cycle and the registers before the edge).
Later assignments win exactly as in Amaranth (`handle_new_setup` is applied last in every handler state, the
DATA->STATUS transition after `_handle_setup_reset`, the PING acknowledgement after the `ack` wiring).

Core Lean only (linked into lean/Driver/C07Cyc.lean).
-/
namespace LunaVerif.CtrlCyc
open LunaVerif.Device

/-- Build-time parameters. -/
structure Cfg where
  epNum     : Nat := 0     -- `endpoint_number` of the control endpoint
  maxPacket : Nat := 64    -- `max_packet_size` handed to the standard request handler
deriving Repr, DecidableEq

/-- Inputs of one cycle. -/
structure CycIn where
  -- TokenDetectorInterface (interface.tokenizer)
  tokEp            : Nat  := 0
  newToken         : Bool := false
  readyForResponse : Bool := false
  isIn             : Bool := false
  isOut            : Bool := false
  isSetup          : Bool := false
  isPing           : Bool := false
  -- EndpointInterface
  rxReady          : Bool := false     -- rx_ready_for_response
  hsAck            : Bool := false     -- handshakes_in.ack
  activeConfig     : Nat  := 0
  txReady          : Bool := false     -- tx.ready
  -- setup decoder (abstracted submodule)
  received         : Bool := false     -- packet.received
  sdAck            : Bool := false     -- setup_decoder.ack
  su               : Setup := {}       -- packet.* (registers of the decoder, as visible in this cycle)
  -- descriptor handler (abstracted submodule)
  dValid           : Bool := false
  dFirst           : Bool := false
  dLast            : Bool := false
  dPayload         : Nat  := 0
  dStall           : Bool := false
  -- transmitter (abstracted submodule)
  tValid           : Bool := false
  tFirst           : Bool := false
  tLast            : Bool := false
  tPayload         : Nat  := 0
deriving Repr, DecidableEq

/-! ### `StandardRequestHandler` -/

/-- Registers of the standard request handler. -/
structure StdState where
  hstate       : HState := .idle
  startPos     : Nat    := 0       -- get_descriptor_handler.start_position (11 bits)
  txPid        : Bool   := true    -- interface.tx_data_pid (init = 1)
  expectingAck : Bool   := false
deriving Repr, DecidableEq

/-- Inputs of the handler (its `RequestHandlerInterface`, plus the outputs of its two abstracted submodules). -/
structure HIn where
  su              : Setup := {}
  received        : Bool := false
  dataRequested   : Bool := false
  statusRequested : Bool := false
  hsAck           : Bool := false      -- interface.handshakes_in.ack (already gated by the control endpoint)
  activeConfig    : Nat  := 0
  txReady         : Bool := false      -- interface.tx.ready
  dValid          : Bool := false
  dFirst          : Bool := false
  dLast           : Bool := false
  dPayload        : Nat  := 0
  dStall          : Bool := false
  tValid          : Bool := false
  tFirst          : Bool := false
  tLast           : Bool := false
  tPayload        : Nat  := 0
deriving Repr, DecidableEq

/-- Combinational outputs of a request handler. -/
structure HOut where
  claim          : Bool := false
  ack            : Bool := false       -- handshakes_out.ack
  stall          : Bool := false       -- handshakes_out.stall
  txValid        : Bool := false
  txFirst        : Bool := false
  txLast         : Bool := false
  txPayload      : Nat  := 0
  txDataPid      : Bool := true        -- tx_data_pid
  addressChanged : Bool := false
  newAddress     : Nat  := 0
  configChanged  : Bool := false
  newConfig      : Nat  := 0
  cehEnable      : Bool := false       -- clear_endpoint_halt.enable / direction / number
  cehDirection   : Bool := false
  cehNumber      : Nat  := 0
  -- towards the abstracted submodules
  dStart         : Bool := false       -- get_descriptor_handler.start
  dReady         : Bool := false       -- get_descriptor_handler.tx.ready
  tStart         : Bool := false       -- transmitter.start
  tReady         : Bool := false       -- transmitter.stream.ready
  tMaxLen        : Nat  := 0           -- transmitter.max_length
  tData0         : Nat  := 0           -- transmitter.data[0]
deriving Repr, DecidableEq

/-- `handle_simple_data_request` (GET_STATUS: data 0, length 2; GET_CONFIGURATION: active_config, length 1). -/
def simpleDataOut (s : StdState) (i : HIn) (data len : Nat) : HOut :=
  { claim := true, txDataPid := s.txPid,
    txValid := i.tValid, txFirst := i.tFirst, txLast := i.tLast, txPayload := i.tPayload,
    tReady := i.txReady, tMaxLen := len, tData0 := data,
    tStart := i.dataRequested,
    ack := i.statusRequested }

/-- `handle_register_write_request` (no stall condition) -- status answer = ZLP (`valid` & `last`, no `first`);
the strobe and the value are driven while `handshakes_in.ack`. -/
def regWriteZlp (s : StdState) (i : HIn) : HOut :=
  { claim := true, txDataPid := s.txPid, txValid := i.statusRequested, txLast := i.statusRequested }

/-- The combinational outputs of the standard handler while `setup.type == STANDARD`. -/
def stdComb (s : StdState) (i : HIn) : HOut :=
  match s.hstate with
  | .idle => { claim := true, txDataPid := s.txPid }
  | .getStatus => simpleDataOut s i 0 2
  | .getConfiguration => simpleDataOut s i (i.activeConfig % 256) 1
  | .clearFeature =>
      let st := clearFeatureStalls i.su
      { claim := true, txDataPid := s.txPid,
        stall := i.statusRequested && st,
        txValid := i.statusRequested && !st, txLast := i.statusRequested && !st,
        cehEnable := i.hsAck,
        cehDirection := i.hsAck && (i.su.index / 128 % 2 == 1),
        cehNumber := if i.hsAck then i.su.index % 16 else 0 }
  | .setAddress =>
      { regWriteZlp s i with
        addressChanged := i.hsAck, newAddress := if i.hsAck then i.su.value % 128 else 0 }
  | .setConfiguration =>
      { regWriteZlp s i with
        configChanged := i.hsAck, newConfig := if i.hsAck then i.su.value % 256 else 0 }
  | .getDescriptor =>
      { claim := true, txDataPid := s.txPid,
        txValid := i.dValid, txFirst := i.dFirst, txLast := i.dLast, txPayload := i.dPayload,
        dReady := i.txReady,
        stall := i.dStall,
        dStart := i.dataRequested,
        ack := i.statusRequested }
  | .unhandled => { claim := true, txDataPid := s.txPid, stall := i.dataRequested || i.statusRequested }

/-- The handler's registers after the clock edge, before `handle_new_setup` is taken into account. -/
def stdStateBody (c : Cfg) (s : StdState) (i : HIn) : StdState :=
  match s.hstate with
  | .idle => { s with startPos := 0, txPid := true }
  | .getStatus | .getConfiguration => if i.statusRequested then { s with hstate := .idle } else s
  | .clearFeature | .setAddress | .setConfiguration => if i.hsAck then { s with hstate := .idle } else s
  | .getDescriptor =>
      let adv := i.hsAck && s.expectingAck
      let e1 := if i.dataRequested then true else s.expectingAck
      let e2 := if adv then false else e1
      let e3 := if i.dStall then false else e2
      { hstate := if i.dStall then .idle else if i.statusRequested then .idle else .getDescriptor
        startPos := if adv then (s.startPos + c.maxPacket) % 2048 else s.startPos
        txPid := if adv then !s.txPid else s.txPid
        expectingAck := e3 }
  | .unhandled => if i.dataRequested || i.statusRequested then { s with hstate := .idle } else s

/-- `handle_new_setup()` -- the last statement of every state: it wins over everything above. -/
def handleNewSetup (s : StdState) (i : HIn) : StdState :=
  if i.received then { s with startPos := 0, txPid := true, hstate := dispatch i.su.request } else s

/-- One cycle of `StandardRequestHandler` (no skiplist): everything sits under `If(setup.type == STANDARD)`. -/
def stdStep (c : Cfg) (s : StdState) (i : HIn) : StdState × HOut :=
  if i.su.type = TYPE_STANDARD then (handleNewSetup (stdStateBody c s i) i, stdComb s i)
  else (s, { txDataPid := s.txPid })

/-- `StallOnlyRequestHandler` (the multiplexer's fallback): its `tx_data_pid` is never driven (init 1). -/
def fallbackOut (i : HIn) : HOut :=
  { stall := i.dataRequested || i.statusRequested, txDataPid := true }

/-- `USBRequestHandlerMultiplexer` with one handler: its outputs when it claims, else the fallback's. -/
def muxOut (o : HOut) (i : HIn) : HOut := if o.claim then o else fallbackOut i

/-! ### `USBControlEndpoint` -/

def targeted (c : Cfg) (i : CycIn) : Bool := i.tokEp == c.epNum

/-- What the control endpoint's FSM drives combinationally. -/
structure CtrlComb where
  dataRequested   : Bool
  statusRequested : Bool
  hsAck           : Bool     -- handshakes_in.ack as forwarded to the request handlers
  pingAck         : Bool     -- the PING acknowledgement of the OUT stages
deriving Repr, DecidableEq

def ctrlComb (c : Cfg) (st : Stage) (i : CycIn) : CtrlComb :=
  let tg := targeted c i
  { hsAck := tg && i.isIn && i.hsAck
    dataRequested := st == .dataIn && (i.readyForResponse && tg && i.isIn)
    statusRequested :=
      (st == .statusIn && (i.readyForResponse && tg && i.isIn)) ||
      (st == .statusOut && (i.rxReady && tg && i.isOut))
    pingAck := (st == .dataOut || st == .statusOut) && (tg && i.readyForResponse && i.isPing) }

/-- The stage register after the clock edge. -/
def ctrlNext (c : Cfg) (st : Stage) (i : CycIn) : Stage :=
  let tg := targeted c i
  let setupReset := i.newToken && i.isSetup
  match st with
  | .setup => if i.received && tg then stageAfterSetup i.su else .setup
  | .dataIn =>
      if tg && i.newToken && (i.isOut || i.isPing) then .statusOut
      else if setupReset then .setup else .dataIn
  | .dataOut =>
      if tg && i.newToken && i.isIn then .statusIn
      else if setupReset then .setup else .dataOut
  | .statusIn => if setupReset then .setup else .statusIn
  | .statusOut => if setupReset then .setup else .statusOut

/-! ### The composition -/

structure CycState where
  stage : Stage := .setup
  h     : StdState := {}
deriving Repr, DecidableEq

def init : CycState := {}

/-- Everything the co-simulation compares in one cycle. -/
structure CycOut where
  -- EndpointInterface outputs
  ack   : Bool
  nak   : Bool
  stall : Bool
  txValid : Bool
  txFirst : Bool
  txLast  : Bool
  txPayload : Nat
  txPidToggle : Nat
  addressChanged : Bool
  newAddress : Nat
  configChanged : Bool
  newConfig : Nat
  cehEnable : Bool
  cehDirection : Bool
  cehNumber : Nat
  -- internal wires
  ctl : CtrlComb          -- data_requested / status_requested / forwarded ack (shared interface)
  h   : HOut              -- the standard handler's own outputs (before the multiplexer)
deriving Repr, DecidableEq

def handlerIn (i : CycIn) (cc : CtrlComb) : HIn :=
  { su := i.su, received := i.received,
    dataRequested := cc.dataRequested, statusRequested := cc.statusRequested, hsAck := cc.hsAck,
    activeConfig := i.activeConfig,
    -- with a single handler the multiplexer's encoder output is 0 whether or not it claims, so `tx.ready`
    -- always reaches it (it only uses it inside `If(setup.type == STANDARD)`)
    txReady := i.txReady,
    dValid := i.dValid, dFirst := i.dFirst, dLast := i.dLast, dPayload := i.dPayload, dStall := i.dStall,
    tValid := i.tValid, tFirst := i.tFirst, tLast := i.tLast, tPayload := i.tPayload }

def step (c : Cfg) (s : CycState) (i : CycIn) : CycState × CycOut :=
  let cc := ctrlComb c s.stage i
  let hi := handlerIn i cc
  let r := stdStep c s.h hi
  let sel := muxOut r.2 hi
  ({ stage := ctrlNext c s.stage i, h := r.1 },
   { ack := i.sdAck || sel.ack || cc.pingAck
     nak := false
     stall := sel.stall
     txValid := sel.txValid, txFirst := sel.txFirst, txLast := sel.txLast, txPayload := sel.txPayload
     txPidToggle := if sel.txDataPid then 1 else 0
     addressChanged := sel.addressChanged, newAddress := sel.newAddress
     configChanged := sel.configChanged, newConfig := sel.newConfig
     cehEnable := sel.cehEnable, cehDirection := sel.cehDirection, cehNumber := sel.cehNumber
     ctl := cc, h := r.2 })

/-- States after each cycle with the outputs of the cycle. -/
def run (c : Cfg) : CycState → List CycIn → List (CycState × CycOut)
  | _, [] => []
  | s, i :: is => step c s i :: run c (step c s i).1 is

def final (c : Cfg) : CycState → List CycIn → CycState
  | s, [] => s
  | s, i :: is => final c (step c s i).1 is

end LunaVerif.CtrlCyc
