/-
Model of `luna.gateware.usb.usb2.transfer.USBInTransferManager` (C11), cycle level, as repaired by
/repo commits 778b997 (ACK taken only while `active & tokenizer.is_in`), aa3de3e (a `reset_sequence`
that coincides with `packet_ready` in WAIT_FOR_DATA wins over the toggle) and 427cb3f (read address 0
throughout WAIT_TO_SEND).

The gateware has two packet buffers (memories with a registered, non-transparent read port each), a
`buffer_toggle` selecting which one is being *written* (the other is being *read*/sent), and per
buffer a fill count and a "stream ended here" flag.  The model keeps the two buffers by ROLE — `w`
(write) and `r` (read) — and swaps them where the gateware flips `buffer_toggle`; the toggle bit
itself is kept only because it is an output.  Each buffer carries its own read-port data register
(`rdata`): the selected (read) port is addressed by `send_position` (or `+1` while a byte is being
taken, or 0 in WAIT_TO_SEND), the unselected port by its default 0; `packet_stream.payload` is the
data register of the *currently* selected port.  Addresses are truncated to `ceil_log2(mps)` bits and
an out-of-range read returns 0, as in Amaranth's simulator.

Order of the synchronous assignments is the source's program order (later wins): `reset_sequence`,
the `discard` / fill-count block, the `last` flag, then the FSM.
-/
namespace LunaVerif.InXfer

structure Config where
  mps : Nat       -- max_packet_size (>= 1)
deriving Repr

inductive Fsm | waitData | waitSend | sendPacket | waitAck
deriving Repr, DecidableEq

structure Buf where
  mem   : List Nat    -- `mps` bytes
  fill  : Nat         -- buffer_fill_count
  ended : Bool        -- stream_ended_in_buffer
  rdata : Nat         -- data register of this memory's read port
deriving Repr

structure State where
  fsm     : Fsm
  pid     : Bool      -- data_pid[0]   (bit 1 is only ever written with 0)
  toggle  : Bool      -- buffer_toggle
  w       : Buf       -- the buffer being filled     (index  buffer_toggle)
  r       : Buf       -- the buffer being sent       (index ~buffer_toggle)
  sendPos : Nat       -- send_position
  first   : Bool      -- packet_stream.first (registered)
deriving Repr

structure In where
  active     : Bool
  isIn       : Bool
  rfr        : Bool    -- tokenizer.ready_for_response
  newToken   : Bool
  ack        : Bool    -- handshakes_in.ack
  sValid     : Bool    -- transfer_stream.valid
  sPayload   : Nat
  sLast      : Bool
  flush      : Bool
  discard    : Bool
  genZlps    : Bool
  resetSeq   : Bool
  startData1 : Bool
  txReady    : Bool    -- packet_stream.ready
deriving Repr

structure Out where
  sReady  : Bool       -- transfer_stream.ready
  valid   : Bool
  first   : Bool
  last    : Bool
  payload : Nat
  pid     : Bool       -- data_pid
  nak     : Bool       -- handshakes_out.nak
  toggle  : Bool
deriving Repr

/-- `ceil_log2` (address width of a memory of depth `n`). -/
def clog2 (n : Nat) : Nat := if n ≤ 1 then 0 else Nat.log2 (n - 1) + 1
/-- `bits_for(n)` for `n >= 1` (width of `Signal(range(0, n + 1))`). -/
def bitsFor (n : Nat) : Nat := Nat.log2 n + 1

def emptyBuf (c : Config) : Buf := ⟨List.replicate c.mps 0, 0, false, 0⟩

def init (c : Config) : State := ⟨.waitData, true, false, emptyBuf c, emptyBuf c, 0, false⟩

/-- Registered memory read: address truncated to the port width, 0 outside the memory. -/
def readMem (c : Config) (mem : List Nat) (addr : Nat) : Nat :=
  mem.getD (addr % 2 ^ clog2 c.mps) 0

/-- `transfer_stream.ready` -/
def inReady (c : Config) (s : State) : Bool := s.w.fill != c.mps && !s.w.ended
/-- `buffer_write.en` -/
def wen (c : Config) (s : State) (i : In) : Bool := i.sValid && inReady c s
/-- `packet_ready` -/
def packetReady (c : Config) (s : State) (i : In) : Bool :=
  ((i.sValid && (i.sLast || s.w.fill + 1 == c.mps)) || (i.flush && s.w.fill != 0)) && !i.discard
/-- `in_token_received` -/
def inTok (i : In) : Bool := i.active && i.isIn && i.rfr
/-- the ACK test of WAIT_FOR_ACK (778b997) -/
def ackTaken (i : In) : Bool := i.ack && i.active && i.isIn

/-- The write buffer after this cycle's `discard` / fill / `last` / memory-write logic. -/
def wNext (c : Config) (s : State) (i : In) : Buf :=
  let en := wen c s i
  { mem   := if en then s.w.mem.set s.w.fill (i.sPayload % 256) else s.w.mem
    fill  := if i.discard then 0 else if en then s.w.fill + 1 else s.w.fill
    ended := if i.sLast && en then true else if i.discard then false else s.w.ended
    rdata := readMem c s.w.mem 0 }

/-- Read address of the selected port. -/
def rAddr (s : State) (i : In) : Nat :=
  match s.fsm with
  | .waitSend => 0
  | .sendPacket => if i.txReady then s.sendPos + 1 else s.sendPos
  | _ => s.sendPos

/-- The read buffer after the `discard` block and the memory read. -/
def rNext (c : Config) (s : State) (i : In) : Buf :=
  { mem   := s.r.mem
    fill  := if i.discard then 0 else s.r.fill
    ended := if i.discard then false else s.r.ended
    rdata := readMem c s.r.mem (rAddr s i) }

def step (c : Config) (s : State) (i : In) : State × Out :=
  let w1 := wNext c s i
  let r1 := rNext c s i
  let pid1 := if i.resetSeq then !i.startData1 else s.pid
  let base : State := { s with pid := pid1, w := w1, r := r1 }
  let o : Out := ⟨inReady c s, false, s.first, false, s.r.rdata, s.pid, false, s.toggle⟩
  match s.fsm with
  | .waitData =>
    let o := { o with nak := inTok i }
    if packetReady c s i then
      ({ base with fsm := .waitSend, toggle := !s.toggle,
                   pid := if i.resetSeq then i.startData1 else !s.pid,
                   w := { r1 with ended := false }, r := w1 }, o)
    else (base, o)
  | .waitSend =>
    let base := { base with sendPos := 0 }
    if i.discard then ({ base with pid := !s.pid, fsm := .waitData }, o)
    else if i.resetSeq then ({ base with pid := i.startData1 }, o)
    else if inTok i then
      if s.r.fill != 0 then ({ base with fsm := .sendPacket, first := true }, o)
      else ({ base with fsm := .waitAck, r := { r1 with ended := false } },
            { o with valid := true, last := true })
    else (base, o)
  | .sendPacket =>
    let lastP := s.sendPos + 1 == s.r.fill
    let o := { o with valid := true, last := lastP }
    if i.txReady then
      ({ base with sendPos := (s.sendPos + 1) % 2 ^ bitsFor c.mps, first := false,
                   fsm := if lastP then .waitAck else .sendPacket }, o)
    else (base, o)
  | .waitAck =>
    let s1 : State :=
      if i.discard then { base with fsm := .waitData }
      else if ackTaken i then
        let rC : Buf := { r1 with fill := 0 }
        if i.genZlps && s.r.fill == c.mps && s.r.ended then
          { base with r := rC, pid := !s.pid, fsm := .waitSend }
        else if !inReady c s || packetReady c s i then
          { base with fsm := .waitSend, toggle := !s.toggle, pid := !s.pid,
                      w := { rC with ended := false }, r := w1 }
        else { base with r := rC, fsm := .waitData }
      else base
    let s2 := if i.newToken && !i.discard then { s1 with fsm := .waitSend } else s1
    (s2, o)

def trace (c : Config) : State → List In → List (In × Out)
  | _, [] => []
  | s, i :: is => (i, (step c s i).2) :: trace c (step c s i).1 is

def runState (c : Config) : State → List In → State
  | s, [] => s
  | s, i :: is => runState c (step c s i).1 is

end LunaVerif.InXfer
