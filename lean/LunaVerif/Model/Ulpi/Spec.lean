import LunaVerif.Model.Ulpi.Translator
/-!
Specification-side definitions for the ULPI properties (core Lean only, because the model drivers
evaluate them on every stimulus so that the Python monitors and generators are checked against the
very definitions the theorems use).

`RxSpec` is the *PHY's own account* of a DIR/NXT/DATA history (ULPI 1.1 §3.8.1, §3.8.2.4):

* DIR low: nothing is received, RxActive is (implicitly) low;
* the cycle in which DIR rises is the turnaround cycle; NXT high in it announces a receive;
* afterwards a cycle with NXT high carries a packet data byte, a cycle with NXT low carries an
  RxCmd whose bit 4 is RxActive — unless the data lines carry register-read data (`regop`).

`legal` collects the clauses of `LegalUlpiPhy` (see `Props/C22.lean` for the wording).
-/
namespace LunaVerif.Ulpi

structure RxSpec where
  prevDir : Bool := false
  act     : Bool := false   -- the PHY's RxActive
  last    : Nat := 0        -- the most recent RxCmd
  just    : Bool := false   -- the previous cycle was the RxCmd that raised RxActive
  legal   : Bool := true
deriving DecidableEq, Repr, Inhabited

/-- One cycle of the PHY-side account; returns the data byte presented in this cycle, if any. -/
def RxSpec.step (s : RxSpec) (p : PhyIn) (regop : Bool) : RxSpec × Option Nat :=
  if !p.dir then
    ({ s with prevDir := false, act := false, just := false, legal := s.legal && !(s.prevDir && p.nxt) }, none)
  else if !s.prevDir then ({ s with prevDir := true, act := p.nxt, just := false }, none)
  else if p.nxt then
    if s.act && !s.just then ({ s with just := false }, some p.data)
    else ({ s with just := false, legal := false }, none)
  else if regop then ({ s with just := false }, none)
  else
    let new := rxActiveBit p.data
    let lastBit := rxActiveBit s.last
    if new && !s.act then
      ({ s with act := true, just := true, last := p.data, legal := s.legal && !lastBit }, none)
    else if new then ({ s with just := false, last := p.data }, none)
    else if s.act then
      ({ s with act := false, just := false, last := p.data, legal := s.legal && lastBit }, none)
    else ({ s with just := false, last := p.data }, none)

/-- Run the account over a history (oldest first); returns the final state and the data bytes. -/
def RxSpec.run : RxSpec → List (PhyIn × Bool) → RxSpec × List Nat
  | s, [] => (s, [])
  | s, (p, ro) :: h =>
    let (s1, o) := s.step p ro
    let (s2, bs) := RxSpec.run s1 h
    (s2, match o with | some b => b :: bs | none => bs)

/-- **Environment predicate of C22.** -/
def LegalUlpiPhy (h : List (PhyIn × Bool)) : Bool := (RxSpec.run {} h).1.legal

/-- State of the whole translator after an input history (oldest first). -/
def Utmi.run (cfg : Config) : Utmi → List UtmiIn → Utmi
  | s, [] => s
  | s, i :: is => Utmi.run cfg (s.step cfg i).1 is

end LunaVerif.Ulpi
