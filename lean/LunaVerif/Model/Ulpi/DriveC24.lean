import LunaVerif.Model.Ulpi.Drive
import LunaVerif.Lemmas.C24World
/-!
Driver of C24: the shared ULPI driver (`Drive.lean`) plus, for the `UTMITranslator` sub-model, the
environment monitor `Env` of `Lemmas/C24World.lean` and the hypothesis `safeCycle` of the C24 theorems
evaluated on the very stimulus of the co-simulation.  Three columns are appended to the outputs:

  env_safe    1 while every cycle so far satisfied `safeCycle`
  env_waited  `Env.waited` after the cycle (its maximum + … is the `K` the trace satisfies)
  env_tlen    `Env.tlen` after the cycle (its maximum is the `T` the trace satisfies)

so that the Python monitor's own evaluation of the hypotheses is compared with the definitions the
theorems use, and the explicit convergence bound is checked on the real gateware's traces.
-/
namespace LunaVerif.Ulpi
open LunaVerif.Proto

structure Drv24 where
  d    : DrvState
  e    : Env := {}
  safe : Bool := true

def drv24Init (cfg : List Nat) : Drv24 := { d := drvInit cfg }

/-- Same decoding of an input row as `drvStep`. -/
def utmiInOfRow (i : List Nat) : UtmiIn :=
  let phy : PhyIn := ⟨n2b (fld i 0), n2b (fld i 1), fld i 2⟩
  let ctrl : Controls :=
    { xcvrSelect := fld i 5, termSelect := n2b (fld i 6), opMode := fld i 7, suspend := n2b (fld i 8)
      idPullup := n2b (fld i 9), dmPulldown := n2b (fld i 10), dpPulldown := n2b (fld i 11)
      chrgVbus := n2b (fld i 12), dischrgVbus := n2b (fld i 13)
      useExternalVbusIndicator := n2b (fld i 14) }
  ⟨phy, fld i 3, n2b (fld i 4), ctrl⟩

def drv24Step (s : Drv24) (i : List Nat) : Drv24 × List Nat :=
  let (d', outs) := drvStep s.d i
  match s.d with
  | .utmi cfg u p _ =>
    let inp := utmiInOfRow i
    let ok := s.safe && safeCycle p.bus s.e inp (u.step cfg inp).2
    let x' := World.step cfg ⟨u, p, s.e⟩ inp
    ({ d := d', e := x'.e, safe := ok }, outs ++ [b2n ok, x'.e.waited, x'.e.tlen])
  | _ => ({ s with d := d' }, outs)

def drv24Main : IO Unit := runDriver drv24Init drv24Step

end LunaVerif.Ulpi
