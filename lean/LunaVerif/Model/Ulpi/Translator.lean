/-
Model of `luna/gateware/interface/ulpi.py` (C22, C23, C24), core Lean only.

Modelled: `ULPIRegisterWindow`, `ULPIControlTranslator` (two composite registers 0x04 / 0x0A, as
`populate_ulpi_registers` creates them), `ULPIRxEventDecoder`, `ULPITransmitTranslator` and the
glue of `UTMITranslator` (bus-idle cross gating, data/stp mux, rx_active / rx_valid logic, start-up
timer).  The model follows the code *after* the three `fix:` commits of branch `wt-ulpi`:

 * the register window sends `current_address` / `current_write` (its latches) instead of the live
   `address` / `write_data`, the control translator presents the live requested value as
   `write_data`, credits the shadow register whose address the window latched, with the value the
   window latched (F11);
 * `transmit_translator.bus_idle` additionally requires `~register_window.write_request`, and
   `control_translator.bus_idle` additionally requires `~transmit_translator.ulpi_out_req`
   (dead-lock of a write request that coincides with the start of a transmission);
 * the RxEvent decoder is masked by `register_window.read_data_phase` (READ_COMPLETE) instead of
   `register_window.busy` (RxCmds lost while a write waits for DIR).

Every `step` returns the state after the clock edge and the outputs visible in the same cycle as
the inputs (testbench order: set inputs, read outputs, tick).  Bytes are `Nat`s; every stored byte
is produced by a port of declared width, the drivers feed values below 256.
-/
namespace LunaVerif.Ulpi

/-! ## ULPIRegisterWindow -/

inductive WState
  | idle | startRead | sendReadAddress | readTurnaround | readComplete
  | startWrite | sendWriteAddress | holdWrite | stopping
deriving DecidableEq, Repr, Inhabited

structure Window where
  st       : WState := .idle
  curAddr  : Nat := 0      -- current_address
  curWrite : Nat := 0      -- current_write
  dataOut  : Nat := 0      -- ulpi_data_out
  outReq   : Bool := false -- ulpi_out_req
  stop     : Bool := false -- ulpi_stop
  done     : Bool := false
  readData : Nat := 0
deriving DecidableEq, Repr, Inhabited

structure WindowIn where
  dataIn    : Nat
  dir       : Bool
  nxt       : Bool
  address   : Nat
  writeData : Nat
  readReq   : Bool
  writeReq  : Bool
deriving Repr

def COMMAND_REG_WRITE : Nat := 0x80
def COMMAND_REG_READ  : Nat := 0xC0

/-- `busy = ~fsm.ongoing('IDLE')` (combinational). -/
def Window.busy (w : Window) : Bool := w.st != .idle
/-- `read_data_phase = fsm.ongoing('READ_COMPLETE')` (combinational). -/
def Window.readDataPhase (w : Window) : Bool := w.st == .readComplete

/-- One clock edge of the register window.  The three `m.d.usb` defaults (`ulpi_out_req`,
`ulpi_stop`, `done` := 0) come first; the state arm overrides them, later statements winning. -/
def Window.step (w : Window) (i : WindowIn) : Window :=
  let w0 := { w with outReq := false, stop := false, done := false }
  match w.st with
  | .idle =>
    let w1 := { w0 with dataOut := 0, curAddr := i.address, curWrite := i.writeData }
    let w2 := if i.readReq then { w1 with st := .startRead } else w1
    if i.writeReq then { w2 with st := .startWrite } else w2
  | .startRead =>
    if !i.dir then
      { w0 with st := .sendReadAddress, dataOut := COMMAND_REG_READ ||| w.curAddr, outReq := true }
    else w0
  | .sendReadAddress =>
    if i.dir then { w0 with st := .startRead, outReq := false }
    else if i.nxt then { w0 with st := .readTurnaround, outReq := false, dataOut := 0 }
    else { w0 with outReq := true }
  | .readTurnaround => { w0 with st := .readComplete }
  | .readComplete => { w0 with st := .idle, readData := i.dataIn, done := true }
  | .startWrite =>
    if !i.dir then
      { w0 with st := .sendWriteAddress, dataOut := COMMAND_REG_WRITE ||| w.curAddr, outReq := true }
    else w0
  | .sendWriteAddress =>
    if i.dir then { w0 with st := .startWrite, outReq := false }
    else if i.nxt then { w0 with st := .holdWrite, outReq := true, dataOut := w.curWrite }
    else { w0 with outReq := true }
  | .holdWrite =>
    if i.dir then { w0 with st := .startWrite, outReq := false }
    else if i.nxt then { w0 with st := .stopping, outReq := true, dataOut := 0, stop := true }
    else { w0 with outReq := true }
  | .stopping =>
    if i.dir then { w0 with st := .startWrite, outReq := false, stop := false }
    else { w0 with st := .idle, outReq := false, stop := false, done := true }

/-! ## ULPIControlTranslator -/

/-- The UTMI-side control inputs of the translator. -/
structure Controls where
  xcvrSelect : Nat := 0   -- 2 bits
  termSelect : Bool := false
  opMode     : Nat := 0   -- 2 bits
  suspend    : Bool := false
  idPullup   : Bool := false
  dmPulldown : Bool := false
  dpPulldown : Bool := false
  chrgVbus   : Bool := false
  dischrgVbus : Bool := false
  useExternalVbusIndicator : Bool := false
deriving DecidableEq, Repr, Inhabited

def bit (b : Bool) : Nat := if b then 1 else 0

/-- `Cat(xcvr_select, term_select, op_mode, 0, ~suspend, 0)` -/
def functionControl (c : Controls) : Nat :=
  c.xcvrSelect % 4 + 4 * bit c.termSelect + 8 * (c.opMode % 4) + 64 * bit (!c.suspend)

/-- `Cat(id_pullup, dp_pulldown, dm_pulldown, dischrg_vbus, chrg_vbus, 0, 0, use_external_vbus_indicator)` -/
def otgControl (c : Controls) : Nat :=
  bit c.idPullup + 2 * bit c.dpPulldown + 4 * bit c.dmPulldown + 8 * bit c.dischrgVbus
    + 16 * bit c.chrgVbus + 128 * bit c.useExternalVbusIndicator

def ADDR_FUNCTION_CONTROL : Nat := 0x04
def ADDR_OTG_CONTROL : Nat := 0x0A

structure Ctl where
  cur04 : Nat := 0x41     -- current_register_value_04, reset 0b01000001
  cur0A : Nat := 0x06     -- current_register_value_0a, reset 0b00000110
  busy  : Bool := false   -- registered
deriving DecidableEq, Repr, Inhabited

/-- Combinational outputs of the control translator towards the register window. -/
structure CtlOut where
  address   : Nat
  writeData : Nat
  writeReq  : Bool
deriving DecidableEq, Repr

/-- The `If(write_requested_04) / Elif(write_requested_0a) / Else` selection. -/
def Ctl.comb (k : Ctl) (v04 v0A : Nat) (busIdle : Bool) (winDone : Bool) : CtlOut :=
  if k.cur04 != v04 then
    ⟨ADDR_FUNCTION_CONTROL, v04, !winDone && busIdle⟩
  else if k.cur0A != v0A then
    ⟨ADDR_OTG_CONTROL, v0A, !winDone && busIdle⟩
  else ⟨0, 0, false⟩

/-- One clock edge of the control translator; `w` is the register window *before* the edge. -/
def Ctl.step (k : Ctl) (v04 v0A : Nat) (busIdle : Bool) (w : Window) : Ctl :=
  let o := k.comb v04 v0A busIdle w.done
  { cur04 := if w.done && w.curAddr == ADDR_FUNCTION_CONTROL then w.curWrite else k.cur04
    cur0A := if w.done && w.curAddr == ADDR_OTG_CONTROL then w.curWrite else k.cur0A
    busy  := o.writeReq || w.busy }

/-! ## ULPITransmitTranslator -/

inductive TState | idle | transmit
deriving DecidableEq, Repr, Inhabited

structure Tx where
  st     : TState := .idle
  outReq : Bool := false     -- ulpi_out_req (registered)
deriving DecidableEq, Repr, Inhabited

structure TxIn where
  txData  : Nat
  txValid : Bool
  opMode  : Nat
  busIdle : Bool
  nxt     : Bool
deriving Repr

structure TxOut where
  dataOut : Nat     -- ulpi_data_out
  txReady : Bool
  stp     : Bool
deriving DecidableEq, Repr

def TRANSMIT_COMMAND : Nat := 0x40
def OP_MODE_NO_BIT_STUFFING : Nat := 2

def Tx.busy (t : Tx) : Bool := t.st != .idle

def Tx.step (t : Tx) (i : TxIn) : Tx × TxOut :=
  let noStuff := i.opMode == OP_MODE_NO_BIT_STUFFING
  match t.st with
  | .idle =>
    if i.txValid && i.busIdle then
      let o : TxOut :=
        if noStuff then ⟨TRANSMIT_COMMAND, false, false⟩
        else ⟨TRANSMIT_COMMAND ||| (i.txData % 16), i.nxt, false⟩
      ({ st := if i.nxt then .transmit else .idle, outReq := true }, o)
    else (t, ⟨0, false, false⟩)
  | .transmit =>
    if !i.txValid then
      ({ st := .idle, outReq := false }, ⟨if noStuff then 0xFF else 0, i.nxt, true⟩)
    else (t, ⟨i.txData, i.nxt, false⟩)

/-! ## ULPIRxEventDecoder + the receive registers of UTMITranslator -/

structure Rx where
  pastDir  : Bool := false   -- direction_delayed == past_dir
  last     : Nat := 0        -- last_rx_command
  rxStart  : Bool := false
  rxStop   : Bool := false
  rxActive : Bool := false   -- UTMITranslator.rx_active
  rxData   : Nat := 0
  rxValid  : Bool := false
deriving DecidableEq, Repr, Inhabited

structure PhyIn where
  dir  : Bool
  nxt  : Bool
  data : Nat
deriving DecidableEq, Repr, Inhabited

/-- bit 4 of an RxCmd: RxActive -/
def rxActiveBit (cmd : Nat) : Bool := cmd / 16 % 2 == 1

def Rx.step (r : Rx) (p : PhyIn) (regop : Bool) : Rx :=
  let receiving := r.pastDir && p.dir
  let sample := receiving && !p.nxt && !regop
  let decActive := rxActiveBit r.last
  let dirBasedStart := !r.pastDir && p.dir && p.nxt
  { pastDir := p.dir
    last := if sample then p.data else r.last
    rxStart := sample && !decActive && rxActiveBit p.data
    rxStop := sample && decActive && !rxActiveBit p.data
    rxActive := if !p.dir || r.rxStop then false
                else if dirBasedStart || r.rxStart then true else r.rxActive
    rxData := p.data
    rxValid := p.nxt && r.rxActive }

/-! RxCmd fields (ULPI 1.1 table 3.8.1.2), as the decoder breaks `last_rx_command` up. -/
def lineState (cmd : Nat) : Nat := cmd % 4
def vbusValid (cmd : Nat) : Bool := cmd / 4 % 4 == 3
def sessionValid (cmd : Nat) : Bool := cmd / 4 % 4 == 2
def sessionEnd (cmd : Nat) : Bool := cmd / 4 % 4 == 0
def rxError (cmd : Nat) : Bool := cmd / 16 % 4 == 3
def hostDisconnect (cmd : Nat) : Bool := cmd / 16 % 4 == 2
def idDigital (cmd : Nat) : Bool := cmd / 64 % 2 == 1

/-! ## UTMITranslator -/

structure Config where
  hasRst    : Bool := false  -- the ULPI record has a `rst` member: wait _CYCLES_1_MILLISECONDS
  preload   : Nat := 0       -- value the harness forces into `startup_counter` at cycle 0
deriving Repr

def CYCLES_1_MILLISECONDS : Nat := 60000

structure Utmi where
  win      : Window := {}
  ctl      : Ctl := {}
  tx       : Tx := {}
  rx       : Rx := {}
  phyReady : Bool := false
  counter  : Nat := 0       -- startup_counter, 16 bits
deriving DecidableEq, Repr, Inhabited

structure UtmiIn where
  phy     : PhyIn
  txData  : Nat
  txValid : Bool
  ctrl    : Controls
deriving Repr

structure UtmiOut where
  dataO   : Nat
  oe      : Bool
  stp     : Bool
  txReady : Bool
  busy    : Bool
  rxData  : Nat
  rxValid : Bool
  rxActive : Bool
  lastRxCmd : Nat
deriving DecidableEq, Repr

def Utmi.init (c : Config) : Utmi := { counter := c.preload }

/-- `control_translator.bus_idle` -/
def Utmi.ctlBusIdle (s : Utmi) : Bool := !s.tx.busy && !s.tx.outReq && s.phyReady

/-- What the control translator presents to the register window in this cycle. -/
def Utmi.ctlOut (s : Utmi) (c : Controls) : CtlOut :=
  s.ctl.comb (functionControl c) (otgControl c) s.ctlBusIdle s.win.done

/-- `transmit_translator.bus_idle` -/
def Utmi.txBusIdle (s : Utmi) (c : Controls) (dir : Bool) : Bool :=
  !s.ctl.busy && !(s.ctlOut c).writeReq && !dir && s.phyReady

def Utmi.step (cfg : Config) (s : Utmi) (i : UtmiIn) : Utmi × UtmiOut :=
  let co := s.ctlOut i.ctrl
  let win' := s.win.step ⟨i.phy.data, i.phy.dir, i.phy.nxt, co.address, co.writeData, false, co.writeReq⟩
  let ctl' := s.ctl.step (functionControl i.ctrl) (otgControl i.ctrl) s.ctlBusIdle s.win
  let (tx', to) := s.tx.step ⟨i.txData, i.txValid, i.ctrl.opMode % 4, s.txBusIdle i.ctrl i.phy.dir, i.phy.nxt⟩
  let rx' := s.rx.step i.phy s.win.readDataPhase
  let out : UtmiOut :=
    { dataO := if s.tx.outReq then to.dataOut else s.win.dataOut
      oe := !i.phy.dir
      stp := if s.tx.outReq then to.stp else s.win.stop
      txReady := to.txReady
      busy := s.win.busy || s.tx.busy || s.ctl.busy || i.phy.dir
      rxData := s.rx.rxData
      rxValid := s.rx.rxValid
      rxActive := s.rx.rxActive
      lastRxCmd := s.rx.last }
  let s' : Utmi :=
    { win := win', ctl := ctl', tx := tx', rx := rx'
      phyReady := if cfg.hasRst then (s.phyReady || s.counter == CYCLES_1_MILLISECONDS) else true
      counter := if cfg.hasRst then (s.counter + 1) % 65536 else s.counter }
  (s', out)

/-! ## A passive PHY-side observer: which register writes did the PHY receive?

The PHY latches a register-write command `10aaaaaa` in the cycle it answers it with NXT (DIR low),
then takes the data byte in the next cycle in which it asserts NXT, and commits the write when
the link asserts STP in the cycle after that.  DIR going high anywhere aborts.  A transmit command
(`01xxxxxx` accepted with NXT) puts the PHY into "transmitting" until STP, so that packet bytes are
never taken for commands. -/

inductive PhyBus
  | idle
  | transmitting
  | wantData (addr : Nat)
  | wantStp (addr : Nat) (val : Nat)
deriving DecidableEq, Repr, Inhabited

structure PhyRegs where
  bus   : PhyBus := .idle
  r04   : Nat := 0x41
  r0A   : Nat := 0x06
  other : Nat := 0          -- number of writes to any other address (never expected)
  writes : Nat := 0         -- number of committed writes
deriving DecidableEq, Repr, Inhabited

def PhyRegs.commit (p : PhyRegs) (addr val : Nat) : PhyRegs :=
  if addr == ADDR_FUNCTION_CONTROL then { p with bus := .idle, r04 := val, writes := p.writes + 1 }
  else if addr == ADDR_OTG_CONTROL then { p with bus := .idle, r0A := val, writes := p.writes + 1 }
  else { p with bus := .idle, other := p.other + 1, writes := p.writes + 1 }

/-- Observes the ULPI pins of one cycle (`dataO`, `stp` from the link; `dir`, `nxt` from the PHY). -/
def PhyRegs.step (p : PhyRegs) (dir nxt : Bool) (dataO : Nat) (stp : Bool) : PhyRegs :=
  if dir then { p with bus := .idle } else
  match p.bus with
  | .idle =>
    if nxt && dataO / 64 == 2 then { p with bus := .wantData (dataO % 64) }
    else if nxt && dataO / 64 == 1 then { p with bus := .transmitting }
    else p
  | .transmitting => if stp then { p with bus := .idle } else p
  | .wantData a => if nxt then { p with bus := .wantStp a dataO } else p
  | .wantStp a v => if stp then p.commit a v else { p with bus := .idle }

end LunaVerif.Ulpi
