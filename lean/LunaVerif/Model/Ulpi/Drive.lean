import LunaVerif.Core.Proto
import LunaVerif.Model.Ulpi.Spec
/-!
Line-protocol driver shared by `Driver/C22.lean`, `Driver/C23.lean`, `Driver/C24.lean`.

Header `# k a b`: k selects the sub-model
  0  UTMITranslator (a = record has `rst`, b = start-up counter preload) + PHY bus observer + RxSpec
  1  ULPITransmitTranslator standalone
  2  ULPIRxEventDecoder standalone
  3  ULPIRegisterWindow standalone
-/
namespace LunaVerif.Ulpi
open LunaVerif.Proto

inductive DrvState
  | utmi (cfg : Config) (s : Utmi) (p : PhyRegs) (r : RxSpec)
  | tx (t : Tx)
  | dec (r : Rx)
  | win (w : Window)

def drvInit (cfg : List Nat) : DrvState :=
  match fld cfg 0 with
  | 1 => .tx {}
  | 2 => .dec {}
  | 3 => .win {}
  | _ => let c : Config := ⟨n2b (fld cfg 1), fld cfg 2⟩; .utmi c (Utmi.init c) {} {}

def busCode : PhyBus → Nat
  | .idle => 0 | .transmitting => 1 | .wantData _ => 2 | .wantStp _ _ => 3

def wcode : WState → Nat
  | .idle => 0 | .startRead => 1 | .sendReadAddress => 2 | .readTurnaround => 3 | .readComplete => 4
  | .startWrite => 5 | .sendWriteAddress => 6 | .holdWrite => 7 | .stopping => 8

def drvStep (d : DrvState) (i : List Nat) : DrvState × List Nat :=
  match d with
  | .utmi cfg s p r =>
    let phy : PhyIn := ⟨n2b (fld i 0), n2b (fld i 1), fld i 2⟩
    let ctrl : Controls :=
      { xcvrSelect := fld i 5, termSelect := n2b (fld i 6), opMode := fld i 7, suspend := n2b (fld i 8)
        idPullup := n2b (fld i 9), dmPulldown := n2b (fld i 10), dpPulldown := n2b (fld i 11)
        chrgVbus := n2b (fld i 12), dischrgVbus := n2b (fld i 13)
        useExternalVbusIndicator := n2b (fld i 14) }
    let (s', o) := s.step cfg ⟨phy, fld i 3, n2b (fld i 4), ctrl⟩
    let p' := p.step phy.dir phy.nxt o.dataO o.stp
    let (r', byte) := r.step phy false
    let c := o.lastRxCmd
    (.utmi cfg s' p' r',
      [o.dataO, b2n o.oe, b2n o.stp, b2n o.txReady, b2n o.busy, o.rxData, b2n o.rxValid, b2n o.rxActive, c,
       lineState c, b2n (vbusValid c), b2n (sessionValid c), b2n (sessionEnd c), b2n (rxError c),
       b2n (hostDisconnect c), b2n (idDigital c),
       busCode p'.bus, p'.r04, p'.r0A, p'.other, p'.writes,
       b2n r'.act, r'.last, b2n r'.legal, (match byte with | some b => b | none => 256)])
  | .tx t =>
    -- in: tx_data tx_valid op_mode bus_idle nxt ; out: ulpi_data_out tx_ready ulpi_stp ulpi_out_req busy
    let (t', o) := t.step ⟨fld i 0, n2b (fld i 1), fld i 2, n2b (fld i 3), n2b (fld i 4)⟩
    (.tx t', [o.dataOut, b2n o.txReady, b2n o.stp, b2n t.outReq, b2n t.busy])
  | .dec r =>
    -- in: dir nxt data regop ; out: last_rx_command rx_start rx_stop + decoded fields
    let r' := r.step ⟨n2b (fld i 0), n2b (fld i 1), fld i 2⟩ (n2b (fld i 3))
    let c := r.last
    (.dec r', [c, b2n r.rxStart, b2n r.rxStop, lineState c, b2n (vbusValid c), b2n (sessionValid c),
               b2n (sessionEnd c), b2n (rxActiveBit c), b2n (rxError c), b2n (hostDisconnect c), b2n (idDigital c)])
  | .win w =>
    -- in: data_in dir nxt address write_data read_request write_request
    -- out: ulpi_data_out ulpi_out_req ulpi_stop busy done read_data
    let w' := w.step ⟨fld i 0, n2b (fld i 1), n2b (fld i 2), fld i 3, fld i 4, n2b (fld i 5), n2b (fld i 6)⟩
    (.win w', [w.dataOut, b2n w.outReq, b2n w.stop, b2n w.busy, b2n w.done, w.readData])

def drvMain : IO Unit := runDriver drvInit drvStep

end LunaVerif.Ulpi
