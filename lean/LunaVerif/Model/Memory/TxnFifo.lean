/-
Model of `luna.gateware.memory.TransactionalizedFIFO` (C18; reused by C13 and C16).

The gateware keeps four pointers into a `depth + 1`-entry memory (`Signal(range(depth + 1))`, so every
pointer value is `≤ depth`), advances them with an explicit wrap (`== depth → 0`), and reads the
memory through a *synchronous, non-transparent* read port (Amaranth 0.5.9 `Memory.read_port()`:
`read_data` of cycle t+1 is the memory content *before* the write of cycle t, at the address presented
in cycle t; confirmed by co-simulation).  The model is generic in the entry type `α` (the FIFO never
looks at the data), memory is a function `Nat → α`.

The read address follows the repaired source (`fix: TransactionalizedFIFO: fetch from the committed
read pointer on read_discard`): in a cycle with `read_discard` the address is the committed read
pointer, which is where the current read pointer lands.  (The unrepaired source presents the old
current pointer, so `read_data` is stale for one cycle after a read discard.)

Later assignments win exactly as in Amaranth: `write_discard` overrides the increment of the current
write pointer, `read_discard` overrides the increment of the current read pointer; commit uses the
*pre-edge* current pointer.
-/
namespace LunaVerif.TxnFifo

structure State (α : Type) where
  cw    : Nat          -- committed_write_pointer
  ww    : Nat          -- current_write_pointer
  cr    : Nat          -- committed_read_pointer
  rr    : Nat          -- current_read_pointer
  mem   : Nat → α      -- backing store, depth + 1 entries
  rdata : α            -- data register of the memory read port

structure In (α : Type) where
  wdata    : α
  wen      : Bool
  wcommit  : Bool
  wdiscard : Bool
  ren      : Bool
  rcommit  : Bool
  rdiscard : Bool

structure Out (α : Type) where
  rdata : α
  empty : Bool
  full  : Bool
  space : Nat

/-- `next_write_pointer` / `next_read_pointer`: increment with manual wrap-around. -/
def nxt (depth p : Nat) : Nat := if p = depth then 0 else p + 1

def init (z : α) : State α := ⟨0, 0, 0, 0, fun _ => z, z⟩

/-- `full = (next_write_pointer == committed_read_pointer)` -/
def full (depth : Nat) (s : State α) : Bool := nxt depth s.ww == s.cr

/-- `empty = (current_read_pointer == committed_write_pointer)` -/
def empty (s : State α) : Bool := s.rr == s.cw

/-- the `space_available` If / Elif / Else chain -/
def space (depth : Nat) (s : State α) : Nat :=
  if full depth s then 0
  else if s.cr ≤ s.ww then depth - (s.ww - s.cr)
  else s.cr - s.ww - 1

def upd (mem : Nat → α) (a : Nat) (v : α) : Nat → α := fun x => if x = a then v else mem x

def outOf (depth : Nat) (s : State α) : Out α :=
  ⟨s.rdata, empty s, full depth s, space depth s⟩

/-- One clock cycle. Outputs are those visible in the same cycle as the inputs (all four are functions
of the registers only). -/
def step (depth : Nat) (s : State α) (i : In α) : State α × Out α :=
  let doW := i.wen && !full depth s          -- write_en & ~full
  let doR := i.ren && !empty s               -- read_en & ~empty
  -- memory read address (comb): If/Else on read_en & ~empty, then the read_discard override
  let raddr := if i.rdiscard then s.cr else if doR then nxt depth s.rr else s.rr
  let ww' := if i.wdiscard then s.cw else if doW then nxt depth s.ww else s.ww
  let cw' := if i.wcommit then s.ww else s.cw
  let rr' := if i.rdiscard then s.cr else if doR then nxt depth s.rr else s.rr
  let cr' := if i.rcommit then s.rr else s.cr
  let mem' := if doW then upd s.mem s.ww i.wdata else s.mem
  (⟨cw', ww', cr', rr', mem', s.mem raddr⟩, outOf depth s)

/-- Outputs for a whole input history. -/
def run (depth : Nat) : State α → List (In α) → List (Out α)
  | _, [] => []
  | s, i :: is => (step depth s i).2 :: run depth (step depth s i).1 is

end LunaVerif.TxnFifo
