import LunaVerif.Core.Crc
/-
Model of `luna.gateware.usb.usb3.link.data.DataPacketReceiver` (C40), *after* the repairs of
F15 (CHECK_CRC32 left after either verdict), F16 (CHECK_CRC32 waits for `sink.valid`), F17
(zero-length payload: the CRC word is checked, not consumed as payload) and F15b (a control symbol
in the last payload word is the verdict; no second one from CHECK_CRC32).

Words are naturals (`data` 32 bit little endian, `ctrl` 4 bit).  The two CRC units are modelled by
what they have absorbed since their last `clear` (header words / payload bytes); their outputs are
the reference CRCs of `Core/Crc.lean` over that (C30 proves the gateware's XOR networks equal to
the references; the co-simulation of this property exercises them on every packet).

Quirks kept as they are: `new_header` is never cleared; CHECK_HEADER rejects on a CRC mismatch
without waiting for a valid word; the 16-bit length field is truncated to the 11-bit counter;
the CRC word's own ctrl bits are not looked at; nothing checks the END framing.
Core Lean only.
-/
namespace LunaVerif.DataPacketReceiver

def HPSTART : Nat := 0xF7FBFBFB      -- SHP SHP SHP EPF
def DPPSTART : Nat := 0xF75C5C5C     -- SDP SDP SDP EPF
def TYPE_DATA : Nat := 0b01000

/-- Bytes of a 32-bit word, symbol 0 first. -/
def wordBytes (w : Nat) : List Nat := [w % 256, w / 256 % 256, w / 65536 % 256, w / 16777216 % 256]

inductive Fsm | waitHp | dw0 | dw1 | dw2 | dw3 | checkHeader | payload | checkCrc
deriving DecidableEq, Repr

structure Hdr where
  dw0 : Nat
  dw1 : Nat
  dw2 : Nat
  dw3 : Nat        -- crc16[0:16] seq[16:19] reserved[19:22] hub_depth[22:25] delayed[25] deferred[26] crc5[27:32]
deriving DecidableEq, Repr

structure State where
  fsm       : Fsm
  hdr       : Hdr          -- header in progress
  expCrc5   : Nat
  remaining : Nat          -- data_bytes_remaining, 11 bit
  prevWord  : Nat
  prevValid : Nat          -- 4 bit
  crc16In   : List Nat     -- words absorbed by the CRC-16 unit since clear
  crc32In   : List Nat     -- bytes absorbed by the CRC-32 unit since clear
  outHdr    : Hdr          -- self.header
  newHeader : Bool
  first     : Bool         -- source.first
deriving Repr

structure In where
  valid : Bool
  data  : Nat
  ctrl  : Nat
deriving Repr

structure Out where
  hdr       : Hdr
  newHeader : Bool
  srcValid  : Nat      -- source.valid, 4 bit
  srcData   : Nat
  first     : Bool
  last      : Bool
  good      : Bool
  bad       : Bool
deriving DecidableEq, Repr

def init : State := ⟨.waitHp, ⟨0, 0, 0, 0⟩, 0, 0, 0, 0, [], [], ⟨0, 0, 0, 0⟩, false, false⟩

def crc16Of (words : List Nat) : Nat := Crc.usb3Crc16 (words.flatMap wordBytes)
def crc32Of (bytes : List Nat) : Nat := Crc.usb3Crc32 bytes
def crc5Of (bits11 : Nat) : Nat := Crc.usb3Crc5 bits11

/-- `data_to_check` of CHECK_CRC32. -/
def dataToCheck (prevValid prevWord data : Nat) : Nat :=
  if prevValid == 0b1111 then data
  else if prevValid == 0b0111 then prevWord / 2 ^ 24 + 2 ^ 8 * (data % 2 ^ 24)
  else if prevValid == 0b0011 then prevWord / 2 ^ 16 + 2 ^ 16 * (data % 2 ^ 16)
  else if prevValid == 0b0001 then prevWord / 2 ^ 8 + 2 ^ 24 * (data % 2 ^ 8)
  else 0

def quiet (s : State) : Out := ⟨s.outHdr, s.newHeader, 0, 0, s.first, false, false, false⟩

def step (s : State) (i : In) : State × Out :=
  let data := i.data % 2 ^ 32
  let ctrl := i.ctrl % 16
  match s.fsm with
  | .waitHp =>
    let isHp := i.valid && data == HPSTART && ctrl == 0xF
    ({ s with fsm := if isHp then .dw0 else .waitHp, crc16In := [], crc32In := [] }, quiet s)
  | .dw0 =>
    if i.valid then
      ({ s with fsm := if data % 32 != TYPE_DATA then .waitHp else .dw1,
                hdr := { s.hdr with dw0 := data }, crc16In := s.crc16In ++ [data] }, quiet s)
    else (s, quiet s)
  | .dw1 =>
    if i.valid then
      ({ s with fsm := .dw2, hdr := { s.hdr with dw1 := data }, crc16In := s.crc16In ++ [data] }, quiet s)
    else (s, quiet s)
  | .dw2 =>
    if i.valid then
      ({ s with fsm := .dw3, hdr := { s.hdr with dw2 := data }, crc16In := s.crc16In ++ [data] }, quiet s)
    else (s, quiet s)
  | .dw3 =>
    if i.valid then
      ({ s with fsm := .checkHeader, hdr := { s.hdr with dw3 := data },
                expCrc5 := crc5Of (data / 2 ^ 16 % 2 ^ 11) }, quiet s)
    else (s, quiet s)
  | .checkHeader =>
    let crc5Failed := s.expCrc5 != s.hdr.dw3 / 2 ^ 27
    let crc16Failed := crc16Of s.crc16In != s.hdr.dw3 % 2 ^ 16
    if crc5Failed || crc16Failed then
      ({ s with fsm := .waitHp }, quiet s)
    else if i.valid && data == DPPSTART && ctrl == 0xF then
      let len := s.hdr.dw1 / 2 ^ 16 % 2 ^ 11
      if len == 0 then
        ({ s with fsm := .checkCrc, outHdr := s.hdr, newHeader := true, remaining := len, first := true,
                  prevValid := 0b1111 }, quiet s)
      else
        ({ s with fsm := .payload, outHdr := s.hdr, newHeader := true, remaining := len, first := true },
         quiet s)
    else if i.valid then
      ({ s with fsm := .waitHp }, quiet s)
    else (s, quiet s)
  | .payload =>
    let k := if i.valid then min s.remaining 4 else 0       -- number of payload bytes in this word
    let srcValid := 2 ^ k - 1
    let ctrlErr := i.valid && ctrl % 2 ^ k != 0             -- (sink.ctrl & source.valid) != 0
    let out : Out := ⟨s.outHdr, s.newHeader, srcValid, data, s.first, decide (s.remaining ≤ 4), false, ctrlErr⟩
    if i.valid then
      let fsm' := if s.remaining > 4 then (if ctrlErr then .waitHp else .payload)
                  else (if ctrlErr then .waitHp else .checkCrc)
      ({ s with fsm := fsm', first := false, prevWord := data, prevValid := srcValid,
                remaining := if s.remaining > 4 then s.remaining - 4 else s.remaining,
                crc32In := s.crc32In ++ (wordBytes data).take k }, out)
    else (s, out)
  | .checkCrc =>
    if i.valid then
      let ok := dataToCheck s.prevValid s.prevWord data == crc32Of s.crc32In
      ({ s with fsm := .waitHp }, { quiet s with good := ok, bad := !ok })
    else (s, quiet s)

def run : State → List In → List Out
  | _, [] => []
  | s, i :: is => (step s i).2 :: run (step s i).1 is

def final : State → List In → State
  | s, [] => s
  | s, i :: is => final (step s i).1 is

end LunaVerif.DataPacketReceiver
