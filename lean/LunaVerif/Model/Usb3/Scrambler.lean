/-
Model of `luna/gateware/usb/usb3/physical/scrambling.py` (C31): `ScramblerLFSR`, `Scrambler`,
`Descrambler` (the latter is the same class with another default `initial_value`).

The two XOR networks of `ScramblerLFSR` (`next_value`, `value`) are NOT re-typed: they are the
tables `Generated.AffineLfsr.lfsrNext / lfsrValue`, regenerated from /repo on every run by
`harness/translate/affine.py`.  Hand-written is what surrounds them, reading like `elaborate`:

    lfsr.clear   = clear | comma_present                 -- COM (K28.5) in symbol 0 of a valid word
    lfsr.advance = sink.valid & source.ready & ~hold
    with m.If(clear): current_value.eq(initial_value)  with m.Elif(advance): current_value.eq(next_value)
    source.ctrl = sink.ctrl ; source.valid = sink.valid ; sink.ready = source.ready
    for i in range(4):  source.data[i] = sink.data[i] ^ lfsr.value[i]  if enable & ~sink.ctrl[i]  else sink.data[i]

A word is a list of symbols (4 on the real bus), a symbol is its K flag and its 8 data bits (LSB
first); the LFSR register is a `List Bool`, index 0 = bit 0.  Core Lean only.
-/
import LunaVerif.Core.Crc
import LunaVerif.Core.XorAlg
import LunaVerif.Generated.AffineLfsr

namespace LunaVerif.Scrambler
open LunaVerif.Crc LunaVerif.XorAlg LunaVerif.Generated

abbrev Reg := List Bool

structure Symbol where
  k : Bool              -- control (K) symbol
  d : List Bool         -- 8 data bits, LSB first
deriving DecidableEq, Repr

/-! ### ScramblerLFSR -/

/-- `next_value` network -/
def lfsrNext (r : Reg) : Reg := net true r AffineLfsr.lfsrNext
/-- `value` network: 32 bits -/
def lfsrValue (r : Reg) : List Bool := net true r AffineLfsr.lfsrValue

def initReg (initialValue : Nat) : Reg := lsbBits initialValue 16

/-- register update of `ScramblerLFSR`: clear wins over advance -/
def lfsrStep (initialValue : Nat) (r : Reg) (clear advance : Bool) : Reg :=
  if clear then initReg initialValue else if advance then lfsrNext r else r

/-- `lfsr.value.word_select(i, 8)` for i = 0 … 3 -/
def keyBytes (r : Reg) : List (List Bool) :=
  let v := lfsrValue r
  [v.take 8, (v.drop 8).take 8, (v.drop 16).take 8, (v.drop 24).take 8]

/-! ### Scrambler / Descrambler -/

structure In where
  clear  : Bool
  enable : Bool
  hold   : Bool
  valid  : Bool             -- sink.valid
  syms   : List Symbol      -- sink.data / sink.ctrl, symbol 0 first
  ready  : Bool             -- source.ready

structure Out where
  valid     : Bool          -- source.valid
  syms      : List Symbol   -- source.data / source.ctrl
  sinkReady : Bool          -- sink.ready
  lfsrState : List Bool     -- debug output: lfsr.value

/-- bitwise xor of a symbol's data with a key byte (keeps the data's length) -/
def xorBits : List Bool → List Bool → List Bool
  | d :: ds, k :: ks => (d != k) :: xorBits ds ks
  | ds, [] => ds
  | [], _ => []

/-- one symbol: data symbols are XORed with their key byte when scrambling is enabled, control
symbols are never touched -/
def scrSymbol (enable : Bool) (s : Symbol) (key : List Bool) : Symbol :=
  if enable && !s.k then { s with d := xorBits s.d key } else s

/-- symbol i with key byte i -/
def scrWord (enable : Bool) : List Symbol → List (List Bool) → List Symbol
  | s :: ss, k :: ks => scrSymbol enable s k :: scrWord enable ss ks
  | ss, [] => ss
  | [], _ => []

/-- COM = K28.5 = 0xBC with the K flag -/
def isCom (s : Symbol) : Bool := s.k && s.d == lsbBits 0xBC 8

/-- `stream_word_matches_symbol(sink, 0, symbol=COM)` -/
def commaPresent (i : In) : Bool :=
  i.valid && (match i.syms with | s :: _ => isCom s | [] => false)

def lfsrClear (i : In) : Bool := i.clear || commaPresent i
def lfsrAdvance (i : In) : Bool := i.valid && i.ready && !i.hold

def step (initialValue : Nat) (r : Reg) (i : In) : Reg × Out :=
  (lfsrStep initialValue r (lfsrClear i) (lfsrAdvance i),
   { valid := i.valid, syms := scrWord i.enable i.syms (keyBytes r), sinkReady := i.ready,
     lfsrState := lfsrValue r })

/-! ### Scrambler feeding a Descrambler (`descrambler.sink.stream_eq(scrambler.source)`), both driven
with the same `clear` / `enable` / `hold`; `ready` is the descrambler's `source.ready`, which the
pass-through `sink.ready = source.ready` hands back to the scrambler. -/
def pairStep (initS initD : Nat) (rs : Reg × Reg) (i : In) : (Reg × Reg) × Out × Out :=
  let (rS, oS) := step initS rs.1 i
  let iD : In := { i with valid := oS.valid, syms := oS.syms }
  let (rD, oD) := step initD rs.2 iD
  ((rS, rD), oS, oD)

end LunaVerif.Scrambler
