import LunaVerif.Model.Usb3.SsWord
/-
Model of `luna.gateware.usb.usb3.physical.ctc.CTCSkipInserter` (C33).

Registers (domain `ss`):
  skips_to_send        Signal(range(5))   = 3 bits   -> `skips`   (updates reduced mod 8)
  data_bytes_elapsed   Signal(range(354)) = 9 bits   -> `elapsed` (updates reduced mod 512)
  source.valid/data/ctrl/first/last                  -> `src`     (the output stream is REGISTERED)
  sink.ready                                         -> `sinkReady`  (`source.stream_eq(sink)` sits in
        `m.d.ss`, so it also registers `sink.ready <= source.ready`)

Per cycle (inputs set, outputs read, then the clock edge):
  xfer         = sink.valid & sink.ready                      (sink.ready is the register)
  skip_needed  = xfer & (data_bytes_elapsed + 4 >= 354)       (comb)
  sending_skip = can_send_skip & (skips_to_send >= 2)         (comb, output)
  skips_to_send <= +1 / -2 / -1 for needed&~sending / ~needed&sending / needed&sending
  data_bytes_elapsed <= +4, minus 354 when the limit is reached, on xfer
  if sending_skip:  source.valid/data/ctrl <= 1 / SKP SKP SKP SKP / 1111   (first/last/sink.ready keep)
  else:             source <= sink (valid, data, ctrl, first, last), sink.ready <= source.ready
Note that the word on the sink is loaded into the source register in every non-sending cycle whether or
not it was "transferred"; there is no back-pressure logic beyond the registered ready.
-/
namespace LunaVerif.CtcInserter
open LunaVerif.Ss

/-- One beat of a `USBRawSuperSpeedStream` (without `ready`). -/
structure Beat where
  valid : Bool
  syms  : List Sym
  first : Bool
  last  : Bool
deriving DecidableEq, Repr

structure State where
  skips     : Nat
  elapsed   : Nat
  src       : Beat
  sinkReady : Bool
deriving Repr

structure In where
  sink     : Beat
  srcReady : Bool      -- source.ready
  canSend  : Bool      -- can_send_skip
deriving Repr

structure Out where
  src         : Beat
  sinkReady   : Bool
  sendingSkip : Bool
deriving Repr

def SKIP_BYTE_LIMIT : Nat := 354

def SKP4 : List Sym := [SKP, SKP, SKP, SKP]

def init : State := ⟨0, 0, ⟨false, List.replicate 4 Sym.zero, false, false⟩, false⟩

def xfer (s : State) (i : In) : Bool := i.sink.valid && s.sinkReady
def skipNeeded (s : State) (i : In) : Bool := xfer s i && decide (s.elapsed + 4 ≥ SKIP_BYTE_LIMIT)
def sending (s : State) (i : In) : Bool := i.canSend && decide (2 ≤ s.skips)

def next (s : State) (i : In) : State :=
  let needed := skipNeeded s i
  let send   := sending s i
  { skips :=
      if needed && !send then (s.skips + 1) % 8
      else if !needed && send then (s.skips + 8 - 2) % 8
      else if needed && send then (s.skips + 8 - 1) % 8
      else s.skips
    elapsed :=
      if xfer s i then
        (if s.elapsed + 4 ≥ SKIP_BYTE_LIMIT then (s.elapsed + 4 - SKIP_BYTE_LIMIT) % 512
         else (s.elapsed + 4) % 512)
      else s.elapsed
    src := if send then ⟨true, SKP4, s.src.first, s.src.last⟩ else i.sink
    sinkReady := if send then s.sinkReady else i.srcReady }

def outOf (s : State) (i : In) : Out := ⟨s.src, s.sinkReady, sending s i⟩

def step (s : State) (i : In) : State × Out := (next s i, outOf s i)

/-- The states after each input. -/
def states : State → List In → List State
  | _, [] => []
  | s, i :: is => next s i :: states (next s i) is

def final : State → List In → State
  | s, [] => s
  | s, i :: is => final (next s i) is

/-- `sending_skip` cycle by cycle. -/
def sendFlags : State → List In → List Bool
  | _, [] => []
  | s, i :: is => sending s i :: sendFlags (next s i) is

/-- Number of cycles in which a word is taken from the sink (`sink.valid & sink.ready`). -/
def transfers : State → List In → Nat
  | _, [] => 0
  | s, i :: is => (if xfer s i then 1 else 0) + transfers (next s i) is

/-! The multiplexer in front of `physical_layer.sink` in link/layer.py (lines 296-309):

    with m.If(arbiter.idle):   sink.valid = 1, sink.data = IDL.value (0), sink.ctrl = IDL.ctrl (0), can_send_skp = 1
    with m.Else():             sink.stream_eq(arbiter.source)          (can_send_skp keeps its default 0)

and physical/layer.py passes `can_send_skp` straight to `tx_ctc.can_send_skip`; the scrambler between them is
combinational and maps the all-zero data word to a data word (ctrl 0).  `first`/`last` are not driven in the
idle branch (default 0). -/
def IDLE4 : List Sym := List.replicate 4 Sym.zero

def linkIdleMux (arbiterIdle : Bool) (arbiterSource : Beat) : Beat × Bool :=
  if arbiterIdle then (⟨true, IDLE4, false, false⟩, true) else (arbiterSource, false)

end LunaVerif.CtcInserter
