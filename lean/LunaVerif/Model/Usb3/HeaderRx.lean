import LunaVerif.Core.Crc
/-
Model of `luna.gateware.usb.usb3.link.receiver` (C37, C38):

* `RawRx`    – `RawHeaderPacketReceiver`: HPSTART detection, four header words, CHECK_PACKET
               (CRC-5 over the link control word, CRC-16 over DW0..DW2, sequence number).
* `HeaderRx` – `HeaderPacketReceiver`: four header buffers with read/write pointers,
               `acks_to_send`, `credits_to_issue`, `buffers_filled`, `ignore_packets`, the pending
               flags, the dispatch FSM and the `LinkCommandGenerator` it drives (modelled at the level
               of its ports: IDLE / TRANSMIT_HEADER / TRANSMIT_COMMAND with latched command+subtype).

Every register next-value is written as one expression in which a *later* Amaranth `m.d.ss +=`
assignment takes priority over an earlier one, exactly as in the source (the FSM and the
reset-on-disable block come last in `elaborate`, so they win over the counters' own updates).

`Config.fix = false` is the code as found in the repository (the reset-on-disable block lives inside
the DISPATCH_COMMAND state).  `Config.fix = true` is the repaired code (C38 / F14): the block is
evaluated in every state, returns the dispatch FSM to DISPATCH_COMMAND (also suppressing a dispatch in
the cycle of a USB reset) and re-arms the sequence advertisement with `expected_sequence_number - 1`
(the last *received* header) instead of `next_header_to_ack - 1` (the last *acknowledged* one; the two
differ when LGOODs were still owed when the link went down) and does not count a header whose buffer
write coincides with the reset cycle (it is dropped with the other buffered headers).  Under the environment of C37 (link
stays enabled, no USB reset) the two are the same machine.

`Config.abort = true` is the second C38 repair: the `LinkCommandGenerator` sits in a
`ResetInserter({"ss": link_reset})`, so a link command still in flight when the link goes down (or a USB
reset arrives) is dropped: the generator's FSM and latches take their reset values at that clock edge (its
outputs in the cycle of `link_reset` itself are unchanged).  `abort = false` is the generator without
abort, which completes the stale command whenever `source.ready` allows — also after re-entry.

The running CRC-16 register of `HeaderPacketCRC` is cleared in every WAIT_FOR_HPSTART cycle and
advanced exactly when DW0, DW1, DW2 are latched, so in CHECK_PACKET its output is the CRC-16 of the
three latched words; the model computes that value from the latched words with the reference
definition `Crc.usb3Crc16` (C30 proves the gateware's XOR network equal to it; the co-simulation
re-checks the port behaviour on every run).  Core Lean only.
-/
namespace LunaVerif.HeaderRx

/-- A header packet: three protocol words and the link control word (DW3):
crc16 = dw3[0:16], sequence_number = dw3[16:19], dw3_reserved = dw3[19:22], hub_depth = dw3[22:25],
delayed = dw3[25], deferred = dw3[26], crc5 = dw3[27:32]. -/
structure Hdr where
  dw0 : Nat
  dw1 : Nat
  dw2 : Nat
  dw3 : Nat
deriving DecidableEq, Repr, Inhabited

def Hdr.zero : Hdr := ⟨0, 0, 0, 0⟩
def Hdr.seq (h : Hdr) : Nat := h.dw3 / 65536 % 8
def Hdr.crc16 (h : Hdr) : Nat := h.dw3 % 65536
def Hdr.crc5 (h : Hdr) : Nat := h.dw3 / 134217728 % 32
/-- The 11 bits protected by the CRC-5 (`sink.data[16:27]`). -/
def Hdr.lcw (h : Hdr) : Nat := h.dw3 / 65536 % 2048

def wordBytes (w : Nat) : List Nat := [w % 256, w / 256 % 256, w / 65536 % 256, w / 16777216 % 256]

/-- CRC-16 of DW0..DW2 in the representation of `HeaderPacketCRC.crc`. -/
def hdrCrc16 (h : Hdr) : Nat := Crc.usb3Crc16 (wordBytes h.dw0 ++ wordBytes h.dw1 ++ wordBytes h.dw2)

def Hdr.crc5Ok (h : Hdr) : Bool := Crc.usb3Crc5 h.lcw == h.crc5
def Hdr.crc16Ok (h : Hdr) : Bool := hdrCrc16 h == h.crc16
def Hdr.crcOk (h : Hdr) : Bool := h.crc5Ok && h.crc16Ok

/-- Data/ctrl of the framing words (`get_word_for_symbols`): SHP SHP SHP EPF and SLC SLC SLC EPF. -/
def hpStart : Nat := 0xF7FBFBFB
def lcStart : Nat := 0xF7FEFEFE

/-! ## RawHeaderPacketReceiver -/
namespace RawRx

inductive St | wait | dw0 | dw1 | dw2 | dw3 | check
deriving DecidableEq, Repr, Inhabited

structure State where
  st     : St
  pkt    : Hdr      -- packet in progress
  newPkt : Bool     -- `new_packet` (registered strobe)
  outPkt : Hdr      -- `packet` (registered output)
deriving DecidableEq, Repr, Inhabited

def init : State := ⟨.wait, .zero, false, .zero⟩

structure In where
  valid : Bool
  data  : Nat
  ctrl  : Nat
deriving Repr

def isHpStart (i : In) : Bool := i.valid && i.data == hpStart && i.ctrl == 15

/-- `bad_packet` (combinational): CHECK_PACKET with a CRC mismatch. -/
def badPacket (s : State) : Bool := s.st == .check && !s.pkt.crcOk
/-- `bad_sequence` (combinational). -/
def badSequence (s : State) (expected : Nat) : Bool :=
  s.st == .check && s.pkt.crcOk && s.pkt.seq != expected
/-- the header in CHECK_PACKET is accepted -/
def good (s : State) (expected : Nat) : Bool :=
  s.st == .check && s.pkt.crcOk && s.pkt.seq == expected

def step (s : State) (i : In) (expected : Nat) : State :=
  match s.st with
  | .wait  => { s with st := if isHpStart i then .dw0 else .wait, newPkt := false }
  | .dw0   => if i.valid then { s with st := .dw1, pkt := { s.pkt with dw0 := i.data }, newPkt := false }
              else { s with newPkt := false }
  | .dw1   => if i.valid then { s with st := .dw2, pkt := { s.pkt with dw1 := i.data }, newPkt := false }
              else { s with newPkt := false }
  | .dw2   => if i.valid then { s with st := .dw3, pkt := { s.pkt with dw2 := i.data }, newPkt := false }
              else { s with newPkt := false }
  | .dw3   => if i.valid then { s with st := .check, pkt := { s.pkt with dw3 := i.data }, newPkt := false }
              else { s with newPkt := false }
  | .check => if good s expected then { s with st := .wait, newPkt := true, outPkt := s.pkt }
              else { s with st := .wait, newPkt := false }

end RawRx

/-! ## HeaderPacketReceiver -/

structure Config where
  fix        : Bool            -- repaired reset-on-disable handling (C38)
  downstream : Bool := false   -- `downstream_facing`: keepalive is LDN instead of LUP
  abort      : Bool := false   -- the link command generator is reset by `link_reset` (second C38 repair)
deriving Repr

inductive Fsm | dispatch | sendAcks | issueCredits | sendLbad | sendLrty | sendKeepalive | sendLxu
deriving DecidableEq, Repr, Inhabited

inductive Gen | idle | header | command
deriving DecidableEq, Repr, Inhabited

/-- The four header buffers (`buffers = Array(HeaderPacket() …)`), indexed by a 2-bit pointer. -/
structure Bufs where
  b0 : Hdr
  b1 : Hdr
  b2 : Hdr
  b3 : Hdr
deriving DecidableEq, Repr, Inhabited

def Bufs.get (b : Bufs) (k : Nat) : Hdr :=
  if k % 4 = 0 then b.b0 else if k % 4 = 1 then b.b1 else if k % 4 = 2 then b.b2 else b.b3

def Bufs.set (b : Bufs) (k : Nat) (h : Hdr) : Bufs :=
  if k % 4 = 0 then { b with b0 := h } else if k % 4 = 1 then { b with b1 := h }
  else if k % 4 = 2 then { b with b2 := h } else { b with b3 := h }

structure State where
  rx         : RawRx.State
  expSeq     : Nat      -- expected_sequence_number (3 bit)
  nextCredit : Nat      -- next_credit_to_issue (2 bit)
  nextAck    : Nat      -- next_header_to_ack (3 bit, init 7)
  acks       : Nat      -- acks_to_send (3 bit, init 1)
  cti        : Nat      -- credits_to_issue (3 bit, init 4)
  bf         : Nat      -- buffers_filled (3 bit)
  rp         : Nat      -- read_pointer (2 bit)
  wp         : Nat      -- write_pointer (2 bit)
  bufs       : Bufs
  lbad       : Bool     -- lbad_pending
  lrty       : Bool     -- lrty_pending
  keepalive  : Bool     -- keepalive_pending
  lxu        : Bool     -- lxu_pending
  lastEnable : Bool
  ignore     : Bool     -- ignore_packets
  fsm        : Fsm
  gen        : Gen      -- LinkCommandGenerator FSM
  gCmd       : Nat      -- latched_command
  gSub       : Nat      -- latched_subtype
deriving DecidableEq, Repr, Inhabited

def init : State :=
  { rx := RawRx.init, expSeq := 0, nextCredit := 0, nextAck := 7, acks := 1, cti := 4, bf := 0,
    rp := 0, wp := 0, bufs := ⟨.zero, .zero, .zero, .zero⟩, lbad := false, lrty := false,
    keepalive := false, lxu := false, lastEnable := false, ignore := false, fsm := .dispatch,
    gen := .idle, gCmd := 0, gSub := 0 }

structure In where
  sink              : RawRx.In
  srcReady          : Bool
  enable            : Bool
  usbReset          : Bool
  qReady            : Bool
  retryReceived     : Bool
  retryRequired     : Bool
  keepaliveRequired : Bool
  rejectPower       : Bool
deriving Repr

structure Out where
  srcValid  : Bool
  srcData   : Nat
  srcCtrl   : Nat
  qValid    : Bool
  qHdr      : Hdr
  lrtyPending       : Bool
  recoveryRequired  : Bool
  linkCommandSent   : Bool
  packetReceived    : Bool
  badPacketReceived : Bool
deriving Repr

/-- Link command numbers (`usb_protocol.types.superspeed.LinkCommand`). -/
def LGOOD : Nat := 0
def LCRD  : Nat := 1
def LRTY  : Nat := 2
def LBAD  : Nat := 3
def LXU   : Nat := 6
def LUP   : Nat := 8
def LDN   : Nat := 11

/-- The 32-bit link command word the generator drives in TRANSMIT_COMMAND. -/
def lcWord (cmd sub : Nat) : Nat :=
  let core := sub % 16 + (cmd % 16) * 128
  let w := core + Crc.usb3Crc5 core * 2048
  w + w * 65536

/-! ### combinational events -/

/-- a received header is written into a buffer (`rx.new_packet & ~ignore_packets`) -/
def accept (s : State) : Bool := s.rx.newPkt && !s.ignore
/-- a corrupted header is noticed (`rx.bad_packet & ~ignore_packets`) -/
def badEv (s : State) : Bool := RawRx.badPacket s.rx && !s.ignore
def qValid (s : State) : Bool := s.bf != 0
/-- the protocol layer consumes the oldest header -/
def pop (s : State) (i : In) : Bool := qValid s && i.qReady
/-- `lc_generator.done` -/
def done (s : State) (i : In) : Bool := s.gen == .command && i.srcReady
def generate (s : State) : Bool := s.fsm != .dispatch
def lgoodDone (s : State) (i : In) : Bool := s.fsm == .sendAcks && done s i
def lcrdDone (s : State) (i : In) : Bool := s.fsm == .issueCredits && done s i

/-- `lc_generator.command` / `.subtype` as driven by the dispatch FSM. -/
def genCmd (c : Config) (s : State) : Nat :=
  match s.fsm with
  | .dispatch => 0 | .sendAcks => LGOOD | .issueCredits => LCRD | .sendLbad => LBAD
  | .sendLrty => LRTY | .sendKeepalive => if c.downstream then LDN else LUP | .sendLxu => LXU
def genSub (s : State) : Nat :=
  match s.fsm with
  | .sendAcks => s.nextAck | .issueCredits => s.nextCredit | _ => 0

/-- `(last_enable & ~enable) | usb_reset` -/
def resetCond (s : State) (i : In) : Bool := (s.lastEnable && !i.enable) || i.usbReset
/-- the reset-on-disable block is executed this cycle -/
def resetNow (c : Config) (s : State) (i : In) : Bool :=
  resetCond s i && (c.fix || s.fsm == .dispatch)

/-- 3-bit up/down counter with separate enqueue/dequeue strobes. -/
def updown (x : Nat) (enq deq : Bool) : Nat :=
  if enq && !deq then (x + 1) % 8 else if deq && !enq then (x + 7) % 8 else x

/-- next state of the dispatch FSM when it is in DISPATCH_COMMAND and dispatching is allowed -/
def dispatchNext (s : State) : Fsm :=
  if s.lrty then .sendLrty
  else if s.acks != 0 then .sendAcks
  else if s.cti != 0 then .issueCredits
  else if s.lbad then .sendLbad
  else if s.lxu then .sendLxu
  else if s.keepalive then .sendKeepalive
  else .dispatch

def fsmNext (c : Config) (s : State) (i : In) : Fsm :=
  if c.fix && resetCond s i then .dispatch
  else match s.fsm with
  | .dispatch      => if i.enable then dispatchNext s else .dispatch
  | .sendAcks      => if done s i && s.acks == 1 then .dispatch else .sendAcks
  | .issueCredits  => if done s i && s.cti == 1 then .dispatch else .issueCredits
  | .sendLbad      => if done s i then .dispatch else .sendLbad
  | .sendLrty      => if done s i then .dispatch else .sendLrty
  | .sendKeepalive => if done s i then .dispatch else .sendKeepalive
  | .sendLxu       => if done s i then .dispatch else .sendLxu

def genNext (s : State) (i : In) : Gen :=
  match s.gen with
  | .idle    => if generate s then .header else .idle
  | .header  => if i.srcReady then .command else .header
  | .command => if i.srcReady then .idle else .command

def step (c : Config) (s : State) (i : In) : State × Out :=
  let rst := resetNow c s i
  let latch := s.gen == .idle && generate s
  let s' : State :=
    { rx := RawRx.step s.rx i.sink s.expSeq
      expSeq := if rst && i.usbReset then 0 else if rst && c.fix then s.expSeq
                else if accept s then (s.expSeq + 1) % 8 else s.expSeq
      nextCredit := if rst then 0 else if lcrdDone s i then (s.nextCredit + 1) % 4 else s.nextCredit
      nextAck := if rst then (if i.usbReset then 7 else if c.fix then (s.expSeq + 7) % 8 else (s.nextAck + 7) % 8)
                 else if lgoodDone s i then (s.nextAck + 1) % 8 else s.nextAck
      acks := if rst then 1 else updown s.acks (accept s) (lgoodDone s i)
      cti := if rst then 4 else updown s.cti (pop s i) (lcrdDone s i)
      bf := if rst then 0 else updown s.bf (accept s) (pop s i)
      rp := if rst then 0 else if pop s i then (s.rp + 1) % 4 else s.rp
      wp := if rst then 0 else if accept s then (s.wp + 1) % 4 else s.wp
      bufs := if accept s then s.bufs.set s.wp s.rx.outPkt else s.bufs
      lbad := if rst then false else if s.fsm == .sendLbad && done s i then false
              else if badEv s then true else s.lbad
      lrty := if rst then false else if s.fsm == .sendLrty && done s i then false
              else if i.retryRequired then true else s.lrty
      keepalive := if rst then false else if s.fsm == .sendKeepalive && done s i then false
              else if i.keepaliveRequired then true else s.keepalive
      lxu := if s.fsm == .sendLxu && done s i then false else if i.rejectPower then true else s.lxu
      lastEnable := i.enable
      ignore := if rst then false else if i.retryReceived then false else if badEv s then true else s.ignore
      fsm := fsmNext c s i
      gen := if c.abort && resetCond s i then .idle else genNext s i
      gCmd := if c.abort && resetCond s i then 0 else if latch then genCmd c s else s.gCmd
      gSub := if c.abort && resetCond s i then 0 else if latch then genSub s % 16 else s.gSub }
  let o : Out :=
    { srcValid := s.gen != .idle
      srcData := match s.gen with | .idle => 0 | .header => lcStart | .command => lcWord s.gCmd s.gSub
      srcCtrl := if s.gen == .header then 15 else 0
      qValid := qValid s
      qHdr := s.bufs.get s.rp
      lrtyPending := s.lrty
      recoveryRequired := RawRx.badSequence s.rx s.expSeq && !s.ignore
      linkCommandSent := done s i
      packetReceived := s.rx.newPkt
      badPacketReceived := RawRx.badPacket s.rx }
  (s', o)

end LunaVerif.HeaderRx
