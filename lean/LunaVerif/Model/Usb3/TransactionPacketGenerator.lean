/-
Model of `luna.gateware.usb.usb3.protocol.transaction.TransactionPacketGenerator` (C45), *after*
the repair of F20 (`send_erdy` dispatches to SEND_ERDY; the unrepaired code goes to SEND_NRDY and
SEND_ERDY is unreachable).  `Config.erdyToNrdy = true` reproduces the unrepaired dispatch.

The generator latches (endpoint_number, retry_required, next_sequence, address) in every cycle it
spends in DISPATCH_REQUESTS — including the cycle of the request — and then drives
`header_source.valid` with the composed header until `header_source.ready`.

Header words are modelled as naturals (dw0, dw1, dw2, dw3 = link-layer fields, always 0 here).
Core Lean only.
-/
namespace LunaVerif.TransactionPacketGenerator

inductive Fsm | dispatch | sendAck | sendNrdy | sendErdy | sendStall
deriving DecidableEq, Repr

structure Config where
  erdyToNrdy : Bool      -- true = the defect F20
deriving Repr

def repaired : Config := ⟨false⟩
def unrepaired : Config := ⟨true⟩

structure State where
  fsm  : Fsm
  ep   : Nat     -- endpoint_number latch, 7 bit
  err  : Bool    -- data_error latch (retry_required)
  seq  : Nat     -- next_sequence latch, 5 bit
  addr : Nat     -- device_address latch, 7 bit
deriving DecidableEq, Repr

structure In where
  ep        : Nat
  retry     : Bool
  seq       : Nat
  sendAck   : Bool
  sendStall : Bool
  sendNrdy  : Bool
  sendErdy  : Bool
  address   : Nat
  hsReady   : Bool     -- header_source.ready
deriving Repr

structure Header where
  dw0 : Nat
  dw1 : Nat
  dw2 : Nat
  dw3 : Nat
deriving DecidableEq, Repr

structure Out where
  ifReady : Bool      -- interface.ready
  done    : Bool      -- interface.done
  valid   : Bool      -- header_source.valid
  header  : Header    -- header_source.header (all zero when nothing is driven)
deriving DecidableEq, Repr

def init : State := ⟨.dispatch, 0, false, 0, 0⟩

def b2n (b : Bool) : Nat := if b then 1 else 0

/-- `HeaderPacketType.TRANSACTION` -/
def TYPE_TRANSACTION : Nat := 0b00100
/-- `TransactionPacketSubtype` -/
def SUB_ACK : Nat := 1
def SUB_NRDY : Nat := 2
def SUB_ERDY : Nat := 3
def SUB_STALL : Nat := 5

/-- dw0 of a `TransactionHeaderPacket`: type[0:5], route_string[5:25] = 0, device_address[25:32]. -/
def dw0Of (addr : Nat) : Nat := TYPE_TRANSACTION + 2 ^ 25 * (addr % 128)

/-- The header driven in each SEND_x state (`send_packet(...)`).  `endpoint_number` is a 4-bit
field: the 7-bit latch is truncated by the assignment. -/
def headerOf (f : Fsm) (s : State) : Header :=
  let ep4 := s.ep % 16
  match f with
  | .dispatch => ⟨0, 0, 0, 0⟩
  | .sendAck =>      -- ACKHeaderPacket: subtype[0:4] retry[6] direction[7]=OUT ep[8:12] nump[16:21]=1 seq[21:26]
    ⟨dw0Of s.addr, SUB_ACK + 2 ^ 6 * b2n s.err + 2 ^ 8 * ep4 + 2 ^ 16 * 1 + 2 ^ 21 * (s.seq % 32), 0, 0⟩
  | .sendNrdy =>     -- NRDYHeaderPacket: subtype, direction[7]=IN, ep[8:12]
    ⟨dw0Of s.addr, SUB_NRDY + 2 ^ 7 * 1 + 2 ^ 8 * ep4, 0, 0⟩
  | .sendErdy =>     -- ERDYHeaderPacket: subtype, direction[7]=IN, ep[8:12], number_of_packets[16:21]=1
    ⟨dw0Of s.addr, SUB_ERDY + 2 ^ 7 * 1 + 2 ^ 8 * ep4 + 2 ^ 16 * 1, 0, 0⟩
  | .sendStall =>    -- ACKHeaderPacket with subtype STALL, direction OUT, number_of_packets = 1
    ⟨dw0Of s.addr, SUB_STALL + 2 ^ 8 * ep4 + 2 ^ 16 * 1, 0, 0⟩

/-- The `m.next` chosen in DISPATCH_REQUESTS: four independent `If`s, the last one wins. -/
def dispatchNext (c : Config) (i : In) : Fsm :=
  if i.sendErdy then (if c.erdyToNrdy then .sendNrdy else .sendErdy)
  else if i.sendNrdy then .sendNrdy
  else if i.sendStall then .sendStall
  else if i.sendAck then .sendAck
  else .dispatch

def step (c : Config) (s : State) (i : In) : State × Out :=
  match s.fsm with
  | .dispatch =>
    -- constantly latch the parameters
    (⟨dispatchNext c i, i.ep % 128, i.retry, i.seq % 32, i.address % 128⟩,
     ⟨true, false, false, ⟨0, 0, 0, 0⟩⟩)
  | f =>
    ({ s with fsm := if i.hsReady then .dispatch else f },
     ⟨false, i.hsReady, true, headerOf f s⟩)

def run (c : Config) : State → List In → List (In × Out)
  | _, [] => []
  | s, i :: is => (i, (step c s i).2) :: run c (step c s i).1 is

def final (c : Config) : State → List In → State
  | s, [] => s
  | s, i :: is => final c (step c s i).1 is

end LunaVerif.TransactionPacketGenerator
