import LunaVerif.Model.Usb3.SSStreamIn
import LunaVerif.Model.Usb3.TransactionPacketGenerator
/-
Closed loop (C46): `SuperSpeedStreamInEndpoint` wired to the `TransactionPacketGenerator` the way
`USB3ProtocolLayer` / `USBSuperSpeedDevice` do it:

  tp_generator.interface.connect(endpoint_interface.handshakes_out)          (protocol/layer.py)
  ... through SuperSpeedEndpointMultiplexer (protocol/endpoint.py) when `viaMux`:
      with m.If(send_ack | send_stall | send_nrdy | send_erdy):
          shared.handshakes_out.connect(interface.handshakes_out)

The endpoint drives send_nrdy / send_erdy / endpoint_number (retry_required, next_sequence, send_ack,
send_stall stay 0), the generator drives ready / done back and hands headers to the header queue
(`qReady` = header_source.ready).  Through the multiplexer the endpoint's requests and endpoint number
reach the generator, and ready/done reach the endpoint, only in cycles in which it asserts a request.
Core Lean only.
-/
namespace LunaVerif.SSInLoop
open LunaVerif

structure Config where
  ep     : SSStreamIn.Config
  viaMux : Bool
deriving Repr

structure In where
  ep      : SSStreamIn.In     -- `ep.done` is not used: the generator drives done
  qReady  : Bool              -- header_source.ready
  address : Nat               -- tp_generator.address
deriving Repr

structure State where
  ep  : SSStreamIn.HsState
  gen : TransactionPacketGenerator.State
deriving Repr, DecidableEq

def init (c : Config) : State := ⟨SSStreamIn.initHs c.ep, TransactionPacketGenerator.init⟩

structure Out where
  ep  : SSStreamIn.HsOut
  gen : TransactionPacketGenerator.Out
deriving Repr

/-- the endpoint's outputs; they do not depend on ready/done (`SSStreamIn.out` reads neither) -/
def epOut (c : Config) (s : State) (i : In) : SSStreamIn.HsOut :=
  SSStreamIn.outHs c.ep s.ep ⟨i.ep, false⟩

/-- the endpoint asserts a request: the multiplexer connects it to the generator -/
def selected (c : Config) (s : State) (i : In) : Bool :=
  !c.viaMux || (epOut c s i).base.sendNrdy || (epOut c s i).base.sendErdy

def genIn (c : Config) (s : State) (i : In) : TransactionPacketGenerator.In :=
  let eo := epOut c s i
  let sel := selected c s i
  { ep := if sel then eo.hsEp else 0, retry := false, seq := 0, sendAck := false, sendStall := false,
    sendNrdy := sel && eo.base.sendNrdy, sendErdy := sel && eo.base.sendErdy,
    address := i.address, hsReady := i.qReady }

def genOut (c : Config) (s : State) (i : In) : TransactionPacketGenerator.Out :=
  (TransactionPacketGenerator.step TransactionPacketGenerator.repaired s.gen (genIn c s i)).2

/-- what the endpoint sees on handshakes_out.ready / done -/
def epIn (c : Config) (s : State) (i : In) : SSStreamIn.HsIn :=
  let go := genOut c s i
  let sel := selected c s i
  ⟨{ i.ep with done := sel && go.done }, sel && go.ifReady⟩

def next (c : Config) (s : State) (i : In) : State :=
  ⟨SSStreamIn.nextHs c.ep s.ep (epIn c s i),
   (TransactionPacketGenerator.step TransactionPacketGenerator.repaired s.gen (genIn c s i)).1⟩

def out (c : Config) (s : State) (i : In) : Out := ⟨epOut c s i, genOut c s i⟩

def step (c : Config) (s : State) (i : In) : State × Out := (next c s i, out c s i)

end LunaVerif.SSInLoop
