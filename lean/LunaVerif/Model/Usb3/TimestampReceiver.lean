/-
Model of `luna.gateware.usb.usb3.protocol.timestamp.TimestampPacketReceiver` (C47), *after* the
repair of F21 (`bus_interval_counter = Signal(14)`, `delta = Signal(13)`; the unrepaired code
declares both `Signal()`, i.e. one bit, and truncates the fields).

    new_packet = header_sink.valid
    is_for_us  = header_sink.get_type() == HeaderPacketType.ISOCHRONOUS_TIMESTAMP   -- dw0[0:5] == 0b01100
    with m.If(new_packet & is_for_us):
        m.d.comb += header_sink.ready.eq(1)
        m.d.ss   += [update_received.eq(1), bus_interval_counter.eq(dw0[5:19]), delta.eq(dw0[19:32])]
    with m.Else():
        m.d.ss   += update_received.eq(0)

The widths of the two output registers are `Config` fields so that the statement "the fields are
not truncated" is a theorem about the widths (14, 13) and visibly false for (1, 1).
Core Lean only.
-/
namespace LunaVerif.TimestampReceiver

/-- `HeaderPacketType.ISOCHRONOUS_TIMESTAMP` -/
def ITP_TYPE : Nat := 0b01100

structure Config where
  wCounter : Nat     -- len(bus_interval_counter)
  wDelta   : Nat     -- len(delta)
deriving Repr

/-- The repaired gateware. -/
def repaired : Config := ⟨14, 13⟩
/-- The gateware before the repair (F21). -/
def unrepaired : Config := ⟨1, 1⟩

structure State where
  updateReceived : Bool
  counter        : Nat
  delta          : Nat
deriving Repr, DecidableEq

structure In where
  valid : Bool
  dw0   : Nat      -- header_sink.header.dw0, 32 bit
deriving Repr

structure Out where
  ready          : Bool     -- header_sink.ready (combinational)
  updateReceived : Bool
  counter        : Nat
  delta          : Nat
deriving Repr, DecidableEq

def init : State := ⟨false, 0, 0⟩

/-- `dw0[0:5] == ISOCHRONOUS_TIMESTAMP` -/
def isForUs (dw0 : Nat) : Bool := dw0 % 32 == ITP_TYPE

/-- Amaranth slice `v[lo:hi]` of a 32-bit value. -/
def slice (v lo hi : Nat) : Nat := (v / 2 ^ lo) % 2 ^ (hi - lo)

def step (c : Config) (s : State) (i : In) : State × Out :=
  let take := i.valid && isForUs (i.dw0 % 2 ^ 32)
  let s' : State :=
    if take then
      -- assignment to a narrower register truncates
      ⟨true, slice (i.dw0 % 2 ^ 32) 5 19 % 2 ^ c.wCounter, slice (i.dw0 % 2 ^ 32) 19 32 % 2 ^ c.wDelta⟩
    else
      { s with updateReceived := false }
  (s', ⟨take, s.updateReceived, s.counter, s.delta⟩)

/-- State after a whole input history (oldest first). -/
def runState (c : Config) : State → List In → State
  | s, [] => s
  | s, i :: is => runState c (step c s i).1 is

end LunaVerif.TimestampReceiver
