import LunaVerif.Core.Crc
/-
Models of `luna.gateware.usb.usb3.link.command.LinkCommandGenerator` and `LinkCommandDetector`
(C35).  32-bit stream words are naturals (`data`, little endian: symbol 0 = bits 7:0) with a 4-bit
`ctrl` natural.  `compute_usb_crc5` is taken to be the reference `Crc.usb3Crc5` (C30 proves the
XOR network equal to it; the co-simulation of this property exercises it on every command word).
Core Lean only.
-/
namespace LunaVerif.LinkCommand

/-- `get_word_for_symbols(SLC, SLC, SLC, EPF)`: SLC = K30.7 = 0xFE, EPF = K23.7 = 0xF7. -/
def LCSTART_DATA : Nat := 0xF7FEFEFE
def LCSTART_CTRL : Nat := 0b1111

def crc5 (bits11 : Nat) : Nat := Crc.usb3Crc5 bits11

/-! ## Generator -/
namespace Gen

inductive Fsm | idle | txHeader | txCommand
deriving DecidableEq, Repr

structure State where
  fsm  : Fsm
  lcmd : Nat     -- latched_command, 4 bit
  lsub : Nat     -- latched_subtype, 4 bit
deriving DecidableEq, Repr

structure In where
  command  : Nat
  subtype  : Nat
  generate : Bool
  ready    : Bool     -- source.ready
deriving Repr

structure Out where
  valid : Bool
  data  : Nat
  ctrl  : Nat
  done  : Bool
deriving DecidableEq, Repr

def init : State := ⟨.idle, 0, 0⟩

/-- The 16-bit `link_command` signal of TRANSMIT_COMMAND. -/
def linkCommand16 (cmd sub : Nat) : Nat :=
  let low11 := sub % 16 + 2 ^ 7 * (cmd % 16)          -- [0:4] subtype, [4:7] reserved = 0, [7:11] command
  low11 + 2 ^ 11 * crc5 low11

def step (s : State) (i : In) : State × Out :=
  match s.fsm with
  | .idle =>
    (if i.generate then ⟨.txHeader, i.command % 16, i.subtype % 16⟩ else s,
     ⟨false, 0, 0, false⟩)
  | .txHeader =>
    ({ s with fsm := if i.ready then .txCommand else .txHeader },
     ⟨true, LCSTART_DATA, LCSTART_CTRL, false⟩)
  | .txCommand =>
    let w := linkCommand16 s.lcmd s.lsub
    ({ s with fsm := if i.ready then .idle else .txCommand },
     ⟨true, w + 2 ^ 16 * w, 0, i.ready⟩)

def run : State → List In → List (In × Out)
  | _, [] => []
  | s, i :: is => (i, (step s i).2) :: run (step s i).1 is

def final : State → List In → State
  | s, [] => s
  | s, i :: is => final (step s i).1 is

end Gen

/-! ## Detector -/
namespace Det

inductive Fsm | waitLcstart | parse
deriving DecidableEq, Repr

structure State where
  fsm        : Fsm
  command    : Nat
  subtype    : Nat
  newCommand : Bool
deriving DecidableEq, Repr

structure In where
  valid : Bool
  data  : Nat
  ctrl  : Nat
deriving Repr

structure Out where
  command      : Nat
  commandClass : Nat
  commandType  : Nat
  subtype      : Nat
  newCommand   : Bool
deriving DecidableEq, Repr

def init : State := ⟨.waitLcstart, 0, 0, false⟩

/-- The three acceptance conditions of PARSE_COMMAND on a (data, ctrl) word. -/
def accepts (data ctrl : Nat) : Bool :=
  let word := data % 2 ^ 16              -- word_select(0, 16)
  let replica := (data / 2 ^ 16) % 2 ^ 16
  ctrl % 16 == 0 && word == replica && (word / 2 ^ 11 == crc5 (word % 2 ^ 11))

def step (s : State) (i : In) : State × Out :=
  let out : Out := ⟨s.command, (s.command / 4) % 4, s.command % 4, s.subtype, s.newCommand⟩
  match s.fsm with
  | .waitLcstart =>
    let isLcstart := i.valid && i.data % 2 ^ 32 == LCSTART_DATA && i.ctrl % 16 == LCSTART_CTRL
    ({ s with fsm := if isLcstart then .parse else .waitLcstart, newCommand := false }, out)
  | .parse =>
    if i.valid then
      let word := i.data % 2 ^ 16
      if accepts (i.data % 2 ^ 32) i.ctrl then
        (⟨.waitLcstart, (word / 2 ^ 7) % 16, word % 16, true⟩, out)
      else
        ({ s with fsm := .waitLcstart, newCommand := false }, out)
    else
      ({ s with newCommand := false }, out)

def run : State → List In → List (In × Out)
  | _, [] => []
  | s, i :: is => (i, (step s i).2) :: run (step s i).1 is

def final : State → List In → State
  | s, [] => s
  | s, i :: is => final (step s i).1 is

end Det

/-! ## Generator feeding a detector: a word is seen by the detector in the cycle it is transferred
(`source.valid ∧ source.ready`); every other cycle is an invalid word for the detector. -/
namespace Chain

abbrev State := Gen.State × Det.State

def init : State := (Gen.init, Det.init)

def step (s : State) (i : Gen.In) : State × (Gen.Out × Det.Out) :=
  let (g', o) := Gen.step s.1 i
  let (d', od) := Det.step s.2 ⟨o.valid && i.ready, o.data, o.ctrl⟩
  ((g', d'), (o, od))

def run : State → List Gen.In → List (Gen.In × Gen.Out × Det.Out)
  | _, [] => []
  | s, i :: is => (i, (step s i).2) :: run (step s i).1 is

def final : State → List Gen.In → State
  | s, [] => s
  | s, i :: is => final (step s i).1 is

end Chain

end LunaVerif.LinkCommand
