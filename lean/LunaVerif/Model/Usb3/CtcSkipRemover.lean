import LunaVerif.Model.Usb3.SsWord
/-
Model of `luna.gateware.usb.usb3.physical.ctc.CTCSkipRemover` (C32).

Registers (domain `ss`):
  data_buffer (64 bit) / ctrl_buffer (8 bit)   -> `buf : List Sym`, 8 symbols, index 0 = bits [7:0]
  bytes_in_buffer  Signal(range(0, 9)) = 4 bit -> `bib : Nat` (every update reduced mod 16)

New symbols are shifted in at the TOP of the buffer (`Cat(buffer[8*i:], valid_data[0:8*i])`), so the
symbols the module still holds are the top `bib` ones, oldest lowest.

Per cycle (inputs set, outputs read, then the clock edge):
  skp_locations[i] = sink.valid & (byte i == 0x3C) & ctrl[i]
  the `Switch(skp_locations)` with its 16 generated cases gathers the non-SKP positions in order
  (`compact`); the all-SKP case assigns nothing, so valid_data/valid_ctrl/valid_byte_count stay 0
  sink.ready   = bytes_in_buffer <= 8
  source.valid = bytes_in_buffer >= 4
  source.data/ctrl = buffer[8-bib .. 8-bib+4] for bib in 4..7, 0 otherwise (no Case)
  skip_removed = sink.valid & sink.ready & (skp_locations != 0)
  bytes_in_buffer (port) is `Signal(range(5))` = 3 bits: the internal counter truncated.
-/
namespace LunaVerif.CtcRemover
open LunaVerif.Ss

structure State where
  buf : List Sym
  bib : Nat
deriving Repr

structure In where
  valid : Bool          -- sink.valid
  word  : List Sym      -- sink.data / sink.ctrl, 4 symbols
  ready : Bool          -- source.ready
deriving Repr

structure Out where
  srcValid      : Bool
  srcWord       : List Sym
  skipRemoved   : Bool
  bytesInBuffer : Nat
  sinkReady     : Bool
deriving Repr

def init : State := ⟨List.replicate 8 Sym.zero, 0⟩

/-- The body of one generated `Case(skip_mask)`: the symbols whose mask bit is clear, in position
order (`data_fragments` / `ctrl_fragments`). -/
def compact : List Bool → List Sym → List Sym
  | m :: ms, x :: xs => if m then compact ms xs else x :: compact ms xs
  | _, _ => []

def step (s : State) (i : In) : State × Out :=
  let mask      := i.word.map (fun x => i.valid && isSkp x)            -- skp_locations
  let frags     := compact mask i.word
  -- Cat(*fragments) zero-extended to the 32/4-bit valid_data/valid_ctrl signals
  let validData := frags ++ List.replicate (4 - frags.length) Sym.zero
  let vbc       := frags.length                                        -- valid_byte_count
  let sinkReady := decide (s.bib ≤ 8)
  let srcValid  := decide (4 ≤ s.bib)
  let srcWord   := if 4 ≤ s.bib ∧ s.bib < 8 then (s.buf.drop (8 - s.bib)).take 4
                   else List.replicate 4 Sym.zero
  let xferIn    := i.valid && sinkReady
  let xferOut   := srcValid && i.ready
  let bib'      := if xferIn then
                     (if xferOut then (s.bib + vbc - 4) % 16 else (s.bib + vbc) % 16)
                   else if xferOut then (s.bib - 4) % 16 else s.bib
  let buf'      := if xferIn then s.buf.drop vbc ++ validData.take vbc else s.buf
  (⟨buf', bib'⟩,
   ⟨srcValid, srcWord, xferIn && mask.any id, s.bib % 8, sinkReady⟩)

/-- Outputs for a whole input history and the state reached. -/
def run : State → List In → List Out × State
  | s, [] => ([], s)
  | s, i :: is =>
    let r := run (step s i).1 is
    ((step s i).2 :: r.1, r.2)

end LunaVerif.CtcRemover
