/-
Model of `luna.gateware.usb.usb3.link.idle.IdleHandshakeHandler` (C44), AS REPAIRED by the
`fix:` commit for defect F19 (the unrepaired code ignored `sink.valid` and its previous-word
record read as idle out of reset).

  last_word / last_ctrl : registers, updated with the stream's data/ctrl on VALID words only;
                          reset values 0 / 0b1111 (so "no word yet" is not logical idle)
  idle_detected         = (last_word == 0 & last_ctrl == 0) & valid & (data == 0) & (ctrl == 0)
  enable_counter        : counts enabled cycles, saturating at RX_CYCLES_REQUIRED = 4; 0 when disabled
  seen_idle             : set by enable & idle_detected, cleared when disabled
  idle_handshake_complete = enable & seen_idle & (enable_counter == 4)

Sampling: outputs are the combinational values visible in the same cycle as the inputs, computed
from the register state before the clock edge.
-/
namespace LunaVerif.IdleHandshake

/-- `RX_CYCLES_REQUIRED`: 16 symbols at 4 symbols per cycle. -/
def cyclesRequired : Nat := 4

structure In where
  enable : Bool
  valid  : Bool
  data   : Nat      -- 32 bit
  ctrl   : Nat      -- 4 bit
deriving Repr

structure State where
  lastWord : Nat
  lastCtrl : Nat
  seen     : Bool
  cnt      : Nat
deriving Repr

structure Out where
  idleDetected : Bool
  complete     : Bool
deriving Repr, DecidableEq

def init : State := ⟨0, 15, false, 0⟩

/-- a word is logical idle: all four symbols are data symbols of value 0 -/
def wordIdle (data ctrl : Nat) : Bool := data == 0 && ctrl == 0

def step (s : State) (i : In) : State × Out :=
  let lastIdle := wordIdle s.lastWord s.lastCtrl
  let curIdle  := i.valid && wordIdle i.data i.ctrl
  let det      := lastIdle && curIdle
  let complete := i.enable && (s.seen && s.cnt == cyclesRequired)
  let (lw, lc) := if i.valid then (i.data, i.ctrl) else (s.lastWord, s.lastCtrl)
  let s' : State :=
    if i.enable then
      ⟨lw, lc, s.seen || det, if s.cnt < cyclesRequired then s.cnt + 1 else s.cnt⟩
    else
      ⟨lw, lc, false, 0⟩
  (s', ⟨det, complete⟩)

def run : State → List In → List Out
  | _, [] => []
  | s, x :: xs => (step s x).2 :: run (step s x).1 xs

end LunaVerif.IdleHandshake
