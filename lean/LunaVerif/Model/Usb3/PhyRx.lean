/-
Model of the RECEIVE HALF of `USB3PhysicalLayer` (luna/gateware/usb/usb3/physical/layer.py, C31):
the four receive stages, composed exactly as `elaborate` wires them (none of them is re-typed here;
`CtcRemover.step` (C32), `RxAligner.step` (C34) and `Scrambler.step` (C31) are called as they are)

    rx_ctc = CTCSkipRemover()
    rx_ctc.sink.data = phy.rx_data ; rx_ctc.sink.ctrl = phy.rx_datak ; rx_ctc.sink.valid = 1
    skip_removed = rx_ctc.skip_removed ; ctc_bytes_in_buffer = rx_ctc.bytes_in_buffer

    aligner = RxWordAligner()
    aligner.sink = rx_ctc.source          (valid, data, ctrl; rx_ctc.source.ready = aligner.sink.ready = 1)
    raw_source   = tap(aligner.source)    ; alignment_offset = aligner.alignment_offset

    descrambler = Descrambler()           (default initial_value; `clear` and `hold` are not connected -> 0)
    descrambler.enable = enable_scrambling
    descrambler.sink   = aligner.source   (the aligner's REGISTERED output; ready flows back but the
                                           aligner does not read it)

    realigner = RxPacketAligner()
    realigner.sink = descrambler.source   (descrambler.source.ready = realigner.sink.ready = 1)
    self.source    = realigner.source     (registered; self.source.ready is handed to realigner.source.ready,
                                           which nothing reads: the receive path has no back-pressure)

The only coupling between the stages is feed-forward: valid/data/ctrl.  The SKP symbols the remover deletes
leave cycles with `rx_ctc.source.valid = 0`; the aligner passes `valid` on (one cycle later), and the
descrambler's LFSR advances on `sink.valid & source.ready & ~hold` = `aligner.source.valid` only.

The remover / aligner models carry symbols as `Ss.Sym` (byte as Nat), the scrambler model as bit lists;
`ofSs` / `PhyTx.toSs` convert.  Core Lean only.
-/
import LunaVerif.Model.Usb3.Scrambler
import LunaVerif.Model.Usb3.CtcSkipRemover
import LunaVerif.Model.Usb3.RxAligner
import LunaVerif.Model.Usb3.PhyTx

namespace LunaVerif.PhyRx
open LunaVerif.Crc LunaVerif.Scrambler LunaVerif.Ss LunaVerif.Generated

structure State where
  ctc : CtcRemover.State         -- rx_ctc: 8-symbol buffer, bytes_in_buffer
  wal : RxAligner.State          -- aligner (RxWordAligner): previous word, shift, registered output
  reg : Reg                      -- descrambler LFSR
  pal : RxAligner.State          -- realigner (RxPacketAligner)

structure In where
  rx     : List Sym              -- phy.rx_data / phy.rx_datak, symbol 0 first
  enable : Bool                  -- enable_scrambling

structure Out where
  srcValid    : Bool             -- source.valid
  srcWord     : List Sym         -- source.data / source.ctrl
  rawValid    : Bool             -- raw_source.valid
  rawWord     : List Sym         -- raw_source.data / raw_source.ctrl
  skipRemoved : Bool             -- skip_removed
  ctcBytes    : Nat              -- ctc_bytes_in_buffer
  offset      : Nat              -- alignment_offset

def ofSs (s : Sym) : Symbol := ⟨s.ctrl, lsbBits s.data 8⟩

/-- `Descrambler()`: the class default, read out of /repo by the translator -/
def descrInit : Nat := AffineLfsr.descramblerDefaultInit

def init : State := ⟨CtcRemover.init, RxAligner.init, initReg descrInit, RxAligner.init⟩

/-- the remover's ports: PHY pins, `sink.valid = 1`, `source.ready = aligner.sink.ready = 1` -/
def ctcIn (i : In) : CtcRemover.In := ⟨true, i.rx, true⟩

/-- the word aligner's sink: the remover's (combinational) output beat -/
def walIn (o : CtcRemover.Out) : RxAligner.In := ⟨o.srcValid, o.srcWord⟩

/-- the descrambler's ports: the word aligner's registered output; `clear`/`hold` unconnected,
`source.ready = realigner.sink.ready = 1` -/
def descrIn (o : RxAligner.Out) (enable : Bool) : Scrambler.In :=
  { clear := false, enable := enable, hold := false, valid := o.srcValid,
    syms := o.srcWord.map ofSs, ready := true }

/-- the packet aligner's sink: the descrambler's (combinational) output beat -/
def palIn (o : Scrambler.Out) : RxAligner.In := ⟨o.valid, o.syms.map PhyTx.toSs⟩

def step (s : State) (i : In) : State × Out :=
  let c := CtcRemover.step s.ctc (ctcIn i)
  let w := RxAligner.step .word s.wal (walIn c.2)
  let d := Scrambler.step descrInit s.reg (descrIn w.2 i.enable)
  let p := RxAligner.step .packet s.pal (palIn d.2)
  (⟨c.1, w.1, d.1, p.1⟩,
   ⟨p.2.srcValid, p.2.srcWord, w.2.srcValid, w.2.srcWord, c.2.skipRemoved, c.2.bytesInBuffer, w.2.offset⟩)

/-- outputs cycle by cycle and the state reached -/
def run : State → List In → List Out × State
  | s, [] => ([], s)
  | s, i :: is =>
    let r := run (step s i).1 is
    ((step s i).2 :: r.1, r.2)

end LunaVerif.PhyRx
