/-
Model of `luna.gateware.usb.usb3.application.request.SuperSpeedSetupDecoder` (C48), as repaired by
the `fix:` commit on branch wt-ssep (PARSE_SECOND also leaves on `rx_good`).

The decoder watches the 32-bit receive stream (`sink`: four per-byte valid bits, first, last, data),
the header flag `header_in.setup`, and the verdict strobes `rx_good` / `rx_bad` of the data packet
receiver.  FSM (domain `ss`):

  WAIT_FOR_FIRST : a word with all four bytes valid, `first`, and the setup flag  -> capture word 0
  PARSE_SECOND   : a word with all four bytes valid: `last` -> capture word 1, WAIT_FOR_VALID;
                   not last -> WAIT_FOR_FIRST.   `rx_bad` (later statement wins) -> WAIT_FOR_FIRST.
                   REPAIR: `rx_good | rx_bad` -> WAIT_FOR_FIRST (the unrepaired code ignores rx_good
                   here and stays in PARSE_SECOND for ever after a 4..7 byte setup packet).
  WAIT_FOR_VALID : `rx_good` -> output the captured words, strobe `received`;  `rx_bad` -> drop.

All outputs are registers (`self.packet`), so `out` reads the state before the clock edge.
-/
namespace LunaVerif.SSSetup

inductive Fsm where
  | waitFirst | parseSecond | waitValid
deriving Repr, DecidableEq

structure In where
  valid : Nat      -- sink.valid, 4 bits
  first : Bool
  last  : Bool
  data  : Nat      -- sink.data, 32 bits
  good  : Bool     -- rx_good
  bad   : Bool     -- rx_bad
  setup : Bool     -- header_in.setup
deriving Repr

structure State where
  fsm      : Fsm
  w0       : Nat      -- internal `packet` bits 0..31
  w1       : Nat      -- internal `packet` bits 32..63
  o0       : Nat      -- self.packet bits 0..31   (recipient, type, is_in_request, request, value)
  o1       : Nat      -- self.packet bits 32..63  (index, length)
  received : Bool     -- self.packet.received
deriving Repr

def init : State := ⟨.waitFirst, 0, 0, 0, 0, false⟩

/-- The decoded fields as the `SetupPacket` record lays them out over the two captured words. -/
structure Fields where
  recipient : Nat
  type      : Nat
  isIn      : Nat
  request   : Nat
  value     : Nat
  index     : Nat
  length    : Nat
deriving Repr, DecidableEq

def fieldsOf (o0 o1 : Nat) : Fields :=
  { recipient := o0 % 32
    type      := o0 / 32 % 4
    isIn      := o0 / 128 % 2
    request   := o0 / 256 % 256
    value     := o0 / 65536 % 65536
    index     := o1 % 65536
    length    := o1 / 65536 % 65536 }

structure Out where
  received : Bool
  fields   : Fields
deriving Repr

def out (s : State) : Out := ⟨s.received, fieldsOf s.o0 s.o1⟩

/-- One `ss` clock edge. -/
def next (s : State) (i : In) : State :=
  let allValid := i.valid == 15
  -- m.d.ss += self.packet.received.eq(0)   (default, overridden below)
  let s := { s with received := false }
  match s.fsm with
  | .waitFirst =>
    if allValid && i.first && i.setup then { s with w0 := i.data, fsm := .parseSecond } else s
  | .parseSecond =>
    let a :=
      if allValid then
        (if i.last then { s with w1 := i.data, fsm := .waitValid } else { s with fsm := .waitFirst })
      else s
    if i.bad || i.good then { a with fsm := .waitFirst } else a
  | .waitValid =>
    let a :=
      if i.good then { s with o0 := s.w0, o1 := s.w1, received := true, fsm := .waitFirst } else s
    if i.bad then { a with fsm := .waitFirst } else a

def step (s : State) (i : In) : State × Out := (next s i, out s)

end LunaVerif.SSSetup
