/-
Models of `LFPSDetector` and `LFPSGenerator` (luna/gateware/usb/usb3/physical/lfps.py), C42.

All durations are cycle counts computed by the classes as `ceil(f * t)`; they are `Config` fields.

Detector
  present  = signaling_received through a 2-flop FFSynchronizer (two cycles of delay)
  count    : free-running `count + 1` (mod 2^w, `wrap` = 2^w), overridden by `count.eq(1)`
  delayed  : the register of `rising_edge_detected(m, present)`; because the helper is called inside
             `with m.State("WAIT_FOR_NEXT_BURST")` the register is only updated in that state (it
             keeps a stale 1 through the measuring states), and the edge is only looked at there
  WAIT   : last := 0; on edge (¬delayed ∧ present): count := 1, → BURST
  BURST  : `count == bmax` → WAIT; then (later assignment wins) `¬present`: `count < bmin` → WAIT,
           else → REPEAT (periodic pattern) or `detect` and → WAIT (non-repeating pattern)
  REPEAT : `count == rmax` → WAIT; then (wins) `present`: count := 1, → BURST,
           `count ≥ rmin`: last := 1, detect = last; else last := 0
`detect` is combinational but depends on registers only.

Generator (IDLE / BURST / WAIT) with `count` cleared in IDLE:
  IDLE: generate → drive_electrical_idle, → BURST;  BURST: drive + send, `count+1 == burst` → WAIT;
  WAIT: drive, `count+1 == period` → completed, → IDLE.
-/
namespace LunaVerif.Lfps

namespace Detector

structure Config where
  bmin : Nat
  bmax : Nat
  hasRepeat : Bool
  rmin : Nat
  rmax : Nat
  wrap : Nat          -- 2 ^ (width of the counter)
deriving Repr

inductive Fsm where
  | wait | burst | rep
deriving Repr, DecidableEq

/-- the detector proper, fed with the synchronised `present` -/
structure Core where
  fsm     : Fsm
  count   : Nat
  delayed : Bool
  last    : Bool
deriving Repr

def coreInit : Core := ⟨.wait, 0, false, false⟩

def coreDetect (c : Config) (s : Core) (present : Bool) : Bool :=
  match s.fsm with
  | .wait => false
  | .burst => !c.hasRepeat && (!present && !decide (s.count < c.bmin))
  | .rep => present && (decide (c.rmin ≤ s.count) && s.last)

def coreStep (c : Config) (s : Core) (present : Bool) : Core :=
  let cnt := (s.count + 1) % c.wrap
  match s.fsm with
  | .wait =>
    if !s.delayed && present then ⟨.burst, 1, present, false⟩
    else ⟨.wait, cnt, present, false⟩
  | .burst =>
    if !present then
      if s.count < c.bmin then ⟨.wait, cnt, s.delayed, s.last⟩
      else if c.hasRepeat then ⟨.rep, cnt, s.delayed, s.last⟩
      else ⟨.wait, cnt, s.delayed, s.last⟩
    else if s.count == c.bmax then ⟨.wait, cnt, s.delayed, s.last⟩
    else ⟨.burst, cnt, s.delayed, s.last⟩
  | .rep =>
    if present then ⟨.burst, 1, s.delayed, decide (c.rmin ≤ s.count)⟩
    else if s.count == c.rmax then ⟨.wait, cnt, s.delayed, s.last⟩
    else ⟨.rep, cnt, s.delayed, s.last⟩

/-- full detector: two synchroniser flops in front of the core -/
structure State where
  s1   : Bool
  s2   : Bool      -- `present`
  core : Core
deriving Repr

def init : State := ⟨false, false, coreInit⟩

def step (c : Config) (s : State) (sig : Bool) : State × Bool :=
  (⟨sig, s.s1, coreStep c s.core s.s2⟩, coreDetect c s.core s.s2)

def run (c : Config) : State → List Bool → List Bool
  | _, [] => []
  | s, x :: xs => (step c s x).2 :: run c (step c s x).1 xs

end Detector

namespace Generator

structure Config where
  burst  : Nat      -- ceil(f * burst.t_typ)
  period : Nat      -- ceil(f * repeat.t_typ)  (repeat_cycles)
  wrap   : Nat      -- 2 ^ width of Signal(range(repeat))
deriving Repr

inductive Fsm where
  | idle | burst | wait
deriving Repr, DecidableEq

structure State where
  fsm   : Fsm
  count : Nat
deriving Repr

structure Out where
  drive     : Bool     -- drive_electrical_idle
  send      : Bool     -- send_signaling
  completed : Bool
deriving Repr, DecidableEq

def init : State := ⟨.idle, 0⟩

def step (c : Config) (s : State) (generate : Bool) : State × Out :=
  let cnt := (s.count + 1) % c.wrap
  match s.fsm with
  | .idle => (⟨if generate then .burst else .idle, 0⟩, ⟨generate, false, false⟩)
  | .burst => (⟨if s.count + 1 == c.burst then .wait else .burst, cnt⟩, ⟨true, true, false⟩)
  | .wait =>
    if s.count + 1 == c.period then (⟨.idle, cnt⟩, ⟨true, false, true⟩)
    else (⟨.wait, cnt⟩, ⟨true, false, false⟩)

def run (c : Config) : State → List Bool → List Out
  | _, [] => []
  | s, x :: xs => (step c s x).2 :: run c (step c s x).1 xs

end Generator
end LunaVerif.Lfps
