import LunaVerif.Core.Crc
/-
Model of `luna.gateware.usb.usb3.link.transmitter.RawPacketTransmitter` (C36): the 12-state FSM,
the header latch, the one-word payload pipeline, and the two CRC units (modelled by what they have
absorbed since `clear`; outputs = reference CRCs of Core/Crc.lean, see C30).

Quirks kept: "is a data header" looks at `dw0[0:4] == 8` only (4 bits against the 5-bit constant);
the payload pipeline captures `data_sink.data/valid` whenever the transmitter accepts, whether or
not the sink presents valid data (the producer must keep the stream valid); crc/crc5 fields of the
given header are ignored and recomputed.  Core Lean only.
-/
namespace LunaVerif.RawPacketTransmitter

def HPSTART : Nat := 0xF7FBFBFB      -- SHP SHP SHP EPF
def DPPSTART : Nat := 0xF75C5C5C     -- SDP SDP SDP EPF
def DPPEND : Nat := 0xF7FDFDFD       -- END END END EPF
def DPPABORT : Nat := 0xF77C7C7C     -- EDB EDB EDB EPF
def END : Nat := 0xFD

def wordBytes (w : Nat) : List Nat := [w % 256, w / 256 % 256, w / 65536 % 256, w / 16777216 % 256]

inductive Fsm
  | idle | hpstart | dw0 | dw1 | dw2 | dw3 | startDpp | payload | lastWord | crc | finish | abort
deriving DecidableEq, Repr

structure State where
  fsm       : Fsm
  dw0       : Nat
  dw1       : Nat
  dw2       : Nat
  lcw       : Nat        -- latched link control word: seq[0:3] reserved[3:6] hub_depth[6:9] delayed[9] deferred[10]
  pipeWord  : Nat
  pipeValid : Nat
  isZlp     : Bool
  crc16In   : List Nat
  crc32In   : List Nat
deriving Repr, DecidableEq

structure In where
  dw0       : Nat
  dw1       : Nat
  dw2       : Nat
  lcw       : Nat        -- the header's link-layer fields (11 bit)
  generate  : Bool
  ready     : Bool       -- source.ready
  sinkValid : Nat        -- data_sink.valid (4 bit)
  sinkData  : Nat
  sinkLast  : Bool
deriving Repr

structure Out where
  valid     : Bool
  data      : Nat
  ctrl      : Nat
  done      : Bool
  sinkReady : Bool
deriving Repr, DecidableEq

def init : State := ⟨.idle, 0, 0, 0, 0, 0, 0, false, [], []⟩

def crc16Of (words : List Nat) : Nat := Crc.usb3Crc16 (words.flatMap wordBytes)
def crc32Of (bytes : List Nat) : Nat := Crc.usb3Crc32 bytes
def crc5Of (bits11 : Nat) : Nat := Crc.usb3Crc5 bits11

/-- Bytes the CRC-32 unit absorbs for a `data_sink.valid` pattern (advance_word/3B/2B/1B). -/
def lanes (v : Nat) : Nat := if v == 15 then 4 else if v == 7 then 3 else if v == 3 then 2 else if v == 1 then 1 else 0

def absorb (acc : List Nat) (i : In) : List Nat := acc ++ (wordBytes (i.sinkData % 2 ^ 32)).take (lanes (i.sinkValid % 16))

/-- DWORD 3 as composed in SEND_DW3. -/
def dw3Word (crc16In : List Nat) (lcw : Nat) : Nat := crc16Of crc16In + 2 ^ 16 * lcw + 2 ^ 27 * crc5Of lcw

def lastWordData (pv pw crc : Nat) : Nat :=
  if pv == 7 then pw % 2 ^ 24 + 2 ^ 24 * (crc % 2 ^ 8)
  else if pv == 3 then pw % 2 ^ 16 + 2 ^ 16 * (crc % 2 ^ 16)
  else if pv == 1 then pw % 2 ^ 8 + 2 ^ 8 * (crc % 2 ^ 24)
  else pw

def crcWord (pv crc : Nat) : Nat × Nat :=
  if pv == 15 then (crc, 0)
  else if pv == 7 then (crc / 2 ^ 8 + 2 ^ 24 * END, 0b1000)
  else if pv == 3 then (crc / 2 ^ 16 + 2 ^ 16 * (END + 2 ^ 8 * END), 0b1100)
  else if pv == 1 then (crc / 2 ^ 24 + 2 ^ 8 * (END + 2 ^ 8 * END + 2 ^ 16 * END), 0b1110)
  else (0, 0)

def finishWord (pv : Nat) : Nat × Nat :=
  if pv == 15 then (DPPEND, 0b1111)
  else if pv == 7 then (DPPEND / 2 ^ 8, 0b0111)
  else if pv == 3 then (DPPEND / 2 ^ 16, 0b0011)
  else if pv == 1 then (DPPEND / 2 ^ 24, 0b0001)
  else (0, 0)

def step (s : State) (i : In) : State × Out :=
  match s.fsm with
  | .idle =>
    (if i.generate then
       { s with fsm := .hpstart, dw0 := i.dw0 % 2 ^ 32, dw1 := i.dw1 % 2 ^ 32, dw2 := i.dw2 % 2 ^ 32,
                lcw := i.lcw % 2 ^ 11, crc16In := [], crc32In := [] }
     else { s with crc16In := [], crc32In := [] },
     ⟨false, 0, 0, false, false⟩)
  | .hpstart => ({ s with fsm := if i.ready then .dw0 else .hpstart }, ⟨true, HPSTART, 0xF, false, false⟩)
  | .dw0 =>
    (if i.ready then { s with fsm := .dw1, crc16In := s.crc16In ++ [s.dw0] } else s, ⟨true, s.dw0, 0, false, false⟩)
  | .dw1 =>
    (if i.ready then { s with fsm := .dw2, crc16In := s.crc16In ++ [s.dw1] } else s, ⟨true, s.dw1, 0, false, false⟩)
  | .dw2 =>
    (if i.ready then { s with fsm := .dw3, crc16In := s.crc16In ++ [s.dw2] } else s, ⟨true, s.dw2, 0, false, false⟩)
  | .dw3 =>
    let wasData := s.dw0 % 16 == 8
    (if i.ready then
       (if wasData then { s with fsm := .startDpp, isZlp := i.sinkValid % 16 == 0 } else { s with fsm := .idle })
     else s,
     ⟨true, dw3Word s.crc16In s.lcw, 0, i.ready && !wasData, false⟩)
  | .startDpp =>
    let delayed := s.lcw / 2 ^ 9 % 2 == 1
    let accept := i.ready && !delayed && !s.isZlp
    (if i.ready then
       (if delayed then { s with fsm := .abort }
        else if s.isZlp then { s with fsm := .crc, pipeValid := 15 }
        else { s with fsm := if i.sinkLast then .lastWord else .payload, pipeWord := i.sinkData % 2 ^ 32,
                      pipeValid := i.sinkValid % 16, crc32In := absorb s.crc32In i })
     else s,
     ⟨true, DPPSTART, 0xF, false, accept⟩)
  | .payload =>
    (if i.ready then
       { s with fsm := if i.sinkLast then .lastWord else .payload, pipeWord := i.sinkData % 2 ^ 32,
                pipeValid := i.sinkValid % 16, crc32In := absorb s.crc32In i }
     else s,
     ⟨true, s.pipeWord, 0, false, i.ready⟩)
  | .lastWord =>
    ({ s with fsm := if i.ready then .crc else .lastWord },
     ⟨true, lastWordData s.pipeValid s.pipeWord (crc32Of s.crc32In), 0, false, false⟩)
  | .crc =>
    ({ s with fsm := if i.ready then .finish else .crc },
     ⟨true, (crcWord s.pipeValid (crc32Of s.crc32In)).1, (crcWord s.pipeValid (crc32Of s.crc32In)).2, false, false⟩)
  | .finish =>
    ({ s with fsm := if i.ready then .idle else .finish },
     ⟨true, (finishWord s.pipeValid).1, (finishWord s.pipeValid).2, i.ready, false⟩)
  | .abort =>
    ({ s with fsm := if i.ready then .idle else .abort }, ⟨true, DPPABORT, 0xF, i.ready, false⟩)

def run : State → List In → List (In × Out)
  | _, [] => []
  | s, i :: is => (i, (step s i).2) :: run (step s i).1 is

def final : State → List In → State
  | s, [] => s
  | s, i :: is => final (step s i).1 is

/-- Words transferred to the PHY: cycles with `valid ∧ ready`. -/
def emitted (tr : List (In × Out)) : List (Nat × Nat) :=
  tr.filterMap fun (i, o) => if o.valid && i.ready then some (o.data, o.ctrl) else none

end LunaVerif.RawPacketTransmitter
