import LunaVerif.Model.Usb3.HeaderRx
/-
Model of `luna.gateware.usb.usb3.link.transmitter.PacketTransmitter` (C39), cycle level:

* the `LinkCommandDetector` it instantiates (WAIT_FOR_LCSTART / PARSE_COMMAND, registered
  `new_command`, `command`, `subtype`);
* credit / sequence / pointer bookkeeping: `credits_available`, `packets_to_send`,
  `packets_awaiting_ack`, read / write / ack pointers, four header buffers, `transmit_sequence_number`,
  `next_expected_credit`, `next_expected_ack_number`, `bringup_complete`, `retry_pending`,
  the credit time-out counter and the dispatch FSM (DISPATCH_PACKET / WAIT_FOR_SEND / WAIT_FOR_RETRY);
* the `RawPacketTransmitter` handshake (`generate` / `done`, header latched in IDLE) and its header
  framing HPSTART DW0 DW1 DW2 DW3(crc16, link control word, crc5).  For DATA headers the payload side is
  modelled only for an idle `data_sink` (valid = 0 throughout: the header is followed by a zero-length
  payload SDP.. / CRC-32 of nothing / END.., or by SDP.. / EDB.. when the delayed bit is set); payload
  streaming is the subject of C36.

The model follows the REPAIRED transmitter (`fix:` commit in branch wt-sslink): a further LBAD during a
retransmission round sends the FSM through FLUSH_PACKET so that the packet in flight does not advance
the reloaded read pointer; an LBAD that coincides with the dispatch decision, with the completion of the
last retransmission or with an enqueue is honoured (see notes/C39.md for the four defects of the code as
found).

Later `m.d.ss +=` assignments win: link-command handling comes after the enqueue logic (so the
sequence advertisement overrides `transmit_sequence_number + 1`), the FSM's `retry_pending.eq(0)` comes
after `retry_pending.eq(1)`, and the `~enable` reset block comes last.  Core Lean only.
-/
namespace LunaVerif.PacketTx
open LunaVerif.HeaderRx (Hdr Bufs hpStart lcStart hdrCrc16)

structure Config where
  timeout : Nat      -- credit_timeout_cycles = int(5e-3 * ss_clock_frequency + 1)
  timerMod : Nat     -- 2 ^ width of pending_hp_timer (Signal(range(timeout + 1)))
deriving Repr

inductive Raw | idle | hpstart | dw0 | dw1 | dw2 | dw3 | startDpp | sendCrc | finishDpp | abortDpp
deriving DecidableEq, Repr, Inhabited
inductive Fsm | dispatch | waitSend | waitRetry | flush
deriving DecidableEq, Repr, Inhabited
inductive Det | wait | parse
deriving DecidableEq, Repr, Inhabited

structure State where
  det : Det
  dCmd : Nat
  dSub : Nat
  dNew : Bool            -- lc_detector.new_command (registered strobe)
  raw : Raw
  rHdr : Hdr             -- header latched by the raw transmitter
  credits : Nat          -- credits_available (3 bit)
  pts : Nat              -- packets_to_send (3 bit)
  paa : Nat              -- packets_awaiting_ack (3 bit)
  rp : Nat
  wp : Nat
  ap : Nat
  bufs : Bufs
  txSeq : Nat            -- transmit_sequence_number
  retryPending : Bool
  fsm : Fsm
  nextCredit : Nat       -- next_expected_credit (2 bit)
  nextAck : Nat          -- next_expected_ack_number (3 bit, init 7)
  bringup : Bool         -- bringup_complete
  timer : Nat            -- pending_hp_timer
deriving DecidableEq, Repr, Inhabited

def init : State :=
  { det := .wait, dCmd := 0, dSub := 0, dNew := false, raw := .idle, rHdr := .zero, credits := 0, pts := 0,
    paa := 0, rp := 0, wp := 0, ap := 0, bufs := ⟨.zero, .zero, .zero, .zero⟩, txSeq := 0,
    retryPending := false, fsm := .dispatch, nextCredit := 0, nextAck := 7, bringup := false, timer := 0 }

structure In where
  sinkValid : Bool
  sinkData : Nat
  sinkCtrl : Nat
  srcReady : Bool
  enable : Bool
  qValid : Bool
  qHdr : Hdr
  lrtyPending : Bool
deriving Repr

structure Out where
  srcValid : Bool
  srcData : Nat
  srcCtrl : Nat
  qReady : Bool
  bringup : Bool
  linkCommandReceived : Bool
  retryReceived : Bool
  retryRequired : Bool
  recoveryRequired : Bool
  lgoReceived : Bool
  lgoTarget : Nat
  credits : Nat
  pts : Nat
deriving Repr

def LGOOD : Nat := 0
def LCRD : Nat := 1
def LRTY : Nat := 2
def LBAD : Nat := 3
def LGO_U : Nat := 4
def DATA : Nat := 8

/-- replace the sequence_number field (dw3[16:19]) -/
def setSeq (dw3 s : Nat) : Nat := dw3 - (dw3 / 65536 % 8) * 65536 + (s % 8) * 65536
/-- force the delayed bit (dw3[25]) -/
def setDelayed (dw3 : Nat) : Nat := if dw3 / 33554432 % 2 = 0 then dw3 + 33554432 else dw3
def _root_.LunaVerif.HeaderRx.Hdr.delayed (h : Hdr) : Bool := h.dw3 / 33554432 % 2 == 1
def _root_.LunaVerif.HeaderRx.Hdr.isData (h : Hdr) : Bool := h.dw0 % 16 == DATA

/-- DW3 as the raw transmitter composes it: computed CRC-16, link control word of the latched header,
computed CRC-5. -/
def txDw3 (h : Hdr) : Nat := hdrCrc16 h + h.lcw * 65536 + Crc.usb3Crc5 h.lcw * 134217728

def dppStart : Nat := 0xF75C5C5C
def dppEnd : Nat := 0xF7FDFDFD
def dppAbort : Nat := 0xF77C7C7C
/-- `crc32.crc` of an empty payload -/
def crc32Empty : Nat := 0

/-! ### combinational signals -/

def retryRequired (s : State) : Bool := s.dNew && s.dCmd == LBAD
def retryReceived (s : State) : Bool := s.dNew && s.dCmd == LRTY
def creditReceived (s : State) : Bool := s.dNew && s.dCmd == LCRD && s.nextCredit == s.dSub
def advert (s : State) : Bool := s.dNew && s.dCmd == LGOOD && !s.bringup
def retire (s : State) : Bool := s.dNew && s.dCmd == LGOOD && s.bringup && s.nextAck == s.dSub
def qReady (s : State) : Bool := s.bringup && s.credits != 0
/-- the protocol layer hands over a header (`queue.valid & queue.ready`) -/
def enq (s : State) (i : In) : Bool := i.qValid && qReady s
/-- `packet_tx.done` -/
def rawDone (s : State) (i : In) : Bool :=
  i.srcReady && ((s.raw == .dw3 && !s.rHdr.isData) || s.raw == .finishDpp || s.raw == .abortDpp)
def generate (s : State) (i : In) : Bool :=
  match s.fsm with
  | .dispatch => false | .waitSend => true | .waitRetry => !i.lrtyPending | .flush => false
def deq (s : State) (i : In) : Bool :=
  match s.fsm with
  | .dispatch => false
  | .waitSend => rawDone s i && !s.retryPending
  | .waitRetry => rawDone s i
  | .flush => false
/-- `packet_tx.header` -/
def txHeader (s : State) : Hdr :=
  let h := s.bufs.get s.rp
  if s.fsm == .waitRetry then { h with dw3 := setDelayed h.dw3 } else h
/-- the raw transmitter latches a header this cycle -/
def latch (s : State) (i : In) : Bool := s.raw == .idle && generate s i
def timedOut (c : Config) (s : State) : Bool := s.timer == c.timeout
def recovery (c : Config) (s : State) : Bool :=
  (s.dNew && s.dCmd == LCRD && s.nextCredit != s.dSub) ||
  (s.dNew && s.dCmd == LGOOD && s.bringup && s.nextAck != s.dSub) || timedOut c s

def rawNext (s : State) (i : In) : Raw :=
  match s.raw with
  | .idle => if generate s i then .hpstart else .idle
  | .hpstart => if i.srcReady then .dw0 else .hpstart
  | .dw0 => if i.srcReady then .dw1 else .dw0
  | .dw1 => if i.srcReady then .dw2 else .dw1
  | .dw2 => if i.srcReady then .dw3 else .dw2
  | .dw3 => if i.srcReady then (if s.rHdr.isData then .startDpp else .idle) else .dw3
  | .startDpp => if i.srcReady then (if s.rHdr.delayed then .abortDpp else .sendCrc) else .startDpp
  | .sendCrc => if i.srcReady then .finishDpp else .sendCrc
  | .finishDpp => if i.srcReady then .idle else .finishDpp
  | .abortDpp => if i.srcReady then .idle else .abortDpp

def fsmNext (s : State) (i : In) : Fsm :=
  match s.fsm with
  | .dispatch => if s.bringup && s.pts != 0
      then (if !s.retryPending && !retryRequired s then .waitSend else .waitRetry) else .dispatch
  | .waitSend => if rawDone s i then .dispatch else .waitSend
  | .waitRetry => if retryRequired s then .flush
      else if rawDone s i && s.pts == 1 then .dispatch else .waitRetry
  | .flush => if s.raw == .idle || rawDone s i then .dispatch else .flush

def isLcStart (i : In) : Bool := i.sinkValid && i.sinkData == lcStart && i.sinkCtrl == 15
/-- the word in PARSE_COMMAND is a well-formed link command -/
def lcOk (i : In) : Bool :=
  i.sinkCtrl == 0 && i.sinkData % 65536 == i.sinkData / 65536 % 65536 &&
  i.sinkData % 65536 / 2048 == Crc.usb3Crc5 (i.sinkData % 2048)

def step (c : Config) (s : State) (i : In) : State × Out :=
  let dis := !i.enable
  let parseOk := s.det == .parse && i.sinkValid && lcOk i
  let s' : State :=
    { det := match s.det with
        | .wait => if isLcStart i then .parse else .wait
        | .parse => if i.sinkValid then .wait else .parse
      dCmd := if parseOk then i.sinkData / 128 % 16 else s.dCmd
      dSub := if parseOk then i.sinkData % 16 else s.dSub
      dNew := parseOk
      raw := rawNext s i
      rHdr := if latch s i then txHeader s else s.rHdr
      credits := if dis then 0
        else if creditReceived s && !enq s i then (s.credits + 1) % 8
        else if enq s i && !creditReceived s then (s.credits + 7) % 8 else s.credits
      pts := if dis then 0
        else if retryRequired s then (if enq s i then (s.paa + 1) % 8 else s.paa)
        else if enq s i && !deq s i then (s.pts + 1) % 8
        else if deq s i && !enq s i then (s.pts + 7) % 8 else s.pts
      paa := if dis then 0
        else if enq s i && !retire s then (s.paa + 1) % 8
        else if retire s && !enq s i && s.paa != 0 then (s.paa + 7) % 8 else s.paa
      rp := if dis then 0 else if retryRequired s then s.ap else if deq s i then (s.rp + 1) % 4 else s.rp
      wp := if dis then 0 else if enq s i then (s.wp + 1) % 4 else s.wp
      ap := if dis then 0 else if retire s then (s.ap + 1) % 4 else s.ap
      bufs := if enq s i then s.bufs.set s.wp { i.qHdr with dw3 := setSeq i.qHdr.dw3 s.txSeq } else s.bufs
      txSeq := if advert s then (s.dSub + 1) % 8 else if enq s i then (s.txSeq + 1) % 8 else s.txSeq
      retryPending := if dis then false
        else if s.fsm == .waitRetry && rawDone s i && s.pts == 1 && !retryRequired s then false
        else if retryRequired s then true else s.retryPending
      fsm := fsmNext s i
      nextCredit := if dis then 0 else if creditReceived s then (s.nextCredit + 1) % 4 else s.nextCredit
      nextAck := if advert s then (s.dSub + 1) % 8 else if retire s then (s.nextAck + 1) % 8 else s.nextAck
      bringup := if dis then false else if advert s then true else s.bringup
      timer := if retire s then 0 else if s.paa == 0 || dis then 0 else (s.timer + 1) % c.timerMod }
  let o : Out :=
    { srcValid := s.raw != .idle
      srcData := match s.raw with
        | .idle => 0 | .hpstart => hpStart | .dw0 => s.rHdr.dw0 | .dw1 => s.rHdr.dw1 | .dw2 => s.rHdr.dw2
        | .dw3 => txDw3 s.rHdr | .startDpp => dppStart | .sendCrc => crc32Empty | .finishDpp => dppEnd
        | .abortDpp => dppAbort
      srcCtrl := match s.raw with
        | .hpstart => 15 | .startDpp => 15 | .finishDpp => 15 | .abortDpp => 15 | _ => 0
      qReady := qReady s
      bringup := s.bringup
      linkCommandReceived := s.dNew
      retryReceived := retryReceived s
      retryRequired := retryRequired s
      recoveryRequired := recovery c s
      lgoReceived := s.dNew && s.dCmd == LGO_U
      lgoTarget := if s.dNew && s.dCmd == LGO_U then s.dSub % 4 else 0
      credits := s.credits
      pts := s.pts }
  (s', o)

end LunaVerif.PacketTx
