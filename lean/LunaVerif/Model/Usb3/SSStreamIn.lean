/-
Model of `luna.gateware.usb.usb3.endpoints.stream.SuperSpeedStreamInEndpoint` (C46), cycle level,
as repaired by the six `fix:` commits on branch wt-ssep (header fields driven in every state, sequence
number advanced on every accepting ACK and never on a retry, last word held until tx.ready, NRDY for an
ACK+IN request without data, release of a packet that ended while waiting for the ACK, erdy_required
cleared once the ERDY has been sent) and the two on branch wt-c46b (`erdy_in_flight`: only a `done` that
follows the generator's acceptance of the ERDY request counts; `handshakes_out.endpoint_number` driven).

The model has two layers.  `State`/`In`/`control`/`next`/`out` is the endpoint with the completion of its
ERDY as an input (`In.done`); `HsState`/`HsIn`/`nextHs`/`outHs` (end of this file) is the endpoint as it
is wired: `handshakes_out.ready`, the raw `handshakes_out.done` and the register `erdy_in_flight`, with
`In.done := handshakes_out.done & erdy_in_flight` exactly as REQUEST_IN_TOKEN evaluates it.  The driver and
the co-simulation use the `Hs` layer.

Two ping-pong word buffers (`Memory`, synchronous non-transparent read ports: `rd0`/`rd1` hold the
word addressed in the previous cycle), fill counts in bytes, `stream_ended` flags, the 5-bit
sequence number, the registered `tx` stream, `last_packet_was_zlp`, `erdy_required` and the FSM
WAIT_FOR_DATA / REQUEST_IN_TOKEN / WAIT_TO_SEND / SEND_PACKET / WAIT_FOR_ACK.
`write buffer = ping_pong_toggle`, `read buffer = ~ping_pong_toggle`.
-/
namespace LunaVerif.SSStreamIn

structure Config where
  mps : Nat      -- max_packet_size (bytes, multiple of 4)
  ep  : Nat      -- endpoint_number
  aw  : Nat      -- address width of the buffer memories = bits_for(mps/4 - 1)
deriving Repr

inductive Fsm where
  | waitData | reqIn | waitSend | send | waitAck
deriving Repr, DecidableEq

structure In where
  sValid  : Nat      -- stream.valid (4)
  sLast   : Bool
  sData   : Nat      -- stream.payload (32)
  txReady : Bool     -- interface.tx.ready
  ack     : Bool     -- handshakes_in.ack_received
  hsEp    : Nat      -- handshakes_in.endpoint_number (7)
  retry   : Bool     -- handshakes_in.retry_required
  nextSeq : Nat      -- handshakes_in.next_sequence (5)
  nump    : Nat      -- handshakes_in.number_of_packets (5)
  done    : Bool     -- `handshakes_out.done & erdy_in_flight`: the ERDY requested in REQUEST_IN_TOKEN is complete
  epReset : Bool
deriving Repr

structure State where
  fsm     : Fsm
  seq     : Nat
  toggle  : Bool
  fill0   : Nat
  fill1   : Nat
  ended0  : Bool
  ended1  : Bool
  mem0    : List Nat
  mem1    : List Nat
  rd0     : Nat
  rd1     : Nat
  sendPos : Nat
  txValid : Nat
  txFirst : Bool
  txLast  : Bool
  txData  : Nat
  lpz     : Bool      -- last_packet_was_zlp
  erdyReq : Bool      -- erdy_required
deriving Repr, DecidableEq

def init (c : Config) : State :=
  { fsm := .waitData, seq := 0, toggle := false, fill0 := 0, fill1 := 0, ended0 := false,
    ended1 := false, mem0 := List.replicate (c.mps / 4) 0, mem1 := List.replicate (c.mps / 4) 0,
    rd0 := 0, rd1 := 0, sendPos := 0, txValid := 0, txFirst := false, txLast := false, txData := 0,
    lpz := false, erdyReq := false }

structure Out where
  sReady   : Bool
  txValid  : Nat
  txFirst  : Bool
  txLast   : Bool
  txData   : Nat
  txZlp    : Bool
  txLength : Nat
  txSeq    : Nat
  txEp     : Nat
  sendNrdy : Bool
  sendErdy : Bool
deriving Repr

/-- bytes added by one accepted word (`m.Switch(in_stream.valid)`: only byte-prefix masks count) -/
def validBytes (v : Nat) : Nat :=
  if v = 1 then 1 else if v = 3 then 2 else if v = 7 then 3 else if v = 15 then 4 else 0

def fillW (s : State) : Nat := if s.toggle then s.fill1 else s.fill0
def fillR (s : State) : Nat := if s.toggle then s.fill0 else s.fill1
def endedW (s : State) : Bool := if s.toggle then s.ended1 else s.ended0
def endedR (s : State) : Bool := if s.toggle then s.ended0 else s.ended1
def rdR (s : State) : Nat := if s.toggle then s.rd0 else s.rd1
def memR (s : State) : List Nat := if s.toggle then s.mem0 else s.mem1

def inReady (c : Config) (s : State) : Bool := decide (fillW s + 4 ≤ c.mps) && !endedW s

/-- mask for the last word from `read_fill_count[0:2]` -/
def lastMask (fill : Nat) : Nat :=
  match fill % 4 with
  | 0 => 15 | 1 => 1 | 2 => 3 | _ => 7

/-- Everything the FSM decides in one cycle. -/
structure Ctl where
  fsm      : Fsm
  advance  : Bool := false
  flip     : Bool := false       -- ping_pong_toggle.eq(~ping_pong_toggle)
  clrEndR  : Bool := false       -- read_stream_ended.eq(0)
  clrFillR : Bool := false       -- read_fill_count.eq(0)
  lpz      : Option Bool := none
  setErdy  : Bool := false
  clrErdy  : Bool := false       -- erdy_required.eq(0) when the ERDY has been sent
  txZlp    : Bool := false
  nrdy     : Bool := false
  erdy     : Bool := false
  loadTx   : Bool := false       -- SEND_PACKET moves a word into the tx register
  clrTx    : Bool := false       -- WAIT_FOR_ACK: send_position.eq(0); out_stream.valid.eq(0) once tx.ready
  raddr    : Nat                 -- buffer_read.addr

def control (c : Config) (s : State) (i : In) : Ctl :=
  let ackUs := i.ack && i.hsEp == c.ep
  let isIn  := i.nump != 0
  let inTok := ackUs && isIn
  let v0    := i.sValid % 2 == 1
  let complete := decide (fillW s + 4 ≥ c.mps)
  match s.fsm with
  | .waitData =>
    let ends := (v0 && (complete || i.sLast)) || endedW s
    { fsm := if ends then (if s.erdyReq || inTok then .reqIn else .waitSend) else .waitData
      nrdy := inTok, setErdy := inTok, flip := ends, clrEndR := ends, raddr := s.sendPos }
  | .reqIn =>
    { fsm := if i.done then .waitSend else .reqIn, erdy := true, clrErdy := i.done, raddr := s.sendPos }
  | .waitSend =>
    if inTok then
      if fillR s != 0 then { fsm := .send, lpz := some false, raddr := s.sendPos }
      else { fsm := .waitAck, txZlp := true, clrEndR := true, lpz := some true, raddr := s.sendPos }
    else { fsm := .waitSend, raddr := s.sendPos }
  | .send =>
    if s.txValid == 0 || i.txReady then
      let lastWord := decide ((s.sendPos + 1) * 4 ≥ fillR s)
      { fsm := if lastWord then .waitAck else .send, loadTx := true, raddr := s.sendPos + 1 }
    else { fsm := .send, raddr := s.sendPos }
  | .waitAck =>
    if ackUs then
      let advancing := i.nextSeq == (s.seq + 1) % 32
      if i.retry || !advancing then
        if s.lpz then { fsm := .waitAck, txZlp := true, clrTx := true, raddr := 0 }
        else { fsm := .send, clrTx := true, raddr := 0 }
      else
        let followUp := fillR s == c.mps && endedR s
        if followUp then
          if isIn then
            { fsm := .waitAck, clrFillR := true, txZlp := true, advance := true, clrEndR := true,
              lpz := some true, clrTx := true, raddr := 0 }
          else { fsm := .waitSend, clrFillR := true, advance := true, clrTx := true, raddr := 0 }
        else if !inReady c s || (v0 && complete) then
          { fsm := if isIn then .send else .waitSend, clrFillR := true, advance := true, flip := true,
            clrEndR := true, lpz := if isIn then some false else none, clrTx := true, raddr := 0 }
        else { fsm := .waitData, clrFillR := true, advance := true, nrdy := isIn, setErdy := isIn,
               clrTx := true, raddr := 0 }
    else { fsm := .waitAck, clrTx := true, raddr := 0 }

def out (c : Config) (s : State) (i : In) : Out :=
  let k := control c s i
  { sReady := inReady c s, txValid := s.txValid, txFirst := s.txFirst, txLast := s.txLast,
    txData := s.txData, txZlp := k.txZlp,
    txLength := fillR s, txSeq := if k.advance then (s.seq + 1) % 32 else s.seq,
    txEp := c.ep, sendNrdy := k.nrdy, sendErdy := k.erdy }

def memRead (c : Config) (m : List Nat) (a : Nat) : Nat := m.getD (a % 2 ^ c.aw) 0

def next (c : Config) (s : State) (i : In) : State :=
  let k := control c s i
  let wen := i.sValid != 0 && inReady c s
  let w1 := s.toggle             -- write buffer number = ping_pong_toggle
  let waddr := fillW s / 4
  -- buffers: the write side
  let fillW' := if wen then fillW s + validBytes i.sValid else fillW s
  let endedW' := if i.sLast && wen then true else endedW s
  -- the read side
  let fillR' := if k.clrFillR then 0 else fillR s
  let endedR' := if k.clrEndR then false else endedR s
  let lastWord := decide ((s.sendPos + 1) * 4 ≥ fillR s)
  { fsm := k.fsm
    seq := if i.epReset then 0 else if k.advance then (s.seq + 1) % 32 else s.seq
    toggle := if k.flip then !s.toggle else s.toggle
    fill0 := if w1 then fillR' else fillW'
    fill1 := if w1 then fillW' else fillR'
    ended0 := if w1 then endedR' else endedW'
    ended1 := if w1 then endedW' else endedR'
    mem0 := if wen && !w1 then s.mem0.set waddr i.sData else s.mem0
    mem1 := if wen && w1 then s.mem1.set waddr i.sData else s.mem1
    rd0 := memRead c s.mem0 (if w1 then k.raddr else 0)
    rd1 := memRead c s.mem1 (if w1 then 0 else k.raddr)
    sendPos := if k.clrTx then 0 else if k.loadTx then s.sendPos + 1 else s.sendPos
    txValid := if k.clrTx then (if i.txReady then 0 else s.txValid) else if k.loadTx then (if lastWord then lastMask (fillR s) else 15)
               else s.txValid
    txFirst := if k.loadTx then s.sendPos == 0 else s.txFirst
    txLast := if k.loadTx then lastWord else s.txLast
    txData := if k.loadTx then rdR s else s.txData
    lpz := match k.lpz with | some b => b | none => s.lpz
    erdyReq := if k.clrErdy then false else s.erdyReq || k.setErdy }

def step (c : Config) (s : State) (i : In) : State × Out := (next c s i, out c s i)

/-! ## The endpoint as wired to the transaction packet generator

```
with m.State("REQUEST_IN_TOKEN"):
    m.d.comb += handshakes_out.send_erdy.eq(1)
    with m.If(handshakes_out.ready):
        m.d.ss += erdy_in_flight.eq(1)
    with m.If(handshakes_out.done & erdy_in_flight):
        m.d.ss += [erdy_required.eq(0), erdy_in_flight.eq(0)]
        m.next = "WAIT_TO_SEND"
```
`handshakes_out.done` is pulsed by the generator for every packet it completes (also the NRDY this endpoint
requested a moment ago, also packets of other endpoints); `handshakes_out.ready` is high in the cycles in
which the generator takes a request.  `erdy_in_flight` is touched in REQUEST_IN_TOKEN only. -/

structure HsIn where
  base  : In        -- `base.done` = handshakes_out.done (raw)
  ready : Bool      -- handshakes_out.ready
deriving Repr

structure HsState where
  core   : State
  flight : Bool     -- erdy_in_flight
deriving Repr, DecidableEq

def initHs (c : Config) : HsState := ⟨init c, false⟩

/-- the inputs as the FSM evaluates them: `done` counts only while `erdy_in_flight` -/
def effIn (s : HsState) (i : HsIn) : In := { i.base with done := i.base.done && s.flight }

def nextHs (c : Config) (s : HsState) (i : HsIn) : HsState :=
  { core := next c s.core (effIn s i)
    flight := if s.core.fsm = .reqIn then (if i.base.done && s.flight then false else s.flight || i.ready)
              else s.flight }

structure HsOut where
  base : Out
  hsEp : Nat        -- handshakes_out.endpoint_number (7 bit), driven in every state
deriving Repr

def outHs (c : Config) (s : HsState) (i : HsIn) : HsOut := ⟨out c s.core (effIn s i), c.ep % 128⟩

def stepHs (c : Config) (s : HsState) (i : HsIn) : HsState × HsOut := (nextHs c s i, outHs c s i)

end LunaVerif.SSStreamIn
