import LunaVerif.Model.Usb3.SsWord
/-
Model of `luna.gateware.usb.usb3.physical.alignment.RxWordAligner` and its subclass
`RxPacketAligner` (C34).  They differ only in `word_meets_alignment_criteria`:
  RxWordAligner   : the window is COM COM COM COM (data 0xBCBCBCBC, ctrl 0b1111)
  RxPacketAligner : the window is SHP SHP SHP EPF or SLC SLC SLC EPF with ctrl 0b1111

Registers (domain `ss`): previous_data/previous_ctrl (`prev`, 4 symbols), shift_to_apply (`shift`,
2 bits), and the registered outputs source.data/ctrl (`src`), source.valid (`srcValid`),
alignment_offset (`offset`).  `sink.ready` is constant 1.

Per cycle: `data = Cat(previous, sink)` is the 8-symbol pair; candidate window `i` is symbols
`i … i+3` of it (`shifted_data_slices[i][0:32]`).  Under `If(sink.valid)` the four `If(criteria(window
i))` blocks are emitted for i = 0,1,2,3 in program order, so the LAST matching window wins both for
`shift_to_apply <= i` and for the comb pair `changing_shift = (shift_to_apply != i)`, `new_shift = i`
(comb defaults 0).  Then source.data/ctrl <= window `new_shift` if changing_shift else window
`shift_to_apply` (the register's OLD value), source.valid <= sink.valid, alignment_offset likewise —
in every cycle, also when sink.valid = 0 (then the pair holds whatever is on sink.data).
`previous` is loaded only when sink.valid.
-/
namespace LunaVerif.RxAligner
open LunaVerif.Ss

inductive Kind | word | packet
deriving DecidableEq, Repr

/-- `word_meets_alignment_criteria` on a 4-symbol window. -/
def crit : Kind → List Sym → Bool
  | .word,   w => w == [COM, COM, COM, COM]
  | .packet, w => w == [SHP, SHP, SHP, EPF] || w == [SLC, SLC, SLC, EPF]

structure State where
  prev     : List Sym
  shift    : Nat
  src      : List Sym
  srcValid : Bool
  offset   : Nat
deriving Repr

structure In where
  valid : Bool
  word  : List Sym
deriving Repr

structure Out where
  srcValid  : Bool
  srcWord   : List Sym
  offset    : Nat
  sinkReady : Bool
deriving Repr

def zeros : List Sym := List.replicate 4 Sym.zero

def init : State := ⟨zeros, 0, zeros, false, 0⟩

/-- Candidate window `k` of the 8-symbol pair. -/
def window (k : Nat) (pair : List Sym) : List Sym := (pair.drop k).take 4

/-- The four `If(criteria)` blocks in program order: the last matching window index, if any. -/
def detect (kd : Kind) (pair : List Sym) : Option Nat :=
  [0, 1, 2, 3].foldl (fun acc i => if crit kd (window i pair) then some i else acc) none

/-- The registered (Moore) outputs. -/
def outOf (s : State) : Out := ⟨s.srcValid, s.src, s.offset, true⟩

def next (kd : Kind) (s : State) (i : In) : State :=
  let pair := s.prev ++ i.word
  let det  := if i.valid then detect kd pair else none
  let (changing, newShift) := match det with
    | some k => (k != s.shift, k)
    | none   => (false, 0)
  let eff := if changing then newShift else s.shift
  { prev     := if i.valid then i.word else s.prev
    shift    := match det with | some k => k | none => s.shift
    src      := window eff pair
    srcValid := i.valid
    offset   := eff }

def step (kd : Kind) (s : State) (i : In) : State × Out := (next kd s i, outOf s)

/-- Outputs cycle by cycle (cycle t shows the registers before the edge of cycle t). -/
def run (kd : Kind) : State → List In → List Out
  | _, [] => []
  | s, i :: is => outOf s :: run kd (next kd s i) is

/-- The outputs in the cycle AFTER each input (the registers loaded by that input). -/
def after (kd : Kind) : State → List In → List Out
  | _, [] => []
  | s, i :: is => outOf (next kd s i) :: after kd (next kd s i) is

def final (kd : Kind) : State → List In → State
  | s, [] => s
  | s, i :: is => final kd (next kd s i) is

end LunaVerif.RxAligner
