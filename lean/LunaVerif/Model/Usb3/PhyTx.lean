/-
Model of the TRANSMIT HALF of `USB3PhysicalLayer` (luna/gateware/usb/usb3/physical/layer.py, C31):
the `Scrambler` model of C31 feeding the `CTCSkipInserter` model of C33, wired as `elaborate` wires them

    scrambler = Scrambler(initial_value=0xffff)
    scrambler.enable      = enable_scrambling
    scrambler.sink        = self.sink   (omit 'valid')  ;  scrambler.sink.valid = 1
    tx_ctc.sink           = scrambler.source            (valid, data, ctrl; ready flows back;
                                                         the scrambler does not drive first/last -> 0)
    tx_ctc.can_send_skip  = can_send_skp
    scrambler.hold        = tx_ctc.sending_skip          -- COMBINATIONAL: same cycle
    with m.If(~tx_electrical_idle):  phy.tx_data = tx_ctc.source.data ; phy.tx_datak = tx_ctc.source.ctrl ;
                                     tx_ctc.source.ready = 1        (else all three keep their default 0)

`self.sink.ready = scrambler.sink.ready = scrambler.source.ready = tx_ctc.sink.ready`, which is a REGISTER of the
inserter (`source.stream_eq(sink)` sits in `m.d.ss`).  Neither sub-model is re-typed here: `Scrambler.step` and
`CtcInserter.step` are called as they are.  The inserter's model carries symbols as `Ss.Sym` (byte as Nat), the
scrambler's as bit lists; `toSs` converts.  Core Lean only.
-/
import LunaVerif.Model.Usb3.Scrambler
import LunaVerif.Model.Usb3.CtcSkipInserter

namespace LunaVerif.PhyTx
open LunaVerif.Crc LunaVerif.Scrambler LunaVerif.Ss

structure State where
  reg : Reg                      -- scrambler LFSR
  ctc : CtcInserter.State        -- inserter: debt counters, registered output word, registered sink.ready

structure In where
  syms   : List Symbol           -- sink.data / sink.ctrl   (sink.valid is not connected)
  canSkp : Bool                  -- can_send_skp
  enable : Bool                  -- enable_scrambling
  eidle  : Bool                  -- tx_electrical_idle

structure Out where
  tx        : List Sym           -- phy.tx_data / phy.tx_datak
  sinkReady : Bool               -- sink.ready

def toSs (s : Symbol) : Sym := ⟨ofLsbBits s.d, s.k⟩

/-- `Scrambler(initial_value=0xffff)` -/
def scrInit : Nat := 0xFFFF

def init : State := ⟨initReg scrInit, CtcInserter.init⟩

/-- `tx_ctc.sending_skip`: reads the inserter's debt counter and `can_send_skip`, not the offered word. -/
def sendingSkip (s : State) (i : In) : Bool :=
  CtcInserter.sending s.ctc ⟨⟨true, [], false, false⟩, !i.eidle, i.canSkp⟩

/-- the scrambler's ports in this cycle -/
def scrIn (s : State) (i : In) : Scrambler.In :=
  { clear := false, enable := i.enable, hold := sendingSkip s i, valid := true, syms := i.syms,
    ready := s.ctc.sinkReady }

/-- the inserter's ports in this cycle: the scrambler's (combinational) output beat -/
def ctcIn (s : State) (i : In) : CtcInserter.In :=
  let o := (Scrambler.step scrInit s.reg (scrIn s i)).2
  ⟨⟨o.valid, o.syms.map toSs, false, false⟩, !i.eidle, i.canSkp⟩

def step (s : State) (i : In) : State × Out :=
  let sc := Scrambler.step scrInit s.reg (scrIn s i)
  let ct := CtcInserter.step s.ctc (ctcIn s i)
  (⟨sc.1, ct.1⟩,
   ⟨if i.eidle then List.replicate 4 Sym.zero else ct.2.src.syms, sc.2.sinkReady⟩)

end LunaVerif.PhyTx
